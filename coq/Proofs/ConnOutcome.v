(* For C09 (every awaited operation ends with its result or an error of the library's hierarchy, and with a cancellation only
   when the caller cancelled that very operation): what every function of Model/Conn.v can do to the table of request/response
   calls and to the tasks, and the invariant that ties each awaited call to the one task that awaits it. *)
From Coq Require Import NArith ZArith List Bool Lia PeanoNat.
From RecordUpdate Require Import RecordSet.
From Verif Require Import Generated.GenConstants Model.Conn Proofs.ConnErrors Proofs.ConnReason.
Import ListNotations RecordSetNotations.
Open Scope Z_scope.
Open Scope list_scope.

(* ---------------------------------------------------------------- calls: pointwise evolution *)
Definition benign (f : cfut) : Prop := f = CResult \/ f = CExc PyTimeout \/ exists l, f = CExc (Lib l).
Definition callrel (k k' : call) : Prop :=
  c_id k' = c_id k /\ c_owner k' = c_owner k /\ (c_fut k' = c_fut k \/ (c_fut k = CPending /\ benign (c_fut k'))).

Lemma callrel_refl k : callrel k k.
Proof. unfold callrel. auto. Qed.
Lemma callrel_trans a b c : callrel a b -> callrel b c -> callrel a c.
Proof.
  intros (A1 & A2 & A3) (B1 & B2 & B3). split; [congruence|]. split; [congruence|].
  destruct A3 as [A3|[A3 A4]]; destruct B3 as [B3|[B3 B4]].
  - left. congruence.
  - right. split; [congruence|exact B4].
  - right. split; [exact A3|]. rewrite B3. exact A4.
  - exfalso. rewrite B3 in A4. destruct A4 as [A4|[A4|[l A4]]]; discriminate.
Qed.

Definition callsrel (l l' : list call) : Prop := Forall2 callrel l l'.
Lemma callsrel_refl l : callsrel l l.
Proof. induction l; constructor; [apply callrel_refl|assumption]. Qed.
Lemma callsrel_trans a b c : callsrel a b -> callsrel b c -> callsrel a c.
Proof.
  intro H. revert c. induction H as [|x y l l' Hxy Hl IH]; intros c Hc; inversion Hc; subst; constructor.
  - eapply callrel_trans; eassumption.
  - apply IH. assumption.
Qed.
Lemma callsrel_map l g : (forall k, callrel k (g k)) -> callsrel l (map g l).
Proof. intro H. induction l; cbn; constructor; auto. Qed.

Lemma find_callsrel l l' cid : callsrel l l' ->
  match find (fun k => Nat.eqb (c_id k) cid) l, find (fun k => Nat.eqb (c_id k) cid) l' with
  | Some k, Some k' => callrel k k'
  | None, None => True
  | _, _ => False
  end.
Proof.
  induction 1 as [|x y l l' Hxy Hl IH]; cbn; [exact I|].
  destruct Hxy as (E1 & E2 & E3). rewrite E1. destruct (Nat.eqb (c_id x) cid); [|exact IH].
  unfold callrel. auto.
Qed.

(* the synchronous functions: tasks and the id counter untouched, calls evolve pointwise *)
Record S1 (c c' : conn) : Prop := {
  s_calls : callsrel (calls c) (calls c');
  s_next : next_cid c' = next_cid c;
  s_tf : t_finish c' = t_finish c;
  s_td : t_disc c' = t_disc c;
  s_ct : call_tasks c' = call_tasks c;
  s_ts : t_start c' = t_start c }.

Definition ab (c : conn) := (calls c, next_cid c, t_finish c, t_disc c, call_tasks c, t_start c).
Lemma S1_ab c c' : ab c' = ab c -> S1 c c'.
Proof.
  unfold ab. intro E. injection E as E1 E2 E3 E4 E5 E6. constructor; try assumption. rewrite E1. apply callsrel_refl.
Qed.
Lemma S1_refl c : S1 c c.
Proof. apply S1_ab. reflexivity. Qed.
Lemma S1_trans a b c : S1 a b -> S1 b c -> S1 a c.
Proof. intros [A1 A2 A3 A4 A5 A6] [B1 B2 B3 B4 B5 B6]. constructor; try congruence. eapply callsrel_trans; eassumption. Qed.

Lemma ab_set_start_future c : ab (set_start_future c) = ab c.
Proof. unfold set_start_future. destruct (start_fut c); reflexivity. Qed.
Lemma ab_set_finish_future c : ab (set_finish_future c) = ab c.
Proof. unfold set_finish_future. destruct (finish_fut c); reflexivity. Qed.
Lemma ab_helper_close c : ab (fst (helper_close c)) = ab c.
Proof. unfold helper_close. repeat dm; reflexivity. Qed.
Lemma ab_release c : ab (fst (release_resources c)) = ab c.
Proof.
  unfold release_resources. destruct (helper c).
  - destruct (socket c); reflexivity.
  - pose proof (ab_helper_close c) as H. destruct (helper_close c) as [c1 o1]. cbn [fst] in H.
    destruct (socket _); cbn [fst]; rewrite <- H; reflexivity.
  - pose proof (ab_helper_close c) as H. destruct (helper_close c) as [c1 o1]. cbn [fst] in H.
    destruct (socket _); cbn [fst]; rewrite <- H; reflexivity.
Qed.

Lemma waiter_exc_lib f : exists l, waiter_exc f = Lib l.
Proof. destruct f as [[]|]; cbn; eauto. Qed.

Lemma callrel_fail_waiter f k : callrel k (fail_waiter (waiter_exc f) k).
Proof.
  unfold fail_waiter. destruct (c_fut k) eqn:E; try apply callrel_refl.
  split; [reflexivity|]. split; [reflexivity|]. right. split; [exact E|]. right. right.
  destruct (waiter_exc_lib f) as [l Hl]. exists l. cbn. rewrite Hl. reflexivity.
Qed.

Lemma S1_pre_close c : S1 c (pre_close c).
Proof.
  unfold pre_close.
  match goal with |- S1 c (set_finish_future (set_start_future ?x)) =>
    apply (S1_trans c x); [|apply S1_ab; rewrite ab_set_finish_future, ab_set_start_future; reflexivity] end.
  constructor; try reflexivity. cbn.
  apply callsrel_map. intro k. destruct (existsb _ _); [apply callrel_fail_waiter|apply callrel_refl].
Qed.

Lemma S1_cleanup c : S1 c (fst (cleanup c)).
Proof.
  destruct (cs c) eqn:Ecs; try (unfold cleanup; rewrite Ecs; apply S1_ab, ab_release).
  all: rewrite cleanup_open by congruence;
    pose proof (ab_release (pre_close c)) as H;
    destruct (release_resources (pre_close c)) as [c4 o4]; cbn [fst] in H;
    (apply (S1_trans c (pre_close c)); [apply S1_pre_close|]);
    (apply (S1_trans _ c4); [apply S1_ab; exact H|]);
    destruct (on_stop_armed c4 && is_connected c); cbn [fst]; [apply S1_ab; reflexivity|apply S1_refl].
Qed.
Lemma S1_report_fatal c e : S1 c (fst (report_fatal c e)).
Proof.
  unfold report_fatal. destruct (fatal c); [apply S1_cleanup|].
  apply (S1_trans c (c <| fatal := Some e |>)); [apply S1_ab; reflexivity|apply S1_cleanup].
Qed.
Lemma S1_helper_error c e : S1 c (fst (helper_error c e)).
Proof.
  unfold helper_error. destruct (ready c); try apply S1_report_fatal.
  apply (S1_trans c (c <| ready := RExc e |>)); [apply S1_ab; reflexivity|apply S1_report_fatal].
Qed.
Lemma S1_send_messages c tys : S1 c (fst (fst (send_messages c tys))).
Proof.
  unfold send_messages. destruct (negb (handshake_complete c)); [apply S1_refl|].
  destruct (write_fails c).
  - pose proof (S1_report_fatal c (Lib LSocketClosed)) as H. destruct (report_fatal c (Lib LSocketClosed)) as [c1 o]. exact H.
  - destruct (transport c); apply S1_refl.
Qed.
Lemma send_messages_exc c tys : match snd (send_messages c tys) with None => True | Some e => exists l, e = Lib l end.
Proof.
  unfold send_messages. destruct (negb (handshake_complete c)); [cbn; eauto|].
  destruct (write_fails c).
  - destruct (report_fatal c (Lib LSocketClosed)) as [c1 o]. cbn. eauto.
  - destruct (transport c); exact I.
Qed.

Lemma ab_add c ty h : ab (add_handler c ty h) = ab c.
Proof. unfold add_handler. destruct (existsb _ _); reflexivity. Qed.
Lemma ab_fold_actions l : forall c, ab (fold_left run_action l c) = ab c.
Proof.
  induction l as [|a l IHl]; intro c; cbn [fold_left]; [reflexivity|]. rewrite IHl.
  destruct a; cbn [run_action]; [apply ab_add|reflexivity].
Qed.
Lemma ab_fold_add l h : forall c, ab (fold_left (fun a ty => add_handler a ty h) l c) = ab c.
Proof. induction l as [|a l IHl]; intro c; cbn [fold_left]; [reflexivity|]. rewrite IHl. apply ab_add. Qed.
Lemma ab_fold_remove l h : forall c, ab (fold_left (fun a ty => remove_handler a ty h) l c) = ab c.
Proof. induction l as [|a l IHl]; intro c; cbn [fold_left]; [reflexivity|]. rewrite IHl. reflexivity. Qed.

Lemma S1_upd_call c cid g : (forall k, callrel k (g k)) -> S1 c (upd_call c cid g).
Proof.
  intro H. constructor; try reflexivity. unfold upd_call. cbn.
  apply callsrel_map. intro k. destruct (Nat.eqb _ _); [apply H|apply callrel_refl].
Qed.
Lemma ids_callsrel l l' : callsrel l l' -> map c_id l' = map c_id l.
Proof. induction 1 as [|x y l l' (E & _) _ IH]; cbn; [reflexivity|]. rewrite E, IH. reflexivity. Qed.

Definition uniq (c : conn) : Prop := NoDup (map c_id (calls c)).
Lemma uniq_S1 c c' : S1 c c' -> uniq c -> uniq c'.
Proof. intros [H _ _ _ _ _] U. unfold uniq. rewrite (ids_callsrel _ _ H). exact U. Qed.

Lemma upd_const_unique l cid k k2 : NoDup (map c_id l) -> find (fun x => Nat.eqb (c_id x) cid) l = Some k -> callrel k k2 ->
  callsrel l (map (fun x => if Nat.eqb (c_id x) cid then k2 else x) l).
Proof.
  induction l as [|x l IHl]; cbn; intros U F R; [discriminate|].
  inversion U as [|? ? Hn U']; subst.
  destruct (Nat.eqb (c_id x) cid) eqn:E.
  - apply some_inj in F. subst x. constructor; [exact R|].
    apply Nat.eqb_eq in E.
    assert (Hid : forall y, In y l -> Nat.eqb (c_id y) cid = false).
    { intros y Hy. apply Nat.eqb_neq. intro Q. apply Hn. rewrite E, <- Q. apply in_map. exact Hy. }
    clear - Hid. induction l as [|y l IHl]; cbn; constructor.
    + rewrite (Hid y (or_introl eq_refl)). apply callrel_refl.
    + apply IHl. intros z Hz. apply Hid. right. exact Hz.
  - constructor; [apply callrel_refl|]. apply IHl; assumption.
Qed.

Lemma S1_handle_call_message c cid m : uniq c -> S1 c (handle_call_message c cid m).
Proof.
  intro U. unfold handle_call_message. destruct (get_call c cid) as [k|] eqn:Eg; [|apply S1_refl].
  destruct (c_fut k) eqn:Ef; try apply S1_refl.
  constructor; try reflexivity. unfold upd_call. cbn.
  apply (upd_const_unique (calls c) cid k); [exact U|exact Eg|].
  split; [destruct (eval_pred (c_stop k) m), (eval_pred (c_append k) m); reflexivity|].
  split; [destruct (eval_pred (c_stop k) m), (eval_pred (c_append k) m); reflexivity|].
  destruct (eval_pred (c_stop k) m) eqn:Es.
  - right. split; [exact Ef|]. left. destruct (eval_pred (c_append k) m); reflexivity.
  - left. destruct (eval_pred (c_append k) m); cbn; congruence.
Qed.

Lemma S1_call_handler c h m : uniq c -> S1 c (fst (fst (call_handler c h m))).
Proof.
  intro U. destruct h; cbn [call_handler].
  - set (c1 := c <| expected_disconnect := true |>).
    pose proof (S1_send_messages c1 [T_DISC_RESP]) as H. destruct (send_messages c1 [T_DISC_RESP]) as [[c2 o] ex]. cbn [fst] in H.
    assert (H0 : S1 c c1) by (apply S1_ab; reflexivity).
    destruct ex; cbn [fst]; [eapply S1_trans; eassumption|].
    pose proof (S1_cleanup c2) as H2. destruct (cleanup c2) as [c3 o3]. cbn [fst] in *.
    eapply S1_trans; [exact H0|]. eapply S1_trans; eassumption.
  - apply S1_send_messages.
  - apply S1_send_messages.
  - cbn [fst]. apply S1_handle_call_message. exact U.
  - cbn [fst]. apply S1_ab, ab_fold_actions.
Qed.
Lemma S1_run_handlers hs m : forall c, uniq c -> S1 c (fst (fst (run_handlers c hs m))).
Proof.
  induction hs as [|h hs IHh]; intros c U; cbn [run_handlers fst]; [apply S1_refl|].
  pose proof (S1_call_handler c h m U) as H1. destruct (call_handler c h m) as [[c1 o1] ex]. cbn [fst] in H1.
  destruct ex; cbn [fst]; [exact H1|].
  specialize (IHh c1 (uniq_S1 _ _ H1 U)). destruct (run_handlers c1 hs m) as [[c2 o2] ex2]. cbn [fst] in *.
  eapply S1_trans; eassumption.
Qed.
Lemma S1_process_packet c m : uniq c -> S1 c (fst (fst (process_packet c m))).
Proof.
  intro U. unfold process_packet. destruct (cs c); try (cbn [fst]; apply S1_refl).
  all: destruct (registered (m_ty m)); cbn [negb fst]; [|apply S1_refl];
       (destruct (m_valid m); cbn [negb];
        [ match goal with |- context [run_handlers ?x ?hs ?mm] =>
            assert (H0 : S1 c x) by (apply S1_ab; reflexivity);
            pose proof (S1_run_handlers hs mm x (uniq_S1 _ _ H0 U)) as H; destruct (run_handlers x hs mm) as [[c2 o2] ex2] end;
          cbn [fst] in *; eapply S1_trans; eassumption
        | pose proof (S1_report_fatal c (Lib LProtocol)) as H; destruct (report_fatal c (Lib LProtocol)) as [c1 o];
          cbn [fst] in *; exact H ]).
Qed.
Lemma S1_data_loop items : forall c, uniq c -> S1 c (fst (fst (data_loop c items))).
Proof.
  induction items as [|i items IHi]; intros c U; cbn [data_loop fst]; [apply S1_refl|].
  destruct i as [m|req].
  - pose proof (S1_process_packet c m U) as H1. destruct (process_packet c m) as [[c1 o1] ex]. cbn [fst] in H1.
    destruct ex; cbn [fst]; [exact H1|].
    specialize (IHi c1 (uniq_S1 _ _ H1 U)). destruct (data_loop c1 items) as [[c2 o2] ex2]. cbn [fst] in *.
    eapply S1_trans; eassumption.
  - match goal with |- context [helper_error c ?e] =>
      pose proof (S1_helper_error c e) as H; destruct (helper_error c e) as [c1 o1] end.
    cbn [fst] in *. exact H.
Qed.
Lemma S1_call_finally c cid : S1 c (call_finally c cid).
Proof.
  unfold call_finally. destruct (get_call c cid); [|apply S1_refl].
  match goal with |- context [fold_left ?f ?l ?x] => set (c2 := fold_left f l x) end.
  assert (H : S1 c c2).
  { unfold c2. eapply S1_trans; [|apply S1_ab, ab_fold_remove].
    apply S1_upd_call. intro k. unfold callrel. cbn. auto. }
  eapply S1_trans; [exact H|]. apply S1_ab. reflexivity.
Qed.

(* ---------------------------------------------------------------- part A: what the call futures can hold *)
Definition fut_ok (k : call) : Prop := forall e, c_fut k = CExc e -> e = PyTimeout \/ exists l, e = Lib l.

Record F1 (c : conn) : Prop := {
  f_uniq : NoDup (map c_id (calls c));
  f_lt : Forall (fun k => (c_id k < next_cid c)%nat) (calls c);
  f_fut : Forall fut_ok (calls c) }.

(* calls evolve pointwise (no task clause): closed under everything except call_begin and cancellation *)
Record S0 (c c' : conn) : Prop := {
  z_calls : callsrel (calls c) (calls c');
  z_next : next_cid c' = next_cid c }.
Definition ac (c : conn) := (calls c, next_cid c).
Lemma S0_S1 c c' : S1 c c' -> S0 c c'.
Proof. intros [A B _ _ _ _]. constructor; assumption. Qed.
Lemma S0_ac c c' : ac c' = ac c -> S0 c c'.
Proof. unfold ac. intro E. injection E as E1 E2. constructor; [rewrite E1; apply callsrel_refl|exact E2]. Qed.
Lemma S0_refl c : S0 c c.
Proof. apply S0_ac. reflexivity. Qed.
Lemma S0_trans a b c : S0 a b -> S0 b c -> S0 a c.
Proof. intros [A1 A2] [B1 B2]. constructor; [eapply callsrel_trans; eassumption|congruence]. Qed.

Lemma Forall2_Forall {A} (R : A -> A -> Prop) (P Q : A -> Prop) l l' :
  (forall x y, R x y -> P x -> Q y) -> Forall2 R l l' -> Forall P l -> Forall Q l'.
Proof.
  intros H F. induction F as [|x y l l' Hxy _ IH]; intro G; constructor; inversion G; subst; eauto.
Qed.

Lemma F1_S0 c c' : S0 c c' -> F1 c -> F1 c'.
Proof.
  intros [H N] [U L F]. constructor.
  - rewrite (ids_callsrel _ _ H). exact U.
  - rewrite N. eapply (Forall2_Forall callrel); [|exact H|exact L]. intros x y (E & _) Hx. cbn in *. rewrite E. exact Hx.
  - eapply (Forall2_Forall callrel); [|exact H|exact F]. intros x y (_ & _ & E) Hx e He.
    destruct E as [E|[E1 E2]]; [apply Hx; congruence|].
    destruct E2 as [E2|[E2|[l E2]]]; rewrite E2 in He; try discriminate; injection He as <-; eauto.
Qed.

(* task plumbing does not touch the calls *)
Lemma ac_set_task c t k : ac (set_task c t k) = ac c.
Proof. destruct t; reflexivity. Qed.
Lemma ac_finish_task c t r : ac (fst (finish_task c t r)) = ac c.
Proof. unfold finish_task. cbn [fst]. apply ac_set_task. Qed.
Lemma ac_take_cancel c t : ac (fst (take_cancel c t)) = ac c.
Proof. unfold take_cancel. destruct (must_cancel (get_task c t)); cbn [fst]; [apply ac_set_task|reflexivity]. Qed.
Lemma ac_timeout_exit c t e : ac (fst (timeout_exit c t e)) = ac c.
Proof.
  unfold timeout_exit. destruct (expiring (get_task c t)); [|reflexivity].
  destruct e; cbn [fst]; try apply ac_set_task. destruct (Nat.eqb _ 0); cbn [fst]; apply ac_set_task.
Qed.
Lemma ac_interrupt_exit c t e : ac (fst (interrupt_exit c t e)) = ac c.
Proof.
  unfold interrupt_exit. destruct (interrupted (get_task c t)); [|reflexivity].
  destruct e; cbn [fst]; try reflexivity. destruct (Nat.eqb _ 0); cbn [fst]; apply ac_set_task.
Qed.
Lemma ab_ac c c' : ab c' = ab c -> ac c' = ac c.
Proof. unfold ab, ac. intro E. injection E as E1 E2 _ _ _ _. congruence. Qed.

(* cancellation: a pending future may become cancelled *)
Lemma F1_upd_cancel c cid : F1 c -> F1 (upd_call c cid (fun x => x <| c_fut := CCancelled |>)).
Proof.
  intros [U L F]. unfold upd_call. constructor; cbn.
  - rewrite map_map. erewrite map_ext; [exact U|]. intro k. destruct (Nat.eqb _ _); reflexivity.
  - apply Forall_map. eapply Forall_impl; [|exact L]. intros k Hk. destruct (Nat.eqb _ _); exact Hk.
  - apply Forall_map. eapply Forall_impl; [|exact F]. intros k Hk. destruct (Nat.eqb _ _); [|exact Hk].
    intros e He. discriminate He.
Qed.
Lemma F1_cancel_awaited c t k : F1 c -> F1 (fst (cancel_awaited c t k)).
Proof.
  intro H. unfold cancel_awaited, cancel_efut.
  assert (A : forall cid, F1 (fst match get_call c cid with
                                 | Some kk => match c_fut kk with CPending => (upd_call c cid (fun x => x <| c_fut := CCancelled |>), true) | _ => (c, false) end
                                 | None => (c, false) end)).
  { intro cid. destruct (get_call c cid) as [kk|]; [|exact H]. destruct (c_fut kk); try exact H. apply F1_upd_cancel. exact H. }
  destruct (pc k); try exact H; try apply A.
  - destruct (do_connect c); cbn [fst]; eapply F1_S0; try exact H; apply S0_ac; reflexivity.
  - destruct (do_connect c); cbn [fst]; eapply F1_S0; try exact H; apply S0_ac; reflexivity.
  - destruct (made_waiter c); cbn [fst]; eapply F1_S0; try exact H; apply S0_ac; reflexivity.
  - destruct (ready c); cbn [fst]; eapply F1_S0; try exact H; apply S0_ac; reflexivity.
  - destruct (disc_wait_done c); cbn [fst]; eapply F1_S0; try exact H; apply S0_ac; reflexivity.
Qed.
Lemma F1_cancel_task c t : F1 c -> F1 (cancel_task c t).
Proof.
  intro H. unfold cancel_task. destruct (task_running (get_task c t)); cbn [negb]; [|exact H].
  match goal with |- context [cancel_awaited c t ?k] =>
    pose proof (F1_cancel_awaited c t k H) as H1; destruct (cancel_awaited c t k) as [c1 d] end.
  cbn [fst] in H1. destruct d; (eapply F1_S0; [apply S0_ac, ac_set_task|exact H1]).
Qed.

Lemma NoDup_app_singleton {A} (l : list A) x : NoDup l -> ~ In x l -> NoDup (l ++ [x]).
Proof.
  intros H Hn. induction H as [|y l Hy Hl IH]; cbn; [constructor; [intros []|constructor]|].
  constructor.
  - intro Q. apply in_app_or in Q. destruct Q as [Q|[Q|[]]]; [contradiction|]. apply Hn. left. symmetry. exact Q.
  - apply IH. intro Q. apply Hn. right. exact Q.
Qed.

(* registration of a new call *)
Lemma F1_call_begin c owner send types ap st tmo : F1 c -> F1 (fst (fst (fst (call_begin c owner send types ap st tmo)))).
Proof.
  intro H. unfold call_begin. pose proof (S1_send_messages c send) as H1.
  destruct (send_messages c send) as [[c1 o] ex]. cbn [fst] in H1.
  pose proof (F1_S0 _ _ (S0_S1 _ _ H1) H) as [U L F].
  destruct ex; cbn [fst]; [constructor; assumption|].
  match goal with |- F1 (fold_left ?f ?l ?x) => apply (F1_S0 x); [apply S0_ac, ab_ac, ab_fold_add|] end.
  constructor; cbn.
  - rewrite map_app. cbn. apply NoDup_app_singleton; [exact U|].
    intro Hin. apply in_map_iff in Hin. destruct Hin as (k & Ek & Hk). rewrite Forall_forall in L. specialize (L k Hk). cbn in L. lia.
  - apply Forall_app. split; [eapply Forall_impl; [|exact L]; cbn; intros; lia|]. constructor; [cbn; lia|constructor].
  - apply Forall_app. split; [exact F|]. constructor; [|constructor]. intros e He. discriminate He.
Qed.

(* ---------------------------------------------------------------- outcomes of tasks *)
Definition utask (t : tid) : bool := match t with TDisc | TCall _ => true | _ => false end.
Definition res_ok (t : tid) (r : tres) : Prop :=
  r = TOk \/ (exists l, r = TRaise (Lib l)) \/ (r = TRaise CancelledErr /\ utask t = true).
Definition outs_ok (o : list obs) : Prop := forall t r, In (OTaskDone t r) o -> res_ok t r.

Lemma outs_ok_app a b : outs_ok a -> outs_ok b -> outs_ok (a ++ b).
Proof. intros A B t r H. apply in_app_or in H. destruct H; auto. Qed.
Lemma outs_ok_nodone o : no_done o -> outs_ok o.
Proof. intros H t r Hin. exfalso. exact (H _ _ Hin). Qed.
Lemma outs_ok_nil : outs_ok [].
Proof. intros t r []. Qed.
Lemma outs_ok_one t r : res_ok t r -> outs_ok [OTaskDone t r].
Proof. intros H t' r' [E|[]]. injection E as <- <-. exact H. Qed.
Lemma outs_ok_finish c t r : res_ok t r -> outs_ok (snd (finish_task c t r)).
Proof. intro H. unfold finish_task. cbn [snd]. apply outs_ok_one. exact H. Qed.
Lemma res_ok_wrap t c e : res_ok t (TRaise (wrap_fatal c e)).
Proof. right. left. destruct (wrap_fatal_is_library c e) as [l H]. exists l. rewrite H. reflexivity. Qed.

Lemma no_done_report_fatal c e : no_done (snd (report_fatal c e)).
Proof. unfold report_fatal. destruct (fatal c); apply no_done_cleanup. Qed.
Lemma no_done_helper_error c e : no_done (snd (helper_error c e)).
Proof. unfold helper_error. destruct (ready c); apply no_done_report_fatal. Qed.
Lemma no_done_lit o : forallb (fun x => match x with OTaskDone _ _ => false | _ => true end) o = true -> no_done o.
Proof.
  intros H t r Hin. rewrite forallb_forall in H. specialize (H _ Hin). discriminate.
Qed.
Lemma no_done_send_messages c tys : no_done (snd (fst (send_messages c tys))).
Proof.
  unfold send_messages. destruct (negb (handshake_complete c)); [apply no_done_lit; reflexivity|].
  destruct (write_fails c).
  - pose proof (no_done_report_fatal c (Lib LSocketClosed)) as H. destruct (report_fatal c (Lib LSocketClosed)) as [c1 o]. exact H.
  - destruct (transport c); apply no_done_lit; reflexivity.
Qed.
Lemma no_done_call_handler c h m : no_done (snd (fst (call_handler c h m))).
Proof.
  destruct h; cbn [call_handler].
  - pose proof (no_done_send_messages (c <| expected_disconnect := true |>) [T_DISC_RESP]) as H.
    destruct (send_messages (c <| expected_disconnect := true |>) [T_DISC_RESP]) as [[c2 o] ex]. cbn [fst snd] in H.
    destruct ex; cbn [fst snd]; [exact H|].
    pose proof (no_done_cleanup c2) as H2. destruct (cleanup c2) as [c3 o3]. cbn [fst snd] in *. apply no_done_app; assumption.
  - apply no_done_send_messages.
  - apply no_done_send_messages.
  - apply no_done_lit. reflexivity.
  - apply no_done_lit. reflexivity.
Qed.
Lemma no_done_run_handlers hs m : forall c, no_done (snd (fst (run_handlers c hs m))).
Proof.
  induction hs as [|h hs IHh]; intro c; cbn [run_handlers fst snd]; [apply no_done_lit; reflexivity|].
  pose proof (no_done_call_handler c h m) as H1. destruct (call_handler c h m) as [[c1 o1] ex]. cbn [fst snd] in H1.
  destruct ex; cbn [fst snd]; [exact H1|].
  specialize (IHh c1). destruct (run_handlers c1 hs m) as [[c2 o2] ex2]. cbn [fst snd] in *. apply no_done_app; assumption.
Qed.
Lemma no_done_process_packet c m : no_done (snd (fst (process_packet c m))).
Proof.
  unfold process_packet. destruct (cs c); try (apply no_done_lit; reflexivity).
  all: destruct (registered (m_ty m)); cbn [negb]; [|apply no_done_lit; reflexivity];
       (destruct (m_valid m); cbn [negb];
        [ apply no_done_run_handlers
        | pose proof (no_done_report_fatal c (Lib LProtocol)) as H; destruct (report_fatal c (Lib LProtocol)) as [c1 o]; exact H ]).
Qed.
Lemma no_done_data_loop items : forall c, no_done (snd (fst (data_loop c items))).
Proof.
  induction items as [|i items IHi]; intro c; cbn [data_loop fst snd]; [apply no_done_lit; reflexivity|].
  destruct i as [m|req].
  - pose proof (no_done_process_packet c m) as H1. destruct (process_packet c m) as [[c1 o1] ex]. cbn [fst snd] in H1.
    destruct ex; cbn [fst snd]; [exact H1|].
    specialize (IHi c1). destruct (data_loop c1 items) as [[c2 o2] ex2]. cbn [fst snd] in *. apply no_done_app; assumption.
  - match goal with |- context [helper_error c ?e] =>
      pose proof (no_done_helper_error c e) as H; destruct (helper_error c e) as [c1 o1] end. exact H.
Qed.
Lemma no_done_call_begin c owner send types ap st tmo : no_done (snd (fst (fst (call_begin c owner send types ap st tmo)))).
Proof.
  unfold call_begin. pose proof (no_done_send_messages c send) as H. destruct (send_messages c send) as [[c1 o] ex]. cbn [fst snd] in H.
  destruct ex; exact H.
Qed.
Lemma call_begin_exc c owner send types ap st tmo :
  match snd (fst (call_begin c owner send types ap st tmo)) with None => True | Some e => exists l, e = Lib l end.
Proof.
  unfold call_begin. pose proof (send_messages_exc c send) as H. destruct (send_messages c send) as [[c1 o] ex]. cbn [snd] in H.
  destruct ex; exact H.
Qed.

Lemma call_begin_next c owner send types ap st tmo :
  (next_cid (fst (fst (fst (call_begin c owner send types ap st tmo)))) <= S (next_cid c))%nat.
Proof.
  unfold call_begin. pose proof (S1_send_messages c send) as H. destruct (send_messages c send) as [[c1 o] ex]. cbn [fst] in H.
  destruct H as [_ N _ _ _ _]. destruct ex; cbn [fst]; [lia|].
  match goal with |- (next_cid (fold_left ?f ?l ?x) <= _)%nat =>
    pose proof (ab_fold_add l (HCall (next_cid c1)) x) as Q; unfold ab in Q; injection Q as _ Q _ _ _ _; rewrite Q end.
  cbn. lia.
Qed.

(* outcomes of the two connect phases: never a cancellation *)
Definition res_lib (t : tid) (r : tres) : Prop := r = TOk \/ exists l, r = TRaise (Lib l).
Definition outs_lib (o : list obs) : Prop := forall t r, In (OTaskDone t r) o -> res_lib t r.
Lemma outs_lib_ok o : outs_lib o -> outs_ok o.
Proof. intros H t r Hin. destruct (H t r Hin) as [A|A]; [left; exact A|right; left; exact A]. Qed.
Lemma outs_lib_app a b : outs_lib a -> outs_lib b -> outs_lib (a ++ b).
Proof. intros A B t r H. apply in_app_or in H. destruct H; auto. Qed.
Lemma outs_lib_nodone o : no_done o -> outs_lib o.
Proof. intros H t r Hin. exfalso. exact (H _ _ Hin). Qed.
Lemma outs_lib_nil : outs_lib [].
Proof. intros t r []. Qed.
Lemma outs_lib_finish c t r : res_lib t r -> outs_lib (snd (finish_task c t r)).
Proof. intro H. unfold finish_task. cbn [snd]. intros t' r' [E|[]]. injection E as <- <-. exact H. Qed.
Lemma res_lib_wrap t c e : res_lib t (TRaise (wrap_fatal c e)).
Proof. right. destruct (wrap_fatal_is_library c e) as [l H]. exists l. rewrite H. reflexivity. Qed.

(* ---- start_connection ---- *)
Lemma S0_cleanup c : S0 c (fst (cleanup c)).
Proof. apply S0_S1, S1_cleanup. Qed.

Lemma start_fail_A c e : S0 c (fst (start_fail c e)) /\ outs_lib (snd (start_fail c e)).
Proof.
  unfold start_fail. pose proof (ac_interrupt_exit c TStart e) as H0. destruct (interrupt_exit c TStart e) as [c0 e1]. cbn [fst] in H0.
  set (c1 := c0 <| intr_start := IExited |> <| conn_timer := None |>).
  assert (H1 : S0 c c1) by (apply S0_ac; rewrite <- H0; reflexivity).
  pose proof (S0_cleanup c1) as H2. pose proof (no_done_cleanup c1) as D. destruct (cleanup c1) as [c2 o]. cbn [fst snd] in H2, D.
  pose proof (ac_finish_task (set_start_future c2) TStart (TRaise (wrap_fatal c2 e1))) as H4.
  pose proof (outs_lib_finish (set_start_future c2) TStart (TRaise (wrap_fatal c2 e1)) (res_lib_wrap _ _ _)) as O4.
  destruct (finish_task (set_start_future c2) TStart (TRaise (wrap_fatal c2 e1))) as [c4 o2]. cbn [fst snd] in *. split.
  - eapply S0_trans; [exact H1|]. eapply S0_trans; [exact H2|]. apply S0_ac. rewrite H4. apply ab_ac, ab_set_start_future.
  - apply outs_lib_app; [apply outs_lib_nodone; exact D|exact O4].
Qed.

Lemma cleanup_finish_A c t (mk : conn -> tres) : (forall x, res_lib t (mk x)) ->
  let r := (let '(c3, o) := cleanup c in let '(c4, o2) := finish_task c3 t (mk c3) in (c4, o ++ o2)) in
  S0 c (fst r) /\ outs_lib (snd r).
Proof.
  intro Hr. pose proof (S0_cleanup c) as H. pose proof (no_done_cleanup c) as D. destruct (cleanup c) as [c3 o]. cbn [fst snd] in H, D.
  pose proof (ac_finish_task c3 t (mk c3)) as H2. pose proof (outs_lib_finish c3 t (mk c3) (Hr c3)) as O2.
  destruct (finish_task c3 t (mk c3)) as [c4 o2]. cbn [fst snd] in *. split.
  - eapply S0_trans; [exact H|apply S0_ac; exact H2].
  - apply outs_lib_app; [apply outs_lib_nodone; exact D|exact O2].
Qed.

Lemma start_success_A c : S0 c (fst (start_success c)) /\ outs_lib (snd (start_success c)).
Proof.
  unfold start_success.
  set (c1 := c <| socket := true |> <| sock_obj := false |> <| intr_start := IExited |> <| conn_timer := None |>).
  pose proof (ab_set_start_future c1) as E2. set (c2 := set_start_future c1) in *.
  assert (H2 : S0 c c2) by (apply S0_ac, ab_ac; rewrite E2; reflexivity).
  destruct (cs c2).
  5: { destruct (cleanup_finish_A c2 TStart (fun c3 => TRaise (wrap_fatal c3 Interrupted)) (fun x => res_lib_wrap _ _ _)) as [A B].
       split; [eapply S0_trans; [exact H2|exact A]|exact B]. }
  all: split; [eapply S0_trans; [exact H2|]; apply S0_ac; reflexivity|apply outs_lib_finish; left; reflexivity].
Qed.

Lemma wake_start_A c c' o : wake_start c = Some (c', o) -> S0 c c' /\ outs_lib o.
Proof.
  unfold wake_start. intro E.
  destruct (pc (get_task c TStart)) eqn:Epc; try discriminate.
  - destruct (must_cancel (get_task c TStart) || negb match do_connect c with EPending => true | _ => false end); [|discriminate].
    pose proof (ac_take_cancel c TStart) as E1. destruct (take_cancel c TStart) as [c1 mc]. cbn [fst] in E1.
    match type of E with match ?d with _ => _ end = _ => destruct d as [|e] end.
    + apply some_pair_inv in E. destruct E as [<- <-]. split; [apply S0_ac; rewrite <- E1; reflexivity|apply outs_lib_nil].
    + pose proof (ac_timeout_exit (c1 <| conn_timer := None |>) TStart e) as E2.
      destruct (timeout_exit (c1 <| conn_timer := None |>) TStart e) as [c2 e1]. cbn [fst] in E2.
      apply some_inj in E.
      assert (H2 : S0 c c2) by (apply S0_ac; rewrite E2, <- E1; reflexivity).
      destruct (start_fail_A c2 match e1 with PyTimeout => Lib LResolve | x => x end) as [A B]. rewrite E in A, B. cbn [fst snd] in A, B.
      split; [eapply S0_trans; eassumption|exact B].
  - destruct (must_cancel (get_task c TStart) || negb match do_connect c with EPending => true | _ => false end); [|discriminate].
    pose proof (ac_take_cancel c TStart) as E1. destruct (take_cancel c TStart) as [c1 mc]. cbn [fst] in E1.
    match type of E with match ?d with _ => _ end = _ => destruct d as [|e] end.
    + apply some_inj in E. match type of E with start_success ?x = _ => destruct (start_success_A x) as [A B];
        assert (H0 : S0 c x) by (apply S0_ac; rewrite <- E1; reflexivity) end.
      rewrite E in A, B. cbn [fst snd] in A, B. split; [eapply S0_trans; eassumption|exact B].
    + pose proof (ac_timeout_exit (c1 <| conn_timer := None |>) TStart e) as E2.
      destruct (timeout_exit (c1 <| conn_timer := None |>) TStart e) as [c2 e1]. cbn [fst] in E2.
      assert (H2 : S0 c c2) by (apply S0_ac; rewrite E2, <- E1; reflexivity).
      assert (SF : forall x r, Some (start_fail c2 x) = Some r -> S0 c (fst r) /\ outs_lib (snd r)).
      { intros x r Er. apply some_inj in Er. destruct (start_fail_A c2 x) as [A B]. rewrite Er in A, B.
        split; [eapply S0_trans; eassumption|exact B]. }
      destruct (is_oserror e1).
      * match type of E with match ?g with O => _ | S _ => _ end = _ => destruct g as [|[|g']] end.
        -- exact (SF _ _ E).
        -- exact (SF _ _ E).
        -- apply some_pair_inv in E. destruct E as [<- <-]. split; [eapply S0_trans; [exact H2|]; apply S0_ac; reflexivity|apply outs_lib_nil].
      * exact (SF _ _ E).
Qed.

(* ---- finish_connection ---- *)
Lemma finish_fail_A c e : S0 c (fst (finish_fail c e)) /\ outs_lib (snd (finish_fail c e)).
Proof.
  unfold finish_fail. pose proof (ac_interrupt_exit c TFinish e) as H0. destruct (interrupt_exit c TFinish e) as [c0 e1]. cbn [fst] in H0.
  set (c1 := c0 <| intr_finish := IExited |> <| hs_timer := None |>).
  assert (H1 : S0 c c1) by (apply S0_ac; rewrite <- H0; reflexivity).
  pose proof (S0_cleanup c1) as H2. pose proof (no_done_cleanup c1) as D. destruct (cleanup c1) as [c2 o]. cbn [fst snd] in H2, D.
  pose proof (ac_finish_task (set_finish_future c2) TFinish (TRaise (wrap_fatal c2 e1))) as H4.
  pose proof (outs_lib_finish (set_finish_future c2) TFinish (TRaise (wrap_fatal c2 e1)) (res_lib_wrap _ _ _)) as O4.
  destruct (finish_task (set_finish_future c2) TFinish (TRaise (wrap_fatal c2 e1))) as [c4 o2]. cbn [fst snd] in *. split.
  - eapply S0_trans; [exact H1|]. eapply S0_trans; [exact H2|]. apply S0_ac. rewrite H4. apply ab_ac, ab_set_finish_future.
  - apply outs_lib_app; [apply outs_lib_nodone; exact D|exact O4].
Qed.
Lemma finish_success_A c : S0 c (fst (finish_success c)) /\ outs_lib (snd (finish_success c)).
Proof.
  unfold finish_success. set (c1 := c <| intr_finish := IExited |>).
  pose proof (ab_set_finish_future c1) as E2. set (c2 := set_finish_future c1) in *.
  assert (H2 : S0 c c2) by (apply S0_ac, ab_ac; rewrite E2; reflexivity).
  destruct (cs c2).
  5: { destruct (cleanup_finish_A c2 TFinish (fun c3 => TRaise (wrap_fatal c3 Interrupted)) (fun x => res_lib_wrap _ _ _)) as [A B].
       split; [eapply S0_trans; [exact H2|exact A]|exact B]. }
  all: split; [eapply S0_trans; [exact H2|]; apply S0_ac; reflexivity|apply outs_lib_finish; left; reflexivity].
Qed.

(* F1 c -> F1 c' and classified outcomes: the shape of every remaining lemma *)
Definition A1L (c : conn) (r : conn * list obs) : Prop := F1 c -> F1 (fst r) /\ outs_lib (snd r).
Lemma A1L_S0 c r : S0 c (fst r) /\ outs_lib (snd r) -> A1L c r.
Proof. intros [A B] H. split; [eapply F1_S0; eassumption|exact B]. Qed.

Lemma finish_after_ready_A c : A1L c (finish_after_ready c).
Proof.
  intro H. unfold finish_after_ready. set (c0 := c <| hs_timer := None |>).
  assert (H0 : F1 c0) by (apply (F1_S0 c c0); [apply S0_ac; reflexivity|exact H]).
  destruct (cs c0) eqn:Ecs.
  5: { apply (A1L_S0 c0 _ (finish_fail_A c0 Interrupted) H0). }
  all: match goal with |- context [call_begin ?x ?a ?b ?d ?e ?f ?g] =>
         assert (H1 : F1 x) by (apply (F1_S0 c0 x); [apply S0_ac; unfold internal_handlers; rewrite !(ab_ac _ _ (ab_add _ _ _)); reflexivity|exact H0]);
         pose proof (F1_call_begin x a b d e f g H1) as H2; pose proof (no_done_call_begin x a b d e f g) as D2;
         destruct (call_begin x a b d e f g) as [[[c2 o] ex] cid] end;
       cbn [fst snd] in H2, D2; destruct ex as [e|];
       [ destruct (finish_fail_A c2 e) as [A B]; destruct (finish_fail c2 e) as [c3 o3]; cbn [fst snd] in *;
         split; [eapply F1_S0; eassumption|apply outs_lib_app; [apply outs_lib_nodone; exact D2|exact B]]
       | cbn [fst snd]; split; [exact H2|apply outs_lib_nodone; exact D2] ].
Qed.

Ltac finA E L := apply some_inj in E; let H := fresh "HA" in pose proof L as H; rewrite E in H.

Lemma wake_finish_A c c' o : wake_finish c = Some (c', o) -> A1L c (c', o).
Proof.
  unfold wake_finish. intros E H.
  destruct (pc (get_task c TFinish)) eqn:Epc; try discriminate.
  - (* PF_Create *)
    destruct (must_cancel (get_task c TFinish) || negb match made_waiter c with EPending => true | _ => false end); [|discriminate].
    pose proof (ac_take_cancel c TFinish) as E1. destruct (take_cancel c TFinish) as [c1 mc]. cbn [fst] in E1.
    match type of E with match ?d with _ => _ end = _ => destruct d as [|e] end.
    + set (c2 := c1 <| helper := helper_obj c1 |> <| hs_timer := Some (now c1 + HANDSHAKE_TIMEOUT) |>) in *.
      assert (H2 : F1 c2) by (apply (F1_S0 c c2); [apply S0_ac; rewrite <- E1; reflexivity|exact H]).
      destruct (ready c2).
      * apply some_pair_inv in E. destruct E as [<- <-]. split; [|apply outs_lib_nil].
        eapply F1_S0; [apply S0_ac, ac_set_task|exact H2].
      * finA E (finish_after_ready_A c2 H2). exact HA.
      * match type of E with Some (finish_fail c2 ?x) = _ => finA E (A1L_S0 c2 _ (finish_fail_A c2 x) H2) end. exact HA.
      * finA E (A1L_S0 c2 _ (finish_fail_A c2 CancelledErr) H2). exact HA.
    + match type of E with context [finish_fail ?x e] => set (c2 := x) in *; destruct (finish_fail_A c2 e) as [A B] end.
      assert (H2 : F1 c2) by (apply (F1_S0 c c2); [apply S0_ac; rewrite <- E1; unfold c2; destruct (transport c1); reflexivity|exact H]).
      destruct (finish_fail c2 e) as [c3 o3]. cbn [fst snd] in A, B. apply some_pair_inv in E. destruct E as [<- <-]. cbn [fst snd]. split.
      * eapply F1_S0; eassumption.
      * apply outs_lib_app; [apply outs_lib_nodone, no_done_lit; destruct (transport c1); reflexivity|exact B].
  - (* PF_Ready *)
    destruct (must_cancel (get_task c TFinish) || negb match ready c with RPending => true | _ => false end); [|discriminate].
    pose proof (ac_take_cancel c TFinish) as E1. destruct (take_cancel c TFinish) as [c1 mc]. cbn [fst] in E1.
    assert (H1 : F1 c1) by (apply (F1_S0 c c1); [apply S0_ac; exact E1|exact H]).
    destruct mc.
    + finA E (A1L_S0 c1 _ (finish_fail_A c1 CancelledErr) H1). exact HA.
    + destruct (ready c1).
      * finA E (A1L_S0 c1 _ (finish_fail_A c1 CancelledErr) H1). exact HA.
      * finA E (finish_after_ready_A c1 H1). exact HA.
      * match type of E with Some (finish_fail c1 ?x) = _ => finA E (A1L_S0 c1 _ (finish_fail_A c1 x) H1) end. exact HA.
      * finA E (A1L_S0 c1 _ (finish_fail_A c1 CancelledErr) H1). exact HA.
  - (* PF_Hello *)
    destruct (get_call c cid) as [kk|]; [|discriminate].
    destruct (must_cancel (get_task c TFinish) || cfut_done (c_fut kk)); [|discriminate].
    pose proof (ac_take_cancel c TFinish) as E1. destruct (take_cancel c TFinish) as [c1 mc]. cbn [fst] in E1.
    pose proof (S1_call_finally c1 cid) as Ef. set (c2 := call_finally c1 cid) in *.
    assert (H2 : F1 c2) by (apply (F1_S0 c c2); [eapply S0_trans; [apply S0_ac; exact E1|apply S0_S1; exact Ef]|exact H]).
    match type of E with match ?d with _ => _ end = _ => destruct d as [|e] end.
    + destruct (check_hello_login c2 (c_responses kk)) as [e|].
      * finA E (A1L_S0 c2 _ (finish_fail_A c2 e) H2). exact HA.
      * finA E (A1L_S0 c2 _ (finish_success_A c2) H2). exact HA.
    + finA E (A1L_S0 c2 _ (finish_fail_A c2 e) H2). exact HA.
Qed.

Definition A1 (c : conn) (r : conn * list obs) : Prop := F1 c -> F1 (fst r) /\ outs_ok (snd r).
Lemma A1_S0 c r : S0 c (fst r) /\ outs_ok (snd r) -> A1 c r.
Proof. intros [A B] H. split; [eapply F1_S0; eassumption|exact B]. Qed.
Lemma A1_L c r : A1L c r -> A1 c r.
Proof. intros H F. destruct (H F) as [A B]. split; [exact A|apply outs_lib_ok; exact B]. Qed.

(* ---- disconnect() ---- *)
Lemma res_ok_disc_cancel : res_ok TDisc (TRaise CancelledErr).
Proof. right. right. split; reflexivity. Qed.

Lemma disconnect_after_wait_A c : A1 c (disconnect_after_wait c).
Proof.
  intro H. unfold disconnect_after_wait. set (c1 := c <| expected_disconnect := true |>).
  assert (H1 : F1 c1) by (apply (F1_S0 c c1); [apply S0_ac; reflexivity|exact H]).
  destruct (handshake_complete c1).
  - match goal with |- context [call_begin c1 ?a ?b ?d ?e ?f ?g] =>
      pose proof (F1_call_begin c1 a b d e f g H1) as H2; pose proof (no_done_call_begin c1 a b d e f g) as D2;
      pose proof (call_begin_exc c1 a b d e f g) as X2;
      destruct (call_begin c1 a b d e f g) as [[[c2 o] ex] cid] end.
    cbn [fst snd] in H2, D2, X2. destruct ex as [e|].
    + destruct X2 as [l ->].
      destruct (cleanup_finish_A c2 TDisc (fun _ => TOk) (fun _ => or_introl eq_refl)) as [A B]. apply outs_lib_ok in B.
      destruct (cleanup c2) as [c3 o3]. destruct (finish_task c3 TDisc TOk) as [c4 o4]. cbn [fst snd] in *.
      split; [eapply F1_S0; eassumption|]. apply outs_ok_app; [apply outs_ok_nodone; exact D2|exact B].
    + cbn [fst snd]. split; [eapply F1_S0; [apply S0_ac, ac_set_task|exact H2]|apply outs_ok_nodone; exact D2].
  - destruct (cleanup_finish_A c1 TDisc (fun _ => TOk) (fun _ => or_introl eq_refl)) as [A B]. apply outs_lib_ok in B.
    destruct (cleanup c1) as [c3 o3]. destruct (finish_task c3 TDisc TOk) as [c4 o4]. cbn [fst snd] in *.
    split; [eapply F1_S0; eassumption|exact B].
Qed.

Lemma F1_get_call c cid kk : F1 c -> get_call c cid = Some kk -> fut_ok kk.
Proof.
  intros [_ _ F] E. unfold get_call in E. apply find_some in E. destruct E as [Hin _].
  rewrite Forall_forall in F. exact (F kk Hin).
Qed.

(* what a request/response future hands to its awaiter: the result, a library error, or a cancellation *)
Lemma deliver_cases kk : fut_ok kk ->
  deliver_cfut (c_fut kk) = DOk \/ (exists l, deliver_cfut (c_fut kk) = DExc (Lib l)) \/ deliver_cfut (c_fut kk) = DExc CancelledErr.
Proof.
  intro F. unfold fut_ok in F. destruct (c_fut kk) eqn:E; cbn; auto.
  destruct (F e eq_refl) as [->|[l ->]]; cbn; eauto.
Qed.

Lemma wake_disc_A c c' o : wake_disc c = Some (c', o) -> A1 c (c', o).
Proof.
  unfold wake_disc. intros E H.
  destruct (pc (get_task c TDisc)) eqn:Epc; try discriminate.
  - destruct (must_cancel (get_task c TDisc) || disc_wait_done c); [|discriminate].
    pose proof (ac_take_cancel c TDisc) as E1. destruct (take_cancel c TDisc) as [c1 mc]. cbn [fst] in E1.
    set (c2 := c1 <| disc_timer := None |>) in *.
    assert (H2 : F1 c2) by (apply (F1_S0 c c2); [apply S0_ac; rewrite <- E1; reflexivity|exact H]).
    destruct mc.
    + apply some_inj in E. pose proof (ac_finish_task c2 TDisc (TRaise CancelledErr)) as A.
      pose proof (outs_ok_finish c2 TDisc (TRaise CancelledErr) res_ok_disc_cancel) as B. rewrite E in A, B. cbn [fst snd] in *.
      split; [eapply F1_S0; [apply S0_ac; exact A|exact H2]|exact B].
    + apply some_inj in E.
      match type of E with disconnect_after_wait ?x = _ =>
        assert (H3 : F1 x) by (apply (F1_S0 c2 x); [apply S0_ac; destruct (finish_fut c2); try reflexivity; destruct (fatal c2); reflexivity|exact H2]);
        pose proof (disconnect_after_wait_A x H3) as HA end.
      rewrite E in HA. exact HA.
  - destruct (get_call c cid) as [kk|] eqn:Eg; [|discriminate].
    destruct (must_cancel (get_task c TDisc) || cfut_done (c_fut kk)); [|discriminate].
    pose proof (ac_take_cancel c TDisc) as E1. destruct (take_cancel c TDisc) as [c1 mc]. cbn [fst] in E1.
    pose proof (S1_call_finally c1 cid) as Ef. set (c2 := call_finally c1 cid) in *.
    assert (H2 : F1 c2) by (apply (F1_S0 c c2); [eapply S0_trans; [apply S0_ac; exact E1|apply S0_S1; exact Ef]|exact H]).
    pose proof (deliver_cases kk (F1_get_call c cid kk H Eg)) as DC.
    assert (T1 : forall r, (let '(c3, o) := cleanup c2 in let '(c4, o2) := finish_task c3 TDisc TOk in Some (c4, o ++ o2)) = Some r -> F1 (fst r) /\ outs_ok (snd r)).
    { intros r Er. destruct (cleanup_finish_A c2 TDisc (fun _ => TOk) (fun _ => or_introl eq_refl)) as [A B]. apply outs_lib_ok in B.
      destruct (cleanup c2) as [c3 o3]. destruct (finish_task c3 TDisc TOk) as [c4 o4]. apply some_inj in Er. subst r. cbn [fst snd] in *.
      split; [eapply F1_S0; eassumption|exact B]. }
    assert (T2 : forall r, Some (finish_task c2 TDisc (TRaise CancelledErr)) = Some r -> F1 (fst r) /\ outs_ok (snd r)).
    { intros r Er. apply some_inj in Er. pose proof (ac_finish_task c2 TDisc (TRaise CancelledErr)) as A.
      pose proof (outs_ok_finish c2 TDisc (TRaise CancelledErr) res_ok_disc_cancel) as B. rewrite Er in A, B.
      split; [eapply F1_S0; [apply S0_ac; exact A|exact H2]|exact B]. }
    destruct mc.
    + exact (T2 _ E).
    + destruct DC as [DC|[[l DC]|DC]]; rewrite DC in E; [exact (T1 _ E)|exact (T1 _ E)|exact (T2 _ E)].
Qed.

Lemma wake_call_A c cid c' o : wake_call c cid = Some (c', o) -> A1 c (c', o).
Proof.
  unfold wake_call. intros E H.
  destruct (pc (get_task c (TCall cid))); try discriminate.
  destruct (get_call c cid) as [kk|] eqn:Eg; [|discriminate].
  destruct (must_cancel (get_task c (TCall cid)) || cfut_done (c_fut kk)); [|discriminate].
  pose proof (ac_take_cancel c (TCall cid)) as E1. destruct (take_cancel c (TCall cid)) as [c1 mc]. cbn [fst] in E1.
  pose proof (S1_call_finally c1 cid) as Ef. set (c2 := call_finally c1 cid) in *.
  assert (H2 : F1 c2) by (apply (F1_S0 c c2); [eapply S0_trans; [apply S0_ac; exact E1|apply S0_S1; exact Ef]|exact H]).
  pose proof (deliver_cases kk (F1_get_call c cid kk H Eg)) as DC.
  apply some_inj in E.
  match type of E with finish_task c2 ?t ?r = _ => pose proof (ac_finish_task c2 t r) as A;
    assert (B : res_ok t r) end.
  { destruct mc; [right; right; split; reflexivity|].
    destruct DC as [DC|[[l DC]|DC]]; rewrite DC; [left; reflexivity|right; left; eauto|right; right; split; reflexivity]. }
  match type of E with finish_task c2 ?t ?r = _ => pose proof (outs_ok_finish c2 t r B) as B' end.
  rewrite E in A, B'. cbn [fst snd] in *. split; [eapply F1_S0; [apply S0_ac; exact A|exact H2]|exact B'].
Qed.

(* ---------------------------------------------------------------- every label *)
Ltac sameA E := apply some_pair_inv in E; destruct E as [<- <-]; split; [match goal with HF : F1 ?x |- F1 _ => apply (F1_S0 x); [apply S0_ac; reflexivity|exact HF] end|apply outs_ok_nil].

Theorem step_outcomes c l c' o : F1 c -> step c l = Some (c', o) -> F1 c' /\ outs_ok o.
Proof.
  intros H E. destruct l; cbn [step] in E.
  - (* LStart *) destruct (cs c); try (apply some_pair_inv in E; destruct E as [<- <-]; split; [exact H|apply outs_ok_nodone, no_done_lit; reflexivity]).
    destruct (pc (t_start c)); try discriminate. sameA E.
  - (* LFinish *) destruct (cs c); try (apply some_pair_inv in E; destruct E as [<- <-]; split; [exact H|apply outs_ok_nodone, no_done_lit; reflexivity]).
    destruct (pc (t_finish c)); try discriminate. sameA E.
  - (* LDisconnect *)
    destruct (pc (t_disc c)); try discriminate. destruct (finish_fut c).
    2: sameA E.
    all: apply some_inj in E;
      match type of E with disconnect_after_wait ?x = _ =>
        assert (H3 : F1 x) by (apply (F1_S0 c x); [apply S0_ac; reflexivity|exact H]); pose proof (disconnect_after_wait_A x H3) as HA end;
      rewrite E in HA; exact HA.
  - (* LForce *)
    set (c1 := c <| expected_disconnect := true |>) in *.
    assert (H1 : F1 c1) by (apply (F1_S0 c c1); [apply S0_ac; reflexivity|exact H]).
    destruct (handshake_complete c1).
    + pose proof (S1_send_messages c1 [T_DISC_REQ]) as S. pose proof (no_done_send_messages c1 [T_DISC_REQ]) as D.
      destruct (send_messages c1 [T_DISC_REQ]) as [[c2 o2] ex]. cbn [fst snd] in S, D.
      pose proof (F1_S0 _ _ (S0_S1 _ _ S) H1) as H2.
      destruct ex as [[]|].
      all: try (apply some_pair_inv in E; destruct E as [<- <-]; split; [exact H2|];
                apply outs_ok_app; [apply outs_ok_nodone; exact D|apply outs_ok_nodone, no_done_lit; reflexivity]).
      all: pose proof (S0_cleanup c2) as S2; pose proof (no_done_cleanup c2) as D2; destruct (cleanup c2) as [c3 o3]; cbn [fst snd] in S2, D2;
           apply some_pair_inv in E; destruct E as [<- <-]; (split; [eapply F1_S0; eassumption|]);
           apply outs_ok_app; apply outs_ok_nodone; assumption.
    + pose proof (S0_cleanup c1) as S2. pose proof (no_done_cleanup c1) as D2. destruct (cleanup c1) as [c3 o3]. cbn [fst snd] in S2, D2.
      apply some_pair_inv in E. destruct E as [<- <-]. split; [eapply F1_S0; eassumption|apply outs_ok_nodone; exact D2].
  - (* LCallStart *)
    match type of E with context [call_begin ?x ?a ?b ?d ?e ?f ?g] =>
      assert (H0 : F1 x) by (apply (F1_S0 c x); [apply S0_ac; reflexivity|exact H]);
      pose proof (F1_call_begin x a b d e f g H0) as H2; pose proof (no_done_call_begin x a b d e f g) as D2;
      pose proof (call_begin_exc x a b d e f g) as X2; pose proof (call_begin_next x a b d e f g) as N2;
      destruct (call_begin x a b d e f g) as [[[c1 o1] ex] cid'] end.
    cbn [fst snd] in H2, D2, X2, N2.
    assert (Q : forall v, next_cid (c <| call_tasks := v |>) = next_cid c) by reflexivity. rewrite Q in N2. clear Q.
    destruct ex as [e|].
    + destruct X2 as [l ->].
      match type of E with context [finish_task ?x ?t ?r] =>
        pose proof (ac_finish_task x t r) as A; pose proof (outs_ok_finish x t r ltac:(right; left; eauto)) as B;
        assert (H3 : F1 x) by (constructor; destruct H2 as [U L F]; cbn; [exact U|eapply Forall_impl; [|exact L]; cbn; intros; lia|exact F]);
        destruct (finish_task x t r) as [c3 o3] end.
      cbn [fst snd] in A, B. apply some_pair_inv in E. destruct E as [<- <-].
      split; [match goal with HF : F1 ?x |- F1 _ => apply (F1_S0 x); [apply S0_ac; exact A|exact HF] end|apply outs_ok_app; [apply outs_ok_nodone; exact D2|exact B]].
    + apply some_pair_inv in E. destruct E as [<- <-]. split; [exact H2|apply outs_ok_nodone; exact D2].
  - (* LSend *)
    pose proof (S1_send_messages c tys) as S. pose proof (no_done_send_messages c tys) as D.
    destruct (send_messages c tys) as [[c1 o1] ex]. cbn [fst snd] in S, D.
    apply some_pair_inv in E. destruct E as [<- <-]. split; [eapply F1_S0; [apply S0_S1; exact S|exact H]|].
    apply outs_ok_app; [apply outs_ok_nodone; exact D|apply outs_ok_nodone, no_done_lit; destruct ex; reflexivity].
  - (* LCancel *)
    destruct (task_running (get_task c t)); [|sameA E].
    apply some_pair_inv in E. destruct E as [<- <-]. split; [|apply outs_ok_nil].
    apply F1_cancel_task. match goal with HF : F1 ?x |- F1 _ => apply (F1_S0 x); [apply S0_ac, ac_set_task|exact HF] end.
  - (* LSub *) apply some_pair_inv in E. destruct E as [<- <-]. split; [|apply outs_ok_nil]. match goal with HF : F1 ?x |- F1 _ => apply (F1_S0 x); [apply S0_ac, ab_ac, ab_add|exact HF] end.
  - (* LUnsub *) sameA E.
  - (* LResolveDone *) destruct (pc (t_start c)); try discriminate; destruct (do_connect c); try discriminate; sameA E.
  - (* LTcpDone *) destruct (pc (t_start c)); try discriminate; destruct (do_connect c); try discriminate; sameA E.
  - (* LMade *) destruct (transport c); try discriminate; destruct (made c); try discriminate; destruct (noise c);
      apply some_pair_inv in E; destruct E as [<- <-]; (split; [match goal with HF : F1 ?x |- F1 _ => apply (F1_S0 x); [apply S0_ac; reflexivity|exact HF] end|apply outs_ok_nodone, no_done_lit; reflexivity]).
  - (* LMadeWaiter *) destruct (made_waiter c); try discriminate; sameA E.
  - (* LHelperReady *)
    destruct (ready c); try discriminate; destruct (made c); try discriminate; destruct (transport c); try discriminate.
    destruct r as [e|]; [|sameA E].
    pose proof (S1_helper_error c e) as S. pose proof (no_done_helper_error c e) as D. destruct (helper_error c e) as [c1 o1]. cbn [fst snd] in S, D.
    pose proof (F1_S0 _ _ (S0_S1 _ _ S) H) as H1.
    destruct (transport c1); apply some_pair_inv in E; destruct E as [<- <-];
      (split; [try exact H1; match goal with HF : F1 ?x |- F1 _ => apply (F1_S0 x); [apply S0_ac; reflexivity|exact HF] end|
               apply outs_ok_app; [apply outs_ok_nodone; exact D|apply outs_ok_nodone, no_done_lit; reflexivity]]).
  - (* LData *)
    destruct (transport c); try discriminate; destruct (made c); try discriminate.
    pose proof (S1_data_loop items c (f_uniq c H)) as S. pose proof (no_done_data_loop items c) as D.
    destruct (data_loop c items) as [[c1 o1] ex]. cbn [fst snd] in S, D.
    pose proof (F1_S0 _ _ (S0_S1 _ _ S) H) as H1.
    destruct ex as [e|]; apply some_pair_inv in E; destruct E as [<- <-].
    + split; [destruct (transport c1); try exact H1; (match goal with HF : F1 ?x |- F1 _ => apply (F1_S0 x); [apply S0_ac; reflexivity|exact HF] end)|].
      apply outs_ok_app; [apply outs_ok_nodone; exact D|apply outs_ok_nodone, no_done_lit; reflexivity].
    + split; [exact H1|apply outs_ok_nodone; exact D].
  - (* LEof *)
    destruct (transport c); try discriminate; destruct (made c); try discriminate.
    pose proof (S1_helper_error c (Lib LSocketClosed)) as S. pose proof (no_done_helper_error c (Lib LSocketClosed)) as D.
    destruct (helper_error c (Lib LSocketClosed)) as [c1 o1]. cbn [fst snd] in S, D.
    pose proof (F1_S0 _ _ (S0_S1 _ _ S) H) as H1.
    destruct (transport c1); apply some_pair_inv in E; destruct E as [<- <-];
      (split; [try exact H1; match goal with HF : F1 ?x |- F1 _ => apply (F1_S0 x); [apply S0_ac; reflexivity|exact HF] end|]);
      try (apply outs_ok_nodone; exact D);
      apply outs_ok_app; [apply outs_ok_nodone; exact D|apply outs_ok_nodone, no_done_lit; reflexivity].
  - (* LLost *) destruct (transport c); try discriminate; sameA E.
  - (* LWriteFails *) sameA E.
  - (* LAdvance *) destruct (_ && _); [sameA E|discriminate].
  - (* LWake *)
    destruct t.
    + destruct (wake_start_A c c' o E) as [Sa Oa]. split; [eapply F1_S0; eassumption|apply outs_lib_ok; exact Oa].
    + apply (A1_L c (c', o) (wake_finish_A c c' o E) H).
    + apply (wake_disc_A c c' o E H).
    + apply (wake_call_A c cid c' o E H).
  - (* LIntr *)
    destruct is_start.
    + destruct (start_fut c); try discriminate; destruct (intr_start c); try discriminate; [|sameA E].
      apply some_pair_inv in E. destruct E as [<- <-]. split; [|apply outs_ok_nil].
      apply F1_cancel_task. match goal with HF : F1 ?x |- F1 _ => apply (F1_S0 x); [apply S0_ac; reflexivity|exact HF] end.
    + destruct (finish_fut c); try discriminate; destruct (intr_finish c); try discriminate; [|sameA E].
      apply some_pair_inv in E. destruct E as [<- <-]. split; [|apply outs_ok_nil].
      apply F1_cancel_task. match goal with HF : F1 ?x |- F1 _ => apply (F1_S0 x); [apply S0_ac; reflexivity|exact HF] end.
  - (* LDiscWaitDone *)
    destruct (pc (t_disc c)); try discriminate; destruct (finish_fut c); try discriminate; destruct (disc_wait_done c); try discriminate; sameA E.
  - (* LConnLostCb *)
    destruct (transport c) as [| |e|]; try discriminate.
    set (c1 := c <| transport := TLost |>) in *. destruct (made c1); [|sameA E].
    apply some_inj in E. match type of E with helper_error c1 ?x = _ => pose proof (S1_helper_error c1 x) as S; pose proof (no_done_helper_error c1 x) as D end.
    rewrite E in S, D. cbn [fst snd] in S, D. split; [|apply outs_ok_nodone; exact D].
    eapply F1_S0; [apply S0_S1; exact S|]. match goal with HF : F1 ?x |- F1 _ => apply (F1_S0 x); [apply S0_ac; reflexivity|exact HF] end.
  - (* LTimer *)
    destruct k.
    + destruct (due (ping_timer c) c); [|discriminate].
      set (c0 := c <| ping_timer := None |>) in *.
      assert (H0 : F1 c0) by (apply (F1_S0 c c0); [apply S0_ac; reflexivity|exact H]).
      destruct (send_pending_ping c0); [|sameA E].
      pose proof (S1_send_messages c0 [T_PING_REQ]) as S. pose proof (no_done_send_messages c0 [T_PING_REQ]) as D.
      destruct (send_messages c0 [T_PING_REQ]) as [[c1 o1] ex]. cbn [fst snd] in S, D.
      pose proof (F1_S0 _ _ (S0_S1 _ _ S) H0) as H1.
      destruct ex as [e|]; apply some_pair_inv in E; destruct E as [<- <-].
      * split; [exact H1|apply outs_ok_app; [apply outs_ok_nodone; exact D|apply outs_ok_nodone, no_done_lit; reflexivity]].
      * split; [|apply outs_ok_nodone; exact D]. match goal with HF : F1 ?x |- F1 _ => apply (F1_S0 x); [apply S0_ac; destruct (pong_timer c1); reflexivity|exact HF] end.
    + destruct (due (pong_timer c) c); [|discriminate]. apply some_inj in E.
      pose proof (S1_report_fatal c (Lib LPingFailed)) as S. pose proof (no_done_report_fatal c (Lib LPingFailed)) as D. rewrite E in S, D.
      split; [eapply F1_S0; [apply S0_S1; exact S|exact H]|apply outs_ok_nodone; exact D].
    + destruct (due (hs_timer c) c); [|discriminate]. apply some_pair_inv in E. destruct E as [<- <-]. split; [|apply outs_ok_nil].
      match goal with HF : F1 ?x |- F1 _ => apply (F1_S0 x); [apply S0_ac; destruct (ready c); reflexivity|exact HF] end.
    + destruct (due (conn_timer c) c); [|discriminate]. apply some_pair_inv in E. destruct E as [<- <-]. split; [|apply outs_ok_nil].
      apply F1_cancel_task. match goal with HF : F1 ?x |- F1 _ => apply (F1_S0 x); [apply S0_ac; reflexivity|exact HF] end.
    + destruct (get_call c cid) as [k0|]; [|discriminate]. destruct (due (c_timer k0) c); [|discriminate].
      apply some_pair_inv in E. destruct E as [<- <-]. split; [|apply outs_ok_nil].
      eapply F1_S0; [apply S0_S1, S1_upd_call|exact H].
      intro k. unfold callrel. cbn. split; [destruct (c_fut k); reflexivity|]. split; [destruct (c_fut k); reflexivity|].
      destruct (c_fut k) eqn:Ef; cbn; rewrite ?Ef; auto. right. split; [reflexivity|]. right. left. reflexivity.
    + destruct (pc (t_disc c)); try discriminate. destruct (due (disc_timer c) c); [|discriminate]. sameA E.
Qed.

(* ---------------------------------------------------------------- whole runs *)
Lemma F1_init n e ka scr : F1 (init n e ka scr).
Proof. constructor; cbn; constructor. Qed.

Theorem run_outcomes ls : forall c c' os, F1 c -> run c ls = Some (c', os) -> F1 c' /\ Forall outs_ok os.
Proof.
  induction ls as [|l ls IHl]; intros c c' os H E; cbn [run] in E.
  - apply some_pair_inv in E. destruct E as [<- <-]. split; [exact H|constructor].
  - destruct (step c l) as [[c1 o]|] eqn:Es; [|discriminate].
    destruct (run c1 ls) as [[c2 os2]|] eqn:Er; [|discriminate]. apply some_pair_inv in E. destruct E as [<- <-].
    destruct (step_outcomes c l c1 o H Es) as [H1 O1]. destruct (IHl c1 c2 os2 H1 Er) as [H2 O2].
    split; [exact H2|constructor; assumption].
Qed.

(* every future of the call table of a reachable state holds the result, a time-out, a library error or a cancellation *)
Theorem reachable_futures_classified n e ka scr ls c os k :
  run (init n e ka scr) ls = Some (c, os) -> In k (calls c) -> forall x, c_fut k = CExc x -> x = PyTimeout \/ exists l, x = Lib l.
Proof.
  intros E Hin. destruct (run_outcomes ls _ _ _ (F1_init n e ka scr) E) as [[_ _ F] _].
  rewrite Forall_forall in F. exact (F k Hin).
Qed.
