(* C06: the hello/login decision and the only way finish_connection can succeed. *)
From Coq Require Import NArith ZArith List Bool Lia.
From RecordUpdate Require Import RecordSet.
From Verif Require Import Generated.GenConstants Model.Conn Proofs.ConnSync.
Import ListNotations RecordSetNotations.
Open Scope Z_scope.
Open Scope list_scope.

Definition hello_ok (c : conn) (h : msg) : Prop :=
  m_ty h = T_HELLO_RESP /\ Z.of_N (m_major h) <= MAX_SUPPORTED_MAJOR /\ (m_name h = NameOther -> expect_name c = false).
Definition login_ok (l : msg) : Prop := m_ty l = T_CONNECT_RESP /\ m_invalid_password l = false.

Theorem check_ok_iff c rs :
  check_hello_login c rs = None <->
  exists h r, rs = h :: r /\ hello_ok c h /\ (login c = true -> exists l r', r = l :: r' /\ login_ok l).
Proof.
  unfold check_hello_login, hello_ok, login_ok. split.
  - destruct rs as [|h r]; [discriminate|].
    destruct (N.eqb (m_ty h) T_HELLO_RESP) eqn:E1; cbn [negb]; [|discriminate].
    destruct (Z.ltb MAX_SUPPORTED_MAJOR (Z.of_N (m_major h))) eqn:E2; [discriminate|].
    destruct (match m_name h with NameOther => expect_name c | _ => false end) eqn:E3; [discriminate|].
    intro E. exists h, r. split; [reflexivity|]. split.
    + apply N.eqb_eq in E1. apply Z.ltb_ge in E2. repeat split; auto. intro Hn. rewrite Hn in E3. exact E3.
    + intro Hl. rewrite Hl in E. destruct r as [|l r']; [discriminate|].
      destruct (N.eqb (m_ty l) T_CONNECT_RESP) eqn:E4; cbn [negb] in E; [|discriminate].
      destruct (m_invalid_password l) eqn:E5; [discriminate|]. apply N.eqb_eq in E4. eauto.
  - intros (h & r & -> & (H1 & H2 & H3) & H4).
    apply N.eqb_eq in H1. rewrite H1. cbn [negb]. apply Z.ltb_ge in H2. rewrite H2.
    replace (match m_name h with NameOther => expect_name c | _ => false end) with false
      by (destruct (m_name h); auto; symmetry; apply H3; reflexivity).
    destruct (login c); [|reflexivity]. destruct (H4 eq_refl) as (l & r' & -> & H5 & H6).
    apply N.eqb_eq in H5. rewrite H5, H6. reflexivity.
Qed.

(* the specific errors *)
Theorem incompatible_version c h r :
  m_ty h = T_HELLO_RESP -> MAX_SUPPORTED_MAJOR < Z.of_N (m_major h) -> check_hello_login c (h :: r) = Some (Lib LConn).
Proof. intros H1 H2. unfold check_hello_login. apply N.eqb_eq in H1. rewrite H1. apply Z.ltb_lt in H2. rewrite H2. reflexivity. Qed.
Theorem bad_name c h r :
  m_ty h = T_HELLO_RESP -> Z.of_N (m_major h) <= MAX_SUPPORTED_MAJOR -> m_name h = NameOther -> expect_name c = true ->
  check_hello_login c (h :: r) = Some (Lib LBadName).
Proof.
  intros H1 H2 H3 H4. unfold check_hello_login. apply N.eqb_eq in H1. rewrite H1. apply Z.ltb_ge in H2. rewrite H2, H3, H4. reflexivity.
Qed.
Theorem invalid_auth c h l r :
  hello_ok c h -> login c = true -> m_ty l = T_CONNECT_RESP -> m_invalid_password l = true ->
  check_hello_login c (h :: l :: r) = Some (Lib LInvalidAuth).
Proof.
  intros (H1 & H2 & H3) H4 H5 H6. unfold check_hello_login. apply N.eqb_eq in H1. rewrite H1. apply Z.ltb_ge in H2. rewrite H2.
  replace (match m_name h with NameOther => expect_name c | _ => false end) with false
    by (destruct (m_name h); auto; symmetry; apply H3; reflexivity).
  cbn [negb]. rewrite H4. apply N.eqb_eq in H5. rewrite H5, H6. reflexivity.
Qed.

(* ---- finish_connection returns normally only through finish_success ---- *)
Definition is_finish_ok (x : obs) : bool := match x with OTaskDone TFinish TOk => true | _ => false end.
Definition no_ok (o : list obs) : Prop := existsb is_finish_ok o = false.
Lemma no_ok_app a b : no_ok a -> no_ok b -> no_ok (a ++ b).
Proof. unfold no_ok. intros A B. rewrite existsb_app, A, B. reflexivity. Qed.

Lemma no_ok_helper_close c : no_ok (snd (helper_close c)).
Proof. unfold helper_close. repeat dm; reflexivity. Qed.
Lemma no_ok_release c : no_ok (snd (release_resources c)).
Proof.
  unfold release_resources. destruct (helper c).
  - destruct (socket c); reflexivity.
  - pose proof (no_ok_helper_close c) as D. destruct (helper_close c) as [c' o]. cbn [snd] in D.
    destruct (socket _); cbn [snd]; try apply no_ok_app; auto; reflexivity.
  - pose proof (no_ok_helper_close c) as D. destruct (helper_close c) as [c' o]. cbn [snd] in D.
    destruct (socket _); cbn [snd]; try apply no_ok_app; auto; reflexivity.
Qed.
Lemma no_ok_cleanup c : no_ok (snd (cleanup c)).
Proof.
  unfold cleanup. destruct (cs c); try apply no_ok_release; cbn zeta;
  match goal with |- context [release_resources ?x] =>
    pose proof (no_ok_release x) as D; destruct (release_resources x) as [c4 o] end; cbn [snd] in D;
  destruct (on_stop_armed c4 && _); cbn [snd]; try apply no_ok_app; auto; reflexivity.
Qed.
Lemma no_ok_finish_fail c e : no_ok (snd (finish_fail c e)).
Proof.
  unfold finish_fail. destruct (interrupt_exit c TFinish e) as [c0 e1].
  match goal with |- context [cleanup ?x] => pose proof (no_ok_cleanup x) as D; destruct (cleanup x) as [c2 o] end. cbn [snd] in D.
  unfold finish_task. cbn [snd]. apply no_ok_app; [exact D|reflexivity].
Qed.
Lemma no_ok_send c tys : no_ok (snd (fst (send_messages c tys))).
Proof.
  unfold send_messages. destruct (negb (handshake_complete c)); [reflexivity|]. destruct (write_fails c).
  - unfold report_fatal. destruct (fatal c);
      match goal with |- context [cleanup ?x] => pose proof (no_ok_cleanup x) as D; destruct (cleanup x) as [c2 o] end; exact D.
  - destruct (transport c); reflexivity.
Qed.
Lemma no_ok_finish_after_ready c : no_ok (snd (finish_after_ready c)).
Proof.
  unfold finish_after_ready. destruct (cs _); try apply no_ok_finish_fail;
  unfold call_begin;
  match goal with |- context [send_messages ?x ?t] => pose proof (no_ok_send x t) as D; destruct (send_messages x t) as [[c1 o] ex] end;
  cbn [fst snd] in D; destruct ex; cbn [snd]; try exact D;
  match goal with |- context [finish_fail ?x ?e] => pose proof (no_ok_finish_fail x e) as D2; destruct (finish_fail x e) as [c3 o3] end;
  cbn [snd] in *; apply no_ok_app; assumption.
Qed.

Lemma finish_success_obs c :
  existsb is_finish_ok (snd (finish_success c)) = true ->
  cs (fst (finish_success c)) = Connected /\ is_connected (fst (finish_success c)) = true.
Proof.
  unfold finish_success.
  match goal with |- context [cs ?x] => destruct (cs x) eqn:Ecs end; try (intros _; split; reflexivity).
  match goal with |- context [cleanup ?x] => pose proof (no_ok_cleanup x) as D; destruct (cleanup x) as [c3 o3] end.
  unfold finish_task. cbn [fst snd] in *. intro Hok. rewrite existsb_app, D in Hok. discriminate.
Qed.

Theorem finish_ok_only_if_check c c' o :
  wake_finish c = Some (c', o) -> existsb is_finish_ok o = true ->
  exists cid kk, pc (t_finish c) = PF_Hello cid /\ get_call c cid = Some kk /\ c_fut kk = CResult /\
                 must_cancel (t_finish c) = false /\
                 check_hello_login (call_finally c cid) (c_responses kk) = None /\
                 cs c' = Connected /\ is_connected c' = true.
Proof.
  unfold wake_finish. intros E Hok.
  assert (F : forall x e, Some (finish_fail x e) = Some (c', o) -> False).
  { intros x e Q. injection Q as Q. pose proof (no_ok_finish_fail x e) as D. rewrite Q in D. cbn [snd] in D. unfold no_ok in D. congruence. }
  assert (FR : forall x, Some (finish_after_ready x) = Some (c', o) -> False).
  { intros x Q. injection Q as Q. pose proof (no_ok_finish_after_ready x) as D. rewrite Q in D. cbn [snd] in D. unfold no_ok in D. congruence. }
  change (get_task c TFinish) with (t_finish c) in E.
  destruct (pc (t_finish c)) eqn:Epc; try discriminate.
  - exfalso. destruct (must_cancel (t_finish c) || _); [|discriminate]. destruct (take_cancel c TFinish) as [c1 mc].
    match type of E with match ?d with _ => _ end = _ => destruct d as [|e] end.
    + match type of E with context [ready ?x] => destruct (ready x) end; eauto.
      injection E as E1 E2. subst o. discriminate.
    + match type of E with context [finish_fail ?x e] => pose proof (no_ok_finish_fail x e) as D; destruct (finish_fail x e) as [c3 o3] end.
      injection E as E1 E2. subst o. cbn [snd] in D. unfold no_ok in D. rewrite existsb_app in Hok. rewrite D in Hok.
      destruct (transport c1); discriminate.
  - exfalso. destruct (must_cancel (t_finish c) || _); [|discriminate]. destruct (take_cancel c TFinish) as [c1 mc].
    destruct mc; [eauto|]. destruct (ready c1); eauto.
  - destruct (get_call c cid) as [kk|] eqn:Ek; [|discriminate].
    destruct (must_cancel (t_finish c)) eqn:Emc.
    + exfalso. cbn [orb] in E. unfold take_cancel in E. change (get_task c TFinish) with (t_finish c) in E. rewrite Emc in E. eauto.
    + cbn [orb] in E. destruct (cfut_done (c_fut kk)) eqn:Ed; [|discriminate].
      assert (Etc : take_cancel c TFinish = (c, false)) by (unfold take_cancel; change (get_task c TFinish) with (t_finish c); rewrite Emc; reflexivity).
      rewrite Etc in E.
      destruct (c_fut kk) eqn:Ef; cbn [deliver_cfut] in E; try discriminate.
      * destruct (check_hello_login (call_finally c cid) (c_responses kk)) eqn:Ec; [exfalso; eauto|].
        injection E as E. pose proof (finish_success_obs (call_finally c cid)) as K. rewrite E in K. cbn [fst snd] in K.
        destruct (K Hok) as [K1 K2]. exists cid, kk. repeat split; auto.
      * exfalso. destruct e; eauto.
      * exfalso. eauto.
Qed.
