(* A closed connection is silent: from a closed state no transition writes an application message,
   delivers to a subscriber or calls the stop callback, and the state stays closed. *)
From Coq Require Import NArith ZArith List Bool Lia.
From RecordUpdate Require Import RecordSet.
From Verif Require Import Generated.GenConstants Model.Conn Proofs.ConnSync.
Import ListNotations RecordSetNotations.
Open Scope Z_scope.
Open Scope list_scope.

Definition loud (x : obs) : bool :=
  match x with OWrite (_ :: _) | ODeliver _ _ | OStop _ => true | _ => false end.
Definition quietb (o : list obs) : bool := forallb (fun x => negb (loud x)) o.
Definition CL (c : conn) : Prop := cs c = Closed /\ handshake_complete c = false /\ is_connected c = false.
Definition QS (c : conn) (r : conn * list obs) : Prop := CL c -> CL (fst r) /\ quietb (snd r) = true.

Lemma quietb_app a b : quietb (a ++ b) = quietb a && quietb b.
Proof. apply forallb_app. Qed.

Lemma QS_same c c' o : cs c' = cs c -> handshake_complete c' = handshake_complete c -> is_connected c' = is_connected c ->
  quietb o = true -> QS c (c', o).
Proof. intros A B D Q (H1 & H2 & H3). cbn. unfold CL. rewrite A, B, D. auto. Qed.

Lemma CL_same c c' : cs c' = cs c -> handshake_complete c' = handshake_complete c -> is_connected c' = is_connected c -> CL c -> CL c'.
Proof. intros A B D (H1 & H2 & H3). unfold CL. rewrite A, B, D. auto. Qed.

Lemma QS_helper_close c : QS c (helper_close c).
Proof. unfold helper_close. repeat dm; apply QS_same; reflexivity. Qed.

Lemma QS_release c : QS c (release_resources c).
Proof.
  unfold release_resources. intro H.
  destruct (helper c).
  - destruct (socket c); cbn; split; try reflexivity; exact H.
  - pose proof (QS_helper_close c H) as [A B]. destruct (helper_close c) as [c' o]. cbn [fst snd] in *.
    destruct (socket (c' <| helper := HNone |> <| helper_obj := HClosed |>)); cbn [fst snd]; rewrite ?quietb_app, ?B; cbn; split; try reflexivity; exact A.
  - pose proof (QS_helper_close c H) as [A B]. destruct (helper_close c) as [c' o]. cbn [fst snd] in *.
    destruct (socket (c' <| helper := HNone |> <| helper_obj := HClosed |>)); cbn [fst snd]; rewrite ?quietb_app, ?B; cbn; split; try reflexivity; exact A.
Qed.

Lemma QS_cleanup c : QS c (cleanup c).
Proof. intro H. unfold cleanup. destruct H as (H1 & H2 & H3). rewrite H1. apply QS_release. repeat split; assumption. Qed.

Lemma QS_report_fatal c e : QS c (report_fatal c e).
Proof. intro H. unfold report_fatal. destruct (fatal c); apply QS_cleanup; exact H. Qed.

Lemma send_messages_closed c tys : CL c -> send_messages c tys = (c, [], Some (Lib LNotEstablished)).
Proof. intros (_ & H2 & _). unfold send_messages. rewrite H2. reflexivity. Qed.

Lemma process_packet_closed c m : CL c -> process_packet c m = (c, [], None).
Proof. intros (H1 & _). unfold process_packet. rewrite H1. reflexivity. Qed.

Lemma QS_helper_error c e : QS c (helper_error c e).
Proof. intro H. unfold helper_error. destruct (ready c); apply QS_report_fatal; exact H. Qed.

Lemma QS_data_loop items : forall c, QS c (fst (data_loop c items)).
Proof.
  induction items as [|i items IH]; intros c H; cbn [data_loop fst snd]; [split; [exact H|reflexivity]|].
  destruct i as [m|req].
  - rewrite (process_packet_closed c m H). specialize (IH c H). destruct (data_loop c items) as [[c2 o2] ex2]. cbn [fst snd] in *. exact IH.
  - match goal with |- context [helper_error c ?e] => pose proof (QS_helper_error c e H) as K; destruct (helper_error c e) as [c1 o1] end.
    exact K.
Qed.

Lemma call_begin_closed c owner send types ap st tmo :
  CL c -> call_begin c owner send types ap st tmo = (c, [], Some (Lib LNotEstablished), 0%nat).
Proof. intro H. unfold call_begin. rewrite (send_messages_closed c send H). reflexivity. Qed.

Lemma CL_fold_remove l h : forall c, CL c -> CL (fold_left (fun a ty => remove_handler a ty h) l c).
Proof. induction l as [|a l IH]; intros c H; cbn [fold_left]; [exact H|]. apply IH. exact H. Qed.

Lemma CL_call_finally c cid : CL c -> CL (call_finally c cid).
Proof.
  intro H. unfold call_finally. destruct (get_call c cid); [|exact H].
  match goal with |- CL (?x <| waiters := ?w |>) => apply (CL_same x); try reflexivity end.
  apply CL_fold_remove. exact H.
Qed.

Lemma CL_set_task c t k : CL c -> CL (set_task c t k).
Proof. intro H. destruct t; exact H. Qed.

Lemma QS_finish_task c t r : QS c (finish_task c t r).
Proof. intro H. unfold finish_task. cbn [fst snd]. split; [apply CL_set_task; exact H|reflexivity]. Qed.

Lemma CL_take_cancel c t : CL c -> CL (fst (take_cancel c t)).
Proof. intro H. unfold take_cancel. destruct (must_cancel (get_task c t)); cbn [fst]; [apply CL_set_task|]; exact H. Qed.
Lemma CL_timeout_exit c t e : CL c -> CL (fst (timeout_exit c t e)).
Proof.
  intro H. unfold timeout_exit. destruct (expiring (get_task c t)); [|exact H].
  destruct e; cbn [fst]; try (apply CL_set_task; exact H). destruct (Nat.eqb _ 0); cbn [fst]; apply CL_set_task; exact H.
Qed.
Lemma CL_interrupt_exit c t e : CL c -> CL (fst (interrupt_exit c t e)).
Proof.
  intro H. unfold interrupt_exit. destruct (interrupted (get_task c t)); [|exact H].
  destruct e; cbn [fst]; try exact H. destruct (Nat.eqb _ 0); cbn [fst]; apply CL_set_task; exact H.
Qed.
Lemma CL_set_start_future c : CL c -> CL (set_start_future c).
Proof. intro H. unfold set_start_future. destruct (start_fut c); exact H. Qed.
Lemma CL_set_finish_future c : CL c -> CL (set_finish_future c).
Proof. intro H. unfold set_finish_future. destruct (finish_fut c); exact H. Qed.

(* cleanup followed by finishing a task *)
Lemma QS_cleanup_finish c t (mk : conn -> tres) (post : conn -> conn) :
  (forall x, CL x -> CL (post x)) ->
  QS c (let '(c2, o) := cleanup c in let '(c4, o2) := finish_task (post c2) t (mk c2) in (c4, o ++ o2)).
Proof.
  intros Hp H. pose proof (QS_cleanup c H) as [A B]. destruct (cleanup c) as [c2 o]. cbn [fst snd] in *.
  pose proof (QS_finish_task (post c2) t (mk c2) (Hp _ A)) as [A2 B2]. destruct (finish_task (post c2) t (mk c2)) as [c4 o2].
  cbn [fst snd] in *. rewrite quietb_app, B, B2. auto.
Qed.

Lemma QS_start_fail c e : QS c (start_fail c e).
Proof.
  intro H. unfold start_fail. pose proof (CL_interrupt_exit c TStart e H) as H0. destruct (interrupt_exit c TStart e) as [c0 e1]. cbn [fst] in H0.
  set (c1 := c0 <| intr_start := IExited |> <| conn_timer := None |>).
  pose proof (QS_cleanup_finish c1 TStart (fun c2 => TRaise (wrap_fatal c2 e1)) set_start_future CL_set_start_future H0) as K.
  cbn zeta in K. destruct (cleanup c1) as [c2 o]. destruct (finish_task (set_start_future c2) TStart (TRaise (wrap_fatal c2 e1))) as [c4 o2]. exact K.
Qed.

Lemma QS_finish_fail c e : QS c (finish_fail c e).
Proof.
  intro H. unfold finish_fail. pose proof (CL_interrupt_exit c TFinish e H) as H0. destruct (interrupt_exit c TFinish e) as [c0 e1]. cbn [fst] in H0.
  set (c1 := c0 <| intr_finish := IExited |> <| hs_timer := None |>).
  pose proof (QS_cleanup_finish c1 TFinish (fun c2 => TRaise (wrap_fatal c2 e1)) set_finish_future CL_set_finish_future H0) as K.
  cbn zeta in K. destruct (cleanup c1) as [c2 o]. destruct (finish_task (set_finish_future c2) TFinish (TRaise (wrap_fatal c2 e1))) as [c4 o2]. exact K.
Qed.

Lemma QS_start_success c : QS c (start_success c).
Proof.
  intro H. unfold start_success.
  set (c1 := c <| socket := true |> <| sock_obj := false |> <| intr_start := IExited |> <| conn_timer := None |>).
  assert (H2 : CL (set_start_future c1)) by (apply CL_set_start_future; exact H).
  destruct H2 as (Q1 & Q2 & Q3). rewrite Q1.
  pose proof (QS_cleanup_finish (set_start_future c1) TStart (fun c3 => TRaise (wrap_fatal c3 Interrupted)) (fun x => x) (fun x h => h)) as K.
  cbn zeta in K. destruct (cleanup (set_start_future c1)) as [c3 o]. destruct (finish_task c3 TStart (TRaise (wrap_fatal c3 Interrupted))) as [c4 o2].
  apply K. repeat split; assumption.
Qed.

Ltac qs_done E := injection E as <- <-; cbn [fst snd].

Lemma QS_wake_start c r : wake_start c = Some r -> QS c r.
Proof.
  unfold wake_start. intros E H.
  destruct (pc (get_task c TStart)); try discriminate.
  - destruct (must_cancel (get_task c TStart) || negb match do_connect c with EPending => true | _ => false end); [|discriminate].
    pose proof (CL_take_cancel c TStart H) as H1. destruct (take_cancel c TStart) as [c1 mc]. cbn [fst] in H1.
    match type of E with match ?d with _ => _ end = _ => destruct d as [|e] end.
    + injection E as <-. cbn [fst snd]. split; [|reflexivity]. unfold start_tcp_attempt. apply CL_set_task. exact H1.
    + match type of E with context [timeout_exit ?x TStart e] =>
        pose proof (CL_timeout_exit x TStart e H1) as H2; revert E H2; destruct (timeout_exit x TStart e) as [c2 e1]; cbn [fst]; intros E H2 end.
      injection E as <-. apply QS_start_fail. exact H2.
  - destruct (must_cancel (get_task c TStart) || negb match do_connect c with EPending => true | _ => false end); [|discriminate].
    pose proof (CL_take_cancel c TStart H) as H1. destruct (take_cancel c TStart) as [c1 mc]. cbn [fst] in H1.
    match type of E with match ?d with _ => _ end = _ => destruct d as [|e] end.
    + injection E as <-. apply QS_start_success. exact H1.
    + match type of E with context [timeout_exit ?x TStart e] =>
        pose proof (CL_timeout_exit x TStart e H1) as H2; revert E H2; destruct (timeout_exit x TStart e) as [c2 e1]; cbn [fst]; intros E H2 end.
      destruct (is_oserror e1).
      * destruct groups as [|[|g']]; injection E as <-; try (apply QS_start_fail; exact H2).
        cbn [fst snd]. split; [|reflexivity]. unfold start_tcp_attempt. apply CL_set_task. exact H2.
      * injection E as <-. apply QS_start_fail. exact H2.
Qed.

Lemma QS_finish_after_ready c : QS c (finish_after_ready c).
Proof.
  intro H. unfold finish_after_ready. destruct H as (H1 & H2 & H3).
  change (cs (c <| hs_timer := None |>)) with (cs c). rewrite H1. apply QS_finish_fail. repeat split; assumption.
Qed.

Lemma QS_finish_success c : QS c (finish_success c).
Proof.
  intro H. unfold finish_success.
  set (c1 := c <| intr_finish := IExited |>).
  assert (H2 : CL (set_finish_future c1)) by (apply CL_set_finish_future; exact H).
  destruct H2 as (Q1 & Q2 & Q3). rewrite Q1.
  pose proof (QS_cleanup_finish (set_finish_future c1) TFinish (fun c3 => TRaise (wrap_fatal c3 Interrupted)) (fun x => x) (fun x h => h)) as K.
  cbn zeta in K. destruct (cleanup (set_finish_future c1)) as [c3 o]. destruct (finish_task c3 TFinish (TRaise (wrap_fatal c3 Interrupted))) as [c4 o2].
  apply K. repeat split; assumption.
Qed.

Lemma QS_wake_finish c r : wake_finish c = Some r -> QS c r.
Proof.
  unfold wake_finish. intros E H.
  destruct (pc (get_task c TFinish)); try discriminate.
  - destruct (must_cancel (get_task c TFinish) || negb match made_waiter c with EPending => true | _ => false end); [|discriminate].
    pose proof (CL_take_cancel c TFinish H) as H1. destruct (take_cancel c TFinish) as [c1 mc]. cbn [fst] in H1.
    match type of E with match ?d with _ => _ end = _ => destruct d as [|e] end.
    + set (c2 := c1 <| helper := helper_obj c1 |> <| hs_timer := Some (now c1 + HANDSHAKE_TIMEOUT) |>) in *.
      assert (H2 : CL c2) by exact H1.
      destruct (ready c2); injection E as <-.
      * cbn [fst snd]. split; [exact H2|reflexivity].
      * apply QS_finish_after_ready. exact H2.
      * apply QS_finish_fail. exact H2.
      * apply QS_finish_fail. exact H2.
    + set (c2 := match transport c1 with TOpen => c1 <| transport := TClosing None |> | _ => c1 end) in *.
      assert (H2 : CL c2) by (unfold c2; destruct (transport c1); exact H1).
      pose proof (QS_finish_fail c2 e H2) as [A B]. destruct (finish_fail c2 e) as [c3 o3]. injection E as <-. cbn [fst snd] in *.
      split; [exact A|]. rewrite quietb_app, B. destruct (transport c1); reflexivity.
  - destruct (must_cancel (get_task c TFinish) || negb match ready c with RPending => true | _ => false end); [|discriminate].
    pose proof (CL_take_cancel c TFinish H) as H1. destruct (take_cancel c TFinish) as [c1 mc]. cbn [fst] in H1.
    destruct mc; [injection E as <-; apply QS_finish_fail; exact H1|].
    destruct (ready c1); injection E as <-; try (apply QS_finish_fail; exact H1). apply QS_finish_after_ready. exact H1.
  - destruct (get_call c cid) as [kk|]; [|discriminate].
    destruct (must_cancel (get_task c TFinish) || cfut_done (c_fut kk)); [|discriminate].
    pose proof (CL_take_cancel c TFinish H) as H1. destruct (take_cancel c TFinish) as [c1 mc]. cbn [fst] in H1.
    pose proof (CL_call_finally c1 cid H1) as H2.
    match type of E with match ?d with _ => _ end = _ => destruct d as [|e] end.
    + destruct (check_hello_login (call_finally c1 cid) (c_responses kk)); injection E as <-; [apply QS_finish_fail|apply QS_finish_success]; exact H2.
    + injection E as <-. apply QS_finish_fail. exact H2.
Qed.

Lemma QS_disconnect_after_wait c : QS c (disconnect_after_wait c).
Proof.
  intro H. unfold disconnect_after_wait. set (c1 := c <| expected_disconnect := true |>).
  assert (H1 : CL c1) by exact H. destruct H1 as (Q1 & Q2 & Q3). rewrite Q2.
  pose proof (QS_cleanup_finish c1 TDisc (fun _ => TOk) (fun x => x) (fun x h => h)) as K. cbn zeta in K.
  destruct (cleanup c1) as [c2 o]. destruct (finish_task c2 TDisc TOk) as [c3 o3]. apply K. repeat split; assumption.
Qed.

Lemma QS_wake_disc c r : wake_disc c = Some r -> QS c r.
Proof.
  unfold wake_disc. intros E H.
  destruct (pc (get_task c TDisc)); try discriminate.
  - destruct (must_cancel (get_task c TDisc) || disc_wait_done c); [|discriminate].
    pose proof (CL_take_cancel c TDisc H) as H1. destruct (take_cancel c TDisc) as [c1 mc]. cbn [fst] in H1.
    set (c2 := c1 <| disc_timer := None |>) in *. assert (H2 : CL c2) by exact H1.
    destruct mc; injection E as <-; [apply QS_finish_task; exact H2|].
    apply QS_disconnect_after_wait. destruct (finish_fut c1); try exact H2. destruct (fatal c1); exact H2.
  - destruct (get_call c cid) as [kk|]; [|discriminate].
    destruct (must_cancel (get_task c TDisc) || cfut_done (c_fut kk)); [|discriminate].
    pose proof (CL_take_cancel c TDisc H) as H1. destruct (take_cancel c TDisc) as [c1 mc]. cbn [fst] in H1.
    pose proof (CL_call_finally c1 cid H1) as H2. set (c2 := call_finally c1 cid) in *.
    pose proof (QS_cleanup_finish c2 TDisc (fun _ => TOk) (fun x => x) (fun x h => h) H2) as K. cbn zeta in K.
    match type of E with match ?d with _ => _ end = _ => destruct d as [|[l| | | | |]] end.
    1,2: revert E; destruct (cleanup c2) as [c3 o3]; destruct (finish_task c3 TDisc TOk) as [c4 o4]; intro E; injection E as <-; exact K.
    all: injection E as <-; apply QS_finish_task; exact H2.
Qed.

Lemma QS_wake_call c cid r : wake_call c cid = Some r -> QS c r.
Proof.
  unfold wake_call. intros E H.
  destruct (pc (get_task c (TCall cid))); try discriminate.
  destruct (get_call c cid) as [kk|]; [|discriminate].
  destruct (must_cancel (get_task c (TCall cid)) || cfut_done (c_fut kk)); [|discriminate].
  pose proof (CL_take_cancel c (TCall cid) H) as H1. destruct (take_cancel c (TCall cid)) as [c1 mc]. cbn [fst] in H1.
  injection E as <-. apply QS_finish_task. apply CL_call_finally. exact H1.
Qed.

Lemma CL_cancel_task c t : CL c -> CL (cancel_task c t).
Proof.
  intro H. unfold cancel_task. destruct (task_running (get_task c t)); cbn [negb]; [|exact H].
  match goal with |- context [cancel_awaited c t ?k] => assert (H1 : CL (fst (cancel_awaited c t k))) end.
  { unfold cancel_awaited, cancel_efut. repeat dm; cbn [fst]; exact H. }
  match goal with |- context [cancel_awaited c t ?k] => destruct (cancel_awaited c t k) as [c1 d] end.
  cbn [fst] in H1. destruct d; apply CL_set_task; exact H1.
Qed.

Ltac dmh E :=
  match type of E with
  | context [match ?x with _ => _ end] =>
    lazymatch x with
    | context [match _ with _ => _ end] => fail
    | _ => destruct x eqn:?
    end
  end.
Ltac qsame E H := injection E as <-; cbn [fst snd]; split; [exact H|reflexivity].

Theorem closed_quiet c l r : step c l = Some r -> QS c r.
Proof.
  destruct l; cbn [step]; intros E H; pose proof H as (H1 & H2 & H3).
  - rewrite H1 in E. qsame E H.
  - rewrite H1 in E. qsame E H.
  - destruct (pc (t_disc c)); try discriminate.
    destruct (finish_fut c); try (injection E as <-; apply QS_disconnect_after_wait; exact H).
    qsame E H.
  - change (handshake_complete (c <| expected_disconnect := true |>)) with (handshake_complete c) in E. rewrite H2 in E.
    match type of E with context [cleanup ?x] => pose proof (QS_cleanup x H) as K; revert E K; destruct (cleanup x) as [c3 o3]; intros E K end.
    injection E as <-. cbn [app]. exact K.
  - rewrite call_begin_closed in E by exact H.
    match type of E with context [finish_task ?x ?t ?r] => pose proof (QS_finish_task x t r H) as K; destruct (finish_task x t r) as [c3 o3] end.
    injection E as <-. cbn [app]. exact K.
  - rewrite send_messages_closed in E by exact H. qsame E H.
  - destruct (task_running (get_task c t)); [|qsame E H].
    injection E as <-. cbn [fst snd]. split; [|reflexivity]. apply CL_cancel_task. apply CL_set_task. exact H.
  - injection E as <-. cbn [fst snd]. split; [|reflexivity]. unfold add_handler. dm; exact H.
  - qsame E H.
  - repeat dmh E; try discriminate; qsame E H.
  - repeat dmh E; try discriminate; qsame E H.
  - repeat dmh E; try discriminate; qsame E H.
  - repeat dmh E; try discriminate; qsame E H.
  - destruct (ready c); try discriminate. destruct (made c); try discriminate. destruct (transport c); try discriminate.
    destruct r0 as [e|]; [|qsame E H].
    pose proof (QS_helper_error c e H) as [A B]. destruct (helper_error c e) as [c1 o1]. cbn [fst snd] in *.
    destruct (transport c1); injection E as <-; cbn [fst snd]; rewrite quietb_app, B; split; try reflexivity; exact A.
  - destruct (transport c); try discriminate. destruct (made c); try discriminate.
    pose proof (QS_data_loop items c H) as [A B]. destruct (data_loop c items) as [[c1 o1] ex]. cbn [fst snd] in *.
    destruct ex; [destruct (transport c1)|]; injection E as <-; cbn [fst snd]; rewrite ?quietb_app, ?B; split; try reflexivity; exact A.
  - destruct (transport c); try discriminate. destruct (made c); try discriminate.
    pose proof (QS_helper_error c (Lib LSocketClosed) H) as [A B]. destruct (helper_error c (Lib LSocketClosed)) as [c1 o1]. cbn [fst snd] in *.
    destruct (transport c1); injection E as <-; cbn [fst snd]; rewrite ?quietb_app, ?B; split; try reflexivity; exact A.
  - repeat dmh E; try discriminate; qsame E H.
  - qsame E H.
  - repeat dmh E; try discriminate; qsame E H.
  - destruct t; [eapply QS_wake_start|eapply QS_wake_finish|eapply QS_wake_disc|eapply QS_wake_call]; eassumption.
  - destruct is_start.
    + destruct (start_fut c); try discriminate. destruct (intr_start c); try discriminate; [|qsame E H].
      injection E as <-. cbn [fst snd]. split; [|reflexivity]. apply CL_cancel_task. exact H.
    + destruct (finish_fut c); try discriminate. destruct (intr_finish c); try discriminate; [|qsame E H].
      injection E as <-. cbn [fst snd]. split; [|reflexivity]. apply CL_cancel_task. exact H.
  - repeat dmh E; try discriminate; qsame E H.
  - destruct (transport c) as [| |e|]; try discriminate.
    match type of E with context [made ?x] => destruct (made x) end; [|qsame E H].
    injection E as <-. apply QS_helper_error. exact H.
  - destruct k.
    + destruct (due (ping_timer c) c); [|discriminate].
      match type of E with context [send_pending_ping ?x] => destruct (send_pending_ping x) end.
      * rewrite send_messages_closed in E by exact H. qsame E H.
      * qsame E H.
    + destruct (due (pong_timer c) c); [|discriminate]. injection E as <-. apply QS_report_fatal. exact H.
    + destruct (due (hs_timer c) c); [|discriminate]. destruct (ready c); qsame E H.
    + destruct (due (conn_timer c) c); [|discriminate]. injection E as <-. cbn [fst snd]. split; [|reflexivity].
      apply CL_cancel_task. exact H.
    + destruct (get_call c cid); [|discriminate]. destruct (due (c_timer c0) c); [|discriminate]. qsame E H.
    + destruct (pc (t_disc c)); try discriminate. destruct (due (disc_timer c) c); [|discriminate]. qsame E H.
Qed.
