From Coq Require Import NArith ZArith List Bool Lia.
From Verif Require Import Generated.GenConstants Model.FloatFix Model.Reconnect Proofs.ConvertProofs.
Import ListNotations.
Open Scope Z_scope.

(* ---- the back-off function, for every n ---- *)
Lemma pow_ratio n : 7 <= n -> 121 * 5 ^ n <= 2 * 9 ^ n.
Proof.
  intro H. replace n with (7 + (n - 7)) by lia. rewrite !Z.pow_add_r by lia.
  assert (P : 5 ^ (n - 7) <= 9 ^ (n - 7)) by (apply Z.pow_le_mono_l; lia).
  assert (Q : 0 < 5 ^ (n - 7)) by (apply Z.pow_pos_nonneg; lia).
  change (5 ^ 7) with 78125. change (9 ^ 7) with 4782969. nia.
Qed.

(* after the n-th consecutive failure the wait is min(round(1.8^n), 60) seconds - the cap of the exponent at 10 is invisible *)
Theorem backoff_spec n : 1 <= n ->
  backoff_seconds n = (if 60 * 5 ^ n <=? 9 ^ n then 60 else rhe (9 ^ n) (5 ^ n)).
Proof.
  intro H. unfold backoff_seconds, BACKOFF_TRIES_CAP, BACKOFF_BASE_NUM, BACKOFF_BASE_DEN, BACKOFF_MAX.
  destruct (Z.le_gt_cases n 10) as [L|L].
  - rewrite Z.min_l by lia. reflexivity.
  - rewrite Z.min_r by lia. pose proof (pow_ratio n ltac:(lia)) as P. pose proof (pow_ratio 10 ltac:(lia)) as P10.
    assert (Q : 0 < 5 ^ n) by (apply Z.pow_pos_nonneg; lia).
    destruct (Z.leb_spec (60 * 5 ^ n) (9 ^ n)); [|lia].
    destruct (Z.leb_spec (60 * 5 ^ 10) (9 ^ 10)) as [_|C]; [reflexivity|]. exfalso. change (5 ^ 10) with 9765625 in *. change (9 ^ 10) with 3486784401 in *. lia.
Qed.
Theorem backoff_capped n : 7 <= n -> backoff_seconds n = 60.
Proof.
  intro H. rewrite backoff_spec by lia. pose proof (pow_ratio n H) as P.
  assert (Q : 0 < 5 ^ n) by (apply Z.pow_pos_nonneg; lia).
  destruct (Z.leb_spec (60 * 5 ^ n) (9 ^ n)); [reflexivity|lia].
Qed.

(* ---- the invariant ---- *)
Definition coherent (s : rl) : bool :=
  (match r_task s, r_state s with
   | TStartPending, RConnecting | TFinishPending, RHandshaking | TNone, RDisc | TNone, RReady => true
   | _, _ => false end) &&
  (negb (r_stopping s) || match r_state s with RHandshaking => true | _ => false end) &&
  (negb (r_stopped s && negb (r_stopping s)) ||
     (match r_task s with TNone => true | _ => false end && match r_timer s with None => true | _ => false end &&
      negb (r_listening s) && match r_state s with RDisc => true | _ => false end)) &&
  (match r_task s with TFinishPending => negb (r_alive s) | _ => true end) &&
  (negb (r_accept s) || accepts_records (r_state s)).

Inductive alt : list bool -> bool -> Prop :=
| alt_nil : alt [] false
| alt_connect l : alt l false -> alt (l ++ [true]) true
| alt_disconnect l : alt l true -> alt (l ++ [false]) false.

Definition RI (s : rl) : Prop :=
  coherent s = true /\ g_in_flight s = (match r_task s with TNone => 0 | _ => 1 end) /\ alt (g_log s) (r_alive s).

Lemma RI_init : RI rl_init.
Proof. repeat split; try reflexivity. constructor. Qed.

Ltac crush_rl s :=
  destruct s as [st ac sp li tr ti ta sg al nw inf lg]; destruct st, ac, sp, li, ta, sg, al; cbn in *;
  try discriminate; try reflexivity.

Lemma RI_step s l s' o : RI s -> rstep s l = Some (s', o) -> RI s'.
Proof.
  intros (C & F & A) E.
  destruct s as [st ac sp li tr ti ta sg al nw inf lg].
  destruct ti as [d|]; destruct st, ac, sp, li, ta, sg, al; unfold coherent, accepts_records in C; cbn in C; try discriminate C; cbn in F, A; clear C.
  all: destruct l as [| | | |r|r|ex|t]; try destruct r; try destruct ex; cbn in E; try discriminate E.
  all: repeat match type of E with context [if ?c then _ else _] => destruct c eqn:?; cbn in E; try discriminate E end.
  all: injection E as <- _; unfold RI, coherent, accepts_records; cbn; (split; [reflexivity|split; [lia|]]).
  all: try exact A.
  all: try (apply alt_connect; exact A).
  all: try (apply alt_disconnect; exact A).
Qed.

Lemma RI_run ls : forall s s' os, RI s -> rrun s ls = Some (s', os) -> RI s'.
Proof.
  induction ls as [|l ls IH]; intros s s' os H E; cbn [rrun] in E.
  - injection E as <- _. exact H.
  - destruct (rstep s l) as [[s1 o]|] eqn:Es; [|discriminate].
    destruct (rrun s1 ls) as [[s2 os2]|] eqn:Er; [|discriminate]. injection E as <- _.
    eapply IH; [|exact Er]. eapply RI_step; eassumption.
Qed.

Definition rreachable (s : rl) : Prop := exists ls os, rrun rl_init ls = Some (s, os).
Lemma rreachable_RI s : rreachable s -> RI s.
Proof. intros (ls & os & E). eapply RI_run; [apply RI_init|exact E]. Qed.

(* (1) at most one client connect call in flight, and it is in flight exactly while the manager is CONNECTING / HANDSHAKING *)
Theorem one_attempt_at_a_time s : rreachable s ->
  0 <= g_in_flight s <= 1 /\ (g_in_flight s = 1 <-> (r_state s = RConnecting \/ r_state s = RHandshaking)).
Proof.
  intro H. destruct (rreachable_RI s H) as (C & F & _). rewrite F.
  destruct s as [st ac sp li tr ti ta sg al nw inf lg]. cbn in *.
  destruct st, ta; unfold coherent in C; cbn in C; try discriminate C; (split; [lia|]); split; intro Q; try lia; try (destruct Q as [Q|Q]; discriminate Q); auto.
Qed.

(* (4) on_connect / on_disconnect strictly alternate, one pair per session, starting with on_connect *)
Theorem callbacks_alternate s : rreachable s -> alt (g_log s) (r_alive s).
Proof. intro H. destruct (rreachable_RI s H) as (_ & _ & A). exact A. Qed.
Lemma alt_shape l b : alt l b ->
  (forall i, nth_error l i = Some true -> Nat.even i = true) /\ (forall i, nth_error l i = Some false -> Nat.even i = false) /\
  Nat.even (length l) = negb b.
Proof.
  induction 1 as [|l H IH|l H IH].
  - repeat split; intros i Q; destruct i; discriminate.
  - destruct IH as (A & B & D). rewrite app_length. cbn [length]. rewrite Nat.add_1_r, Nat.even_succ, <- Nat.negb_even, D. cbn.
    repeat split; try reflexivity; intros i Q.
    + destruct (Nat.lt_ge_cases i (length l)) as [L|L]; [rewrite nth_error_app1 in Q by exact L; auto|].
      rewrite nth_error_app2 in Q by exact L. destruct (i - length l)%nat eqn:E; [|destruct n; discriminate].
      assert (i = length l) by lia. subst i. rewrite D. reflexivity.
    + destruct (Nat.lt_ge_cases i (length l)) as [L|L]; [rewrite nth_error_app1 in Q by exact L; auto|].
      rewrite nth_error_app2 in Q by exact L. destruct (i - length l)%nat; [discriminate|destruct n; discriminate].
  - destruct IH as (A & B & D). rewrite app_length. cbn [length]. rewrite Nat.add_1_r, Nat.even_succ, <- Nat.negb_even, D. cbn.
    repeat split; try reflexivity; intros i Q.
    + destruct (Nat.lt_ge_cases i (length l)) as [L|L]; [rewrite nth_error_app1 in Q by exact L; auto|].
      rewrite nth_error_app2 in Q by exact L. destruct (i - length l)%nat; [discriminate|destruct n; discriminate].
    + destruct (Nat.lt_ge_cases i (length l)) as [L|L]; [rewrite nth_error_app1 in Q by exact L; auto|].
      rewrite nth_error_app2 in Q by exact L. destruct (i - length l)%nat eqn:E; [|destruct n; discriminate].
      assert (i = length l) by lia. subst i. rewrite D. reflexivity.
Qed.

(* (5) once stop() has returned nothing starts an attempt, the listener is removed, no timer is armed - until start() *)
Definition is_attempt (x : robs) : bool := match x with OAttempt => true | _ => false end.
Theorem stopped_stays_quiet s l s' o :
  rreachable s -> r_stopped s = true -> r_stopping s = false -> l <> LStart -> rstep s l = Some (s', o) ->
  existsb is_attempt o = false /\ r_stopped s' = true /\ r_listening s' = false /\ r_timer s' = None /\ r_task s' = TNone.
Proof.
  intros H Hs Hg Hl E. destruct (rreachable_RI s H) as (C & _ & _).
  destruct s as [st ac sp li tr ti ta sg al nw inf lg]. cbn in Hs, Hg. subst sp sg.
  destruct ti as [d|]; destruct st, ac, li, ta, al; unfold coherent, accepts_records in C; cbn in C; try discriminate C.
  all: destruct l as [| | | |r|r|ex|t]; try contradiction; try destruct r; try destruct ex; cbn in E; try discriminate E.
  all: repeat match type of E with context [if ?c then _ else _] => destruct c eqn:?; cbn in E; try discriminate E end.
  all: injection E as <- <-; cbn; auto.
Qed.

(* (2) causes and their timing, one step each *)
Theorem failure_schedules_backoff s auth :
  let '(s', o) := failure s auth in
  r_timer s' = Some (r_now s + backoff_seconds (if auth then MAXIMUM_BACKOFF_TRIES else r_tries s + 1) * UNITS_PER_SECOND) /\
  r_tries s' = (if auth then MAXIMUM_BACKOFF_TRIES else r_tries s + 1) /\ r_state s' = RDisc /\ r_listening s' = true /\ In OConnectError o.
Proof.
  unfold failure, start_listen. destruct s as [st ac sp li tr ti ta sg al nw inf lg]. cbn. destruct li; cbn; repeat split; auto.
Qed.
Theorem unexpected_end_retries_at_once s s' o :
  r_stopped s = false -> rstep s (LSessionEnd false) = Some (s', o) -> existsb is_attempt o = true.
Proof.
  intros Hs E. destruct s as [st ac sp li tr ti ta sg al nw inf lg]. cbn in Hs. subst sp.
  cbn in E. destruct al; [|discriminate]. destruct ta; try discriminate. cbn in E.
  unfold call_connect_once, connect_once in E. cbn in E. injection E as _ <-. reflexivity.
Qed.
Theorem expected_end_cools_down s s' o :
  r_stopped s = false -> rstep s (LSessionEnd true) = Some (s', o) ->
  r_timer s' = Some (r_now s + EXPECTED_DISCONNECT_COOLDOWN) /\ existsb is_attempt o = false /\ r_state s' = RDisc.
Proof.
  intros Hs E. destruct s as [st ac sp li tr ti ta sg al nw inf lg]. cbn in Hs. subst sp.
  cbn in E. destruct al; [|discriminate]. destruct ta; try discriminate. cbn in E. injection E as <- <-. cbn. auto.
Qed.
(* the timer fires exactly at its deadline and time cannot pass it *)
Theorem timer_exact s s' o : rstep s LTimer = Some (s', o) -> r_timer s = Some (r_now s).
Proof.
  cbn. destruct (r_timer s) as [d|]; [|discriminate]. destruct (Z.eqb_spec d (r_now s)); [|discriminate]. intros _. congruence.
Qed.
Theorem time_respects_timer s t s' o d : rstep s (LAdv t) = Some (s', o) -> r_timer s = Some d -> t <= d.
Proof.
  cbn. intros E Hd. rewrite Hd in E. destruct (r_now s <=? t); cbn in E; [|discriminate]. destruct (Z.leb_spec t d); [assumption|discriminate].
Qed.
(* (3) a matching record: an immediate attempt while waiting (accepting), nothing while handshaking / connected / stopped *)
Theorem record_ignored_when_connected s s' o :
  rreachable s -> (r_state s = RHandshaking \/ r_state s = RReady) -> rstep s LRecord = Some (s', o) -> s' = s /\ o = [].
Proof.
  intros H Hst E. destruct (rreachable_RI s H) as (C & _ & _).
  destruct s as [st ac sp li tr ti ta sg al nw inf lg]. cbn in Hst.
  destruct st; try (destruct Hst; discriminate); destruct ac, li; unfold coherent, accepts_records in C; cbn in C;
    try (rewrite ?andb_false_r in C; discriminate C); cbn in E; try discriminate E; injection E as <- <-; auto.
Qed.
Theorem record_triggers_attempt_when_waiting s s' o :
  r_state s = RDisc -> r_task s = TNone -> r_accept s = true -> r_stopped s = false -> r_listening s = true -> r_alive s = false ->
  rstep s LRecord = Some (s', o) -> existsb is_attempt o = true /\ r_state s' = RConnecting.
Proof.
  intros H1 H2 H3 H4 H5 H6 E. destruct s as [st ac sp li tr ti ta sg al nw inf lg]. cbn in *. subst.
  cbn in E. injection E as <- <-. cbn. auto.
Qed.
