From Coq Require Import NArith List Bool Lia.
From Verif Require Import Model.Subs.
Import ListNotations.
Open Scope N_scope.

(* ---- the per-key buffer ---- *)
Definition pending (s : stream) (k : N) : list N :=
  match s_get s k with Some (x :: r) => concat (x :: r) | _ => [] end.

Lemma s_get_del_same s k : s_get (s_del s k) k = None.
Proof. induction s as [|[k' v] s IH]; cbn; [reflexivity|]. destruct (k' =? k) eqn:E; [exact IH|]. cbn. rewrite E. exact IH. Qed.
Lemma s_get_del_other s k k' : k' <> k -> s_get (s_del s k) k' = s_get s k'.
Proof.
  intro H. induction s as [|[k0 v] s IH]; cbn; [reflexivity|].
  destruct (k0 =? k) eqn:E.
  - apply N.eqb_eq in E. subst k0. destruct (k =? k') eqn:E2; [apply N.eqb_eq in E2; congruence|exact IH].
  - cbn. destruct (k0 =? k'); [reflexivity|exact IH].
Qed.
Lemma s_get_set_same s k v : s_get (s_set s k v) k = Some v.
Proof. unfold s_set. cbn. rewrite N.eqb_refl. reflexivity. Qed.
Lemma s_get_set_other s k v k' : k' <> k -> s_get (s_set s k v) k' = s_get s k'.
Proof.
  intro H. unfold s_set. cbn. destruct (k =? k') eqn:E; [apply N.eqb_eq in E; congruence|]. apply s_get_del_other. exact H.
Qed.

Lemma parts_concat s k : concat (match s_get s k with Some (x :: r) => x :: r | _ => [] end) = pending s k.
Proof. unfold pending. destruct (s_get s k) as [[|x r]|]; reflexivity. Qed.

Lemma camera_step_same s k d done :
  camera_step s k d done =
  (fst (camera_step s k d done), if done then [CbCamera k (pending s k ++ d)] else []) /\
  pending (fst (camera_step s k d done)) k = if done then [] else pending s k ++ d.
Proof.
  unfold camera_step. cbv zeta.
  assert (Hc : concat (match s_get s k with Some (x :: r) => x :: r | _ => [] end ++ [d]) = pending s k ++ d).
  { rewrite concat_app, parts_concat. cbn. rewrite app_nil_r. reflexivity. }
  destruct done; cbn [fst].
  - rewrite Hc. split; [reflexivity|]. unfold pending. rewrite s_get_del_same. reflexivity.
  - split; [reflexivity|]. unfold pending at 1. rewrite s_get_set_same.
    destruct (match s_get s k with Some (x :: r) => x :: r | _ => [] end ++ [d]) as [|y l] eqn:E.
    + exfalso. destruct (match s_get s k with Some (x :: r) => x :: r | _ => [] end); discriminate E.
    + exact Hc.
Qed.
Lemma camera_step_other s k d done k' : k' <> k -> pending (fst (camera_step s k d done)) k' = pending s k'.
Proof.
  intro H. unfold camera_step. cbv zeta. destruct done; cbn [fst]; unfold pending.
  - rewrite (s_get_del_other _ _ _ H). reflexivity.
  - rewrite (s_get_set_other _ _ _ _ H). reflexivity.
Qed.
Lemma camera_step_obs_key s k d done x : In x (snd (camera_step s k d done)) -> exists data, x = CbCamera k data.
Proof. unfold camera_step. cbv zeta. destruct done; cbn; [intros [<-|[]]; eauto|intros []]. Qed.

(* ---- feeding a message list to one subscription ---- *)
Fixpoint feed (st : sub) (ms : list smsg) : sub * list sobs :=
  match ms with
  | [] => (st, [])
  | m :: r => let '(st1, o1) := on_msg st m in let '(st2, o2) := feed st1 r in (st2, o1 ++ o2)
  end.

Definition is_camera_of (k : N) (x : sobs) : bool := match x with CbCamera k' _ => k' =? k | _ => false end.
Definition is_state_cb (x : sobs) : bool := match x with CbState _ _ _ => true | _ => false end.
Definition state_cbs (ms : list smsg) : list sobs :=
  flat_map (fun m => match m with MState t k v => [CbState t k v] | _ => [] end) ms.

Definition states_sub (st : sub) : Prop := s_kind st = SubStates /\ s_live st = true.

Lemma on_msg_states_kind st m : states_sub st -> states_sub (fst (on_msg st m)).
Proof.
  intros [Hk Hl]. unfold on_msg. rewrite Hl, Hk. cbn [negb]. destruct m; cbn [fst]; try (split; assumption).
  destruct (camera_step (s_stream st) key data done). cbn. split; reflexivity.
Qed.

(* every state message: exactly one callback, with that message's type and values, in arrival order *)
Theorem one_callback_per_state_message ms : forall st, states_sub st ->
  filter is_state_cb (snd (feed st ms)) = state_cbs ms.
Proof.
  induction ms as [|m ms IH]; intros st H; [reflexivity|].
  cbn [feed state_cbs flat_map]. pose proof (on_msg_states_kind st m H) as H1.
  destruct (on_msg st m) as [st1 o1] eqn:E. cbn [fst] in H1.
  specialize (IH st1 H1). destruct (feed st1 ms) as [st2 o2]. cbn [snd] in *.
  rewrite filter_app, IH. f_equal.
  destruct H as [Hk Hl]. unfold on_msg in E. rewrite Hl, Hk in E. cbn [negb] in E.
  destruct m; try (injection E as _ <-; reflexivity).
  destruct (camera_step (s_stream st) key data done) as [s' o] eqn:Ec. injection E as _ <-.
  pose proof (camera_step_obs_key (s_stream st) key data done) as Ho. rewrite Ec in Ho. cbn [snd] in Ho.
  clear -Ho. induction o as [|x o IHo]; [reflexivity|]. cbn. destruct (Ho x (or_introl eq_refl)) as [d ->]. cbn.
  apply IHo. intros y Hy. apply Ho. right. exact Hy.
Qed.
Theorem state_message_one_callback st ty key vals : states_sub st -> on_msg st (MState ty key vals) = (st, [CbState ty key vals]).
Proof. intros [Hk Hl]. unfold on_msg. rewrite Hl, Hk. reflexivity. Qed.

(* camera: for every interleaving of several keys' chunk streams (and of any other messages), the images completed for a
   key are the concatenations of that key's chunks since its previous completion *)
Theorem camera_reassembly_per_key k ms : forall st, states_sub st ->
  filter (is_camera_of k) (snd (feed st ms)) = map (CbCamera k) (images (pending (s_stream st) k) (chunks_of k ms)).
Proof.
  induction ms as [|m ms IH]; intros st H; [reflexivity|].
  cbn [feed]. pose proof (on_msg_states_kind st m H) as H1.
  destruct (on_msg st m) as [st1 o1] eqn:E. cbn [fst] in H1.
  specialize (IH st1 H1). destruct (feed st1 ms) as [st2 o2]. cbn [snd] in *.
  rewrite filter_app, IH. clear IH.
  destruct H as [Hk Hl]. unfold on_msg in E. rewrite Hl, Hk in E. cbn [negb] in E.
  assert (Hother : forall o, (st1, o1) = (st, o) -> filter (is_camera_of k) o = [] ->
                   chunks_of k (m :: ms) = chunks_of k ms ->
                   filter (is_camera_of k) o1 ++ map (CbCamera k) (images (pending (s_stream st1) k) (chunks_of k ms)) =
                   map (CbCamera k) (images (pending (s_stream st) k) (chunks_of k (m :: ms)))).
  { intros o Eo Hf Hc. injection Eo as -> ->. rewrite Hf, Hc. reflexivity. }
  destruct m; try (apply (Hother _ (eq_sym E)); reflexivity).
  destruct (camera_step (s_stream st) key data done) as [s' o] eqn:Ec. injection E as <- <-. cbn [s_stream].
  destruct (N.eq_dec key k) as [->|Hne].
  - destruct (camera_step_same (s_stream st) k data done) as [Ho Hp]. rewrite Ec in Ho, Hp. cbn [fst] in Ho, Hp.
    injection Ho as ->. rewrite Hp. unfold chunks_of. cbn [flat_map]. rewrite N.eqb_refl. cbn [app].
    destruct done; cbn [images filter is_camera_of map app]; [rewrite N.eqb_refl|]; reflexivity.
  - pose proof (camera_step_other (s_stream st) key data done k (fun H => Hne (eq_sym H))) as Hp. rewrite Ec in Hp. cbn [fst] in Hp.
    rewrite Hp. unfold chunks_of. cbn [flat_map]. apply N.eqb_neq in Hne. rewrite Hne. cbn [app].
    replace (filter (is_camera_of k) o) with (@nil sobs); [reflexivity|].
    pose proof (camera_step_obs_key (s_stream st) key data done) as Hk'. rewrite Ec in Hk'. cbn [snd] in Hk'.
    symmetry. clear -Hk' Hne. induction o as [|x o IHo]; [reflexivity|]. cbn. destruct (Hk' x (or_introl eq_refl)) as [d ->]. cbn.
    rewrite Hne. apply IHo. intros y Hy. apply Hk'. right. exact Hy.
Qed.
Corollary camera_reassembly_fresh k ms st : states_sub st -> s_stream st = [] ->
  filter (is_camera_of k) (snd (feed st ms)) = map (CbCamera k) (images [] (chunks_of k ms)).
Proof. intros H He. rewrite (camera_reassembly_per_key k ms st H), He. reflexivity. Qed.

(* the other subscriptions: one handler call per message of their type *)
Theorem other_subscriptions_one_call st : s_live st = true ->
  (s_kind st = SubLogs -> forall p, on_msg st (MLog p) = (st, [CbLog p])) /\
  (s_kind st = SubServiceCalls -> forall p, on_msg st (MServiceCall p) = (st, [CbServiceCall p])) /\
  (forall wr, s_kind st = SubHaStates wr -> forall e a once,
     on_msg st (MHaState e a once) = (st, [if wr && once then CbHaRequest e a else CbHaSub e a])) /\
  (s_kind st = SubAdv -> forall p, on_msg st (MAdv p) = (st, [CbAdv p])) /\
  (s_kind st = SubRawAdv -> forall p, on_msg st (MRawAdv p) = (st, [CbRawAdv p])) /\
  (s_kind st = SubConnFree -> forall f l, on_msg st (MConnFree f l) = (st, [CbConnFree f l])) /\
  (forall a n, s_kind st = SubVa a n -> forall c f w, on_msg st (MVaRequest false c f w) = (st, [CbVaStop true])) /\
  (forall n, s_kind st = SubVa true n -> forall d last, on_msg st (MVaAudio d last) = (st, [if last then CbVaStop false else CbVaAudio d])) /\
  (forall a, s_kind st = SubVa a true -> forall p, on_msg st (MVaAnnounce p) = (st, [CbVaAnnounce p])).
Proof.
  intro Hl. unfold on_msg. rewrite Hl. cbn [negb].
  repeat split; intros; match goal with H : s_kind st = _ |- _ => rewrite H end; try reflexivity;
    repeat match goal with b : bool |- _ => destruct b end; reflexivity.
Qed.

(* ---- unsubscribe stops deliveries at once, for good ---- *)
Definition is_cb (x : sobs) : bool := match x with OWrite _ | OCancelStart _ => false | _ => true end.

Theorem unsubscribed_is_silent st m : s_live st = false -> on_msg st m = (st, []).
Proof. intro H. unfold on_msg. rewrite H. reflexivity. Qed.
Theorem unsubscribe_is_immediate st : can_unsub (s_kind st) = true ->
  s_live (fst (on_unsub st)) = false /\ filter is_cb (snd (on_unsub st)) = [].
Proof.
  unfold on_unsub. destruct (s_kind st); cbn [can_unsub]; try discriminate; intros _; cbn; auto.
  destruct (s_latest st) as [t|]; [destruct (mem t (s_running st))|]; cbn; auto.
Qed.
Lemma dead_stays_dead st e : s_live st = false -> s_live (fst (sub_step st e)) = false /\ filter is_cb (snd (sub_step st e)) = [].
Proof.
  intro H. destruct e; cbn [sub_step].
  - auto.
  - rewrite (unsubscribed_is_silent _ _ H). auto.
  - destruct (Nat.eqb id (s_id st)); [|auto]. unfold on_unsub.
    destruct (s_kind st); cbn; auto. destruct (s_latest st) as [t|]; [destruct (mem t (s_running st))|]; cbn; auto.
  - destruct (Nat.eqb id (s_id st)); [|auto]. unfold on_start_done. destruct (mem task (s_running st)); cbn; [|auto].
    split; [exact H|]. destruct r; reflexivity.
Qed.
Fixpoint sub_run (st : sub) (es : list sevent) : sub * list sobs :=
  match es with
  | [] => (st, [])
  | e :: r => let '(st1, o1) := sub_step st e in let '(st2, o2) := sub_run st1 r in (st2, o1 ++ o2)
  end.
Theorem no_callback_after_unsubscribe es : forall st, s_live st = false -> filter is_cb (snd (sub_run st es)) = [].
Proof.
  induction es as [|e es IH]; intros st H; [reflexivity|]. cbn [sub_run].
  destruct (dead_stays_dead st e H) as [H1 H2]. destruct (sub_step st e) as [st1 o1]. cbn [fst snd] in *.
  specialize (IH st1 H1). destruct (sub_run st1 es) as [st2 o2]. cbn [snd] in *. rewrite filter_app, H2, IH. reflexivity.
Qed.

(* ---- voice assistant: every start is answered with what its handler returned, once ---- *)
Definition va_inv (st : sub) : Prop :=
  NoDup (s_running st) /\ (forall t, In t (s_running st) -> t < s_next_task st)%nat /\
  (forall t, s_latest st = Some t -> t < s_next_task st)%nat.

Lemma mem_in t l : mem t l = true <-> In t l.
Proof.
  unfold mem. rewrite existsb_exists. split.
  - intros [x [Hx He]]. apply PeanoNat.Nat.eqb_eq in He. subst. exact Hx.
  - intro H. exists t. split; [exact H|apply PeanoNat.Nat.eqb_refl].
Qed.
Lemma remove_task_spec t l x : In x (remove_task t l) <-> In x l /\ x <> t.
Proof.
  unfold remove_task. rewrite filter_In. split; intros [A B]; split; auto.
  - intro E. subst. rewrite PeanoNat.Nat.eqb_refl in B. discriminate.
  - apply negb_true_iff. apply PeanoNat.Nat.eqb_neq. exact B.
Qed.
Lemma remove_task_nodup t l : NoDup l -> NoDup (remove_task t l).
Proof. apply NoDup_filter. Qed.

Lemma va_inv_new id k : va_inv (new_sub id k).
Proof. repeat split; cbn; try constructor; intros; try contradiction; discriminate. Qed.

Lemma nodup_snoc (l : list nat) t : NoDup l -> ~ In t l -> NoDup (l ++ [t]).
Proof.
  induction l as [|x l IH]; intros Hn Hi; cbn; [constructor; [intros []|constructor]|].
  inversion Hn as [|? ? Hx Hl]; subst. constructor.
  - intro H. apply in_app_or in H. destruct H as [H|[H|[]]]; [exact (Hx H)|]. subst. apply Hi. left. reflexivity.
  - apply IH; [exact Hl|]. intro H. apply Hi. right. exact H.
Qed.

Lemma va_inv_step st e : va_inv st -> va_inv (fst (sub_step st e)).
Proof.
  intros (Hn & Hr & Hl). destruct e; cbn [sub_step].
  - repeat split; assumption.
  - unfold on_msg. destruct (negb (s_live st)); [repeat split; assumption|].
    destruct (s_kind st) eqn:Ek; destruct m; cbn [fst]; try (repeat split; assumption);
      repeat match goal with |- context [if ?b then _ else _] => destruct b; cbn [fst] end; try (repeat split; assumption).
    all: try (destruct (camera_step (s_stream st) key data done); cbn; repeat split; assumption).
    all: cbn; repeat split;
      [ apply nodup_snoc; [exact Hn|]; intro H; apply Hr in H; lia
      | intros t H; apply in_app_or in H; destruct H as [H|[<-|[]]]; [apply Hr in H|]; cbn [s_next_task]; lia
      | intros t H; injection H as <-; cbn [s_next_task]; lia ].
  - destruct (Nat.eqb id (s_id st)); [|repeat split; assumption]. unfold on_unsub.
    destruct (s_kind st); cbn [fst]; try (repeat split; assumption).
    destruct (s_latest st) as [t|] eqn:El; [destruct (mem t (s_running st))|]; cbn; repeat split; try assumption.
    + apply remove_task_nodup. exact Hn.
    + intros x H. apply remove_task_spec in H. apply Hr. apply H.
  - destruct (Nat.eqb id (s_id st)); [|repeat split; assumption]. unfold on_start_done.
    destruct (mem task (s_running st)); cbn; repeat split; try assumption.
    + apply remove_task_nodup. exact Hn.
    + intros x H. apply remove_task_spec in H. apply Hr. apply H.
Qed.

Theorem va_inv_run es : forall st, va_inv st -> va_inv (fst (sub_run st es)).
Proof.
  induction es as [|e es IH]; intros st H; [exact H|]. cbn [sub_run].
  pose proof (va_inv_step st e H) as H1. destruct (sub_step st e) as [st1 o1]. cbn [fst] in H1.
  specialize (IH st1 H1). destruct (sub_run st1 es). exact IH.
Qed.

(* a start request: the handler is called once with the request's values, as a fresh task *)
Theorem va_start_calls_handler st a n conv flags wake :
  s_live st = true -> s_kind st = SubVa a n -> va_inv st ->
  exists st', on_msg st (MVaRequest true conv flags wake) =
              (st', [CbVaStart (s_next_task st) conv flags (if wake =? 0 then None else Some wake)]) /\
              ~ In (s_next_task st) (s_running st) /\ In (s_next_task st) (s_running st') /\
              (forall t, In t (s_running st) -> In t (s_running st')).
Proof.
  intros Hl Hk (Hn & Hr & _). unfold on_msg. rewrite Hl, Hk. cbn [negb].
  destruct a, n; eexists; (split; [reflexivity|]); cbn [s_running];
    (split; [intro H; apply Hr in H; lia|split; [apply in_or_app; right; left; reflexivity|intros t H; apply in_or_app; left; exact H]]).
Qed.
(* its completion is answered with the port it returned, or with an error response when it returned none; exactly once *)
Theorem va_start_answered st t r : va_inv st -> In t (s_running st) ->
  snd (on_start_done st t r) =
    match r with HPort p => [OWrite (WVaResponse (Some p))] | HNone => [OWrite (WVaResponse None)] | HRaise => [] end /\
  ~ In t (s_running (fst (on_start_done st t r))) /\
  (forall x, x <> t -> (In x (s_running (fst (on_start_done st t r))) <-> In x (s_running st))).
Proof.
  intros _ Hi. unfold on_start_done. apply mem_in in Hi. rewrite Hi. cbn [fst snd s_running]. split; [reflexivity|]. split.
  - intro H. apply remove_task_spec in H. destruct H as [_ H]. apply H. reflexivity.
  - intros x Hx. rewrite remove_task_spec. tauto.
Qed.
Theorem va_not_running_is_silent st t r : ~ In t (s_running st) -> on_start_done st t r = (st, []).
Proof.
  intro H. unfold on_start_done. destruct (mem t (s_running st)) eqn:E; [|reflexivity]. apply mem_in in E. contradiction.
Qed.
(* unsubscribing cancels the start task in flight (the latest): it is never answered *)
Theorem va_unsub_cancels_latest st a n t : s_kind st = SubVa a n -> s_latest st = Some t -> In t (s_running st) ->
  snd (on_unsub st) = [OWrite WVaUnsub; OCancelStart t] /\ ~ In t (s_running (fst (on_unsub st))) /\ s_live (fst (on_unsub st)) = false.
Proof.
  intros Hk Hl Hi. unfold on_unsub. rewrite Hk, Hl. apply mem_in in Hi. rewrite Hi. cbn. repeat split.
  intro H. apply remove_task_spec in H. destruct H as [_ H]. apply H. reflexivity.
Qed.

(* subscriptions do not see each other's unsubscribe calls or start completions *)
Theorem other_id_ignored st e :
  match e with SUnsub id | SStartDone id _ _ => id <> s_id st | SSubscribe _ _ => True | SMsg _ => False end ->
  sub_step st e = (st, []).
Proof.
  destruct e; cbn [sub_step]; intro H; try contradiction; try reflexivity;
    apply PeanoNat.Nat.eqb_neq in H; rewrite H; reflexivity.
Qed.
