(* For C09 (bounded time): every armed deadline lies within its documented bound of the present.
   TB is the invariant; Bm the relation "the clock stands, the three phase timers are kept or cleared" that every function
   of the model except the arming points satisfies; the timers of calls are covered by the relation P of ConnLeak.v. *)
From Coq Require Import NArith ZArith List Bool Lia PeanoNat.
From RecordUpdate Require Import RecordSet.
From Verif Require Import Generated.GenConstants Model.Conn Proofs.ConnCalls Proofs.ConnErrors Proofs.ConnReason Proofs.ConnOutcome Proofs.ConnCancel Proofs.ConnLeak.
Import ListNotations RecordSetNotations.
Open Scope Z_scope.
Open Scope list_scope.

Definition CONNECT_BOUND : Z := Z.max RESOLVE_TIMEOUT TCP_CONNECT_TIMEOUT.
Arguments CONNECT_BOUND : simpl never.

Definition keeps (a b : option Z) : Prop := b = a \/ b = None.
Lemma keeps_refl a : keeps a a.
Proof. left. reflexivity. Qed.
Lemma keeps_trans a b c : keeps a b -> keeps b c -> keeps a c.
Proof. unfold keeps. intros [->| ->] [->| ->]; auto. Qed.

Record Bm (c c' : conn) : Prop := {
  b_now : now c' = now c;
  b_conn : keeps (conn_timer c) (conn_timer c');
  b_hs : keeps (hs_timer c) (hs_timer c');
  b_disc : keeps (disc_timer c) (disc_timer c') }.
Lemma Bm_refl c : Bm c c.
Proof. constructor; auto using keeps_refl. Qed.
Lemma Bm_trans a b c : Bm a b -> Bm b c -> Bm a c.
Proof. intros [A1 A2 A3 A4] [B1 B2 B3 B4]. constructor; [congruence|eapply keeps_trans; eassumption..]. Qed.

Definition bv (c : conn) := (now c, conn_timer c, hs_timer c, disc_timer c).
Lemma Bm_bv c c' : bv c' = bv c -> Bm c c'.
Proof. unfold bv. intro E. injection E as E1 E2 E3 E4. constructor; [exact E1|left; assumption..]. Qed.

Lemma bv_set_start_future c : bv (set_start_future c) = bv c.
Proof. unfold set_start_future. destruct (start_fut c); reflexivity. Qed.
Lemma bv_set_finish_future c : bv (set_finish_future c) = bv c.
Proof. unfold set_finish_future. destruct (finish_fut c); reflexivity. Qed.
Lemma bv_helper_close c : bv (fst (helper_close c)) = bv c.
Proof. unfold helper_close. repeat dm; reflexivity. Qed.
Lemma bv_release c : bv (fst (release_resources c)) = bv c.
Proof.
  unfold release_resources. destruct (helper c).
  - destruct (socket c); reflexivity.
  - pose proof (bv_helper_close c) as H. destruct (helper_close c) as [c1 o1]. cbn [fst] in H.
    destruct (socket _); cbn [fst]; rewrite <- H; reflexivity.
  - pose proof (bv_helper_close c) as H. destruct (helper_close c) as [c1 o1]. cbn [fst] in H.
    destruct (socket _); cbn [fst]; rewrite <- H; reflexivity.
Qed.
Lemma bv_cleanup c : bv (fst (cleanup c)) = bv c.
Proof.
  destruct (cs c) eqn:Ecs; try (unfold cleanup; rewrite Ecs; apply bv_release).
  all: rewrite cleanup_open by congruence;
    pose proof (bv_release (pre_close c)) as H;
    destruct (release_resources (pre_close c)) as [c4 o4]; cbn [fst] in H;
    assert (H0 : bv (pre_close c) = bv c) by (unfold pre_close; rewrite bv_set_finish_future, bv_set_start_future; reflexivity);
    destruct (on_stop_armed c4 && is_connected c); cbn [fst]; rewrite <- H0, <- H; reflexivity.
Qed.
Lemma bv_report_fatal c e : bv (fst (report_fatal c e)) = bv c.
Proof. unfold report_fatal. destruct (fatal c); rewrite bv_cleanup; reflexivity. Qed.
Lemma bv_helper_error c e : bv (fst (helper_error c e)) = bv c.
Proof. unfold helper_error. destruct (ready c); rewrite bv_report_fatal; reflexivity. Qed.
Lemma bv_send_messages c tys : bv (fst (fst (send_messages c tys))) = bv c.
Proof.
  unfold send_messages. destruct (negb (handshake_complete c)); [reflexivity|].
  destruct (write_fails c).
  - pose proof (bv_report_fatal c (Lib LSocketClosed)) as H. destruct (report_fatal c (Lib LSocketClosed)) as [c1 o]. exact H.
  - destruct (transport c); reflexivity.
Qed.
Lemma bv_add c ty h : bv (add_handler c ty h) = bv c.
Proof. unfold add_handler. destruct (existsb _ _); reflexivity. Qed.
Lemma bv_fold_actions l : forall c, bv (fold_left run_action l c) = bv c.
Proof.
  induction l as [|a l IHl]; intro c; cbn [fold_left]; [reflexivity|]. rewrite IHl.
  destruct a; cbn [run_action]; [apply bv_add|reflexivity].
Qed.
Lemma bv_fold_add l h : forall c, bv (fold_left (fun a ty => add_handler a ty h) l c) = bv c.
Proof. induction l as [|a l IHl]; intro c; cbn [fold_left]; [reflexivity|]. rewrite IHl. apply bv_add. Qed.
Lemma bv_fold_remove l h : forall c, bv (fold_left (fun a ty => remove_handler a ty h) l c) = bv c.
Proof. induction l as [|a l IHl]; intro c; cbn [fold_left]; [reflexivity|]. rewrite IHl. reflexivity. Qed.
Lemma bv_internal_handlers c : bv (internal_handlers c) = bv c.
Proof. unfold internal_handlers. rewrite !bv_add. reflexivity. Qed.
Lemma bv_handle_call_message c cid m : bv (handle_call_message c cid m) = bv c.
Proof. unfold handle_call_message. destruct (get_call c cid) as [k|]; [|reflexivity]. destruct (c_fut k); reflexivity. Qed.
Lemma bv_call_handler c h m : bv (fst (fst (call_handler c h m))) = bv c.
Proof.
  destruct h; cbn [call_handler].
  - set (c1 := c <| expected_disconnect := true |>).
    pose proof (bv_send_messages c1 [T_DISC_RESP]) as H. destruct (send_messages c1 [T_DISC_RESP]) as [[c2 o] ex]. cbn [fst] in H.
    destruct ex; cbn [fst]; [exact H|].
    pose proof (bv_cleanup c2) as H2. destruct (cleanup c2) as [c3 o3]. cbn [fst] in *. rewrite H2. exact H.
  - apply bv_send_messages.
  - apply bv_send_messages.
  - cbn [fst]. apply bv_handle_call_message.
  - cbn [fst]. apply bv_fold_actions.
Qed.
Lemma bv_run_handlers hs m : forall c, bv (fst (fst (run_handlers c hs m))) = bv c.
Proof.
  induction hs as [|h hs IHh]; intros c; cbn [run_handlers fst]; [reflexivity|].
  pose proof (bv_call_handler c h m) as H1. destruct (call_handler c h m) as [[c1 o1] ex]. cbn [fst] in H1.
  destruct ex; cbn [fst]; [exact H1|].
  specialize (IHh c1). destruct (run_handlers c1 hs m) as [[c2 o2] ex2]. cbn [fst] in *. congruence.
Qed.
Lemma bv_process_packet c m : bv (fst (fst (process_packet c m))) = bv c.
Proof.
  unfold process_packet. destruct (cs c); try reflexivity.
  all: destruct (registered (m_ty m)); cbn [negb fst]; [|reflexivity];
       (destruct (m_valid m); cbn [negb];
        [ match goal with |- context [run_handlers ?x ?hs ?mm] =>
            pose proof (bv_run_handlers hs mm x) as H; destruct (run_handlers x hs mm) as [[c2 o2] ex2] end;
          cbn [fst] in *; rewrite H; reflexivity
        | pose proof (bv_report_fatal c (Lib LProtocol)) as H; destruct (report_fatal c (Lib LProtocol)) as [c1 o];
          cbn [fst] in *; exact H ]).
Qed.
Lemma bv_data_loop items : forall c, bv (fst (fst (data_loop c items))) = bv c.
Proof.
  induction items as [|i items IHi]; intros c; cbn [data_loop fst]; [reflexivity|].
  destruct i as [m|req].
  - pose proof (bv_process_packet c m) as H1. destruct (process_packet c m) as [[c1 o1] ex]. cbn [fst] in H1.
    destruct ex; cbn [fst]; [exact H1|].
    specialize (IHi c1). destruct (data_loop c1 items) as [[c2 o2] ex2]. cbn [fst] in *. congruence.
  - match goal with |- context [helper_error c ?e] =>
      pose proof (bv_helper_error c e) as H; destruct (helper_error c e) as [c1 o1] end.
    cbn [fst] in *. exact H.
Qed.
Lemma bv_call_finally c cid : bv (call_finally c cid) = bv c.
Proof.
  unfold call_finally. destruct (get_call c cid); [|reflexivity].
  match goal with |- bv (?x <| waiters := _ |>) = _ => change (bv x = bv c) end. rewrite bv_fold_remove. reflexivity.
Qed.
Lemma bv_set_task c t k : bv (set_task c t k) = bv c.
Proof. destruct t; reflexivity. Qed.
Lemma bv_take_cancel c t : bv (fst (take_cancel c t)) = bv c.
Proof. unfold take_cancel. destruct (must_cancel _); cbn [fst]; [apply bv_set_task|reflexivity]. Qed.
Lemma bv_timeout_exit c t e : bv (fst (timeout_exit c t e)) = bv c.
Proof.
  unfold timeout_exit. destruct (expiring _); [|reflexivity].
  destruct e; cbn [fst]; try apply bv_set_task. destruct (Nat.eqb _ _); cbn [fst]; apply bv_set_task.
Qed.
Lemma bv_interrupt_exit c t e : bv (fst (interrupt_exit c t e)) = bv c.
Proof.
  unfold interrupt_exit. destruct (interrupted _); [|reflexivity].
  destruct e; cbn [fst]; try reflexivity. destruct (Nat.eqb _ _); cbn [fst]; apply bv_set_task.
Qed.
Lemma bv_finish_task c t r : bv (fst (finish_task c t r)) = bv c.
Proof. unfold finish_task. cbn [fst]. apply bv_set_task. Qed.
Lemma bv_cancel_awaited c t k : bv (fst (cancel_awaited c t k)) = bv c.
Proof.
  unfold cancel_awaited. destruct (pc k); try reflexivity.
  1,2: destruct (cancel_efut (do_connect c)); reflexivity.
  1: destruct (cancel_efut (made_waiter c)); reflexivity.
  1: destruct (ready c); reflexivity.
  2: destruct (disc_wait_done c); reflexivity.
  all: destruct (get_call c cid) as [kk|]; [|reflexivity]; destruct (c_fut kk); reflexivity.
Qed.
Lemma bv_cancel_task c t : bv (cancel_task c t) = bv c.
Proof.
  unfold cancel_task. destruct (negb (task_running _)); [reflexivity|].
  match goal with |- context [cancel_awaited c t ?k1] =>
    pose proof (bv_cancel_awaited c t k1) as H; destruct (cancel_awaited c t k1) as [c1 d] end.
  cbn [fst] in H. destruct d; rewrite bv_set_task; exact H.
Qed.

(* ---------------------------------------------------------------- the three phase timers *)
Definition TBp (c : conn) : Prop :=
  (forall d, conn_timer c = Some d -> d <= now c + CONNECT_BOUND) /\
  (forall d, hs_timer c = Some d -> d <= now c + HANDSHAKE_TIMEOUT) /\
  (forall d, disc_timer c = Some d -> d <= now c + DISCONNECT_CONNECT_TIMEOUT).

Lemma TBp_Bm c c' : Bm c c' -> TBp c -> TBp c'.
Proof.
  intros [B1 B2 B3 B4] (H1 & H2 & H3). unfold TBp. rewrite B1.
  split; [|split]; intros d Hd.
  - destruct B2 as [B2|B2]; rewrite B2 in Hd; [auto|discriminate].
  - destruct B3 as [B3|B3]; rewrite B3 in Hd; [auto|discriminate].
  - destruct B4 as [B4|B4]; rewrite B4 in Hd; [auto|discriminate].
Qed.
Lemma TBp_bv c c' : bv c' = bv c -> TBp c -> TBp c'.
Proof. intro E. apply TBp_Bm, Bm_bv. exact E. Qed.

Ltac bm_clear := constructor; cbn; first [reflexivity | left; reflexivity | right; reflexivity].

Lemma Bm_start_fail c e : Bm c (fst (start_fail c e)).
Proof.
  unfold start_fail.
  pose proof (bv_interrupt_exit c TStart e) as H0. destruct (interrupt_exit c TStart e) as [c0 e1]. cbn [fst] in H0.
  match goal with |- context [cleanup ?x] => pose proof (bv_cleanup x) as H1; assert (Hx : Bm c0 x) by bm_clear; destruct (cleanup x) as [c2 o] end.
  cbn [fst] in H1.
  match goal with |- context [finish_task ?x ?t ?r] => pose proof (bv_finish_task x t r) as H2; destruct (finish_task x t r) as [c4 o2] end.
  cbn [fst] in *. rewrite bv_set_start_future in H2.
  eapply Bm_trans; [apply Bm_bv; exact H0|]. eapply Bm_trans; [exact Hx|]. apply Bm_bv. congruence.
Qed.
Lemma TBp_start_tcp_attempt c g : TBp c -> TBp (start_tcp_attempt c g).
Proof.
  intros (H1 & H2 & H3). unfold start_tcp_attempt, TBp. cbn. split; [|split; assumption].
  intros d Hd. injection Hd as <-. unfold CONNECT_BOUND. lia.
Qed.
Lemma Bm_start_success c : Bm c (fst (start_success c)).
Proof.
  unfold start_success.
  match goal with |- context [set_start_future ?x] => set (c2 := set_start_future x);
    assert (H2 : Bm c c2) by (unfold c2; eapply Bm_trans; [|apply Bm_bv, bv_set_start_future]; bm_clear) end.
  destruct (cs c2).
  5: { pose proof (bv_cleanup c2) as H3. destruct (cleanup c2) as [c3 o]. cbn [fst] in H3.
       match goal with |- context [finish_task ?x ?t ?r] => pose proof (bv_finish_task x t r) as H4; destruct (finish_task x t r) as [c4 o2] end.
       cbn [fst] in *. eapply Bm_trans; [exact H2|apply Bm_bv; congruence]. }
  all: eapply Bm_trans; [exact H2|apply Bm_bv; rewrite bv_finish_task; reflexivity].
Qed.
Lemma TBp_wake_start c c' o : wake_start c = Some (c', o) -> TBp c -> TBp c'.
Proof.
  unfold wake_start. intros E HT.
  destruct (pc (get_task c TStart)); try discriminate.
  - destruct (_ || _); [|discriminate].
    pose proof (bv_take_cancel c TStart) as H1. destruct (take_cancel c TStart) as [c1 mc]. cbn [fst] in H1.
    assert (HT1 : TBp c1) by (eapply TBp_bv; eassumption).
    match type of E with (match ?d with _ => _ end) = _ => destruct d as [|e] end.
    + apply some_pair_inv in E. destruct E as [<- _]. apply TBp_start_tcp_attempt. eapply TBp_Bm; [|exact HT1]. bm_clear.
    + match type of E with context [timeout_exit ?x ?t ?ee] =>
        assert (Hx : Bm c1 x) by bm_clear; pose proof (bv_timeout_exit x t ee) as H2; destruct (timeout_exit x t ee) as [c2 e1] end.
      cbn [fst] in H2. apply some_inj in E.
      match type of E with start_fail ?x ?ee = _ => pose proof (Bm_start_fail x ee) as H3; rewrite E in H3 end.
      cbn [fst] in H3. eapply TBp_Bm; [exact H3|]. eapply TBp_bv; [exact H2|]. eapply TBp_Bm; eassumption.
  - destruct (_ || _); [|discriminate].
    pose proof (bv_take_cancel c TStart) as H1. destruct (take_cancel c TStart) as [c1 mc]. cbn [fst] in H1.
    assert (HT1 : TBp c1) by (eapply TBp_bv; eassumption).
    match type of E with (match ?d with _ => _ end) = _ => destruct d as [|e] end.
    + apply some_inj in E.
      match type of E with start_success ?x = _ => pose proof (Bm_start_success x) as H3; rewrite E in H3 end.
      cbn [fst] in H3. eapply TBp_Bm; [exact H3|]. eapply TBp_bv; [|exact HT1]. reflexivity.
    + match type of E with context [timeout_exit ?x ?t ?ee] =>
        assert (Hx : Bm c1 x) by bm_clear; pose proof (bv_timeout_exit x t ee) as H2; destruct (timeout_exit x t ee) as [c2 e1] end.
      cbn [fst] in H2.
      assert (HT2 : TBp c2) by (eapply TBp_bv; [exact H2|]; eapply TBp_Bm; eassumption).
      destruct (is_oserror e1).
      * destruct groups as [|[|g']].
        1,2: apply some_inj in E;
             match type of E with start_fail ?x ?ee = _ => pose proof (Bm_start_fail x ee) as H3; rewrite E in H3 end;
             cbn [fst] in H3; eapply TBp_Bm; eassumption.
        apply some_pair_inv in E. destruct E as [<- _]. apply TBp_start_tcp_attempt. exact HT2.
      * apply some_inj in E.
        match type of E with start_fail ?x ?ee = _ => pose proof (Bm_start_fail x ee) as H3; rewrite E in H3 end.
        cbn [fst] in H3. eapply TBp_Bm; eassumption.
Qed.

Lemma Bm_finish_fail c e : Bm c (fst (finish_fail c e)).
Proof.
  unfold finish_fail.
  pose proof (bv_interrupt_exit c TFinish e) as H0. destruct (interrupt_exit c TFinish e) as [c0 e1]. cbn [fst] in H0.
  match goal with |- context [cleanup ?x] => pose proof (bv_cleanup x) as H1; assert (Hx : Bm c0 x) by bm_clear; destruct (cleanup x) as [c2 o] end.
  cbn [fst] in H1.
  match goal with |- context [finish_task ?x ?t ?r] => pose proof (bv_finish_task x t r) as H2; destruct (finish_task x t r) as [c4 o2] end.
  cbn [fst] in *. rewrite bv_set_finish_future in H2.
  eapply Bm_trans; [apply Bm_bv; exact H0|]. eapply Bm_trans; [exact Hx|]. apply Bm_bv. congruence.
Qed.
Lemma Bm_finish_success c : Bm c (fst (finish_success c)).
Proof.
  unfold finish_success.
  match goal with |- context [set_finish_future ?x] => set (c2 := set_finish_future x);
    assert (H2 : bv c2 = bv c) by (unfold c2; rewrite bv_set_finish_future; reflexivity) end.
  destruct (cs c2).
  5: { pose proof (bv_cleanup c2) as H3. destruct (cleanup c2) as [c3 o]. cbn [fst] in H3.
       match goal with |- context [finish_task ?x ?t ?r] => pose proof (bv_finish_task x t r) as H4; destruct (finish_task x t r) as [c4 o2] end.
       cbn [fst] in *. apply Bm_bv. rewrite H4, H3. exact H2. }
  all: apply Bm_bv; rewrite bv_finish_task; exact H2.
Qed.
Lemma bv_call_begin c owner send types ap st tmo : bv (fst (fst (fst (call_begin c owner send types ap st tmo)))) = bv c.
Proof.
  unfold call_begin. pose proof (bv_send_messages c send) as H. destruct (send_messages c send) as [[c1 o] ex]. cbn [fst] in H.
  destruct ex; cbn [fst]; [exact H|]. rewrite bv_fold_add. exact H.
Qed.
Lemma Bm_finish_after_ready c : Bm c (fst (finish_after_ready c)).
Proof.
  unfold finish_after_ready. set (c0 := c <| hs_timer := None |>).
  assert (H0 : Bm c c0) by bm_clear.
  destruct (cs c0).
  5: { eapply Bm_trans; [exact H0|apply Bm_finish_fail]. }
  all: match goal with |- context [call_begin ?x ?a ?b ?d ?e ?f ?g] =>
         assert (Hx : bv x = bv c0) by (rewrite bv_internal_handlers; reflexivity);
         pose proof (bv_call_begin x a b d e f g) as HB; destruct (call_begin x a b d e f g) as [[[c2 o] ex] cid] end;
       cbn [fst] in HB;
       (destruct ex as [e|]; [pose proof (Bm_finish_fail c2 e) as HF; destruct (finish_fail c2 e) as [c3 o3]; cbn [fst] in *;
                               eapply Bm_trans; [exact H0|]; eapply Bm_trans; [|exact HF]; apply Bm_bv; congruence
                             | cbn [fst]; eapply Bm_trans; [exact H0|apply Bm_bv; congruence]]).
Qed.

Ltac finB E L := apply some_inj in E; let H := fresh "HB" in pose proof L as H; rewrite E in H; cbn [fst] in H.

Lemma TBp_wake_finish c c' o : wake_finish c = Some (c', o) -> TBp c -> TBp c'.
Proof.
  unfold wake_finish. cbn [get_task]. intros E HT.
  destruct (pc (t_finish c)); try discriminate.
  - destruct (_ || _); [|discriminate].
    pose proof (bv_take_cancel c TFinish) as H1. destruct (take_cancel c TFinish) as [c1 mc]. cbn [fst] in H1.
    assert (HT1 : TBp c1) by (eapply TBp_bv; eassumption).
    match type of E with (match ?d with _ => _ end) = _ => destruct d as [|e] end.
    + match type of E with context [ready ?x] => set (c2 := x) in * end.
      assert (HT2 : TBp c2).
      { destruct HT1 as (A1 & A2 & A3). unfold c2, TBp. cbn. split; [exact A1|]. split; [|exact A3]. intros d Hd. injection Hd as <-. lia. }
      destruct (ready c2).
      * apply some_pair_inv in E. destruct E as [<- _]. eapply TBp_bv; [apply bv_set_task|exact HT2].
      * finB E (Bm_finish_after_ready c2). eapply TBp_Bm; eassumption.
      * match type of E with Some (finish_fail ?x ?ee) = _ => finB E (Bm_finish_fail x ee) end. eapply TBp_Bm; eassumption.
      * match type of E with Some (finish_fail ?x ?ee) = _ => finB E (Bm_finish_fail x ee) end. eapply TBp_Bm; eassumption.
    + match type of E with context [finish_fail ?x ?ee] =>
        assert (H2 : bv x = bv c1) by (destruct (transport c1); reflexivity);
        pose proof (Bm_finish_fail x ee) as H3; destruct (finish_fail x ee) as [c3 o3] end.
      cbn [fst] in H3. apply some_pair_inv in E. destruct E as [<- _]. eapply TBp_Bm; [exact H3|]. eapply TBp_bv; eassumption.
  - destruct (_ || _); [|discriminate].
    pose proof (bv_take_cancel c TFinish) as H1. destruct (take_cancel c TFinish) as [c1 mc]. cbn [fst] in H1.
    assert (HT1 : TBp c1) by (eapply TBp_bv; eassumption).
    destruct mc.
    + match type of E with Some (finish_fail ?x ?ee) = _ => finB E (Bm_finish_fail x ee) end. eapply TBp_Bm; eassumption.
    + destruct (ready c1).
      * match type of E with Some (finish_fail ?x ?ee) = _ => finB E (Bm_finish_fail x ee) end. eapply TBp_Bm; eassumption.
      * finB E (Bm_finish_after_ready c1). eapply TBp_Bm; eassumption.
      * match type of E with Some (finish_fail ?x ?ee) = _ => finB E (Bm_finish_fail x ee) end. eapply TBp_Bm; eassumption.
      * match type of E with Some (finish_fail ?x ?ee) = _ => finB E (Bm_finish_fail x ee) end. eapply TBp_Bm; eassumption.
  - destruct (get_call c cid) as [kk|]; [|discriminate].
    destruct (_ || _); [|discriminate].
    pose proof (bv_take_cancel c TFinish) as H1. destruct (take_cancel c TFinish) as [c1 mc]. cbn [fst] in H1.
    assert (HT2 : TBp (call_finally c1 cid)) by (eapply TBp_bv; [rewrite bv_call_finally; exact H1|exact HT]).
    match type of E with (match ?d with _ => _ end) = _ => destruct d as [|e] end.
    + destruct (check_hello_login _ _).
      * match type of E with Some (finish_fail ?x ?ee) = _ => finB E (Bm_finish_fail x ee) end. eapply TBp_Bm; eassumption.
      * match type of E with Some (finish_success ?x) = _ => finB E (Bm_finish_success x) end. eapply TBp_Bm; eassumption.
    + match type of E with Some (finish_fail ?x ?ee) = _ => finB E (Bm_finish_fail x ee) end. eapply TBp_Bm; eassumption.
Qed.

Lemma bv_disconnect_after_wait c : bv (fst (disconnect_after_wait c)) = bv c.
Proof.
  unfold disconnect_after_wait. set (c1 := c <| expected_disconnect := true |>).
  assert (H1 : bv c1 = bv c) by reflexivity.
  destruct (handshake_complete c1).
  - match goal with |- context [call_begin ?x ?a ?b ?d ?e ?f ?g] =>
      pose proof (bv_call_begin x a b d e f g) as HB; destruct (call_begin x a b d e f g) as [[[c2 o] ex] cid] end.
    cbn [fst] in HB.
    destruct ex as [[l| | | | |]|].
    2-6: match goal with |- context [finish_task ?x ?t ?r] => pose proof (bv_finish_task x t r) as H4; destruct (finish_task x t r) as [c4 o4] end;
         cbn [fst] in *; congruence.
    + pose proof (bv_cleanup c2) as H3. destruct (cleanup c2) as [c3 o3]. cbn [fst] in H3.
      match goal with |- context [finish_task ?x ?t ?r] => pose proof (bv_finish_task x t r) as H4; destruct (finish_task x t r) as [c4 o4] end.
      cbn [fst] in *. congruence.
    + cbn [fst]. rewrite bv_set_task. congruence.
  - pose proof (bv_cleanup c1) as H3. destruct (cleanup c1) as [c3 o3]. cbn [fst] in H3.
    match goal with |- context [finish_task ?x ?t ?r] => pose proof (bv_finish_task x t r) as H4; destruct (finish_task x t r) as [c4 o4] end.
    cbn [fst] in *. congruence.
Qed.
Lemma Bm_wake_disc c c' o : wake_disc c = Some (c', o) -> Bm c c'.
Proof.
  unfold wake_disc. cbn [get_task]. intros E.
  destruct (pc (t_disc c)); try discriminate.
  - destruct (_ || _); [|discriminate].
    pose proof (bv_take_cancel c TDisc) as H1. destruct (take_cancel c TDisc) as [c1 mc]. cbn [fst] in H1.
    assert (H2 : Bm c (c1 <| disc_timer := None |>)) by (eapply Bm_trans; [apply Bm_bv; exact H1|bm_clear]).
    destruct mc.
    + apply some_pair_inv in E. destruct E as [<- _]. eapply Bm_trans; [exact H2|apply Bm_bv, bv_set_task].
    + apply some_inj in E. match type of E with disconnect_after_wait ?x = _ =>
        pose proof (bv_disconnect_after_wait x) as H3; rewrite E in H3; assert (Hx : bv x = bv (c1 <| disc_timer := None |>)) by (repeat dm; reflexivity) end.
      cbn [fst] in H3. eapply Bm_trans; [exact H2|apply Bm_bv; rewrite H3; exact Hx].
  - destruct (get_call c cid) as [kk|]; [|discriminate].
    destruct (_ || _); [|discriminate].
    pose proof (bv_take_cancel c TDisc) as H1. destruct (take_cancel c TDisc) as [c1 mc]. cbn [fst] in H1.
    assert (H2 : bv (call_finally c1 cid) = bv c) by (rewrite bv_call_finally; exact H1).
    apply Bm_bv.
    match type of E with (match ?d with _ => _ end) = _ => destruct d as [|[l| | | | |]] end.
    3-7: apply some_pair_inv in E; destruct E as [<- _]; rewrite bv_set_task; exact H2.
    all: match type of E with context [cleanup ?x] => pose proof (bv_cleanup x) as H4; destruct (cleanup x) as [c3 o3] end; cbn [fst] in H4;
         match type of E with context [finish_task ?x ?t ?r] => pose proof (bv_finish_task x t r) as H5; destruct (finish_task x t r) as [c4 o4] end;
         cbn [fst] in H5; apply some_pair_inv in E; destruct E as [<- _]; congruence.
Qed.
Lemma bv_wake_call c cid c' o : wake_call c cid = Some (c', o) -> bv c' = bv c.
Proof.
  unfold wake_call. intros E.
  destruct (pc (get_task c (TCall cid))); try discriminate.
  destruct (get_call c cid) as [kk|]; [|discriminate].
  destruct (_ || _); [|discriminate].
  pose proof (bv_take_cancel c (TCall cid)) as H1. destruct (take_cancel c (TCall cid)) as [c1 mc]. cbn [fst] in H1.
  apply some_pair_inv in E. destruct E as [<- _]. rewrite bv_set_task, bv_call_finally. exact H1.
Qed.

(* ---------------------------------------------------------------- every step *)
Ltac sameT E HT := apply some_pair_inv in E; destruct E as [<- _]; first [exact HT | eapply TBp_bv; [|exact HT]; reflexivity].

Theorem step_TBp c l c' o : TBp c -> step c l = Some (c', o) -> TBp c'.
Proof.
  intros HT E. destruct l; cbn [step] in E.
  - (* LStart *) destruct (cs c); try sameT E HT. destruct (pc (t_start c)); try discriminate.
    apply some_pair_inv in E. destruct E as [<- _]. destruct HT as (A1 & A2 & A3). unfold TBp. cbn. split; [|split; assumption].
    intros d Hd. injection Hd as <-. unfold CONNECT_BOUND. lia.
  - (* LFinish *) destruct (cs c); try sameT E HT. destruct (pc (t_finish c)); try discriminate. sameT E HT.
  - (* LDisconnect *)
    destruct (pc (t_disc c)); try discriminate. destruct (finish_fut c).
    2: { apply some_pair_inv in E. destruct E as [<- _]. destruct HT as (A1 & A2 & A3). unfold TBp. cbn. split; [exact A1|]. split; [exact A2|].
         intros d Hd. injection Hd as <-. lia. }
    all: apply some_inj in E; match type of E with disconnect_after_wait ?x = _ => pose proof (bv_disconnect_after_wait x) as H3; rewrite E in H3 end;
         cbn [fst] in H3; eapply TBp_bv; [exact H3|]; eapply TBp_bv; [|exact HT]; reflexivity.
  - (* LForce *)
    set (c1 := c <| expected_disconnect := true |>) in *.
    destruct (handshake_complete c1).
    + pose proof (bv_send_messages c1 [T_DISC_REQ]) as S. destruct (send_messages c1 [T_DISC_REQ]) as [[c2 o2] ex]. cbn [fst] in S.
      destruct ex as [[l| | | | |]|].
      2-6: apply some_pair_inv in E; destruct E as [<- _]; eapply TBp_bv; [exact S|]; eapply TBp_bv; [|exact HT]; reflexivity.
      all: pose proof (bv_cleanup c2) as S2'; destruct (cleanup c2) as [c3 o3]; cbn [fst] in S2';
           apply some_pair_inv in E; destruct E as [<- _]; eapply TBp_bv; [exact S2'|]; eapply TBp_bv; [exact S|]; eapply TBp_bv; [|exact HT]; reflexivity.
    + pose proof (bv_cleanup c1) as S2'. destruct (cleanup c1) as [c3 o3]. cbn [fst] in S2'.
      apply some_pair_inv in E. destruct E as [<- _]. eapply TBp_bv; [exact S2'|]. eapply TBp_bv; [|exact HT]. reflexivity.
  - (* LCallStart *)
    match type of E with context [call_begin ?x ?a ?b ?d ?e ?f ?g] =>
      pose proof (bv_call_begin x a b d e f g) as HB; assert (HT0 : TBp x) by (eapply TBp_bv; [|exact HT]; reflexivity);
      destruct (call_begin x a b d e f g) as [[[c1 o1] ex] cid'] end.
    cbn [fst] in HB.
    destruct ex as [e|]; apply some_pair_inv in E; destruct E as [<- _].
    + cbn [finish_task fst]. eapply TBp_bv; [apply bv_set_task|]. eapply TBp_bv; [|eapply TBp_bv; [exact HB|exact HT0]]. reflexivity.
    + eapply TBp_bv; [exact HB|exact HT0].
  - (* LSend *)
    pose proof (bv_send_messages c tys) as S. destruct (send_messages c tys) as [[c1 o1] ex]. cbn [fst] in S.
    apply some_pair_inv in E. destruct E as [<- _]. eapply TBp_bv; eassumption.
  - (* LCancel *)
    destruct (task_running _); [|sameT E HT].
    apply some_pair_inv in E. destruct E as [<- _]. eapply TBp_bv; [rewrite bv_cancel_task; apply bv_set_task|exact HT].
  - (* LSub *) apply some_pair_inv in E. destruct E as [<- _]. eapply TBp_bv; [apply bv_add|exact HT].
  - (* LUnsub *) sameT E HT.
  - (* LResolveDone *) destruct (pc (t_start c)); try discriminate. destruct (do_connect c); try discriminate. sameT E HT.
  - (* LTcpDone *) destruct (pc (t_start c)); try discriminate. destruct (do_connect c); try discriminate. sameT E HT.
  - (* LMade *) destruct (transport c); try discriminate. destruct (made c); try discriminate. destruct (noise c); sameT E HT.
  - (* LMadeWaiter *) destruct (made_waiter c); try discriminate; sameT E HT.
  - (* LHelperReady *)
    destruct (ready c); try discriminate. destruct (made c); try discriminate. destruct (transport c) eqn:Etr; try discriminate.
    destruct r as [e|]; [|sameT E HT].
    pose proof (bv_helper_error c e) as S. destruct (helper_error c e) as [c1 o1]. cbn [fst] in S.
    destruct (transport c1); apply some_pair_inv in E; destruct E as [<- _]; (eapply TBp_bv; [|exact HT]); first [exact S | cbn; exact S].
  - (* LData *)
    destruct (transport c); try discriminate. destruct (made c); try discriminate.
    pose proof (bv_data_loop items c) as S.
    destruct (data_loop c items) as [[c1 o1] ex]. cbn [fst] in S.
    destruct ex as [e|]; apply some_pair_inv in E; destruct E as [<- _]; (eapply TBp_bv; [|exact HT]); [|exact S].
    destruct (transport c1); first [exact S | cbn; exact S].
  - (* LEof *)
    destruct (transport c); try discriminate. destruct (made c); try discriminate.
    pose proof (bv_helper_error c (Lib LSocketClosed)) as S.
    destruct (helper_error c (Lib LSocketClosed)) as [c1 o1]. cbn [fst] in S.
    destruct (transport c1); apply some_pair_inv in E; destruct E as [<- _]; (eapply TBp_bv; [|exact HT]); first [exact S | cbn; exact S].
  - (* LLost *) destruct (transport c); try discriminate. sameT E HT.
  - (* LWriteFails *) sameT E HT.
  - (* LAdvance *)
    destruct (_ && _) eqn:Eg; [|discriminate]. apply some_pair_inv in E. destruct E as [<- _].
    apply andb_true_iff in Eg. destruct Eg as [Eg _]. apply Z.leb_le in Eg.
    destruct HT as (A1 & A2 & A3). unfold TBp. cbn. split; [|split]; intros d Hd; [specialize (A1 d Hd)|specialize (A2 d Hd)|specialize (A3 d Hd)]; lia.
  - (* LWake *)
    destruct t.
    + eapply TBp_wake_start; eassumption.
    + eapply TBp_wake_finish; eassumption.
    + eapply TBp_Bm; [eapply Bm_wake_disc; exact E|exact HT].
    + eapply TBp_bv; [eapply bv_wake_call; exact E|exact HT].
  - (* LIntr *)
    destruct is_start.
    + destruct (start_fut c); try discriminate. destruct (intr_start c); try discriminate; [|sameT E HT].
      apply some_pair_inv in E. destruct E as [<- _]. eapply TBp_bv; [rewrite bv_cancel_task; reflexivity|exact HT].
    + destruct (finish_fut c); try discriminate. destruct (intr_finish c); try discriminate; [|sameT E HT].
      apply some_pair_inv in E. destruct E as [<- _]. eapply TBp_bv; [rewrite bv_cancel_task; reflexivity|exact HT].
  - (* LDiscWaitDone *)
    destruct (pc (t_disc c)); try discriminate.
    destruct (finish_fut c); try discriminate; destruct (disc_wait_done c); try discriminate; try sameT E HT.
    all: apply some_pair_inv in E; destruct E as [<- _]; eapply TBp_Bm; [|exact HT]; bm_clear.
  - (* LConnLostCb *)
    destruct (transport c); try discriminate.
    match type of E with context [made ?x] => set (c1 := x) in * end.
    destruct (made c1); [|sameT E HT].
    apply some_inj in E. match type of E with helper_error c1 ?x = _ => pose proof (bv_helper_error c1 x) as S end.
    rewrite E in S. cbn [fst] in S. eapply TBp_bv; [exact S|]. eapply TBp_bv; [|exact HT]. reflexivity.
  - (* LTimer *)
    destruct k.
    + destruct (due _ _); [|discriminate].
      set (c0 := c <| ping_timer := None |>) in *.
      destruct (send_pending_ping c0); [|sameT E HT].
      pose proof (bv_send_messages c0 [T_PING_REQ]) as S. destruct (send_messages c0 [T_PING_REQ]) as [[c1 o1] ex]. cbn [fst] in S.
      assert (HT1 : TBp c1) by (eapply TBp_bv; [exact S|]; eapply TBp_bv; [|exact HT]; reflexivity).
      destruct ex as [e|]; apply some_pair_inv in E; destruct E as [<- _]; [exact HT1|].
      eapply TBp_bv; [|exact HT1]. destruct (pong_timer c1); reflexivity.
    + destruct (due _ _); [|discriminate]. apply some_inj in E.
      pose proof (bv_report_fatal c (Lib LPingFailed)) as S. rewrite E in S. eapply TBp_bv; eassumption.
    + destruct (due _ _); [|discriminate]. destruct (ready c); apply some_pair_inv in E; destruct E as [<- _]; (eapply TBp_Bm; [|exact HT]); bm_clear.
    + destruct (due _ _); [|discriminate].
      apply some_pair_inv in E. destruct E as [<- _].
      match goal with |- TBp (cancel_task ?x TStart) => eapply TBp_bv; [apply bv_cancel_task|]; eapply (TBp_Bm c x); [bm_clear|exact HT] end.
    + destruct (get_call c cid) as [kk|]; [|discriminate]. destruct (due _ _); [|discriminate]. sameT E HT.
    + destruct (pc (t_disc c)); try discriminate. destruct (due _ _); [|discriminate].
      apply some_pair_inv in E. destruct E as [<- _]. eapply TBp_Bm; [|exact HT]. bm_clear.
Qed.

Lemma TBp_init n e ka scr : TBp (init n e ka scr).
Proof. unfold TBp. cbn. repeat split; intros d Hd; discriminate. Qed.
Lemma run_TBp ls : forall c c' os, TBp c -> run c ls = Some (c', os) -> TBp c'.
Proof.
  induction ls as [|l ls IH]; intros c c' os HT E; cbn [run] in E.
  - apply some_pair_inv in E. destruct E as [<- _]. exact HT.
  - destruct (step c l) as [[c1 o]|] eqn:Es; [|discriminate].
    destruct (run c1 ls) as [[c2 os2]|] eqn:Er; [|discriminate].
    apply some_pair_inv in E. destruct E as [<- _]. eapply IH; [|exact Er]. eapply step_TBp; eassumption.
Qed.

(* every armed deadline of the two connect phases and of disconnect()'s wait lies within its documented bound of the present *)
Theorem phase_deadlines_bounded n e ka scr ls c os :
  run (init n e ka scr) ls = Some (c, os) ->
  (forall d, conn_timer c = Some d -> d <= now c + Z.max RESOLVE_TIMEOUT TCP_CONNECT_TIMEOUT) /\
  (forall d, hs_timer c = Some d -> d <= now c + HANDSHAKE_TIMEOUT) /\
  (forall d, disc_timer c = Some d -> d <= now c + DISCONNECT_CONNECT_TIMEOUT).
Proof. intro E. exact (run_TBp ls _ _ _ (TBp_init n e ka scr) E). Qed.
