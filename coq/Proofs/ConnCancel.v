(* For C09: a cancellation ends disconnect() or a request/response call only when the caller cancelled that very operation.
   The invariant ties every awaited call to the one task that awaits it (owner), so that a cancelled future or a pending
   cancel flag is always traced back to an LCancel of that task (ghost flag user_cancelled). *)
From Coq Require Import NArith ZArith List Bool Lia PeanoNat.
From RecordUpdate Require Import RecordSet.
From Verif Require Import Generated.GenConstants Model.Conn Proofs.ConnErrors Proofs.ConnReason Proofs.ConnOutcome.
Import ListNotations RecordSetNotations.
Open Scope Z_scope.
Open Scope list_scope.

Definition awaited (p : tpc) : option nat := match p with PF_Hello cid | PD_Resp cid | PC_Wait cid => Some cid | _ => None end.

(* skip: the task whose awaited call is being registered right now *)
Record CIs (skip : tid -> Prop) (c : conn) : Prop := {
  i_f1 : F1 c;
  i_own : forall k x, In k (calls c) -> c_owner k = TCall x -> x = c_id k;
  i_tlt : Forall (fun p => (fst p < next_cid c)%nat \/ skip (TCall (fst p))) (call_tasks c);
  i_st : awaited (pc (t_start c)) = None;
  i_aw : forall t cid, t <> TStart -> ~ skip t -> awaited (pc (get_task c t)) = Some cid ->
         exists kk, get_call c cid = Some kk /\ c_owner kk = t;
  i_mc : forall t, utask t = true -> must_cancel (get_task c t) = true -> user_cancelled (get_task c t) = true;
  i_cc : forall k, In k (calls c) -> c_fut k = CCancelled -> utask (c_owner k) = true -> user_cancelled (get_task c (c_owner k)) = true }.
Definition CI := CIs (fun _ => False).

Lemma In_callsrel l l' k' : callsrel l l' -> In k' l' -> exists k, In k l /\ callrel k k'.
Proof.
  induction 1 as [|x y l l' Hxy _ IH]; intros Hin; [destruct Hin|].
  destruct Hin as [<-|Hin]; [exists x; split; [left; reflexivity|exact Hxy]|].
  destruct (IH Hin) as (k & A & B). exists k. split; [right; exact A|exact B].
Qed.

Definition tid_eqb (a b : tid) : bool :=
  match a, b with
  | TStart, TStart | TFinish, TFinish | TDisc, TDisc => true
  | TCall x, TCall y => Nat.eqb x y
  | _, _ => false
  end.
Lemma tid_eqb_spec a b : tid_eqb a b = true <-> a = b.
Proof.
  destruct a, b; cbn; try (split; [discriminate|discriminate]); try tauto.
  rewrite Nat.eqb_eq. split; [intros ->; reflexivity|intro H; injection H; auto].
Qed.
Lemma tid_dec (a b : tid) : a = b \/ a <> b.
Proof. destruct (tid_eqb a b) eqn:E; [left; apply tid_eqb_spec; exact E|right; intro H; apply tid_eqb_spec in H; congruence]. Qed.

(* moves that touch (at most) the task t, benignly *)
Record S2 (t : tid) (c c' : conn) : Prop := {
  y_calls : callsrel (calls c) (calls c');
  y_next : next_cid c' = next_cid c;
  y_ids : map fst (call_tasks c') = map fst (call_tasks c);
  y_other : forall t', t' <> t -> get_task c' t' = get_task c t';
  y_mc : must_cancel (get_task c' t) = true -> must_cancel (get_task c t) = true;
  y_uc : user_cancelled (get_task c' t) = user_cancelled (get_task c t);
  y_pc : pc (get_task c' t) = pc (get_task c t) \/ awaited (pc (get_task c' t)) = None }.

Lemma get_task_ab c c' t : ab c' = ab c -> get_task c' t = get_task c t.
Proof.
  unfold ab. intro E. injection E as _ _ A B D E. destruct t; cbn [get_task]; try assumption. rewrite D. reflexivity.
Qed.

Lemma S2_S1 t c c' : S1 c c' -> S2 t c c'.
Proof.
  intros [A B D E F G].
  assert (Q : forall t', get_task c' t' = get_task c t') by (intro t'; destruct t'; cbn [get_task]; try congruence; rewrite F; reflexivity).
  constructor; try assumption; try (rewrite Q; auto).
  - rewrite F. reflexivity.
  - intros t' _. apply Q.
Qed.
Lemma S2_ab t c c' : ab c' = ab c -> S2 t c c'.
Proof. intro E. apply S2_S1, S1_ab, E. Qed.
Lemma S2_refl t c : S2 t c c.
Proof. apply S2_ab. reflexivity. Qed.
Lemma S2_trans t a b c : S2 t a b -> S2 t b c -> S2 t a c.
Proof.
  intros [A1 A2 A3 A4 A5 A6 A7] [B1 B2 B3 B4 B5 B6 B7]. constructor; try congruence.
  - eapply callsrel_trans; eassumption.
  - intros t' Hn. rewrite B4, A4; auto.
  - auto.
  - destruct B7 as [B7|B7]; [|right; exact B7]. rewrite B7. exact A7.
Qed.

Lemma S2_ab_l t c x c' : S2 t x c' -> ab x = ab c -> S2 t c c'.
Proof. intros H E. eapply S2_trans; [apply S2_ab; exact E|exact H]. Qed.

Lemma find_fst_map (l : list (nat * task)) (f : nat * task -> nat * task) y :
  (forall p, fst (f p) = fst p) -> (forall p, fst p <> y -> f p = p) ->
  forall x, x <> y -> find (fun p => Nat.eqb (fst p) x) (map f l) = find (fun p => Nat.eqb (fst p) x) l.
Proof.
  intros Hf Hid x Hx. induction l as [|p l IHl]; cbn; [reflexivity|]. rewrite Hf.
  destruct (Nat.eqb (fst p) x) eqn:E; [|exact IHl].
  apply Nat.eqb_eq in E. rewrite Hid by congruence. reflexivity.
Qed.

Definition exists_task (c : conn) (t : tid) : Prop :=
  match t with TCall x => find (fun p => Nat.eqb (fst p) x) (call_tasks c) <> None | _ => True end.

Lemma set_task_facts c t k' : exists_task c t ->
  get_task (set_task c t k') t = k' /\
  (forall t', t' <> t -> get_task (set_task c t k') t' = get_task c t') /\
  calls (set_task c t k') = calls c /\ next_cid (set_task c t k') = next_cid c /\
  map fst (call_tasks (set_task c t k')) = map fst (call_tasks c).
Proof.
  intro Hex. split; [|split; [|split; [|split]]].
  - destruct t; cbn [set_task get_task]; try reflexivity.
    cbn. cbn in Hex. induction (call_tasks c) as [|p l IHl]; cbn in *; [contradiction|].
    destruct (Nat.eqb (fst p) cid) eqn:E; cbn; [rewrite Nat.eqb_refl; reflexivity|]. rewrite E. apply IHl. exact Hex.
  - intros t' Hn. destruct t, t'; try reflexivity; try contradiction. cbn [set_task get_task]. cbn.
    rewrite (find_fst_map _ _ cid); [reflexivity| | |congruence].
    + intro p. destruct (Nat.eqb _ _) eqn:E; [apply Nat.eqb_eq in E; cbn; auto|reflexivity].
    + intros p Hp'. apply Nat.eqb_neq in Hp'. rewrite Hp'. reflexivity.
  - destruct t; reflexivity.
  - destruct t; reflexivity.
  - destruct t; try reflexivity. cbn. rewrite map_map. apply map_ext. intro p. destruct (Nat.eqb _ _) eqn:E; [|reflexivity].
    apply Nat.eqb_eq in E. cbn. auto.
Qed.

(* replacing the record of task t by one with the same or a call-free program point *)
Lemma S2_set_task c t k' :
  (must_cancel k' = true -> must_cancel (get_task c t) = true) ->
  user_cancelled k' = user_cancelled (get_task c t) ->
  (pc k' = pc (get_task c t) \/ awaited (pc k') = None) ->
  exists_task c t ->
  S2 t c (set_task c t k').
Proof.
  intros Hm Hu Hp Hex. destruct (set_task_facts c t k' Hex) as (Hself & Hoth & Hc & Hn & Hi).
  constructor; try (rewrite Hself; assumption); try assumption.
  rewrite Hc. apply callsrel_refl.
Qed.

Lemma CIs_S2 skip t c c' : S2 t c c' -> CIs skip c -> CIs skip c'.
Proof.
  intros [Sc Sn Si So Sm Su Sp] [F O T St A M Cc].
  constructor.
  - eapply F1_S0; [constructor; eassumption|exact F].
  - intros k' x Hin Ho. destruct (In_callsrel _ _ _ Sc Hin) as (k & Hk & (E1 & E2 & _)). rewrite E1. apply (O k x Hk). congruence.
  - rewrite Sn. rewrite Forall_forall in *. intros p Hp.
    assert (Hin : In (fst p) (map fst (call_tasks c))) by (rewrite <- Si; apply in_map; exact Hp).
    apply in_map_iff in Hin. destruct Hin as (q & Eq & Hq). rewrite <- Eq. apply T. exact Hq.
  - destruct (tid_dec t TStart) as [->|Hn].
    + change (t_start c') with (get_task c' TStart). destruct Sp as [Sp|Sp]; [rewrite Sp; exact St|exact Sp].
    + change (t_start c') with (get_task c' TStart). rewrite So by congruence. exact St.
  - intros t' cid Hn Hs Ha.
    assert (Ha' : awaited (pc (get_task c t')) = Some cid).
    { destruct (tid_dec t' t) as [->|Hd]; [|rewrite So in Ha by exact Hd; exact Ha].
      destruct Sp as [Sp|Sp]; [rewrite Sp in Ha; exact Ha|rewrite Sp in Ha; discriminate]. }
    destruct (A t' cid Hn Hs Ha') as (kk & Eg & Eo).
    pose proof (find_callsrel _ _ cid Sc) as Q. unfold get_call in *. rewrite Eg in Q.
    destruct (find _ (calls c')) as [kk'|]; [|contradiction]. exists kk'. split; [reflexivity|]. destruct Q as (_ & Q & _). congruence.
  - intros t' Hu Hm. destruct (tid_dec t' t) as [->|Hd].
    + rewrite Su. apply M; auto.
    + rewrite So in * by exact Hd. auto.
  - intros k' Hin Hf Hu. destruct (In_callsrel _ _ _ Sc Hin) as (k & Hk & (E1 & E2 & E3)).
    rewrite E2 in *.
    assert (Hc : c_fut k = CCancelled).
    { destruct E3 as [E3|[_ E3]]; [congruence|]. rewrite Hf in E3. destruct E3 as [E3|[E3|[l E3]]]; discriminate. }
    specialize (Cc k Hk Hc Hu). destruct (tid_dec (c_owner k) t) as [Hd|Hd].
    + rewrite Hd in *. rewrite Su. exact Cc.
    + rewrite So by exact Hd. exact Cc.
Qed.

(* ---------------------------------------------------------------- task plumbing as S2 moves *)
Lemma exists_task_of c t : get_task c t <> task0 -> exists_task c t.
Proof. destruct t; cbn; auto. destruct (find _ _); [discriminate|]. intro H. contradiction. Qed.

Ltac s2set X := apply S2_set_task; [let Hm := fresh "Hm" in intro Hm; exact Hm|reflexivity|left; reflexivity|exact X].

Lemma S2_take_cancel c t : S2 t c (fst (take_cancel c t)).
Proof.
  unfold take_cancel. destruct (must_cancel (get_task c t)) eqn:E; cbn [fst]; [|apply S2_refl].
  apply S2_set_task; [intro H; discriminate H|reflexivity|left; reflexivity|].
  apply exists_task_of. intro Q. rewrite Q in E. discriminate.
Qed.
Lemma S2_timeout_exit c t e : S2 t c (fst (timeout_exit c t e)).
Proof.
  unfold timeout_exit. destruct (expiring (get_task c t)) eqn:E; [|apply S2_refl].
  assert (X : exists_task c t) by (apply exists_task_of; intro Q; rewrite Q in E; discriminate).
  destruct e; cbn [fst]; try (s2set X).
  destruct (Nat.eqb _ 0); cbn [fst]; s2set X.
Qed.
Lemma S2_interrupt_exit c t e : S2 t c (fst (interrupt_exit c t e)).
Proof.
  unfold interrupt_exit. destruct (interrupted (get_task c t)) eqn:E; [|apply S2_refl].
  assert (X : exists_task c t) by (apply exists_task_of; intro Q; rewrite Q in E; discriminate).
  destruct e; cbn [fst]; try apply S2_refl.
  destruct (Nat.eqb _ 0); cbn [fst]; s2set X.
Qed.
Lemma S2_finish_task c t r : exists_task c t -> S2 t c (fst (finish_task c t r)).
Proof. intro X. unfold finish_task. cbn [fst]. apply S2_set_task; [intro Hm; exact Hm|reflexivity|right; reflexivity|exact X]. Qed.

(* ---------------------------------------------------------------- start_connection *)
Lemma S2_cleanup t c : S2 t c (fst (cleanup c)).
Proof. apply S2_S1, S1_cleanup. Qed.

Lemma start_fail_B c e : S2 TStart c (fst (start_fail c e)).
Proof.
  unfold start_fail. pose proof (S2_interrupt_exit c TStart e) as H0. destruct (interrupt_exit c TStart e) as [c0 e1]. cbn [fst] in H0.
  set (c1 := c0 <| intr_start := IExited |> <| conn_timer := None |>).
  assert (H1 : S2 TStart c c1) by (eapply S2_trans; [exact H0|apply S2_ab; reflexivity]).
  pose proof (S2_cleanup TStart c1) as H2. destruct (cleanup c1) as [c2 o]. cbn [fst] in H2.
  pose proof (S2_finish_task (set_start_future c2) TStart (TRaise (wrap_fatal c2 e1)) I) as H4.
  destruct (finish_task (set_start_future c2) TStart (TRaise (wrap_fatal c2 e1))) as [c4 o2]. cbn [fst] in *.
  eapply S2_trans; [exact H1|]. eapply S2_trans; [exact H2|]. eapply S2_trans; [apply S2_ab, ab_set_start_future|exact H4].
Qed.

Lemma cleanup_finish_B c t (mk : conn -> tres) : exists_task c t ->
  S2 t c (fst (let '(c3, o) := cleanup c in let '(c4, o2) := finish_task c3 t (mk c3) in (c4, o ++ o2))).
Proof.
  intro X. pose proof (S1_cleanup c) as H1. pose proof (S2_S1 t _ _ H1) as H. destruct (cleanup c) as [c3 o]. cbn [fst] in H, H1.
  assert (X3 : exists_task c3 t) by (destruct t; cbn in *; auto; destruct H1 as [_ _ _ _ E _]; rewrite E; exact X).
  pose proof (S2_finish_task c3 t (mk c3) X3) as H2. destruct (finish_task c3 t (mk c3)) as [c4 o2]. cbn [fst] in *.
  eapply S2_trans; eassumption.
Qed.

Lemma S2_pc_none t c k' : awaited (pc k') = None -> must_cancel k' = must_cancel (get_task c t) ->
  user_cancelled k' = user_cancelled (get_task c t) -> exists_task c t -> S2 t c (set_task c t k').
Proof. intros A B D X. apply S2_set_task; auto. rewrite B. auto. Qed.

Lemma start_success_B c : S2 TStart c (fst (start_success c)).
Proof.
  unfold start_success.
  set (c1 := c <| socket := true |> <| sock_obj := false |> <| intr_start := IExited |> <| conn_timer := None |>).
  pose proof (ab_set_start_future c1) as E2. set (c2 := set_start_future c1) in *.
  assert (H2 : S2 TStart c c2) by (apply S2_ab; rewrite E2; reflexivity).
  destruct (cs c2).
  5: { eapply S2_trans; [exact H2|]. apply (cleanup_finish_B c2 TStart (fun c3 => TRaise (wrap_fatal c3 Interrupted))). exact I. }
  all: eapply S2_trans; [exact H2|];
       match goal with |- S2 _ _ (fst (finish_task (set_state ?x ?s) _ _)) =>
         apply (S2_trans _ _ (set_state x s)); [apply S2_ab; reflexivity|apply S2_finish_task; exact I] end.
Qed.

Lemma start_tcp_attempt_B c g : S2 TStart c (start_tcp_attempt c g).
Proof.
  unfold start_tcp_attempt.
  match goal with |- S2 _ _ (set_task ?x _ _) => apply (S2_trans _ _ x); [apply S2_ab; reflexivity|] end.
  apply S2_set_task; [intro Hm; exact Hm|reflexivity|right; reflexivity|exact I].
Qed.

Lemma wake_start_B c c' o : wake_start c = Some (c', o) -> S2 TStart c c'.
Proof.
  unfold wake_start. intro E.
  destruct (pc (get_task c TStart)) eqn:Epc; try discriminate.
  - destruct (must_cancel (get_task c TStart) || negb match do_connect c with EPending => true | _ => false end); [|discriminate].
    pose proof (S2_take_cancel c TStart) as E1. destruct (take_cancel c TStart) as [c1 mc]. cbn [fst] in E1.
    match type of E with match ?d with _ => _ end = _ => destruct d as [|e] end.
    + apply some_pair_inv in E. destruct E as [<- _]. eapply S2_trans; [exact E1|].
      match goal with |- S2 _ _ (start_tcp_attempt ?x _) => apply (S2_trans _ _ x); [apply S2_ab; reflexivity|apply start_tcp_attempt_B] end.
    + pose proof (S2_timeout_exit (c1 <| conn_timer := None |>) TStart e) as E2.
      destruct (timeout_exit (c1 <| conn_timer := None |>) TStart e) as [c2 e1]. cbn [fst] in E2.
      apply some_inj in E.
      assert (H2 : S2 TStart c c2) by (eapply S2_trans; [exact E1|]; refine (S2_ab_l _ _ _ _ E2 _); reflexivity).
      pose proof (start_fail_B c2 match e1 with PyTimeout => Lib LResolve | x => x end) as H3. rewrite E in H3. cbn [fst] in H3.
      eapply S2_trans; eassumption.
  - destruct (must_cancel (get_task c TStart) || negb match do_connect c with EPending => true | _ => false end); [|discriminate].
    pose proof (S2_take_cancel c TStart) as E1. destruct (take_cancel c TStart) as [c1 mc]. cbn [fst] in E1.
    match type of E with match ?d with _ => _ end = _ => destruct d as [|e] end.
    + apply some_inj in E. match type of E with start_success ?x = _ => pose proof (start_success_B x) as H;
        assert (H0 : S2 TStart c1 x) by (apply S2_ab; reflexivity) end.
      rewrite E in H. cbn [fst] in H. eapply S2_trans; [exact E1|]. eapply S2_trans; eassumption.
    + pose proof (S2_timeout_exit (c1 <| conn_timer := None |>) TStart e) as E2.
      destruct (timeout_exit (c1 <| conn_timer := None |>) TStart e) as [c2 e1]. cbn [fst] in E2.
      assert (H2 : S2 TStart c c2) by (eapply S2_trans; [exact E1|]; refine (S2_ab_l _ _ _ _ E2 _); reflexivity).
      assert (SF : forall x r, Some (start_fail c2 x) = Some r -> S2 TStart c (fst r)).
      { intros x r Er. apply some_inj in Er. pose proof (start_fail_B c2 x) as A. rewrite Er in A. eapply S2_trans; eassumption. }
      destruct (is_oserror e1).
      * match type of E with match ?g with O => _ | S _ => _ end = _ => destruct g as [|[|g']] end.
        -- exact (SF _ _ E).
        -- exact (SF _ _ E).
        -- apply some_pair_inv in E. destruct E as [<- _]. eapply S2_trans; [exact H2|apply start_tcp_attempt_B].
      * exact (SF _ _ E).
Qed.

(* ---------------------------------------------------------------- finish_connection *)
Lemma finish_fail_B c e : S2 TFinish c (fst (finish_fail c e)).
Proof.
  unfold finish_fail. pose proof (S2_interrupt_exit c TFinish e) as H0. destruct (interrupt_exit c TFinish e) as [c0 e1]. cbn [fst] in H0.
  set (c1 := c0 <| intr_finish := IExited |> <| hs_timer := None |>).
  assert (H1 : S2 TFinish c c1) by (eapply S2_trans; [exact H0|apply S2_ab; reflexivity]).
  pose proof (S2_cleanup TFinish c1) as H2. destruct (cleanup c1) as [c2 o]. cbn [fst] in H2.
  pose proof (S2_finish_task (set_finish_future c2) TFinish (TRaise (wrap_fatal c2 e1)) I) as H4.
  destruct (finish_task (set_finish_future c2) TFinish (TRaise (wrap_fatal c2 e1))) as [c4 o2]. cbn [fst] in *.
  eapply S2_trans; [exact H1|]. eapply S2_trans; [exact H2|]. eapply S2_trans; [apply S2_ab, ab_set_finish_future|exact H4].
Qed.
Lemma finish_success_B c : S2 TFinish c (fst (finish_success c)).
Proof.
  unfold finish_success. set (c1 := c <| intr_finish := IExited |>).
  pose proof (ab_set_finish_future c1) as E2. set (c2 := set_finish_future c1) in *.
  assert (H2 : S2 TFinish c c2) by (apply S2_ab; rewrite E2; reflexivity).
  destruct (cs c2).
  5: { eapply S2_trans; [exact H2|]. apply (cleanup_finish_B c2 TFinish (fun c3 => TRaise (wrap_fatal c3 Interrupted))). exact I. }
  all: eapply S2_trans; [exact H2|]; (eapply S2_trans; [|apply S2_finish_task; exact I]); apply S2_ab; reflexivity.
Qed.

(* ---------------------------------------------------------------- registering a call *)
Lemma skip_weaken (P Q : tid -> Prop) c : (forall t, P t -> Q t) -> CIs P c -> CIs Q c.
Proof.
  intros H [F O T St A M Cc]. constructor; auto.
  eapply Forall_impl; [|exact T]. cbn. intros a [W|W]; auto.
Qed.

Lemma find_app_some {A} (f : A -> bool) l l' x : find f l = Some x -> find f (l ++ l') = Some x.
Proof. induction l as [|a l IHl]; cbn; [discriminate|]. destruct (f a); auto. Qed.
Lemma find_app_none {A} (f : A -> bool) l l' : find f l = None -> find f (l ++ l') = find f l'.
Proof. induction l as [|a l IHl]; cbn; [reflexivity|]. destruct (f a); [discriminate|auto]. Qed.

(* what call_begin does to the invariant: the table grows by one pending call owned by `owner`, with the next free id *)
Lemma CIs_call_begin skip c owner send types ap st tmo :
  CIs skip c -> (forall x, owner = TCall x -> x = next_cid c) ->
  let r := call_begin c owner send types ap st tmo in
  CIs skip (fst (fst (fst r))) /\
  (forall t, get_task (fst (fst (fst r))) t = get_task c t) /\
  (snd (fst r) = None -> snd r = next_cid c /\ exists kk, get_call (fst (fst (fst r))) (next_cid c) = Some kk /\ c_owner kk = owner).
Proof.
  intros H Ho. unfold call_begin. pose proof (S1_send_messages c send) as H1.
  destruct (send_messages c send) as [[c1 o] ex]. cbn [fst] in H1.
  pose proof (CIs_S2 skip TStart _ _ (S2_S1 TStart _ _ H1) H) as H1'.
  assert (Tk : forall t, get_task c1 t = get_task c t).
  { destruct H1 as [_ _ A B D E]. intro t; destruct t; cbn [get_task]; try congruence. rewrite D. reflexivity. }
  assert (Nx : next_cid c1 = next_cid c) by (destruct H1 as [_ N _ _ _ _]; exact N).
  destruct ex as [e|]; cbn [fst snd].
  - split; [exact H1'|]. split; [exact Tk|discriminate].
  - set (k := mkCall (next_cid c1) types ap st [] CPending (Some (now c1 + tmo)) owner (now c1) tmo).
    set (c2 := c1 <| calls := calls c1 ++ [k] |> <| next_cid := S (next_cid c1) |> <| waiters := waiters c1 ++ [next_cid c1] |>).
    match goal with |- CIs skip ?x /\ _ => assert (E3 : ab x = ab c2) by apply ab_fold_add end.
    assert (Tk2 : forall t, get_task c2 t = get_task c t) by (intro t; rewrite <- Tk; destruct t; reflexivity).
    assert (G2 : get_call c2 (next_cid c1) = Some k).
    { unfold get_call, c2. cbn. rewrite find_app_none.
      - cbn. rewrite Nat.eqb_refl. reflexivity.
      - destruct H1' as [[_ L _] _ _ _ _ _ _]. clear - L. induction (calls c1) as [|a l IHl]; cbn; [reflexivity|].
        inversion L; subst. destruct (Nat.eqb (c_id a) (next_cid c1)) eqn:E; [apply Nat.eqb_eq in E; lia|auto]. }
    assert (C2 : CIs skip c2).
    { destruct H1' as [F O T St A M Cc]. constructor.
      - pose proof (F1_call_begin c owner send types ap st tmo (i_f1 _ _ H)) as Q. unfold call_begin in Q.
        (* recompute: same construction *)
        destruct F as [U L Fu]. constructor; cbn.
        + rewrite map_app. cbn. apply NoDup_app_singleton; [exact U|].
          intro Hin. apply in_map_iff in Hin. destruct Hin as (k0 & Ek & Hk). rewrite Forall_forall in L. specialize (L k0 Hk). cbn in L. lia.
        + apply Forall_app. split; [eapply Forall_impl; [|exact L]; cbn; intros; lia|]. constructor; [cbn; lia|constructor].
        + apply Forall_app. split; [exact Fu|]. constructor; [|constructor]. intros e He. discriminate He.
      - intros k0 x Hin Hx. cbn in Hin. apply in_app_or in Hin. destruct Hin as [Hin|[<-|[]]]; [apply (O k0 x Hin Hx)|].
        cbn in Hx. cbn. rewrite Nx. apply Ho. exact Hx.
      - cbn. eapply Forall_impl; [|exact T]. cbn. intros a0 [Q|Q]; [left; lia|right; exact Q].
      - exact St.
      - intros t cid Hn Hs Ha. rewrite Tk2, <- Tk in Ha. destruct (A t cid Hn Hs Ha) as (kk & Eg & Eo).
        exists kk. split; [|exact Eo]. unfold get_call, c2. cbn. apply find_app_some. exact Eg.
      - intros t Hu Hm. rewrite Tk2, <- Tk in *. auto.
      - intros k0 Hin Hf Hu. cbn in Hin. apply in_app_or in Hin. destruct Hin as [Hin|[<-|[]]]; [|discriminate Hf].
        rewrite Tk2, <- Tk. apply (Cc k0 Hin Hf Hu). }
    split; [eapply CIs_S2; [apply (S2_ab TStart); exact E3|exact C2]|]. split.
    + intro t. rewrite <- Tk2. apply get_task_ab. exact E3.
    + intros _. split; [exact Nx|]. exists k. split; [|reflexivity]. rewrite <- Nx.
      unfold ab in E3. injection E3 as A _ _ _ _ _. unfold get_call in *. rewrite A. exact G2.
Qed.

(* the task that is about to await a call it has not registered yet: exempt from the awaiting clause meanwhile *)
Lemma CIs_set_pc (skip : tid -> Prop) c t k' :
  CIs skip c -> skip t -> t <> TStart -> exists_task c t ->
  must_cancel k' = must_cancel (get_task c t) -> user_cancelled k' = user_cancelled (get_task c t) ->
  CIs skip (set_task c t k').
Proof.
  intros [F O T St A M Cc] Hs Hn Hex Hm Hu.
  destruct (set_task_facts c t k' Hex) as (Hself & Hoth & Hc & Hnx & Hi).
  constructor.
  - destruct F as [U L Fu]. constructor; rewrite ?Hc, ?Hnx; assumption.
  - rewrite Hc. exact O.
  - rewrite Hnx. rewrite Forall_forall in *. intros p Hp.
    assert (Hin : In (fst p) (map fst (call_tasks c))) by (rewrite <- Hi; apply in_map; exact Hp).
    apply in_map_iff in Hin. destruct Hin as (q & Eq & Hq). rewrite <- Eq. apply T. exact Hq.
  - change (t_start (set_task c t k')) with (get_task (set_task c t k') TStart). rewrite Hoth by congruence. exact St.
  - intros t' cid Hn' Hs' Ha. destruct (tid_dec t' t) as [->|Hd]; [contradiction|].
    rewrite Hoth in Ha by exact Hd. destruct (A t' cid Hn' Hs' Ha) as (kk & Eg & Eo). exists kk. unfold get_call in *. rewrite Hc. auto.
  - intros t' Hu' Hm'. destruct (tid_dec t' t) as [->|Hd].
    + rewrite Hself in *. rewrite Hu. apply M; [exact Hu'|]. rewrite <- Hm. exact Hm'.
    + rewrite Hoth in * by exact Hd. auto.
  - rewrite Hc. intros k Hin Hf Hu'. specialize (Cc k Hin Hf Hu'). destruct (tid_dec (c_owner k) t) as [Hd|Hd].
    + rewrite Hd in *. rewrite Hself, Hu. exact Cc.
    + rewrite Hoth by exact Hd. exact Cc.
Qed.

(* once the awaited call is registered under the task's name, the exemption is lifted *)
Lemma CIs_unskip c t : CIs (eq t) c -> (forall x, t = TCall x -> (x < next_cid c)%nat) ->
  (forall cid, awaited (pc (get_task c t)) = Some cid -> exists kk, get_call c cid = Some kk /\ c_owner kk = t) -> CI c.
Proof.
  intros [F O T St A M Cc] Hx H. constructor; auto.
  - eapply Forall_impl; [|exact T]. cbn. intros a [Q|Q]; [left; exact Q|left; apply Hx; exact Q].
  - intros t' cid Hn _ Ha. destruct (tid_dec t t') as [<-|Hd]; [apply H; exact Ha|]. apply A; auto.
Qed.
Lemma CI_skip c t : CI c -> CIs (eq t) c.
Proof.
  intros [F O T St A M Cc]. constructor; auto.
  eapply Forall_impl; [|exact T]. cbn. intros a [Q|[]]. left. exact Q.
Qed.
Lemma CIs_unskip_none c t : CIs (eq t) c -> (forall x, t = TCall x -> (x < next_cid c)%nat) -> awaited (pc (get_task c t)) = None -> CI c.
Proof. intros H Hx E. apply (CIs_unskip c t H Hx). intros cid Ha. rewrite E in Ha. discriminate. Qed.

Lemma S2_get_task_pc t c c' : S2 t c c' -> awaited (pc (get_task c t)) = None -> awaited (pc (get_task c' t)) = None.
Proof. intros [_ _ _ _ _ _ [E|E]] H; [rewrite E; exact H|exact E]. Qed.

(* ---------------------------------------------------------------- finish_after_ready / wake_finish *)
Lemma finish_task_pc c t r : exists_task c t -> awaited (pc (get_task (fst (finish_task c t r)) t)) = None.
Proof.
  intro X. unfold finish_task. cbn [fst]. destruct (set_task_facts c t (get_task c t <| pc := PDone r |>) X) as (E & _). rewrite E. reflexivity.
Qed.

Lemma finish_fail_pc c e : awaited (pc (get_task (fst (finish_fail c e)) TFinish)) = None.
Proof.
  unfold finish_fail. destruct (interrupt_exit c TFinish e) as [c0 e1].
  destruct (cleanup _) as [c2 o].
  match goal with |- context [finish_task ?x TFinish ?r] => pose proof (finish_task_pc x TFinish r I) as H; destruct (finish_task x TFinish r) as [c4 o2] end.
  exact H.
Qed.

Lemma finish_after_ready_open c0 send types ap st tmo :
  CI c0 ->
  let c0' := set_task c0 TFinish (get_task c0 TFinish <| pc := PF_Hello (next_cid c0) |>) in
  let x := internal_handlers (set_state c0' HsDone) in
  CI (fst (let '(c2, o, ex, cid) := call_begin x TFinish send types ap st tmo in
           match ex with
           | Some e => let '(c3, o3) := finish_fail c2 e in (c3, o ++ o3)
           | None => (c2, o)
           end)).
Proof.
  intros H0 c0' x.
  assert (H1 : CIs (eq TFinish) c0') by (apply CIs_set_pc; [apply CI_skip; exact H0|reflexivity|discriminate|exact I|reflexivity|reflexivity]).
  assert (Ex : ab x = ab c0') by (unfold x, internal_handlers; rewrite !ab_add; reflexivity).
  assert (H1' : CIs (eq TFinish) x) by (apply (CIs_S2 _ TStart c0' x); [apply S2_ab; exact Ex|exact H1]).
  assert (Hnx : next_cid x = next_cid c0).
  { unfold ab in Ex. injection Ex as _ N _ _ _ _. rewrite N. destruct (set_task_facts c0 TFinish (get_task c0 TFinish <| pc := PF_Hello (next_cid c0) |>) I) as (_ & _ & _ & Q & _). exact Q. }
  assert (Hpc : pc (get_task x TFinish) = PF_Hello (next_cid c0)).
  { rewrite (get_task_ab c0' x TFinish Ex). destruct (set_task_facts c0 TFinish (get_task c0 TFinish <| pc := PF_Hello (next_cid c0) |>) I) as (Q & _). unfold c0'. rewrite Q. reflexivity. }
  destruct (CIs_call_begin (eq TFinish) x TFinish send types ap st tmo H1' ltac:(intros ? Q; discriminate Q)) as (H2 & Tk & Hs).
  destruct (call_begin x TFinish send types ap st tmo) as [[[c2 o] ex] cid]. cbn [fst snd] in H2, Tk, Hs.
  destruct ex as [e|].
  - pose proof (finish_fail_B c2 e) as S. pose proof (finish_fail_pc c2 e) as P. destruct (finish_fail c2 e) as [c3 o3]. cbn [fst] in *.
    apply (CIs_unskip_none c3 TFinish); [apply (CIs_S2 _ TFinish c2 c3); assumption|intros ? Q; discriminate Q|exact P].
  - cbn [fst]. apply (CIs_unskip c2 TFinish H2); [intros ? Q; discriminate Q|]. intros cid' Ha. rewrite Tk, Hpc in Ha. cbn in Ha. injection Ha as <-.
    destruct (Hs eq_refl) as (_ & kk & G & O). rewrite Hnx in G. eauto.
Qed.

Lemma finish_after_ready_B c : CI c -> CI (fst (finish_after_ready c)).
Proof.
  intro H. unfold finish_after_ready. set (c0 := c <| hs_timer := None |>).
  assert (H0 : CI c0) by (apply (CIs_S2 _ TFinish c c0); [apply S2_ab; reflexivity|exact H]).
  destruct (cs c0) eqn:Ecs.
  5: { apply (CIs_S2 _ TFinish c0); [apply finish_fail_B|exact H0]. }
  all: apply (finish_after_ready_open c0); exact H0.
Qed.

Ltac finB E L := apply some_inj in E; let H := fresh "HB" in pose proof L as H; rewrite E in H; cbn [fst] in H.

Lemma CI_S2 t c c' : S2 t c c' -> CI c -> CI c'.
Proof. apply CIs_S2. Qed.

Lemma wake_finish_B c c' o : wake_finish c = Some (c', o) -> CI c -> CI c'.
Proof.
  unfold wake_finish. intros E H.
  destruct (pc (get_task c TFinish)) eqn:Epc; try discriminate.
  - (* PF_Create *)
    destruct (must_cancel (get_task c TFinish) || negb match made_waiter c with EPending => true | _ => false end); [|discriminate].
    pose proof (S2_take_cancel c TFinish) as E1. destruct (take_cancel c TFinish) as [c1 mc]. cbn [fst] in E1.
    match type of E with match ?d with _ => _ end = _ => destruct d as [|e] end.
    + set (c2 := c1 <| helper := helper_obj c1 |> <| hs_timer := Some (now c1 + HANDSHAKE_TIMEOUT) |>) in *.
      assert (S : S2 TFinish c c2) by (eapply S2_trans; [exact E1|apply S2_ab; reflexivity]).
      pose proof (CI_S2 _ _ _ S H) as H2.
      destruct (ready c2).
      * apply some_pair_inv in E. destruct E as [<- _]. eapply CI_S2; [|exact H2].
        apply S2_set_task; [let Hm := fresh in intro Hm; exact Hm|reflexivity|right; reflexivity|exact I].
      * finB E (finish_after_ready_B c2 H2). exact HB.
      * match type of E with Some (finish_fail c2 ?x) = _ => finB E (finish_fail_B c2 x) end. eapply CI_S2; eassumption.
      * finB E (finish_fail_B c2 CancelledErr). eapply CI_S2; eassumption.
    + match type of E with context [finish_fail ?x e] => set (c2 := x) in *; pose proof (finish_fail_B c2 e) as B end.
      assert (S : S2 TFinish c c2) by (eapply S2_trans; [exact E1|apply S2_ab; unfold c2; destruct (transport c1); reflexivity]).
      destruct (finish_fail c2 e) as [c3 o3]. cbn [fst] in B. apply some_pair_inv in E. destruct E as [<- _].
      eapply CI_S2; [eapply S2_trans; eassumption|exact H].
  - (* PF_Ready *)
    destruct (must_cancel (get_task c TFinish) || negb match ready c with RPending => true | _ => false end); [|discriminate].
    pose proof (S2_take_cancel c TFinish) as E1. destruct (take_cancel c TFinish) as [c1 mc]. cbn [fst] in E1.
    pose proof (CI_S2 _ _ _ E1 H) as H1.
    destruct mc.
    + finB E (finish_fail_B c1 CancelledErr). eapply CI_S2; eassumption.
    + destruct (ready c1).
      * finB E (finish_fail_B c1 CancelledErr). eapply CI_S2; eassumption.
      * finB E (finish_after_ready_B c1 H1). exact HB.
      * match type of E with Some (finish_fail c1 ?x) = _ => finB E (finish_fail_B c1 x) end. eapply CI_S2; eassumption.
      * finB E (finish_fail_B c1 CancelledErr). eapply CI_S2; eassumption.
  - (* PF_Hello *)
    destruct (get_call c cid) as [kk|]; [|discriminate].
    destruct (must_cancel (get_task c TFinish) || cfut_done (c_fut kk)); [|discriminate].
    pose proof (S2_take_cancel c TFinish) as E1. destruct (take_cancel c TFinish) as [c1 mc]. cbn [fst] in E1.
    pose proof (S1_call_finally c1 cid) as Ef. set (c2 := call_finally c1 cid) in *.
    assert (S : S2 TFinish c c2) by (eapply S2_trans; [exact E1|apply S2_S1; exact Ef]).
    pose proof (CI_S2 _ _ _ S H) as H2.
    match type of E with match ?d with _ => _ end = _ => destruct d as [|e] end.
    + destruct (check_hello_login c2 (c_responses kk)) as [e|].
      * finB E (finish_fail_B c2 e). eapply CI_S2; eassumption.
      * finB E (finish_success_B c2). eapply CI_S2; eassumption.
    + finB E (finish_fail_B c2 e). eapply CI_S2; eassumption.
Qed.

(* ---------------------------------------------------------------- disconnect() *)
Definition cancel_ok (c : conn) (o : list obs) : Prop :=
  forall t, In (OTaskDone t (TRaise CancelledErr)) o -> utask t = true -> user_cancelled (get_task c t) = true.

Lemma cancel_ok_nodone c o : no_done o -> cancel_ok c o.
Proof. intros H t Hin. exfalso. exact (H _ _ Hin). Qed.
Lemma cancel_ok_app c a b : cancel_ok c a -> cancel_ok c b -> cancel_ok c (a ++ b).
Proof. intros A B t Hin. apply in_app_or in Hin. destruct Hin; auto. Qed.
Lemma cancel_ok_finish c0 c t r : (r = TRaise CancelledErr -> utask t = true -> user_cancelled (get_task c0 t) = true) ->
  cancel_ok c0 (snd (finish_task c t r)).
Proof. intros H t' [E|[]] Hu. injection E as E1 E2. subst t'. apply H; auto. Qed.

Lemma exists_task_S2 t c c' t' : S2 t c c' -> exists_task c t' -> exists_task c' t'.
Proof.
  intros [_ _ Hi _ _ _ _] X. destruct t'; cbn in *; auto.
  intro Q. apply X. clear X.
  assert (G : forall l, find (fun p : nat * task => Nat.eqb (fst p) cid) l = None <-> ~ In cid (map fst l)).
  { induction l as [|p l IHl]; cbn; [tauto|]. destruct (Nat.eqb (fst p) cid) eqn:E.
    - apply Nat.eqb_eq in E. split; [discriminate|]. intro Hn. exfalso. apply Hn. left. exact E.
    - apply Nat.eqb_neq in E. rewrite IHl. tauto. }
  apply G. rewrite <- Hi. apply G. exact Q.
Qed.


Lemma CI_await_registered c t cid k' kk :
  CI c -> t <> TStart -> exists_task c t -> (forall x, t = TCall x -> (x < next_cid c)%nat) -> get_call c cid = Some kk -> c_owner kk = t ->
  awaited (pc k') = Some cid -> must_cancel k' = must_cancel (get_task c t) -> user_cancelled k' = user_cancelled (get_task c t) ->
  CI (set_task c t k').
Proof.
  intros H Hn X Hx G O A M U.
  apply (CIs_unskip _ t).
  - apply CIs_set_pc; auto. apply CI_skip. exact H.
  - intros x ->. destruct (set_task_facts c (TCall x) k' X) as (_ & _ & _ & Hnx & _). rewrite Hnx. apply Hx. reflexivity.
  - destruct (set_task_facts c t k' X) as (Hself & _ & Hc & _). intros cid' Ha. rewrite Hself, A in Ha. injection Ha as <-.
    exists kk. unfold get_call in *. rewrite Hc. auto.
Qed.

Definition no_cancel (o : list obs) : Prop := forall t, ~ In (OTaskDone t (TRaise CancelledErr)) o.
Lemma no_cancel_nodone o : no_done o -> no_cancel o.
Proof. intros H t Hin. exact (H _ _ Hin). Qed.
Lemma no_cancel_app a b : no_cancel a -> no_cancel b -> no_cancel (a ++ b).
Proof. intros A B t Hin. apply in_app_or in Hin. destruct Hin as [Hin|Hin]; [exact (A t Hin)|exact (B t Hin)]. Qed.
Lemma no_cancel_finish c t r : r <> TRaise CancelledErr -> no_cancel (snd (finish_task c t r)).
Proof. intros H t' [E|[]]. injection E as _ E2. congruence. Qed.
Lemma no_cancel_ok c o : no_cancel o -> cancel_ok c o.
Proof. intros H t Hin. exfalso. exact (H t Hin). Qed.

Lemma disconnect_after_wait_B c : CI c -> CI (fst (disconnect_after_wait c)) /\ no_cancel (snd (disconnect_after_wait c)).
Proof.
  intro H. unfold disconnect_after_wait. set (c1 := c <| expected_disconnect := true |>).
  assert (H1 : CI c1) by (apply (CI_S2 TDisc c c1); [apply S2_ab; reflexivity|exact H]).
  destruct (handshake_complete c1).
  - destruct (CIs_call_begin _ c1 TDisc [T_DISC_REQ] [T_DISC_RESP] PAny PAny DISCONNECT_RESPONSE_TIMEOUT H1 ltac:(intros ? Q; discriminate Q)) as (H2 & Tk & Hs).
    pose proof (no_done_call_begin c1 TDisc [T_DISC_REQ] [T_DISC_RESP] PAny PAny DISCONNECT_RESPONSE_TIMEOUT) as D2.
    pose proof (call_begin_exc c1 TDisc [T_DISC_REQ] [T_DISC_RESP] PAny PAny DISCONNECT_RESPONSE_TIMEOUT) as X2.
    destruct (call_begin c1 TDisc [T_DISC_REQ] [T_DISC_RESP] PAny PAny DISCONNECT_RESPONSE_TIMEOUT) as [[[c2 o] ex] cid].
    cbn [fst snd] in H2, Tk, Hs, D2, X2. destruct ex as [e|].
    + destruct X2 as [l ->].
      pose proof (cleanup_finish_B c2 TDisc (fun _ => TOk) I) as S. cbn beta in S.
      pose proof (no_done_cleanup c2) as D3. destruct (cleanup c2) as [c3 o3]. cbn [snd] in D3.
      pose proof (no_cancel_finish c3 TDisc TOk ltac:(discriminate)) as O4. destruct (finish_task c3 TDisc TOk) as [c4 o4]. cbn [fst snd] in *.
      split; [eapply CI_S2; eassumption|].
      apply no_cancel_app; [apply no_cancel_nodone; exact D2|]. apply no_cancel_app; [apply no_cancel_nodone; exact D3|exact O4].
    + cbn [fst snd]. split; [|apply no_cancel_nodone; exact D2].
      destruct (Hs eq_refl) as (Ec & kk & G & O). subst cid.
      apply (CI_await_registered c2 TDisc (next_cid c1) _ kk H2); try reflexivity; try discriminate; try exact I; try assumption; try (intros ? Q; discriminate Q).
  - pose proof (cleanup_finish_B c1 TDisc (fun _ => TOk) I) as S. cbn beta in S.
    pose proof (no_done_cleanup c1) as D3. destruct (cleanup c1) as [c3 o3]. cbn [snd] in D3.
    pose proof (no_cancel_finish c3 TDisc TOk ltac:(discriminate)) as O4. destruct (finish_task c3 TDisc TOk) as [c4 o4]. cbn [fst snd] in *.
    split; [eapply CI_S2; eassumption|]. apply no_cancel_app; [apply no_cancel_nodone; exact D3|exact O4].
Qed.

Lemma take_cancel_flag c t : snd (take_cancel c t) = must_cancel (get_task c t).
Proof. unfold take_cancel. destruct (must_cancel (get_task c t)); reflexivity. Qed.

Lemma get_call_in c cid kk : get_call c cid = Some kk -> In kk (calls c) /\ c_id kk = cid.
Proof. unfold get_call. intro E. apply find_some in E. destruct E as [A B]. apply Nat.eqb_eq in B. auto. Qed.

(* a cancelled outcome of the awaiting task t: the cancel flag, or the cancelled future of the call it owns *)
Lemma cancelled_outcome_ok c t cid kk mc :
  CI c -> utask t = true -> t <> TStart -> awaited (pc (get_task c t)) = Some cid -> get_call c cid = Some kk ->
  mc = must_cancel (get_task c t) -> (mc = false -> cfut_done (c_fut kk) = true) ->
  (if mc then DExc CancelledErr else deliver_cfut (c_fut kk)) = DExc CancelledErr -> user_cancelled (get_task c t) = true.
Proof.
  intros [F O T St A M Cc] Hu Hn Ha G Em Hd E.
  destruct mc.
  - apply M; auto.
  - destruct (A t cid Hn ltac:(tauto) Ha) as (kk' & G' & Ow). rewrite G in G'. injection G' as <-.
    destruct (get_call_in c cid kk G) as [Hin _].
    assert (Hf : c_fut kk = CCancelled).
    { specialize (Hd eq_refl). pose proof (F1_get_call c cid kk F G) as Fk. unfold fut_ok in Fk.
      destruct (c_fut kk) eqn:Ef; cbn in *; try discriminate; try reflexivity.
      destruct (Fk e eq_refl) as [->|[l ->]]; cbn in E; discriminate. }
    rewrite <- Ow. apply (Cc kk Hin Hf). rewrite Ow. exact Hu.
Qed.

Lemma wake_disc_B c c' o : wake_disc c = Some (c', o) -> CI c -> CI c' /\ cancel_ok c o.
Proof.
  unfold wake_disc. intros E H.
  destruct (pc (get_task c TDisc)) eqn:Epc; try discriminate.
  - destruct (must_cancel (get_task c TDisc) || disc_wait_done c); [|discriminate].
    pose proof (S2_take_cancel c TDisc) as E1. pose proof (take_cancel_flag c TDisc) as Fl.
    destruct (take_cancel c TDisc) as [c1 mc]. cbn [fst snd] in E1, Fl.
    set (c2 := c1 <| disc_timer := None |>) in *.
    assert (S : S2 TDisc c c2) by (eapply S2_trans; [exact E1|apply S2_ab; reflexivity]).
    pose proof (CI_S2 _ _ _ S H) as H2.
    destruct mc.
    + apply some_inj in E. pose proof (S2_finish_task c2 TDisc (TRaise CancelledErr) I) as A.
      pose proof (cancel_ok_finish c c2 TDisc (TRaise CancelledErr)) as B. rewrite E in A, B. cbn [fst snd] in *.
      split; [eapply CI_S2; eassumption|]. apply B. intros _ _. destruct H as [_ _ _ _ _ M _]. apply M; [reflexivity|]. symmetry. exact Fl.
    + apply some_inj in E.
      match type of E with disconnect_after_wait ?x = _ =>
        assert (H3 : CI x) by (apply (CI_S2 TDisc c2 x); [apply S2_ab; destruct (finish_fut c2); try reflexivity; destruct (fatal c2); reflexivity|exact H2]);
        destruct (disconnect_after_wait_B x H3) as [A B] end.
      rewrite E in A, B. cbn [fst snd] in *. split; [exact A|apply no_cancel_ok; exact B].
  - destruct (get_call c cid) as [kk|] eqn:Eg; [|discriminate].
    destruct (must_cancel (get_task c TDisc) || cfut_done (c_fut kk)) eqn:Egd; [|discriminate].
    pose proof (S2_take_cancel c TDisc) as E1. pose proof (take_cancel_flag c TDisc) as Fl.
    destruct (take_cancel c TDisc) as [c1 mc]. cbn [fst snd] in E1, Fl.
    pose proof (S1_call_finally c1 cid) as Ef. set (c2 := call_finally c1 cid) in *.
    assert (S : S2 TDisc c c2) by (eapply S2_trans; [exact E1|apply S2_S1; exact Ef]).
    pose proof (CI_S2 _ _ _ S H) as H2.
    assert (Hd : mc = false -> cfut_done (c_fut kk) = true) by (intros ->; rewrite <- Fl in Egd; exact Egd).
    pose proof (cancelled_outcome_ok c TDisc cid kk mc H eq_refl ltac:(discriminate) ltac:(rewrite Epc; reflexivity) Eg Fl Hd) as CO.
    assert (T1 : forall r, (let '(c3, o) := cleanup c2 in let '(c4, o2) := finish_task c3 TDisc TOk in Some (c4, o ++ o2)) = Some r -> CI (fst r) /\ cancel_ok c (snd r)).
    { intros r Er. pose proof (cleanup_finish_B c2 TDisc (fun _ => TOk) I) as A. cbn beta in A.
      pose proof (no_done_cleanup c2) as D3. destruct (cleanup c2) as [c3 o3]. cbn [snd] in D3.
      pose proof (no_cancel_finish c3 TDisc TOk ltac:(discriminate)) as O4. destruct (finish_task c3 TDisc TOk) as [c4 o4].
      apply some_inj in Er. subst r. cbn [fst snd] in *.
      split; [eapply CI_S2; eassumption|]. apply no_cancel_ok, no_cancel_app; [apply no_cancel_nodone; exact D3|exact O4]. }
    assert (T2 : forall e r, Some (finish_task c2 TDisc (TRaise e)) = Some r -> (e = CancelledErr -> user_cancelled (get_task c TDisc) = true) -> CI (fst r) /\ cancel_ok c (snd r)).
    { intros e r Er Hc. apply some_inj in Er. pose proof (S2_finish_task c2 TDisc (TRaise e) I) as A.
      pose proof (cancel_ok_finish c c2 TDisc (TRaise e)) as B. rewrite Er in A, B.
      split; [eapply CI_S2; eassumption|]. apply B. intros Q _. injection Q as ->. apply Hc. reflexivity. }
    destruct (if mc then DExc CancelledErr else deliver_cfut (c_fut kk)) as [|e] eqn:Ed.
    + exact (T1 _ E).
    + destruct e; try exact (T1 _ E); try (apply (T2 _ _ E); intro Q; discriminate Q).
      apply (T2 _ _ E). intros _. apply CO. reflexivity.
Qed.

Lemma uniq_id (l : list call) k1 k2 : NoDup (map c_id l) -> In k1 l -> In k2 l -> c_id k1 = c_id k2 -> k1 = k2.
Proof.
  induction l as [|a l IHl]; intros U H1 H2 E; [destruct H1|]. cbn in U. apply NoDup_cons_iff in U. destruct U as [Hn U'].
  destruct H1 as [->|H1], H2 as [->|H2]; auto.
  - exfalso. apply Hn. rewrite E. apply in_map. exact H2.
  - exfalso. apply Hn. rewrite <- E. apply in_map. exact H1.
Qed.

Lemma pc_exists_task c t : pc (get_task c t) <> PNone -> exists_task c t.
Proof. intro H. apply exists_task_of. intro Q. rewrite Q in H. apply H. reflexivity. Qed.

Lemma wake_call_B c cid c' o : wake_call c cid = Some (c', o) -> CI c -> CI c' /\ cancel_ok c o.
Proof.
  unfold wake_call. intros E H.
  destruct (pc (get_task c (TCall cid))) eqn:Epc; try discriminate.
  destruct (get_call c cid) as [kk|] eqn:Eg; [|discriminate].
  destruct (must_cancel (get_task c (TCall cid)) || cfut_done (c_fut kk)) eqn:Egd; [|discriminate].
  assert (X : exists_task c (TCall cid)) by (apply pc_exists_task; rewrite Epc; discriminate).
  (* the awaited call is the task's own *)
  assert (Ecid : cid0 = cid).
  { destruct H as [_ O _ _ A _ _]. destruct (A (TCall cid) cid0 ltac:(discriminate) ltac:(tauto) ltac:(rewrite Epc; reflexivity)) as (k1 & G1 & O1).
    destruct (get_call_in c cid0 k1 G1) as [Hin Hid]. rewrite (O k1 cid Hin O1). symmetry. exact Hid. }
  subst cid0.
  pose proof (S2_take_cancel c (TCall cid)) as E1. pose proof (take_cancel_flag c (TCall cid)) as Fl.
  destruct (take_cancel c (TCall cid)) as [c1 mc]. cbn [fst snd] in E1, Fl.
  pose proof (S1_call_finally c1 cid) as Ef. set (c2 := call_finally c1 cid) in *.
  assert (S : S2 (TCall cid) c c2) by (eapply S2_trans; [exact E1|apply S2_S1; exact Ef]).
  pose proof (CI_S2 _ _ _ S H) as H2.
  assert (Hd : mc = false -> cfut_done (c_fut kk) = true) by (intros ->; rewrite <- Fl in Egd; exact Egd).
  pose proof (cancelled_outcome_ok c (TCall cid) cid kk mc H eq_refl ltac:(discriminate) ltac:(rewrite Epc; reflexivity) Eg Fl Hd) as CO.
  apply some_inj in E.
  match type of E with finish_task c2 ?t ?r = _ =>
    pose proof (S2_finish_task c2 t r (exists_task_S2 _ _ _ _ S X)) as A; pose proof (cancel_ok_finish c c2 t r) as B end.
  rewrite E in A, B. cbn [fst snd] in *. split; [eapply CI_S2; eassumption|]. apply B.
  intros Q _. apply CO. destruct (if mc then DExc CancelledErr else deliver_cfut (c_fut kk)) as [|e]; [discriminate Q|]. injection Q as ->. reflexivity.
Qed.

(* ---------------------------------------------------------------- cancellation *)
(* cancel_task on a task that (if it is disconnect() or a call) has been marked cancelled by its caller *)
Lemma cancel_task_B c t : CI c -> (utask t = true -> user_cancelled (get_task c t) = true) -> CI (cancel_task c t).
Proof.
  intros H Hu. unfold cancel_task. destruct (task_running (get_task c t)) eqn:Er; cbn [negb]; [|exact H].
  assert (X : exists_task c t) by (apply exists_task_of; intro Q; rewrite Q in Er; discriminate).
  set (k1 := get_task c t <| ncancel := S (ncancel (get_task c t)) |>).
  (* what cancel_awaited does: nothing to the view, or it cancels the pending call the task awaits *)
  assert (CA : forall c1 d, cancel_awaited c t k1 = (c1, d) ->
          CI c1 /\ (forall t', get_task c1 t' = get_task c t') /\ (forall t', exists_task c t' -> exists_task c1 t')).
  { intros c1 d Ea. unfold cancel_awaited, cancel_efut in Ea. change (pc k1) with (pc (get_task c t)) in Ea.
    assert (Same : forall x, ab x = ab c -> CI x /\ (forall t', get_task x t' = get_task c t') /\ (forall t', exists_task c t' -> exists_task x t')).
    { intros x Ex. split; [apply (CI_S2 TStart c x); [apply S2_ab; exact Ex|exact H]|]. split; [intro t'; apply get_task_ab; exact Ex|].
      intros t' Xt. apply (exists_task_S2 TStart c x); [apply S2_ab; exact Ex|exact Xt]. }
    assert (Call : forall cid, awaited (pc (get_task c t)) = Some cid ->
              (match get_call c cid with
               | Some kk => match c_fut kk with CPending => (upd_call c cid (fun x => x <| c_fut := CCancelled |>), true) | _ => (c, false) end
               | None => (c, false) end) = (c1, d) ->
              CI c1 /\ (forall t', get_task c1 t' = get_task c t') /\ (forall t', exists_task c t' -> exists_task c1 t')).
    { intros cid Ha Ec. destruct (get_call c cid) as [kk|] eqn:Eg; [|apply pair_inv in Ec; destruct Ec as [<- _]; apply Same; reflexivity].
      destruct (c_fut kk) eqn:Ef; try (apply pair_inv in Ec; destruct Ec as [<- _]; apply Same; reflexivity).
      apply pair_inv in Ec. destruct Ec as [<- _].
      split; [|split; [intro t'; destruct t'; reflexivity|intros t' Xt; destruct t'; exact Xt]].
      destruct H as [F O T St A M Cc].
      assert (Hts : t <> TStart) by (intros ->; cbn [get_task] in Ha; rewrite St in Ha; discriminate).
      destruct (A t cid Hts ltac:(tauto) Ha) as (kk' & G' & Ow). rewrite Eg in G'. injection G' as <-.
      assert (Tk : forall t', get_task (upd_call c cid (fun x => x <| c_fut := CCancelled |>)) t' = get_task c t') by (intro t'; destruct t'; reflexivity).
      constructor.
      - apply F1_upd_cancel. exact F.
      - intros k x Hin Hx. unfold upd_call in Hin. cbn in Hin. apply in_map_iff in Hin. destruct Hin as (k0 & Ek & Hk0).
        destruct (Nat.eqb (c_id k0) cid); subst k; cbn in *; apply (O k0 x Hk0 Hx).
      - exact T.
      - exact St.
      - intros t' cid' Hn' Hs' Ha'. rewrite Tk in Ha'. destruct (A t' cid' Hn' Hs' Ha') as (k2 & G2 & O2).
        unfold get_call, upd_call in *. cbn.
        clear - G2 O2. induction (calls c) as [|a l IHl]; cbn in *; [discriminate|].
        destruct (Nat.eqb (c_id a) cid) eqn:E1; cbn.
        + destruct (Nat.eqb (c_id a) cid') eqn:E2; [|apply IHl; exact G2].
          apply some_inj in G2. subst k2. eexists. split; [reflexivity|exact O2].
        + destruct (Nat.eqb (c_id a) cid') eqn:E2; [|apply IHl; exact G2]. eauto.
      - intros t' Hu' Hm'. rewrite Tk in *. auto.
      - intros k Hin Hf Huk. rewrite Tk. unfold upd_call in Hin. cbn in Hin. apply in_map_iff in Hin. destruct Hin as (k0 & Ek & Hk0).
        destruct (Nat.eqb (c_id k0) cid) eqn:E1; subst k; cbn in *.
        + (* the call just cancelled: it is kk (ids are unique), owned by t *)
          assert (k0 = kk).
          { destruct F as [U _ _]. destruct (get_call_in c cid kk Eg) as [Hink Hidk]. apply Nat.eqb_eq in E1.
            apply (uniq_id (calls c)); auto. congruence. }
          subst k0. rewrite Ow in *. apply Hu. exact Huk.
        + apply (Cc k0 Hk0 Hf Huk). }
    destruct (pc (get_task c t)) eqn:Ep; try (apply pair_inv in Ea; destruct Ea as [<- _]; apply Same; reflexivity);
      try (apply (Call cid eq_refl Ea)).
    - destruct (do_connect c); apply pair_inv in Ea; destruct Ea as [<- _]; apply Same; reflexivity.
    - destruct (do_connect c); apply pair_inv in Ea; destruct Ea as [<- _]; apply Same; reflexivity.
    - destruct (made_waiter c); apply pair_inv in Ea; destruct Ea as [<- _]; apply Same; reflexivity.
    - destruct (ready c); apply pair_inv in Ea; destruct Ea as [<- _]; apply Same; reflexivity.
    - destruct (disc_wait_done c); apply pair_inv in Ea; destruct Ea as [<- _]; apply Same; reflexivity. }
  destruct (cancel_awaited c t k1) as [c1 d] eqn:Ea. destruct (CA c1 d eq_refl) as (H1 & Tk & Xk).
  (* the final set_task: program point unchanged, cancel flag possibly raised - allowed because the caller cancelled *)
  assert (Fin : forall k', pc k' = pc (get_task c t) -> user_cancelled k' = user_cancelled (get_task c t) -> CI (set_task c1 t k')).
  { intros k' Hp Huc. destruct (set_task_facts c1 t k' (Xk t X)) as (Hself & Hoth & Hc & Hnx & Hi).
    destruct H1 as [F O T St A M Cc]. constructor.
    - destruct F as [U L Fu]. constructor; rewrite ?Hc, ?Hnx; assumption.
    - rewrite Hc. exact O.
    - rewrite Hnx. rewrite Forall_forall in *. intros p Hp'.
      assert (Hin : In (fst p) (map fst (call_tasks c1))) by (rewrite <- Hi; apply in_map; exact Hp').
      apply in_map_iff in Hin. destruct Hin as (q & Eq & Hq). rewrite <- Eq. apply T. exact Hq.
    - destruct (tid_dec t TStart) as [->|Hd].
      + change (t_start (set_task c1 TStart k')) with (get_task (set_task c1 TStart k') TStart). rewrite Hself, Hp.
        change (t_start c1) with (get_task c1 TStart) in St. rewrite Tk in St. exact St.
      + change (t_start (set_task c1 t k')) with (get_task (set_task c1 t k') TStart). rewrite Hoth by congruence. exact St.
    - intros t' cid' Hn' Hs' Ha'. destruct (tid_dec t' t) as [->|Hd].
      + rewrite Hself, Hp, <- Tk in Ha'. destruct (A t cid' Hn' Hs' Ha') as (k2 & G2 & O2). exists k2. unfold get_call in *. rewrite Hc. auto.
      + rewrite Hoth in Ha' by exact Hd. destruct (A t' cid' Hn' Hs' Ha') as (k2 & G2 & O2). exists k2. unfold get_call in *. rewrite Hc. auto.
    - intros t' Hu' Hm'. destruct (tid_dec t' t) as [->|Hd].
      + rewrite Hself, Huc. apply Hu. exact Hu'.
      + rewrite Hoth in * by exact Hd. auto.
    - rewrite Hc. intros k Hin Hf Huk. specialize (Cc k Hin Hf Huk). destruct (tid_dec (c_owner k) t) as [Hd|Hd].
      + rewrite Hd in *. rewrite Hself, Huc, <- Tk. exact Cc.
      + rewrite Hoth by exact Hd. exact Cc. }
  destruct d; apply Fin; reflexivity.
Qed.

(* ---------------------------------------------------------------- remaining building blocks *)
Lemma outs_lib_no_cancel o : outs_lib o -> no_cancel o.
Proof. intros H t Hin. destruct (H _ _ Hin) as [A|[l A]]; discriminate A. Qed.

(* explicit record updates of one of the three named tasks *)
Lemma S2_fields t c c' :
  (match t with TCall _ => False | _ => True end) ->
  calls c' = calls c -> next_cid c' = next_cid c -> call_tasks c' = call_tasks c ->
  (t <> TStart -> t_start c' = t_start c) -> (t <> TFinish -> t_finish c' = t_finish c) -> (t <> TDisc -> t_disc c' = t_disc c) ->
  (must_cancel (get_task c' t) = true -> must_cancel (get_task c t) = true) ->
  user_cancelled (get_task c' t) = user_cancelled (get_task c t) ->
  (pc (get_task c' t) = pc (get_task c t) \/ awaited (pc (get_task c' t)) = None) ->
  S2 t c c'.
Proof.
  intros Ht Ec En Et Hs Hf Hd Hm Hu Hp. constructor; auto.
  - rewrite Ec. apply callsrel_refl.
  - rewrite Et. reflexivity.
  - intros t' Hn. destruct t'; cbn [get_task].
    + apply Hs. congruence.
    + apply Hf. congruence.
    + apply Hd. congruence.
    + rewrite Et. reflexivity.
Qed.

(* LCancel marks the task as cancelled by its caller *)
Lemma CI_mark_cancelled c t : CI c -> exists_task c t -> CI (set_task c t (get_task c t <| user_cancelled := true |>)).
Proof.
  intros [F O T St A M Cc] X. set (k' := get_task c t <| user_cancelled := true |>).
  destruct (set_task_facts c t k' X) as (Hself & Hoth & Hc & Hnx & Hi).
  constructor.
  - destruct F as [U L Fu]. constructor; rewrite ?Hc, ?Hnx; assumption.
  - rewrite Hc. exact O.
  - rewrite Hnx. rewrite Forall_forall in *. intros p Hp.
    assert (Hin : In (fst p) (map fst (call_tasks c))) by (rewrite <- Hi; apply in_map; exact Hp).
    apply in_map_iff in Hin. destruct Hin as (q & Eq & Hq). rewrite <- Eq. apply T. exact Hq.
  - destruct (tid_dec t TStart) as [->|Hd].
    + change (t_start (set_task c TStart k')) with (get_task (set_task c TStart k') TStart). rewrite Hself. exact St.
    + change (t_start (set_task c t k')) with (get_task (set_task c t k') TStart). rewrite Hoth by congruence. exact St.
  - intros t' cid Hn Hs Ha. destruct (tid_dec t' t) as [->|Hd].
    + rewrite Hself in Ha. destruct (A t cid Hn Hs Ha) as (kk & G & Ow). exists kk. unfold get_call in *. rewrite Hc. auto.
    + rewrite Hoth in Ha by exact Hd. destruct (A t' cid Hn Hs Ha) as (kk & G & Ow). exists kk. unfold get_call in *. rewrite Hc. auto.
  - intros t' Hu Hm. destruct (tid_dec t' t) as [->|Hd]; [rewrite Hself; reflexivity|]. rewrite Hoth in * by exact Hd. auto.
  - rewrite Hc. intros k Hin Hf Hu. destruct (tid_dec (c_owner k) t) as [Hd|Hd]; [rewrite Hd, Hself; reflexivity|].
    rewrite Hoth by exact Hd. auto.
Qed.

(* the id counter may run ahead *)
Lemma CIs_bump skip c n : CIs skip c -> (next_cid c <= n)%nat -> CIs skip (c <| next_cid := n |>).
Proof.
  intros [F O T St A M Cc] Hn.
  assert (Tk : forall t, get_task (c <| next_cid := n |>) t = get_task c t) by (intro t; destruct t; reflexivity).
  constructor.
  - destruct F as [U L Fu]. constructor; try assumption. cbn. eapply Forall_impl; [|exact L]. cbn. intros. lia.
  - exact O.
  - cbn. eapply Forall_impl; [|exact T]. cbn. intros a0 [Q|Q]; [left; lia|right; exact Q].
  - exact St.
  - intros t cid Hn' Hs Ha. rewrite Tk in Ha. exact (A t cid Hn' Hs Ha).
  - intros t Hu Hm. rewrite Tk in *. auto.
  - intros k Hin Hf Hu. rewrite Tk. exact (Cc k Hin Hf Hu).
Qed.

(* LCallStart creates the task of a new call: id = the next free call id *)
Lemma find_app_tasks (l : list (nat * task)) p x : Forall (fun q => (fst q < fst p)%nat) l ->
  find (fun q => Nat.eqb (fst q) x) (l ++ [p]) = match find (fun q => Nat.eqb (fst q) x) l with Some q => Some q | None => if Nat.eqb (fst p) x then Some p else None end.
Proof.
  intros _. induction l as [|a l IHl]; cbn; [reflexivity|]. destruct (Nat.eqb (fst a) x); [reflexivity|exact IHl].
Qed.

Lemma CI_new_task c k0 : CI c -> awaited (pc k0) = Some (next_cid c) -> must_cancel k0 = false -> user_cancelled k0 = false ->
  let c0 := c <| call_tasks := call_tasks c ++ [(next_cid c, k0)] |> in
  CIs (eq (TCall (next_cid c))) c0 /\ get_task c0 (TCall (next_cid c)) = k0 /\ exists_task c0 (TCall (next_cid c)).
Proof.
  intros [F O T St A M Cc] Ha Hm Hu c0.
  assert (Hnone : find (fun q : nat * task => Nat.eqb (fst q) (next_cid c)) (call_tasks c) = None).
  { clear - T. induction (call_tasks c) as [|a l IHl]; cbn; [reflexivity|]. inversion T as [|? ? [Q|[]] T']; subst.
    destruct (Nat.eqb (fst a) (next_cid c)) eqn:E; [apply Nat.eqb_eq in E; lia|auto]. }
  assert (Tnew : get_task c0 (TCall (next_cid c)) = k0).
  { cbn [get_task]. unfold c0. cbn. rewrite find_app_none by exact Hnone. cbn. rewrite Nat.eqb_refl. reflexivity. }
  assert (Told : forall t, t <> TCall (next_cid c) -> get_task c0 t = get_task c t).
  { intros t Hn. destruct t; try reflexivity. cbn [get_task]. unfold c0. cbn.
    destruct (find (fun p => Nat.eqb (fst p) cid) (call_tasks c)) eqn:Ef; [rewrite (find_app_some _ _ _ _ Ef); reflexivity|].
    rewrite find_app_none by exact Ef. cbn. destruct (Nat.eqb (next_cid c) cid) eqn:E; [apply Nat.eqb_eq in E; congruence|reflexivity]. }
  split; [|split; [exact Tnew|]].
  2: { cbn. unfold c0. cbn. rewrite find_app_none by exact Hnone. cbn. rewrite Nat.eqb_refl. discriminate. }
  constructor.
  - destruct F as [U L Fu]. constructor; assumption.
  - exact O.
  - unfold c0. cbn. apply Forall_app. split.
    + eapply Forall_impl; [|exact T]. cbn. intros a [Q|[]]. left. exact Q.
    + constructor; [|constructor]. cbn. right. reflexivity.
  - exact St.
  - intros t cid Hn Hs Hat. rewrite Told in Hat by (intro Q; apply Hs; symmetry; exact Q). exact (A t cid Hn ltac:(tauto) Hat).
  - intros t Hut Hmt. destruct (tid_dec t (TCall (next_cid c))) as [->|Hd]; [rewrite Tnew in *; congruence|]. rewrite Told in * by exact Hd. auto.
  - intros k Hin Hf Huk. destruct (tid_dec (c_owner k) (TCall (next_cid c))) as [Hd|Hd].
    + exfalso. pose proof (O k (next_cid c) Hin Hd) as Q. destruct F as [_ L _]. rewrite Forall_forall in L. specialize (L k Hin). cbn in L. lia.
    + rewrite Told by exact Hd. exact (Cc k Hin Hf Huk).
Qed.

(* ---------------------------------------------------------------- every label *)
Lemma cancel_ok_lit c o : forallb (fun x => match x with OTaskDone _ _ => false | _ => true end) o = true -> cancel_ok c o.
Proof. intro H. apply cancel_ok_nodone, no_done_lit. exact H. Qed.

Ltac sameB H E := apply some_pair_inv in E; destruct E as [<- <-]; split;
  [first [exact H | (eapply (CI_S2 TStart); [|exact H]); apply S2_ab; reflexivity]|apply cancel_ok_lit; reflexivity].

Lemma task_running_exists c t : task_running (get_task c t) = true -> exists_task c t.
Proof. intro H. apply pc_exists_task. intro Q. unfold task_running in H. rewrite Q in H. discriminate. Qed.

Ltac s2f_field := first [intros _; reflexivity | let Q := fresh in intro Q; exfalso; apply Q; reflexivity].
Ltac s2f T := apply (S2_fields T); [exact I|reflexivity|reflexivity|reflexivity|s2f_field|s2f_field|s2f_field|let Q := fresh in intro Q; exact Q|reflexivity|].

Ltac ci_ab Hx := first [exact Hx | (eapply (CI_S2 TStart); [|exact Hx]); apply S2_ab; reflexivity].

Theorem step_cancel c l c' o : CI c -> step c l = Some (c', o) -> CI c' /\ cancel_ok c o.
Proof.
  intros H E. destruct l; cbn [step] in E.
  - (* LStart *)
    destruct (cs c); try (apply some_pair_inv in E; destruct E as [<- <-]; split; [exact H|apply cancel_ok_lit; reflexivity]).
    destruct (pc (t_start c)) eqn:Ep; try discriminate. apply some_pair_inv in E. destruct E as [<- <-]. split; [|apply cancel_ok_lit; reflexivity].
    eapply CI_S2; [|exact H]. s2f TStart; right; reflexivity.
  - (* LFinish *)
    destruct (cs c); try (apply some_pair_inv in E; destruct E as [<- <-]; split; [exact H|apply cancel_ok_lit; reflexivity]).
    destruct (pc (t_finish c)) eqn:Ep; try discriminate. apply some_pair_inv in E. destruct E as [<- <-]. split; [|apply cancel_ok_lit; reflexivity].
    eapply CI_S2; [|exact H]. s2f TFinish; right; reflexivity.
  - (* LDisconnect *)
    destruct (pc (t_disc c)) eqn:Ep; try discriminate.
    assert (W : forall x, x = (c <| t_disc := t_disc c <| pc := PD_Wait |> |>) -> CI x).
    { intros x ->. eapply CI_S2; [|exact H]. s2f TDisc; right; reflexivity. }
    destruct (finish_fut c).
    2: { apply some_pair_inv in E. destruct E as [<- <-]. split; [|apply cancel_ok_lit; reflexivity].
         eapply (CI_S2 TDisc); [|apply (W _ eq_refl)]. apply S2_ab. reflexivity. }
    all: apply some_inj in E; destruct (disconnect_after_wait_B _ (W _ eq_refl)) as [A B]; rewrite E in A, B;
         split; [exact A|apply no_cancel_ok; exact B].
  - (* LForce *)
    set (c1 := c <| expected_disconnect := true |>) in *.
    assert (H1 : CI c1) by (apply (CI_S2 TStart c c1); [apply S2_ab; reflexivity|exact H]).
    destruct (handshake_complete c1).
    + pose proof (S1_send_messages c1 [T_DISC_REQ]) as S. pose proof (no_done_send_messages c1 [T_DISC_REQ]) as D.
      destruct (send_messages c1 [T_DISC_REQ]) as [[c2 o2] ex]. cbn [fst snd] in S, D.
      pose proof (CI_S2 TStart _ _ (S2_S1 _ _ _ S) H1) as H2.
      destruct ex as [[]|].
      all: try (apply some_pair_inv in E; destruct E as [<- <-]; split; [exact H2|];
                apply cancel_ok_app; [apply cancel_ok_nodone; exact D|apply cancel_ok_lit; reflexivity]).
      all: pose proof (S2_cleanup TStart c2) as S2'; pose proof (no_done_cleanup c2) as D2; destruct (cleanup c2) as [c3 o3]; cbn [fst snd] in S2', D2;
           apply some_pair_inv in E; destruct E as [<- <-]; (split; [eapply CI_S2; eassumption|]);
           apply cancel_ok_app; apply cancel_ok_nodone; assumption.
    + pose proof (S2_cleanup TStart c1) as S2'. pose proof (no_done_cleanup c1) as D2. destruct (cleanup c1) as [c3 o3]. cbn [fst snd] in S2', D2.
      apply some_pair_inv in E. destruct E as [<- <-]. split; [eapply CI_S2; eassumption|apply cancel_ok_nodone; exact D2].
  - (* LCallStart *)
    assert (Q1 : awaited (pc (task0 <| pc := PC_Wait (next_cid c) |>)) = Some (next_cid c)) by (cbn; reflexivity).
    assert (Q2 : must_cancel (task0 <| pc := PC_Wait (next_cid c) |>) = false) by (cbn; reflexivity).
    assert (Q3 : user_cancelled (task0 <| pc := PC_Wait (next_cid c) |>) = false) by (cbn; reflexivity).
    destruct (CI_new_task c (task0 <| pc := PC_Wait (next_cid c) |>) H Q1 Q2 Q3) as (H0 & Tn & X0). clear Q1 Q2 Q3. cbn zeta in H0, Tn, X0.
    match type of E with context [call_begin ?x ?a ?b ?d ?e ?f ?g] =>
      destruct (CIs_call_begin _ x a b d e f g H0 ltac:(intros y Q; injection Q as <-; reflexivity)) as (H2 & Tk & Hs);
      pose proof (no_done_call_begin x a b d e f g) as D2; pose proof (call_begin_exc x a b d e f g) as X2; pose proof (call_begin_next x a b d e f g) as N2;
      destruct (call_begin x a b d e f g) as [[[c1 o1] ex] cid'] end.
    cbn [fst snd] in H2, Tk, Hs, D2, X2, N2.
    assert (Q : forall v, next_cid (c <| call_tasks := v |>) = next_cid c) by reflexivity. rewrite Q in N2, Hs.
    destruct ex as [e|].
    + destruct X2 as [le ->].
      assert (H3 : CIs (eq (TCall (next_cid c))) (c1 <| next_cid := S (next_cid c) |>)) by (apply CIs_bump; [exact H2|exact N2]).
      assert (X3 : exists_task (c1 <| next_cid := S (next_cid c) |>) (TCall (next_cid c))).
      { cbn. rewrite <- (Tk (TCall (next_cid c))) in Tn. cbn [get_task] in Tn. intro Qn. rewrite Qn in Tn. discriminate Tn. }
      match type of E with context [finish_task ?x ?t ?r] =>
        pose proof (S2_finish_task x t r X3) as A; pose proof (finish_task_pc x t r X3) as P; pose proof (no_cancel_finish x t r ltac:(discriminate)) as B;
        destruct (finish_task x t r) as [c3 o3] end.
      cbn [fst snd] in A, P, B. apply some_pair_inv in E. destruct E as [<- <-]. split.
      * apply (CIs_unskip_none c3 (TCall (next_cid c))); [eapply CIs_S2; eassumption| |exact P].
        intros y Qy. injection Qy as <-. destruct A as [_ Nn _ _ _ _ _]. rewrite Nn. cbn. lia.
      * apply no_cancel_ok, no_cancel_app; [apply no_cancel_nodone; exact D2|exact B].
    + apply some_pair_inv in E. destruct E as [<- <-]. split; [|apply cancel_ok_nodone; exact D2].
      destruct (Hs eq_refl) as (_ & kk & G & Ow).
      apply (CIs_unskip c1 (TCall (next_cid c)) H2).
      * intros y Qy. injection Qy as <-.
        destruct (get_call_in c1 (next_cid c) kk G) as [Hin Hid]. destruct H2 as [[_ L _] _ _ _ _ _ _]. rewrite Forall_forall in L. specialize (L kk Hin). cbn in L. lia.
      * intros cid'' Ha. rewrite Tk, Tn in Ha. cbn in Ha. injection Ha as <-. eauto.
  - (* LSend *)
    pose proof (S1_send_messages c tys) as S. pose proof (no_done_send_messages c tys) as D.
    destruct (send_messages c tys) as [[c1 o1] ex]. cbn [fst snd] in S, D.
    apply some_pair_inv in E. destruct E as [<- <-]. split; [eapply CI_S2; [apply (S2_S1 TStart); exact S|exact H]|].
    apply cancel_ok_app; [apply cancel_ok_nodone; exact D|apply cancel_ok_lit; destruct ex; reflexivity].
  - (* LCancel *)
    destruct (task_running (get_task c t)) eqn:Er; [|sameB H E].
    apply some_pair_inv in E. destruct E as [<- <-]. split; [|apply cancel_ok_lit; reflexivity].
    pose proof (task_running_exists c t Er) as X.
    apply cancel_task_B; [apply CI_mark_cancelled; assumption|].
    intros _. destruct (set_task_facts c t (get_task c t <| user_cancelled := true |>) X) as (Hs & _). rewrite Hs. reflexivity.
  - (* LSub *) apply some_pair_inv in E. destruct E as [<- <-]. split; [|apply cancel_ok_lit; reflexivity].
    eapply CI_S2; [apply (S2_ab TStart), ab_add|exact H].
  - (* LUnsub *) sameB H E.
  - (* LResolveDone *) destruct (pc (t_start c)); try discriminate; destruct (do_connect c); try discriminate; sameB H E.
  - (* LTcpDone *) destruct (pc (t_start c)); try discriminate; destruct (do_connect c); try discriminate; sameB H E.
  - (* LMade *) destruct (transport c); try discriminate; destruct (made c); try discriminate; destruct (noise c); sameB H E.
  - (* LMadeWaiter *) destruct (made_waiter c); try discriminate; sameB H E.
  - (* LHelperReady *)
    destruct (ready c); try discriminate; destruct (made c); try discriminate; destruct (transport c); try discriminate.
    destruct r as [e|]; [|sameB H E].
    pose proof (S1_helper_error c e) as S. pose proof (no_done_helper_error c e) as D. destruct (helper_error c e) as [c1 o1]. cbn [fst snd] in S, D.
    pose proof (CI_S2 TStart _ _ (S2_S1 _ _ _ S) H) as H1.
    destruct (transport c1); apply some_pair_inv in E; destruct E as [<- <-];
      (split; [ci_ab H1|
               apply cancel_ok_app; [apply cancel_ok_nodone; exact D|apply cancel_ok_lit; reflexivity]]).
  - (* LData *)
    destruct (transport c); try discriminate; destruct (made c); try discriminate.
    pose proof (S1_data_loop items c (f_uniq c (i_f1 _ _ H))) as S. pose proof (no_done_data_loop items c) as D.
    destruct (data_loop c items) as [[c1 o1] ex]. cbn [fst snd] in S, D.
    pose proof (CI_S2 TStart _ _ (S2_S1 _ _ _ S) H) as H1.
    destruct ex as [e|]; apply some_pair_inv in E; destruct E as [<- <-].
    + split; [destruct (transport c1); ci_ab H1|].
      apply cancel_ok_app; [apply cancel_ok_nodone; exact D|apply cancel_ok_lit; reflexivity].
    + split; [exact H1|apply cancel_ok_nodone; exact D].
  - (* LEof *)
    destruct (transport c); try discriminate; destruct (made c); try discriminate.
    pose proof (S1_helper_error c (Lib LSocketClosed)) as S. pose proof (no_done_helper_error c (Lib LSocketClosed)) as D.
    destruct (helper_error c (Lib LSocketClosed)) as [c1 o1]. cbn [fst snd] in S, D.
    pose proof (CI_S2 TStart _ _ (S2_S1 _ _ _ S) H) as H1.
    destruct (transport c1); apply some_pair_inv in E; destruct E as [<- <-];
      (split; [ci_ab H1|]);
      try (apply cancel_ok_nodone; exact D);
      apply cancel_ok_app; [apply cancel_ok_nodone; exact D|apply cancel_ok_lit; reflexivity].
  - (* LLost *) destruct (transport c); try discriminate; sameB H E.
  - (* LWriteFails *) sameB H E.
  - (* LAdvance *) destruct (_ && _); [sameB H E|discriminate].
  - (* LWake *)
    destruct t.
    + split; [eapply CI_S2; [eapply wake_start_B; exact E|exact H]|].
      apply no_cancel_ok, outs_lib_no_cancel. exact (proj2 (wake_start_A c c' o E)).
    + split; [eapply wake_finish_B; eassumption|].
      apply no_cancel_ok, outs_lib_no_cancel. exact (proj2 (wake_finish_A c c' o E (i_f1 _ _ H))).
    + eapply wake_disc_B; eassumption.
    + eapply wake_call_B; eassumption.
  - (* LIntr *)
    destruct is_start.
    + destruct (start_fut c); try discriminate; destruct (intr_start c); try discriminate; [|sameB H E].
      apply some_pair_inv in E. destruct E as [<- <-]. split; [|apply cancel_ok_lit; reflexivity].
      apply cancel_task_B; [|discriminate]. eapply CI_S2; [|exact H].
      s2f TStart; left; reflexivity.
    + destruct (finish_fut c); try discriminate; destruct (intr_finish c); try discriminate; [|sameB H E].
      apply some_pair_inv in E. destruct E as [<- <-]. split; [|apply cancel_ok_lit; reflexivity].
      apply cancel_task_B; [|discriminate]. eapply CI_S2; [|exact H].
      s2f TFinish; left; reflexivity.
  - (* LDiscWaitDone *)
    destruct (pc (t_disc c)); try discriminate; destruct (finish_fut c); try discriminate; destruct (disc_wait_done c); try discriminate; sameB H E.
  - (* LConnLostCb *)
    destruct (transport c) as [| |e|]; try discriminate.
    set (c1 := c <| transport := TLost |>) in *. destruct (made c1); [|sameB H E].
    apply some_inj in E. match type of E with helper_error c1 ?x = _ => pose proof (S1_helper_error c1 x) as S; pose proof (no_done_helper_error c1 x) as D end.
    rewrite E in S, D. cbn [fst snd] in S, D. split; [|apply cancel_ok_nodone; exact D].
    eapply CI_S2; [apply (S2_S1 TStart); exact S|]. apply (CI_S2 TStart c c1); [apply S2_ab; reflexivity|exact H].
  - (* LTimer *)
    destruct k.
    + destruct (due (ping_timer c) c); [|discriminate].
      set (c0 := c <| ping_timer := None |>) in *.
      assert (H0 : CI c0) by (apply (CI_S2 TStart c c0); [apply S2_ab; reflexivity|exact H]).
      destruct (send_pending_ping c0); [|sameB H E].
      pose proof (S1_send_messages c0 [T_PING_REQ]) as S. pose proof (no_done_send_messages c0 [T_PING_REQ]) as D.
      destruct (send_messages c0 [T_PING_REQ]) as [[c1 o1] ex]. cbn [fst snd] in S, D.
      pose proof (CI_S2 TStart _ _ (S2_S1 _ _ _ S) H0) as H1.
      destruct ex as [e|]; apply some_pair_inv in E; destruct E as [<- <-].
      * split; [exact H1|apply cancel_ok_app; [apply cancel_ok_nodone; exact D|apply cancel_ok_lit; reflexivity]].
      * split; [|apply cancel_ok_nodone; exact D]. (eapply (CI_S2 TStart); [|exact H1]); apply S2_ab; destruct (pong_timer c1); reflexivity.
    + destruct (due (pong_timer c) c); [|discriminate]. apply some_inj in E.
      pose proof (S1_report_fatal c (Lib LPingFailed)) as S. pose proof (no_done_report_fatal c (Lib LPingFailed)) as D. rewrite E in S, D.
      split; [eapply CI_S2; [apply (S2_S1 TStart); exact S|exact H]|apply cancel_ok_nodone; exact D].
    + destruct (due (hs_timer c) c); [|discriminate]. apply some_pair_inv in E. destruct E as [<- <-]. split; [|apply cancel_ok_lit; reflexivity].
      (eapply (CI_S2 TStart); [|exact H]); apply S2_ab; destruct (ready c); reflexivity.
    + destruct (due (conn_timer c) c); [|discriminate]. apply some_pair_inv in E. destruct E as [<- <-]. split; [|apply cancel_ok_lit; reflexivity].
      apply cancel_task_B; [|discriminate]. eapply CI_S2; [|exact H].
      s2f TStart; left; reflexivity.
    + destruct (get_call c cid) as [k0|]; [|discriminate]. destruct (due (c_timer k0) c); [|discriminate].
      apply some_pair_inv in E. destruct E as [<- <-]. split; [|apply cancel_ok_lit; reflexivity].
      eapply CI_S2; [apply (S2_S1 TStart), S1_upd_call|exact H].
      intro k. unfold callrel. cbn. split; [destruct (c_fut k); reflexivity|]. split; [destruct (c_fut k); reflexivity|].
      destruct (c_fut k) eqn:Ef; cbn; rewrite ?Ef; auto. right. split; [reflexivity|]. right. left. reflexivity.
    + destruct (pc (t_disc c)); try discriminate. destruct (due (disc_timer c) c); [|discriminate]. sameB H E.
Qed.

(* ---------------------------------------------------------------- whole runs *)
Lemma CI_init n e ka scr : CI (init n e ka scr).
Proof.
  constructor; cbn.
  - apply F1_init.
  - intros k x [].
  - constructor.
  - reflexivity.
  - intros t cid _ _ Ha. destruct t; cbn in Ha; discriminate.
  - intros t _ Hm. destruct t; cbn in Hm; discriminate.
  - intros k [].
Qed.

Lemma run_CI ls : forall c c' os, CI c -> run c ls = Some (c', os) -> CI c'.
Proof.
  induction ls as [|l ls IHl]; intros c c' os H E; cbn [run] in E.
  - apply some_pair_inv in E. destruct E as [<- _]. exact H.
  - destruct (step c l) as [[c1 o]|] eqn:Es; [|discriminate].
    destruct (run c1 ls) as [[c2 os2]|] eqn:Er; [|discriminate]. apply some_pair_inv in E. destruct E as [<- _].
    eapply IHl; [|exact Er]. exact (proj1 (step_cancel c l c1 o H Es)).
Qed.

(* In every run: when disconnect() or a request/response call ends with CancelledError, its caller had cancelled that very
   operation (ghost flag user_cancelled, assigned in exactly one place of Model/Conn.v: the LCancel label). *)
Theorem cancellation_only_by_caller n e ka scr l1 c1 os1 l c2 o t :
  run (init n e ka scr) l1 = Some (c1, os1) -> step c1 l = Some (c2, o) ->
  In (OTaskDone t (TRaise CancelledErr)) o -> (t = TDisc \/ exists cid, t = TCall cid) ->
  user_cancelled (get_task c1 t) = true.
Proof.
  intros E1 Es Hin Ht. pose proof (run_CI l1 _ _ _ (CI_init n e ka scr) E1) as H1.
  destruct (step_cancel c1 l c2 o H1 Es) as [_ B]. apply B; [exact Hin|]. destruct Ht as [->|[cid ->]]; reflexivity.
Qed.

(* the ghost flag is raised by the caller's cancel *)
Lemma cancel_marks c t c' o : task_running (get_task c t) = true -> step c (LCancel t) = Some (c', o) -> exists_task c t ->
  user_cancelled (get_task (set_task c t (get_task c t <| user_cancelled := true |>)) t) = true.
Proof.
  intros _ _ X. destruct (set_task_facts c t (get_task c t <| user_cancelled := true |>) X) as (Hs & _). rewrite Hs. reflexivity.
Qed.

(* the link invariant, for the record: every awaited call exists and is owned by the one task that awaits it *)
Theorem awaited_call_owned n e ka scr ls c os t cid :
  run (init n e ka scr) ls = Some (c, os) -> t <> TStart -> awaited (pc (get_task c t)) = Some cid ->
  exists kk, get_call c cid = Some kk /\ c_owner kk = t.
Proof.
  intros E Hn Ha. pose proof (run_CI ls _ _ _ (CI_init n e ka scr) E) as [_ _ _ _ A _ _]. apply A; auto.
Qed.
