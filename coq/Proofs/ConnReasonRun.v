(* C07, the argument of the stop callback, over whole runs: it is true only if a graceful disconnect was initiated earlier in the
   run (force_disconnect, disconnect(), or a DisconnectRequest frame from the device), and it is true whenever the
   expected-disconnect flag had been raised before the connection closed. *)
From Coq Require Import NArith ZArith List Bool Lia.
From RecordUpdate Require Import RecordSet.
From Verif Require Import Generated.GenConstants Model.Conn Proofs.ConnCore Proofs.ConnSync Proofs.ConnStep Proofs.ConnStep2
  Proofs.ConnStep3 Proofs.ConnRun Proofs.ConnReason.
Import ListNotations RecordSetNotations.
Open Scope Z_scope.
Open Scope list_scope.

(* the registration invariant: once the handshake is complete the disconnect handler is in the table *)
Definition HD (c : conn) : Prop := handshake_complete c = true -> In (T_DISC_REQ, HDisc) (handlers c).

Lemma HD_G c c' : HD c -> G c c' -> HD c'.
Proof.
  intros H (_ & _ & K & S) Hc. destruct (S Hc) as [A|A]; [|exact A].
  destruct (K T_DISC_REQ HDisc eq_refl) as [K1 _]. auto.
Qed.
Lemma IHok_G c c' : IHok c -> G c c' -> IHok c'.
Proof. intros H (_ & _ & K & _). eapply IHok_IH; eassumption. Qed.

Definition RI (c : conn) : Prop := Inv c /\ IHok c /\ HD c.

Lemma RI_init n e ka scr : RI (init n e ka scr).
Proof.
  split; [apply Inv_init|]. split.
  - intros ty h _ H. destruct H.
  - intro H. discriminate H.
Qed.
Lemma RI_step c l c' o : RI c -> step c l = Some (c', o) -> RI c'.
Proof.
  intros (I & K & H) E. destruct (step_reason c l c' o I K E) as (G1 & _ & _).
  split; [exact (proj1 (step_ok _ _ _ _ E I))|]. split; [eapply IHok_G; eassumption|eapply HD_G; eassumption].
Qed.
Lemma RI_run ls : forall c c' os, RI c -> run c ls = Some (c', os) -> RI c'.
Proof.
  induction ls as [|l ls IHl]; intros c c' os H E; cbn [run] in E.
  - apply some_pair_inv in E. destruct E as [<- _]. exact H.
  - destruct (step c l) as [[c1 o]|] eqn:Es; [|discriminate].
    destruct (run c1 ls) as [[c2 os2]|] eqn:Er; [|discriminate]. apply some_pair_inv in E. destruct E as [<- _].
    eapply IHl; [|exact Er]. eapply RI_step; eassumption.
Qed.
Lemma RI_reachable c : reachable c -> RI c.
Proof. intros (n & e & ka & scr & ls & os & E). eapply RI_run; [apply RI_init|exact E]. Qed.

Lemma run_reason ls : forall c c' os, RI c -> run c ls = Some (c', os) ->
  G c c' /\ (Forall (fun l => ~ initiates_now l) ls -> Kp c c') /\ (~ In LDisconnect ls -> PdNone c c').
Proof.
  induction ls as [|l ls IHl]; intros c c' os H E; cbn [run] in E.
  - apply some_pair_inv in E. destruct E as [<- _]. split; [apply G_refl|]. split; [intros _; apply Kp_refl|intros _ Q; exact Q].
  - destruct (step c l) as [[c1 o]|] eqn:Es; [|discriminate].
    destruct (run c1 ls) as [[c2 os2]|] eqn:Er; [|discriminate]. apply some_pair_inv in E. destruct E as [<- _].
    destruct H as (I & K & Hd).
    destruct (step_reason c l c1 o I K Es) as (G1 & K1 & P1).
    destruct (IHl c1 c2 os2 (RI_step c l c1 o (conj I (conj K Hd)) Es) Er) as (G2 & K2 & P2).
    split; [eapply G_trans; eassumption|]. split.
    + intro F. inversion F as [|x xs Fx Fxs]; subst. eapply Kp_trans; [apply K1; exact Fx|apply K2; exact Fxs].
    + intros Hn Q. apply P2; [intro Hin; apply Hn; right; exact Hin|]. apply P1; [intros ->; apply Hn; left; reflexivity|exact Q].
Qed.

(* ---- which labels initiate a graceful disconnect ---- *)
Definition initiates (l : label) : Prop :=
  l = LForce \/ l = LDisconnect \/ exists items m, l = LData items /\ In (DFrame m) items /\ m_ty m = T_DISC_REQ.

Definition is_disc_req (i : ditem) : bool := match i with DFrame m => N.eqb (m_ty m) T_DISC_REQ | _ => false end.
Definition initiates_nowb (l : label) : bool :=
  match l with
  | LForce | LDisconnect | LWake TDisc => true
  | LData items => existsb is_disc_req items
  | _ => false
  end.
Lemma has_disc_req_b items : existsb is_disc_req items = true <-> has_disc_req items.
Proof.
  unfold has_disc_req. rewrite existsb_exists. split.
  - intros ([m|r] & Hin & Hb); cbn in Hb; [|discriminate]. apply N.eqb_eq in Hb. eauto.
  - intros (m & Hin & Hm). exists (DFrame m). split; [exact Hin|]. cbn. apply N.eqb_eq. exact Hm.
Qed.
Lemma initiates_nowb_spec l : initiates_nowb l = true <-> initiates_now l.
Proof.
  destruct l; cbn [initiates_nowb initiates_now];
    try (split; [intro H; discriminate H|intros []]);
    try (split; [intros _; exact I|reflexivity]).
  - apply has_disc_req_b.
  - destruct t; cbn [initiates_nowb initiates_now];
      try (split; [intro H; discriminate H|intros []]);
      try (split; [intros _; exact I|reflexivity]).
Qed.

Lemma exists_or_none {A} (f : A -> bool) (ls : list A) :
  (exists l1 x l2, ls = l1 ++ x :: l2 /\ f x = true /\ forallb (fun y => negb (f y)) l1 = true) \/ forallb (fun y => negb (f y)) ls = true.
Proof.
  induction ls as [|a ls IHl]; [right; reflexivity|].
  destruct (f a) eqn:Ea.
  - left. exists [], a, ls. auto.
  - destruct IHl as [(l1 & x & l2 & E & Hx & Hl)|Hn].
    + left. exists (a :: l1), x, l2. subst ls. cbn. rewrite Ea. auto.
    + right. cbn. rewrite Ea. exact Hn.
Qed.

Lemma not_initiating ls : forallb (fun y => negb (initiates_nowb y)) ls = true -> Forall (fun l => ~ initiates_now l) ls.
Proof.
  intro H. apply Forall_forall. intros l Hin. rewrite forallb_forall in H. specialize (H l Hin).
  intro Q. apply initiates_nowb_spec in Q. rewrite Q in H. discriminate.
Qed.

Lemma label_is_disconnect l : l = LDisconnect \/ l <> LDisconnect.
Proof. destruct l; try (right; discriminate). left. reflexivity. Qed.

(* the disconnect task can only be resumed after disconnect() was called *)
Lemma wake_disc_needs_disconnect ls : forall c c' os, RI c -> pc (t_disc c) = PNone -> run c ls = Some (c', os) ->
  In (LWake TDisc) ls -> In LDisconnect ls.
Proof.
  induction ls as [|l ls IHl]; intros c c' os H Hp E Hin; [destruct Hin|].
  cbn [run] in E. destruct (step c l) as [[c1 o]|] eqn:Es; [|discriminate].
  destruct (run c1 ls) as [[c2 os2]|] eqn:Er; [|discriminate].
  destruct (label_is_disconnect l) as [->|Hn]; [left; reflexivity|]. right.
  destruct H as (I & K & Hd). destruct (step_reason c l c1 o I K Es) as (_ & _ & P1).
  destruct Hin as [->|Hin].
  - cbn [step] in Es. unfold wake_disc in Es. cbn [get_task] in Es. rewrite Hp in Es. discriminate.
  - eapply (IHl c1 c2 os2); [eapply RI_step; [exact (conj I (conj K Hd))|exact Es]|apply P1; assumption|exact Er|exact Hin].
Qed.

(* ---------------------------------------------------------------- the argument is true only after an initiation *)
Theorem true_only_if_initiated n e ka scr ls c os :
  run (init n e ka scr) ls = Some (c, os) -> In true (stop_calls c) -> exists l, In l ls /\ initiates l.
Proof.
  intros E Ht. pose proof (RI_init n e ka scr) as H0.
  destruct (exists_or_none initiates_nowb ls) as [(l1 & x & l2 & El & Hx & _)|Hn].
  - apply initiates_nowb_spec in Hx. subst ls.
    assert (Hin : In x (l1 ++ x :: l2)) by (apply in_or_app; right; left; reflexivity).
    destruct x; cbn [initiates_now] in Hx; try contradiction.
    + exists LDisconnect. split; [exact Hin|]. right. left. reflexivity.
    + exists LForce. split; [exact Hin|]. left. reflexivity.
    + destruct Hx as (m & Hm & Hty). exists (LData items). split; [exact Hin|]. right. right. exists items, m. auto.
    + destruct t; try contradiction. exists LDisconnect. split; [|right; left; reflexivity].
      eapply wake_disc_needs_disconnect; [exact H0|reflexivity|exact E|exact Hin].
  - exfalso. destruct (run_reason ls _ _ _ H0 E) as (_ & K & _). specialize (K (not_initiating ls Hn)).
    destruct K as [[_ (s & S1 & S2) _ _] _]. cbn in S1, S2. rewrite S1 in Ht.
    rewrite Forall_forall in S2. specialize (S2 true Ht). discriminate.
Qed.

(* positioned form: the initiation precedes (or is) the step in which the callback was called *)
Corollary true_only_if_initiated_before n e ka scr l1 l2 c1 os1 c os :
  run (init n e ka scr) (l1 ++ l2) = Some (c, os) -> run (init n e ka scr) l1 = Some (c1, os1) ->
  In true (stop_calls c1) -> exists l, In l l1 /\ initiates l.
Proof. intros _ E1 Ht. eapply true_only_if_initiated; eassumption. Qed.

(* ---------------------------------------------------------------- once the flag is up, the argument is true *)
Theorem flag_up_then_true c0 ls c os :
  RI c0 -> expected_disconnect c0 = true -> run c0 ls = Some (c, os) ->
  expected_disconnect c = true /\ exists suf, stop_calls c = stop_calls c0 ++ suf /\ Forall (eq true) suf.
Proof.
  intros H0 Hx E. destruct (run_reason ls _ _ _ H0 E) as (((s & S1 & S2 & _) & Gx & _) & _ & _).
  split; [auto|]. exists s. auto.
Qed.

(* so a callback called with false means the flag was down in every earlier state in which the callback had not been called yet *)
Theorem false_means_flag_never_up n e ka scr l1 l2 c1 os1 c os :
  run (init n e ka scr) (l1 ++ l2) = Some (c, os) -> run (init n e ka scr) l1 = Some (c1, os1) ->
  stop_calls c1 = [] -> In false (stop_calls c) -> expected_disconnect c1 = false.
Proof.
  intros E E1 Hs Hf. rewrite run_app, E1 in E.
  destruct (run c1 l2) as [[c2 os2]|] eqn:E2; [|discriminate]. apply some_pair_inv in E. destruct E as [<- _].
  destruct (expected_disconnect c1) eqn:Ex; [|reflexivity]. exfalso.
  assert (R1 : RI c1) by (eapply RI_run; [apply RI_init|exact E1]).
  destruct (flag_up_then_true c1 l2 c2 os2 R1 Ex E2) as (_ & s & S1 & S2). rewrite Hs in S1. cbn in S1. rewrite S1 in Hf.
  rewrite Forall_forall in S2. specialize (S2 false Hf). discriminate.
Qed.

(* ---------------------------------------------------------------- what raises the flag *)
Lemma Sets_vw c c1 c' : stop_calls c1 = stop_calls c -> Sets c1 c' -> Sets c c'.
Proof. intros E (A & s & B & D). split; [exact A|]. exists s. rewrite <- E. auto. Qed.

Theorem force_initiates c c' o : step c LForce = Some (c', o) -> Sets c c'.
Proof.
  cbn [step]. intro E. set (c1 := c <| expected_disconnect := true |>) in *.
  assert (K : Kp c1 c').
  { destruct (handshake_complete c1).
    - pose proof (Kp_send_messages c1 [T_DISC_REQ]) as H. destruct (send_messages c1 [T_DISC_REQ]) as [[c2 o2] ex]. cbn [fst] in H.
      destruct ex as [[]|].
      all: try (apply some_pair_inv in E; destruct E as [<- _]; exact H).
      all: pose proof (Kp_cleanup c2) as H2; destruct (cleanup c2) as [c3 o3]; cbn [fst] in H2;
           apply some_pair_inv in E; destruct E as [<- _]; eapply Kp_trans; eassumption.
    - pose proof (Kp_cleanup c1) as H2. destruct (cleanup c1) as [c3 o3]. cbn [fst] in H2.
      apply some_pair_inv in E. destruct E as [<- _]. exact H2. }
  apply Sets_raise_G. apply G_Kp. exact K.
Qed.

Theorem disconnect_initiates c c' o : finish_fut c <> FPending -> step c LDisconnect = Some (c', o) -> Sets c c'.
Proof.
  cbn [step]. intros Hf E. destruct (pc (t_disc c)); try discriminate.
  destruct (finish_fut c); try contradiction.
  all: apply some_inj in E;
    match type of E with disconnect_after_wait ?x = _ => destruct (Sets_disconnect_after_wait x) as [H3 _]; rewrite E in H3 end;
    cbn [fst] in H3; (eapply Sets_vw; [|exact H3]); reflexivity.
Qed.

Theorem disconnect_wait_over_initiates c c' o :
  pc (t_disc c) = PD_Wait -> must_cancel (t_disc c) = false -> step c (LWake TDisc) = Some (c', o) -> Sets c c'.
Proof.
  cbn [step]. unfold wake_disc. cbn [get_task]. intros Hp Hm E. rewrite Hp, Hm in E. cbn [orb] in E.
  destruct (disc_wait_done c); [|discriminate].
  unfold take_cancel in E. cbn [get_task] in E. rewrite Hm in E.
  apply some_inj in E.
  match type of E with disconnect_after_wait ?x = _ => destruct (Sets_disconnect_after_wait x) as [H3 _]; rewrite E in H3;
    assert (H4 : stop_calls x = stop_calls c) by (destruct (finish_fut (c <| disc_timer := None |>)); try reflexivity; destruct (fatal (c <| disc_timer := None |>)); reflexivity) end.
  cbn [fst] in H3. eapply Sets_vw; eassumption.
Qed.

Lemma disc_ne_ping : T_DISC_REQ <> T_PING_REQ. Proof. vm_compute. discriminate. Qed.
Lemma disc_ne_time : T_DISC_REQ <> T_TIME_REQ. Proof. vm_compute. discriminate. Qed.

Theorem disconnect_request_initiates c m rest c' o :
  RI c -> handshake_complete c = true ->
  m_ty m = T_DISC_REQ -> registered (m_ty m) = true -> m_valid m = true ->
  step c (LData (DFrame m :: rest)) = Some (c', o) -> Sets c c'.
Proof.
  intros (I & K & Hd) Hh Hty Hreg Hval E. cbn [step] in E.
  destruct (transport c); try discriminate. destruct (made c); try discriminate.
  assert (Hn : cs c <> Closed).
  { destruct I as ((_ & F2) & _). change (k_hs (core_of c)) with (handshake_complete c) in F2. change (k_cs (core_of c)) with (cs c) in F2.
    intro Q. rewrite Q, Hh in F2. discriminate. }
  cbn [data_loop] in E. rewrite (process_packet_open c m Hn Hreg Hval) in E.
  assert (Hs : Sets c (fst (fst (run_handlers (pp_reset c) (snapshot (pp_reset c) (m_ty m)) m)))).
  { apply (Sets_vw c (pp_reset c)); [reflexivity|]. apply Sets_run_handlers.
    - apply snapshot_in. rewrite Hty. exact (Hd Hh).
    - intro Q. apply snapshot_in in Q. apply (K (m_ty m) HPing eq_refl) in Q. rewrite Hty in Q. exact (disc_ne_ping Q).
    - intro Q. apply snapshot_in in Q. apply (K (m_ty m) HTime eq_refl) in Q. rewrite Hty in Q. exact (disc_ne_time Q). }
  destruct (run_handlers (pp_reset c) (snapshot (pp_reset c) (m_ty m)) m) as [[c1 o1] ex]. cbn [fst] in Hs.
  destruct ex as [e|].
  - apply some_pair_inv in E. destruct E as [<- _]. destruct Hs as (A & s & B & D). split.
    + destruct (transport c1); exact A.
    + exists s. split; [|exact D]. destruct (transport c1); exact B.
  - destruct (G_data_loop rest c1) as [HG _]. destruct (data_loop c1 rest) as [[c2 o2] ex2]. cbn [fst] in HG.
    pose proof (Sets_G c c1 c2 Hs HG) as (A & s & B & D).
    destruct ex2 as [e|]; apply some_pair_inv in E; destruct E as [<- _].
    + split; [destruct (transport c2); exact A|]. exists s. split; [|exact D]. destruct (transport c2); exact B.
    + split; [exact A|]. exists s. auto.
Qed.

(* the registration invariant, for the record *)
Theorem disconnect_handler_registered c : reachable c -> handshake_complete c = true -> In (T_DISC_REQ, HDisc) (handlers c).
Proof. intros Hr. destruct (RI_reachable c Hr) as (_ & _ & H). exact H. Qed.
Theorem internal_handlers_typed c : reachable c -> forall ty h, internal h = true -> In (ty, h) (handlers c) -> ty = ty_of h.
Proof. intros Hr. destruct (RI_reachable c Hr) as (_ & H & _). exact H. Qed.
