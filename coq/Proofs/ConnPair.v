(* Two connections of one process (Proofs/Product.v instantiated with Model/Conn.v): each connection of a pair runs exactly
   its own labels, and the run-level theorems of single connections hold for each of them. *)
From Coq Require Import NArith ZArith List Bool.
From Verif Require Import Model.Conn Proofs.ConnCore Proofs.ConnRun Proofs.ConnReason Proofs.ConnReasonRun Proofs.Product.
Import ListNotations.

Definition pair_label := plabel label label.
Definition pair_step := pstep conn conn label label (list obs) (list obs) step step.
Definition pair_run := prun conn conn label label (list obs) (list obs) step step.
Definition mine := labelsA label label.
Definition theirs := labelsB label label.
Definition my_obs := obsA (list obs) (list obs).
Definition their_obs := obsB (list obs) (list obs).

Lemma run_is_runA : forall ls c, run c ls = runA conn label (list obs) step c ls.
Proof.
  induction ls as [|l r IH]; intro c; cbn; [reflexivity|].
  destruct (step c l) as [[c1 o]|]; [|reflexivity]. rewrite IH. reflexivity.
Qed.

Lemma run_is_runB : forall ls c, run c ls = runB conn label (list obs) step c ls.
Proof.
  induction ls as [|l r IH]; intro c; cbn; [reflexivity|].
  destruct (step c l) as [[c1 o]|]; [|reflexivity]. rewrite IH. reflexivity.
Qed.

(* in every run of two connections each one is in the state, and has made the observations, of its own run on its own labels *)
Theorem pair_projects : forall ls a b a' b' os,
  pair_run (a, b) ls = Some ((a', b'), os) ->
  run a (mine ls) = Some (a', my_obs os) /\ run b (theirs ls) = Some (b', their_obs os).
Proof.
  intros ls a b a' b' os H. rewrite run_is_runA, run_is_runB.
  exact (product_projects _ _ _ _ _ _ step step ls a b a' b' os H).
Qed.

(* one connection never disables a step of the other: if each can run its own labels, every interleaving runs *)
Theorem pair_enabled : forall ls a b a' b' oa ob,
  run a (mine ls) = Some (a', oa) -> run b (theirs ls) = Some (b', ob) ->
  exists os, pair_run (a, b) ls = Some ((a', b'), os) /\ my_obs os = oa /\ their_obs os = ob.
Proof.
  intros ls a b a' b' oa ob HA HB. rewrite run_is_runA in HA. rewrite run_is_runB in HB.
  exact (product_enabled _ _ _ _ _ _ step step ls a b a' b' oa ob HA HB).
Qed.

(* C07 for sibling sessions: the stop callback of a connection reports a graceful disconnect only if one was initiated ON THAT
   CONNECTION - a force_disconnect / disconnect call on it or a DisconnectRequest in ITS stream; what its sibling does or
   receives does not count *)
Theorem sibling_true_only_if_initiated_here : forall n e ka scr n2 e2 ka2 scr2 ls a b os,
  pair_run (init n e ka scr, init n2 e2 ka2 scr2) ls = Some ((a, b), os) ->
  In true (stop_calls a) -> exists l, In l (mine ls) /\ initiates l.
Proof.
  intros n e ka scr n2 e2 ka2 scr2 ls a b os H Ht.
  destruct (pair_projects _ _ _ _ _ _ H) as [HA _].
  exact (true_only_if_initiated n e ka scr (mine ls) a (my_obs os) HA Ht).
Qed.

(* non-vacuity: two connections that both connect, interleaved step by step; the first is told to disconnect by its device,
   the second is reset: the first reports an expected stop, the second an unexpected one *)
Fixpoint interleave (xs ys : list label) : list pair_label :=
  match xs, ys with
  | x :: xr, y :: yr => PA label label x :: PB label label y :: interleave xr yr
  | xs, [] => map (PA label label) xs
  | [], ys => map (PB label label) ys
  end.
