(* For C08: on a closed connection each connect coroutine that is still suspended can be interrupted right now (the done-callback
   of its connect future, label LIntr, is enabled and leaves it resumable) or has been interrupted already; and the wait of
   disconnect() for the connect phase is over or can be released right now.
   CK2: closed -> neither connect future is pending; a running connect coroutine has its future created and its interrupt
   block armed or fired.  Km: the relation every synchronous function satisfies (the state, the two futures and the two
   interrupt blocks are kept, or the connection becomes CLOSED with both futures resolved). *)
From Coq Require Import NArith ZArith List Bool Lia PeanoNat.
From RecordUpdate Require Import RecordSet.
From Verif Require Import Generated.GenConstants Model.Conn Proofs.ConnCore Proofs.ConnSync Proofs.ConnCalls Proofs.ConnErrors Proofs.ConnReason Proofs.ConnOutcome Proofs.ConnCancel Proofs.ConnGuard.
Import ListNotations RecordSetNotations.
Open Scope Z_scope.
Open Scope list_scope.

Definition phase_running (p : tpc) : bool :=
  match p with PS_Resolve | PS_Tcp _ | PF_Create | PF_Ready | PF_Hello _ => true | _ => false end.
Definition armed_or_fired (i : istat) : Prop := i = IArmed \/ i = IFired.

Record CK2 (c : conn) : Prop := {
  k_cf : cs c = Closed -> start_fut c <> FPending /\ finish_fut c <> FPending;
  k_s : phase_running (pc (t_start c)) = true -> start_fut c <> FNone /\ armed_or_fired (intr_start c);
  k_f : phase_running (pc (t_finish c)) = true -> finish_fut c <> FNone /\ armed_or_fired (intr_finish c) }.

Definition fdone (f : fstat) : fstat := match f with FPending => FDone | x => x end.
Lemma fdone_idem f : fdone (fdone f) = fdone f.
Proof. destruct f; reflexivity. Qed.

(* the connect futures are kept or resolved; a state that becomes CLOSED has both resolved *)
Definition fkeep (f f' : fstat) : Prop := f' = f \/ f' = fdone f.
Definition kst (c c' : conn) : Prop :=
  fkeep (start_fut c) (start_fut c') /\ fkeep (finish_fut c) (finish_fut c') /\
  (cs c' = Closed -> cs c = Closed \/ (start_fut c' = fdone (start_fut c) /\ finish_fut c' = fdone (finish_fut c))).
Lemma fkeep_refl f : fkeep f f.
Proof. left. reflexivity. Qed.
Lemma fkeep_trans a b c : fkeep a b -> fkeep b c -> fkeep a c.
Proof. unfold fkeep. intros [->| ->] [->| ->]; rewrite ?fdone_idem; auto. Qed.
Lemma fkeep_fdone a b : fkeep a b -> fdone b = fdone a.
Proof. intros [->| ->]; rewrite ?fdone_idem; reflexivity. Qed.
Lemma kst_refl c : kst c c.
Proof. split; [apply fkeep_refl|split; [apply fkeep_refl|auto]]. Qed.
Lemma kst_trans a b c : kst a b -> kst b c -> kst a c.
Proof.
  intros (A1 & A2 & A3) (B1 & B2 & B3). split; [eapply fkeep_trans; eassumption|]. split; [eapply fkeep_trans; eassumption|].
  intro Hc. destruct (B3 Hc) as [Hb|[X1 X2]].
  - destruct (A3 Hb) as [Ha|[Y1 Y2]]; [left; exact Ha|right].
    split; [destruct B1 as [Q|Q]; rewrite Q, Y1, ?fdone_idem; reflexivity|destruct B2 as [Q|Q]; rewrite Q, Y2, ?fdone_idem; reflexivity].
  - right. rewrite X1, X2, (fkeep_fdone _ _ A1), (fkeep_fdone _ _ A2). auto.
Qed.

Record Km (c c' : conn) : Prop := {
  km_ps : pc (t_start c') = pc (t_start c);
  km_pf : pc (t_finish c') = pc (t_finish c);
  km_is : intr_start c' = intr_start c;
  km_if : intr_finish c' = intr_finish c;
  km_st : kst c c' }.

Lemma Km_refl c : Km c c.
Proof. constructor; auto. apply kst_refl. Qed.
Lemma Km_trans a b c : Km a b -> Km b c -> Km a c.
Proof. intros [A1 A2 A3 A4 A5] [B1 B2 B3 B4 B5]. constructor; try congruence. eapply kst_trans; eassumption. Qed.
Definition kv (c : conn) := (cs c, start_fut c, finish_fut c, intr_start c, intr_finish c, pc (t_start c), pc (t_finish c)).
Lemma kst_eq c c' : cs c' = cs c -> start_fut c' = start_fut c -> finish_fut c' = finish_fut c -> kst c c'.
Proof. intros E1 E2 E3. split; [left; exact E2|]. split; [left; exact E3|]. intro Hc. left. congruence. Qed.
Lemma Km_kv c c' : kv c' = kv c -> Km c c'.
Proof. unfold kv. intro E. injection E as E1 E2 E3 E4 E5 E6 E7. constructor; auto. apply kst_eq; assumption. Qed.

Lemma fkeep_pending a b : fkeep a b -> a <> FPending -> b <> FPending.
Proof. intros [->| ->] H; [exact H|destruct a; discriminate]. Qed.
Lemma fkeep_none a b : fkeep a b -> a <> FNone -> b <> FNone.
Proof. intros [->| ->] H; [exact H|destruct a; try discriminate; contradiction]. Qed.
Lemma kst_closed c c' : kst c c' -> (cs c = Closed -> start_fut c <> FPending /\ finish_fut c <> FPending) ->
  cs c' = Closed -> start_fut c' <> FPending /\ finish_fut c' <> FPending.
Proof.
  intros (A1 & A2 & A3) H Hc. destruct (A3 Hc) as [Ha|[X1 X2]].
  - destruct (H Ha) as [H1 H2]. split; eapply fkeep_pending; eassumption.
  - rewrite X1, X2. split; [destruct (start_fut c)|destruct (finish_fut c)]; discriminate.
Qed.
Lemma CK2_Km c c' : Km c c' -> CK2 c -> CK2 c'.
Proof.
  intros [A1 A2 A3 A4 A5] [B1 B2 B3]. constructor.
  - apply (kst_closed c c' A5 B1).
  - rewrite A1, A3. intro Hp. destruct (B2 Hp) as [H1 H2]. split; [|exact H2]. eapply fkeep_none; [apply A5|exact H1].
  - rewrite A2, A4. intro Hp. destruct (B3 Hp) as [H1 H2]. split; [|exact H2]. eapply fkeep_none; [apply A5|exact H1].
Qed.

(* ---------------------------------------------------------------- the synchronous functions *)
Lemma kv_helper_close c : kv (fst (helper_close c)) = kv c.
Proof. unfold helper_close. repeat dm; reflexivity. Qed.
Lemma kv_release c : kv (fst (release_resources c)) = kv c.
Proof.
  unfold release_resources. destruct (helper c).
  - destruct (socket c); reflexivity.
  - pose proof (kv_helper_close c) as H. destruct (helper_close c) as [c1 o1]. cbn [fst] in H.
    destruct (socket _); cbn [fst]; rewrite <- H; reflexivity.
  - pose proof (kv_helper_close c) as H. destruct (helper_close c) as [c1 o1]. cbn [fst] in H.
    destruct (socket _); cbn [fst]; rewrite <- H; reflexivity.
Qed.
Lemma futures_fields x :
  let y := set_finish_future (set_start_future x) in
  cs y = cs x /\ start_fut y = fdone (start_fut x) /\ finish_fut y = fdone (finish_fut x) /\
  intr_start y = intr_start x /\ intr_finish y = intr_finish x /\ pc (t_start y) = pc (t_start x) /\ pc (t_finish y) = pc (t_finish x).
Proof.
  unfold set_finish_future, set_start_future.
  destruct (start_fut x) eqn:E1; cbn; destruct (finish_fut x) eqn:E2; cbn; rewrite ?E1, ?E2; auto 10.
Qed.
Lemma Km_pre_close c : Km c (pre_close c).
Proof.
  unfold pre_close.
  match goal with |- Km c (set_finish_future (set_start_future ?x)) => destruct (futures_fields x) as (F1 & F2 & F3 & F4 & F5 & F6 & F7) end.
  constructor; [rewrite F6; reflexivity|rewrite F7; reflexivity|rewrite F4; reflexivity|rewrite F5; reflexivity|].
  split; [right; rewrite F2; reflexivity|]. split; [right; rewrite F3; reflexivity|]. intros _. right. rewrite F2, F3. auto.
Qed.
Lemma Km_cleanup c : Km c (fst (cleanup c)).
Proof.
  destruct (cs c) eqn:Ecs; try (unfold cleanup; rewrite Ecs; apply Km_kv, kv_release).
  all: rewrite cleanup_open by congruence;
    pose proof (kv_release (pre_close c)) as H;
    destruct (release_resources (pre_close c)) as [c4 o4]; cbn [fst] in H;
    (apply (Km_trans c (pre_close c)); [apply Km_pre_close|]);
    (apply (Km_trans _ c4); [apply Km_kv; exact H|]);
    destruct (on_stop_armed c4 && is_connected c); cbn [fst]; [apply Km_kv; reflexivity|apply Km_refl].
Qed.
Lemma Km_report_fatal c e : Km c (fst (report_fatal c e)).
Proof.
  unfold report_fatal. destruct (fatal c); [apply Km_cleanup|].
  apply (Km_trans c (c <| fatal := Some e |>)); [apply Km_kv; reflexivity|apply Km_cleanup].
Qed.
Lemma Km_helper_error c e : Km c (fst (helper_error c e)).
Proof.
  unfold helper_error. destruct (ready c); try apply Km_report_fatal.
  apply (Km_trans c (c <| ready := RExc e |>)); [apply Km_kv; reflexivity|apply Km_report_fatal].
Qed.
Lemma Km_send_messages c tys : Km c (fst (fst (send_messages c tys))).
Proof.
  unfold send_messages. destruct (negb (handshake_complete c)); [apply Km_refl|].
  destruct (write_fails c).
  - pose proof (Km_report_fatal c (Lib LSocketClosed)) as H. destruct (report_fatal c (Lib LSocketClosed)) as [c1 o]. exact H.
  - destruct (transport c); apply Km_refl.
Qed.
Lemma kv_add c ty h : kv (add_handler c ty h) = kv c.
Proof. unfold add_handler. destruct (existsb _ _); reflexivity. Qed.
Lemma kv_fold_actions l : forall c, kv (fold_left run_action l c) = kv c.
Proof.
  induction l as [|a l IHl]; intro c; cbn [fold_left]; [reflexivity|]. rewrite IHl.
  destruct a; cbn [run_action]; [apply kv_add|reflexivity].
Qed.
Lemma kv_fold_add l h : forall c, kv (fold_left (fun a ty => add_handler a ty h) l c) = kv c.
Proof. induction l as [|a l IHl]; intro c; cbn [fold_left]; [reflexivity|]. rewrite IHl. apply kv_add. Qed.
Lemma kv_fold_remove l h : forall c, kv (fold_left (fun a ty => remove_handler a ty h) l c) = kv c.
Proof. induction l as [|a l IHl]; intro c; cbn [fold_left]; [reflexivity|]. rewrite IHl. reflexivity. Qed.
Lemma kv_handle_call_message c cid m : kv (handle_call_message c cid m) = kv c.
Proof. unfold handle_call_message. destruct (get_call c cid) as [k|]; [|reflexivity]. destruct (c_fut k); reflexivity. Qed.
Lemma Km_call_handler c h m : Km c (fst (fst (call_handler c h m))).
Proof.
  destruct h; cbn [call_handler].
  - set (c1 := c <| expected_disconnect := true |>).
    pose proof (Km_send_messages c1 [T_DISC_RESP]) as H. destruct (send_messages c1 [T_DISC_RESP]) as [[c2 o] ex]. cbn [fst] in H.
    assert (H0 : Km c c1) by (apply Km_kv; reflexivity).
    destruct ex; cbn [fst]; [eapply Km_trans; eassumption|].
    pose proof (Km_cleanup c2) as H2. destruct (cleanup c2) as [c3 o3]. cbn [fst] in *.
    eapply Km_trans; [exact H0|]. eapply Km_trans; eassumption.
  - apply Km_send_messages.
  - apply Km_send_messages.
  - cbn [fst]. apply Km_kv, kv_handle_call_message.
  - cbn [fst]. apply Km_kv, kv_fold_actions.
Qed.
Lemma Km_run_handlers hs m : forall c, Km c (fst (fst (run_handlers c hs m))).
Proof.
  induction hs as [|h hs IHh]; intros c; cbn [run_handlers fst]; [apply Km_refl|].
  pose proof (Km_call_handler c h m) as H1. destruct (call_handler c h m) as [[c1 o1] ex]. cbn [fst] in H1.
  destruct ex; cbn [fst]; [exact H1|].
  specialize (IHh c1). destruct (run_handlers c1 hs m) as [[c2 o2] ex2]. cbn [fst] in *. eapply Km_trans; eassumption.
Qed.
Lemma Km_process_packet c m : Km c (fst (fst (process_packet c m))).
Proof.
  unfold process_packet. destruct (cs c) eqn:Ecs; try (cbn [fst]; apply Km_refl).
  all: destruct (registered (m_ty m)); cbn [negb fst]; [|apply Km_refl];
       (destruct (m_valid m); cbn [negb];
        [ match goal with |- context [run_handlers ?x ?hs ?mm] =>
            assert (H0 : Km c x) by (apply Km_kv; unfold kv; cbn; rewrite Ecs; reflexivity);
            pose proof (Km_run_handlers hs mm x) as H; destruct (run_handlers x hs mm) as [[c2 o2] ex2] end;
          cbn [fst] in *; eapply Km_trans; eassumption
        | pose proof (Km_report_fatal c (Lib LProtocol)) as H; destruct (report_fatal c (Lib LProtocol)) as [c1 o];
          cbn [fst] in *; exact H ]).
Qed.
Lemma Km_data_loop items : forall c, Km c (fst (fst (data_loop c items))).
Proof.
  induction items as [|i items IHi]; intros c; cbn [data_loop fst]; [apply Km_refl|].
  destruct i as [m|req].
  - pose proof (Km_process_packet c m) as H1. destruct (process_packet c m) as [[c1 o1] ex]. cbn [fst] in H1.
    destruct ex; cbn [fst]; [exact H1|].
    specialize (IHi c1). destruct (data_loop c1 items) as [[c2 o2] ex2]. cbn [fst] in *. eapply Km_trans; eassumption.
  - match goal with |- context [helper_error c ?e] =>
      pose proof (Km_helper_error c e) as H; destruct (helper_error c e) as [c1 o1] end.
    cbn [fst] in *. exact H.
Qed.
Lemma kv_call_finally c cid : kv (call_finally c cid) = kv c.
Proof.
  unfold call_finally. destruct (get_call c cid); [|reflexivity].
  match goal with |- kv (?x <| waiters := _ |>) = _ => change (kv x = kv c) end. rewrite kv_fold_remove. reflexivity.
Qed.
Lemma Km_call_begin c owner send types ap st tmo : Km c (fst (fst (fst (call_begin c owner send types ap st tmo)))).
Proof.
  unfold call_begin. pose proof (Km_send_messages c send) as H. destruct (send_messages c send) as [[c1 o] ex]. cbn [fst] in H.
  destruct ex; cbn [fst]; [exact H|]. eapply Km_trans; [exact H|]. apply Km_kv. rewrite kv_fold_add. reflexivity.
Qed.

(* ---------------------------------------------------------------- tasks *)
(* the start coroutine takes its own step: its program point and interrupt block are not compared *)
Record KmS (c c' : conn) : Prop := { s_pf : pc (t_finish c') = pc (t_finish c); s_if : intr_finish c' = intr_finish c; s_st : kst c c' }.
Record KmF (c c' : conn) : Prop := { f_ps : pc (t_start c') = pc (t_start c); f_is : intr_start c' = intr_start c; f_st : kst c c' }.
Lemma Km_KmS c c' : Km c c' -> KmS c c'.
Proof. intros [A1 A2 A3 A4 A5]. constructor; assumption. Qed.
Lemma Km_KmF c c' : Km c c' -> KmF c c'.
Proof. intros [A1 A2 A3 A4 A5]. constructor; assumption. Qed.
Lemma KmS_trans a b c : KmS a b -> KmS b c -> KmS a c.
Proof. intros [A1 A2 A3] [B1 B2 B3]. constructor; [congruence|congruence|eapply kst_trans; eassumption]. Qed.
Lemma KmF_trans a b c : KmF a b -> KmF b c -> KmF a c.
Proof. intros [A1 A2 A3] [B1 B2 B3]. constructor; [congruence|congruence|eapply kst_trans; eassumption]. Qed.
Definition kvS (c : conn) := (cs c, start_fut c, finish_fut c, intr_finish c, pc (t_finish c)).
Definition kvF (c : conn) := (cs c, start_fut c, finish_fut c, intr_start c, pc (t_start c)).
Lemma KmS_kv c c' : kvS c' = kvS c -> KmS c c'.
Proof. unfold kvS. intro E. injection E as E1 E2 E3 E4 E5. constructor; auto. apply kst_eq; assumption. Qed.
Lemma KmF_kv c c' : kvF c' = kvF c -> KmF c c'.
Proof. unfold kvF. intro E. injection E as E1 E2 E3 E4 E5. constructor; auto. apply kst_eq; assumption. Qed.

Lemma kst_not_none_s c c' : kst c c' -> start_fut c <> FNone -> start_fut c' <> FNone.
Proof. intros (A1 & _) H. eapply fkeep_none; eassumption. Qed.
Lemma kst_not_none_f c c' : kst c c' -> finish_fut c <> FNone -> finish_fut c' <> FNone.
Proof. intros (_ & A2 & _) H. eapply fkeep_none; eassumption. Qed.

(* after its own step the start coroutine is either over, or still in its phase with future and interrupt block in order *)
Lemma CK2_KmS c c' : KmS c c' -> CK2 c ->
  (phase_running (pc (t_start c')) = true -> start_fut c' <> FNone /\ armed_or_fired (intr_start c')) -> CK2 c'.
Proof.
  intros [A1 A2 A3] [B1 B2 B3] Hs. constructor; [apply (kst_closed c c' A3 B1)|exact Hs|].
  rewrite A1, A2. intro Hp. destruct (B3 Hp) as [H1 H2]. split; [eapply kst_not_none_f; eassumption|exact H2].
Qed.
Lemma CK2_KmF c c' : KmF c c' -> CK2 c ->
  (phase_running (pc (t_finish c')) = true -> finish_fut c' <> FNone /\ armed_or_fired (intr_finish c')) -> CK2 c'.
Proof.
  intros [A1 A2 A3] [B1 B2 B3] Hs. constructor; [apply (kst_closed c c' A3 B1)| |exact Hs].
  rewrite A1, A2. intro Hp. destruct (B2 Hp) as [H1 H2]. split; [eapply kst_not_none_s; eassumption|exact H2].
Qed.

Lemma kv_set_task_same c t k' : pc k' = pc (get_task c t) -> kv (set_task c t k') = kv c.
Proof. intro H. destruct t; cbn [set_task get_task] in *; unfold kv; cbn; rewrite ?H; reflexivity. Qed.
Lemma kv_take_cancel c t : kv (fst (take_cancel c t)) = kv c.
Proof. unfold take_cancel. destruct (must_cancel _); cbn [fst]; [apply kv_set_task_same|]; reflexivity. Qed.
Lemma kv_timeout_exit c t e : kv (fst (timeout_exit c t e)) = kv c.
Proof.
  unfold timeout_exit. destruct (expiring _); [|reflexivity].
  destruct e; cbn [fst]; try (apply kv_set_task_same; reflexivity). destruct (Nat.eqb _ _); cbn [fst]; apply kv_set_task_same; reflexivity.
Qed.
Lemma kv_interrupt_exit c t e : kv (fst (interrupt_exit c t e)) = kv c.
Proof.
  unfold interrupt_exit. destruct (interrupted _); [|reflexivity].
  destruct e; cbn [fst]; try reflexivity. destruct (Nat.eqb _ _); cbn [fst]; apply kv_set_task_same; reflexivity.
Qed.
Lemma kv_cancel_awaited c t k : kv (fst (cancel_awaited c t k)) = kv c.
Proof.
  unfold cancel_awaited. destruct (pc k); try reflexivity.
  1,2: destruct (cancel_efut (do_connect c)); reflexivity.
  1: destruct (cancel_efut (made_waiter c)); reflexivity.
  1: destruct (ready c); reflexivity.
  2: destruct (disc_wait_done c); reflexivity.
  all: destruct (get_call c cid) as [kk|]; [|reflexivity]; destruct (c_fut kk); reflexivity.
Qed.
Lemma kv_cancel_task c t : kv (cancel_task c t) = kv c.
Proof.
  unfold cancel_task. destruct (negb (task_running _)); [reflexivity|].
  match goal with |- context [cancel_awaited c t ?k1] =>
    pose proof (kv_cancel_awaited c t k1) as H; pose proof (cancel_awaited_tasks c t k1 t) as HT; destruct (cancel_awaited c t k1) as [c1 d] end.
  cbn [fst] in H, HT. destruct d; (rewrite kv_set_task_same; [exact H|rewrite HT; reflexivity]).
Qed.
(* a task that is not one of the two connect coroutines *)
Lemma kv_set_task_other c t k' : t <> TStart -> t <> TFinish -> kv (set_task c t k') = kv c.
Proof. intros H1 H2. destruct t; try contradiction; reflexivity. Qed.

(* ---------------------------------------------------------------- start_connection *)
Definition XS (c c' : conn) : Prop := KmS c c' /\ (phase_running (pc (t_start c')) = true -> start_fut c' <> FNone /\ armed_or_fired (intr_start c')).
Definition XF (c c' : conn) : Prop := KmF c c' /\ (phase_running (pc (t_finish c')) = true -> finish_fut c' <> FNone /\ armed_or_fired (intr_finish c')).

Lemma Km_set_start_future c : Km c (set_start_future c).
Proof.
  unfold set_start_future. destruct (start_fut c) eqn:E; try apply Km_refl.
  constructor; try reflexivity. split; [right; cbn; rewrite E; reflexivity|]. split; [left; reflexivity|]. intro H. left. exact H.
Qed.
Lemma Km_set_finish_future c : Km c (set_finish_future c).
Proof.
  unfold set_finish_future. destruct (finish_fut c) eqn:E; try apply Km_refl.
  constructor; try reflexivity. split; [left; reflexivity|]. split; [right; cbn; rewrite E; reflexivity|]. intro H. left. exact H.
Qed.
Lemma kst_set_state c s : s <> Closed -> kst c (set_state c s).
Proof. intro H. split; [left; reflexivity|]. split; [left; reflexivity|]. cbn. intro Q. contradiction. Qed.

Ltac ks_S H := eapply KmS_trans; [apply Km_KmS; exact H|].
Ltac ks_F H := eapply KmF_trans; [apply Km_KmF; exact H|].

Lemma start_fail_XS c e : XS c (fst (start_fail c e)).
Proof.
  unfold start_fail.
  pose proof (kv_interrupt_exit c TStart e) as H0. destruct (interrupt_exit c TStart e) as [c0 e1]. cbn [fst] in H0.
  match goal with |- context [cleanup ?x] => pose proof (Km_cleanup x) as H1; assert (Hx : KmS c0 x) by (apply KmS_kv; reflexivity);
    destruct (cleanup x) as [c2 o] end.
  cbn [fst] in H1. unfold finish_task. cbn [fst]. split; [|cbn; discriminate].
  ks_S (Km_kv _ _ H0). eapply KmS_trans; [exact Hx|]. ks_S H1. ks_S (Km_set_start_future c2). apply KmS_kv. reflexivity.
Qed.
Lemma start_tcp_attempt_XS c g : start_fut c <> FNone -> armed_or_fired (intr_start c) -> XS c (start_tcp_attempt c g).
Proof. intros H1 H2. unfold start_tcp_attempt. split; [apply KmS_kv; reflexivity|]. intros _. cbn. auto. Qed.
Lemma start_success_XS c : XS c (fst (start_success c)).
Proof.
  unfold start_success.
  match goal with |- context [set_start_future ?x] => set (x0 := x); set (c2 := set_start_future x0) end.
  assert (H2 : KmS c c2) by (apply (KmS_trans c x0); [apply KmS_kv; reflexivity|apply Km_KmS, Km_set_start_future]).
  destruct (cs c2) eqn:Ecs.
  5: { pose proof (Km_cleanup c2) as H3. destruct (cleanup c2) as [c3 o]. cbn [fst] in H3. unfold finish_task. cbn [fst].
       split; [|cbn; discriminate]. eapply KmS_trans; [exact H2|]. ks_S H3. apply KmS_kv. reflexivity. }
  all: unfold finish_task; cbn [fst]; (split; [|cbn; discriminate]); (eapply KmS_trans; [exact H2|]);
       constructor; [reflexivity|reflexivity|]; cbn;
       (split; [left; reflexivity|]); (split; [left; reflexivity|]); intro Q; discriminate.
Qed.

Lemma wake_start_XS c c' o : wake_start c = Some (c', o) -> CK2 c -> XS c c'.
Proof.
  unfold wake_start. cbn [get_task]. intros E HK.
  destruct (pc (t_start c)) eqn:Epc; try discriminate.
  all: destruct (k_s _ HK ltac:(rewrite Epc; reflexivity)) as [Hfn Hai].
  - destruct (_ || _); [|discriminate].
    pose proof (kv_take_cancel c TStart) as H1. destruct (take_cancel c TStart) as [c1 mc]. cbn [fst] in H1.
    assert (Hfn1 : start_fut c1 <> FNone /\ armed_or_fired (intr_start c1)).
    { unfold kv in H1. injection H1 as _ Q2 _ Q4 _ _ _. rewrite Q2, Q4. auto. }
    match type of E with (match ?d with _ => _ end) = _ => destruct d as [|e] end.
    + apply some_pair_inv in E. destruct E as [<- _].
      match goal with |- XS _ (start_tcp_attempt ?x ?g) => destruct (start_tcp_attempt_XS x g (proj1 Hfn1) (proj2 Hfn1)) as [A B] end.
      split; [|exact B]. ks_S (Km_kv _ _ H1). eapply KmS_trans; [|exact A]. apply KmS_kv. reflexivity.
    + match type of E with context [timeout_exit ?x ?t ?ee] =>
        assert (Hx : KmS c1 x) by (apply KmS_kv; reflexivity);
        pose proof (kv_timeout_exit x t ee) as H2; destruct (timeout_exit x t ee) as [c2 e1] end.
      cbn [fst] in H2. apply some_inj in E.
      match type of E with start_fail ?x ?ee = _ => destruct (start_fail_XS x ee) as [A B]; rewrite E in A, B end.
      cbn [fst] in A, B. split; [|exact B]. ks_S (Km_kv _ _ H1). eapply KmS_trans; [exact Hx|]. ks_S (Km_kv _ _ H2). exact A.
  - destruct (_ || _); [|discriminate].
    pose proof (kv_take_cancel c TStart) as H1. destruct (take_cancel c TStart) as [c1 mc]. cbn [fst] in H1.
    assert (Hfn1 : start_fut c1 <> FNone /\ armed_or_fired (intr_start c1)).
    { unfold kv in H1. injection H1 as _ Q2 _ Q4 _ _ _. rewrite Q2, Q4. auto. }
    match type of E with (match ?d with _ => _ end) = _ => destruct d as [|e] end.
    + apply some_inj in E.
      match type of E with start_success ?x = _ => destruct (start_success_XS x) as [A B]; rewrite E in A, B;
        assert (Hx : KmS c1 x) by (apply KmS_kv; reflexivity) end.
      cbn [fst] in A, B. split; [|exact B]. ks_S (Km_kv _ _ H1). eapply KmS_trans; [exact Hx|exact A].
    + match type of E with context [timeout_exit ?x ?t ?ee] =>
        assert (Hx : kv x = kv c1) by reflexivity;
        pose proof (kv_timeout_exit x t ee) as H2; destruct (timeout_exit x t ee) as [c2 e1] end.
      cbn [fst] in H2.
      assert (H12 : KmS c c2) by (ks_S (Km_kv _ _ H1); ks_S (Km_kv _ _ Hx); apply Km_KmS, Km_kv; exact H2).
      assert (Hfn2 : start_fut c2 <> FNone /\ armed_or_fired (intr_start c2)).
      { rewrite Hx in H2. unfold kv in H2. injection H2 as _ Q2 _ Q4 _ _ _. rewrite Q2, Q4. exact Hfn1. }
      destruct (is_oserror e1).
      * destruct groups as [|[|g']].
        1,2: apply some_inj in E;
             match type of E with start_fail ?x ?ee = _ => destruct (start_fail_XS x ee) as [A B]; rewrite E in A, B end;
             cbn [fst] in A, B; (split; [|exact B]); eapply KmS_trans; eassumption.
        apply some_pair_inv in E. destruct E as [<- _]. destruct (start_tcp_attempt_XS c2 (S g') (proj1 Hfn2) (proj2 Hfn2)) as [A B].
        split; [|exact B]. eapply KmS_trans; eassumption.
      * apply some_inj in E.
        match type of E with start_fail ?x ?ee = _ => destruct (start_fail_XS x ee) as [A B]; rewrite E in A, B end.
        cbn [fst] in A, B. split; [|exact B]. eapply KmS_trans; eassumption.
Qed.

(* ---------------------------------------------------------------- finish_connection *)
Lemma finish_fail_XF c e : XF c (fst (finish_fail c e)).
Proof.
  unfold finish_fail.
  pose proof (kv_interrupt_exit c TFinish e) as H0. destruct (interrupt_exit c TFinish e) as [c0 e1]. cbn [fst] in H0.
  match goal with |- context [cleanup ?x] => pose proof (Km_cleanup x) as H1; assert (Hx : KmF c0 x) by (apply KmF_kv; reflexivity);
    destruct (cleanup x) as [c2 o] end.
  cbn [fst] in H1. unfold finish_task. cbn [fst]. split; [|cbn; discriminate].
  ks_F (Km_kv _ _ H0). eapply KmF_trans; [exact Hx|]. ks_F H1. ks_F (Km_set_finish_future c2). apply KmF_kv. reflexivity.
Qed.
Lemma finish_success_XF c : XF c (fst (finish_success c)).
Proof.
  unfold finish_success.
  match goal with |- context [set_finish_future ?x] => set (x0 := x); set (c2 := set_finish_future x0) end.
  assert (H2 : KmF c c2) by (apply (KmF_trans c x0); [apply KmF_kv; reflexivity|apply Km_KmF, Km_set_finish_future]).
  destruct (cs c2) eqn:Ecs.
  5: { pose proof (Km_cleanup c2) as H3. destruct (cleanup c2) as [c3 o]. cbn [fst] in H3. unfold finish_task. cbn [fst].
       split; [|cbn; discriminate]. eapply KmF_trans; [exact H2|]. ks_F H3. apply KmF_kv. reflexivity. }
  all: unfold finish_task; cbn [fst]; (split; [|cbn; discriminate]); (eapply KmF_trans; [exact H2|]);
       constructor; [reflexivity|reflexivity|]; cbn;
       (split; [left; reflexivity|]); (split; [left; reflexivity|]); intro Q; discriminate.
Qed.
Lemma kv_internal_handlers c : kv (internal_handlers c) = kv c.
Proof. unfold internal_handlers. rewrite !kv_add. reflexivity. Qed.

Lemma finish_after_ready_XF c : finish_fut c <> FNone -> armed_or_fired (intr_finish c) -> XF c (fst (finish_after_ready c)).
Proof.
  intros Hfn Hai. unfold finish_after_ready. set (c0 := c <| hs_timer := None |>).
  assert (H0 : KmF c c0) by (apply KmF_kv; reflexivity).
  destruct (cs c0) eqn:Ecs.
  5: { destruct (finish_fail_XF c0 Interrupted) as [A B]. split; [|exact B]. eapply KmF_trans; eassumption. }
  all: match goal with |- context [call_begin (internal_handlers ?y) ?a ?b ?d ?e ?f ?g] =>
         assert (Hy : KmF c0 y) by
           (constructor; [reflexivity|reflexivity|]; cbn; (split; [left; reflexivity|]); (split; [left; reflexivity|]); intro Q; discriminate);
         assert (Hx : Km y (internal_handlers y)) by (apply Km_kv, kv_internal_handlers);
         pose proof (Km_call_begin (internal_handlers y) a b d e f g) as HB;
         assert (Hfy : finish_fut y <> FNone /\ armed_or_fired (intr_finish y)) by (split; [exact Hfn|exact Hai]);
         destruct (call_begin (internal_handlers y) a b d e f g) as [[[c2 o] ex] cid] end;
       cbn [fst] in HB;
       assert (H02 : KmF c c2) by (eapply KmF_trans; [exact H0|]; eapply KmF_trans; [exact Hy|]; ks_F Hx; apply Km_KmF; exact HB);
       (destruct ex as [e|];
        [ destruct (finish_fail_XF c2 e) as [A B]; destruct (finish_fail c2 e) as [c3 o3]; cbn [fst] in *;
          (split; [|exact B]); eapply KmF_trans; eassumption
        | cbn [fst]; (split; [exact H02|]); intros _;
          destruct Hfy as [Q1 Q2]; pose proof (Km_trans _ _ _ Hx HB) as Hyc;
          (split; [eapply fkeep_none; [apply (km_st _ _ Hyc)|exact Q1]|rewrite (km_if _ _ Hyc); exact Q2]) ]).
Qed.

Ltac finK E L := apply some_inj in E; let A := fresh "A" in let B := fresh "B" in destruct L as [A B]; rewrite E in A, B; cbn [fst] in A, B.

Lemma wake_finish_XF c c' o : wake_finish c = Some (c', o) -> CK2 c -> XF c c'.
Proof.
  unfold wake_finish. cbn [get_task]. intros E HK.
  destruct (pc (t_finish c)) eqn:Epc; try discriminate.
  all: destruct (k_f _ HK ltac:(rewrite Epc; reflexivity)) as [Hfn Hai].
  - (* PF_Create *)
    destruct (_ || _); [|discriminate].
    pose proof (kv_take_cancel c TFinish) as H1. destruct (take_cancel c TFinish) as [c1 mc]. cbn [fst] in H1.
    assert (Hfn1 : finish_fut c1 <> FNone /\ armed_or_fired (intr_finish c1)).
    { unfold kv in H1. injection H1 as _ _ Q3 _ Q5 _ _. rewrite Q3, Q5. auto. }
    match type of E with (match ?d with _ => _ end) = _ => destruct d as [|e] end.
    + match type of E with context [ready ?x] => set (c2 := x) in *; assert (H2 : KmF c c2) by (ks_F (Km_kv _ _ H1); apply KmF_kv; reflexivity) end.
      destruct (ready c2).
      * apply some_pair_inv in E. destruct E as [<- _]. split; [eapply KmF_trans; [exact H2|apply KmF_kv; reflexivity]|]. intros _. cbn. exact Hfn1.
      * finK E (finish_after_ready_XF c2 (proj1 Hfn1) (proj2 Hfn1)). split; [|exact B]. eapply KmF_trans; eassumption.
      * match type of E with Some (finish_fail ?x ?ee) = _ => finK E (finish_fail_XF x ee) end. split; [|exact B]. eapply KmF_trans; eassumption.
      * match type of E with Some (finish_fail ?x ?ee) = _ => finK E (finish_fail_XF x ee) end. split; [|exact B]. eapply KmF_trans; eassumption.
    + match type of E with context [finish_fail ?x ?ee] =>
        assert (H2 : KmF c x) by (ks_F (Km_kv _ _ H1); destruct (transport c1); apply KmF_kv; reflexivity);
        destruct (finish_fail_XF x ee) as [A B]; destruct (finish_fail x ee) as [c3 o3] end.
      cbn [fst] in A, B. apply some_pair_inv in E. destruct E as [<- _]. split; [|exact B]. eapply KmF_trans; eassumption.
  - (* PF_Ready *)
    destruct (_ || _); [|discriminate].
    pose proof (kv_take_cancel c TFinish) as H1. destruct (take_cancel c TFinish) as [c1 mc]. cbn [fst] in H1.
    assert (Hfn1 : finish_fut c1 <> FNone /\ armed_or_fired (intr_finish c1)).
    { unfold kv in H1. injection H1 as _ _ Q3 _ Q5 _ _. rewrite Q3, Q5. auto. }
    assert (H2 : KmF c c1) by (apply Km_KmF, Km_kv; exact H1).
    destruct mc.
    + match type of E with Some (finish_fail ?x ?ee) = _ => finK E (finish_fail_XF x ee) end. split; [|exact B]. eapply KmF_trans; eassumption.
    + destruct (ready c1).
      * match type of E with Some (finish_fail ?x ?ee) = _ => finK E (finish_fail_XF x ee) end. split; [|exact B]. eapply KmF_trans; eassumption.
      * finK E (finish_after_ready_XF c1 (proj1 Hfn1) (proj2 Hfn1)). split; [|exact B]. eapply KmF_trans; eassumption.
      * match type of E with Some (finish_fail ?x ?ee) = _ => finK E (finish_fail_XF x ee) end. split; [|exact B]. eapply KmF_trans; eassumption.
      * match type of E with Some (finish_fail ?x ?ee) = _ => finK E (finish_fail_XF x ee) end. split; [|exact B]. eapply KmF_trans; eassumption.
  - (* PF_Hello *)
    destruct (get_call c cid) as [kk|]; [|discriminate].
    destruct (_ || _); [|discriminate].
    pose proof (kv_take_cancel c TFinish) as H1. destruct (take_cancel c TFinish) as [c1 mc]. cbn [fst] in H1.
    assert (H2 : KmF c (call_finally c1 cid)) by (apply Km_KmF, Km_kv; rewrite kv_call_finally; exact H1).
    match type of E with (match ?d with _ => _ end) = _ => destruct d as [|e] end.
    + destruct (check_hello_login _ _).
      * match type of E with Some (finish_fail ?x ?ee) = _ => finK E (finish_fail_XF x ee) end. split; [|exact B]. eapply KmF_trans; eassumption.
      * match type of E with Some (finish_success ?x) = _ => finK E (finish_success_XF x) end. split; [|exact B]. eapply KmF_trans; eassumption.
    + match type of E with Some (finish_fail ?x ?ee) = _ => finK E (finish_fail_XF x ee) end. split; [|exact B]. eapply KmF_trans; eassumption.
Qed.

(* ---------------------------------------------------------------- disconnect() and calls *)
Lemma Km_disconnect_after_wait c : Km c (fst (disconnect_after_wait c)).
Proof.
  unfold disconnect_after_wait. set (c1 := c <| expected_disconnect := true |>).
  assert (H0 : Km c c1) by (apply Km_kv; reflexivity).
  destruct (handshake_complete c1).
  - match goal with |- context [call_begin ?x ?a ?b ?d ?e ?f ?g] =>
      pose proof (Km_call_begin x a b d e f g) as HB; destruct (call_begin x a b d e f g) as [[[c2 o] ex] cid] end.
    cbn [fst] in HB.
    destruct ex as [[l| | | | |]|].
    2-6: unfold finish_task; cbn [fst]; eapply Km_trans; [exact H0|]; eapply Km_trans; [exact HB|apply Km_kv; reflexivity].
    + pose proof (Km_cleanup c2) as H3. destruct (cleanup c2) as [c3 o3]. cbn [fst] in H3.
      unfold finish_task. cbn [fst]. eapply Km_trans; [exact H0|]. eapply Km_trans; [exact HB|]. eapply Km_trans; [exact H3|apply Km_kv; reflexivity].
    + cbn [fst]. eapply Km_trans; [exact H0|]. eapply Km_trans; [exact HB|apply Km_kv; reflexivity].
  - pose proof (Km_cleanup c1) as H3. destruct (cleanup c1) as [c3 o3]. cbn [fst] in H3.
    unfold finish_task. cbn [fst]. eapply Km_trans; [exact H0|]. eapply Km_trans; [exact H3|apply Km_kv; reflexivity].
Qed.
Lemma Km_wake_disc c c' o : wake_disc c = Some (c', o) -> Km c c'.
Proof.
  unfold wake_disc. cbn [get_task]. intros E.
  destruct (pc (t_disc c)); try discriminate.
  - destruct (_ || _); [|discriminate].
    pose proof (kv_take_cancel c TDisc) as H1. destruct (take_cancel c TDisc) as [c1 mc]. cbn [fst] in H1.
    destruct mc.
    + apply some_pair_inv in E. destruct E as [<- _]. apply Km_kv. rewrite <- H1. reflexivity.
    + apply some_inj in E. match type of E with disconnect_after_wait ?x = _ =>
        pose proof (Km_disconnect_after_wait x) as H3; rewrite E in H3; assert (Hx : kv x = kv c1) by (repeat dm; reflexivity) end.
      cbn [fst] in H3. eapply Km_trans; [apply Km_kv; rewrite Hx; exact H1|exact H3].
  - destruct (get_call c cid) as [kk|]; [|discriminate].
    destruct (_ || _); [|discriminate].
    pose proof (kv_take_cancel c TDisc) as H1. destruct (take_cancel c TDisc) as [c1 mc]. cbn [fst] in H1.
    assert (H2 : Km c (call_finally c1 cid)) by (apply Km_kv; rewrite kv_call_finally; exact H1).
    match type of E with (match ?d with _ => _ end) = _ => destruct d as [|[l| | | | |]] end.
    3-7: apply some_pair_inv in E; destruct E as [<- _]; eapply Km_trans; [exact H2|apply Km_kv; reflexivity].
    all: match type of E with context [cleanup ?x] => pose proof (Km_cleanup x) as H4; destruct (cleanup x) as [c3 o3] end; cbn [fst] in H4;
         unfold finish_task in E; apply some_pair_inv in E; destruct E as [<- _];
         eapply Km_trans; [exact H2|]; eapply Km_trans; [exact H4|apply Km_kv; reflexivity].
Qed.
Lemma kv_wake_call c cid c' o : wake_call c cid = Some (c', o) -> kv c' = kv c.
Proof.
  unfold wake_call. intros E.
  destruct (pc (get_task c (TCall cid))); try discriminate.
  destruct (get_call c cid) as [kk|]; [|discriminate].
  destruct (_ || _); [|discriminate].
  pose proof (kv_take_cancel c (TCall cid)) as H1. destruct (take_cancel c (TCall cid)) as [c1 mc]. cbn [fst] in H1.
  apply some_pair_inv in E. destruct E as [<- _]. rewrite kv_set_task_other by discriminate. rewrite kv_call_finally. exact H1.
Qed.

(* ---------------------------------------------------------------- every step *)
Ltac sameK E H := apply some_pair_inv in E; destruct E as [<- _]; first [exact H | eapply CK2_Km; [|exact H]; apply Km_kv; reflexivity].

Theorem step_CK2 c l c' o : CK2 c -> step c l = Some (c', o) -> CK2 c'.
Proof.
  intros H E. destruct l; cbn [step] in E.
  - (* LStart *) destruct (cs c) eqn:Ecs; try sameK E H. destruct (pc (t_start c)); try discriminate.
    apply some_pair_inv in E. destruct E as [<- _]. destruct H as [B1 B2 B3]. constructor; cbn.
    + rewrite Ecs. discriminate.
    + intros _. split; [discriminate|left; reflexivity].
    + exact B3.
  - (* LFinish *) destruct (cs c) eqn:Ecs; try sameK E H. destruct (pc (t_finish c)); try discriminate.
    apply some_pair_inv in E. destruct E as [<- _]. destruct H as [B1 B2 B3]. constructor; cbn.
    + rewrite Ecs. discriminate.
    + exact B2.
    + intros _. split; [discriminate|left; reflexivity].
  - (* LDisconnect *)
    destruct (pc (t_disc c)); try discriminate. destruct (finish_fut c) eqn:Ef.
    2: sameK E H.
    all: apply some_inj in E; match type of E with disconnect_after_wait ?x = _ => pose proof (Km_disconnect_after_wait x) as H3; rewrite E in H3 end;
         cbn [fst] in H3; eapply CK2_Km; [exact H3|]; eapply CK2_Km; [|exact H]; apply Km_kv; reflexivity.
  - (* LForce *)
    set (c1 := c <| expected_disconnect := true |>) in *.
    assert (H0 : CK2 c1) by (eapply CK2_Km; [|exact H]; apply Km_kv; reflexivity).
    destruct (handshake_complete c1).
    + pose proof (Km_send_messages c1 [T_DISC_REQ]) as S. destruct (send_messages c1 [T_DISC_REQ]) as [[c2 o2] ex]. cbn [fst] in S.
      pose proof (CK2_Km _ _ S H0) as H2.
      destruct ex as [[l| | | | |]|].
      2-6: apply some_pair_inv in E; destruct E as [<- _]; exact H2.
      all: pose proof (Km_cleanup c2) as S2'; destruct (cleanup c2) as [c3 o3]; cbn [fst] in S2';
           apply some_pair_inv in E; destruct E as [<- _]; eapply CK2_Km; eassumption.
    + pose proof (Km_cleanup c1) as S2'. destruct (cleanup c1) as [c3 o3]. cbn [fst] in S2'.
      apply some_pair_inv in E. destruct E as [<- _]. eapply CK2_Km; eassumption.
  - (* LCallStart *)
    match type of E with context [call_begin ?x ?a ?b ?d ?e ?f ?g] =>
      assert (H0 : CK2 x) by (eapply CK2_Km; [|exact H]; apply Km_kv; reflexivity);
      pose proof (Km_call_begin x a b d e f g) as HB; destruct (call_begin x a b d e f g) as [[[c1 o1] ex] cid'] end.
    cbn [fst] in HB. pose proof (CK2_Km _ _ HB H0) as H1.
    destruct ex as [e|]; apply some_pair_inv in E; destruct E as [<- _]; [|exact H1].
    cbn [finish_task fst]. eapply CK2_Km; [|exact H1]. apply Km_kv. rewrite kv_set_task_other by discriminate. reflexivity.
  - (* LSend *)
    pose proof (Km_send_messages c tys) as S. destruct (send_messages c tys) as [[c1 o1] ex]. cbn [fst] in S.
    apply some_pair_inv in E. destruct E as [<- _]. eapply CK2_Km; eassumption.
  - (* LCancel *)
    destruct (task_running _); [|sameK E H].
    apply some_pair_inv in E. destruct E as [<- _]. eapply CK2_Km; [|exact H]. apply Km_kv. rewrite kv_cancel_task. apply kv_set_task_same. reflexivity.
  - (* LSub *) apply some_pair_inv in E. destruct E as [<- _]. eapply CK2_Km; [apply Km_kv, kv_add|exact H].
  - (* LUnsub *) sameK E H.
  - (* LResolveDone *) destruct (pc (t_start c)); try discriminate. destruct (do_connect c); try discriminate. sameK E H.
  - (* LTcpDone *) destruct (pc (t_start c)); try discriminate. destruct (do_connect c); try discriminate. sameK E H.
  - (* LMade *) destruct (transport c); try discriminate. destruct (made c); try discriminate. destruct (noise c); sameK E H.
  - (* LMadeWaiter *) destruct (made_waiter c); try discriminate; sameK E H.
  - (* LHelperReady *)
    destruct (ready c); try discriminate. destruct (made c); try discriminate. destruct (transport c) eqn:Etr; try discriminate.
    destruct r as [e|]; [|sameK E H].
    pose proof (Km_helper_error c e) as S. destruct (helper_error c e) as [c1 o1]. cbn [fst] in S.
    pose proof (CK2_Km _ _ S H) as H1.
    destruct (transport c1); apply some_pair_inv in E; destruct E as [<- _]; first [exact H1 | eapply CK2_Km; [|exact H1]; apply Km_kv; reflexivity].
  - (* LData *)
    destruct (transport c); try discriminate. destruct (made c); try discriminate.
    pose proof (Km_data_loop items c) as S.
    destruct (data_loop c items) as [[c1 o1] ex]. cbn [fst] in S. pose proof (CK2_Km _ _ S H) as H1.
    destruct ex as [e|]; apply some_pair_inv in E; destruct E as [<- _]; [|exact H1].
    destruct (transport c1); first [exact H1 | eapply CK2_Km; [|exact H1]; apply Km_kv; reflexivity].
  - (* LEof *)
    destruct (transport c); try discriminate. destruct (made c); try discriminate.
    pose proof (Km_helper_error c (Lib LSocketClosed)) as S.
    destruct (helper_error c (Lib LSocketClosed)) as [c1 o1]. cbn [fst] in S. pose proof (CK2_Km _ _ S H) as H1.
    destruct (transport c1); apply some_pair_inv in E; destruct E as [<- _]; first [exact H1 | eapply CK2_Km; [|exact H1]; apply Km_kv; reflexivity].
  - (* LLost *) destruct (transport c); try discriminate. sameK E H.
  - (* LWriteFails *) sameK E H.
  - (* LAdvance *) destruct (_ && _); [|discriminate]. sameK E H.
  - (* LWake *)
    destruct t.
    + destruct (wake_start_XS c c' o E H) as [A B]. eapply CK2_KmS; eassumption.
    + destruct (wake_finish_XF c c' o E H) as [A B]. eapply CK2_KmF; eassumption.
    + eapply CK2_Km; [eapply Km_wake_disc; exact E|exact H].
    + eapply CK2_Km; [apply Km_kv; eapply kv_wake_call; exact E|exact H].
  - (* LIntr *)
    destruct is_start.
    + destruct (start_fut c) eqn:Es; try discriminate. destruct (intr_start c) eqn:Ei; try discriminate; [|sameK E H].
      apply some_pair_inv in E. destruct E as [<- _].
      match goal with |- CK2 (cancel_task ?x TStart) => eapply (CK2_Km x); [apply Km_kv, kv_cancel_task|] end.
      destruct H as [B1 B2 B3]. constructor; cbn; [exact B1| |exact B3].
      intro Hp. split; [rewrite Es; discriminate|right; reflexivity].
    + destruct (finish_fut c) eqn:Es; try discriminate. destruct (intr_finish c) eqn:Ei; try discriminate; [|sameK E H].
      apply some_pair_inv in E. destruct E as [<- _].
      match goal with |- CK2 (cancel_task ?x TFinish) => eapply (CK2_Km x); [apply Km_kv, kv_cancel_task|] end.
      destruct H as [B1 B2 B3]. constructor; cbn; [exact B1|exact B2|].
      intro Hp. split; [rewrite Es; discriminate|right; reflexivity].
  - (* LDiscWaitDone *)
    destruct (pc (t_disc c)); try discriminate.
    destruct (finish_fut c); try discriminate; destruct (disc_wait_done c); try discriminate; sameK E H.
  - (* LConnLostCb *)
    destruct (transport c); try discriminate.
    match type of E with context [made ?x] => set (c1 := x) in *; assert (H0 : CK2 c1) by (eapply CK2_Km; [|exact H]; apply Km_kv; reflexivity) end.
    destruct (made c1); [|sameK E H].
    apply some_inj in E. match type of E with helper_error c1 ?x = _ => pose proof (Km_helper_error c1 x) as S end.
    rewrite E in S. cbn [fst] in S. eapply CK2_Km; eassumption.
  - (* LTimer *)
    destruct k.
    + destruct (due _ _); [|discriminate].
      set (c0 := c <| ping_timer := None |>) in *. assert (H0 : CK2 c0) by (eapply CK2_Km; [|exact H]; apply Km_kv; reflexivity).
      destruct (send_pending_ping c0); [|sameK E H].
      pose proof (Km_send_messages c0 [T_PING_REQ]) as S. destruct (send_messages c0 [T_PING_REQ]) as [[c1 o1] ex]. cbn [fst] in S.
      pose proof (CK2_Km _ _ S H0) as H1.
      destruct ex as [e|]; apply some_pair_inv in E; destruct E as [<- _]; [exact H1|].
      eapply CK2_Km; [|exact H1]. apply Km_kv. destruct (pong_timer c1); reflexivity.
    + destruct (due _ _); [|discriminate]. apply some_inj in E.
      pose proof (Km_report_fatal c (Lib LPingFailed)) as S. rewrite E in S. eapply CK2_Km; eassumption.
    + destruct (due _ _); [|discriminate]. destruct (ready c); sameK E H.
    + destruct (due _ _); [|discriminate].
      apply some_pair_inv in E. destruct E as [<- _]. eapply CK2_Km; [|exact H]. apply Km_kv. rewrite kv_cancel_task. reflexivity.
    + destruct (get_call c cid) as [kk|]; [|discriminate]. destruct (due _ _); [|discriminate]. sameK E H.
    + destruct (pc (t_disc c)); try discriminate. destruct (due _ _); [|discriminate]. sameK E H.
Qed.

Lemma CK2_init n e ka scr : CK2 (init n e ka scr).
Proof. constructor; cbn; try discriminate. Qed.
Lemma run_CK2 ls : forall c c' os, CK2 c -> run c ls = Some (c', os) -> CK2 c'.
Proof.
  induction ls as [|l ls IH]; intros c c' os H E; cbn [run] in E.
  - apply some_pair_inv in E. destruct E as [<- _]. exact H.
  - destruct (step c l) as [[c1 o]|] eqn:Es; [|discriminate].
    destruct (run c1 ls) as [[c2 os2]|] eqn:Er; [|discriminate].
    apply some_pair_inv in E. destruct E as [<- _]. eapply IH; [|exact Er]. eapply step_CK2; eassumption.
Qed.

(* on a closed connection a suspended connect coroutine has been interrupted already, or its interrupt callback is enabled
   and leaves it resumable *)
Theorem closed_start_interruptible n e ka scr ls c os :
  run (init n e ka scr) ls = Some (c, os) -> cs c = Closed -> phase_running (pc (t_start c)) = true ->
  intr_start c = IFired \/ exists c', step c (LIntr true) = Some (c', []) /\ ready_now c' TStart.
Proof.
  intros E Hc Hp. pose proof (run_CK2 ls _ _ _ (CK2_init n e ka scr) E) as [B1 B2 B3].
  destruct (B1 Hc) as [Q1 _]. destruct (B2 Hp) as [Q2 [Q3|Q3]]; [right|left; exact Q3].
  cbn [step]. destruct (start_fut c) eqn:Es; try contradiction. rewrite Q3.
  eexists. split; [reflexivity|].
  destruct (run_GA ls _ _ _ (CI_init n e ka scr) (GA_init n e ka scr) E) as [_ HG]. pose proof (HG TStart) as G.
  match goal with |- ready_now (cancel_task ?x TStart) TStart =>
    pose proof (cancel_task_start x) as H2; pose proof (m_t _ _ (M_cancel_task x TStart) TStart) as [Ep2 _] end.
  cbn [get_task t_start set pc] in H2, Ep2. unfold ready_now. cbn [get_task]. rewrite Ep2. cbn [t_start set pc].
  unfold tguard in G. cbn [get_task] in G.
  destruct (pc (t_start c)); try discriminate; try contradiction; destruct H2 as [H2|H2]; [left; exact H2|right; exact H2|left; exact H2|right; exact H2].
Qed.

Theorem closed_finish_interruptible n e ka scr ls c os :
  run (init n e ka scr) ls = Some (c, os) -> cs c = Closed -> phase_running (pc (t_finish c)) = true ->
  intr_finish c = IFired \/ exists c', step c (LIntr false) = Some (c', []).
Proof.
  intros E Hc Hp. pose proof (run_CK2 ls _ _ _ (CK2_init n e ka scr) E) as [B1 B2 B3].
  destruct (B1 Hc) as [_ Q1]. destruct (B3 Hp) as [Q2 [Q3|Q3]]; [right|left; exact Q3].
  cbn [step]. destruct (finish_fut c) eqn:Es; try contradiction. rewrite Q3.
  eexists. reflexivity.
Qed.

(* the wait of disconnect() for the connect phase is over, or can be released right now *)
Theorem closed_disconnect_wait_released n e ka scr ls c os :
  run (init n e ka scr) ls = Some (c, os) -> cs c = Closed -> pc (t_disc c) = PD_Wait ->
  disc_wait_done c = true \/ step c LDiscWaitDone <> None.
Proof.
  intros E Hc Hp. pose proof (run_CK2 ls _ _ _ (CK2_init n e ka scr) E) as [B1 _ _].
  destruct (B1 Hc) as [_ Q1]. destruct (disc_wait_done c) eqn:Ed; [left; reflexivity|right].
  cbn [step]. rewrite Hp, Ed. destruct (finish_fut c); try discriminate. exfalso. apply Q1. reflexivity.
Qed.

(* a cancel always leaves the cancelled coroutine resumable: what it awaited is cancelled, or the pending-cancel flag is up *)
Lemma cancel_task_ready c t : task_running (get_task c t) = true -> ready_now (cancel_task c t) t.
Proof.
  intro Hr. unfold cancel_task. rewrite Hr. cbn [negb].
  assert (Hex : exists_task c t) by (apply pc_exists_task; intro Hp; unfold task_running in Hr; rewrite Hp in Hr; discriminate).
  set (k1 := get_task c t <| ncancel := S (ncancel (get_task c t)) |>).
  pose proof (cancel_awaited_tasks c t k1 t) as HT.
  assert (Hex1 : exists_task (fst (cancel_awaited c t k1)) t).
  { apply pc_exists_task. rewrite HT. intro Hp. unfold task_running in Hr. rewrite Hp in Hr. discriminate. }
  unfold ready_now.
  destruct (cancel_awaited c t k1) as [c1 d] eqn:Eca. cbn [fst] in HT, Hex1.
  destruct d.
  - (* delivered *)
    match goal with |- context [set_task c1 t ?k'] => destruct (set_task_facts c1 t k' Hex1) as (Hself & _); rewrite Hself;
      destruct (set_task_fields c1 t k') as (_ & _ & _ & F4 & F5 & F6 & F7) end.
    unfold cancel_awaited in Eca. cbn [pc set k1] in Eca |- *.
    destruct (pc (get_task c t)) eqn:Ep; cbn [pc set must_cancel]; try (unfold task_running in Hr; rewrite Ep in Hr; discriminate).
    + destruct (do_connect c) eqn:Ed; cbn in Eca; apply pair_inv in Eca; destruct Eca as [<- Q]; try discriminate. right. rewrite F5. cbn. discriminate.
    + destruct (do_connect c) eqn:Ed; cbn in Eca; apply pair_inv in Eca; destruct Eca as [<- Q]; try discriminate. right. rewrite F5. cbn. discriminate.
    + destruct (made_waiter c) eqn:Ed; cbn in Eca; apply pair_inv in Eca; destruct Eca as [<- Q]; try discriminate. right.
      destruct t; cbn; discriminate.
    + destruct (ready c) eqn:Ed; apply pair_inv in Eca; destruct Eca as [<- Q]; try discriminate. right. rewrite F6. cbn. discriminate.
    + destruct (get_call c cid) as [kk|] eqn:G; [|apply pair_inv in Eca; destruct Eca as [_ Q]; discriminate].
      destruct (c_fut kk) eqn:Ef; apply pair_inv in Eca; destruct Eca as [<- Q]; try discriminate. right.
      unfold get_call. rewrite F7. cbn [calls upd_call set]. rewrite find_map_id by (intro x; destruct (Nat.eqb (c_id x) cid); reflexivity).
      unfold get_call in G. rewrite G. cbn [option_map]. eexists. split; [reflexivity|].
      apply find_some in G. destruct G as [_ G]. rewrite G. reflexivity.
    + left. reflexivity.
    + destruct (get_call c cid) as [kk|] eqn:G; [|apply pair_inv in Eca; destruct Eca as [_ Q]; discriminate].
      destruct (c_fut kk) eqn:Ef; apply pair_inv in Eca; destruct Eca as [<- Q]; try discriminate. right.
      unfold get_call. rewrite F7. cbn [calls upd_call set]. rewrite find_map_id by (intro x; destruct (Nat.eqb (c_id x) cid); reflexivity).
      unfold get_call in G. rewrite G. cbn [option_map]. eexists. split; [reflexivity|].
      apply find_some in G. destruct G as [_ G]. rewrite G. reflexivity.
    + destruct (get_call c cid) as [kk|] eqn:G; [|apply pair_inv in Eca; destruct Eca as [_ Q]; discriminate].
      destruct (c_fut kk) eqn:Ef; apply pair_inv in Eca; destruct Eca as [<- Q]; try discriminate. right.
      unfold get_call. rewrite F7. cbn [calls upd_call set]. rewrite find_map_id by (intro x; destruct (Nat.eqb (c_id x) cid); reflexivity).
      unfold get_call in G. rewrite G. cbn [option_map]. eexists. split; [reflexivity|].
      apply find_some in G. destruct G as [_ G]. rewrite G. reflexivity.
  - (* not delivered: the pending-cancel flag is raised *)
    match goal with |- context [set_task c1 t ?k'] => destruct (set_task_facts c1 t k' Hex1) as (Hself & _); rewrite Hself end.
    left. reflexivity.
Qed.

Theorem closed_finish_interruptible_ready n e ka scr ls c os :
  run (init n e ka scr) ls = Some (c, os) -> cs c = Closed -> phase_running (pc (t_finish c)) = true ->
  intr_finish c = IFired \/ exists c', step c (LIntr false) = Some (c', []) /\ ready_now c' TFinish.
Proof.
  intros E Hc Hp. pose proof (run_CK2 ls _ _ _ (CK2_init n e ka scr) E) as [B1 B2 B3].
  destruct (B1 Hc) as [_ Q1]. destruct (B3 Hp) as [Q2 [Q3|Q3]]; [right|left; exact Q3].
  cbn [step]. destruct (finish_fut c) eqn:Es; try contradiction. rewrite Q3.
  eexists. split; [reflexivity|]. apply cancel_task_ready. cbn [get_task t_finish set]. unfold task_running. cbn.
  destruct (pc (t_finish c)); try discriminate; reflexivity.
Qed.
