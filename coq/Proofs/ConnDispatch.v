(* C12: dispatch of one incoming packet (process_packet / run_handlers of Model/Conn.v). *)
From Coq Require Import NArith ZArith List Bool Lia.
From RecordUpdate Require Import RecordSet.
From Verif Require Import Generated.GenRegistry Generated.GenConstants Model.Conn Proofs.ConnSync Proofs.ConnQuiet.
Import ListNotations RecordSetNotations.
Open Scope Z_scope.
Open Scope list_scope.

Definition deliveries (o : list obs) : list (nat * msg) :=
  flat_map (fun x => match x with ODeliver u m => [(u, m)] | _ => [] end) o.
Definition users_of (hs : list hid) : list nat :=
  flat_map (fun h => match h with HUser u => [u] | _ => [] end) hs.

Lemma deliveries_app a b : deliveries (a ++ b) = deliveries a ++ deliveries b.
Proof. apply flat_map_app. Qed.

Lemma deliveries_helper_close c : deliveries (snd (helper_close c)) = [].
Proof. unfold helper_close. repeat dm; reflexivity. Qed.
Lemma deliveries_release c : deliveries (snd (release_resources c)) = [].
Proof.
  unfold release_resources. destruct (helper c).
  - destruct (socket c); reflexivity.
  - pose proof (deliveries_helper_close c) as D. destruct (helper_close c) as [c' o]. cbn [snd] in D.
    destruct (socket _); cbn [snd]; rewrite ?deliveries_app, D; reflexivity.
  - pose proof (deliveries_helper_close c) as D. destruct (helper_close c) as [c' o]. cbn [snd] in D.
    destruct (socket _); cbn [snd]; rewrite ?deliveries_app, D; reflexivity.
Qed.
Lemma deliveries_cleanup c : deliveries (snd (cleanup c)) = [].
Proof.
  unfold cleanup. destruct (cs c); try apply deliveries_release.
  all: match goal with |- context [release_resources ?x] =>
         pose proof (deliveries_release x) as D; destruct (release_resources x) as [c4 o] end; cbn [snd] in D;
       destruct (on_stop_armed c4 && _); cbn [snd]; rewrite ?deliveries_app, D; reflexivity.
Qed.
Lemma deliveries_report_fatal c e : deliveries (snd (report_fatal c e)) = [].
Proof. unfold report_fatal. destruct (fatal c); apply deliveries_cleanup. Qed.
Lemma deliveries_send c tys : deliveries (snd (fst (send_messages c tys))) = [].
Proof.
  unfold send_messages. destruct (negb (handshake_complete c)); [reflexivity|].
  destruct (write_fails c).
  - pose proof (deliveries_report_fatal c (Lib LSocketClosed)) as D. destruct (report_fatal c (Lib LSocketClosed)) as [c1 o]. exact D.
  - destruct (transport c); reflexivity.
Qed.

Lemma deliveries_call_handler c h m :
  deliveries (snd (fst (call_handler c h m))) = match h with HUser u => [(u, m)] | _ => [] end.
Proof.
  destruct h; cbn [call_handler].
  - match goal with |- context [send_messages ?x ?t] => pose proof (deliveries_send x t) as D; destruct (send_messages x t) as [[c2 o] ex] end.
    cbn [fst snd] in D. destruct ex; cbn [fst snd]; [exact D|].
    pose proof (deliveries_cleanup c2) as D2. destruct (cleanup c2) as [c3 o3]. cbn [fst snd] in *. rewrite deliveries_app, D, D2. reflexivity.
  - apply deliveries_send.
  - apply deliveries_send.
  - reflexivity.
  - reflexivity.
Qed.

(* every subscriber in the snapshot taken when the dispatch starts is called exactly once, in snapshot order,
   whatever the subscribers do to the handler table while they run (their scripts act on the state, not on hs) *)
Theorem dispatch_exactly_once hs m : forall c c' o,
  run_handlers c hs m = (c', o, None) -> deliveries o = map (fun u => (u, m)) (users_of hs).
Proof.
  induction hs as [|h hs IH]; intros c c' o E; cbn [run_handlers] in E.
  - injection E as _ <-. reflexivity.
  - pose proof (deliveries_call_handler c h m) as D. destruct (call_handler c h m) as [[c1 o1] ex]. cbn [fst snd] in D.
    destruct ex; [discriminate|].
    destruct (run_handlers c1 hs m) as [[c2 o2] ex2] eqn:E2. injection E as _ <- ->.
    rewrite deliveries_app, D, (IH _ _ _ E2).
    destruct h; reflexivity.
Qed.

(* if a handler raises (only the internal responders can: their write fails) the deliveries made so far
   are a prefix of the snapshot *)
Theorem dispatch_prefix hs m : forall c c' o ex,
  run_handlers c hs m = (c', o, ex) -> exists k, deliveries o = map (fun u => (u, m)) (firstn k (users_of hs)).
Proof.
  induction hs as [|h hs IH]; intros c c' o ex E; cbn [run_handlers] in E.
  - injection E as _ <- _. exists 0%nat. reflexivity.
  - pose proof (deliveries_call_handler c h m) as D. destruct (call_handler c h m) as [[c1 o1] ex1]. cbn [fst snd] in D.
    destruct ex1.
    + injection E as _ <- _. destruct h; try (exists 0%nat; rewrite D; reflexivity). exists 1%nat. rewrite D. reflexivity.
    + destruct (run_handlers c1 hs m) as [[c2 o2] ex2] eqn:E2. injection E as _ <- _.
      destruct (IH _ _ _ _ E2) as [k Hk]. rewrite deliveries_app, D, Hk.
      destruct h; try (exists k; reflexivity). exists (S k). reflexivity.
Qed.

Definition snapshot (c : conn) (ty : N) : list hid := map snd (filter (fun p => N.eqb (fst p) ty) (handlers c)).

(* process_packet, the four cases of the property *)
Theorem unknown_type_ignored c m : registered (m_ty m) = false -> process_packet c m = (c, [], None).
Proof. intro H. unfold process_packet. rewrite H. destruct (cs c); reflexivity. Qed.

Theorem registered_iff ty : registered ty = true <-> (1 <= ty <= N.of_nat (length registry))%N.
Proof. unfold registered. rewrite andb_true_iff, !N.leb_le. tauto. Qed.

Lemma release_keeps c :
  fatal (fst (release_resources c)) = fatal c /\ on_stop_armed (fst (release_resources c)) = on_stop_armed c /\
  expected_disconnect (fst (release_resources c)) = expected_disconnect c.
Proof. unfold release_resources, helper_close. repeat dm; cbn; auto. Qed.

Lemma futs_keep c :
  fatal (set_finish_future (set_start_future c)) = fatal c /\
  on_stop_armed (set_finish_future (set_start_future c)) = on_stop_armed c /\
  expected_disconnect (set_finish_future (set_start_future c)) = expected_disconnect c.
Proof. unfold set_finish_future, set_start_future. destruct (start_fut c); cbn; destruct (finish_fut c); cbn; auto. Qed.

Lemma cleanup_fatal c : fatal (fst (cleanup c)) = fatal c.
Proof.
  unfold cleanup. destruct (cs c); try apply release_keeps;
  cbn zeta; match goal with |- context [release_resources (set_finish_future (set_start_future ?x))] =>
         destruct (release_keeps (set_finish_future (set_start_future x))) as (Q & _); destruct (futs_keep x) as (Q' & _);
         destruct (release_resources (set_finish_future (set_start_future x))) as [c4 o4] end; cbn [fst] in Q;
       destruct (on_stop_armed c4 && _); cbn [fst]; cbn; rewrite ?Q, ?Q'; reflexivity.
Qed.

Theorem bad_payload_closes c m :
  cs c <> Closed -> registered (m_ty m) = true -> m_valid m = false ->
  exists c' o, process_packet c m = (c', o, Some (Raw ROther)) /\ cs c' = Closed /\ deliveries o = [] /\
               fatal c' = Some (match fatal c with Some e => e | None => Lib LProtocol end).
Proof.
  intros Hn Hr Hv. unfold process_packet. rewrite Hr, Hv. cbn [negb].
  pose proof (deliveries_report_fatal c (Lib LProtocol)) as D.
  assert (Hcs : cs (fst (report_fatal c (Lib LProtocol))) = Closed).
  { change (ConnCore.k_cs (ConnCore.core_of (fst (report_fatal c (Lib LProtocol)))) = Closed).
    unfold report_fatal. destruct (fatal c); rewrite core_cleanup; apply ConnCore.closeK_cs. }
  assert (Hf : fatal (fst (report_fatal c (Lib LProtocol))) = Some (match fatal c with Some e => e | None => Lib LProtocol end)).
  { unfold report_fatal. destruct (fatal c) eqn:Ef; rewrite cleanup_fatal; [exact Ef|reflexivity]. }
  destruct (report_fatal c (Lib LProtocol)) as [c1 o1]. cbn [fst snd] in *.
  destruct (cs c); try contradiction; exists c1, o1; auto.
Qed.

Theorem known_type_dispatched c m c' o :
  cs c <> Closed -> registered (m_ty m) = true -> m_valid m = true ->
  process_packet c m = (c', o, None) ->
  deliveries o = map (fun u => (u, m)) (users_of (snapshot c (m_ty m))).
Proof.
  intros Hn Hr Hv E. unfold process_packet in E. rewrite Hr, Hv in E. cbn [negb] in E.
  destruct (cs c); try contradiction; apply dispatch_exactly_once in E; exact E.
Qed.

(* peer requests *)
Definition can_write (c : conn) : Prop := handshake_complete c = true /\ write_fails c = false /\ transport c = TOpen.

Theorem ping_answered c m : can_write c -> call_handler c HPing m = (c, [OWrite [T_PING_RESP]], None).
Proof. intros (A & B & D). cbn [call_handler]. unfold send_messages. rewrite A, B, D. reflexivity. Qed.
Theorem time_answered c m : can_write c -> call_handler c HTime m = (c, [OWrite [T_TIME_RESP]], None).
Proof. intros (A & B & D). cbn [call_handler]. unfold send_messages. rewrite A, B, D. reflexivity. Qed.
Theorem disconnect_answered_then_expected_close c m :
  can_write c ->
  exists c' o, call_handler c HDisc m = (c', OWrite [T_DISC_RESP] :: o, None) /\ cs c' = Closed /\
               expected_disconnect c' = true.
Proof.
  intros (A & B & D). cbn [call_handler]. unfold send_messages.
  match goal with |- context [handshake_complete ?x] => set (c1 := x) end.
  change (handshake_complete c1) with (handshake_complete c).
  change (write_fails c1) with (write_fails c).
  change (transport c1) with (transport c). rewrite A, B, D. cbn [negb].
  assert (Hcs : cs (fst (cleanup c1)) = Closed).
  { change (ConnCore.k_cs (ConnCore.core_of (fst (cleanup c1))) = Closed). rewrite core_cleanup. apply ConnCore.closeK_cs. }
  assert (Hex : expected_disconnect (fst (cleanup c1)) = true).
  { change (ConnCore.k_expected (ConnCore.core_of (fst (cleanup c1))) = true). rewrite core_cleanup.
    unfold ConnCore.closeK, ConnCore.releaseK. destruct (ConnCore.k_cs (ConnCore.core_of c1)); reflexivity. }
  destruct (cleanup c1) as [c3 o3]. cbn [fst snd] in *. exists c3, o3. auto.
Qed.
