From Coq Require Import NArith List Bool Lia.
From Verif Require Import Model.Ble.
Import ListNotations.
Open Scope N_scope.

Lemma find_skip {A} (p : A -> bool) a x b : p x = false -> find p (a ++ x :: b) = find p (a ++ b).
Proof. intro H. induction a as [|y a IH]; cbn; [rewrite H; reflexivity|]. destruct (p y); [reflexivity|exact IH]. Qed.

(* messages that do not pass the operation's own filter can be inserted or deleted anywhere: same outcome *)
Theorem foreign_messages_irrelevant resp a h pre x post :
  passes resp a h x = false -> handle_op resp a h (pre ++ x :: post) = handle_op resp a h (pre ++ post).
Proof. intro H. unfold handle_op. rewrite find_skip by exact H. reflexivity. Qed.

(* which messages are foreign: another address, another handle (unless it is a connection change), another response type *)
Theorem other_address_is_foreign resp a h m : b_addr m <> a -> passes resp a h m = false.
Proof.
  intro H. unfold passes, handle_filter. apply N.eqb_neq in H. rewrite H. destruct (is_conn (b_kind m)); cbn; apply andb_false_r.
Qed.
Theorem other_handle_is_foreign resp a h m : is_conn (b_kind m) = false -> b_handle m <> h -> passes resp a h m = false.
Proof.
  intros Hc H. unfold passes, handle_filter. rewrite Hc. apply N.eqb_neq in H. rewrite H. rewrite !andb_false_r. reflexivity.
Qed.
Theorem other_response_type_is_foreign resp a h m :
  kind_eqb (b_kind m) resp = false -> b_kind m <> KGattError -> is_conn (b_kind m) = false -> passes resp a h m = false.
Proof.
  intros H1 H2 H3. unfold passes, registered_for. rewrite H1, H3.
  destruct (b_kind m); cbn; try reflexivity; try discriminate. contradiction H2. reflexivity.
Qed.

(* the outcome table: the first own message decides *)
Theorem own_response_completes resp a h pre m post :
  (forall x, In x pre -> passes resp a h x = false) -> passes resp a h m = true ->
  handle_op resp a h (pre ++ m :: post) = classify m.
Proof.
  intros Hpre Hm. unfold handle_op. induction pre as [|y pre IH]; cbn.
  - rewrite Hm. reflexivity.
  - rewrite (Hpre y (or_introl eq_refl)). apply IH. intros x Hx. apply Hpre. right. exact Hx.
Qed.
Theorem classify_table m :
  classify m = match b_kind m with KGattError => OGattError m | KConnection _ => OConnectionDropped m | _ => OResult m end.
Proof. reflexivity. Qed.
Theorem nothing_own_stays_pending resp a h ms : (forall x, In x ms -> passes resp a h x = false) -> handle_op resp a h ms = OPending.
Proof.
  intro H. unfold handle_op. induction ms as [|y ms IH]; cbn; [reflexivity|].
  rewrite (H y (or_introl eq_refl)). apply IH. intros x Hx. apply H. right. exact Hx.
Qed.
(* a result always carries the operation's own address and handle *)
Theorem result_is_own resp a h ms m : handle_op resp a h ms = OResult m -> b_addr m = a /\ b_handle m = h /\ kind_eqb (b_kind m) resp = true.
Proof.
  unfold handle_op. destruct (find (passes resp a h) ms) as [x|] eqn:E; [|discriminate].
  apply find_some in E. destruct E as [_ Hp]. unfold classify. intro Hc.
  unfold passes, registered_for, handle_filter in Hp.
  destruct (b_kind x) eqn:Ek; try discriminate Hc; injection Hc as <-; rewrite Ek in *; cbn in Hp;
    apply andb_true_iff in Hp; destruct Hp as [Hr Hf]; apply andb_true_iff in Hf; destruct Hf as [Ha Hh];
    apply N.eqb_eq in Ha, Hh; repeat split; auto; rewrite ?orb_false_r in Hr; exact Hr.
Qed.

(* two concurrent operations on different (address, handle) pairs never see each other's responses *)
Theorem no_cross_talk resp1 resp2 a1 h1 a2 h2 m :
  (a1 <> a2 \/ h1 <> h2) -> is_conn (b_kind m) = false -> passes resp1 a1 h1 m = true -> passes resp2 a2 h2 m = false.
Proof.
  intros Hd Hc H1. unfold passes, handle_filter in *. rewrite Hc in *.
  apply andb_true_iff in H1. destruct H1 as [_ H1]. apply andb_true_iff in H1. destruct H1 as [Ha Hh].
  apply N.eqb_eq in Ha, Hh. subst. destruct Hd as [Hd|Hd]; apply N.eqb_neq in Hd; rewrite Hd; rewrite ?andb_false_r; reflexivity.
Qed.

(* notify data reaches the callback of its own (address, handle) only, in arrival order *)
Theorem notify_data_foreign a h pre x post :
  (b_addr x <> a \/ b_handle x <> h \/ kind_eqb (b_kind x) KNotifyData = false) ->
  notify_data a h (pre ++ x :: post) = notify_data a h (pre ++ post).
Proof.
  intro H. unfold notify_data. rewrite !filter_app. cbn [filter].
  replace (kind_eqb (b_kind x) KNotifyData && (b_addr x =? a) && (b_handle x =? h)) with false; [reflexivity|].
  symmetry. destruct H as [H|[H|H]].
  - apply N.eqb_neq in H. rewrite H. rewrite andb_false_r. reflexivity.
  - apply N.eqb_neq in H. rewrite H. apply andb_false_r.
  - rewrite H. reflexivity.
Qed.

(* a connect that times out: unsubscribe first, then the disconnect for that address, then the timeout error *)
Theorem connect_timeout_order a ms :
  (forall m, In m ms -> is_conn (b_kind m) && (b_addr m =? a) = false) ->
  connect_trace a ms = [CSubscribe; CWriteConnect a; CUnsubscribe; CWriteDisconnect a; CRaiseTimeout].
Proof.
  intro H. unfold connect_trace.
  replace (find (fun m => is_conn (b_kind m) && (b_addr m =? a)) ms) with (@None bmsg); [reflexivity|].
  symmetry. induction ms as [|y ms IH]; cbn; [reflexivity|]. rewrite (H y (or_introl eq_refl)). apply IH. intros m Hm. apply H. right. exact Hm.
Qed.

(* ------------------------------------------------------------------------------------------------------------------
   the operations as state machines *)
From Coq Require Import ZArith.
From Verif Require Import Generated.GenConstants.
Open Scope N_scope.

Definition spec_addr (sp : opspec) : N :=
  match sp with
  | OpHandle _ _ a _ _ | OpWriteNoResponse _ a _ | OpDevice _ _ a _ | OpDisconnect a _ | OpServices a | OpNotify a _ _ | OpConnect a _ _ _ _ => a
  end.
Definition spec_handle (sp : opspec) : option N :=
  match sp with OpHandle _ _ _ h _ | OpNotify _ h _ => Some h | _ => None end.

(* events that are none of an operation's business *)
Definition foreign (st : opst) (e : bevent) : Prop :=
  match e with
  | EMsg m => b_addr m <> spec_addr (o_spec st) \/
              (exists h, spec_handle (o_spec st) = Some h /\ b_handle m <> h /\ is_conn (b_kind m) = false)
  | ECancel id | EUnsub id | EStopNotify id => id <> o_id st
  | EStart _ _ => True
  | ETime _ | ETurnEnd => False
  end.

Lemma eta st : mkOp (o_id st) (o_spec st) (o_phase st) (o_deadline st) (o_acc st) = st.
Proof. destruct st; reflexivity. Qed.

Lemma neq_addr m a : b_addr m <> a -> (b_addr m =? a) = false.
Proof. intro H. apply N.eqb_neq. exact H. Qed.
Lemma neq_id i j : i <> j -> Nat.eqb i j = false.
Proof. intro H. apply PeanoNat.Nat.eqb_neq. exact H. Qed.

Lemma types_filter_foreign a ks m : b_addr m <> a -> types_filter a ks m = false.
Proof. intro H. unfold types_filter. rewrite (neq_addr _ _ H). apply andb_false_r. Qed.
Lemma passes_dev_foreign resp a m : b_addr m <> a -> passes_dev resp a m = false.
Proof. apply types_filter_foreign. Qed.
Lemma passes_disc_foreign a m : b_addr m <> a -> passes_disc a m = false.
Proof. intro H. unfold passes_disc. destruct (b_kind m); try reflexivity. rewrite (neq_addr _ _ H). reflexivity. Qed.
Lemma is_conn_for_foreign a m : b_addr m <> a -> is_conn_for a m = false.
Proof. intro H. unfold is_conn_for. rewrite (neq_addr _ _ H). apply andb_false_r. Qed.
Lemma is_notify_data_foreign a h m : b_addr m <> a -> is_notify_data a h m = false.
Proof. intro H. unfold is_notify_data. rewrite (neq_addr _ _ H). rewrite andb_false_r. reflexivity. Qed.
Lemma is_notify_data_foreign_handle a h m : b_handle m <> h -> is_notify_data a h m = false.
Proof. intro H. unfold is_notify_data. apply N.eqb_neq in H. rewrite H. apply andb_false_r. Qed.

Ltac foreign_setup F Es e :=
  destruct e; cbn [foreign] in F; rewrite ?Es in F; cbn [spec_addr spec_handle] in F; try reflexivity; try contradiction.

Lemma await_other_foreign st e : match e with EMsg _ => False | _ => foreign st e end -> await_other st e = (st, []).
Proof. destruct e; cbn; intro F; try contradiction; try reflexivity. rewrite (neq_id _ _ F). reflexivity. Qed.

Theorem foreign_event_ignored now st e : foreign st e -> op_step now st e = (st, []).
Proof.
  intro F. unfold op_step. destruct (o_phase st) eqn:Ep; [| | | |reflexivity].
  - (* running *)
    destruct (o_spec st) eqn:Es; cbn [spec_addr spec_handle] in *; try reflexivity.
    + unfold await_step, await_other. foreign_setup F Es e.
      * destruct F as [F|(h0 & Hh & F1 & F2)].
        -- rewrite (other_address_is_foreign _ _ _ _ F). reflexivity.
        -- injection Hh as <-. rewrite (other_handle_is_foreign _ _ _ _ F2 F1). reflexivity.
      * rewrite (neq_id _ _ F). reflexivity.
    + unfold await_step, await_other. foreign_setup F Es e.
      * destruct F as [F|(h0 & Hh & _)]; [|discriminate]. rewrite (passes_dev_foreign _ _ _ F). reflexivity.
      * rewrite (neq_id _ _ F). reflexivity.
    + unfold await_other. foreign_setup F Es e.
      * destruct F as [F|(h0 & Hh & _)]; [|discriminate]. rewrite (passes_disc_foreign _ _ F). reflexivity.
      * rewrite (neq_id _ _ F). reflexivity.
    + unfold await_other. foreign_setup F Es e.
      * destruct F as [F|(h0 & Hh & _)]; [|discriminate]. unfold services_accept, services_stop.
        rewrite !(types_filter_foreign _ _ _ F). destruct (services_registered m); [|reflexivity].
        rewrite <- Ep, <- Es. rewrite eta. reflexivity.
      * rewrite (neq_id _ _ F). reflexivity.
    + unfold await_other. foreign_setup F Es e.
      * destruct F as [F|(h0 & Hh & F1 & F2)].
        -- rewrite (is_notify_data_foreign _ _ _ F), (other_address_is_foreign _ _ _ _ F). reflexivity.
        -- injection Hh as <-. rewrite (is_notify_data_foreign_handle _ _ _ F1), (other_handle_is_foreign _ _ _ _ F2 F1). reflexivity.
      * rewrite (neq_id _ _ F). reflexivity.
    + foreign_setup F Es e.
      * destruct F as [F|(h0 & Hh & _)]; [|discriminate]. rewrite (is_conn_for_foreign _ _ F). reflexivity.
      * rewrite (neq_id _ _ F). reflexivity.
  - (* disconnecting *)
    destruct (o_spec st) eqn:Es; try reflexivity. foreign_setup F Es e.
    + destruct F as [F|(h0 & Hh & _)]; [|discriminate]. rewrite (passes_disc_foreign _ _ F). reflexivity.
    + rewrite (neq_id _ _ F). reflexivity.
  - (* active *)
    destruct (o_spec st) eqn:Es; try reflexivity.
    + foreign_setup F Es e.
      * destruct F as [F|(h0 & Hh & F1 & F2)].
        -- rewrite (is_notify_data_foreign _ _ _ F). reflexivity.
        -- injection Hh as <-. rewrite (is_notify_data_foreign_handle _ _ _ F1). reflexivity.
      * rewrite (neq_id _ _ F). reflexivity.
      * rewrite (neq_id _ _ F). reflexivity.
    + foreign_setup F Es e.
      * destruct F as [F|(h0 & Hh & _)]; [|discriminate]. rewrite (is_conn_for_foreign _ _ F). reflexivity.
      * rewrite (neq_id _ _ F). reflexivity.
  - (* resolved *)
    destruct e; cbn [foreign] in F; try contradiction; try reflexivity.
    + destruct (o_spec st) eqn:Es; try reflexivity; cbn [spec_addr spec_handle] in F.
      * destruct F as [F|(h0 & Hh & F1 & F2)].
        -- rewrite (is_notify_data_foreign _ _ _ F). reflexivity.
        -- injection Hh as <-. rewrite (is_notify_data_foreign_handle _ _ _ F1). reflexivity.
      * destruct F as [F|(h0 & Hh & _)]; [|discriminate]. rewrite (is_conn_for_foreign _ _ F). rewrite andb_false_r. reflexivity.
    + rewrite (neq_id _ _ F). reflexivity.
Qed.

(* ---- identity and spec never change; a finished operation is inert and subscribed to nothing ---- *)
Lemma op_step_id now st e : o_id (fst (op_step now st e)) = o_id st /\ o_spec (fst (op_step now st e)) = o_spec st.
Proof.
  unfold op_step, await_step, await_other, cancelled, finish, resolve, to_phase.
  destruct (o_phase st); destruct (o_spec st) eqn:Es; destruct e; cbn [fst o_id o_spec];
    repeat match goal with |- context [if ?c then _ else _] => destruct c; cbn [fst o_id o_spec] end;
    repeat match goal with |- context [match ?c with _ => _ end] => destruct c; cbn [fst o_id o_spec] end; auto.
Qed.

Theorem finished_is_inert now st e : o_phase st = PFinished -> op_step now st e = (st, []).
Proof. intro H. unfold op_step. rewrite H. reflexivity. Qed.
Theorem finished_unsubscribed st : o_phase st = PFinished -> subscriptions st = [].
Proof. intro H. unfold subscriptions. rewrite H. reflexivity. Qed.

(* reachable operation states *)
Definition is_notify (sp : opspec) : bool := match sp with OpNotify _ _ _ => true | _ => false end.
Definition wf (st : opst) : Prop :=
  match o_phase st with
  | PResolved r true => r = RReturned /\ (is_connect (o_spec st) || is_notify (o_spec st)) = true
  | PActive => (is_connect (o_spec st) || is_notify (o_spec st)) = true
  | PDisconnecting => is_connect (o_spec st) = true
  | _ => True
  end.

Lemma wf_start now id sp : wf (fst (start_op now id sp)).
Proof. destruct sp; exact I. Qed.

Lemma wf_step now st e : wf st -> wf (fst (op_step now st e)).
Proof.
  intro W. pose proof W as W0. unfold wf in W0.
  unfold op_step, await_step, await_other, cancelled, finish, resolve, to_phase.
  destruct (o_phase st) eqn:Ep; destruct (o_spec st) eqn:Es; destruct e; cbn [fst];
    repeat match goal with |- context [if ?c then _ else _] => destruct c; cbn [fst] end;
    repeat match goal with |- context [match ?c with _ => _ end] => destruct c eqn:?; cbn [fst] end;
    try exact W; unfold wf; cbn [o_phase o_spec]; rewrite ?Es; cbn [is_connect is_notify orb] in *; auto;
    try (destruct W0 as [W1 W2]; auto; discriminate).
Qed.

(* whenever an operation reports its ending it is finished - except that connect and notify, which hand the caller an
   unsubscribe function, stay subscribed until that function is called *)
Theorem done_means_finished now st e st' o r :
  wf st -> op_step now st e = (st', o) -> In (BDone r) o ->
  o_phase st' = PFinished \/ (r = RReturned /\ o_phase st' = PActive /\ (is_connect (o_spec st) || is_notify (o_spec st)) = true).
Proof.
  unfold wf, op_step, await_step, await_other, cancelled, finish, resolve, to_phase.
  intros W E Hin.
  destruct (o_phase st) eqn:Ep; destruct (o_spec st) eqn:Es; destruct e; cbn [fst is_connect andb] in E;
    repeat match type of E with context [if ?c then _ else _] => destruct c end;
    repeat match type of E with context [match ?c with _ => _ end] => destruct c end;
    injection E as <- <-; cbn [o_phase] in *;
    repeat (destruct Hin as [Hin|Hin]; [try discriminate Hin|]); try contradiction;
    try (left; reflexivity).
  all: injection Hin as <-; destruct W as [-> W]; right; auto.
Qed.

Theorem done_unsubscribed now st e st' o r :
  wf st -> op_step now st e = (st', o) -> In (BDone r) o -> r <> RReturned -> subscriptions st' = [].
Proof.
  intros W E Hin Hr. destruct (done_means_finished _ _ _ _ _ _ W E Hin) as [H|[H _]]; [|contradiction].
  apply finished_unsubscribed. exact H.
Qed.

(* the unsubscribe function of connect / notify (and stop_notify) ends the subscription at once *)
Theorem unsubscribe_is_immediate now st : o_phase st = PActive -> wf st ->
  subscriptions (fst (op_step now st (EUnsub (o_id st)))) = [] /\
  forall m, snd (op_step now (fst (op_step now st (EUnsub (o_id st)))) (EMsg m)) = [].
Proof.
  intros Hp W. unfold wf in W. rewrite Hp in W. unfold op_step. rewrite Hp.
  destruct (o_spec st) eqn:Es; cbn in W; try discriminate; rewrite PeanoNat.Nat.eqb_refl; cbn; auto.
Qed.
Theorem stop_notify_is_immediate now st a h t : o_phase st = PActive -> o_spec st = OpNotify a h t ->
  op_step now st (EStopNotify (o_id st)) = (to_phase st PFinished, [BWrite (RqNotify false) a h]).
Proof. intros Hp Hs. unfold op_step. rewrite Hp, Hs, PeanoNat.Nat.eqb_refl. reflexivity. Qed.

(* ------------------------------------------------------------------------------------------------------------------
   the client = all operations side by side *)
Definition has (id : nat) (st : opst) : bool := Nat.eqb (o_id st) id.
Definition obs_of (id : nat) (o : list (nat * bobs)) : list (nat * bobs) := filter (fun p => Nat.eqb (fst p) id) o.
Definition keep (id : nat) (e : bevent) : bool := match e with EStart i _ => Nat.eqb i id | _ => true end.
Definition restrict (id : nat) (s : bstate) : bstate := mkBS (bs_now s) (filter (has id) (bs_ops s)).

Lemma obs_of_app id a b : obs_of id (a ++ b) = obs_of id a ++ obs_of id b.
Proof. apply filter_app. Qed.
Lemma obs_of_map_same id (o : list bobs) : obs_of id (map (pair id) o) = map (pair id) o.
Proof. induction o as [|x o IH]; cbn; [reflexivity|]. rewrite PeanoNat.Nat.eqb_refl. f_equal. exact IH. Qed.
Lemma obs_of_map_other id j (o : list bobs) : Nat.eqb j id = false -> obs_of id (map (pair j) o) = [].
Proof. intro H. induction o as [|x o IH]; cbn; [reflexivity|]. rewrite H. exact IH. Qed.

Lemma step_all_restrict id now e ops :
  step_all now (filter (has id) ops) e = (filter (has id) (fst (step_all now ops e)), obs_of id (snd (step_all now ops e))).
Proof.
  induction ops as [|st rest IH]; [reflexivity|].
  cbn [step_all filter]. pose proof (op_step_id now st e) as [Hid _].
  destruct (op_step now st e) as [st' o] eqn:E. cbn [fst] in Hid.
  destruct (step_all now rest e) as [rest' o'] eqn:Er. cbn [fst snd] in *.
  assert (Hh : has id st' = has id st) by (unfold has; rewrite Hid; reflexivity).
  cbn [filter]. rewrite Hh, obs_of_app. destruct (has id st) eqn:Eh.
  - cbn [step_all]. rewrite E, IH. unfold has in Eh. apply PeanoNat.Nat.eqb_eq in Eh. rewrite Eh, obs_of_map_same. reflexivity.
  - rewrite IH. unfold has in Eh. rewrite (obs_of_map_other _ _ _ Eh). reflexivity.
Qed.

Lemma bstep_restrict_keep id s e : keep id e = true ->
  bstep (restrict id s) e = (restrict id (fst (bstep s e)), obs_of id (snd (bstep s e))).
Proof.
  intro K. destruct e; cbn [bstep restrict bs_now bs_ops keep] in *;
    try (rewrite step_all_restrict; destruct (step_all _ (bs_ops s) _) as [ops o]; reflexivity).
  apply PeanoNat.Nat.eqb_eq in K. subst id0.
  destruct (start_op (bs_now s) id spec) as [st o] eqn:Es. cbn [fst snd bs_now bs_ops restrict].
  assert (Hid : o_id st = id) by (destruct spec; cbn in Es; injection Es as <- _; reflexivity).
  unfold restrict. cbn [bs_now bs_ops]. assert (Hh : has id st = true) by (unfold has; rewrite Hid; apply PeanoNat.Nat.eqb_refl).
  rewrite filter_app. cbn [filter]. rewrite Hh, obs_of_map_same. reflexivity.
Qed.

Lemma bstep_restrict_drop id s e : keep id e = false ->
  restrict id (fst (bstep s e)) = restrict id s /\ obs_of id (snd (bstep s e)) = [].
Proof.
  intro K. destruct e; try discriminate. cbn [keep] in K. cbn [bstep].
  destruct (start_op (bs_now s) id0 spec) as [st o] eqn:Es. cbn [fst snd].
  assert (Hid : o_id st = id0) by (destruct spec; cbn in Es; injection Es as <- _; reflexivity).
  split.
  - assert (Hh : has id st = false) by (unfold has; rewrite Hid; exact K).
    unfold restrict. cbn [bs_now bs_ops]. rewrite filter_app. cbn [filter]. rewrite Hh, app_nil_r. reflexivity.
  - apply obs_of_map_other. exact K.
Qed.

(* what an operation does and reports is the same whether or not other operations run beside it *)
Theorem others_do_not_matter id evs : forall s,
  restrict id (fst (brun s evs)) = fst (brun (restrict id s) (filter (keep id) evs)) /\
  obs_of id (snd (brun s evs)) = snd (brun (restrict id s) (filter (keep id) evs)).
Proof.
  induction evs as [|e evs IH]; intro s; [split; reflexivity|].
  cbn [brun filter]. destruct (bstep s e) as [s1 o1] eqn:E1.
  destruct (brun s1 evs) as [s2 o2] eqn:E2. cbn [fst snd].
  destruct (IH s1) as [IHa IHb]. rewrite E2 in IHa, IHb. cbn [fst snd] in IHa, IHb.
  destruct (keep id e) eqn:K.
  - cbn [brun]. rewrite (bstep_restrict_keep _ _ _ K), E1. cbn [fst snd].
    destruct (brun (restrict id s1) (filter (keep id) evs)) as [s2' o2'] eqn:E2'. cbn [fst snd] in *.
    rewrite obs_of_app. split; congruence.
  - destruct (bstep_restrict_drop _ s _ K) as [Ha Hb]. rewrite E1 in Ha, Hb. cbn [fst snd] in Ha, Hb.
    rewrite obs_of_app, Hb, <- Ha. cbn [app]. split; assumption.
Qed.

(* every operation of every reachable client state is well formed *)
Lemma step_all_wf now e ops : Forall wf ops -> Forall wf (fst (step_all now ops e)).
Proof.
  induction ops as [|st rest IH]; intro H; [constructor|]. inversion H as [|? ? Hw Hr]; subst.
  cbn [step_all]. pose proof (wf_step now st e Hw) as W. destruct (op_step now st e) as [st' o].
  specialize (IH Hr). destruct (step_all now rest e) as [rest' o']. cbn [fst] in *. constructor; assumption.
Qed.
Lemma bstep_wf s e : Forall wf (bs_ops s) -> Forall wf (bs_ops (fst (bstep s e))).
Proof.
  intro H. destruct e; cbn [bstep];
    try (match goal with |- context [step_all ?n ?o ?e] => pose proof (step_all_wf n e o H) as W; destruct (step_all n o e) end; exact W).
  pose proof (wf_start (bs_now s) id spec) as W. destruct (start_op (bs_now s) id spec). cbn [fst bs_ops] in *.
  apply Forall_app. split; [exact H|constructor; [exact W|constructor]].
Qed.
Theorem reachable_wf evs : forall s, Forall wf (bs_ops s) -> Forall wf (bs_ops (fst (brun s evs))).
Proof.
  induction evs as [|e evs IH]; intros s H; [exact H|].
  cbn [brun]. pose proof (bstep_wf s e H) as W. destruct (bstep s e) as [s1 o1]. cbn [fst] in W.
  specialize (IH s1 W). destruct (brun s1 evs). exact IH.
Qed.

(* ---- one operation on its own ---- *)
Fixpoint run_op (now : Z) (st : opst) (es : list bevent) : opst * list bobs :=
  match es with
  | [] => (st, [])
  | e :: rest => let now' := match e with ETime t => Z.max now t | _ => now end in
                 let '(st1, o1) := op_step now' st e in let '(st2, o2) := run_op now' st1 rest in (st2, o1 ++ o2)
  end.

Lemma run_op_app now st a b :
  run_op now st (a ++ b) =
  let '(st1, o1) := run_op now st a in
  let now1 := fold_left (fun n e => match e with ETime t => Z.max n t | _ => n end) a now in
  let '(st2, o2) := run_op now1 st1 b in (st2, o1 ++ o2).
Proof.
  revert now st. induction a as [|e a IH]; intros now st; cbn [run_op app fold_left].
  - destruct (run_op now st b). reflexivity.
  - destruct (op_step _ st e) as [st1 o1]. rewrite IH.
    destruct (run_op _ st1 a) as [st2 o2]. cbv zeta. destruct (run_op _ st2 b) as [st3 o3]. rewrite app_assoc. reflexivity.
Qed.
Lemma now_msgs now ms : fold_left (fun n e => match e with ETime t => Z.max n t | _ => n end) (map EMsg ms) now = now.
Proof. induction ms as [|m ms IH]; [reflexivity|exact IH]. Qed.

Lemma resolved_handle_ignores now st r rq resp a h t ms :
  o_phase st = PResolved r false -> o_spec st = OpHandle rq resp a h t -> run_op now st (map EMsg ms) = (st, []).
Proof.
  intros Hp Hs. induction ms as [|m ms IH]; [reflexivity|]. cbn [map run_op]. unfold op_step. rewrite Hp, Hs, IH. reflexivity.
Qed.

Lemma classify_not_pending m : classify m <> OPending.
Proof. unfold classify. destruct (b_kind m); discriminate. Qed.

(* a read / write awaits exactly what the pure table says: the first message that passes decides, when the chunk is done *)
Theorem handle_op_refines now st rq resp a h t ms :
  o_phase st = PRunning -> o_spec st = OpHandle rq resp a h t ->
  snd (run_op now st (map EMsg ms ++ [ETurnEnd])) =
  match handle_op resp a h ms with OPending => [] | o => [BDone (RMsg o)] end.
Proof.
  intros Hp Hs. revert st Hp Hs. induction ms as [|m ms IH]; intros st Hp Hs.
  - cbn [map app run_op]. unfold op_step. rewrite Hp, Hs. reflexivity.
  - cbn [map app run_op]. unfold handle_op. cbn [find].
    unfold op_step at 1. rewrite Hp, Hs. unfold await_step. destruct (passes resp a h m) eqn:Ep.
    + rewrite run_op_app. rewrite (resolved_handle_ignores now _ (RMsg (classify m)) rq resp a h t ms) by (try reflexivity; exact Hs).
      rewrite now_msgs. cbn [run_op]. unfold op_step. cbn [resolve to_phase o_phase o_spec]. unfold finish. cbn [snd app].
      pose proof (classify_not_pending m) as Hc. destruct (classify m); try reflexivity. contradiction.
    + specialize (IH st Hp Hs). destruct (run_op now st (map EMsg ms ++ [ETurnEnd])) as [st2 o2]. cbn [snd app] in *.
      exact IH.
Qed.

(* connect: no answer for the address by the deadline -> unsubscribe, then the disconnect for that address; afterwards no
   state callback is ever made and the only way out is the time-out error (or cancellation) *)
Theorem connect_timeout_step now st a hc ff t dt tm :
  o_phase st = PRunning -> o_spec st = OpConnect a hc ff t dt -> (o_deadline st <= tm)%Z ->
  op_step now st (ETime tm) =
  (mkOp (o_id st) (o_spec st) PDisconnecting (now + dt) [], [BUnsubscribed; BWrite (RqDevice BLE_REQ_DISCONNECT) a 0]).
Proof.
  intros Hp Hs Hd. unfold op_step. rewrite Hp, Hs. apply Z.leb_le in Hd. rewrite Hd. reflexivity.
Qed.
Theorem connect_waits_until_deadline now st a hc ff t dt e :
  o_phase st = PRunning -> o_spec st = OpConnect a hc ff t dt ->
  match e with EMsg m => is_conn_for a m = false | ETime tm => (tm < o_deadline st)%Z | ECancel id => id <> o_id st | _ => True end ->
  op_step now st e = (st, []).
Proof.
  intros Hp Hs H. unfold op_step. rewrite Hp, Hs. destruct e; try reflexivity.
  - rewrite H. reflexivity.
  - apply Z.leb_gt in H. rewrite H. reflexivity.
  - rewrite (neq_id _ _ H). reflexivity.
Qed.

Definition timing_out (st : opst) : Prop :=
  is_connect (o_spec st) = true /\ (o_phase st = PDisconnecting \/ (exists r, o_phase st = PResolved r false) \/ o_phase st = PFinished).
Definition timeout_obs (x : bobs) : Prop :=
  match x with BDone (RConnectTimeout _) | BDone RCancelled => True | _ => False end.

Theorem after_timeout_only_the_error now st e :
  timing_out st -> (forall r, o_phase st = PResolved r false -> exists b, r = RConnectTimeout b) ->
  timing_out (fst (op_step now st e)) /\
  (forall r, o_phase (fst (op_step now st e)) = PResolved r false -> exists b, r = RConnectTimeout b) /\
  Forall timeout_obs (snd (op_step now st e)).
Proof.
  intros [Hc Hph] Hr. unfold timing_out. pose proof (op_step_id now st e) as [_ Hsp]. rewrite Hsp.
  destruct (o_spec st) eqn:Es; try discriminate Hc. clear Hc.
  unfold op_step. rewrite Es. destruct Hph as [Hp|[[r Hp]|Hp]]; rewrite Hp.
  - destruct e; cbn [fst snd]; try (split; [split; [reflexivity|left; exact Hp]|split; [intros r0 H0; rewrite Hp in H0; discriminate|constructor]]).
    + destruct (passes_disc a m); cbn [fst snd resolve to_phase o_phase].
      * split; [split; [reflexivity|right; left; eauto]|split; [intros r0 H0; injection H0 as <-; eauto|constructor]].
      * split; [split; [reflexivity|left; exact Hp]|split; [intros r0 H0; rewrite Hp in H0; discriminate|constructor]].
    + destruct (o_deadline st <=? t)%Z; cbn [fst snd finish o_phase].
      * split; [split; [reflexivity|right; right; reflexivity]|split; [intros r0 H0; discriminate|repeat constructor]].
      * split; [split; [reflexivity|left; exact Hp]|split; [intros r0 H0; rewrite Hp in H0; discriminate|constructor]].
    + destruct (Nat.eqb id (o_id st)); cbn [fst snd finish o_phase].
      * split; [split; [reflexivity|right; right; reflexivity]|split; [intros r0 H0; discriminate|repeat constructor]].
      * split; [split; [reflexivity|left; exact Hp]|split; [intros r0 H0; rewrite Hp in H0; discriminate|constructor]].
  - destruct (Hr r Hp) as [b ->].
    destruct e; cbn [fst snd andb is_connect]; try (split; [split; [reflexivity|right; left; eauto]|split; [intros r0 H0; rewrite Hp in H0; injection H0 as <-; eauto|constructor]]).
    + destruct (Nat.eqb id (o_id st)); cbn [fst snd finish o_phase].
      * split; [split; [reflexivity|right; right; reflexivity]|split; [intros r0 H0; discriminate|repeat constructor]].
      * split; [split; [reflexivity|right; left; eauto]|split; [intros r0 H0; rewrite Hp in H0; injection H0 as <-; eauto|constructor]].
    + cbn [finish fst snd o_phase]. split; [split; [reflexivity|right; right; reflexivity]|split; [intros r0 H0; discriminate|repeat constructor]].
  - cbn [fst snd]. split; [split; [reflexivity|right; right; exact Hp]|split; [intros r0 H0; rewrite Hp in H0; discriminate|constructor]].
Qed.
