From Coq Require Import NArith ZArith String List Bool Lia.
From Verif Require Import Model.Schema Model.Convert Model.FloatFix Proofs.SchemaProofs.
Import ListNotations.
Open Scope string_scope.

(* ---- soundness of the table checkers ---- *)
Lemma memb_In_Z z l : memb Z.eqb z l = true <-> In z l.
Proof.
  unfold memb. rewrite existsb_exists. split.
  - intros (x & Hx & E). apply Z.eqb_eq in E. subst. exact Hx.
  - intro H. exists z. split; [exact H|apply Z.eqb_refl].
Qed.
Lemma memb_In_str s l : memb String.eqb s l = true <-> In s l.
Proof.
  unfold memb. rewrite existsb_exists. split.
  - intros (x & Hx & E). apply String.eqb_eq in E. subst. exact Hx.
  - intro H. exists s. split; [exact H|apply String.eqb_refl].
Qed.
Lemma memb_In_sz x l : memb sz_eqb x l = true <-> In x l.
Proof.
  unfold memb. rewrite existsb_exists. split.
  - intros (y & Hy & E). unfold sz_eqb in E. apply andb_true_iff in E. destruct E as [E1 E2].
    apply String.eqb_eq in E1. apply Z.eqb_eq in E2. destruct x, y; cbn in *; subst. exact Hy.
  - intro H. exists x. split; [exact H|]. unfold sz_eqb. rewrite String.eqb_refl, Z.eqb_refl. reflexivity.
Qed.
Lemma nodupb_Z l : nodupb Z.eqb l = true -> NoDup l.
Proof.
  induction l as [|a l IH]; cbn; intro H; [constructor|]. apply andb_true_iff in H. destruct H as [H1 H2].
  constructor; [|apply IH; exact H2]. intro Hin. apply memb_In_Z in Hin. rewrite Hin in H1. discriminate.
Qed.
Lemma nodupb_str l : nodupb String.eqb l = true -> NoDup l.
Proof.
  induction l as [|a l IH]; cbn; intro H; [constructor|]. apply andb_true_iff in H. destruct H as [H1 H2].
  constructor; [|apply IH; exact H2]. intro Hin. apply memb_In_str in Hin. rewrite Hin in H1. discriminate.
Qed.

(* an enum pair that passes: no two members share a value, and (name, value) pairs are exactly the wire enum's *)
Theorem enum_mirror_sound me we mv wv :
  enum_mirror_ok (me, we, mv, wv) = true ->
  NoDup (map snd mv) /\ (forall n v, In (n, v) mv <-> In (n, v) wv).
Proof.
  unfold enum_mirror_ok. intro H. apply andb_true_iff in H. destruct H as [H H3]. apply andb_true_iff in H. destruct H as [H1 H2].
  split; [apply nodupb_Z; exact H1|]. intros n v. rewrite forallb_forall in H2, H3. split; intro Hin.
  - apply memb_In_sz. apply H2. exact Hin.
  - apply memb_In_sz. apply H3. exact Hin.
Qed.

Theorem class_mirror_sound pbn mn fs wf :
  class_mirror_ok (pbn, mn, fs, wf) = true ->
  NoDup (map fst fs) /\ (forall n, In n (map fst fs) <-> In n wf).
Proof.
  unfold class_mirror_ok. intro H. apply andb_true_iff in H. destruct H as [H H3]. apply andb_true_iff in H. destruct H as [H1 H2].
  split; [apply nodupb_str; exact H1|]. intros n. rewrite forallb_forall in H2, H3. split; intro Hin.
  - apply memb_In_str. apply H2. exact Hin.
  - apply memb_In_str. apply H3. exact Hin.
Qed.

(* ---- the converters ---- *)
Section ConvFacts.
  Variable members : string -> list Z.
  Variable ffix : bool -> Z -> Z -> bool * Z * Z.
  Notation conv := (conv members ffix).
  Notation from_pb := (from_pb members ffix).

  (* enum conversion: total; a known number is kept, anything else becomes None *)
  Theorem enum_convert_spec e z :
    conv (KEnum e) (VInt z) = if memb Z.eqb z (members e) then VInt z else VNone.
  Proof. reflexivity. Qed.
  Theorem enum_convert_known e z : In z (members e) -> conv (KEnum e) (VInt z) = VInt z.
  Proof. intro H. cbn. apply memb_In_Z in H. rewrite H. reflexivity. Qed.
  Theorem enum_convert_unknown e z : ~ In z (members e) -> conv (KEnum e) (VInt z) = VNone.
  Proof. intro H. cbn. destruct (memb Z.eqb z (members e)) eqn:E; [apply memb_In_Z in E; contradiction|reflexivity]. Qed.

  (* list conversion: unknown numbers are dropped, everything else stays, in order *)
  Theorem enum_convert_list_spec e l : conv (KEnumList e) (VList l) = VList (filter (is_member members e) l).
  Proof. reflexivity. Qed.

  (* every converter is idempotent, provided the float presentation function is *)
  Hypothesis fix_idem : forall s m e, let '(s1, m1, e1) := ffix s m e in ffix s1 m1 e1 = (s1, m1, e1).

  Lemma filter_idem {A} (f : A -> bool) l : filter f (filter f l) = filter f l.
  Proof. induction l as [|a l IH]; cbn; [reflexivity|]. destruct (f a) eqn:E; cbn; rewrite ?E, IH; reflexivity. Qed.

  Theorem conv_idem k v : conv k (conv k v) = conv k v.
  Proof.
    destruct k; cbn; try reflexivity.
    - destruct (is_member members e v) eqn:E; cbn; [rewrite E; reflexivity|reflexivity].
    - destruct v; try reflexivity. cbn. rewrite filter_idem. reflexivity.
    - destruct v; try reflexivity. pose proof (fix_idem neg m e) as H. destruct (ffix neg m e) as [[s1 m1] e1]. cbn. rewrite H. reflexivity.
  Qed.

  (* from_pb is total as soon as every model field exists on the wire message; it keeps the field order and converts
     each field by its own converter *)
  Lemma lookup_In n w : In n (map fst w) -> exists v, lookup n w = Some v.
  Proof.
    induction w as [|[k v] w IH]; cbn; intro H; [contradiction|].
    destruct (String.eqb k n) eqn:E; [eauto|]. destruct H as [H|H]; [subst; rewrite String.eqb_refl in E; discriminate|auto].
  Qed.

  Theorem from_pb_total fields w :
    (forall n, In n (map fst fields) -> In n (map fst w)) ->
    exists m, from_pb fields w = Some m /\ map fst m = map fst fields /\
              forall n k, In (n, k) fields -> exists v, lookup n w = Some v /\ In (n, Convert.conv members ffix k v) m.
  Proof.
    induction fields as [|[n k] r IH]; intro H.
    - exists []. cbn. repeat split; auto. intros n k [].
    - destruct (lookup_In n w (H n (or_introl eq_refl))) as [v Hv].
      destruct IH as (m & Hm & Hn & Hf); [intros n' Hn'; apply H; right; exact Hn'|].
      exists ((n, Convert.conv members ffix k v) :: m). cbn. rewrite Hv, Hm. repeat split; auto.
      + cbn. rewrite Hn. reflexivity.
      + intros n' k' [E|Hin].
        * injection E as <- <-. exists v. split; [exact Hv|left; reflexivity].
        * destruct (Hf n' k' Hin) as (v' & Hv' & Hin'). exists v'. split; [exact Hv'|right; exact Hin'].
  Qed.

  (* to_dict / from_dict round-trips every value in the image of from_pb (field names without duplicates) *)
  Lemma lookup_first n v m : lookup n ((n, v) :: m) = Some v.
  Proof. cbn. rewrite String.eqb_refl. reflexivity. Qed.

  Lemma from_pb_skip n v m' : forall r, ~ In n (map fst r) -> from_pb r ((n, v) :: m') = from_pb r m'.
  Proof.
    induction r as [|[a ka] r IHr]; intro Hni; [reflexivity|].
    cbn [Convert.from_pb]. cbn [lookup]. destruct (String.eqb n a) eqn:E.
    - apply String.eqb_eq in E. subst a. exfalso. apply Hni. left. reflexivity.
    - rewrite IHr; [reflexivity|]. intro Hc. apply Hni. right. exact Hc.
  Qed.

  Lemma from_pb_on_image fields : forall m,
    NoDup (map fst fields) -> map fst m = map fst fields ->
    (forall n k v, In (n, k) fields -> In (n, v) m -> Convert.conv members ffix k v = v) ->
    from_pb fields m = Some m.
  Proof.
    induction fields as [|[n k] r IH]; intros m Hnd Hn Hfix.
    - destruct m; [reflexivity|discriminate].
    - destruct m as [|[n' v] m']; [discriminate|]. cbn in Hn. injection Hn as -> Hn. inversion Hnd as [|? ? Hnotin Hnd']; subst.
      cbn [Convert.from_pb]. rewrite lookup_first.
      assert (Hrest : from_pb r ((n, v) :: m') = from_pb r m') by (apply from_pb_skip; exact Hnotin).
      rewrite Hrest. rewrite (IH m' Hnd' Hn).
      + rewrite (Hfix n k v); [reflexivity|left; reflexivity|left; reflexivity].
      + intros n2 k2 v2 H1 H2. apply (Hfix n2 k2 v2); right; assumption.
  Qed.

  Theorem dict_roundtrip fields w m :
    NoDup (map fst fields) -> from_pb fields w = Some m ->
    from_dict members ffix fields (to_dict m) = Some m.
  Proof.
    intros Hnd Hm. unfold from_dict, to_dict.
    assert (Gen : forall fs mm, from_pb fs w = Some mm -> map fst mm = map fst fs /\
                   forall n k v, In (n, k) fs -> In (n, v) mm -> NoDup (map fst fs) -> exists v0, v = Convert.conv members ffix k v0).
    { induction fs as [|[n k] r IH]; intros mm E.
      - injection E as <-. split; [reflexivity|]. intros n k v [].
      - cbn [Convert.from_pb] in E. destruct (lookup n w) as [v0|]; [|discriminate]. destruct (from_pb r w) as [rest|] eqn:Er; [|discriminate].
        injection E as <-. destruct (IH rest eq_refl) as [A B]. split; [cbn; rewrite A; reflexivity|].
        intros n2 k2 v2 [E1|H1] [E2|H2] Hnd2.
        + injection E1 as <- <-. injection E2 as <-. eauto.
        + injection E1 as <- <-. inversion Hnd2 as [|? ? Hni _]; subst. exfalso. apply Hni. rewrite <- A. apply in_map_iff. exists (n, v2). auto.
        + injection E2 as <- <-. inversion Hnd2 as [|? ? Hni _]; subst. exfalso. apply Hni. apply in_map_iff. exists (n, k2). auto.
        + inversion Hnd2; subst. eapply B; eassumption. }
    destruct (Gen fields m Hm) as [A B].
    apply from_pb_on_image; [exact Hnd|exact A|].
    intros n k v H1 H2. destruct (B n k v H1 H2 Hnd) as [v0 ->]. apply conv_idem.
  Qed.
End ConvFacts.

(* ---- the float presentation function ---- *)
Open Scope Z_scope.
(* round-half-even of N / D is within half a unit of N / D:  | 2 (r D - N) | <= D *)
Theorem rhe_half_unit N D : 0 <= N -> 0 < D -> let r := rhe N D in - D <= 2 * (r * D - N) <= D.
Proof.
  intros HN HD. unfold rhe. cbn zeta.
  pose proof (Z.div_mod N D ltac:(lia)) as E. pose proof (Z.mod_pos_bound N D HD) as B.
  destruct (Z.ltb_spec (2 * (N mod D)) D); [nia|]. destruct (Z.ltb_spec D (2 * (N mod D))); [nia|]. destruct (Z.even (N / D)); nia.
Qed.
Theorem rhe_nonneg N D : 0 <= N -> 0 < D -> 0 <= rhe N D.
Proof.
  intros HN HD. unfold rhe. pose proof (Z.div_pos N D HN HD).
  destruct (_ <? _); [lia|]. destruct (_ <? _); [lia|]. destruct (Z.even _); lia.
Qed.
(* zero stays zero; the sign is never changed *)
Theorem fix_zero neg e : fix_float neg 0 e = (neg, 0, 0).
Proof. reflexivity. Qed.
Theorem fix_sign neg m e : fst (fst (fix_float neg m e)) = neg.
Proof.
  unfold fix_float. destruct (m =? 0); [reflexivity|]. cbn zeta. destruct (_ =? 0); [reflexivity|]. destruct (rn64 _ _); reflexivity.
Qed.
(* the search for the decimal exponent returns the first k with abs <= 10^k *)
Lemma find_l10_first fuel : forall m e k, let r := find_l10 fuel m e k in
  (le_pow10 m e r = true \/ r = k + Z.of_nat fuel) /\ forall j, k <= j < r -> le_pow10 m e j = false.
Proof.
  induction fuel as [|f IH]; intros m e k; cbn [find_l10].
  - split; [right; lia|intros j Hj; lia].
  - destruct (le_pow10 m e k) eqn:E.
    + split; [left; exact E|intros j Hj; lia].
    + specialize (IH m e (k + 1)). cbn zeta in IH. destruct IH as [A B]. split.
      * destruct A as [A|A]; [left; exact A|right; lia].
      * intros j Hj. destruct (Z.eq_dec j k) as [->|Hn]; [exact E|apply B; lia].
Qed.
