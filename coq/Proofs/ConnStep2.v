(* finish_connection, disconnect(), request/response tasks: each wake-up preserves the invariant. *)
From Coq Require Import NArith ZArith List Bool Lia Relations.
From RecordUpdate Require Import RecordSet.
From Verif Require Import Generated.GenConstants Model.Conn Proofs.ConnCore Proofs.ConnSync Proofs.ConnStep.
Import ListNotations RecordSetNotations.
Open Scope Z_scope.
Open Scope list_scope.

Definition with_helper (k : core) (h : hstat) : core :=
  mkCore (k_cs k) (k_conn k) (k_hs k) (k_armed k) (k_stops k) (k_ever k) (k_ping k) (k_pong k) (k_waiters k)
         (k_socket k) h (k_ps k) (k_pf k) (k_pd k) (k_expected k).
Lemma closeK_with_helper k h : closeK (with_helper k h) = closeK k.
Proof. destruct k; unfold closeK, releaseK, with_helper; cbn. destruct k_cs; reflexivity. Qed.

Lemma InvK_closeK k : InvK k -> InvK (closeK k).
Proof. intro H. pose proof (mv_ok _ _ (MvClose k)) as M. unfold SyncOK in M. tauto. Qed.

Lemma core_set_task_finish c k :
  core_of (set_task c TFinish k) = with_pcs (core_of c) (pc (t_start c)) (pc k) (pc (t_disc c)).
Proof. reflexivity. Qed.
Lemma core_set_task_disc c k :
  core_of (set_task c TDisc k) = with_pcs (core_of c) (pc (t_start c)) (pc (t_finish c)) (pc k).
Proof. reflexivity. Qed.
Lemma core_set_task_call c cid k : core_of (set_task c (TCall cid) k) = core_of c.
Proof. reflexivity. Qed.

Lemma InvK_set_pd k pd : InvK k -> InvK (with_pcs k (k_ps k) (k_pf k) pd).
Proof.
  intro H. pose proof H as (F & [J1 J2] & S & C). apply InvK_with_pcs; auto.
  intro Hc. specialize (C Hc). tauto.
Qed.

Lemma InvK_with_helper_open k h : InvK k -> k_cs k <> Closed -> InvK (with_helper k h).
Proof.
  destruct k as [s cn hs ar st ev pi po w so he ps pf pd ex]. unfold with_helper, InvK, flagsK, JK, StopK, ClosedK. cbn.
  intros (F & J & S & C) Hn. repeat split; try tauto.
Qed.

(* the failing tail of a connect phase, from a state whose core may differ from an invariant state in the
   helper attribute only (create_connection returned, the helper was just assigned) *)
Lemma fail_tail_ok c0 c t (mk : conn -> tres) (post : conn -> conn) :
  Inv c0 -> closeK (core_of c) = closeK (core_of c0) ->
  (forall x, core_of (post x) = core_of x) ->
  let r := (let '(c2, o) := cleanup c in let '(c4, o2) := finish_task (post c2) t (mk c2) in (c4, o ++ o2)) in
  Inv (fst r) /\ cs (fst r) = Closed.
Proof.
  intros H0 E Hpost.
  pose proof (core_cleanup c) as Ecl. destruct (cleanup c) as [c2 o]. cbn [fst] in Ecl. rewrite E in Ecl.
  assert (H2 : Inv c2) by (unfold Inv; rewrite Ecl; apply InvK_closeK; exact H0).
  assert (Hc2 : cs c2 = Closed) by (change (cs c2) with (k_cs (core_of c2)); rewrite Ecl; apply closeK_cs).
  assert (Hh2 : helper c2 = HNone) by (change (helper c2) with (k_helper (core_of c2)); rewrite Ecl; apply closeK_helper).
  assert (H3 : Inv (post c2)) by (eapply Inv_core_eq; [apply Hpost|exact H2]).
  assert (Hc3 : cs (post c2) = Closed) by (change (k_cs (core_of (post c2)) = Closed); rewrite Hpost; exact Hc2).
  assert (Hh3 : helper (post c2) = HNone) by (change (k_helper (core_of (post c2)) = HNone); rewrite Hpost; exact Hh2).
  cbn zeta. destruct (finish_task_ok (post c2) t (mk c2) H3) as [A B]; [auto|].
  destruct (finish_task (post c2) t (mk c2)) as [c4 o2]. cbn [fst] in *. split; [exact A|congruence].
Qed.

Lemma finish_fail_ok' c0 c e :
  Inv c0 -> closeK (core_of c) = closeK (core_of c0) ->
  Inv (fst (finish_fail c e)) /\ cs (fst (finish_fail c e)) = Closed.
Proof.
  intros H0 E. unfold finish_fail.
  pose proof (core_interrupt_exit c TFinish e) as E0. destruct (interrupt_exit c TFinish e) as [c1 e1]. cbn [fst] in E0.
  set (c1' := c1 <| intr_finish := IExited |> <| hs_timer := None |>).
  assert (E1 : closeK (core_of c1') = closeK (core_of c0)) by (change (core_of c1') with (core_of c1); rewrite E0; exact E).
  pose proof (fail_tail_ok c0 c1' TFinish (fun c2 => TRaise (wrap_fatal c2 e1)) set_finish_future H0 E1 core_set_finish_future) as K.
  cbn zeta in K. destruct (cleanup c1') as [c2 o]. 
  destruct (finish_task (set_finish_future c2) TFinish (TRaise (wrap_fatal c2 e1))) as [c4 o2]. cbn [fst] in *. exact K.
Qed.

(* ---- finish_after_ready ---- *)
Lemma finish_after_ready_ok c0 c :
  Inv c0 -> (exists h, core_of c = with_helper (core_of c0) h) -> (cs c0 = SockOpen \/ cs c0 = Closed) ->
  Inv (fst (finish_after_ready c)) /\ trans_ok (cs c0) (cs (fst (finish_after_ready c))).
Proof.
  intros H0 [h Eh] Hcs. unfold finish_after_ready.
  set (ca := c <| hs_timer := None |>).
  assert (Ea : core_of ca = with_helper (core_of c0) h) by exact Eh.
  assert (Ecs : cs ca = cs c0) by (change (k_cs (core_of ca) = k_cs (core_of c0)); rewrite Ea; reflexivity).
  rewrite Ecs. destruct Hcs as [Hs|Hc]; rewrite ?Hs, ?Hc.
  - (* SOCKET_OPENED -> HANDSHAKE_COMPLETE, hello written *)
    assert (Ha : Inv ca).
    { unfold Inv. rewrite Ea. apply InvK_with_helper_open; [exact H0|]. change (cs c0 <> Closed). congruence. }
    set (cb := set_task ca TFinish ((get_task ca TFinish) <| pc := PF_Hello (next_cid ca) |>)).
    set (c1 := internal_handlers (set_state cb HsDone)).
    assert (E1 : core_of c1 = hsdoneK (core_of ca) (PF_Hello (next_cid ca))).
    { unfold c1, internal_handlers. rewrite !core_add_handler. reflexivity. }
    assert (H1 : Inv c1).
    { unfold Inv. rewrite E1. apply InvK_hsdone; [exact Ha|exact (eq_trans Ecs Hs)|eauto]. }
    match goal with |- context [call_begin c1 ?a ?b ?d ?e ?f ?g] =>
      pose proof (R_call_begin c1 a b d e f g) as HR; destruct (call_begin c1 a b d e f g) as [[[c2 o] ex] cid] end.
    cbn [fst] in HR. destruct (R_facts _ _ HR H1) as (H2 & Hoc & _).
    destruct ex as [e|].
    + destruct (finish_fail_ok c2 e H2) as [A B]. destruct (finish_fail c2 e) as [c3 o3]. cbn [fst] in *.
      split; [exact A|]. rewrite B. unfold trans_ok; auto.
    + cbn [fst]. split; [exact H2|].
      assert (Ec1 : cs c1 = HsDone) by (change (k_cs (core_of c1) = HsDone); rewrite E1; reflexivity).
      rewrite Ec1 in Hoc. destruct Hoc as [-> | ->]; unfold trans_ok; auto.
  - (* closed while the handshake completed *)
    assert (E : closeK (core_of ca) = closeK (core_of c0)) by (rewrite Ea; apply closeK_with_helper).
    destruct (finish_fail_ok' c0 ca Interrupted H0 E) as [A B]. split; [exact A|]. rewrite B. unfold trans_ok; auto.
Qed.

(* ---- finish_success ---- *)
Lemma finish_success_ok c :
  Inv c -> (cs c = HsDone \/ cs c = Closed) ->
  Inv (fst (finish_success c)) /\ trans_ok (cs c) (cs (fst (finish_success c))).
Proof.
  intros H Hcs. unfold finish_success.
  set (c1 := c <| intr_finish := IExited |>).
  pose proof (core_set_finish_future c1) as E2. set (c2 := set_finish_future c1) in *.
  change (core_of c1) with (core_of c) in E2.
  assert (Ecs : cs c2 = cs c) by (change (k_cs (core_of c2) = k_cs (core_of c)); rewrite E2; reflexivity).
  rewrite Ecs. destruct Hcs as [Hh|Hc]; rewrite ?Hh, ?Hc.
  - split.
    + unfold Inv.
      change (core_of (fst (finish_task (schedule_keep_alive (set_state c2 Connected <| ever_connected := true |>)) TFinish TOk)))
        with (connectedK (core_of c2) (now c2 + keepalive c2)).
      rewrite E2. apply InvK_connected; [exact H|exact Hh].
    + change (cs (fst (finish_task (schedule_keep_alive (set_state c2 Connected <| ever_connected := true |>)) TFinish TOk))) with Connected.
      unfold trans_ok. auto 6.
  - assert (E : closeK (core_of c2) = closeK (core_of c)) by (rewrite E2; reflexivity).
    pose proof (fail_tail_ok c c2 TFinish (fun c3 => TRaise (wrap_fatal c3 Interrupted)) (fun x => x) H E (fun x => eq_refl)) as K.
    cbn zeta in K. destruct (cleanup c2) as [c3 o]. destruct (finish_task c3 TFinish (TRaise (wrap_fatal c3 Interrupted))) as [c4 o2].
    cbn [fst] in *. destruct K as [A B]. split; [exact A|]. rewrite B. unfold trans_ok; auto.
Qed.

Lemma with_helper_id k : with_helper k (k_helper k) = k.
Proof. destruct k; reflexivity. Qed.

Lemma InvK_assign_helper_ready k h :
  InvK k -> k_pf k = PF_Create -> InvK (with_pcs (with_helper k h) (k_ps k) PF_Ready (k_pd k)).
Proof.
  destruct k as [s cn hs ar st ev pi po w so he ps pf pd ex]. unfold with_helper, with_pcs, InvK, flagsK, JK, StopK, ClosedK. cbn.
  intros (F & [J1 J2] & S & C) ->. repeat split; try tauto.
  all: intro Hc; specialize (C Hc); tauto.
Qed.

Lemma closed_trans s : trans_ok s Closed.
Proof. unfold trans_ok; auto. Qed.

Lemma wake_finish_ok c c' o : wake_finish c = Some (c', o) -> StepOK c c'.
Proof.
  unfold wake_finish. intros E H.
  pose proof H as (F & [J1 J2] & S & C).
  destruct (pc (get_task c TFinish)) eqn:Epc; try discriminate; cbn [get_task] in Epc;
    change (k_pf (core_of c)) with (pc (t_finish c)) in J2; rewrite Epc in J2; change (k_cs (core_of c)) with (cs c) in J2.
  - (* PF_Create *)
    destruct (must_cancel (get_task c TFinish) || negb match made_waiter c with EPending => true | _ => false end); [|discriminate].
    pose proof (core_take_cancel c TFinish) as E1. destruct (take_cancel c TFinish) as [c1 mc]. cbn [fst] in E1.
    assert (H1 : Inv c1) by (eapply Inv_core_eq; eassumption).
    assert (Ecs1 : cs c1 = cs c) by (change (k_cs (core_of c1) = k_cs (core_of c)); rewrite E1; reflexivity).
    match type of E with match ?d with _ => _ end = _ => destruct d as [|e] end.
    + set (c2 := c1 <| helper := helper_obj c1 |> <| hs_timer := Some (now c1 + HANDSHAKE_TIMEOUT) |>) in *.
      assert (E2 : core_of c2 = with_helper (core_of c1) (helper_obj c1)) by reflexivity.
      assert (Ecl : closeK (core_of c2) = closeK (core_of c1)) by (rewrite E2; apply closeK_with_helper).
      destruct (ready c2) eqn:Er.
      * apply some_pair_fst in E; subst c'; cbn [fst]. split; [|left; cbn; exact Ecs1].
        unfold Inv. rewrite core_set_task_finish. cbn [pc set]. rewrite E2.
        change (pc (t_start c2)) with (k_ps (core_of c1)). change (pc (t_disc c2)) with (k_pd (core_of c1)).
        assert (Q : with_pcs (with_helper (core_of c1) (helper_obj c1)) (k_ps (core_of c1)) PF_Ready (k_pd (core_of c1)) =
                    with_pcs (with_helper (core_of c1) (helper_obj c1)) (k_ps (core_of c1)) PF_Ready (k_pd (core_of c1))) by reflexivity.
        apply InvK_assign_helper_ready; [exact H1|]. rewrite E1. exact Epc.
      * apply some_pair_fst in E; subst c'; cbn [fst].
        destruct (finish_after_ready_ok c1 c2 H1) as [A B]; [eauto|rewrite Ecs1; exact J2|].
        split; [exact A|rewrite <- Ecs1; exact B].
      * apply some_pair_fst in E; subst c'; cbn [fst].
        match goal with |- context [finish_fail c2 ?x] => destruct (finish_fail_ok' c1 c2 x H1 Ecl) as [A B] end.
        split; [exact A|rewrite B; apply closed_trans].
      * apply some_pair_fst in E; subst c'; cbn [fst].
        destruct (finish_fail_ok' c1 c2 CancelledErr H1 Ecl) as [A B].
        split; [exact A|rewrite B; apply closed_trans].
    + set (c2 := match transport c1 with TOpen => c1 <| transport := TClosing None |> | _ => c1 end) in *.
      assert (E2 : core_of c2 = core_of c1) by (unfold c2; destruct (transport c1); reflexivity).
      assert (H2 : Inv c2) by (eapply Inv_core_eq; eassumption).
      destruct (finish_fail_ok c2 e H2) as [A B]. destruct (finish_fail c2 e) as [c3 o3].
      apply some_pair_fst in E; subst c'; cbn [fst] in *. split; [exact A|rewrite B; apply closed_trans].
  - (* PF_Ready *)
    destruct (must_cancel (get_task c TFinish) || negb match ready c with RPending => true | _ => false end); [|discriminate].
    pose proof (core_take_cancel c TFinish) as E1. destruct (take_cancel c TFinish) as [c1 mc]. cbn [fst] in E1.
    assert (H1 : Inv c1) by (eapply Inv_core_eq; eassumption).
    assert (Ecs1 : cs c1 = cs c) by (change (k_cs (core_of c1) = k_cs (core_of c)); rewrite E1; reflexivity).
    destruct mc.
    + apply some_pair_fst in E; subst c'. destruct (finish_fail_ok c1 CancelledErr H1) as [A B].
      split; [exact A|rewrite B; apply closed_trans].
    + assert (FF : forall x, Inv (fst (finish_fail c1 x)) /\ trans_ok (cs c) (cs (fst (finish_fail c1 x)))).
      { intro x. destruct (finish_fail_ok c1 x H1) as [A B]. split; [exact A|rewrite B; apply closed_trans]. }
      destruct (ready c1) eqn:Er; apply some_pair_fst in E; subst c'; try apply FF.
      destruct (finish_after_ready_ok c1 c1 H1) as [A B];
        [exists (helper c1); symmetry; apply (with_helper_id (core_of c1))|rewrite Ecs1; exact J2|].
      split; [exact A|rewrite <- Ecs1; exact B].
  - (* PF_Hello *)
    destruct (get_call c cid) as [kk|] eqn:Ek; [|discriminate].
    destruct (must_cancel (get_task c TFinish) || cfut_done (c_fut kk)); [|discriminate].
    pose proof (core_take_cancel c TFinish) as E1. destruct (take_cancel c TFinish) as [c1 mc]. cbn [fst] in E1.
    assert (H1 : Inv c1) by (eapply Inv_core_eq; eassumption).
    assert (Ecs1 : cs c1 = cs c) by (change (k_cs (core_of c1) = k_cs (core_of c)); rewrite E1; reflexivity).
    pose proof (R_call_finally c1 cid) as HR. set (c2 := call_finally c1 cid) in *.
    destruct (R_facts _ _ HR H1) as (H2 & Hoc & _).
    assert (Hcs2 : cs c2 = HsDone \/ cs c2 = Closed).
    { rewrite Ecs1 in Hoc. destruct Hoc as [Q|Q]; rewrite Q; auto. }
    assert (T : forall s', trans_ok (cs c2) s' -> trans_ok (cs c) s').
    { intros s' HT. rewrite Ecs1 in Hoc. destruct Hoc as [Q|Q]; [rewrite <- Q; exact HT|].
      rewrite Q in HT. destruct HT as [->|[[? _]|[[? _]|[[? _]| ->]]]]; try discriminate; apply closed_trans. }
    match type of E with match ?d with _ => _ end = _ => destruct d as [|e] end.
    + destruct (check_hello_login c2 (c_responses kk)) as [e|]; apply some_pair_fst in E; subst c'.
      * destruct (finish_fail_ok c2 e H2) as [A B]. split; [exact A|rewrite B; apply closed_trans].
      * destruct (finish_success_ok c2 H2 Hcs2) as [A B]. split; [exact A|apply T; exact B].
    + apply some_pair_fst in E; subst c'. destruct (finish_fail_ok c2 e H2) as [A B].
      split; [exact A|rewrite B; apply closed_trans].
Qed.

(* ---- disconnect() and generic calls: sync moves followed by finishing an unconstrained task ---- *)
Lemma R_then_finish c c2 t r :
  t <> TFinish -> R (core_of c) (core_of c2) -> StepOK c (fst (finish_task c2 t r)).
Proof.
  intros Ht HR H. destruct (R_facts _ _ HR H) as (H2 & Hoc & _).
  destruct (finish_task_ok c2 t r H2) as [A B]; [intro; contradiction|].
  split; [exact A|]. rewrite B. apply only_closes_trans_ok. exact Hoc.
Qed.

Lemma R_then_set_pd c c2 k : R (core_of c) (core_of c2) -> StepOK c (set_task c2 TDisc k).
Proof.
  intros HR H. destruct (R_facts _ _ HR H) as (H2 & Hoc & _).
  split; [|apply only_closes_trans_ok; exact Hoc].
  unfold Inv. rewrite core_set_task_disc. apply (InvK_set_pd (core_of c2)). exact H2.
Qed.

Lemma disconnect_after_wait_ok c0 c : R (core_of c0) (core_of c) -> StepOK c0 (fst (disconnect_after_wait c)).
Proof.
  intro HR0. unfold disconnect_after_wait.
  set (c1 := c <| expected_disconnect := true |>).
  assert (HR1 : R (core_of c0) (core_of c1)).
  { eapply R_trans; [exact HR0|]. apply R_mv. apply (MvExpected (core_of c)). }
  destruct (handshake_complete c1).
  - match goal with |- context [call_begin c1 ?a ?b ?d ?e ?f ?g] =>
      pose proof (R_call_begin c1 a b d e f g) as HR; destruct (call_begin c1 a b d e f g) as [[[c2 o] ex] cid] end.
    cbn [fst] in HR. assert (HR2 : R (core_of c0) (core_of c2)) by (eapply R_trans; eassumption).
    destruct ex as [[l| | | | |]|].
    + pose proof (R_cleanup c2) as HR3. destruct (cleanup c2) as [c3 o3]. cbn [fst] in HR3.
      pose proof (R_then_finish c0 c3 TDisc TOk) as K. destruct (finish_task c3 TDisc TOk) as [c4 o4]. cbn [fst] in *.
      apply K; [discriminate|]. eapply R_trans; eassumption.
    + pose proof (R_then_finish c0 c2 TDisc (TRaise (Raw r))) as K. destruct (finish_task c2 TDisc (TRaise (Raw r))) as [c4 o4]. cbn [fst] in *.
      apply K; [discriminate|exact HR2].
    + pose proof (R_then_finish c0 c2 TDisc (TRaise Interrupted)) as K. destruct (finish_task c2 TDisc (TRaise Interrupted)) as [c4 o4]. cbn [fst] in *.
      apply K; [discriminate|exact HR2].
    + pose proof (R_then_finish c0 c2 TDisc (TRaise CancelledErr)) as K. destruct (finish_task c2 TDisc (TRaise CancelledErr)) as [c4 o4]. cbn [fst] in *.
      apply K; [discriminate|exact HR2].
    + pose proof (R_then_finish c0 c2 TDisc (TRaise PyTimeout)) as K. destruct (finish_task c2 TDisc (TRaise PyTimeout)) as [c4 o4]. cbn [fst] in *.
      apply K; [discriminate|exact HR2].
    + pose proof (R_then_finish c0 c2 TDisc (TRaise RuntimeErr)) as K. destruct (finish_task c2 TDisc (TRaise RuntimeErr)) as [c4 o4]. cbn [fst] in *.
      apply K; [discriminate|exact HR2].
    + cbn [fst]. apply R_then_set_pd. exact HR2.
  - pose proof (R_cleanup c1) as HR3. destruct (cleanup c1) as [c2 o2]. cbn [fst] in HR3.
    pose proof (R_then_finish c0 c2 TDisc TOk) as K. destruct (finish_task c2 TDisc TOk) as [c4 o4]. cbn [fst] in *.
    apply K; [discriminate|]. eapply R_trans; eassumption.
Qed.

Lemma wake_disc_ok c c' o : wake_disc c = Some (c', o) -> StepOK c c'.
Proof.
  unfold wake_disc. intro E.
  destruct (pc (get_task c TDisc)) eqn:Epc; try discriminate.
  - (* PD_Wait *)
    destruct (must_cancel (get_task c TDisc) || disc_wait_done c); [|discriminate].
    pose proof (core_take_cancel c TDisc) as E1. destruct (take_cancel c TDisc) as [c1 mc]. cbn [fst] in E1.
    set (c2 := c1 <| disc_timer := None |>) in *.
    assert (HR2 : R (core_of c) (core_of c2)) by (apply R_eq; symmetry; exact E1).
    destruct mc.
    + apply some_pair_fst in E; subst c'. apply R_then_finish; [discriminate|exact HR2].
    + apply some_pair_fst in E; subst c'. apply disconnect_after_wait_ok.
      destruct (finish_fut c2); try exact HR2. destruct (fatal c2); exact HR2.
  - (* PD_Resp *)
    destruct (get_call c cid) as [kk|] eqn:Ek; [|discriminate].
    destruct (must_cancel (get_task c TDisc) || cfut_done (c_fut kk)); [|discriminate].
    pose proof (core_take_cancel c TDisc) as E1. destruct (take_cancel c TDisc) as [c1 mc]. cbn [fst] in E1.
    pose proof (R_call_finally c1 cid) as HR. set (c2 := call_finally c1 cid) in *.
    assert (HR2 : R (core_of c) (core_of c2)) by (rewrite <- E1; exact HR).
    assert (CF : forall c3 o3 c4 o4, cleanup c2 = (c3, o3) -> finish_task c3 TDisc TOk = (c4, o4) -> StepOK c c4).
    { intros c3 o3 c4 o4 Q1 Q2. pose proof (R_cleanup c2) as HR3. rewrite Q1 in HR3. cbn [fst] in HR3.
      pose proof (R_then_finish c c3 TDisc TOk) as K. rewrite Q2 in K. cbn [fst] in K.
      apply K; [discriminate|]. eapply R_trans; eassumption. }
    match type of E with match ?d with _ => _ end = _ => destruct d as [|[l| | | | |]] end.
    1,2: revert E; destruct (cleanup c2) as [c3 o3] eqn:Q1; destruct (finish_task c3 TDisc TOk) as [c4 o4] eqn:Q2; intro E;
         apply some_pair_fst in E; subst c'; cbn [fst]; exact (CF _ _ _ _ eq_refl Q2).
    all: apply some_pair_fst in E; subst c'; apply R_then_finish; [discriminate|exact HR2].
Qed.

Lemma wake_call_ok c cid c' o : wake_call c cid = Some (c', o) -> StepOK c c'.
Proof.
  unfold wake_call. intro E.
  destruct (pc (get_task c (TCall cid))); try discriminate.
  destruct (get_call c cid) as [kk|]; [|discriminate].
  destruct (must_cancel (get_task c (TCall cid)) || cfut_done (c_fut kk)); [|discriminate].
  pose proof (core_take_cancel c (TCall cid)) as E1. destruct (take_cancel c (TCall cid)) as [c1 mc]. cbn [fst] in E1.
  pose proof (R_call_finally c1 cid) as HR. set (c2 := call_finally c1 cid) in *.
  assert (HR2 : R (core_of c) (core_of c2)) by (rewrite <- E1; exact HR).
  apply some_pair_fst in E; subst c'. apply R_then_finish; [discriminate|exact HR2].
Qed.
