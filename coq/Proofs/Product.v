(* Several sessions in one process.

   Every model of this development describes ONE object (a connection, a frame helper, a keep-alive schedule ...). A process
   holds many of them; the models have no state outside the object, so a process is the interleaving product of the machines.
   This file proves, for ANY partial step function, that in every run of the product each component sees exactly its own
   labels: its state and its observations are those of its own run on the sub-sequence of labels addressed to it, whatever
   the other component does in between, and the other component can never disable one of its steps. Every theorem proved about
   single runs therefore holds for each session of a process.

   What this rests on is that the CODE has no state outside the object either (no module-level cache, table or scratch buffer
   through which two sessions meet). That is not proved here; it is what the two-session probes of the checks test
   (C02 neighbour_probe, C05 crowd_probe, C07 siblings_probe, C10 neighbour session, C12 neighbour_answer_probe,
   C20 overlapping_resolves_probe, DESIGN.md section 9.3 round 7). *)
From Coq Require Import List.
Import ListNotations.

Section Product.
  Variables SA SB LA LB OA OB : Type.
  Variable stepA : SA -> LA -> option (SA * OA).
  Variable stepB : SB -> LB -> option (SB * OB).

  Inductive plabel := PA (l : LA) | PB (l : LB).
  Inductive pobs := OPA (o : OA) | OPB (o : OB).

  Definition pstep (s : SA * SB) (l : plabel) : option ((SA * SB) * pobs) :=
    match l with
    | PA a => match stepA (fst s) a with Some (a1, o) => Some ((a1, snd s), OPA o) | None => None end
    | PB b => match stepB (snd s) b with Some (b1, o) => Some ((fst s, b1), OPB o) | None => None end
    end.

  Fixpoint runA (s : SA) (ls : list LA) : option (SA * list OA) :=
    match ls with
    | [] => Some (s, [])
    | l :: r => match stepA s l with
                | None => None
                | Some (s1, o) => match runA s1 r with Some (s2, os) => Some (s2, o :: os) | None => None end
                end
    end.

  Fixpoint runB (s : SB) (ls : list LB) : option (SB * list OB) :=
    match ls with
    | [] => Some (s, [])
    | l :: r => match stepB s l with
                | None => None
                | Some (s1, o) => match runB s1 r with Some (s2, os) => Some (s2, o :: os) | None => None end
                end
    end.

  Fixpoint prun (s : SA * SB) (ls : list plabel) : option ((SA * SB) * list pobs) :=
    match ls with
    | [] => Some (s, [])
    | l :: r => match pstep s l with
                | None => None
                | Some (s1, o) => match prun s1 r with Some (s2, os) => Some (s2, o :: os) | None => None end
                end
    end.

  Fixpoint labelsA (ls : list plabel) : list LA :=
    match ls with [] => [] | PA a :: r => a :: labelsA r | PB _ :: r => labelsA r end.
  Fixpoint labelsB (ls : list plabel) : list LB :=
    match ls with [] => [] | PB b :: r => b :: labelsB r | PA _ :: r => labelsB r end.
  Fixpoint obsA (os : list pobs) : list OA :=
    match os with [] => [] | OPA o :: r => o :: obsA r | OPB _ :: r => obsA r end.
  Fixpoint obsB (os : list pobs) : list OB :=
    match os with [] => [] | OPB o :: r => o :: obsB r | OPA _ :: r => obsB r end.

  (* every run of the product is, for each component, that component's own run on its own labels *)
  Theorem product_projects : forall ls a b a' b' os,
    prun (a, b) ls = Some ((a', b'), os) ->
    runA a (labelsA ls) = Some (a', obsA os) /\ runB b (labelsB ls) = Some (b', obsB os).
  Proof.
    induction ls as [|l r IH]; intros a b a' b' os H; cbn in *.
    - inversion H; subst; cbn; split; reflexivity.
    - destruct l as [la|lb]; cbn in H.
      + destruct (stepA a la) as [[a1 o]|] eqn:E; [|discriminate].
        destruct (prun (a1, b) r) as [[[a2 b2] os2]|] eqn:R; [|discriminate].
        inversion H; subst; clear H.
        destruct (IH _ _ _ _ _ R) as [HA HB].
        cbn. rewrite E, HA. split; [reflexivity|exact HB].
      + destruct (stepB b lb) as [[b1 o]|] eqn:E; [|discriminate].
        destruct (prun (a, b1) r) as [[[a2 b2] os2]|] eqn:R; [|discriminate].
        inversion H; subst; clear H.
        destruct (IH _ _ _ _ _ R) as [HA HB].
        cbn. rewrite E, HB. split; [exact HA|reflexivity].
  Qed.

  (* ... and the converse: if each component can run its own labels, every interleaving of them runs in the product: one
     session never disables, delays or reorders the steps of another *)
  Theorem product_enabled : forall ls a b a' b' oa ob,
    runA a (labelsA ls) = Some (a', oa) -> runB b (labelsB ls) = Some (b', ob) ->
    exists os, prun (a, b) ls = Some ((a', b'), os) /\ obsA os = oa /\ obsB os = ob.
  Proof.
    induction ls as [|l r IH]; intros a b a' b' oa ob HA HB; cbn in *.
    - inversion HA; inversion HB; subst. exists []. repeat split; reflexivity.
    - destruct l as [la|lb]; cbn in *.
      + destruct (stepA a la) as [[a1 o]|] eqn:E; [|discriminate].
        destruct (runA a1 (labelsA r)) as [[a2 os2]|] eqn:R; [|discriminate].
        inversion HA; subst; clear HA.
        destruct (IH _ _ _ _ _ _ R HB) as [os [P [QA QB]]].
        exists (OPA o :: os). rewrite P. cbn. rewrite QA, QB. repeat split; reflexivity.
      + destruct (stepB b lb) as [[b1 o]|] eqn:E; [|discriminate].
        destruct (runB b1 (labelsB r)) as [[b2 os2]|] eqn:R; [|discriminate].
        inversion HB; subst; clear HB.
        destruct (IH _ _ _ _ _ _ HA R) as [os [P [QA QB]]].
        exists (OPB o :: os). rewrite P. cbn. rewrite QA, QB. repeat split; reflexivity.
  Qed.

  (* lifting: whatever holds of all single runs of A holds of A's part of every product run *)
  Corollary product_lifts (P : SA -> list LA -> SA -> list OA -> Prop) :
    (forall a ls a' os, runA a ls = Some (a', os) -> P a ls a' os) ->
    forall ls a b a' b' os, prun (a, b) ls = Some ((a', b'), os) -> P a (labelsA ls) a' (obsA os).
  Proof.
    intros HP ls a b a' b' os H. apply HP. exact (proj1 (product_projects _ _ _ _ _ _ H)).
  Qed.
End Product.
