From Coq Require Import NArith List Lia Bool.
From Verif Require Import Kernel.Varint Model.PlainFrame Proofs.VarintProofs.
Import ListNotations.
Open Scope N_scope.

Definition frame := (N * bytes)%type.
Definition enc_stream (fs : list frame) : bytes := flat_map enc_frame fs.
Definition deliver (f : frame) : pevent := Deliver (fst f) (snd f).

(* p is a strict prefix of the encoding of some frame *)
Definition SP (p : bytes) : Prop := exists f q, q <> [] /\ enc_frame f = p ++ q.

Lemma enc_frame_nonempty f : enc_frame f <> [].
Proof. unfold enc_frame. discriminate. Qed.

Lemma SP_nil : SP [].
Proof. exists (0, []), (enc_frame (0, [])). split; [apply enc_frame_nonempty|reflexivity]. Qed.

(* ---- list helper: a prefix of a ++ b is a prefix of a or extends a ----------- *)
Lemma app_eq_app_cases {A} (p q a b : list A) :
  p ++ q = a ++ b ->
  (exists r, r <> [] /\ a = p ++ r /\ q = r ++ b) \/ (exists r, p = a ++ r /\ b = r ++ q).
Proof.
  revert a. induction p as [|x p IH]; intros a E; cbn in E.
  - destruct a as [|y a].
    + right. exists []. cbn in *. split; [reflexivity|]. symmetry; assumption.
    + left. exists (y :: a). split; [discriminate|]. split; [reflexivity|assumption].
  - destruct a as [|y a]; cbn in E.
    + right. exists (x :: p). split; [reflexivity|]. symmetry; assumption.
    + injection E as -> E. destruct (IH a E) as [(r & Hr & -> & ->)|(r & -> & ->)].
      * left. exists r. repeat split; assumption.
      * right. exists r. split; reflexivity.
Qed.

Lemma firstn_app_exact {A} (l1 l2 : list A) : firstn (length l1) (l1 ++ l2) = l1.
Proof. induction l1; cbn; [destruct l2; reflexivity|f_equal; assumption]. Qed.
Lemma skipn_app_exact {A} (l1 l2 : list A) : skipn (length l1) (l1 ++ l2) = l2.
Proof. induction l1; cbn; [reflexivity|assumption]. Qed.

(* ---- one complete frame is parsed exactly ------------------------------------- *)
Lemma parse_one_frame f rest :
  parse_one (enc_frame f ++ rest) = OFrame (fst f) (snd f) rest.
Proof.
  destruct f as [ty pl]. unfold parse_one, enc_frame. cbn [fst snd].
  change ((0 :: enc (N.of_nat (length pl)) ++ enc ty ++ pl) ++ rest)
    with (enc 0 ++ (enc (N.of_nat (length pl)) ++ enc ty ++ pl) ++ rest).
  rewrite dec_enc. cbn [N.eqb].
  rewrite <- !app_assoc. rewrite dec_enc. rewrite dec_enc.
  destruct (N.eqb_spec (N.of_nat (length pl)) 0) as [E|E].
  - destruct pl; [reflexivity|cbn in E; lia].
  - rewrite app_length.
    destruct (N.ltb_spec (N.of_nat (length pl + length rest)) (N.of_nat (length pl))); [lia|].
    rewrite Nnat.Nat2N.id. rewrite firstn_app_exact, skipn_app_exact. reflexivity.
Qed.

(* ---- a non-empty strict prefix of a frame is incomplete ------------------------ *)
Lemma parse_one_strict_prefix f p q :
  enc_frame f = p ++ q -> q <> [] -> p <> [] -> parse_one p = OIncomplete.
Proof.
  destruct f as [ty pl]. unfold enc_frame. cbn [fst snd]. intros E Hq Hp.
  destruct p as [|b p]; [contradiction|]. cbn in E. injection E as <- E.
  unfold parse_one.
  change (0 :: p) with (enc 0 ++ p). rewrite dec_enc. cbn [N.eqb].
  (* p ++ q = enc len ++ (enc ty ++ pl) *)
  symmetry in E. apply app_eq_app_cases in E.
  destruct E as [(r & Hr & E1 & E2)|(r & -> & E2)].
  - (* p strict prefix of enc len *)
    unfold read_varuint. rewrite (enc_strict_prefix_incomplete _ _ _ E1 Hr). reflexivity.
  - rewrite dec_enc.
    symmetry in E2. apply app_eq_app_cases in E2.
    destruct E2 as [(r2 & Hr2 & E3 & E4)|(r2 & -> & E4)].
    + unfold read_varuint. rewrite (enc_strict_prefix_incomplete _ _ _ E3 Hr2). reflexivity.
    + rewrite dec_enc. subst pl.
      destruct (N.eqb_spec (N.of_nat (length (r2 ++ q))) 0) as [E0|E0].
      * rewrite app_length in E0. destruct q; [contradiction|]. cbn in E0. lia.
      * rewrite app_length.
        destruct (N.ltb_spec (N.of_nat (length r2)) (N.of_nat (length r2 + length q)));
          [reflexivity|]. destruct q; [contradiction|]. cbn in *. lia.
Qed.

Lemma parse_one_SP p : SP p -> p <> [] -> parse_one p = OIncomplete.
Proof. intros (f & q & Hq & E) Hp. eapply parse_one_strict_prefix; eassumption. Qed.

(* ---- the loop on an honest stream --------------------------------------------- *)
Lemma enc_frame_length f : (1 <= length (enc_frame f))%nat.
Proof. unfold enc_frame. cbn. lia. Qed.

Lemma loop_honest fs : forall fuel partial acc,
  SP partial -> (length (enc_stream fs ++ partial) < fuel)%nat ->
  loop fuel (enc_stream fs ++ partial) acc =
  {| r_events := acc ++ map deliver fs; r_buffer := partial; r_status := Ok |}.
Proof.
  induction fs as [|f fs IH]; intros fuel partial acc Hsp Hfuel.
  - cbn [enc_stream flat_map app map]. rewrite app_nil_r.
    destruct fuel as [|fuel]; [cbn in Hfuel; lia|]. cbn [loop].
    destruct partial as [|b partial]; [reflexivity|].
    rewrite (parse_one_SP _ Hsp) by discriminate. reflexivity.
  - destruct fuel as [|fuel]; [cbn in Hfuel; lia|].
    cbn [enc_stream flat_map]. fold (enc_stream fs). rewrite <- app_assoc.
    cbn [loop].
    destruct (enc_frame f ++ enc_stream fs ++ partial) eqn:Eb.
    { exfalso. destruct (enc_frame f) eqn:Ef; [apply (enc_frame_nonempty f Ef)|discriminate]. }
    rewrite <- Eb. rewrite parse_one_frame.
    rewrite IH; [|assumption|].
    + cbn [map]. rewrite <- app_assoc. reflexivity.
    + cbn [enc_stream flat_map] in Hfuel. fold (enc_stream fs) in Hfuel.
      rewrite <- app_assoc, app_length in Hfuel. pose proof (enc_frame_length f). lia.
Qed.

(* ---- decomposition of any prefix of an honest stream --------------------------- *)
(* p1 is what is retained when the bytes so far end inside (fs2, partial) *)
Definition aligned (p1 : bytes) (fs2 : list frame) (partial : bytes) : Prop :=
  match fs2 with
  | [] => exists q, partial = p1 ++ q
  | f :: _ => exists q, q <> [] /\ enc_frame f = p1 ++ q
  end.

Lemma aligned_SP p1 fs2 partial : SP partial -> aligned p1 fs2 partial -> SP p1.
Proof.
  intros (g & q & Hq & E) Ha. destruct fs2 as [|f fs2]; cbn in Ha.
  - destruct Ha as [q' ->]. exists g, (q' ++ q). split.
    + destruct q'; [assumption|discriminate].
    + rewrite E, app_assoc. reflexivity.
  - destruct Ha as (q' & Hq' & E'). exists f, q'. split; assumption.
Qed.

Lemma decompose fs : forall partial x y,
  x ++ y = enc_stream fs ++ partial ->
  exists fs1 fs2 p1,
    fs = fs1 ++ fs2 /\ x = enc_stream fs1 ++ p1 /\ p1 ++ y = enc_stream fs2 ++ partial /\
    aligned p1 fs2 partial.
Proof.
  induction fs as [|f fs IH]; intros partial x y E.
  - exists [], [], x. cbn in *. repeat split; try assumption. exists y. symmetry; assumption.
  - cbn [enc_stream flat_map] in E. fold (enc_stream fs) in E. rewrite <- app_assoc in E.
    apply app_eq_app_cases in E. destruct E as [(r & Hr & E1 & E2)|(r & -> & E2)].
    + exists [], (f :: fs), x. cbn [app enc_stream flat_map]. fold (enc_stream fs).
      repeat split.
      * rewrite E2, E1, <- !app_assoc. reflexivity.
      * exists r. split; assumption.
    + symmetry in E2. destruct (IH _ _ _ E2) as (fs1 & fs2 & p1 & -> & -> & E3 & Ha).
      exists (f :: fs1), fs2, p1. cbn [app enc_stream flat_map]. fold (enc_stream fs1).
      rewrite <- app_assoc. repeat split; assumption.
Qed.

(* ---- whole sessions ------------------------------------------------------------ *)
Lemma enc_stream_app a b : enc_stream (a ++ b) = enc_stream a ++ enc_stream b.
Proof. unfold enc_stream. apply flat_map_app. Qed.

Lemma aligned_end b fs partial : aligned b fs partial -> b = enc_stream fs ++ partial -> fs = [].
Proof.
  destruct fs as [|f fs]; [reflexivity|]. cbn [aligned]. intros (q & Hq & E) Eb. exfalso.
  cbn [enc_stream flat_map] in Eb. fold (enc_stream fs) in Eb.
  assert (H : length (enc_frame f) = (length b + length q)%nat) by (rewrite E, app_length; reflexivity).
  assert (H2 : length b = (length (enc_frame f) + length (enc_stream fs ++ partial))%nat).
  { rewrite Eb at 1. rewrite <- app_assoc, app_length. reflexivity. }
  assert (length q <> 0)%nat by (destruct q; [contradiction|discriminate]). lia.
Qed.

Theorem run_honest cs : forall b fs partial,
  SP partial -> aligned b fs partial ->
  b ++ concat cs = enc_stream fs ++ partial ->
  exists evs, run b cs = (evs, partial, Ok) /\ concat evs = map deliver fs.
Proof.
  induction cs as [|c cs IH]; intros b fs partial Hsp Ha E.
  - cbn [concat] in E. rewrite app_nil_r in E.
    assert (fs = []) by (eapply aligned_end; eassumption). subst fs.
    cbn in E. subst b. exists []. split; reflexivity.
  - cbn [concat] in E. rewrite app_assoc in E.
    destruct (decompose _ _ _ _ E) as (fs1 & fs2 & p1 & -> & Ex & Ey & Ha1).
    cbn [run]. unfold data_received. rewrite Ex.
    rewrite loop_honest; [|eapply aligned_SP; eassumption|lia].
    cbn [r_status r_buffer r_events app].
    destruct (IH p1 fs2 partial Hsp Ha1 Ey) as (evs & -> & Hevs).
    exists (map deliver fs1 :: evs). split; [reflexivity|].
    cbn [concat]. rewrite Hevs, map_app. reflexivity.
Qed.

(* C01, theorem 1: lossless, in order, exactly once, tail retained *)
Theorem reassembly (fs : list frame) (partial : bytes) (chunks : list bytes) :
  SP partial ->
  concat chunks = enc_stream fs ++ partial ->
  exists evs, run [] chunks = (evs, partial, Ok) /\ concat evs = map deliver fs.
Proof.
  intros Hsp E. apply run_honest; [assumption| |assumption].
  destruct fs as [|f fs]; cbn [aligned].
  - exists partial. reflexivity.
  - exists (enc_frame f). split; [apply enc_frame_nonempty|reflexivity].
Qed.
