(* For C11: however a request/response operation ends, it leaves no handler, no waiter and no timer behind - over all runs.
   Two relations between a state and a later one:
     P  - the call table keeps its ids and types, timers are only cleared, call handlers and waiters only disappear
          (every function of the model except call_begin);
     Q  - the resources of the calls that exist already (id < next_cid) only shrink (every step, call_begin included).
   OT is the invariant that a call's handlers sit only under the types of that call, which is what makes the
   finally block of send_messages_await_response_complex remove all of them. *)
From Coq Require Import NArith ZArith List Bool Lia PeanoNat.
From RecordUpdate Require Import RecordSet.
From Verif Require Import Generated.GenConstants Model.Conn Proofs.ConnCalls Proofs.ConnErrors Proofs.ConnReason Proofs.ConnOutcome Proofs.ConnCancel.
Import ListNotations RecordSetNotations.
Open Scope Z_scope.
Open Scope list_scope.

(* ---------------------------------------------------------------- what a call can leave behind *)
Definition res (c : conn) (cid : nat) : Prop :=
  (exists ty, In (ty, HCall cid) (handlers c)) \/ In cid (waiters c) \/
  (exists k, In k (calls c) /\ c_id k = cid /\ c_timer k <> None).

Definition trel (k k' : call) : Prop :=
  c_id k' = c_id k /\ c_types k' = c_types k /\ (c_timer k' = c_timer k \/ c_timer k' = None) /\
  c_sent_at k' = c_sent_at k /\ c_timeout k' = c_timeout k.
Lemma trel_refl k : trel k k.
Proof. unfold trel. auto 6. Qed.
Lemma trel_trans a b c : trel a b -> trel b c -> trel a c.
Proof.
  intros (A1 & A2 & A3 & A4 & A5) (B1 & B2 & B3 & B4 & B5). split; [congruence|]. split; [congruence|]. split; [|split; congruence].
  destruct B3 as [B3|B3]; [|right; exact B3]. destruct A3 as [A3|A3]; [left|right]; congruence.
Qed.

Record P (c c' : conn) : Prop := {
  p_n : next_cid c' = next_cid c;
  p_c : Forall2 trel (calls c) (calls c');
  p_h : forall ty cid, In (ty, HCall cid) (handlers c') -> In (ty, HCall cid) (handlers c);
  p_w : forall w, In w (waiters c') -> In w (waiters c);
  p_now : now c' = now c }.

Lemma F2_refl l : Forall2 trel l l.
Proof. induction l; constructor; [apply trel_refl|assumption]. Qed.
Lemma F2_trans a b c : Forall2 trel a b -> Forall2 trel b c -> Forall2 trel a c.
Proof.
  intro H. revert c. induction H as [|x y l l' Hxy Hl IH]; intros c Hc; inversion Hc; subst; constructor.
  - eapply trel_trans; eassumption.
  - apply IH. assumption.
Qed.
Lemma F2_map l g : (forall k, trel k (g k)) -> Forall2 trel l (map g l).
Proof. intro H. induction l; cbn; constructor; auto. Qed.
Lemma F2_in l l' k' : Forall2 trel l l' -> In k' l' -> exists k, In k l /\ trel k k'.
Proof.
  induction 1 as [|x y l l' Hxy _ IH]; intros Hin; [destruct Hin|].
  destruct Hin as [<-|Hin]; [exists x; split; [left; reflexivity|exact Hxy]|].
  destruct (IH Hin) as (k & A & B). exists k. split; [right; exact A|exact B].
Qed.
Lemma F2_find l l' cid : Forall2 trel l l' ->
  match find (fun k => Nat.eqb (c_id k) cid) l, find (fun k => Nat.eqb (c_id k) cid) l' with
  | Some k, Some k' => trel k k'
  | None, None => True
  | _, _ => False
  end.
Proof.
  induction 1 as [|x y l l' Hxy _ IH]; cbn; [exact I|].
  destruct Hxy as (E & Hr). rewrite E. destruct (Nat.eqb (c_id x) cid); [split; assumption|exact IH].
Qed.

Lemma P_refl c : P c c.
Proof. constructor; auto. apply F2_refl. Qed.
Lemma P_trans a b c : P a b -> P b c -> P a c.
Proof. intros [A1 A2 A3 A4 A5] [B1 B2 B3 B4 B5]. constructor; [congruence|eapply F2_trans; eassumption|auto|auto|congruence]. Qed.

(* the part of the state that P looks at; the handler table only through its call entries *)
Definition is_hcall (p : N * hid) : bool := match snd p with HCall _ => true | _ => false end.
Definition pv (c : conn) := (next_cid c, calls c, filter is_hcall (handlers c), waiters c, now c).
Lemma in_hcall ty cid l : In (ty, HCall cid) l <-> In (ty, HCall cid) (filter is_hcall l).
Proof. rewrite filter_In. cbn. tauto. Qed.
Lemma P_pv c c' : pv c' = pv c -> P c c'.
Proof.
  unfold pv. intro E. injection E as E1 E2 E3 E4 E5. constructor; [exact E1|rewrite E2; apply F2_refl| |rewrite E4; auto|exact E5].
  intros ty cid H. apply (proj2 (in_hcall ty cid (handlers c))). rewrite <- E3. apply (proj1 (in_hcall ty cid (handlers c'))). exact H.
Qed.

Lemma pv_set_start_future c : pv (set_start_future c) = pv c.
Proof. unfold set_start_future. destruct (start_fut c); reflexivity. Qed.
Lemma pv_set_finish_future c : pv (set_finish_future c) = pv c.
Proof. unfold set_finish_future. destruct (finish_fut c); reflexivity. Qed.
Lemma pv_helper_close c : pv (fst (helper_close c)) = pv c.
Proof. unfold helper_close. repeat dm; reflexivity. Qed.
Lemma pv_release c : pv (fst (release_resources c)) = pv c.
Proof.
  unfold release_resources. destruct (helper c).
  - destruct (socket c); reflexivity.
  - pose proof (pv_helper_close c) as H. destruct (helper_close c) as [c1 o1]. cbn [fst] in H.
    destruct (socket _); cbn [fst]; rewrite <- H; reflexivity.
  - pose proof (pv_helper_close c) as H. destruct (helper_close c) as [c1 o1]. cbn [fst] in H.
    destruct (socket _); cbn [fst]; rewrite <- H; reflexivity.
Qed.
Lemma pv_set_task c t k : pv (set_task c t k) = pv c.
Proof. destruct t; reflexivity. Qed.
Lemma pv_take_cancel c t : pv (fst (take_cancel c t)) = pv c.
Proof. unfold take_cancel. destruct (must_cancel _); cbn [fst]; [apply pv_set_task|reflexivity]. Qed.
Lemma pv_timeout_exit c t e : pv (fst (timeout_exit c t e)) = pv c.
Proof.
  unfold timeout_exit. destruct (expiring _); [|reflexivity].
  destruct e; cbn [fst]; try apply pv_set_task. destruct (Nat.eqb _ _); cbn [fst]; apply pv_set_task.
Qed.
Lemma pv_interrupt_exit c t e : pv (fst (interrupt_exit c t e)) = pv c.
Proof.
  unfold interrupt_exit. destruct (interrupted _); [|reflexivity].
  destruct e; cbn [fst]; try reflexivity. destruct (Nat.eqb _ _); cbn [fst]; apply pv_set_task.
Qed.
Lemma pv_finish_task c t r : pv (fst (finish_task c t r)) = pv c.
Proof. unfold finish_task. cbn [fst]. apply pv_set_task. Qed.

Lemma trel_fail_waiter e k : trel k (fail_waiter e k).
Proof. unfold fail_waiter. destruct (c_fut k); unfold trel; cbn; auto 6. Qed.

Lemma P_pre_close c : P c (pre_close c).
Proof.
  unfold pre_close.
  match goal with |- P c (set_finish_future (set_start_future ?x)) =>
    apply (P_trans c x); [|apply P_pv; rewrite pv_set_finish_future, pv_set_start_future; reflexivity] end.
  constructor; cbn; [reflexivity| |auto|intros w []|reflexivity].
  apply F2_map. intro k. destruct (existsb _ _); [apply trel_fail_waiter|apply trel_refl].
Qed.
Lemma P_cleanup c : P c (fst (cleanup c)).
Proof.
  destruct (cs c) eqn:Ecs; try (unfold cleanup; rewrite Ecs; apply P_pv, pv_release).
  all: rewrite cleanup_open by congruence;
    pose proof (pv_release (pre_close c)) as H;
    destruct (release_resources (pre_close c)) as [c4 o4]; cbn [fst] in H;
    (apply (P_trans c (pre_close c)); [apply P_pre_close|]);
    (apply (P_trans _ c4); [apply P_pv; exact H|]);
    destruct (on_stop_armed c4 && is_connected c); cbn [fst]; [apply P_pv; reflexivity|apply P_refl].
Qed.
Lemma P_report_fatal c e : P c (fst (report_fatal c e)).
Proof.
  unfold report_fatal. destruct (fatal c); [apply P_cleanup|].
  apply (P_trans c (c <| fatal := Some e |>)); [apply P_pv; reflexivity|apply P_cleanup].
Qed.
Lemma P_helper_error c e : P c (fst (helper_error c e)).
Proof.
  unfold helper_error. destruct (ready c); try apply P_report_fatal.
  apply (P_trans c (c <| ready := RExc e |>)); [apply P_pv; reflexivity|apply P_report_fatal].
Qed.
Lemma P_send_messages c tys : P c (fst (fst (send_messages c tys))).
Proof.
  unfold send_messages. destruct (negb (handshake_complete c)); [apply P_refl|].
  destruct (write_fails c).
  - pose proof (P_report_fatal c (Lib LSocketClosed)) as H. destruct (report_fatal c (Lib LSocketClosed)) as [c1 o]. exact H.
  - destruct (transport c); apply P_refl.
Qed.

(* the handler table: entries of other kinds come and go freely *)
Lemma filter_app_one {A} (f : A -> bool) l x : f x = false -> filter f (l ++ [x]) = filter f l.
Proof. intro H. rewrite filter_app. cbn. rewrite H. apply app_nil_r. Qed.
Lemma pv_add_other c ty h : (forall x, h <> HCall x) -> pv (add_handler c ty h) = pv c.
Proof.
  intro Hh. unfold add_handler. destruct (existsb _ _); [reflexivity|]. unfold pv. cbn.
  rewrite filter_app_one; [reflexivity|]. unfold is_hcall. cbn. destruct h; try reflexivity. exfalso. eapply Hh. reflexivity.
Qed.
Lemma P_remove c ty h : P c (remove_handler c ty h).
Proof. constructor; cbn; auto; [apply F2_refl|]. intros ty' cid H. apply filter_In in H. tauto. Qed.
Lemma P_fold_actions l : forall c, P c (fold_left run_action l c).
Proof.
  induction l as [|a l IHl]; intro c; cbn [fold_left]; [apply P_refl|].
  eapply P_trans; [|apply IHl]. destruct a; cbn [run_action]; [apply P_pv, pv_add_other; discriminate|apply P_remove].
Qed.
Lemma P_fold_remove l h : forall c, P c (fold_left (fun a ty => remove_handler a ty h) l c).
Proof. induction l as [|a l IHl]; intro c; cbn [fold_left]; [apply P_refl|]. eapply P_trans; [apply P_remove|apply IHl]. Qed.
Lemma pv_internal_handlers c : pv (internal_handlers c) = pv c.
Proof. unfold internal_handlers. rewrite !pv_add_other; try discriminate. reflexivity. Qed.

Lemma P_upd_call c cid g : (forall k, trel k (g k)) -> P c (upd_call c cid g).
Proof.
  intro H. constructor; cbn; auto. apply F2_map. intro k. destruct (Nat.eqb _ _); [apply H|apply trel_refl].
Qed.
Lemma ids_F2 l l' : Forall2 trel l l' -> map c_id l' = map c_id l.
Proof. induction 1 as [|x y l l' (E & _) _ IH]; cbn; [reflexivity|]. rewrite E, IH. reflexivity. Qed.
Lemma uniq_P c c' : P c c' -> uniq c -> uniq c'.
Proof. intros [_ H _ _] U. unfold uniq. rewrite (ids_F2 _ _ H). exact U. Qed.

Lemma upd_const_unique_t l cid k k2 : NoDup (map c_id l) -> find (fun x => Nat.eqb (c_id x) cid) l = Some k -> trel k k2 ->
  Forall2 trel l (map (fun x => if Nat.eqb (c_id x) cid then k2 else x) l).
Proof.
  induction l as [|x l IHl]; cbn; intros U F R; [discriminate|].
  inversion U as [|? ? Hn U']; subst.
  destruct (Nat.eqb (c_id x) cid) eqn:E.
  - apply some_inj in F. subst x. constructor; [exact R|].
    apply Nat.eqb_eq in E.
    assert (Hid : forall y, In y l -> Nat.eqb (c_id y) cid = false).
    { intros y Hy. apply Nat.eqb_neq. intro Q. apply Hn. rewrite E, <- Q. apply in_map. exact Hy. }
    clear - Hid. induction l as [|y l IHl]; cbn; constructor.
    + rewrite (Hid y (or_introl eq_refl)). apply trel_refl.
    + apply IHl. intros z Hz. apply Hid. right. exact Hz.
  - constructor; [apply trel_refl|]. apply IHl; assumption.
Qed.

Lemma P_handle_call_message c cid m : uniq c -> P c (handle_call_message c cid m).
Proof.
  intro U. unfold handle_call_message. destruct (get_call c cid) as [k|] eqn:Eg; [|apply P_refl].
  destruct (c_fut k); try apply P_refl.
  constructor; cbn; auto.
  apply (upd_const_unique_t (calls c) cid k); [exact U|exact Eg|].
  unfold trel. destruct (eval_pred (c_stop k) m), (eval_pred (c_append k) m); cbn; auto 6.
Qed.

Lemma P_call_handler c h m : uniq c -> P c (fst (fst (call_handler c h m))).
Proof.
  intro U. destruct h; cbn [call_handler].
  - set (c1 := c <| expected_disconnect := true |>).
    pose proof (P_send_messages c1 [T_DISC_RESP]) as H. destruct (send_messages c1 [T_DISC_RESP]) as [[c2 o] ex]. cbn [fst] in H.
    assert (H0 : P c c1) by (apply P_pv; reflexivity).
    destruct ex; cbn [fst]; [eapply P_trans; eassumption|].
    pose proof (P_cleanup c2) as H2. destruct (cleanup c2) as [c3 o3]. cbn [fst] in *.
    eapply P_trans; [exact H0|]. eapply P_trans; eassumption.
  - apply P_send_messages.
  - apply P_send_messages.
  - cbn [fst]. apply P_handle_call_message. exact U.
  - cbn [fst]. apply P_fold_actions.
Qed.
Lemma P_run_handlers hs m : forall c, uniq c -> P c (fst (fst (run_handlers c hs m))).
Proof.
  induction hs as [|h hs IHh]; intros c U; cbn [run_handlers fst]; [apply P_refl|].
  pose proof (P_call_handler c h m U) as H1. destruct (call_handler c h m) as [[c1 o1] ex]. cbn [fst] in H1.
  destruct ex; cbn [fst]; [exact H1|].
  specialize (IHh c1 (uniq_P _ _ H1 U)). destruct (run_handlers c1 hs m) as [[c2 o2] ex2]. cbn [fst] in *.
  eapply P_trans; eassumption.
Qed.
Lemma P_process_packet c m : uniq c -> P c (fst (fst (process_packet c m))).
Proof.
  intro U. unfold process_packet. destruct (cs c); try (cbn [fst]; apply P_refl).
  all: destruct (registered (m_ty m)); cbn [negb fst]; [|apply P_refl];
       (destruct (m_valid m); cbn [negb];
        [ match goal with |- context [run_handlers ?x ?hs ?mm] =>
            assert (H0 : P c x) by (apply P_pv; reflexivity);
            pose proof (P_run_handlers hs mm x (uniq_P _ _ H0 U)) as H; destruct (run_handlers x hs mm) as [[c2 o2] ex2] end;
          cbn [fst] in *; eapply P_trans; eassumption
        | pose proof (P_report_fatal c (Lib LProtocol)) as H; destruct (report_fatal c (Lib LProtocol)) as [c1 o];
          cbn [fst] in *; exact H ]).
Qed.
Lemma P_data_loop items : forall c, uniq c -> P c (fst (fst (data_loop c items))).
Proof.
  induction items as [|i items IHi]; intros c U; cbn [data_loop fst]; [apply P_refl|].
  destruct i as [m|req].
  - pose proof (P_process_packet c m U) as H1. destruct (process_packet c m) as [[c1 o1] ex]. cbn [fst] in H1.
    destruct ex; cbn [fst]; [exact H1|].
    specialize (IHi c1 (uniq_P _ _ H1 U)). destruct (data_loop c1 items) as [[c2 o2] ex2]. cbn [fst] in *.
    eapply P_trans; eassumption.
  - match goal with |- context [helper_error c ?e] =>
      pose proof (P_helper_error c e) as H; destruct (helper_error c e) as [c1 o1] end.
    cbn [fst] in *. exact H.
Qed.
Lemma P_call_finally c cid : P c (call_finally c cid).
Proof.
  unfold call_finally. destruct (get_call c cid); [|apply P_refl].
  match goal with |- context [fold_left ?f ?l ?x] => set (c2 := fold_left f l x) end.
  assert (H : P c c2).
  { unfold c2. eapply P_trans; [|apply P_fold_remove].
    apply P_upd_call. intro k. unfold trel. cbn. auto 6. }
  eapply P_trans; [exact H|]. constructor; cbn; auto; [apply F2_refl|]. intros w Hw. apply filter_In in Hw. tauto.
Qed.

(* ---------------------------------------------------------------- tasks *)
Lemma P_cancel_awaited c t k : P c (fst (cancel_awaited c t k)).
Proof.
  unfold cancel_awaited.
  destruct (pc k); try (cbn [fst]; apply P_refl).
  1,2: destruct (cancel_efut (do_connect c)); cbn [fst]; apply P_pv; reflexivity.
  1: destruct (cancel_efut (made_waiter c)); cbn [fst]; apply P_pv; reflexivity.
  1: destruct (ready c); cbn [fst]; try apply P_refl; apply P_pv; reflexivity.
  2: destruct (disc_wait_done c); cbn [fst]; [apply P_refl|apply P_pv; reflexivity].
  all: destruct (get_call c cid) as [kk|]; [|cbn [fst]; apply P_refl];
       destruct (c_fut kk); cbn [fst]; try apply P_refl;
       apply P_upd_call; intro x; unfold trel; cbn; auto 6.
Qed.
Lemma P_cancel_task c t : P c (cancel_task c t).
Proof.
  unfold cancel_task. destruct (negb (task_running _)); [apply P_refl|].
  match goal with |- context [cancel_awaited c t ?k1] =>
    pose proof (P_cancel_awaited c t k1) as H; destruct (cancel_awaited c t k1) as [c1 d] end.
  cbn [fst] in H. destruct d; (eapply P_trans; [exact H|apply P_pv, pv_set_task]).
Qed.

Ltac pv_step X := eapply P_trans; [apply P_pv; exact X|].
Lemma P_start_fail c e : P c (fst (start_fail c e)).
Proof.
  unfold start_fail.
  pose proof (pv_interrupt_exit c TStart e) as H0. destruct (interrupt_exit c TStart e) as [c0 e1]. cbn [fst] in H0.
  match goal with |- context [cleanup ?x] => pose proof (P_cleanup x) as H1; assert (Hx : pv x = pv c0) by reflexivity;
    destruct (cleanup x) as [c2 o] end.
  cbn [fst] in H1.
  match goal with |- context [finish_task ?x ?t ?r] => pose proof (pv_finish_task x t r) as H2; destruct (finish_task x t r) as [c4 o2] end.
  cbn [fst] in *. rewrite pv_set_start_future in H2.
  pv_step H0. pv_step Hx. eapply P_trans; [exact H1|]. apply P_pv. exact H2.
Qed.
Lemma pv_start_tcp_attempt c g : pv (start_tcp_attempt c g) = pv c.
Proof. unfold start_tcp_attempt. rewrite pv_set_task. reflexivity. Qed.
Lemma P_start_success c : P c (fst (start_success c)).
Proof.
  unfold start_success.
  match goal with |- context [set_start_future ?x] => set (c2 := set_start_future x);
    assert (H2 : pv c2 = pv c) by (unfold c2; rewrite pv_set_start_future; reflexivity) end.
  destruct (cs c2).
  5: { pose proof (P_cleanup c2) as H3. destruct (cleanup c2) as [c3 o]. cbn [fst] in H3.
       match goal with |- context [finish_task ?x ?t ?r] => pose proof (pv_finish_task x t r) as H4; destruct (finish_task x t r) as [c4 o2] end.
       cbn [fst] in *. pv_step H2. eapply P_trans; [exact H3|apply P_pv; exact H4]. }
  all: apply P_pv; rewrite pv_finish_task; exact H2.
Qed.
Lemma P_wake_start c c' o : wake_start c = Some (c', o) -> P c c'.
Proof.
  unfold wake_start. intro E.
  destruct (pc (get_task c TStart)); try discriminate.
  - destruct (_ || _); [|discriminate].
    pose proof (pv_take_cancel c TStart) as H1. destruct (take_cancel c TStart) as [c1 mc]. cbn [fst] in H1.
    match type of E with (match ?d with _ => _ end) = _ => destruct d as [|e] end.
    + apply some_pair_inv in E. destruct E as [<- _]. apply P_pv. rewrite pv_start_tcp_attempt. exact H1.
    + match type of E with context [timeout_exit ?x ?t ?ee] => pose proof (pv_timeout_exit x t ee) as H2; destruct (timeout_exit x t ee) as [c2 e1] end.
      cbn [fst] in H2. apply some_inj in E.
      match type of E with start_fail ?x ?ee = _ => pose proof (P_start_fail x ee) as H3; rewrite E in H3 end.
      cbn [fst] in H3. pv_step H1. eapply P_trans; [apply P_pv; exact H2|exact H3].
  - destruct (_ || _); [|discriminate].
    pose proof (pv_take_cancel c TStart) as H1. destruct (take_cancel c TStart) as [c1 mc]. cbn [fst] in H1.
    match type of E with (match ?d with _ => _ end) = _ => destruct d as [|e] end.
    + apply some_inj in E.
      match type of E with start_success ?x = _ => pose proof (P_start_success x) as H3; rewrite E in H3 end.
      cbn [fst] in H3. pv_step H1. eapply P_trans; [|exact H3]. apply P_pv. reflexivity.
    + match type of E with context [timeout_exit ?x ?t ?ee] => pose proof (pv_timeout_exit x t ee) as H2; destruct (timeout_exit x t ee) as [c2 e1] end.
      cbn [fst] in H2.
      assert (H12 : P c c2) by (pv_step H1; apply P_pv; exact H2).
      destruct (is_oserror e1).
      * destruct groups as [|[|g']].
        1,2: apply some_inj in E;
             match type of E with start_fail ?x ?ee = _ => pose proof (P_start_fail x ee) as H3; rewrite E in H3 end;
             cbn [fst] in H3; eapply P_trans; eassumption.
        apply some_pair_inv in E. destruct E as [<- _]. eapply P_trans; [exact H12|]. apply P_pv, pv_start_tcp_attempt.
      * apply some_inj in E.
        match type of E with start_fail ?x ?ee = _ => pose proof (P_start_fail x ee) as H3; rewrite E in H3 end.
        cbn [fst] in H3. eapply P_trans; eassumption.
Qed.

Lemma P_finish_fail c e : P c (fst (finish_fail c e)).
Proof.
  unfold finish_fail.
  pose proof (pv_interrupt_exit c TFinish e) as H0. destruct (interrupt_exit c TFinish e) as [c0 e1]. cbn [fst] in H0.
  match goal with |- context [cleanup ?x] => pose proof (P_cleanup x) as H1; assert (Hx : pv x = pv c0) by reflexivity;
    destruct (cleanup x) as [c2 o] end.
  cbn [fst] in H1.
  match goal with |- context [finish_task ?x ?t ?r] => pose proof (pv_finish_task x t r) as H2; destruct (finish_task x t r) as [c4 o2] end.
  cbn [fst] in *. rewrite pv_set_finish_future in H2.
  pv_step H0. pv_step Hx. eapply P_trans; [exact H1|]. apply P_pv. exact H2.
Qed.
Lemma P_finish_success c : P c (fst (finish_success c)).
Proof.
  unfold finish_success.
  match goal with |- context [set_finish_future ?x] => set (c2 := set_finish_future x);
    assert (H2 : pv c2 = pv c) by (unfold c2; rewrite pv_set_finish_future; reflexivity) end.
  destruct (cs c2).
  5: { pose proof (P_cleanup c2) as H3. destruct (cleanup c2) as [c3 o]. cbn [fst] in H3.
       match goal with |- context [finish_task ?x ?t ?r] => pose proof (pv_finish_task x t r) as H4; destruct (finish_task x t r) as [c4 o2] end.
       cbn [fst] in *. pv_step H2. eapply P_trans; [exact H3|apply P_pv; exact H4]. }
  all: apply P_pv; rewrite pv_finish_task; exact H2.
Qed.

(* ---------------------------------------------------------------- Q: the resources of the existing calls only shrink *)
Record Q (c c' : conn) : Prop := {
  q_n : (next_cid c <= next_cid c')%nat;
  q_h : forall ty cid, (cid < next_cid c)%nat -> In (ty, HCall cid) (handlers c') -> In (ty, HCall cid) (handlers c);
  q_w : forall cid, (cid < next_cid c)%nat -> In cid (waiters c') -> In cid (waiters c);
  q_t : forall k', In k' (calls c') -> (c_id k' < next_cid c)%nat -> c_timer k' <> None ->
        exists k, In k (calls c) /\ c_id k = c_id k' /\ c_timer k <> None }.

Lemma Q_refl c : Q c c.
Proof. constructor; auto. intros k' H _ T. exists k'. auto. Qed.
Lemma Q_trans a b c : Q a b -> Q b c -> Q a c.
Proof.
  intros [A1 A2 A3 A4] [B1 B2 B3 B4]. constructor.
  - lia.
  - intros ty cid L H. apply A2; [exact L|]. apply B2; [lia|exact H].
  - intros cid L H. apply A3; [exact L|]. apply B3; [lia|exact H].
  - intros k' H L T. destruct (B4 k' H ltac:(lia) T) as (k1 & I1 & E1 & T1).
    destruct (A4 k1 I1 ltac:(lia) T1) as (k0 & I0 & E0 & T0). exists k0. repeat split; [exact I0|congruence|exact T0].
Qed.
Lemma P_Q c c' : P c c' -> Q c c'.
Proof.
  intros [A1 A2 A3 A4]. constructor.
  - lia.
  - intros ty cid _. apply A3.
  - intros cid _. apply A4.
  - intros k' H _ T. destruct (F2_in _ _ _ A2 H) as (k & I & E1 & _ & E3 & _). exists k. repeat split; [exact I|congruence|].
    destruct E3 as [E3|E3]; congruence.
Qed.
Lemma Q_res c c' cid : Q c c' -> (cid < next_cid c)%nat -> res c' cid -> res c cid.
Proof.
  intros [A1 A2 A3 A4] L [(ty & H)|[H|(k' & H & E & T)]].
  - left. exists ty. apply A2; assumption.
  - right. left. apply A3; assumption.
  - right. right. subst cid. destruct (A4 k' H L T) as (k & I & E & T'). exists k. auto.
Qed.
Lemma P_res c c' cid : P c c' -> res c' cid -> res c cid.
Proof.
  intros [A1 A2 A3 A4] [(ty & H)|[H|(k' & H & E & T)]].
  - left. exists ty. apply A3; assumption.
  - right. left. apply A4; assumption.
  - right. right. destruct (F2_in _ _ _ A2 H) as (k & I & E1 & _ & E3 & _). exists k. repeat split; [exact I|congruence|].
    destruct E3 as [E3|E3]; congruence.
Qed.

(* ---------------------------------------------------------------- OT: handlers of a call sit under its own types *)
Record OT (c : conn) : Prop := {
  o_h : forall ty cid, In (ty, HCall cid) (handlers c) -> exists k, get_call c cid = Some k /\ In ty (c_types k);
  o_lt : Forall (fun k => (c_id k < next_cid c)%nat) (calls c);
  o_u : uniq c;
  o_w : forall w, In w (waiters c) -> (w < next_cid c)%nat }.

Lemma P_OT c c' : P c c' -> OT c -> OT c'.
Proof.
  intros HP [B1 B2 B3 B4]. pose proof HP as [A1 A2 A3 A4]. constructor.
  - intros ty cid H. destruct (B1 ty cid (A3 _ _ H)) as (k & G & T).
    pose proof (F2_find _ _ cid A2) as F. unfold get_call in *. rewrite G in F.
    destruct (find _ (calls c')) as [k'|]; [|contradiction]. exists k'. split; [reflexivity|].
    destruct F as (_ & F & _). rewrite F. exact T.
  - rewrite A1. eapply Forall2_Forall; [|exact A2|exact B2]. intros x y (E & _) L. cbn in *. rewrite E. exact L.
  - eapply uniq_P; eassumption.
  - intros w H. rewrite A1. apply B4, A4, H.
Qed.

(* the timers of calls: a call record keeps the time it was sent and its time-out, its timer is kept or cleared; a record that
   appears has its timer at sent + time-out and was sent no later than now *)
Definition cinv (k : call) : Prop := forall d, c_timer k = Some d -> d = c_sent_at k + c_timeout k.
Definition srel (k k' : call) : Prop :=
  c_sent_at k' = c_sent_at k /\ c_timeout k' = c_timeout k /\ (c_timer k' = c_timer k \/ c_timer k' = None).
Definition Kc (c c' : conn) : Prop :=
  forall k', In k' (calls c') -> (exists k, In k (calls c) /\ srel k k') \/ (cinv k' /\ c_sent_at k' <= now c').
Lemma srel_refl k : srel k k.
Proof. unfold srel. auto. Qed.
Lemma Kc_refl c : Kc c c.
Proof. intros k' H. left. exists k'. split; [exact H|apply srel_refl]. Qed.
Lemma cinv_srel k k' : srel k k' -> cinv k -> cinv k'.
Proof. intros (A1 & A2 & A3) H d Hd. rewrite A1, A2. apply H. destruct A3 as [A3|A3]; congruence. Qed.
Lemma Kc_trans a b c : Kc a b -> Kc b c -> now b <= now c -> Kc a c.
Proof.
  intros HA HB N k'' H. destruct (HB k'' H) as [(k' & H' & S')|F]; [|right; exact F].
  destruct (HA k' H') as [(k & H0 & S0)|[F1 F2]].
  - left. exists k. split; [exact H0|]. destruct S0 as (A1 & A2 & A3). destruct S' as (B1 & B2 & B3).
    split; [congruence|]. split; [congruence|]. destruct B3 as [B3|B3]; [|right; exact B3]. destruct A3 as [A3|A3]; [left|right]; congruence.
  - right. split; [eapply cinv_srel; eassumption|]. destruct S' as (B1 & _). rewrite B1. lia.
Qed.
Lemma P_Kc c c' : P c c' -> Kc c c'.
Proof.
  intros HP k' H. left. destruct (F2_in _ _ _ (p_c _ _ HP) H) as (k & I & _ & _ & T & S1 & S2). exists k. split; [exact I|].
  split; [exact S1|]. split; [exact S2|exact T].
Qed.

Record R (c c' : conn) : Prop := {
  r_q : Q c c';
  r_o : OT c -> OT c';
  r_k : Kc c c';
  r_n : now c <= now c' }.
Lemma R_refl c : R c c.
Proof. constructor; [apply Q_refl|auto|apply Kc_refl|lia]. Qed.
Lemma R_trans a b c : R a b -> R b c -> R a c.
Proof.
  intros [A1 A2 A3 A4] [B1 B2 B3 B4]. constructor; [eapply Q_trans; eassumption|auto|eapply Kc_trans; eassumption|lia].
Qed.
Lemma P_R c c' : P c c' -> R c c'.
Proof. intro H. constructor; [apply P_Q; exact H|apply P_OT; exact H|apply P_Kc; exact H|rewrite (p_now _ _ H); lia]. Qed.

(* registering the handlers of a new call *)
Lemma in_fold_add l h : forall c p, In p (handlers (fold_left (fun a ty => add_handler a ty h) l c)) ->
  In p (handlers c) \/ (snd p = h /\ In (fst p) l).
Proof.
  induction l as [|ty l IHl]; intros c p H; cbn [fold_left] in H; [left; exact H|].
  destruct (IHl _ _ H) as [H1|[H1 H2]].
  - unfold add_handler in H1. destruct (existsb _ _); [left; exact H1|]. cbn in H1. apply in_app_or in H1.
    destruct H1 as [H1|[<-|[]]]; [left; exact H1|right; cbn; auto].
  - right. split; [exact H1|right; exact H2].
Qed.
Lemma fold_add_keeps l h : forall c, calls (fold_left (fun a ty => add_handler a ty h) l c) = calls c /\
  next_cid (fold_left (fun a ty => add_handler a ty h) l c) = next_cid c /\
  waiters (fold_left (fun a ty => add_handler a ty h) l c) = waiters c /\
  now (fold_left (fun a ty => add_handler a ty h) l c) = now c.
Proof.
  induction l as [|ty l IHl]; intro c; cbn [fold_left]; [auto|].
  destruct (IHl (add_handler c ty h)) as (A & B & D & F). rewrite A, B, D, F.
  unfold add_handler. destruct (existsb _ _); auto.
Qed.

Lemma find_none_lt (l : list call) n : Forall (fun k => (c_id k < n)%nat) l -> find (fun k => Nat.eqb (c_id k) n) l = None.
Proof.
  induction 1 as [|x l Hx _ IH]; cbn; [reflexivity|].
  destruct (Nat.eqb (c_id x) n) eqn:E; [apply Nat.eqb_eq in E; lia|exact IH].
Qed.

Lemma R_call_begin c owner send types ap st tmo :
  R c (fst (fst (fst (call_begin c owner send types ap st tmo)))).
Proof.
  unfold call_begin.
  pose proof (P_send_messages c send) as HP. destruct (send_messages c send) as [[c1 o] ex]. cbn [fst] in HP.
  destruct ex; cbn [fst]; [apply P_R; exact HP|].
  eapply R_trans; [apply P_R; exact HP|].
  match goal with |- R c1 (fold_left ?f types ?x) => set (c2 := x); set (c3 := fold_left f types c2) end.
  destruct (fold_add_keeps types (HCall (next_cid c1)) c2) as (K1 & K2 & K3 & K4). fold c3 in K1, K2, K3, K4. cbn in K1, K2, K3, K4.
  constructor.
  - constructor.
    + rewrite K2. lia.
    + intros ty cid L H. destruct (in_fold_add _ _ _ _ H) as [H1|[H1 _]]; [exact H1|]. cbn in H1. injection H1 as H1. lia.
    + intros cid L H. rewrite K3 in H. apply in_app_or in H. destruct H as [H|[H|[]]]; [exact H|lia].
    + intros k' H L T. rewrite K1 in H. apply in_app_or in H. destruct H as [H|[H|[]]].
      * exists k'. auto.
      * subst k'. cbn in L. lia.
  - intros [B1 B2 B3 B4]. constructor.
    + intros ty cid H. unfold get_call. rewrite K1.
      destruct (in_fold_add _ _ _ _ H) as [H1|[H1 H2]].
      * destruct (B1 ty cid H1) as (k & G & T). exists k. split; [|exact T]. apply find_app_some. exact G.
      * cbn in H1, H2. injection H1 as H1. subst cid. rewrite find_app_none by (apply find_none_lt; exact B2).
        cbn. rewrite Nat.eqb_refl. eexists. split; [reflexivity|exact H2].
    + rewrite K1, K2. apply Forall_app. split.
      * eapply Forall_impl; [|exact B2]. cbn. intros; lia.
      * constructor; [cbn; lia|constructor].
    + unfold uniq. rewrite K1, map_app. cbn.
      apply NoDup_app_singleton; [exact B3|]. intro H. apply in_map_iff in H. destruct H as (k & E & I).
      rewrite Forall_forall in B2. specialize (B2 k I). cbn in B2. lia.
    + intros w H. rewrite K3 in H. rewrite K2. apply in_app_or in H. destruct H as [H|[<-|[]]]; [specialize (B4 w H); lia|lia].
  - intros k' H. rewrite K1 in H. apply in_app_or in H. destruct H as [H|[H|[]]].
    + left. exists k'. split; [exact H|apply srel_refl].
    + right. subst k'. split; [intros d Hd; cbn in *; congruence|cbn; rewrite K4; lia].
  - rewrite K4. lia.
Qed.

(* ---------------------------------------------------------------- the finally block removes everything *)
Lemma calls_fold_remove l h : forall c, calls (fold_left (fun a ty => remove_handler a ty h) l c) = calls c.
Proof. induction l as [|a l IHl]; intro c; cbn [fold_left]; [reflexivity|]. rewrite IHl. reflexivity. Qed.
Lemma waiters_fold_remove l h : forall c, waiters (fold_left (fun a ty => remove_handler a ty h) l c) = waiters c.
Proof. induction l as [|a l IHl]; intro c; cbn [fold_left]; [reflexivity|]. rewrite IHl. reflexivity. Qed.

Lemma call_finally_clean_all c cid k : OT c -> get_call c cid = Some k -> ~ res (call_finally c cid) cid.
Proof.
  intros [B1 _ _ _] G. unfold call_finally. rewrite G.
  intros [(ty & H)|[H|(k' & H & E & T)]].
  - cbn [handlers set] in H. rewrite handlers_remove_fold in H. apply filter_In in H. destruct H as [H F].
    cbn [handlers upd_call set] in H. destruct (B1 ty cid H) as (k0 & G0 & T0). rewrite G in G0. apply some_inj in G0. subst k0.
    cbn [fst snd] in F. rewrite hid_eqb_refl, andb_true_r in F.
    assert (X : existsb (N.eqb ty) (c_types k) = true) by (apply existsb_exists; exists ty; split; [exact T0|apply N.eqb_refl]).
    rewrite X in F. discriminate.
  - cbn [waiters set] in H. apply filter_In in H. destruct H as [_ F]. rewrite Nat.eqb_refl in F. discriminate.
  - cbn [calls set] in H. rewrite calls_fold_remove in H. cbn [calls upd_call set] in H.
    apply in_map_iff in H. destruct H as (x & Ex & _). apply T. subst k'.
    destruct (Nat.eqb (c_id x) cid) eqn:Q0; [reflexivity|]. apply Nat.eqb_neq in Q0. contradiction.
Qed.

(* ---------------------------------------------------------------- finish_connection / disconnect / calls *)
Lemma R_finish_after_ready c : R c (fst (finish_after_ready c)).
Proof.
  unfold finish_after_ready. set (c0 := c <| hs_timer := None |>).
  assert (H0 : P c c0) by (apply P_pv; reflexivity).
  destruct (cs c0).
  5: { apply P_R. eapply P_trans; [exact H0|apply P_finish_fail]. }
  all: match goal with |- context [call_begin ?x ?a ?b ?d ?e ?f ?g] =>
         assert (Hx : P c x) by (eapply P_trans; [exact H0|]; apply P_pv; rewrite pv_internal_handlers; reflexivity);
         pose proof (R_call_begin x a b d e f g) as HB; destruct (call_begin x a b d e f g) as [[[c2 o] ex] cid] end;
       cbn [fst] in HB;
       (destruct ex as [e|]; [pose proof (P_finish_fail c2 e) as HF; destruct (finish_fail c2 e) as [c3 o3]; cbn [fst] in *;
                               eapply R_trans; [apply P_R; exact Hx|]; eapply R_trans; [exact HB|apply P_R; exact HF]
                             | cbn [fst]; eapply R_trans; [apply P_R; exact Hx|exact HB]]).
Qed.

Ltac finR E L := apply some_inj in E; let H := fresh "HB" in pose proof L as H; rewrite E in H; cbn [fst] in H.

Lemma wake_finish_R c c' o : wake_finish c = Some (c', o) -> OT c ->
  R c c' /\ (forall cid, pc (t_finish c) = PF_Hello cid -> ~ res c' cid).
Proof.
  unfold wake_finish. cbn [get_task]. intros E HO.
  destruct (pc (t_finish c)) eqn:Epc; try discriminate.
  - (* PF_Create *)
    split; [|intros cid X; discriminate].
    destruct (_ || _); [|discriminate].
    pose proof (pv_take_cancel c TFinish) as H1. destruct (take_cancel c TFinish) as [c1 mc]. cbn [fst] in H1.
    match type of E with (match ?d with _ => _ end) = _ => destruct d as [|e] end.
    + match type of E with context [ready ?x] => set (c2 := x) in *; assert (H2 : P c c2) by (pv_step H1; apply P_pv; reflexivity) end.
      destruct (ready c2).
      * apply some_pair_inv in E. destruct E as [<- _]. apply P_R. eapply P_trans; [exact H2|apply P_pv, pv_set_task].
      * finR E (R_finish_after_ready c2). eapply R_trans; [apply P_R; exact H2|exact HB].
      * match type of E with Some (finish_fail ?x ?ee) = _ => finR E (P_finish_fail x ee) end. apply P_R. eapply P_trans; eassumption.
      * match type of E with Some (finish_fail ?x ?ee) = _ => finR E (P_finish_fail x ee) end. apply P_R. eapply P_trans; eassumption.
    + match type of E with context [finish_fail ?x ?ee] =>
        assert (H2 : P c x) by (pv_step H1; destruct (transport c1); first [apply P_refl|apply P_pv; reflexivity]);
        pose proof (P_finish_fail x ee) as H3; destruct (finish_fail x ee) as [c3 o3] end.
      cbn [fst] in H3. apply some_pair_inv in E. destruct E as [<- _]. apply P_R. eapply P_trans; eassumption.
  - (* PF_Ready *)
    split; [|intros cid X; discriminate].
    destruct (_ || _); [|discriminate].
    pose proof (pv_take_cancel c TFinish) as H1. destruct (take_cancel c TFinish) as [c1 mc]. cbn [fst] in H1.
    assert (H2 : P c c1) by (apply P_pv; exact H1).
    destruct mc.
    + match type of E with Some (finish_fail ?x ?ee) = _ => finR E (P_finish_fail x ee) end. apply P_R. eapply P_trans; eassumption.
    + destruct (ready c1).
      * match type of E with Some (finish_fail ?x ?ee) = _ => finR E (P_finish_fail x ee) end. apply P_R. eapply P_trans; eassumption.
      * finR E (R_finish_after_ready c1). eapply R_trans; [apply P_R; exact H2|exact HB].
      * match type of E with Some (finish_fail ?x ?ee) = _ => finR E (P_finish_fail x ee) end. apply P_R. eapply P_trans; eassumption.
      * match type of E with Some (finish_fail ?x ?ee) = _ => finR E (P_finish_fail x ee) end. apply P_R. eapply P_trans; eassumption.
  - (* PF_Hello *)
    destruct (get_call c cid) as [kk|] eqn:Eg; [|discriminate].
    destruct (_ || _); [|discriminate].
    pose proof (pv_take_cancel c TFinish) as H1. destruct (take_cancel c TFinish) as [c1 mc]. cbn [fst] in H1.
    assert (H2 : P c c1) by (apply P_pv; exact H1).
    assert (O1 : OT c1) by (eapply P_OT; eassumption).
    assert (G1 : exists k1, get_call c1 cid = Some k1).
    { pose proof (F2_find _ _ cid (p_c _ _ H2)) as F. unfold get_call in *. rewrite Eg in F. destruct (find _ (calls c1)); [eauto|contradiction]. }
    destruct G1 as (k1 & G1).
    pose proof (call_finally_clean_all c1 cid k1 O1 G1) as CL.
    pose proof (P_call_finally c1 cid) as H3.
    assert (X : P (call_finally c1 cid) c').
    { match type of E with (match ?d with _ => _ end) = _ => destruct d as [|e] end.
      - destruct (check_hello_login _ _).
        + match type of E with Some (finish_fail ?x ?ee) = _ => finR E (P_finish_fail x ee) end. exact HB.
        + match type of E with Some (finish_success ?x) = _ => finR E (P_finish_success x) end. exact HB.
      - match type of E with Some (finish_fail ?x ?ee) = _ => finR E (P_finish_fail x ee) end. exact HB. }
    split.
    + apply P_R. eapply P_trans; [exact H2|]. eapply P_trans; eassumption.
    + intros cid' Hc. injection Hc as <-. intro Hr. apply CL. eapply P_res; eassumption.
Qed.

Lemma R_disconnect_after_wait c : R c (fst (disconnect_after_wait c)).
Proof.
  unfold disconnect_after_wait. set (c1 := c <| expected_disconnect := true |>).
  assert (H0 : P c c1) by (apply P_pv; reflexivity).
  destruct (handshake_complete c1).
  - match goal with |- context [call_begin ?x ?a ?b ?d ?e ?f ?g] =>
      pose proof (R_call_begin x a b d e f g) as HB; destruct (call_begin x a b d e f g) as [[[c2 o] ex] cid] end.
    cbn [fst] in HB. eapply R_trans; [apply P_R; exact H0|]. eapply R_trans; [exact HB|]. apply P_R.
    destruct ex as [[l| | | | |]|].
    2-6: match goal with |- context [finish_task ?x ?t ?r] => pose proof (pv_finish_task x t r) as H4; destruct (finish_task x t r) as [c4 o4] end;
         cbn [fst] in *; apply P_pv; exact H4.
    + pose proof (P_cleanup c2) as H3. destruct (cleanup c2) as [c3 o3]. cbn [fst] in H3.
      match goal with |- context [finish_task ?x ?t ?r] => pose proof (pv_finish_task x t r) as H4; destruct (finish_task x t r) as [c4 o4] end.
      cbn [fst] in *. eapply P_trans; [exact H3|apply P_pv; exact H4].
    + cbn [fst]. apply P_pv, pv_set_task.
  - pose proof (P_cleanup c1) as H3. destruct (cleanup c1) as [c3 o3]. cbn [fst] in H3.
    match goal with |- context [finish_task ?x ?t ?r] => pose proof (pv_finish_task x t r) as H4; destruct (finish_task x t r) as [c4 o4] end.
    cbn [fst] in *. apply P_R. eapply P_trans; [exact H0|]. eapply P_trans; [exact H3|apply P_pv; exact H4].
Qed.

Lemma wake_disc_R c c' o : wake_disc c = Some (c', o) -> OT c ->
  R c c' /\ (forall cid, pc (t_disc c) = PD_Resp cid -> ~ res c' cid).
Proof.
  unfold wake_disc. cbn [get_task]. intros E HO.
  destruct (pc (t_disc c)) eqn:Epc; try discriminate.
  - (* PD_Wait *)
    split; [|intros cid X; discriminate].
    destruct (_ || _); [|discriminate].
    pose proof (pv_take_cancel c TDisc) as H1. destruct (take_cancel c TDisc) as [c1 mc]. cbn [fst] in H1.
    destruct mc.
    + apply some_pair_inv in E. destruct E as [<- _]. apply P_R, P_pv. rewrite pv_set_task. exact H1.
    + match type of E with Some (disconnect_after_wait ?x) = _ =>
        assert (H2 : P c x) by (pv_step H1; repeat dm; first [apply P_refl|apply P_pv; reflexivity]);
        finR E (R_disconnect_after_wait x) end.
      eapply R_trans; [apply P_R; exact H2|exact HB].
  - (* PD_Resp *)
    destruct (get_call c cid) as [kk|] eqn:Eg; [|discriminate].
    destruct (_ || _); [|discriminate].
    pose proof (pv_take_cancel c TDisc) as H1. destruct (take_cancel c TDisc) as [c1 mc]. cbn [fst] in H1.
    assert (H2 : P c c1) by (apply P_pv; exact H1).
    assert (O1 : OT c1) by (eapply P_OT; eassumption).
    assert (G1 : exists k1, get_call c1 cid = Some k1).
    { pose proof (F2_find _ _ cid (p_c _ _ H2)) as F. unfold get_call in *. rewrite Eg in F. destruct (find _ (calls c1)); [eauto|contradiction]. }
    destruct G1 as (k1 & G1).
    pose proof (call_finally_clean_all c1 cid k1 O1 G1) as CL.
    pose proof (P_call_finally c1 cid) as H3.
    assert (X : P (call_finally c1 cid) c').
    { match type of E with (match ?d with _ => _ end) = _ => destruct d as [|[l| | | | |]] end.
      3-7: apply some_pair_inv in E; destruct E as [<- _]; apply P_pv, pv_set_task.
      all: match type of E with context [cleanup ?x] => pose proof (P_cleanup x) as H4; destruct (cleanup x) as [c3 o3] end; cbn [fst] in H4;
           match type of E with context [finish_task ?x ?t ?r] => pose proof (pv_finish_task x t r) as H5; destruct (finish_task x t r) as [c4 o4] end;
           cbn [fst] in H5; apply some_pair_inv in E; destruct E as [<- _]; eapply P_trans; [exact H4|apply P_pv; exact H5]. }
    split.
    + apply P_R. eapply P_trans; [exact H2|]. eapply P_trans; eassumption.
    + intros cid' Hc. injection Hc as <-. intro Hr. apply CL. eapply P_res; eassumption.
Qed.

Lemma wake_call_R c cid c' o : wake_call c cid = Some (c', o) -> OT c ->
  P c c' /\ ~ res c' cid /\ exists r, o = [OTaskDone (TCall cid) r].
Proof.
  unfold wake_call. intros E HO.
  destruct (pc (get_task c (TCall cid))); try discriminate.
  destruct (get_call c cid) as [kk|] eqn:Eg; [|discriminate].
  destruct (_ || _); [|discriminate].
  pose proof (pv_take_cancel c (TCall cid)) as H1. destruct (take_cancel c (TCall cid)) as [c1 mc]. cbn [fst] in H1.
  assert (H2 : P c c1) by (apply P_pv; exact H1).
  assert (O1 : OT c1) by (eapply P_OT; eassumption).
  assert (G1 : exists k1, get_call c1 cid = Some k1).
  { pose proof (F2_find _ _ cid (p_c _ _ H2)) as F. unfold get_call in *. rewrite Eg in F. destruct (find _ (calls c1)); [eauto|contradiction]. }
  destruct G1 as (k1 & G1).
  pose proof (call_finally_clean_all c1 cid k1 O1 G1) as CL.
  pose proof (P_call_finally c1 cid) as H3.
  apply some_inj in E. unfold finish_task in E. apply pair_inv in E. destruct E as [<- <-].
  split; [|split].
  - eapply P_trans; [exact H2|]. eapply P_trans; [exact H3|apply P_pv, pv_set_task].
  - intro Hr. apply CL. eapply P_res; [|exact Hr]. apply P_pv, pv_set_task.
  - eexists. reflexivity.
Qed.

Lemma call_begin_exc_P c owner send types ap st tmo e :
  snd (fst (call_begin c owner send types ap st tmo)) = Some e -> P c (fst (fst (fst (call_begin c owner send types ap st tmo)))).
Proof.
  unfold call_begin.
  pose proof (P_send_messages c send) as HP. destruct (send_messages c send) as [[c1 o] ex]. cbn [fst] in HP.
  destruct ex; cbn [fst snd]; [intros _; exact HP|discriminate].
Qed.

(* ---------------------------------------------------------------- every step *)
Ltac sameP E := apply some_pair_inv in E; destruct E as [<- _]; apply P_R; first [apply P_refl | apply P_pv; reflexivity].

Theorem step_R c l c' o : OT c -> step c l = Some (c', o) -> R c c'.
Proof.
  intros HO E. destruct l; cbn [step] in E.
  - (* LStart *) destruct (cs c); try sameP E. destruct (pc (t_start c)); try discriminate. sameP E.
  - (* LFinish *) destruct (cs c); try sameP E. destruct (pc (t_finish c)); try discriminate. sameP E.
  - (* LDisconnect *)
    destruct (pc (t_disc c)); try discriminate. destruct (finish_fut c).
    2: sameP E.
    all: match type of E with Some (disconnect_after_wait ?x) = _ =>
           assert (H2 : P c x) by (apply P_pv; reflexivity); finR E (R_disconnect_after_wait x) end;
         (eapply R_trans; [apply P_R; exact H2|exact HB]).
  - (* LForce *)
    set (c1 := c <| expected_disconnect := true |>) in *.
    assert (H0 : P c c1) by (apply P_pv; reflexivity).
    destruct (handshake_complete c1).
    + pose proof (P_send_messages c1 [T_DISC_REQ]) as S. destruct (send_messages c1 [T_DISC_REQ]) as [[c2 o2] ex]. cbn [fst] in S.
      destruct ex as [[l| | | | |]|].
      2-6: apply some_pair_inv in E; destruct E as [<- _]; apply P_R; eapply P_trans; eassumption.
      all: pose proof (P_cleanup c2) as S2'; destruct (cleanup c2) as [c3 o3]; cbn [fst] in S2';
           apply some_pair_inv in E; destruct E as [<- _]; apply P_R; eapply P_trans; [exact H0|]; eapply P_trans; eassumption.
    + pose proof (P_cleanup c1) as S2'. destruct (cleanup c1) as [c3 o3]. cbn [fst] in S2'.
      apply some_pair_inv in E. destruct E as [<- _]. apply P_R. eapply P_trans; eassumption.
  - (* LCallStart *)
    match type of E with context [call_begin ?x ?a ?b ?d ?e ?f ?g] =>
      assert (H0 : P c x) by (apply P_pv; reflexivity);
      pose proof (R_call_begin x a b d e f g) as HB; pose proof (call_begin_exc_P x a b d e f g) as HX;
      destruct (call_begin x a b d e f g) as [[[c1 o1] ex] cid'] end.
    cbn [fst snd] in HB, HX.
    destruct ex as [e|].
    + apply some_pair_inv in E. destruct E as [<- _]. cbn [finish_task fst].
      specialize (HX e eq_refl).
      eapply R_trans; [apply P_R; exact H0|]. eapply R_trans; [apply P_R; exact HX|].
      match goal with |- R c1 (set_task ?x _ _) => apply (R_trans c1 x); [|apply P_R, P_pv, pv_set_task] end.
      pose proof (p_n _ _ HX) as N1. cbn in N1.
      constructor.
      * constructor; cbn; auto; [lia|]. intros k' H _ T. exists k'. auto.
      * intros [B1 B2 B3 B4]. constructor; cbn; auto.
        -- eapply Forall_impl; [|exact B2]. cbn. intros a Ha. lia.
        -- intros w Hw. specialize (B4 w Hw). lia.
      * intros k' H. left. exists k'. split; [exact H|apply srel_refl].
      * cbn. lia.
    + apply some_pair_inv in E. destruct E as [<- _]. eapply R_trans; [apply P_R; exact H0|exact HB].
  - (* LSend *)
    pose proof (P_send_messages c tys) as S. destruct (send_messages c tys) as [[c1 o1] ex]. cbn [fst] in S.
    apply some_pair_inv in E. destruct E as [<- _]. apply P_R. exact S.
  - (* LCancel *)
    destruct (task_running _).
    + apply some_pair_inv in E. destruct E as [<- _]. apply P_R.
      eapply P_trans; [|apply P_cancel_task]. apply P_pv, pv_set_task.
    + sameP E.
  - (* LSub *) apply some_pair_inv in E. destruct E as [<- _]. apply P_R, P_pv, pv_add_other. discriminate.
  - (* LUnsub *) apply some_pair_inv in E. destruct E as [<- _]. apply P_R, P_remove.
  - (* LResolveDone *) destruct (pc (t_start c)); try discriminate. destruct (do_connect c); try discriminate. sameP E.
  - (* LTcpDone *) destruct (pc (t_start c)); try discriminate. destruct (do_connect c); try discriminate. sameP E.
  - (* LMade *) destruct (transport c); try discriminate. destruct (made c); try discriminate. destruct (noise c); sameP E.
  - (* LMadeWaiter *) destruct (made_waiter c); try discriminate; sameP E.
  - (* LHelperReady *)
    destruct (ready c); try discriminate. destruct (made c); try discriminate. destruct (transport c) eqn:Etr; try discriminate.
    destruct r as [e|]; [|sameP E].
    pose proof (P_helper_error c e) as S. destruct (helper_error c e) as [c1 o1]. cbn [fst] in S.
    destruct (transport c1); apply some_pair_inv in E; destruct E as [<- _]; apply P_R;
      first [exact S | eapply P_trans; [exact S|apply P_pv; reflexivity]].
  - (* LData *)
    destruct (transport c); try discriminate. destruct (made c); try discriminate.
    pose proof (P_data_loop items c (o_u _ HO)) as S.
    destruct (data_loop c items) as [[c1 o1] ex]. cbn [fst] in S.
    destruct ex as [e|]; apply some_pair_inv in E; destruct E as [<- _]; apply P_R; [|exact S].
    destruct (transport c1); first [exact S | eapply P_trans; [exact S|apply P_pv; reflexivity]].
  - (* LEof *)
    destruct (transport c); try discriminate. destruct (made c); try discriminate.
    pose proof (P_helper_error c (Lib LSocketClosed)) as S.
    destruct (helper_error c (Lib LSocketClosed)) as [c1 o1]. cbn [fst] in S.
    destruct (transport c1); apply some_pair_inv in E; destruct E as [<- _]; apply P_R;
      first [exact S | eapply P_trans; [exact S|apply P_pv; reflexivity]].
  - (* LLost *) destruct (transport c); try discriminate. sameP E.
  - (* LWriteFails *) sameP E.
  - (* LAdvance *) destruct (_ && _) eqn:Eg; [|discriminate]. apply some_pair_inv in E. destruct E as [<- _].
    apply andb_true_iff in Eg. destruct Eg as [Eg _]. apply Z.leb_le in Eg.
    constructor; [constructor; cbn; auto; intros k' H _ T; exists k'; auto|intros [B1 B2 B3 B4]; constructor; auto| |cbn; exact Eg].
    intros k' H. left. exists k'. split; [exact H|apply srel_refl].
  - (* LWake *)
    destruct t.
    + apply P_R. eapply P_wake_start. exact E.
    + apply (wake_finish_R c c' o E HO).
    + apply (wake_disc_R c c' o E HO).
    + apply P_R. apply (wake_call_R c cid c' o E HO).
  - (* LIntr *)
    destruct is_start.
    + destruct (start_fut c); try discriminate. destruct (intr_start c); try discriminate; [|sameP E].
      apply some_pair_inv in E. destruct E as [<- _]. apply P_R. eapply P_trans; [|apply P_cancel_task]. apply P_pv. reflexivity.
    + destruct (finish_fut c); try discriminate. destruct (intr_finish c); try discriminate; [|sameP E].
      apply some_pair_inv in E. destruct E as [<- _]. apply P_R. eapply P_trans; [|apply P_cancel_task]. apply P_pv. reflexivity.
  - (* LDiscWaitDone *)
    destruct (pc (t_disc c)); try discriminate. destruct (finish_fut c); try discriminate; destruct (disc_wait_done c); try discriminate; sameP E.
  - (* LConnLostCb *)
    destruct (transport c); try discriminate.
    match type of E with context [made ?x] => set (c1 := x) in *; assert (H0 : P c c1) by (apply P_pv; reflexivity) end.
    destruct (made c1); [|sameP E].
    apply some_inj in E. match type of E with helper_error c1 ?x = _ => pose proof (P_helper_error c1 x) as S end.
    rewrite E in S. cbn [fst] in S. apply P_R. eapply P_trans; eassumption.
  - (* LTimer *)
    destruct k.
    + destruct (due _ _); [|discriminate].
      set (c0 := c <| ping_timer := None |>) in *. assert (H0 : P c c0) by (apply P_pv; reflexivity).
      destruct (send_pending_ping c0); [|sameP E].
      pose proof (P_send_messages c0 [T_PING_REQ]) as S. destruct (send_messages c0 [T_PING_REQ]) as [[c1 o1] ex]. cbn [fst] in S.
      destruct ex as [e|]; apply some_pair_inv in E; destruct E as [<- _]; apply P_R.
      * eapply P_trans; eassumption.
      * eapply P_trans; [exact H0|]. eapply P_trans; [exact S|]. destruct (pong_timer c1); apply P_pv; reflexivity.
    + destruct (due _ _); [|discriminate]. apply some_inj in E.
      pose proof (P_report_fatal c (Lib LPingFailed)) as S. rewrite E in S. apply P_R. exact S.
    + destruct (due _ _); [|discriminate]. destruct (ready c); sameP E.
    + destruct (due _ _); [|discriminate].
      apply some_pair_inv in E. destruct E as [<- _]. apply P_R. eapply P_trans; [|apply P_cancel_task]. apply P_pv. reflexivity.
    + destruct (get_call c cid) as [kk|]; [|discriminate]. destruct (due _ _); [|discriminate].
      apply some_pair_inv in E. destruct E as [<- _]. apply P_R. apply P_upd_call. intro x. unfold trel.
      destruct (c_fut x); cbn; auto 6.
    + destruct (pc (t_disc c)); try discriminate. destruct (due _ _); [|discriminate]. sameP E.
Qed.

(* ---------------------------------------------------------------- all runs *)
Lemma OT_init n e ka scr : OT (init n e ka scr).
Proof. constructor; cbn; [intros ty cid []|constructor|constructor|intros w []]. Qed.

Lemma run_R ls : forall c c' os, OT c -> run c ls = Some (c', os) -> R c c' /\ OT c'.
Proof.
  induction ls as [|l ls IH]; intros c c' os HO E; cbn [run] in E.
  - apply some_pair_inv in E. destruct E as [<- _]. split; [apply R_refl|exact HO].
  - destruct (step c l) as [[c1 o]|] eqn:Es; [|discriminate].
    destruct (run c1 ls) as [[c2 os2]|] eqn:Er; [|discriminate].
    apply some_pair_inv in E. destruct E as [<- _].
    pose proof (step_R c l c1 o HO Es) as R1. destruct (IH c1 c2 os2 (r_o _ _ R1 HO) Er) as [R2 O2].
    split; [eapply R_trans; [exact R1|exact R2]|exact O2].
Qed.

Lemma get_call_lt c cid k : OT c -> get_call c cid = Some k -> (cid < next_cid c)%nat.
Proof.
  intros [_ B2 _ _] G. unfold get_call in G. apply find_some in G. destruct G as [I E]. apply Nat.eqb_eq in E.
  rewrite Forall_forall in B2. specialize (B2 k I). cbn in B2. lia.
Qed.

Lemma stays_clean c cid ls c' os : OT c -> (cid < next_cid c)%nat -> ~ res c cid -> run c ls = Some (c', os) -> ~ res c' cid.
Proof.
  intros HO L CL E Hr. destruct (run_R ls c c' os HO E) as [[Q1 _ _ _] _]. apply CL. eapply Q_res; eassumption.
Qed.

(* a request/response call: the wake-up that ends it (result, time-out, cancellation, connection error alike) leaves no handler,
   no waiter and no timer of that call, and none ever comes back *)
Theorem call_leaves_nothing n e ka scr l1 c1 os1 cid c2 o l2 c3 os3 :
  run (init n e ka scr) l1 = Some (c1, os1) -> step c1 (LWake (TCall cid)) = Some (c2, o) -> run c2 l2 = Some (c3, os3) ->
  (exists r, o = [OTaskDone (TCall cid) r]) /\ ~ res c2 cid /\ ~ res c3 cid.
Proof.
  intros E1 Es E2. destruct (run_R l1 _ _ _ (OT_init n e ka scr) E1) as [_ O1].
  cbn [step] in Es. destruct (wake_call_R c1 cid c2 o Es O1) as (HP & CL & Hr).
  assert (L : (cid < next_cid c2)%nat).
  { unfold wake_call in Es. destruct (pc _); try discriminate. destruct (get_call c1 cid) as [kk|] eqn:G; [|discriminate].
    rewrite (p_n _ _ HP). eapply get_call_lt; eassumption. }
  split; [exact Hr|]. split; [exact CL|]. eapply stays_clean; [eapply P_OT; eassumption|exact L|exact CL|exact E2].
Qed.

(* a call that could not even be sent registers nothing *)
Theorem unsent_call_registers_nothing n e ka scr l1 c1 os1 send types ap st tmo c2 o t r l2 c3 os3 :
  run (init n e ka scr) l1 = Some (c1, os1) -> step c1 (LCallStart send types ap st tmo) = Some (c2, o) ->
  In (OTaskDone t r) o -> run c2 l2 = Some (c3, os3) ->
  t = TCall (next_cid c1) /\ ~ res c2 (next_cid c1) /\ ~ res c3 (next_cid c1).
Proof.
  intros E1 Es Hin E2. destruct (run_R l1 _ _ _ (OT_init n e ka scr) E1) as [_ O1].
  pose proof (step_R _ _ _ _ O1 Es) as [Q2 O2 _ _]. specialize (O2 O1).
  cbn [step] in Es.
  match type of Es with context [call_begin ?x ?a ?b ?d ?ee ?f ?g] =>
    assert (H0 : P c1 x) by (apply P_pv; reflexivity);
    pose proof (call_begin_exc_P x a b d ee f g) as HX; pose proof (no_done_call_begin x a b d ee f g) as ND;
    destruct (call_begin x a b d ee f g) as [[[c1' o1] ex] cid'] end.
  cbn [fst snd] in HX, ND.
  destruct ex as [e0|].
  2: { apply some_pair_inv in Es. destruct Es as [_ <-]. exfalso. eapply ND. exact Hin. }
  specialize (HX e0 eq_refl).
  apply some_pair_inv in Es. destruct Es as [<- <-]. cbn [finish_task fst snd] in *.
  apply in_app_or in Hin. destruct Hin as [Hin|[Hin|[]]]; [exfalso; eapply ND; exact Hin|].
  injection Hin as <- _.
  assert (CL : ~ res (set_task (c1' <| next_cid := S (next_cid c1) |>) (TCall (next_cid c1))
                       (get_task (c1' <| next_cid := S (next_cid c1) |>) (TCall (next_cid c1)) <| pc := PDone (TRaise e0) |>)) (next_cid c1)).
  { intro Hr. apply (P_res (c1' <| next_cid := S (next_cid c1) |>)) in Hr; [|apply P_pv, pv_set_task].
    assert (Hr1 : res c1 (next_cid c1)).
    { eapply P_res; [eapply P_trans; [exact H0|exact HX]|].
      destruct Hr as [(ty & H)|[H|(k' & H & E & T)]]; [left; exists ty; exact H|right; left; exact H|right; right; exists k'; auto]. }
    destruct O1 as [B1 B2 _ B4].
    destruct Hr1 as [(ty & H)|[H|(k' & H & E & T)]].
    - destruct (B1 ty _ H) as (k & G & _). unfold get_call in G. rewrite find_none_lt in G by exact B2. discriminate.
    - specialize (B4 _ H). lia.
    - rewrite Forall_forall in B2. specialize (B2 k' H). cbn in B2. lia. }
  split; [reflexivity|]. split; [exact CL|].
  eapply stays_clean; [exact O2| |exact CL|exact E2].
  cbn. lia.
Qed.

(* the same for the two calls the library makes itself: hello / login inside finish_connection, and disconnect() *)
Theorem hello_call_leaves_nothing n e ka scr l1 c1 os1 cid c2 o l2 c3 os3 :
  run (init n e ka scr) l1 = Some (c1, os1) -> pc (t_finish c1) = PF_Hello cid ->
  step c1 (LWake TFinish) = Some (c2, o) -> run c2 l2 = Some (c3, os3) ->
  ~ res c2 cid /\ ~ res c3 cid.
Proof.
  intros E1 Hpc Es E2. destruct (run_R l1 _ _ _ (OT_init n e ka scr) E1) as [_ O1].
  cbn [step] in Es. destruct (wake_finish_R c1 c2 o Es O1) as ([Q2 O2 _ _] & CL). specialize (CL cid Hpc). specialize (O2 O1).
  assert (L : (cid < next_cid c2)%nat).
  { unfold wake_finish in Es. cbn [get_task] in Es. rewrite Hpc in Es. destruct (get_call c1 cid) as [kk|] eqn:G; [|discriminate].
    pose proof (get_call_lt _ _ _ O1 G). pose proof (q_n _ _ Q2). lia. }
  split; [exact CL|]. eapply stays_clean; eassumption.
Qed.

Theorem disconnect_call_leaves_nothing n e ka scr l1 c1 os1 cid c2 o l2 c3 os3 :
  run (init n e ka scr) l1 = Some (c1, os1) -> pc (t_disc c1) = PD_Resp cid ->
  step c1 (LWake TDisc) = Some (c2, o) -> run c2 l2 = Some (c3, os3) ->
  ~ res c2 cid /\ ~ res c3 cid.
Proof.
  intros E1 Hpc Es E2. destruct (run_R l1 _ _ _ (OT_init n e ka scr) E1) as [_ O1].
  cbn [step] in Es. destruct (wake_disc_R c1 c2 o Es O1) as ([Q2 O2 _ _] & CL). specialize (CL cid Hpc). specialize (O2 O1).
  assert (L : (cid < next_cid c2)%nat).
  { unfold wake_disc in Es. cbn [get_task] in Es. rewrite Hpc in Es. destruct (get_call c1 cid) as [kk|] eqn:G; [|discriminate].
    pose proof (get_call_lt _ _ _ O1 G). pose proof (q_n _ _ Q2). lia. }
  split; [exact CL|]. eapply stays_clean; eassumption.
Qed.

(* in every reachable state the handlers of a call sit under the types it asked for and nowhere else *)
Theorem call_handlers_typed n e ka scr ls c os ty cid :
  run (init n e ka scr) ls = Some (c, os) -> In (ty, HCall cid) (handlers c) ->
  exists k, get_call c cid = Some k /\ In ty (c_types k).
Proof. intros E H. destruct (run_R ls _ _ _ (OT_init n e ka scr) E) as [_ O1]. exact (o_h _ O1 ty cid H). Qed.

(* ---------------------------------------------------------------- the timers of calls are exact *)
Definition CB (c : conn) : Prop := Forall (fun k => cinv k /\ c_sent_at k <= now c) (calls c).
Lemma CB_R c c' : R c c' -> CB c -> CB c'.
Proof.
  intros [_ _ K N] H. unfold CB in *. rewrite Forall_forall in *. intros k' I'.
  destruct (K k' I') as [(k & I & S)|F]; [|exact F]. destruct (H k I) as [H1 H2].
  split; [eapply cinv_srel; eassumption|]. destruct S as (S1 & _). rewrite S1. lia.
Qed.
Theorem call_timers_exact n e ka scr ls c os k d :
  run (init n e ka scr) ls = Some (c, os) -> In k (calls c) -> c_timer k = Some d ->
  d = c_sent_at k + c_timeout k /\ c_sent_at k <= now c.
Proof.
  intros E I T. destruct (run_R ls _ _ _ (OT_init n e ka scr) E) as [HR _].
  assert (H : CB c) by (eapply CB_R; [exact HR|constructor]).
  unfold CB in H. rewrite Forall_forall in H. destruct (H k I) as [H1 H2]. split; [apply H1; exact T|exact H2].
Qed.
