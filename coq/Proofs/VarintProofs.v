From Coq Require Import NArith List Lia Bool.
From Verif Require Import Kernel.Varint.
Import ListNotations.
Open Scope N_scope.

Lemma split7 v bp :
  N.lor (N.shiftl (N.land v 127) bp) (N.shiftl (N.shiftr v 7) (bp + 7)) = N.shiftl v bp.
Proof.
  apply N.bits_inj; intro n.
  rewrite N.lor_spec.
  destruct (N.ltb_spec n bp) as [H|H].
  - rewrite !N.shiftl_spec_low by lia. reflexivity.
  - rewrite (N.shiftl_spec_high' (N.land v 127)), (N.shiftl_spec_high' v) by lia.
    rewrite N.land_spec.
    destruct (N.ltb_spec n (bp+7)) as [H2|H2].
    + rewrite N.shiftl_spec_low by lia. rewrite orb_false_r.
      change 127 with (N.ones 7). rewrite N.ones_spec_low by lia. apply andb_true_r.
    + rewrite N.shiftl_spec_high' by lia. rewrite N.shiftr_spec by lia.
      change 127 with (N.ones 7). rewrite N.ones_spec_high by lia. rewrite andb_false_r. simpl.
      f_equal. lia.
Qed.

Lemma small_land128 v : v <= 127 -> N.land v 128 = 0.
Proof.
  intro H. apply N.bits_inj; intro n. rewrite N.land_spec, N.bits_0.
  destruct (N.eq_dec n 7) as [->|Hn].
  - replace (N.testbit v 7) with false; [reflexivity|]. symmetry.
    apply N.bits_above_log2. destruct (N.eq_dec v 0) as [->|Hv]; [simpl; lia|].
    apply N.log2_lt_pow2; [lia|]. change (2^7) with 128. lia.
  - change 128 with (2^7). rewrite N.pow2_bits_false by congruence. apply andb_false_r.
Qed.

Lemma small_land127 v : v <= 127 -> N.land v 127 = v.
Proof.
  intro H. change 127 with (N.ones 7). rewrite N.land_ones. apply N.mod_small.
  change (2^7) with 128. lia.
Qed.

Lemma cont_land128 x : N.land (N.lor (N.land x 127) 128) 128 = 128.
Proof.
  rewrite N.land_lor_distr_l. rewrite <- N.land_assoc. change (N.land 127 128) with 0.
  rewrite N.land_0_r. reflexivity.
Qed.
Lemma cont_land127 x : N.land (N.lor (N.land x 127) 128) 127 = N.land x 127.
Proof.
  rewrite N.land_lor_distr_l. rewrite <- N.land_assoc. change (N.land 127 127) with 127.
  change (N.land 128 127) with 0. apply N.lor_0_r.
Qed.

Lemma size_le7_small v : N.size v <= 7 -> v <= 127.
Proof.
  intro Hsz. destruct (N.eq_dec v 0) as [->|Hv]; [lia|].
  rewrite N.size_log2 in Hsz by assumption.
  assert (H : N.log2 v < 7) by lia. apply N.log2_lt_pow2 in H; [|lia].
  change (2^7) with 128 in H. lia.
Qed.

Lemma size_shiftr7 v : 127 < v -> N.size (N.shiftr v 7) = N.size v - 7.
Proof.
  intro H. assert (Hv : v <> 0) by lia.
  assert (Hl : 7 <= N.log2 v).
  { change 7 with (N.log2 128). apply N.log2_le_mono. lia. }
  assert (Hs : N.shiftr v 7 <> 0).
  { intro E. apply N.shiftr_eq_0_iff in E. destruct E as [E|[_ E]]; lia. }
  rewrite !N.size_log2 by assumption. rewrite N.log2_shiftr. lia.
Qed.

Lemma dec_enc_fuel f : forall v acc bp rest, (N.size v <= N.of_nat f * 7 + 7) ->
  dec (enc_fuel f v ++ rest) acc bp = Some (N.lor acc (N.shiftl v bp), rest).
Proof.
  induction f as [|f IH]; intros v acc bp rest Hsz; cbn [enc_fuel].
  - assert (v <= 127) by (apply size_le7_small; lia).
    cbn [app dec]. rewrite small_land128, small_land127 by assumption. reflexivity.
  - destruct (N.leb_spec v 127) as [Hs|Hs]; cbn [app dec].
    + rewrite small_land128, small_land127 by assumption. reflexivity.
    + rewrite cont_land128, cont_land127. cbn [N.eqb Pos.eqb].
      rewrite IH.
      * rewrite <- N.lor_assoc, split7. reflexivity.
      * rewrite size_shiftr7 by assumption. lia.
Qed.

Theorem dec_enc v rest : read_varuint (enc v ++ rest) = Some (v, rest).
Proof.
  unfold read_varuint, enc. rewrite dec_enc_fuel.
  - rewrite N.lor_0_l, N.shiftl_0_r. reflexivity.
  - lia.
Qed.

(* ---- strict prefixes of an encoding are incomplete ------------------------- *)
Definition cont (b : N) : Prop := N.land b 128 <> 0.

Lemma dec_all_cont p : Forall cont p -> forall acc bp, dec p acc bp = None.
Proof.
  induction 1 as [|b p Hb _ IH]; intros acc bp; cbn [dec]; [reflexivity|].
  unfold cont in Hb. destruct (N.eqb_spec (N.land b 128) 0); [contradiction|]. apply IH.
Qed.

Lemma enc_fuel_shape f : forall v, exists init last,
  enc_fuel f v = init ++ [last] /\ Forall cont init.
Proof.
  induction f as [|f IH]; intro v; cbn [enc_fuel].
  - exists [], v. split; [reflexivity|constructor].
  - destruct (v <=? 127).
    + exists [], v. split; [reflexivity|constructor].
    + destruct (IH (N.shiftr v 7)) as (init & last & E & Hc).
      exists (N.lor (N.land v 127) 128 :: init), last. split.
      * rewrite E. reflexivity.
      * constructor; [|assumption]. unfold cont. rewrite cont_land128. discriminate.
Qed.

Lemma Forall_prefix {A} (P : A -> Prop) p q : Forall P (p ++ q) -> Forall P p.
Proof. intro H. apply Forall_app in H. tauto. Qed.

Lemma strict_prefix_of_snoc {A} (init : list A) last p q :
  init ++ [last] = p ++ q -> q <> [] -> exists r, init = p ++ r.
Proof.
  revert p. induction init as [|a init IH]; intros p E Hq.
  - destruct p as [|b p].
    + exists []. reflexivity.
    + cbn in E. injection E as _ E. destruct p; cbn in E; [|discriminate].
      destruct q; [contradiction|discriminate].
  - destruct p as [|b p].
    + exists (a :: init). reflexivity.
    + cbn in E. injection E as -> E. destruct (IH p E Hq) as [r ->]. exists r. reflexivity.
Qed.

Theorem enc_strict_prefix_incomplete v p q :
  enc v = p ++ q -> q <> [] -> forall acc bp, dec p acc bp = None.
Proof.
  intros E Hq. unfold enc in E.
  destruct (enc_fuel_shape (N.to_nat (N.size v)) v) as (init & last & E' & Hc).
  rewrite E' in E. destruct (strict_prefix_of_snoc _ _ _ _ E Hq) as [r ->].
  apply dec_all_cont. eapply Forall_prefix; eassumption.
Qed.

Lemma enc_nonempty v : enc v <> [].
Proof.
  unfold enc. destruct (enc_fuel_shape (N.to_nat (N.size v)) v) as (init & last & E & _).
  rewrite E. destruct init; discriminate.
Qed.

(* ---- every encoded byte is a byte ------------------------------------------- *)
Lemma lor_land127_128_lt x : N.lor (N.land x 127) 128 < 256.
Proof.
  assert (H : N.land x 127 < 128).
  { change 127 with (N.ones 7). rewrite N.land_ones. apply N.mod_lt. discriminate. }
  assert (E : N.lor (N.land x 127) 128 = N.land x 127 + 128).
  { rewrite <- N.lxor_lor, <- N.add_nocarry_lxor.
    - reflexivity.
    - rewrite <- N.land_assoc. change (N.land 127 128) with 0. apply N.land_0_r.
    - rewrite <- N.land_assoc. change (N.land 127 128) with 0. apply N.land_0_r. }
  rewrite E. lia.
Qed.

Lemma enc_fuel_bytes f : forall v, N.size v <= N.of_nat f * 7 + 7 ->
  Forall (fun b => b < 256) (enc_fuel f v).
Proof.
  induction f as [|f IH]; intros v Hsz; cbn [enc_fuel].
  - constructor; [|constructor]. assert (v <= 127) by (apply size_le7_small; lia). lia.
  - destruct (N.leb_spec v 127) as [Hs|Hs].
    + constructor; [lia|constructor].
    + constructor; [apply lor_land127_128_lt|]. apply IH.
      rewrite size_shiftr7 by assumption. lia.
Qed.

Theorem enc_bytes v : Forall (fun b => b < 256) (enc v).
Proof. apply enc_fuel_bytes. lia. Qed.

(* ---- minimality: the last group of a multi-byte encoding is non-zero --------- *)
Lemma enc_fuel_last_nonzero f : forall v, N.size v <= N.of_nat f * 7 + 7 -> 127 < v ->
  exists init last, enc_fuel f v = init ++ [last] /\ init <> [] /\ last <> 0 /\ last <= 127.
Proof.
  induction f as [|f IH]; intros v Hsz Hv; cbn [enc_fuel].
  - assert (v <= 127) by (apply size_le7_small; lia). lia.
  - destruct (N.leb_spec v 127) as [Hs|_]; [lia|].
    assert (Hsz' : N.size (N.shiftr v 7) <= N.of_nat f * 7 + 7)
      by (rewrite size_shiftr7 by assumption; lia).
    assert (Hnz : N.shiftr v 7 <> 0).
    { intro E. apply N.shiftr_eq_0_iff in E. destruct E as [E|[_ E]]; [lia|].
      assert (7 <= N.log2 v) by (change 7 with (N.log2 128); apply N.log2_le_mono; lia). lia. }
    destruct (N.leb_spec (N.shiftr v 7) 127) as [Hs2|Hs2].
    + exists [N.lor (N.land v 127) 128], (N.shiftr v 7). split.
      * destruct f; cbn [enc_fuel]; [reflexivity|].
        destruct (N.leb_spec (N.shiftr v 7) 127); [reflexivity|lia].
      * split; [discriminate|]. split; assumption.
    + destruct (IH _ Hsz' Hs2) as (init & last & E & _ & Hl & Hl2).
      exists (N.lor (N.land v 127) 128 :: init), last. rewrite E.
      split; [reflexivity|]. split; [discriminate|]. split; assumption.
Qed.

Theorem enc_minimal v :
  (v <= 127 /\ enc v = [v]) \/
  (127 < v /\ exists init last, enc v = init ++ [last] /\ init <> [] /\ last <> 0 /\ last <= 127).
Proof.
  destruct (N.leb_spec v 127) as [H|H].
  - left. split; [assumption|]. unfold enc.
    destruct (N.to_nat (N.size v)); cbn [enc_fuel]; [reflexivity|].
    destruct (N.leb_spec v 127); [reflexivity|lia].
  - right. split; [assumption|]. apply enc_fuel_last_nonzero; [lia|assumption].
Qed.
