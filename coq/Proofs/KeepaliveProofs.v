From Coq Require Import ZArith List Bool Lia.
From Verif Require Import Generated.GenConstants Model.Keepalive.
Import ListNotations.
Open Scope Z_scope.

Lemma pong_timeout_eq h : pong_timeout h = 9 * h.
Proof.
  unfold pong_timeout, interval, KEEP_ALIVE_RATIO_NUM, KEEP_ALIVE_RATIO_DEN.
  replace (2 * h * 9) with (9 * h * 2) by lia. apply Z.div_mul. lia.
Qed.

Ltac kcbn := cbn [k_now k_pending k_ping_at k_pong k_dead g_ticks g_arr_since_tick g_last_arr g_first_ping negb option_map].
Ltac kcbn_in H := cbn [k_now k_pending k_ping_at k_pong k_dead g_ticks g_arr_since_tick g_last_arr g_first_ping negb option_map] in H.

Record KI (h : Z) (s : ka) : Prop := {
  i_ping_at : k_ping_at s = 2 * h * (g_ticks s + 1);
  i_now : 2 * h * g_ticks s <= k_now s <= k_ping_at s;
  i_ticks : 0 <= g_ticks s;
  i_pending : k_pending s = negb (g_arr_since_tick s);
  i_pong : k_dead s = false -> k_pong s = option_map (fun p => p + 9 * h) (g_first_ping s);
  i_deadline : forall d, k_pong s = Some d -> k_now s <= d;
  i_last : g_last_arr s <= k_now s;
  i_since : if g_arr_since_tick s then 2 * h * g_ticks s <= g_last_arr s else g_last_arr s <= 2 * h * g_ticks s;
  i_first : forall p, g_first_ping s = Some p ->
            (exists j, 1 <= j <= g_ticks s /\ p = 2 * h * j) /\ p - 4 * h <= g_last_arr s <= p - 2 * h /\ p <= k_now s;
  i_nofirst : g_first_ping s = None -> 2 * h * (g_ticks s - 1) <= g_last_arr s }.

Lemma KI_init h : 0 < h -> KI h (ka_init h).
Proof.
  intro H. unfold ka_init, interval. constructor; kcbn; try lia; try reflexivity; try (intros; discriminate).
Qed.

Ltac some_inj H := match type of H with Some ?a = Some ?b => let Q := fresh "Q" in assert (Q : a = b) by congruence; clear H; try subst b end.
Ltac kclose I5 I6 I9 I10 :=
  solve [ lia | reflexivity | assumption | intros; discriminate
        | intros _; exact I5
        | let d := fresh "d" in let H := fresh "H" in intros d H; first [apply I6 in H; lia | some_inj H; lia]
        | let p := fresh "p" in let H := fresh "H" in let j := fresh "j" in
          intros p H; destruct (I9 p H) as ((j & ? & ?) & ? & ?); split; [exists j; split; lia | lia]
        | let H := fresh "H" in intro H; specialize (I10 H); lia ].

Lemma KI_step h s e s' o : 0 < h -> KI h s -> ka_step h s e = Some (s', o) -> KI h s'.
Proof.
  intros Hh I E. unfold ka_step in E. destruct (k_dead s) eqn:Ed; [discriminate|].
  destruct I as [I1 I2 I3 I4 I5 I6 I7 I8 I9 I10]. specialize (I5 Ed).
  destruct e.
  - (* arrival *)
    injection E as <- _. constructor; kcbn; try kclose I5 I6 I9 I10.
  - (* tick *)
    destruct (Z.eqb_spec (k_now s) (k_ping_at s)) as [En|]; [|discriminate].
    injection E as <- _. rewrite pong_timeout_eq. unfold interval.
    destruct (g_arr_since_tick s) eqn:Ea; kcbn_in I4; rewrite I4.
    + (* a message arrived in the interval: no ping *)
      constructor; kcbn; try kclose I5 I6 I9 I10.
    + (* idle interval: ping *)
      destruct (g_first_ping s) as [p|] eqn:Ef.
      * kcbn_in I5. rewrite I5. destruct (I9 p eq_refl) as ((j & Hj1 & Hj2) & Hb & Hc). pose proof (I6 _ I5) as Hd.
        constructor; kcbn; try kclose I5 I6 I9 I10.
        all: try (intros q Hq; some_inj Hq; first [lia | split; [exists j; split; lia|lia]]).
      * kcbn_in I5. rewrite I5. specialize (I10 eq_refl).
        constructor; kcbn; try kclose I5 I6 I9 I10.
        all: try (intros q Hq; some_inj Hq; first [lia | split; [exists (g_ticks s + 1); split; lia|lia]]).
  - (* pong deadline *)
    destruct (k_pong s) as [d|] eqn:Ep; [|discriminate].
    destruct (Z.eqb_spec (k_now s) d); [|discriminate].
    injection E as <- _. constructor; kcbn; try kclose I5 I6 I9 I10.
  - (* time moves *)
    destruct (Z.leb (k_now s) t && Z.leb t (k_ping_at s) && match k_pong s with Some d => Z.leb t d | None => true end) eqn:Eg; [|discriminate].
    apply andb_true_iff in Eg. destruct Eg as [Eg E3]. apply andb_true_iff in Eg. destruct Eg as [E1 E2].
    apply Z.leb_le in E1, E2. injection E as <- _. constructor; kcbn; try kclose I5 I6 I9 I10.
    all: try (intros d Hd; rewrite Hd in E3; apply Z.leb_le in E3; exact E3).
    all: try (intros p Hp; destruct (I9 p Hp) as (Ha & Hb & Hc); split; [exact Ha|lia]).
Qed.

Lemma KI_run h es : forall s s' o, 0 < h -> KI h s -> ka_run h s es = Some (s', o) -> KI h s'.
Proof.
  induction es as [|e es IH]; intros s s' o Hh I E; cbn [ka_run] in E.
  - injection E as <- _. exact I.
  - destruct (ka_step h s e) as [[s1 o1]|] eqn:Es; [|discriminate].
    destruct (ka_run h s1 es) as [[s2 o2]|] eqn:Er; [|discriminate]. injection E as <- _.
    eapply IH; [exact Hh| |exact Er]. eapply KI_step; eassumption.
Qed.

(* (1) a ping is written at a tick exactly when no message arrived since the previous tick; ticks are at multiples of K *)
Theorem ping_iff_idle h s s' o :
  0 < h -> KI h s -> ka_step h s KTick = Some (s', o) ->
  k_now s = 2 * h * (g_ticks s + 1) /\
  ((g_arr_since_tick s = false /\ g_last_arr s <= k_now s - 2 * h /\ o = [KPingSent (k_now s)]) \/
   (g_arr_since_tick s = true /\ k_now s - 2 * h <= g_last_arr s /\ o = [])).
Proof.
  intros Hh I E. unfold ka_step in E. destruct (k_dead s); [discriminate|].
  destruct (Z.eqb_spec (k_now s) (k_ping_at s)) as [En|]; [|discriminate].
  destruct I as [I1 I2 I3 I4 _ _ _ I8 _ _]. split; [lia|].
  injection E as _ <-. rewrite I4. destruct (g_arr_since_tick s); kcbn; [right|left]; repeat split; try lia.
Qed.

(* only a tick writes a ping, only the pong deadline declares the connection dead *)
Theorem obs_sources h s e s' o x :
  ka_step h s e = Some (s', o) -> In x o ->
  match x with KPingSent t => e = KTick /\ t = k_now s | KDead t => e = KPong /\ t = k_now s end.
Proof.
  unfold ka_step. destruct (k_dead s); [discriminate|]. destruct e.
  - intro E. injection E as _ <-. intros [].
  - destruct (Z.eqb (k_now s) (k_ping_at s)); [|discriminate]. intro E. injection E as _ <-.
    destruct (k_pending s); [|intros []]. intros [<-|[]]. auto.
  - destruct (k_pong s) as [d|]; [|discriminate]. destruct (Z.eqb (k_now s) d); [|discriminate].
    intro E. injection E as _ <-. intros [<-|[]]. auto.
  - destruct (_ && _ && _); [|discriminate]. intro E. injection E as _ <-. intros [].
Qed.

(* (2) the connection is declared dead exactly 4.5K after the first ping that no message followed, never earlier,
   and (3) that is between 5.5K and 6.5K after the last message *)
Theorem dead_exactly h s s' o :
  0 < h -> KI h s -> ka_step h s KPong = Some (s', o) ->
  exists p j, g_first_ping s = Some p /\ p = 2 * h * j /\ 1 <= j /\
              o = [KDead (p + 9 * h)] /\ k_now s = p + 9 * h /\
              g_last_arr s <= p - 2 * h /\
              11 * h <= k_now s - g_last_arr s <= 13 * h.
Proof.
  intros Hh I E. unfold ka_step in E. destruct (k_dead s) eqn:Ed; [discriminate|].
  destruct (k_pong s) as [d|] eqn:Ep; [|discriminate].
  destruct (Z.eqb_spec (k_now s) d) as [En|]; [|discriminate]. injection E as _ <-.
  destruct I as [_ _ _ _ I5 _ _ _ I9 _]. specialize (I5 Ed). rewrite Ep in I5.
  destruct (g_first_ping s) as [p|] eqn:Ef; [|discriminate]. kcbn_in I5. some_inj I5.
  destruct (I9 p eq_refl) as ((j & Hj1 & Hj2) & Hb & Hc).
  assert (Hn : k_now s = p + 9 * h) by congruence.
  exists p, j. rewrite Hn. repeat split; try lia.
Qed.

(* a message resets everything: after an arrival no death can happen before another idle tick *)
Theorem arrival_disarms h s s' o : ka_step h s KArr = Some (s', o) -> k_pong s' = None /\ k_pending s' = false /\ o = [].
Proof. unfold ka_step. destruct (k_dead s); [discriminate|]. intro E. injection E as <- <-. auto. Qed.

(* whole runs: every observation of every schedule *)
Theorem run_obs h es : forall s s' o x,
  0 < h -> KI h s -> ka_run h s es = Some (s', o) -> In x o ->
  match x with
  | KPingSent t => exists j, 1 <= j /\ t = 2 * h * j
  | KDead t => exists p j, 1 <= j /\ p = 2 * h * j /\ t = p + 9 * h
  end.
Proof.
  induction es as [|e es IH]; intros s s' o x Hh I E Hx; cbn [ka_run] in E.
  - injection E as _ <-. destruct Hx.
  - destruct (ka_step h s e) as [[s1 o1]|] eqn:Es; [|discriminate].
    destruct (ka_run h s1 es) as [[s2 o2]|] eqn:Er; [|discriminate]. injection E as _ <-.
    apply in_app_or in Hx. destruct Hx as [Hx|Hx].
    + pose proof (obs_sources _ _ _ _ _ _ Es Hx) as Q. destruct x as [t|t]; destruct Q as [-> ->].
      * destruct (ping_iff_idle _ _ _ _ Hh I Es) as [Hn _]. exists (g_ticks s + 1). destruct I. lia.
      * destruct (dead_exactly _ _ _ _ Hh I Es) as (p & j & _ & Hp & Hj & _ & Hn & _). exists p, j. auto.
    + eapply IH; [exact Hh| |exact Er|exact Hx]. eapply KI_step; eassumption.
Qed.
