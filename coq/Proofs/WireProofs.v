From Coq Require Import NArith Arith List Bool Lia.
From Verif Require Import Kernel.Varint Model.PlainFrame Model.NoiseFrame Model.WireSpec.
From Verif Require Import Proofs.VarintProofs Proofs.PlainFrameProofs.
Import ListNotations.
Open Scope N_scope.

Lemma bytes_eqb_refl b : WireSpec.bytes_eqb b b = true.
Proof. induction b as [|x b IH]; cbn; [reflexivity|]. rewrite N.eqb_refl. exact IH. Qed.

Lemma spec_varint_enc v rest : spec_varint (enc v ++ rest) = Some (v, rest).
Proof. unfold spec_varint. rewrite dec_enc, bytes_eqb_refl. reflexivity. Qed.

(* ---- plaintext -------------------------------------------------------------------------- *)
Theorem plain_conforms pkts : forall fuel, (length pkts < fuel)%nat ->
  spec_decode_plain fuel (PlainFrame.write_packets pkts) = Some pkts.
Proof.
  induction pkts as [|[ty pl] pkts IH]; intros fuel Hf; (destruct fuel as [|fuel]; [cbn in Hf; lia|]).
  - reflexivity.
  - unfold PlainFrame.write_packets. cbn [flat_map]. fold (PlainFrame.write_packets pkts).
    unfold enc_frame at 1. cbn [fst snd app spec_decode_plain].
    rewrite <- !app_assoc. rewrite spec_varint_enc, spec_varint_enc.
    rewrite app_length.
    destruct (N.ltb_spec (N.of_nat (length pl + length (PlainFrame.write_packets pkts))) (N.of_nat (length pl))); [lia|].
    rewrite Nnat.Nat2N.id, skipn_app_exact, firstn_app_exact.
    rewrite IH by (cbn in Hf; lia). reflexivity.
Qed.

(* ---- noise ------------------------------------------------------------------------------ *)
Section NoiseWrite.
  Variable encrypt : N -> bytes -> bytes.
  Variable decrypt : N -> bytes -> option bytes.
  Hypothesis decrypt_encrypt : forall n pt, decrypt n (encrypt n pt) = Some pt.
  Hypothesis encrypt_length : forall n pt, length (encrypt n pt) = (length pt + 16)%nat.

  Definition fits (p : N * bytes) : Prop := fst p < 65536 /\ N.of_nat (length (snd p)) + 20 < 65536.

  Lemma hi8_lt v : hi8 v < 256.
  Proof. unfold hi8. change 255 with (N.ones 8). rewrite N.land_ones. apply N.mod_lt. discriminate. Qed.
  Lemma lo8_lt v : lo8 v < 256.
  Proof. unfold lo8. change 255 with (N.ones 8). rewrite N.land_ones. apply N.mod_lt. discriminate. Qed.

  Lemma be16_hi_lo v : v < 65536 -> WireSpec.be16 (hi8 v) (lo8 v) = v.
  Proof.
    intro H. unfold WireSpec.be16, hi8, lo8. change 255 with (N.ones 8).
    rewrite !N.land_ones, N.shiftr_div_pow2. change (2 ^ 8) with 256.
    rewrite (N.mod_small (v / 256) 256).
    - rewrite N.mul_comm. symmetry. apply N.div_mod. discriminate.
    - apply N.div_lt_upper_bound; [discriminate|]. exact H.
  Qed.

  Lemma write_frames_conform pkts : forall nonce fuel rest_n rest_pk tail,
    Forall fits pkts -> (length pkts < fuel)%nat ->
    spec_decode_noise decrypt (fuel - length pkts) (nonce + N.of_nat (length pkts)) tail = Some (rest_n, rest_pk) ->
    spec_decode_noise decrypt fuel nonce (snd (write_frames encrypt nonce pkts) ++ tail)
      = Some (rest_n, pkts ++ rest_pk) /\
    fst (write_frames encrypt nonce pkts) = nonce + N.of_nat (length pkts).
  Proof.
    induction pkts as [|[ty data] pkts IH]; intros nonce fuel rest_n rest_pk tail Hfit Hfuel Htail.
    - cbn [write_frames snd fst app length] in *. rewrite Nat.sub_0_r, N.add_0_r in Htail. split; [assumption|lia].
    - destruct fuel as [|fuel]; [cbn in Hfuel; lia|].
      inversion Hfit as [|? ? [Hty Hlen] Hfit']; subst. cbn [fst snd] in Hty, Hlen.
      cbn [write_frames].
      destruct (write_frames encrypt (nonce + 1) pkts) as [n' out] eqn:Ew.
      specialize (IH (nonce + 1) fuel rest_n rest_pk tail Hfit').
      rewrite Ew in IH. cbn [fst snd] in IH |- *.
      assert (Hf : (length pkts < fuel)%nat) by (cbn in Hfuel; lia).
      assert (Ht : spec_decode_noise decrypt (fuel - length pkts) (nonce + 1 + N.of_nat (length pkts)) tail = Some (rest_n, rest_pk)).
      { cbn [length] in Htail. replace (S fuel - S (length pkts))%nat with (fuel - length pkts)%nat in Htail by lia.
        replace (nonce + 1 + N.of_nat (length pkts)) with (nonce + N.of_nat (S (length pkts))) by lia. exact Htail. }
      destruct (IH Hf Ht) as [IH1 IH2]. clear IH.
      set (pt := inner_header ty (N.of_nat (length data)) ++ data).
      set (frame := encrypt nonce pt).
      assert (Hfl : length frame = (length data + 20)%nat).
      { unfold frame. rewrite encrypt_length. unfold pt. rewrite app_length. cbn. lia. }
      assert (Hflen : N.of_nat (length frame) < 65536) by lia.
      split; [|cbn [length]; lia].
      cbn [app spec_decode_noise].
      rewrite be16_hi_lo by exact Hflen. rewrite Nnat.Nat2N.id.
      destruct (N.ltb_spec (hi8 (N.of_nat (length frame))) 256) as [_|C]; [|pose proof (hi8_lt (N.of_nat (length frame))); lia].
      destruct (N.ltb_spec (lo8 (N.of_nat (length frame))) 256) as [_|C]; [|pose proof (lo8_lt (N.of_nat (length frame))); lia].
      rewrite <- app_assoc.
      replace (Nat.ltb (length (frame ++ out ++ tail)) (length frame)) with false
        by (symmetry; apply Nat.ltb_ge; rewrite app_length; lia).
      cbn [andb negb]. rewrite firstn_app_exact, skipn_app_exact.
      unfold frame. rewrite decrypt_encrypt. unfold pt, inner_header. cbn [app].
      destruct (N.ltb_spec (hi8 ty) 256) as [_|C]; [|pose proof (hi8_lt ty); lia].
      destruct (N.ltb_spec (lo8 ty) 256) as [_|C]; [|pose proof (lo8_lt ty); lia].
      destruct (N.ltb_spec (hi8 (N.of_nat (length data))) 256) as [_|C]; [|pose proof (hi8_lt (N.of_nat (length data))); lia].
      destruct (N.ltb_spec (lo8 (N.of_nat (length data))) 256) as [_|C]; [|pose proof (lo8_lt (N.of_nat (length data))); lia].
      cbn [andb]. rewrite !be16_hi_lo by lia. rewrite N.eqb_refl.
      rewrite IH1. reflexivity.
  Qed.

  Lemma write_frames_nonce pkts : forall nonce,
    fst (write_frames encrypt nonce pkts) = nonce + N.of_nat (length pkts).
  Proof.
    induction pkts as [|[ty data] pkts IH]; intro nonce; cbn [write_frames length].
    - cbn. lia.
    - specialize (IH (nonce + 1)). destruct (write_frames encrypt (nonce + 1) pkts) as [n' out].
      cbn [fst] in *. lia.
  Qed.

  (* a whole session: the list of write_packets calls *)
  Fixpoint session (nonce : N) (calls : list (list (N * bytes))) : N * list bytes :=
    match calls with
    | [] => (nonce, [])
    | pkts :: r =>
      let '(n1, out) := write_frames encrypt nonce pkts in
      let '(n2, outs) := session n1 r in (n2, out :: outs)
    end.

  Theorem noise_conforms calls : forall nonce fuel,
    Forall (Forall fits) calls -> (length (concat calls) < fuel)%nat ->
    spec_decode_noise decrypt fuel nonce (concat (snd (session nonce calls)))
      = Some (nonce + N.of_nat (length (concat calls)), concat calls) /\
    length (snd (session nonce calls)) = length calls.
  Proof.
    induction calls as [|pkts calls IH]; intros nonce fuel Hfit Hfuel.
    - cbn. destruct fuel; [cbn in Hfuel; lia|]. cbn. rewrite N.add_0_r. split; reflexivity.
    - inversion Hfit as [|? ? Hp Hc]; subst. cbn [session].
      destruct (write_frames encrypt nonce pkts) as [n1 out] eqn:Ew.
      destruct (session n1 calls) as [n2 outs] eqn:Es. cbn [snd concat length].
      cbn [concat] in Hfuel. rewrite app_length in Hfuel.
      pose proof (write_frames_conform pkts nonce fuel) as W. rewrite Ew in W. cbn [fst snd] in W.
      assert (n1 = nonce + N.of_nat (length pkts)).
      { pose proof (write_frames_nonce pkts nonce) as Hn. rewrite Ew in Hn. exact Hn. }
      subst n1.
      specialize (IH (nonce + N.of_nat (length pkts)) (fuel - length pkts)%nat Hc ltac:(lia)).
      rewrite Es in IH. cbn [snd] in IH. destruct IH as [IH1 IH2].
      destruct (W _ _ _ Hp ltac:(lia) IH1) as [W1 _].
      split; [|lia]. rewrite W1. f_equal. f_equal. rewrite app_length. lia.
  Qed.
End NoiseWrite.

(* F9 (known finding): a payload longer than 65515 bytes is written with a header that does not
   describe the frame. The witness uses a toy cipher that satisfies both section hypotheses. *)
Definition toy_encrypt (n : N) (pt : bytes) : bytes := pt ++ repeat n 16.
Definition toy_decrypt (n : N) (ct : bytes) : option bytes :=
  let l := (length ct - 16)%nat in
  if WireSpec.bytes_eqb (skipn l ct) (repeat n 16) && Nat.leb 16 (length ct) then Some (firstn l ct) else None.

Lemma toy_length n pt : length (toy_encrypt n pt) = (length pt + 16)%nat.
Proof. unfold toy_encrypt. rewrite app_length, repeat_length. reflexivity. Qed.
Lemma toy_correct n pt : toy_decrypt n (toy_encrypt n pt) = Some pt.
Proof.
  unfold toy_decrypt. rewrite toy_length. replace (length pt + 16 - 16)%nat with (length pt) by lia.
  unfold toy_encrypt. rewrite skipn_app_exact, firstn_app_exact, bytes_eqb_refl.
  replace (Nat.leb 16 (length pt + 16)) with true by (symmetry; apply Nat.leb_le; lia). reflexivity.
Qed.

Lemma oversize_header_wraps (data : bytes) (ty : N) fuel :
  N.of_nat (length data) = 65516 ->
  spec_decode_noise toy_decrypt (S fuel) 0 (snd (write_frames toy_encrypt 0 [(ty, data)])) = None.
Proof.
  intro Hl. cbn [write_frames snd app].
  set (frame := toy_encrypt 0 (inner_header ty (N.of_nat (length data)) ++ data)).
  assert (Hfl : N.of_nat (length frame) = 65536).
  { unfold frame. rewrite toy_length, app_length. cbn [inner_header length]. lia. }
  rewrite Hfl. change (hi8 65536) with 0. change (lo8 65536) with 0.
  cbn [spec_decode_noise]. change (WireSpec.be16 0 0) with 0. cbn [N.to_nat N.ltb N.compare andb firstn].
  destruct (Nat.ltb (length (frame ++ [])) 0); cbn [negb andb]; [reflexivity|].
  reflexivity.
Qed.

Theorem noise_oversize_refuted :
  exists pkts : list (N * bytes),
    spec_decode_noise toy_decrypt 2 0 (snd (write_frames toy_encrypt 0 pkts)) <> Some (1, pkts).
Proof.
  exists [(1, repeat 0 (N.to_nat 65516))].
  rewrite oversize_header_wraps; [discriminate|].
  rewrite repeat_length. apply Nnat.N2Nat.id.
Qed.
