From Coq Require Import NArith String Ascii List Bool Lia.
From Verif Require Import Model.Resolver.
Import ListNotations.
Open Scope string_scope.
Open Scope list_scope.

(* ---- per host ---- *)
(* (1) a literal address: no lookup at all, exactly its own address *)
Theorem literal_verbatim h a :
  is_local_name h = false -> h_literal h = Some a -> resolve_one h = (Some [a], false, []).
Proof. intros Hl Ha. unfold resolve_one. rewrite Hl, Ha. reflexivity. Qed.

(* (2) a bare or .local name: mDNS first, with the name up to the first dot; IPv6 results before IPv4; the OS resolver is
   asked iff mDNS gave nothing or failed *)
Theorem local_name_mdns_first h :
  is_local_name h = true ->
  exists res z rest, resolve_one h = (res, z, CallMdns (before_first_dot (h_name h)) :: rest) /\
    match h_mdns h with
    | MdnsOk v6 v4 => z = false /\ (v6 ++ v4 <> [] -> res = Some (v6 ++ v4) /\ rest = []) /\
                      (v6 ++ v4 = [] -> rest = [CallOs (h_name h)] /\ res = match h_os h with OsOk l => Some l | OsErr => None end)
    | MdnsErr => z = true /\ rest = [CallOs (h_name h)] /\ res = match h_os h with OsOk l => Some l | OsErr => None end
    end.
Proof.
  intro Hl. unfold resolve_one. rewrite Hl. destruct (h_mdns h) as [v6 v4|].
  - destruct (v6 ++ v4) as [|a l] eqn:E.
    + destruct (h_os h); do 3 eexists; (split; [reflexivity|]); (split; [reflexivity|]); (split; [intro C; contradiction|intros _; split; reflexivity]).
    + do 3 eexists. split; [reflexivity|]. split; [reflexivity|]. split; [intros _; split; reflexivity|intro C; discriminate].
  - destruct (h_os h); do 3 eexists; (split; [reflexivity|]); auto.
Qed.

(* (3) any other name: only the OS resolver *)
Theorem other_name_os_only h :
  is_local_name h = false -> h_literal h = None ->
  resolve_one h = (match h_os h with OsOk l => Some l | OsErr => None end, false, [CallOs (h_name h)]).
Proof. intros Hl Ha. unfold resolve_one. rewrite Hl, Ha. destruct (h_os h); reflexivity. Qed.

(* ---- the whole call ---- *)
Definition contribution (h : host) : option (list addr) := fst (fst (resolve_one h)).
Definition calls_of (h : host) : list call := snd (resolve_one h).

Fixpoint all_contributions (hs : list host) : option (list addr) :=
  match hs with
  | [] => Some []
  | h :: r => match contribution h, all_contributions r with Some a, Some b => Some (a ++ b) | _, _ => None end
  end.

Lemma resolve_loop_spec hs : forall acc z calls,
  match all_contributions hs with
  | Some l =>
    snd (resolve_loop hs acc z calls) = calls ++ flat_map calls_of hs /\
    (acc ++ l <> [] -> fst (resolve_loop hs acc z calls) = inl (acc ++ l)) /\
    (acc ++ l = [] -> exists e, fst (resolve_loop hs acc z calls) = inr e /\ e <> ErrOs)
  | None => fst (resolve_loop hs acc z calls) = inr ErrOs
  end.
Proof.
  induction hs as [|h r IH]; intros acc z calls; cbn [all_contributions resolve_loop flat_map].
  - rewrite !app_nil_r. split; [reflexivity|]. split.
    + intro Hn. destruct acc; [contradiction|reflexivity].
    + intros ->. destruct z; eexists; (split; [reflexivity|discriminate]).
  - unfold contribution, calls_of. destruct (resolve_one h) as [[res zz] c]. cbn [fst snd].
    destruct res as [l|]; [|reflexivity].
    specialize (IH (acc ++ l) (z || zz) (calls ++ c)). destruct (all_contributions r) as [l2|]; [|exact IH].
    destruct IH as (A & B & C). rewrite <- !app_assoc in *. repeat split; auto.
Qed.

(* (3)+(4): results keep the order of the configured addresses; the function never returns an empty list; an OS resolver
   error aborts with a connection error; if nothing resolved the mDNS error (if any) is raised, else "no results" *)
Theorem resolve_in_order hs l : fst (resolve hs) = inl l -> all_contributions hs = Some l /\ l <> [].
Proof.
  unfold resolve. intro H. pose proof (resolve_loop_spec hs [] false []) as S. destruct (all_contributions hs) as [l2|].
  - destruct S as (_ & B & C). cbn [app] in *. destruct l2 as [|a l2'].
    + destruct (C eq_refl) as (e & E & _). rewrite E in H. discriminate.
    + rewrite B in H by discriminate. injection H as <-. split; [reflexivity|discriminate].
  - rewrite S in H. discriminate.
Qed.
Theorem resolve_never_empty hs : fst (resolve hs) <> inl [].
Proof. intro H. apply resolve_in_order in H. destruct H as [_ H]. contradiction. Qed.
Theorem resolve_calls hs l : fst (resolve hs) = inl l -> snd (resolve hs) = flat_map calls_of hs.
Proof.
  unfold resolve. intro H. pose proof (resolve_loop_spec hs [] false []) as S. destruct (all_contributions hs) as [l2|].
  - destruct S as (A & _). exact A.
  - rewrite S in H. discriminate.
Qed.

(* ---- zeroconf ownership ---- *)
Definition zinv (s : zcm) : Prop := (z_created s = true <-> z_inst s = Some Lib).
Definition never_closes_app (o : list zobs) : Prop := ~ In (ZClosed App) o.

Lemma zstep_inv s o : zinv s -> zinv (fst (zstep s o)) /\ never_closes_app (snd (zstep s o)).
Proof.
  unfold zinv, never_closes_app. destruct s as [c i].
  destruct c, i as [[|]|], o; try (destruct ok); cbn; intros [H1 H2];
    (split; [split; intro Q; try discriminate; try reflexivity; try (specialize (H1 eq_refl)); try (specialize (H2 eq_refl)); try congruence; try discriminate
            | intro Q; repeat (destruct Q as [Q|Q]; try discriminate); try exact Q;
              try (specialize (H1 eq_refl); discriminate); try (specialize (H2 eq_refl); discriminate)]).
Qed.

Theorem never_closes_application_instance ops : forall s, zinv s -> zinv (fst (zrun s ops)) /\ never_closes_app (snd (zrun s ops)).
Proof.
  induction ops as [|o ops IH]; intros s H; cbn [zrun].
  - cbn. split; [exact H|intros []].
  - destruct (zstep_inv s o H) as [H1 H2]. destruct (zstep s o) as [s1 e1]. cbn [fst snd] in *.
    destruct (IH s1 H1) as [H3 H4]. destruct (zrun s1 ops) as [s2 e2]. cbn [fst snd] in *.
    split; [exact H3|]. unfold never_closes_app in *. intro Q. apply in_app_or in Q. tauto.
Qed.

(* an instance created inside a lookup is closed again before the lookup returns; stop() closes a library instance *)
Theorem lookup_closes_what_it_created s ok :
  z_inst s = None -> zstep s (ZServiceInfo ok) = (mkZcm false None, [ZCreated; ZClosed Lib]).
Proof. intro H. cbn. unfold z_get, z_close. rewrite H. reflexivity. Qed.
Theorem lookup_keeps_existing s ok o : z_inst s = Some o -> zstep s (ZServiceInfo ok) = (s, []).
Proof. intro H. cbn. unfold z_get. rewrite H. reflexivity. Qed.
Theorem stop_closes_library_instance s : zinv s -> z_inst s = Some Lib -> zstep s ZClose = (mkZcm false None, [ZClosed Lib]).
Proof. intros [_ H2] Hi. cbn. unfold z_close. rewrite (H2 Hi), Hi. reflexivity. Qed.
Theorem stop_keeps_application_instance s : zinv s -> z_inst s = Some App -> zstep s ZClose = (s, []).
Proof.
  intros [H1 _] Hi. cbn. unfold z_close. destruct (z_created s) eqn:E; [specialize (H1 eq_refl); congruence|reflexivity].
Qed.
