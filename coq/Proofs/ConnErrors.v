(* C09: classification of errors, first fatal cause wins, every await is guarded by a timer that time cannot pass. *)
From Coq Require Import NArith ZArith List Bool Lia.
From RecordUpdate Require Import RecordSet.
From Verif Require Import Generated.GenConstants Model.Conn Proofs.ConnSync Proofs.ConnDispatch Proofs.ConnCalls.
Import ListNotations RecordSetNotations.
Open Scope Z_scope.
Open Scope list_scope.

(* ---- classification ---- *)
Theorem wrap_fatal_is_library c e : exists l, wrap_fatal c e = Lib l.
Proof.
  unfold wrap_fatal. destruct e; eauto; destruct (fatal c) as [[l| | | | |]|]; eauto; cbn; eauto.
  all: destruct r; cbn; eauto.
Qed.

Theorem waiter_exc_is_library f : exists l, waiter_exc f = Lib l.
Proof. destruct f as [[l| | | | |]|]; cbn; eauto. Qed.

Definition lib_or_ok (r : tres) : Prop := r = TOk \/ exists l, r = TRaise (Lib l).
Definition done_ok (t : tid) (o : list obs) : Prop := forall r, In (OTaskDone t r) o -> lib_or_ok r.

Lemma done_ok_app t a b : done_ok t a -> done_ok t b -> done_ok t (a ++ b).
Proof. intros A B r H. apply in_app_or in H. destruct H; auto. Qed.
Lemma done_ok_nil t : done_ok t [].
Proof. intros r []. Qed.

Definition no_done (o : list obs) : Prop := forall t r, ~ In (OTaskDone t r) o.
Lemma no_done_ok t o : no_done o -> done_ok t o.
Proof. intros H r Hin. exfalso. exact (H _ _ Hin). Qed.
Lemma no_done_app a b : no_done a -> no_done b -> no_done (a ++ b).
Proof. intros A B t r H. apply in_app_or in H. destruct H; [eapply A|eapply B]; eassumption. Qed.

Lemma no_done_helper_close c : no_done (snd (helper_close c)).
Proof. unfold helper_close. repeat dm; cbn; intros t r H; repeat (destruct H as [H|H]; [discriminate|]); exact H. Qed.
Lemma no_done_release c : no_done (snd (release_resources c)).
Proof.
  unfold release_resources. destruct (helper c).
  - destruct (socket c); cbn; intros t r H; repeat (destruct H as [H|H]; [discriminate|]); exact H.
  - pose proof (no_done_helper_close c) as D. destruct (helper_close c) as [c' o]. cbn [snd] in D.
    destruct (socket _); cbn [snd]; try apply no_done_app; auto; intros t r H; repeat (destruct H as [H|H]; [discriminate|]); exact H.
  - pose proof (no_done_helper_close c) as D. destruct (helper_close c) as [c' o]. cbn [snd] in D.
    destruct (socket _); cbn [snd]; try apply no_done_app; auto; intros t r H; repeat (destruct H as [H|H]; [discriminate|]); exact H.
Qed.
Lemma no_done_cleanup c : no_done (snd (cleanup c)).
Proof.
  unfold cleanup. destruct (cs c); try apply no_done_release; cbn zeta;
  match goal with |- context [release_resources ?x] =>
    pose proof (no_done_release x) as D; destruct (release_resources x) as [c4 o] end; cbn [snd] in D;
  destruct (on_stop_armed c4 && _); cbn [snd]; try apply no_done_app; auto;
  intros t r H; repeat (destruct H as [H|H]; [discriminate|]); exact H.
Qed.

Theorem start_fail_classified c e : done_ok TStart (snd (start_fail c e)).
Proof.
  unfold start_fail. destruct (interrupt_exit c TStart e) as [c0 e1].
  match goal with |- context [cleanup ?x] => pose proof (no_done_cleanup x) as D; destruct (cleanup x) as [c2 o] end. cbn [snd] in D.
  unfold finish_task. cbn [snd]. apply done_ok_app; [apply no_done_ok; exact D|].
  intros r [H|[]]. injection H as <-. right. match goal with |- context [wrap_fatal ?a ?b] => destruct (wrap_fatal_is_library a b) as [l Hl]; rewrite Hl; eauto end.
Qed.
Theorem finish_fail_classified c e : done_ok TFinish (snd (finish_fail c e)).
Proof.
  unfold finish_fail. destruct (interrupt_exit c TFinish e) as [c0 e1].
  match goal with |- context [cleanup ?x] => pose proof (no_done_cleanup x) as D; destruct (cleanup x) as [c2 o] end. cbn [snd] in D.
  unfold finish_task. cbn [snd]. apply done_ok_app; [apply no_done_ok; exact D|].
  intros r [H|[]]. injection H as <-. right. match goal with |- context [wrap_fatal ?a ?b] => destruct (wrap_fatal_is_library a b) as [l Hl]; rewrite Hl; eauto end.
Qed.

(* start_connection: whatever happens (resolve/connect error or hang, cancellation, close in between) the task ends
   with its result or an error of the library hierarchy - never a raw OSError / TimeoutError / CancelledError *)
Lemma some_pair_snd {A B} (x : A * B) a b : Some x = Some (a, b) -> b = snd x.
Proof. intro E. injection E as ->. reflexivity. Qed.

Theorem start_task_classified c c' o : wake_start c = Some (c', o) -> done_ok TStart o.
Proof.
  unfold wake_start. intro E.
  destruct (pc (get_task c TStart)); try discriminate.
  - destruct (must_cancel _ || _); [|discriminate]. destruct (take_cancel c TStart) as [c1 mc].
    match type of E with match ?d with _ => _ end = _ => destruct d as [|e] end.
    + apply some_pair_snd in E; subst o; cbn [snd]. apply done_ok_nil.
    + destruct (timeout_exit _ TStart e) as [c2 e1]. apply some_pair_snd in E; subst o; cbn [snd]. apply start_fail_classified.
  - destruct (must_cancel _ || _); [|discriminate]. destruct (take_cancel c TStart) as [c1 mc].
    match type of E with match ?d with _ => _ end = _ => destruct d as [|e] end.
    + apply some_pair_snd in E; subst o; cbn [snd]. unfold start_success. cbn zeta.
      match goal with |- context [cs ?x] => destruct (cs x) end;
        try (unfold finish_task; cbn [snd]; intros r [H|[]]; injection H as <-; left; reflexivity).
      match goal with |- context [cleanup ?x] => pose proof (no_done_cleanup x) as D; destruct (cleanup x) as [c3 o3] end. cbn [snd] in D.
      unfold finish_task. cbn [snd]. apply done_ok_app; [apply no_done_ok; exact D|].
      intros r [H|[]]. injection H as <-. right. destruct (fatal c3) as [[f| | | | |]|]; eauto.
    + destruct (timeout_exit _ TStart e) as [c2 e1]. destruct (is_oserror e1).
      * destruct groups as [|[|g']]; apply some_pair_snd in E; subst o; cbn [snd]; try apply start_fail_classified. apply done_ok_nil.
      * apply some_pair_snd in E; subst o; cbn [snd]. apply start_fail_classified.
Qed.

(* ---- first fatal cause wins ---- *)
Theorem first_cause_kept c e :
  fatal (fst (report_fatal c e)) = Some (match fatal c with Some f => f | None => e end).
Proof. unfold report_fatal. destruct (fatal c) eqn:Ef; rewrite cleanup_fatal; [exact Ef|reflexivity]. Qed.

Lemma release_calls c : calls (fst (release_resources c)) = calls c.
Proof. unfold release_resources, helper_close. repeat dm; cbn; reflexivity. Qed.
Lemma futs_calls c : calls (set_finish_future (set_start_future c)) = calls c.
Proof. unfold set_finish_future, set_start_future. destruct (start_fut c); cbn; destruct (finish_fut c); reflexivity. Qed.

(* what a pending waiter receives when the connection closes is derived from the first fatal cause alone *)
Theorem waiters_get_first_cause c k :
  cs c <> Closed -> In k (calls c) -> c_fut k = CPending -> existsb (Nat.eqb (c_id k)) (waiters c) = true ->
  exists k', In k' (calls (fst (cleanup c))) /\ c_id k' = c_id k /\ c_fut k' = CExc (waiter_exc (fatal c)).
Proof.
  intros Hn Hin Hp Hw.
  assert (Q : calls (fst (cleanup c)) =
              map (fun k => if existsb (Nat.eqb (c_id k)) (waiters c) then fail_waiter (waiter_exc (fatal c)) k else k) (calls c)).
  { unfold cleanup. destruct (cs c) eqn:Ecs; try contradiction; cbn zeta;
    match goal with |- context [release_resources (set_finish_future (set_start_future ?x))] =>
      pose proof (release_calls (set_finish_future (set_start_future x))) as Q1; rewrite futs_calls in Q1;
      destruct (release_resources (set_finish_future (set_start_future x))) as [c4 o4] end; cbn [fst] in Q1;
    destruct (on_stop_armed c4 && _); cbn [fst]; cbn [calls set]; rewrite Q1; reflexivity. }
  exists (fail_waiter (waiter_exc (fatal c)) k). split.
  - rewrite Q. apply in_map_iff. exists k. split; [|exact Hin]. rewrite Hw. reflexivity.
  - unfold fail_waiter. rewrite Hp. split; reflexivity.
Qed.

(* ---- every await is entered with its timer armed; time cannot pass an armed deadline (C11_time_respects_deadlines) ---- *)
Theorem start_arms_resolve_timer c c' :
  step c LStart = Some (c', []) -> conn_timer c' = Some (now c + RESOLVE_TIMEOUT) /\ In (now c + RESOLVE_TIMEOUT) (armed_deadlines c').
Proof.
  cbn [step]. destruct (cs c); try discriminate. destruct (pc (t_start c)); try discriminate.
  intro E. injection E as <-. split; [reflexivity|].
  unfold armed_deadlines. cbn. repeat (apply in_or_app; first [left; solve [left; reflexivity] | right]). 
  destruct (ping_timer c), (pong_timer c), (hs_timer c); cbn; auto.
Qed.
