(* Reachability: the invariant holds in every state of every run from the initial state,
   for every label sequence (= every interleaving of user calls, device events, timers and task wake-ups). *)
From Coq Require Import NArith ZArith List Bool Lia Relations.
From RecordUpdate Require Import RecordSet.
From Verif Require Import Generated.GenConstants Model.Conn Proofs.ConnCore Proofs.ConnSync Proofs.ConnStep Proofs.ConnStep2 Proofs.ConnStep3.
Import ListNotations RecordSetNotations.
Open Scope Z_scope.
Open Scope list_scope.

Definition reachable (c : conn) : Prop :=
  exists n e ka scr ls os, run (init n e ka scr) ls = Some (c, os).

Lemma Inv_init n e ka scr : Inv (init n e ka scr).
Proof.
  unfold Inv, InvK, flagsK, JK, StopK, ClosedK, init, core_of. cbn.
  repeat split; try tauto; try discriminate; intros; try discriminate; auto.
Qed.

Lemma run_app c ls1 ls2 :
  run c (ls1 ++ ls2) =
  match run c ls1 with
  | Some (c1, os1) => match run c1 ls2 with Some (c2, os2) => Some (c2, os1 ++ os2) | None => None end
  | None => None
  end.
Proof.
  revert c. induction ls1 as [|l ls1 IH]; intro c; cbn [run app].
  - destruct (run c ls2) as [[c2 os2]|]; reflexivity.
  - destruct (step c l) as [[c1 o]|]; [|reflexivity]. rewrite IH.
    destruct (run c1 ls1) as [[c2 os1]|]; [|reflexivity].
    destruct (run c2 ls2) as [[c3 os2]|]; reflexivity.
Qed.

Lemma run_inv ls : forall c c' os, Inv c -> run c ls = Some (c', os) -> Inv c'.
Proof.
  induction ls as [|l ls IH]; intros c c' os H E; cbn [run] in E.
  - injection E as <- _. exact H.
  - destruct (step c l) as [[c1 o]|] eqn:Es; [|discriminate].
    destruct (run c1 ls) as [[c2 os2]|] eqn:Er; [|discriminate]. injection E as <- _.
    eapply IH; [|exact Er]. exact (proj1 (step_ok _ _ _ _ Es H)).
Qed.

Lemma reachable_inv c : reachable c -> Inv c.
Proof. intros (n & e & ka & scr & ls & os & E). eapply run_inv; [apply Inv_init|exact E]. Qed.

Lemma reachable_step c l c' o : reachable c -> step c l = Some (c', o) -> reachable c'.
Proof.
  intros (n & e & ka & scr & ls & os & E) Es. exists n, e, ka, scr, (ls ++ [l]), (os ++ [o]).
  rewrite run_app, E. cbn [run]. rewrite Es. reflexivity.
Qed.

(* ---------------- C05: the visible state only moves forward ---------------- *)
Definition flags_ok (c : conn) : Prop :=
  (is_connected c = true <-> cs c = Connected) /\
  (handshake_complete c = true <-> (cs c = HsDone \/ cs c = Connected)).

Lemma Inv_flags c : Inv c -> flags_ok c.
Proof.
  intros ((F1 & F2) & _). cbn in F1, F2. unfold flags_ok. rewrite F1, F2.
  destruct (cs c); split; split; intro Q; try discriminate; try reflexivity; auto; destruct Q; discriminate.
Qed.

Lemma state_forward c l c' o :
  reachable c -> step c l = Some (c', o) ->
  trans_ok (cs c) (cs c') /\ (cs c = Closed -> cs c' = Closed) /\ flags_ok c /\ flags_ok c'.
Proof.
  intros Hr Es. pose proof (reachable_inv c Hr) as H. destruct (step_ok _ _ _ _ Es H) as [H' T].
  split; [exact T|]. split; [|split; apply Inv_flags; assumption].
  intro Hc. rewrite Hc in T. destruct T as [T|[[T _]|[[T _]|[[T _]|T]]]]; try discriminate; congruence.
Qed.

(* rank of a state; Closed is terminal *)
Definition rank (s : cstate) : nat :=
  match s with Init => 0 | SockOpen => 1 | HsDone => 2 | Connected => 3 | Closed => 4 end.
Lemma trans_ok_rank s s' : trans_ok s s' -> (rank s <= rank s')%nat.
Proof. intros [->|[[-> ->]|[[-> ->]|[[-> ->]| ->]]]]; cbn; try lia. destruct s; cbn; lia. Qed.

Lemma run_rank ls : forall c c' os, Inv c -> run c ls = Some (c', os) -> (rank (cs c) <= rank (cs c'))%nat.
Proof.
  induction ls as [|l ls IH]; intros c c' os H E; cbn [run] in E.
  - injection E as <- _. lia.
  - destruct (step c l) as [[c1 o]|] eqn:Es; [|discriminate].
    destruct (run c1 ls) as [[c2 os2]|] eqn:Er; [|discriminate]. injection E as <- _.
    destruct (step_ok _ _ _ _ Es H) as [H1 T]. apply trans_ok_rank in T.
    specialize (IH _ _ _ H1 Er). lia.
Qed.

(* the single-use guards: calling start / finish in any other state raises and changes nothing *)
Lemma start_guard c : cs c <> Init -> step c LStart = Some (c, [ORaise RuntimeErr]).
Proof. intro Hn. cbn [step]. destruct (cs c); try reflexivity. contradiction. Qed.
Lemma finish_guard c lg : cs c <> SockOpen -> step c (LFinish lg) = Some (c, [ORaise RuntimeErr]).
Proof. intro Hn. cbn [step]. destruct (cs c); try reflexivity. contradiction. Qed.
(* a start that is accepted needs Init and a task that never ran: one connect attempt per object *)
Lemma start_accepted c c' o :
  step c LStart = Some (c', o) -> o = [] -> cs c = Init /\ pc (t_start c) = PNone /\ pc (t_start c') = PS_Resolve.
Proof.
  cbn [step]. destruct (cs c); try (intros E ->; discriminate).
  destruct (pc (t_start c)) eqn:Ep; try discriminate. intros E _. injection E as <- _. auto.
Qed.

(* ---------------- C07 (ghost level): stop callback bookkeeping ---------------- *)
Lemma stop_once c :
  reachable c ->
  (stop_calls c = [] \/ exists b, stop_calls c = [b]) /\
  ((exists b, stop_calls c = [b]) <-> (ever_connected c = true /\ cs c = Closed)) /\
  (ever_connected c = true <-> (cs c = Connected \/ (cs c = Closed /\ stop_calls c <> []))).
Proof.
  intro Hr. pose proof (reachable_inv c Hr) as (F & J & (S1 & S2 & S3 & S4 & S5) & C). cbn in *.
  destruct (on_stop_armed c) eqn:Ea.
  - specialize (S1 eq_refl). rewrite S1. split; [auto|]. split.
    + split; [intros [b Q]; discriminate|]. intros [He Hc]. specialize (S5 Hc He). discriminate.
    + split.
      * intro He. destruct (S3 He) as [Q|Q]; [auto|]. specialize (S5 Q He). discriminate.
      * intros [Q|[_ Q]]; [auto|contradiction].
  - destruct (S2 eq_refl) as (He & Hc & b & Hb). rewrite Hb. split; [eauto|]. split.
    + split; eauto.
    + split; [intro; right; split; [exact Hc|discriminate]|auto].
Qed.

(* ---------------- C08 (state level): a closed connection holds nothing ---------------- *)
Lemma closed_released c :
  reachable c -> cs c = Closed ->
  ping_timer c = None /\ pong_timer c = None /\ waiters c = [] /\ socket c = false /\
  (helper c = HNone \/ pc (t_finish c) = PF_Ready) /\ is_connected c = false /\ handshake_complete c = false.
Proof.
  intros Hr Hc. pose proof (reachable_inv c Hr) as ((F1 & F2) & J & S & C). cbn in *.
  specialize (C Hc). rewrite Hc in F1, F2. tauto.
Qed.
