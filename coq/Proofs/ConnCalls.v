(* C11: request/response calls of Model/Conn.v. *)
From Coq Require Import NArith ZArith List Bool Lia.
From RecordUpdate Require Import RecordSet.
From Verif Require Import Generated.GenConstants Model.Conn Proofs.ConnSync.
Import ListNotations RecordSetNotations.
Open Scope Z_scope.
Open Scope list_scope.

(* the specification: accepted messages in arrival order up to and including the first stop message *)
Fixpoint collect (ap st : pred) (ms : list msg) : list msg :=
  match ms with
  | [] => []
  | m :: r => (if eval_pred ap m then [m] else []) ++ (if eval_pred st m then [] else collect ap st r)
  end.

(* handle_complex_message on the call record *)
Definition call_step (k : call) (m : msg) : call :=
  match c_fut k with
  | CPending =>
    let k1 := if eval_pred (c_append k) m then k <| c_responses := c_responses k ++ [m] |> else k in
    if eval_pred (c_stop k) m then k1 <| c_fut := CResult |> else k1
  | _ => k
  end.


Lemma call_step_preds k m : c_append (call_step k m) = c_append k /\ c_stop (call_step k m) = c_stop k.
Proof. unfold call_step. destruct (c_fut k); auto. destruct (eval_pred (c_append k) m), (eval_pred (c_stop k) m); auto. Qed.

Lemma fold_call_step_done ms : forall k, c_fut k <> CPending -> fold_left call_step ms k = k.
Proof.
  induction ms as [|m ms IH]; intros k H; cbn [fold_left]; [reflexivity|].
  assert (E : call_step k m = k) by (unfold call_step; destruct (c_fut k); try reflexivity; contradiction).
  rewrite E. apply IH. exact H.
Qed.

Theorem call_collects ms : forall k,
  c_fut k = CPending ->
  c_responses (fold_left call_step ms k) = c_responses k ++ collect (c_append k) (c_stop k) ms /\
  c_fut (fold_left call_step ms k) = (if existsb (eval_pred (c_stop k)) ms then CResult else CPending).
Proof.
  induction ms as [|m ms IH]; intros k Hp; cbn [fold_left collect existsb].
  - rewrite app_nil_r. auto.
  - destruct (call_step_preds k m) as [Pa Ps].
    destruct (eval_pred (c_stop k) m) eqn:Es.
    + assert (Hd : c_fut (call_step k m) = CResult).
      { unfold call_step. rewrite Hp, Es. destruct (eval_pred (c_append k) m); reflexivity. }
      rewrite fold_call_step_done by (rewrite Hd; discriminate). cbn [orb]. split; [|exact Hd].
      unfold call_step. rewrite Hp, Es. destruct (eval_pred (c_append k) m); cbn; rewrite ?app_nil_r; reflexivity.
    + assert (Hd : c_fut (call_step k m) = CPending).
      { unfold call_step. rewrite Hp, Es. destruct (eval_pred (c_append k) m); cbn; exact Hp. }
      destruct (IH _ Hd) as [A B]. rewrite Pa, Ps in A. rewrite Ps in B. cbn [orb]. split; [|exact B].
      rewrite A. unfold call_step. rewrite Hp, Es. destruct (eval_pred (c_append k) m); cbn; rewrite <- ?app_assoc; reflexivity.
Qed.

(* once the future is done (result, timeout, error, cancelled) later messages change nothing *)
Theorem call_done_ignores k m : c_fut k <> CPending -> call_step k m = k.
Proof. intro H. unfold call_step. destruct (c_fut k); try reflexivity. contradiction. Qed.

(* ---- the finally block leaves nothing behind ---- *)
Definition has_handler (c : conn) (cid : nat) : bool := existsb (fun p => hid_eqb (snd p) (HCall cid)) (handlers c).

Lemma hid_eqb_refl h : hid_eqb h h = true.
Proof. destruct h; cbn; auto using Nat.eqb_refl. Qed.

Lemma filter_filter {A} (f g : A -> bool) (l : list A) : filter f (filter g l) = filter (fun x => g x && f x) l.
Proof. induction l as [|a r IH]; cbn; [reflexivity|]. destruct (g a); cbn; [destruct (f a); cbn; rewrite IH; reflexivity|exact IH]. Qed.

Lemma handlers_remove_fold l cid : forall c,
  handlers (fold_left (fun a ty => remove_handler a ty (HCall cid)) l c) =
  filter (fun p => negb (existsb (N.eqb (fst p)) l && hid_eqb (snd p) (HCall cid))) (handlers c).
Proof.
  induction l as [|ty l IH]; intro c; cbn [fold_left existsb].
  - cbn. induction (handlers c) as [|a r IHr]; cbn; [reflexivity|]. f_equal. exact IHr.
  - rewrite IH.
    change (handlers (remove_handler c ty (HCall cid)))
      with (filter (fun p => negb (N.eqb (fst p) ty && hid_eqb (snd p) (HCall cid))) (handlers c)).
    rewrite filter_filter. apply filter_ext. intro a.
    destruct (N.eqb (fst a) ty), (existsb (N.eqb (fst a)) l), (hid_eqb (snd a) (HCall cid)); reflexivity.
Qed.

(* all handlers of a call are registered under the call's own types (true of call_begin); then the finally block,
   which removes the callback for exactly those types, removes every trace of the call *)
Definition own_types_only (c : conn) (cid : nat) (types : list N) : Prop :=
  forall p, In p (handlers c) -> hid_eqb (snd p) (HCall cid) = true -> existsb (N.eqb (fst p)) types = true.

Theorem call_finally_clean c cid k :
  get_call c cid = Some k -> own_types_only c cid (c_types k) ->
  let c' := call_finally c cid in
  has_handler c' cid = false /\ existsb (Nat.eqb cid) (waiters c') = false /\
  (forall k', get_call c' cid = Some k' -> c_timer k' = None).
Proof.
  intros Ek Hown. unfold call_finally. rewrite Ek. cbn zeta. split; [|split].
  - unfold has_handler. cbn [handlers set]. rewrite handlers_remove_fold.
    apply not_true_is_false. intro Hx. apply existsb_exists in Hx. destruct Hx as (p & Hin & Hp).
    apply filter_In in Hin. destruct Hin as [Hin Hf]. cbn [handlers upd_call set] in Hin.
    rewrite (Hown p Hin Hp), Hp in Hf. discriminate.
  - cbn [waiters set]. apply not_true_is_false. intro Hx. apply existsb_exists in Hx. destruct Hx as (w & Hin & Hw).
    apply filter_In in Hin. destruct Hin as [_ Hf]. apply Nat.eqb_eq in Hw. subst w. rewrite Nat.eqb_refl in Hf. discriminate.
  - intros k' Ek'. unfold get_call in Ek'. apply find_some in Ek'. destruct Ek' as [Hin Hid].
    assert (Hc : forall x, calls (fold_left (fun a ty => remove_handler a ty (HCall cid)) (c_types k) x) = calls x).
    { generalize (c_types k). intro l. induction l as [|a l IH]; intro x; cbn [fold_left]; [reflexivity|]. rewrite IH. reflexivity. }
    cbn [calls set] in Hin. rewrite Hc in Hin. unfold upd_call in Hin. cbn [calls set] in Hin.
    apply in_map_iff in Hin. destruct Hin as (k0 & Hk0 & _). destruct (Nat.eqb (c_id k0) cid) eqn:Q.
    + subst k'. reflexivity.
    + subst k'. rewrite Q in Hid. discriminate.
Qed.

(* every way a call task ends runs the finally block first *)
Theorem wake_call_runs_finally c cid c' o :
  wake_call c cid = Some (c', o) ->
  exists c1 r, c' = fst (finish_task (call_finally c1 cid) (TCall cid) r) /\ c1 = fst (take_cancel c (TCall cid)).
Proof.
  unfold wake_call. intro E.
  destruct (pc (get_task c (TCall cid))); try discriminate.
  destruct (get_call c cid) as [kk|]; [|discriminate].
  destruct (must_cancel (get_task c (TCall cid)) || cfut_done (c_fut kk)); [|discriminate].
  destruct (take_cancel c (TCall cid)) as [c1 mc]. cbn [fst].
  injection E as E _. subst c'. eexists. eexists. split; reflexivity.
Qed.

(* outcome classes of a call task *)
Theorem wake_call_outcome c cid c' o kk :
  wake_call c cid = Some (c', o) -> get_call c cid = Some kk ->
  In (OTaskDone (TCall cid)
        (if must_cancel (get_task c (TCall cid)) then TRaise CancelledErr
         else match deliver_cfut (c_fut kk) with DOk => TOk | DExc e => TRaise e end)) o.
Proof.
  unfold wake_call. intros E Ek. rewrite Ek in E.
  destruct (pc (get_task c (TCall cid))); try discriminate.
  destruct (must_cancel (get_task c (TCall cid)) || cfut_done (c_fut kk)) eqn:Ec; [|discriminate].
  unfold take_cancel in E. destruct (must_cancel (get_task c (TCall cid))) eqn:Em; injection E as _ <-; left; reflexivity.
Qed.

(* the timeout fires exactly at sent_at + timeout: virtual time cannot pass an armed deadline *)
Theorem advance_respects_deadlines c t c' o :
  step c (LAdvance t) = Some (c', o) -> forall d, In d (armed_deadlines c) -> t <= d.
Proof.
  cbn [step]. destruct (Z.leb (now c) t && forallb (fun d => Z.leb t d) (armed_deadlines c)) eqn:E; [|discriminate].
  intros _ d Hd. apply andb_true_iff in E. destruct E as [_ E]. rewrite forallb_forall in E. apply Z.leb_le. apply E. exact Hd.
Qed.
Theorem call_timer_due_iff c cid k :
  get_call c cid = Some k -> c_timer k = Some (c_sent_at k + c_timeout k) ->
  (step c (LTimer (TkCall cid)) <> None <-> c_sent_at k + c_timeout k <= now c).
Proof.
  intros Ek Et. cbn [step]. rewrite Ek. unfold due. rewrite Et. destruct (Z.leb_spec (c_sent_at k + c_timeout k) (now c)); split; intro H0; try lia; try discriminate.
  contradiction H0. reflexivity.
Qed.

(* ---- handle_complex_message acts on its own call record only (non-interference) ---- *)
Lemma find_upd (l : list call) cid x (f : call -> call) :
  (forall k, c_id k = cid -> c_id (f k) = cid) ->
  find (fun k => Nat.eqb (c_id k) x) (map (fun k => if Nat.eqb (c_id k) cid then f k else k) l) =
  if Nat.eqb x cid then option_map f (find (fun k => Nat.eqb (c_id k) x) l) else find (fun k => Nat.eqb (c_id k) x) l.
Proof.
  intro Hf. induction l as [|a r IH]; cbn [map find].
  - destruct (Nat.eqb x cid); reflexivity.
  - destruct (Nat.eqb (c_id a) cid) eqn:E1.
    + apply Nat.eqb_eq in E1. rewrite (Hf a E1). rewrite E1. destruct (Nat.eqb cid x) eqn:E4.
      * apply Nat.eqb_eq in E4. subst x. rewrite Nat.eqb_refl. reflexivity.
      * assert (E5 : Nat.eqb x cid = false) by (rewrite Nat.eqb_sym; exact E4). rewrite E5 in *. exact IH.
    + destruct (Nat.eqb (c_id a) x) eqn:E2; [|exact IH].
      apply Nat.eqb_eq in E2. subst x. rewrite E1. reflexivity.
Qed.

Theorem handle_call_message_own c cid m k :
  get_call c cid = Some k -> get_call (handle_call_message c cid m) cid = Some (call_step k m).
Proof.
  intro Ek. unfold handle_call_message. rewrite Ek.
  assert (Hid : c_id k = cid) by (unfold get_call in Ek; apply find_some in Ek; destruct Ek as [_ Q]; apply Nat.eqb_eq; exact Q).
  assert (G : forall k2, c_id k2 = cid -> get_call (upd_call c cid (fun _ => k2)) cid = Some k2).
  { intros k2 Hk2. unfold get_call, upd_call. cbn [calls set]. rewrite find_upd by (intros; exact Hk2). rewrite Nat.eqb_refl.
    unfold get_call in Ek. rewrite Ek. reflexivity. }
  unfold call_step. destruct (c_fut k) eqn:Ef; try (rewrite Ek; reflexivity).
  rewrite G; [reflexivity|]. destruct (eval_pred (c_append k) m), (eval_pred (c_stop k) m); exact Hid.
Qed.

Theorem handle_call_message_others c cid cid' m :
  cid' <> cid -> get_call (handle_call_message c cid m) cid' = get_call c cid'.
Proof.
  intro Hn. unfold handle_call_message. destruct (get_call c cid) as [k|] eqn:Ek; [|reflexivity].
  assert (Hid : c_id k = cid) by (unfold get_call in Ek; apply find_some in Ek; destruct Ek as [_ Q]; apply Nat.eqb_eq; exact Q).
  destruct (c_fut k); try reflexivity.
  unfold get_call, upd_call. cbn [calls set]. rewrite find_upd.
  - apply Nat.eqb_neq in Hn. rewrite Hn. reflexivity.
  - intros q _. destruct (eval_pred (c_append k) m), (eval_pred (c_stop k) m); exact Hid.
Qed.
