(* Every transition of Model/Conn.v preserves the invariant and moves the visible state forward only. *)
From Coq Require Import NArith ZArith List Bool Lia Relations.
From RecordUpdate Require Import RecordSet.
From Verif Require Import Model.Conn Proofs.ConnCore Proofs.ConnSync.
Import ListNotations RecordSetNotations.
Open Scope Z_scope.
Open Scope list_scope.

Lemma some_pair_fst {A B} (x : A * B) a b : Some x = Some (a, b) -> a = fst x.
Proof. intro E. injection E as ->. reflexivity. Qed.

Lemma Inv_core_eq c c' : core_of c' = core_of c -> Inv c -> Inv c'.
Proof. unfold Inv. intros ->. auto. Qed.

Definition StepOK (c c' : conn) : Prop := Inv c -> Inv c' /\ trans_ok (cs c) (cs c').

Lemma StepOK_core_eq c c' : core_of c' = core_of c -> StepOK c c'.
Proof.
  intros E H. split; [eapply Inv_core_eq; eassumption|].
  left. apply (f_equal k_cs) in E. exact E.
Qed.

Lemma StepOK_R c c' : R (core_of c) (core_of c') -> StepOK c c'.
Proof.
  intros HR H. apply R_ok in HR. destruct HR as (H1 & _ & _ & _ & _ & H6).
  split; [apply H6; exact H|]. apply only_closes_trans_ok. exact H1.
Qed.

(* sync move, with the facts the composite lemmas need *)
Lemma R_facts c c' : R (core_of c) (core_of c') -> Inv c ->
  Inv c' /\ only_closes (cs c) (cs c') /\ pc (t_start c') = pc (t_start c) /\ pc (t_finish c') = pc (t_finish c) /\
  pc (t_disc c') = pc (t_disc c) /\ ever_connected c' = ever_connected c.
Proof.
  intros HR H. apply R_ok in HR. destruct HR as (H1 & H2 & H3 & H4 & H5 & H6).
  split; [apply H6; exact H|]. repeat split; assumption.
Qed.

(* ---- task plumbing leaves the core alone ---- *)
Lemma core_take_cancel c t : core_of (fst (take_cancel c t)) = core_of c.
Proof.
  unfold take_cancel. destruct (must_cancel (get_task c t)); cbn [fst]; [|reflexivity].
  apply pc_set_task_same. reflexivity.
Qed.
Lemma core_timeout_exit c t e : core_of (fst (timeout_exit c t e)) = core_of c.
Proof.
  unfold timeout_exit. destruct (expiring (get_task c t)); [|reflexivity].
  destruct e; cbn [fst]; try (apply pc_set_task_same; reflexivity).
  destruct (Nat.eqb _ 0); cbn [fst]; apply pc_set_task_same; reflexivity.
Qed.
Lemma core_interrupt_exit c t e : core_of (fst (interrupt_exit c t e)) = core_of c.
Proof.
  unfold interrupt_exit. destruct (interrupted (get_task c t)); [|reflexivity].
  destruct e; cbn [fst]; try reflexivity.
  destruct (Nat.eqb _ 0); cbn [fst]; apply pc_set_task_same; reflexivity.
Qed.

(* ---- core-level facts about finishing tasks and advancing the state ---- *)
Definition with_pcs (k : core) (ps pf pd : tpc) : core :=
  mkCore (k_cs k) (k_conn k) (k_hs k) (k_armed k) (k_stops k) (k_ever k) (k_ping k) (k_pong k) (k_waiters k)
         (k_socket k) (k_helper k) ps pf pd (k_expected k).

Lemma InvK_with_pcs k ps pf pd :
  InvK k ->
  (match ps with PS_Resolve | PS_Tcp _ => k_cs k = Init \/ k_cs k = Closed | _ => True end) ->
  (match pf with
   | PF_Create | PF_Ready => k_cs k = SockOpen \/ k_cs k = Closed
   | PF_Hello _ => k_cs k = HsDone \/ k_cs k = Closed
   | _ => True end) ->
  (k_cs k = Closed -> k_helper k = HNone \/ pf = PF_Ready) ->
  InvK (with_pcs k ps pf pd).
Proof.
  destruct k as [s cn hs ar st ev pi po w so he ps0 pf0 pd0 ex]. unfold with_pcs, InvK, flagsK, JK, StopK, ClosedK. cbn.
  intros (F & J & S & C) H1 H2 H3. repeat split; try tauto.
  all: intro Hc; specialize (C Hc); tauto.
Qed.

Lemma core_finish_task c t r :
  core_of (fst (finish_task c t r)) =
  match t with
  | TStart => with_pcs (core_of c) (PDone r) (pc (t_finish c)) (pc (t_disc c))
  | TFinish => with_pcs (core_of c) (pc (t_start c)) (PDone r) (pc (t_disc c))
  | TDisc => with_pcs (core_of c) (pc (t_start c)) (pc (t_finish c)) (PDone r)
  | TCall _ => core_of c
  end.
Proof. destruct t; reflexivity. Qed.

(* finishing a task after the connection was cleaned up, or a task the invariant does not constrain *)
Lemma finish_task_ok c t r :
  Inv c -> (t = TFinish -> cs c = Closed -> helper c = HNone) -> Inv (fst (finish_task c t r)) /\ cs (fst (finish_task c t r)) = cs c.
Proof.
  intros H Hf. split; [|destruct t; reflexivity].
  unfold Inv. rewrite core_finish_task. unfold Inv in H.
  pose proof H as (F & J & S & C). destruct J as [J1 J2].
  destruct t; try exact H; apply InvK_with_pcs; try exact H; cbn; auto.
  all: try (intro Hc; specialize (C Hc); cbn in C; tauto).
  all: try (intro Hc; left; apply Hf; auto).
Qed.

(* cleanup then finish: the common tail of every failing connect phase *)
Lemma cleanup_finish_ok c t r :
  Inv c ->
  let '(c2, o) := cleanup c in
  forall c3, core_of c3 = core_of c2 ->
  Inv (fst (finish_task c3 t r)) /\ cs (fst (finish_task c3 t r)) = Closed.
Proof.
  intro H. pose proof (core_cleanup c) as E. destruct (cleanup c) as [c2 o]. cbn [fst] in E.
  intros c3 E3.
  assert (H2 : Inv c2).
  { pose proof (R_cleanup c) as HR. rewrite core_cleanup in HR. rewrite <- E in HR. eapply R_facts in HR; [|exact H]. tauto. }
  assert (Hc : cs c2 = Closed).
  { change (cs c2) with (k_cs (core_of c2)). rewrite E. apply closeK_cs. }
  assert (Hh : helper c2 = HNone).
  { change (helper c2) with (k_helper (core_of c2)). rewrite E. apply closeK_helper. }
  assert (H3 : Inv c3) by (eapply Inv_core_eq; eassumption).
  assert (Hc3 : cs c3 = Closed) by (apply (f_equal k_cs) in E3; cbn in E3; congruence).
  assert (Hh3 : helper c3 = HNone) by (apply (f_equal k_helper) in E3; cbn in E3; congruence).
  destruct (finish_task_ok c3 t r H3) as [A B]; [auto|]. split; [exact A|congruence].
Qed.

Lemma start_fail_ok c e : Inv c -> Inv (fst (start_fail c e)) /\ cs (fst (start_fail c e)) = Closed.
Proof.
  intro H. unfold start_fail.
  pose proof (core_interrupt_exit c TStart e) as E0. destruct (interrupt_exit c TStart e) as [c0 e1]. cbn [fst] in E0.
  set (c1 := c0 <| intr_start := IExited |> <| conn_timer := None |>).
  assert (H1 : Inv c1) by (apply (Inv_core_eq c); [exact E0|exact H]).
  pose proof (cleanup_finish_ok c1 TStart (TRaise (wrap_fatal (fst (cleanup c1)) e1)) H1) as K.
  destruct (cleanup c1) as [c2 o]. cbn [fst] in K.
  specialize (K (set_start_future c2) (core_set_start_future c2)).
  destruct (finish_task (set_start_future c2) TStart (TRaise (wrap_fatal c2 e1))) as [c4 o2]. cbn [fst] in *. exact K.
Qed.

Lemma finish_fail_ok c e : Inv c -> Inv (fst (finish_fail c e)) /\ cs (fst (finish_fail c e)) = Closed.
Proof.
  intro H. unfold finish_fail.
  pose proof (core_interrupt_exit c TFinish e) as E0. destruct (interrupt_exit c TFinish e) as [c0 e1]. cbn [fst] in E0.
  set (c1 := c0 <| intr_finish := IExited |> <| hs_timer := None |>).
  assert (H1 : Inv c1) by (apply (Inv_core_eq c); [exact E0|exact H]).
  pose proof (cleanup_finish_ok c1 TFinish (TRaise (wrap_fatal (fst (cleanup c1)) e1)) H1) as K.
  destruct (cleanup c1) as [c2 o]. cbn [fst] in K.
  specialize (K (set_finish_future c2) (core_set_finish_future c2)).
  destruct (finish_task (set_finish_future c2) TFinish (TRaise (wrap_fatal c2 e1))) as [c4 o2]. cbn [fst] in *. exact K.
Qed.

Lemma StepOK_closed c c' : Inv c' -> cs c' = Closed -> trans_ok (cs c) (cs c').
Proof. intros _ ->. unfold trans_ok. auto. Qed.

(* ---- start_connection ---- *)
Lemma start_tcp_attempt_core c g :
  core_of (start_tcp_attempt c g) =
  with_pcs (core_of c) (PS_Tcp g) (pc (t_finish c)) (pc (t_disc c)).
Proof. reflexivity. Qed.

(* generic: "closed while a phase completed" tail: cleanup + finish with an error *)
Lemma closed_tail_ok c0 c t (mk : conn -> tres) :
  Inv c0 -> cs c0 = Closed ->
  (* c is c0 with late-acquired resources that cleanup releases again *)
  releaseK (core_of c) = releaseK (core_of c0) -> cs c = Closed ->
  let r := (let '(c3, o) := cleanup c in let '(c4, o2) := finish_task c3 t (mk c3) in (c4, o ++ o2)) in
  Inv (fst r) /\ cs (fst r) = Closed.
Proof.
  intros H0 Hc0 Erel Hc.
  pose proof (core_cleanup c) as Ecl. destruct (cleanup c) as [c3 o]. cbn [fst] in Ecl.
  assert (E3 : core_of c3 = releaseK (core_of c0)).
  { rewrite Ecl. unfold closeK. change (k_cs (core_of c)) with (cs c). rewrite Hc. exact Erel. }
  assert (H3 : Inv c3).
  { unfold Inv. rewrite E3. pose proof (mv_ok _ _ (MvClose (core_of c0))) as M. destruct M as (_ & _ & _ & _ & _ & M).
    unfold closeK in M. change (k_cs (core_of c0)) with (cs c0) in M. rewrite Hc0 in M. apply M. exact H0. }
  assert (Hc3 : cs c3 = Closed) by (change (cs c3) with (k_cs (core_of c3)); rewrite E3; exact Hc0).
  assert (Hh3 : helper c3 = HNone) by (change (helper c3) with (k_helper (core_of c3)); rewrite E3; reflexivity).
  cbn zeta. destruct (finish_task_ok c3 t (mk c3) H3) as [A B]; [auto|].
  destruct (finish_task c3 t (mk c3)) as [c4 o2]. cbn [fst] in *. split; [exact A|congruence].
Qed.

Lemma start_success_ok c :
  Inv c -> (cs c = Init \/ cs c = Closed) ->
  Inv (fst (start_success c)) /\ trans_ok (cs c) (cs (fst (start_success c))).
Proof.
  intros H Hcs. unfold start_success.
  set (c1 := c <| socket := true |> <| sock_obj := false |> <| intr_start := IExited |> <| conn_timer := None |>).
  pose proof (core_set_start_future c1) as E2. set (c2 := set_start_future c1) in *.
  assert (Ecs : cs c2 = cs c) by (change (cs c2) with (k_cs (core_of c2)); rewrite E2; reflexivity).
  destruct Hcs as [Hi|Hc].
  - rewrite Ecs, Hi.
    assert (E : forall x, core_of (fst (finish_task (set_state x SockOpen) TStart TOk)) =
                          mkCore SockOpen false false (k_armed (core_of x)) (k_stops (core_of x)) (k_ever (core_of x)) (k_ping (core_of x))
                                 (k_pong (core_of x)) (k_waiters (core_of x)) (k_socket (core_of x)) (k_helper (core_of x))
                                 (PDone TOk) (k_pf (core_of x)) (k_pd (core_of x)) (k_expected (core_of x))) by reflexivity.
    split.
    + unfold Inv. rewrite E, E2. change (core_of c1) with
        (mkCore (cs c) (is_connected c) (handshake_complete c) (on_stop_armed c) (stop_calls c) (ever_connected c) (ping_timer c)
                (pong_timer c) (waiters c) true (helper c) (pc (t_start c)) (pc (t_finish c)) (pc (t_disc c)) (expected_disconnect c)).
      cbn. apply (InvK_sockopen (core_of c)); [exact H|exact Hi].
    + change (cs (fst (finish_task (set_state c2 SockOpen) TStart TOk))) with SockOpen. unfold trans_ok. auto.
  - rewrite Ecs, Hc.
    destruct (closed_tail_ok c c2 TStart (fun c3 => TRaise (wrap_fatal c3 Interrupted)) H Hc) as [A B].
    + rewrite E2. reflexivity.
    + congruence.
    + cbn zeta in A, B. split; [exact A|]. rewrite B. unfold trans_ok. auto.
Qed.

Lemma wake_start_ok c c' o : wake_start c = Some (c', o) -> StepOK c c'.
Proof.
  unfold wake_start. intros E H.
  pose proof H as (F & [J1 J2] & S & C).
  destruct (pc (get_task c TStart)) eqn:Epc; try discriminate; cbn [get_task] in Epc; change (k_ps (core_of c)) with (pc (t_start c)) in J1;
    rewrite Epc in J1.
  - (* resolving *)
    destruct (must_cancel (get_task c TStart) || negb match do_connect c with EPending => true | _ => false end); [|discriminate].
    pose proof (core_take_cancel c TStart) as E1. destruct (take_cancel c TStart) as [c1 mc]. cbn [fst] in E1.
    assert (H1 : Inv c1) by (eapply Inv_core_eq; eassumption).
    assert (Ecs1 : cs c1 = cs c) by (change (cs c1) with (k_cs (core_of c1)); rewrite E1; reflexivity).
    assert (Epf1 : pc (t_finish c1) = pc (t_finish c)) by (change (k_pf (core_of c1) = k_pf (core_of c)); rewrite E1; reflexivity).
    cbn [core_of k_cs k_pf k_ps] in J1, J2.
    match type of E with match ?d with _ => _ end = _ => destruct d as [|e] end.
    + apply some_pair_fst in E; subst c'; cbn [fst]. split.
      * unfold Inv. rewrite start_tcp_attempt_core.
        apply InvK_with_pcs; cbn.
        -- eapply (Inv_core_eq c1); [reflexivity|exact H1].
        -- rewrite ?Ecs1. exact J1.
        -- rewrite ?Epf1, ?Ecs1. exact J2.
        -- intro Hc. destruct H1 as (_ & _ & _ & C1). specialize (C1 Hc). cbn in C1. tauto.
      * left. cbn. exact Ecs1.
    + pose proof (core_timeout_exit (c1 <| conn_timer := None |>) TStart e) as E2.
      destruct (timeout_exit (c1 <| conn_timer := None |>) TStart e) as [c2 e1]. cbn [fst] in E2.
      change (core_of (c1 <| conn_timer := None |>)) with (core_of c1) in E2.
      assert (H2 : Inv c2) by (apply (Inv_core_eq c1); [exact E2|exact H1]).
      apply some_pair_fst in E; subst c'; cbn [fst]. destruct (start_fail_ok c2 match e1 with PyTimeout => Lib LResolve | x => x end H2) as [A B].
      split; [exact A|]. rewrite B. unfold trans_ok. auto.
  - (* TCP attempt *)
    destruct (must_cancel (get_task c TStart) || negb match do_connect c with EPending => true | _ => false end); [|discriminate].
    pose proof (core_take_cancel c TStart) as E1. destruct (take_cancel c TStart) as [c1 mc]. cbn [fst] in E1.
    assert (H1 : Inv c1) by (eapply Inv_core_eq; eassumption).
    assert (Ecs1 : cs c1 = cs c) by (change (cs c1) with (k_cs (core_of c1)); rewrite E1; reflexivity).
    assert (Epf1 : pc (t_finish c1) = pc (t_finish c)) by (change (k_pf (core_of c1) = k_pf (core_of c)); rewrite E1; reflexivity).
    cbn [core_of k_cs k_pf k_ps] in J1, J2.
    match type of E with match ?d with _ => _ end = _ => destruct d as [|e] end.
    + apply some_pair_fst in E; subst c'; cbn [fst].
      assert (H1' : Inv (c1 <| sock_obj := true |>)) by (apply (Inv_core_eq c1); [reflexivity|exact H1]).
      destruct (start_success_ok (c1 <| sock_obj := true |>) H1') as [A B].
      * change (cs (c1 <| sock_obj := true |>)) with (cs c1). rewrite Ecs1. exact J1.
      * split; [exact A|]. change (cs (c1 <| sock_obj := true |>)) with (cs c1) in B. rewrite Ecs1 in B. exact B.
    + pose proof (core_timeout_exit (c1 <| conn_timer := None |>) TStart e) as E2.
      destruct (timeout_exit (c1 <| conn_timer := None |>) TStart e) as [c2 e1]. cbn [fst] in E2.
      change (core_of (c1 <| conn_timer := None |>)) with (core_of c1) in E2.
      assert (H2 : Inv c2) by (apply (Inv_core_eq c1); [exact E2|exact H1]).
      assert (Ecs2 : cs c2 = cs c) by (change (cs c2) with (k_cs (core_of c2)); rewrite E2; exact Ecs1).
      destruct (is_oserror e1).
      * match type of E with match ?g with O => _ | S _ => _ end = _ => destruct g as [|[|g']] end.
        -- apply some_pair_fst in E; subst c'; cbn [fst]. destruct (start_fail_ok c2 match e1 with PyTimeout => Lib LTimeout | _ => Lib LSocket end H2) as [A B].
           split; [exact A|]. rewrite B. unfold trans_ok. auto.
        -- apply some_pair_fst in E; subst c'; cbn [fst]. destruct (start_fail_ok c2 match e1 with PyTimeout => Lib LTimeout | _ => Lib LSocket end H2) as [A B].
           split; [exact A|]. rewrite B. unfold trans_ok. auto.
        -- apply some_pair_fst in E; subst c'; cbn [fst]. split.
           ++ unfold Inv. rewrite start_tcp_attempt_core. apply InvK_with_pcs; cbn.
              ** exact H2.
              ** rewrite ?Ecs2. exact J1.
              ** replace (pc (t_finish c2)) with (pc (t_finish c1)) by (change (k_pf (core_of c1) = k_pf (core_of c2)); rewrite E2; reflexivity).
                 rewrite ?Epf1, ?Ecs2. exact J2.
              ** intro Hc. destruct H2 as (_ & _ & _ & C2). specialize (C2 Hc). cbn in C2. tauto.
           ++ left. cbn. exact Ecs2.
      * apply some_pair_fst in E; subst c'; cbn [fst]. destruct (start_fail_ok c2 e1 H2) as [A B].
        split; [exact A|]. rewrite B. unfold trans_ok. auto.
Qed.
