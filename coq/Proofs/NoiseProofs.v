(* C03 / C04: the Noise frame helper (Model/NoiseFrame.v) - segmentation independence for ALL byte streams, and the
   behaviour on framed streams (honest and adversarial) under an ideal AEAD given as section hypotheses. *)
From Coq Require Import NArith List Bool Lia Arith.
From Verif Require Import Model.NoiseFrame.
Import ListNotations.
Open Scope N_scope.

Section Proofs.
  Variable decrypt : N -> bytes -> option bytes.
  Variable hs_read : bytes -> bool.
  Variable utf8_ok : bytes -> bool.
  Variable expected_name : option bytes.

  Notation loop := (loop decrypt hs_read utf8_ok expected_name).
  Notation data_received := (data_received decrypt hs_read utf8_ok expected_name).

  (* ---------------- fuel ---------------- *)
  Lemma loop_mono f : forall s acc k, r_status (loop f s acc) <> OutOfFuel -> loop (f + k) s acc = loop f s acc.
  Proof.
    induction f as [|f IH]; intros s acc k H; [cbn in H; contradiction|].
    cbn [loop plus] in *.
    destruct (s_buffer s) as [|b0 [|b1 [|b2 body]]]; try reflexivity.
    destruct (negb (b0 =? 1)); [destruct (handle_error_and_close s (EBadMarker b0)); reflexivity|].
    destruct (Nat.ltb (length body) (N.to_nat (be16 b1 b2))); [reflexivity|].
    match goal with |- context [match ?h with _ => _ end] => destruct h as [[s1 ev] ex] end.
    destruct ex; [reflexivity|]. apply IH. exact H.
  Qed.

  Lemma loop_enough f : forall s acc, (length (s_buffer s) < f)%nat -> r_status (loop f s acc) <> OutOfFuel.
  Proof.
    induction f as [|f IH]; intros s acc H; [lia|].
    cbn [loop].
    destruct (s_buffer s) as [|b0 [|b1 [|b2 body]]] eqn:Eb; try (cbn; discriminate).
    destruct (negb (b0 =? 1)); [destruct (handle_error_and_close s (EBadMarker b0)); cbn; discriminate|].
    destruct (Nat.ltb (length body) (N.to_nat (be16 b1 b2))); [cbn; discriminate|].
    match goal with |- context [match ?h with _ => _ end] => destruct h as [[s1 ev] ex] end.
    destruct ex; [cbn; discriminate|]. apply IH. cbn [s_buffer set_buffer].
    rewrite skipn_length. cbn [length] in H. lia.
  Qed.

  Lemma loop_fuel_irrelevant f1 f2 s acc :
    (length (s_buffer s) < f1)%nat -> (length (s_buffer s) < f2)%nat -> loop f1 s acc = loop f2 s acc.
  Proof.
    intros H1 H2. destruct (Nat.le_ge_cases f1 f2) as [L|L].
    - replace f2 with (f1 + (f2 - f1))%nat by lia. symmetry. apply loop_mono. apply loop_enough. exact H1.
    - replace f1 with (f2 + (f1 - f2))%nat by lia. apply loop_mono. apply loop_enough. exact H2.
  Qed.

  (* ---------------- extending the buffer of a run that ended normally ---------------- *)
  Lemma set_buffer_buffer s b : s_buffer (set_buffer s b) = b. Proof. reflexivity. Qed.
  Lemma set_buffer_idem s b c : set_buffer (set_buffer s b) c = set_buffer s c. Proof. reflexivity. Qed.

  (* the frame handlers never look at the buffer *)
  Definition dispatch (s : st) (frame : bytes) : st * list nevent * option nraise :=
    match s_state s with
    | NReady => handle_frame decrypt s frame
    | NHello => handle_hello utf8_ok expected_name s frame
    | NHandshake => handle_handshake hs_read utf8_ok s frame
    | NClosed => handle_closed s
    end.

  Lemma ready_exc_buf s e b : ready_exc (set_buffer s b) e = (set_buffer (fst (ready_exc s e)) b, snd (ready_exc s e)).
  Proof. unfold ready_exc. cbn. destruct (s_ready s); reflexivity. Qed.
  Lemma close_buf s b : close (set_buffer s b) = (set_buffer (fst (close s)) b, snd (close s)).
  Proof.
    unfold close. rewrite ready_exc_buf. destruct (ready_exc s EConnClosed) as [s1 ev]. cbn [fst snd].
    cbn. destruct (s_transport s1); reflexivity.
  Qed.
  Lemma hec_buf s e b : handle_error_and_close (set_buffer s b) e = (set_buffer (fst (handle_error_and_close s e)) b, snd (handle_error_and_close s e)).
  Proof.
    unfold handle_error_and_close, handle_error. rewrite ready_exc_buf. destruct (ready_exc s e) as [s1 ev]. cbn [fst snd].
    rewrite close_buf. destruct (close s1) as [s2 ev2]. reflexivity.
  Qed.

  Lemma dispatch_buf s frame b :
    dispatch (set_buffer s b) frame =
    let '(s1, ev, ex) := dispatch s frame in (set_buffer s1 b, ev, ex).
  Proof.
    unfold dispatch. cbn [s_state set_buffer]. destruct (s_state s).
    - (* hello *)
      unfold handle_hello. destruct frame as [|p rest].
      + rewrite hec_buf. destruct (handle_error_and_close s EEmptyHello). reflexivity.
      + destruct (negb (p =? 1)).
        * rewrite hec_buf. destruct (handle_error_and_close s (EUnknownProto p)). reflexivity.
        * destruct (take_until_nul rest) as [name0|]; [|reflexivity].
          cbn zeta. destruct expected_name as [en|]; [|reflexivity].
          match goal with |- context [bytes_eqb en ?nm] => destruct (bytes_eqb en nm); [reflexivity|];
            rewrite hec_buf; destruct (handle_error_and_close s (EBadName nm)); reflexivity end.
    - (* handshake *)
      unfold handle_handshake. destruct frame as [|b0 rest].
      + rewrite hec_buf. destruct (handle_error_and_close s EEmptyHandshake). reflexivity.
      + destruct (negb (b0 =? 0)).
        * cbn zeta. match goal with |- context [bytes_eqb ?tx MAC_FAILURE] => destruct (bytes_eqb tx MAC_FAILURE) end.
          -- rewrite hec_buf. destruct (handle_error_and_close s EInvalidKey). reflexivity.
          -- rewrite hec_buf. match goal with |- context [handle_error_and_close s ?e] => destruct (handle_error_and_close s e) end. reflexivity.
        * destruct (hs_read rest); reflexivity.
    - (* ready *)
      unfold handle_frame. cbn [s_dec_nonce set_buffer]. destruct (decrypt (s_dec_nonce s) frame) as [msg|]; [|reflexivity].
      destruct msg as [|t_hi [|t_lo r]]; reflexivity.
    - (* closed *)
      unfold handle_closed, handle_error. rewrite ready_exc_buf. destruct (ready_exc s EClosedFrame). reflexivity.
  Qed.

  (* one iteration of the loop, exposed *)
  Lemma loop_S f s acc :
    loop (S f) s acc =
    match s_buffer s with
    | [] => {| r_st := s; r_events := acc; r_status := Ok |}
    | b0 :: b1 :: b2 :: body =>
      if negb (b0 =? 1) then
        let '(s1, ev) := handle_error_and_close s (EBadMarker b0) in
        {| r_st := s1; r_events := acc ++ ev; r_status := Stopped |}
      else
        let len := N.to_nat (be16 b1 b2) in
        if Nat.ltb (length body) len then {| r_st := s; r_events := acc; r_status := Ok |}
        else
          let '(s1, ev, ex) := dispatch s (firstn len body) in
          match ex with
          | Some r => {| r_st := s1; r_events := acc ++ ev ++ [NRaise r]; r_status := Raised r |}
          | None => loop f (set_buffer s1 (skipn len body)) (acc ++ ev)
          end
    | _ => {| r_st := s; r_events := acc; r_status := Ok |}
    end.
  Proof. reflexivity. Qed.

  (* if a run over buffer B ends normally, a run over B ++ C does the same work and then continues on (rest ++ C) *)
  Lemma loop_extend f : forall s B acc C r,
    (length B < f)%nat ->
    loop f (set_buffer s B) acc = r -> r_status r = Ok ->
    exists s1, r_st r = s1 /\
      loop (f + length C) (set_buffer s (B ++ C)) acc =
      loop (S (length (s_buffer s1 ++ C))) (set_buffer s1 (s_buffer s1 ++ C)) (r_events r).
  Proof.
    induction f as [|f IH]; intros s B acc C r Hf E Hok; [lia|].
    exists (r_st r). split; [reflexivity|].
    rewrite loop_S in E. rewrite set_buffer_buffer in E.
    assert (Trivial : r = {| r_st := set_buffer s B; r_events := acc; r_status := Ok |} ->
              loop (S f + length C) (set_buffer s (B ++ C)) acc =
              loop (S (length (s_buffer (r_st r) ++ C))) (set_buffer (r_st r) (s_buffer (r_st r) ++ C)) (r_events r)).
    { intros ->. cbn [r_st r_events]. rewrite set_buffer_buffer, set_buffer_idem.
      apply loop_fuel_irrelevant; cbn [s_buffer set_buffer]; rewrite ?app_length; lia. }
    destruct B as [|b0 [|b1 [|b2 body]]]; try (apply Trivial; symmetry; exact E).
    destruct (negb (b0 =? 1)) eqn:Em.
    - rewrite hec_buf in E. destruct (handle_error_and_close s (EBadMarker b0)). subst r. discriminate.
    - cbn zeta in E. destruct (Nat.ltb (length body) (N.to_nat (be16 b1 b2))) eqn:El; [apply Trivial; symmetry; exact E|].
      apply Nat.ltb_ge in El.
      cbn [plus]. rewrite loop_S. rewrite set_buffer_buffer. cbn [app]. rewrite Em. cbn zeta.
      assert (El2 : Nat.ltb (length (body ++ C)) (N.to_nat (be16 b1 b2)) = false) by (apply Nat.ltb_ge; rewrite app_length; lia).
      rewrite El2. rewrite firstn_app. replace (N.to_nat (be16 b1 b2) - length body)%nat with 0%nat by lia.
      rewrite firstn_O, app_nil_r. rewrite skipn_app. replace (N.to_nat (be16 b1 b2) - length body)%nat with 0%nat by lia.
      cbn [skipn].
      rewrite dispatch_buf in E. rewrite dispatch_buf.
      destruct (dispatch s (firstn (N.to_nat (be16 b1 b2)) body)) as [[s1 ev] ex].
      destruct ex; [subst r; discriminate|].
      rewrite set_buffer_idem in E. rewrite set_buffer_idem.
      destruct (IH s1 (skipn (N.to_nat (be16 b1 b2)) body) (acc ++ ev) C r) as (s2 & Es2 & IH2); auto.
      { rewrite skipn_length. cbn [length] in Hf. lia. }
      rewrite Es2. exact IH2.
  Qed.

  (* a run that stops (marker error) or raises does exactly the same on a longer buffer *)
  Definition core (s : st) := (s_state s, s_dec_nonce s, s_enc_nonce s, s_ready s, s_transport s).
  Lemma core_set_buffer s b : core (set_buffer s b) = core s. Proof. reflexivity. Qed.

  Lemma loop_extend_stop f : forall s B acc C r,
    (length B < f)%nat ->
    loop f (set_buffer s B) acc = r -> r_status r <> Ok ->
    let r' := loop (f + length C) (set_buffer s (B ++ C)) acc in
    r_events r' = r_events r /\ r_status r' = r_status r /\ core (r_st r') = core (r_st r).
  Proof.
    induction f as [|f IH]; intros s B acc C r Hf E Hno; [lia|].
    rewrite loop_S in E. rewrite set_buffer_buffer in E.
    destruct B as [|b0 [|b1 [|b2 body]]]; try (subst r; cbn in Hno; contradiction).
    cbn [plus]. rewrite loop_S. rewrite set_buffer_buffer. cbn [app].
    destruct (negb (b0 =? 1)) eqn:Em.
    - rewrite hec_buf in E. rewrite hec_buf. destruct (handle_error_and_close s (EBadMarker b0)) as [s1 ev]. subst r. cbn. auto.
    - cbn zeta in E. cbn zeta. destruct (Nat.ltb (length body) (N.to_nat (be16 b1 b2))) eqn:El; [subst r; cbn in Hno; contradiction|].
      apply Nat.ltb_ge in El.
      assert (El2 : Nat.ltb (length (body ++ C)) (N.to_nat (be16 b1 b2)) = false) by (apply Nat.ltb_ge; rewrite app_length; lia).
      rewrite El2. rewrite firstn_app. replace (N.to_nat (be16 b1 b2) - length body)%nat with 0%nat by lia.
      rewrite firstn_O, app_nil_r. rewrite skipn_app. replace (N.to_nat (be16 b1 b2) - length body)%nat with 0%nat by lia.
      cbn [skipn].
      rewrite dispatch_buf in E. rewrite dispatch_buf.
      destruct (dispatch s (firstn (N.to_nat (be16 b1 b2)) body)) as [[s1 ev] ex].
      destruct ex; [subst r; cbn; auto|].
      rewrite set_buffer_idem in E. rewrite set_buffer_idem.
      apply (IH s1 (skipn (N.to_nat (be16 b1 b2)) body) (acc ++ ev) C r); auto.
      rewrite skipn_length. cbn [length] in Hf. lia.
  Qed.

  (* the accumulator is only ever appended to *)
  Lemma loop_acc f : forall s acc,
    r_events (loop f s acc) = acc ++ r_events (loop f s []) /\
    r_st (loop f s acc) = r_st (loop f s []) /\ r_status (loop f s acc) = r_status (loop f s []).
  Proof.
    induction f as [|f IH]; intros s acc; [cbn; rewrite app_nil_r; auto|].
    rewrite !loop_S.
    destruct (s_buffer s) as [|b0 [|b1 [|b2 body]]]; try (cbn; rewrite app_nil_r; auto).
    destruct (negb (b0 =? 1)); [destruct (handle_error_and_close s (EBadMarker b0)); cbn; auto|].
    cbn zeta. destruct (Nat.ltb (length body) (N.to_nat (be16 b1 b2))); [cbn; rewrite app_nil_r; auto|].
    destruct (dispatch s (firstn (N.to_nat (be16 b1 b2)) body)) as [[s1 ev] ex].
    destruct ex; [cbn; auto|].
    destruct (IH (set_buffer s1 (skipn (N.to_nat (be16 b1 b2)) body)) (acc ++ ev)) as (A1 & A2 & A3).
    destruct (IH (set_buffer s1 (skipn (N.to_nat (be16 b1 b2)) body)) ([] ++ ev)) as (B1 & B2 & B3).
    rewrite A1, A2, A3, B1, B2, B3. cbn [app]. rewrite app_assoc. auto.
  Qed.

  (* ---------------- any chunking = one chunk ---------------- *)
  Fixpoint feed (s : st) (chunks : list bytes) : list nevent * st * status :=
    match chunks with
    | [] => ([], s, Ok)
    | c :: cs =>
      let r := data_received s c in
      match r_status r with
      | Ok => let '(ev, s', x) := feed (r_st r) cs in (r_events r ++ ev, s', x)
      | x => (r_events r, r_st r, x)
      end
    end.

  Lemma data_received_two s a b :
    r_status (data_received s a) = Ok ->
    let r1 := data_received s a in
    let r2 := data_received (r_st r1) b in
    let r := data_received s (a ++ b) in
    r_events r = r_events r1 ++ r_events r2 /\ r_st r = r_st r2 /\ r_status r = r_status r2.
  Proof.
    intro Hok. cbn zeta. unfold data_received in *.
    set (B := s_buffer s ++ a) in *.
    destruct (loop_extend (S (length B)) s B [] b _ (Nat.lt_succ_diag_r _) eq_refl Hok) as (s1 & Es1 & Ex).
    rewrite app_assoc. fold B.
    rewrite (loop_fuel_irrelevant (S (length (B ++ b))) (S (length B) + length b)) by (cbn [s_buffer set_buffer]; rewrite ?app_length; lia).
    rewrite Ex. rewrite Es1.
    match goal with |- context [loop ?f ?x (r_events ?r0)] => destruct (loop_acc f x (r_events r0)) as (A1 & A2 & A3) end.
    rewrite A1, A2, A3. subst s1. auto.
  Qed.

  Lemma data_received_stop s a b :
    r_status (data_received s a) <> Ok ->
    let r1 := data_received s a in
    let r := data_received s (a ++ b) in
    r_events r = r_events r1 /\ r_status r = r_status r1 /\ core (r_st r) = core (r_st r1).
  Proof.
    intro Hno. cbn zeta. unfold data_received in *. set (B := s_buffer s ++ a) in *.
    pose proof (loop_extend_stop (S (length B)) s B [] b _ (Nat.lt_succ_diag_r _) eq_refl Hno) as K. cbn zeta in K.
    rewrite app_assoc. fold B.
    rewrite (loop_fuel_irrelevant (S (length (B ++ b))) (S (length B) + length b)) by (cbn [s_buffer set_buffer]; rewrite ?app_length; lia).
    exact K.
  Qed.

  (* segmentation independence, for EVERY byte stream (honest or not) and EVERY chunking: the events, the final status
     and the final protocol state are those of delivering the whole stream in one call *)
  Lemma feed_cons s c cs :
    feed s (c :: cs) =
    match r_status (data_received s c) with
    | Ok => let '(ev, s', x) := feed (r_st (data_received s c)) cs in (r_events (data_received s c) ++ ev, s', x)
    | x => (r_events (data_received s c), r_st (data_received s c), x)
    end.
  Proof. reflexivity. Qed.

  Theorem segmentation_independent cs : forall s c,
    let '(ev, s', x) := feed s (c :: cs) in
    let r := data_received s (concat (c :: cs)) in
    r_events r = ev /\ r_status r = x /\ core (r_st r) = core s' /\ (x = Ok -> r_st r = s').
  Proof.
    induction cs as [|c2 cs IH]; intros s c.
    - cbn [feed concat]. rewrite app_nil_r. destruct (r_status (data_received s c)) eqn:Es; cbn [app]; rewrite ?app_nil_r; auto.
    - rewrite feed_cons. change (concat (c :: c2 :: cs)) with (c ++ concat (c2 :: cs)).
      destruct (r_status (data_received s c)) eqn:Es.
      + specialize (IH (r_st (data_received s c)) c2). destruct (feed (r_st (data_received s c)) (c2 :: cs)) as [[ev s'] x].
        destruct IH as (I1 & I2 & I3 & I4).
        destruct (data_received_two s c (concat (c2 :: cs)) Es) as (A1 & A2 & A3).
        cbv zeta. rewrite A1, A2, A3, I1. repeat split; auto.
      + destruct (data_received_stop s c (concat (c2 :: cs))) as (A1 & A2 & A3); [rewrite Es; discriminate|].
        cbv zeta. rewrite A1, A2, A3, Es. repeat split; auto. discriminate.
      + destruct (data_received_stop s c (concat (c2 :: cs))) as (A1 & A2 & A3); [rewrite Es; discriminate|].
        cbv zeta. rewrite A1, A2, A3, Es. repeat split; auto. discriminate.
      + destruct (data_received_stop s c (concat (c2 :: cs))) as (A1 & A2 & A3); [rewrite Es; discriminate|].
        cbv zeta. rewrite A1, A2, A3, Es. repeat split; auto. discriminate.
  Qed.

  (* ---------------- framed streams: the loop handles complete frames one after the other ---------------- *)
  Definition short (body : bytes) : Prop := N.of_nat (length body) < 65536.
  Definition frame_bytes (body : bytes) : bytes :=
    [1; hi8 (N.of_nat (length body)); lo8 (N.of_nat (length body))] ++ body.

  Lemma be16_hi_lo v : v < 65536 -> be16 (hi8 v) (lo8 v) = v.
  Proof.
    intro H. unfold be16, hi8, lo8. change 255 with (N.ones 8).
    rewrite !N.land_ones, N.shiftr_div_pow2. change (2 ^ 8) with 256.
    rewrite (N.mod_small (v / 256) 256) by (apply N.div_lt_upper_bound; [discriminate|exact H]).
    rewrite N.shiftl_mul_pow2. change (2 ^ 8) with 256.
    rewrite N.lor_comm. 
    assert (Hd : N.land (v mod 256) (v / 256 * 256) = 0).
    { apply N.bits_inj_0. intro n. rewrite N.land_spec. destruct (N.lt_ge_cases n 8) as [L|L].
      - replace (v / 256 * 256) with (N.shiftl (v / 256) 8) by (rewrite N.shiftl_mul_pow2; reflexivity).
        rewrite N.shiftl_spec_low by exact L. apply andb_false_r.
      - replace (v mod 256) with (v mod 2 ^ 8) by reflexivity. rewrite N.mod_pow2_bits_high by exact L. reflexivity. }
    rewrite <- N.lxor_lor by exact Hd. rewrite <- N.add_nocarry_lxor by exact Hd. rewrite N.add_comm, N.mul_comm. symmetry. apply N.div_mod. discriminate.
  Qed.

  Fixpoint process (s : st) (fs : list bytes) (acc : list nevent) : result :=
    match fs with
    | [] => {| r_st := s; r_events := acc; r_status := Ok |}
    | f :: r =>
      let '(s1, ev, ex) := dispatch s f in
      match ex with
      | Some x => {| r_st := s1; r_events := acc ++ ev ++ [NRaise x]; r_status := Raised x |}
      | None => process s1 r (acc ++ ev)
      end
    end.

  Lemma loop_one body rest s acc f :
    short body ->
    loop (S f) (set_buffer s (frame_bytes body ++ rest)) acc =
    let '(s1, ev, ex) := dispatch s body in
    match ex with
    | Some x => {| r_st := set_buffer s1 (frame_bytes body ++ rest); r_events := acc ++ ev ++ [NRaise x]; r_status := Raised x |}
    | None => loop f (set_buffer s1 rest) (acc ++ ev)
    end.
  Proof.
    intro Hb. rewrite loop_S, set_buffer_buffer. unfold frame_bytes. cbn [app]. cbn [N.eqb Pos.eqb negb].
    rewrite be16_hi_lo by exact Hb. rewrite Nnat.Nat2N.id. cbn zeta.
    assert (El : Nat.ltb (length (body ++ rest)) (length body) = false) by (apply Nat.ltb_ge; rewrite app_length; lia).
    rewrite El. rewrite firstn_app, Nat.sub_diag, firstn_O, app_nil_r, firstn_all.
    rewrite skipn_app, Nat.sub_diag, skipn_all. cbn [skipn app].
    rewrite dispatch_buf. destruct (dispatch s body) as [[s1 ev] ex].
    destruct ex; [reflexivity|]. rewrite set_buffer_idem. reflexivity.
  Qed.

  Lemma loop_frames fs : forall s acc f,
    Forall short fs -> (length (flat_map frame_bytes fs) < f)%nat ->
    r_events (loop f (set_buffer s (flat_map frame_bytes fs)) acc) = r_events (process s fs acc) /\
    r_status (loop f (set_buffer s (flat_map frame_bytes fs)) acc) = r_status (process s fs acc) /\
    core (r_st (loop f (set_buffer s (flat_map frame_bytes fs)) acc)) = core (r_st (process s fs acc)) /\
    (r_status (process s fs acc) = Ok -> s_buffer (r_st (loop f (set_buffer s (flat_map frame_bytes fs)) acc)) = []).
  Proof.
    induction fs as [|body fs IH]; intros s acc f Hs Hf.
    - cbn [flat_map process]. destruct f; [cbn in Hf; lia|]. rewrite loop_S, set_buffer_buffer. cbn. auto.
    - inversion Hs as [|? ? Hb Hs']; subst. destruct f; [cbn in Hf; lia|].
      cbn [flat_map process]. rewrite (loop_one body (flat_map frame_bytes fs) s acc f Hb).
      destruct (dispatch s body) as [[s1 ev] ex].
      destruct ex as [x|].
      + cbn. repeat split; auto; intro Q; discriminate Q.
      + apply IH; [exact Hs'|].
        cbn [flat_map] in Hf. unfold frame_bytes in Hf at 1. rewrite !app_length in Hf. cbn [length] in Hf. lia.
  Qed.

  (* one call delivering a whole framed stream to a helper with an empty buffer *)
  Theorem data_received_frames s fs :
    s_buffer s = [] -> Forall short fs ->
    let r := data_received s (flat_map frame_bytes fs) in
    let p := process s fs [] in
    r_events r = r_events p /\ r_status r = r_status p /\ core (r_st r) = core (r_st p).
  Proof.
    intros Hb Hs. unfold data_received. rewrite Hb. cbn [app].
    destruct (loop_frames fs s [] (S (length (flat_map frame_bytes fs))) Hs (Nat.lt_succ_diag_r _)) as (A & B & C & _). cbv zeta. auto.
  Qed.
End Proofs.

Lemma skipn_nth_cons {A} (l : list A) : forall n x, nth_error l n = Some x -> skipn n l = x :: skipn (S n) l.
Proof.
  induction l as [|a l IH]; intros n x H; destruct n; try discriminate.
  - injection H as ->. reflexivity.
  - cbn [nth_error] in H. cbn [skipn]. rewrite (IH n x H). reflexivity.
Qed.

(* ================= an ideal AEAD: what decrypts under nonce n is what the device sent under nonce n ================= *)
Section Ideal.
  Variable decrypt : N -> bytes -> option bytes.
  Variable hs_read : bytes -> bool.
  Variable utf8_ok : bytes -> bool.
  Variable expected_name : option bytes.
  Variable enc : N -> bytes -> bytes.            (* the device's encryption *)
  Variable sent : list bytes.                    (* plaintexts the device really sent, in nonce order from 0 *)
  Hypothesis dec_enc : forall n p, decrypt n (enc n p) = Some p.
  Hypothesis authentic : forall n c p, decrypt n c = Some p -> nth_error sent (N.to_nat n) = Some p.

  Notation process := (process decrypt hs_read utf8_ok expected_name).
  Notation disp := (dispatch decrypt hs_read utf8_ok expected_name).

  Definition deliveries (evs : list nevent) : list (N * bytes) :=
    flat_map (fun e => match e with NDeliver ty pl => [(ty, pl)] | _ => [] end) evs.
  Lemma deliveries_app a b : deliveries (a ++ b) = deliveries a ++ deliveries b.
  Proof. apply flat_map_app. Qed.

  (* how a plaintext is handed over: 16-bit type, payload after the 4-byte inner header *)
  Definition handed (p : bytes) : list (N * bytes) :=
    match p with t_hi :: t_lo :: _ => [(be16 t_hi t_lo, skipn 4 p)] | _ => [] end.

  (* C04 (1): in the data phase, for EVERY sequence of frames the adversary puts on the wire, what is delivered is a
     prefix of what the device really sent under the consecutive nonces k, k+1, ... - nothing altered, forged, replayed,
     reordered or following a deviation *)
  Theorem data_phase_prefix_only fs : forall s acc,
    s_state s = NReady ->
    exists j, (j <= length fs)%nat /\
      deliveries (r_events (process s fs acc)) =
      deliveries acc ++ flat_map handed (firstn j (skipn (N.to_nat (s_dec_nonce s)) sent)).
  Proof.
    induction fs as [|f fs IH]; intros s acc Hr.
    - exists 0%nat. cbn. rewrite app_nil_r. auto.
    - cbn [process]. unfold dispatch. rewrite Hr. unfold handle_frame.
      destruct (decrypt (s_dec_nonce s) f) as [p|] eqn:Ed.
      + pose proof (authentic _ _ _ Ed) as Hs.
        destruct p as [|t_hi [|t_lo rest]].
        * exists 0%nat. cbn. rewrite deliveries_app. cbn. rewrite !app_nil_r. split; [lia|reflexivity].
        * exists 0%nat. cbn. rewrite deliveries_app. cbn. rewrite !app_nil_r. split; [lia|reflexivity].
        * destruct (IH (set_dec s (s_dec_nonce s + 1)) (acc ++ [NDeliver (be16 t_hi t_lo) (skipn 4 (t_hi :: t_lo :: rest))])) as (j & Hj & E); [exact Hr|].
          exists (S j). split; [cbn; lia|]. rewrite E. rewrite deliveries_app. cbn [deliveries flat_map app].
          cbn [s_dec_nonce set_dec]. rewrite <- app_assoc. f_equal.
          replace (N.to_nat (s_dec_nonce s + 1)) with (S (N.to_nat (s_dec_nonce s))) by lia.
          rewrite (skipn_nth_cons _ _ _ Hs). cbn [firstn flat_map handed app]. reflexivity.
      + exists 0%nat. cbn. rewrite deliveries_app. cbn. rewrite !app_nil_r. split; [lia|reflexivity].
  Qed.

  (* ---------------- C03: an honest responder ---------------- *)
  Fixpoint enc_from (k : N) (pts : list bytes) : list bytes :=
    match pts with [] => [] | p :: r => enc k p :: enc_from (k + 1) r end.
  Definition wellformed (p : bytes) : Prop := (2 <= length p)%nat.

  Lemma honest_data_phase pts : forall s acc,
    s_state s = NReady -> Forall wellformed pts ->
    let r := process s (enc_from (s_dec_nonce s) pts) acc in
    r_status r = Ok /\ r_events r = acc ++ map (fun p => NDeliver (be16 (nth 0 p 0) (nth 1 p 0)) (skipn 4 p)) pts /\
    s_state (r_st r) = NReady /\ s_dec_nonce (r_st r) = s_dec_nonce s + N.of_nat (length pts).
  Proof.
    induction pts as [|p pts IH]; intros s acc Hr Hw.
    - cbn. rewrite app_nil_r, N.add_0_r. auto.
    - inversion Hw as [|? ? Hp Hw']; subst. cbn [enc_from process]. unfold dispatch. rewrite Hr. unfold handle_frame.
      rewrite dec_enc. destruct p as [|t_hi [|t_lo rest]]; try (unfold wellformed in Hp; cbn in Hp; lia).
      specialize (IH (set_dec s (s_dec_nonce s + 1)) (acc ++ [NDeliver (be16 t_hi t_lo) (skipn 4 (t_hi :: t_lo :: rest))]) Hr Hw').
      cbn [s_dec_nonce set_dec] in IH. cbn zeta in IH. destruct IH as (A & B & C & D).
      cbn zeta. rewrite A, B, C, D. repeat split; auto.
      + rewrite <- app_assoc. reflexivity.
      + cbn [length]. lia.
  Qed.

  (* the server hello: protocol byte 1, optionally followed by a NUL-terminated name (and more) *)
  Definition accepts (announced : option bytes) : bool :=
    match expected_name, announced with
    | Some en, Some name => bytes_eqb en name
    | _, _ => true
    end.

  (* a closed helper delivers nothing and never signals readiness, whatever else arrives *)
  Definition harmless (e : nevent) : Prop := match e with NDeliver _ _ | NReadyOk => False | _ => True end.
  Lemma closed_silent fs : forall s acc,
    s_state s = NClosed -> exists evs, r_events (process s fs acc) = acc ++ evs /\ Forall harmless evs.
  Proof.
    induction fs as [|f fs IH]; intros s acc Hc.
    - exists []. cbn. rewrite app_nil_r. auto.
    - cbn [process]. unfold dispatch. rewrite Hc. unfold handle_closed, handle_error, ready_exc.
      destruct (s_ready s).
      + destruct (IH (set_ready s RDone) (acc ++ [NReadyErr EClosedFrame] ++ [NFatal EClosedFrame]) Hc) as (evs & E & F).
        exists ([NReadyErr EClosedFrame; NFatal EClosedFrame] ++ evs). rewrite E. rewrite <- !app_assoc. split; [reflexivity|].
        repeat constructor; exact F.
      + destruct (IH s (acc ++ [] ++ [NFatal EClosedFrame]) Hc) as (evs & E & F).
        exists ([NFatal EClosedFrame] ++ evs). rewrite E. rewrite <- !app_assoc. split; [reflexivity|].
        repeat constructor; exact F.
  Qed.

  Lemma process_cons s f r acc :
    process s (f :: r) acc =
    let '(s1, ev, ex) := disp s f in
    match ex with
    | Some x => {| r_st := s1; r_events := acc ++ ev ++ [NRaise x]; r_status := Raised x |}
    | None => process s1 r (acc ++ ev)
    end.
  Proof. reflexivity. Qed.

  Lemma handshake_ok s1 hs_msg :
    s_state s1 = NHandshake -> hs_read hs_msg = true ->
    disp s1 (0 :: hs_msg) = (set_ready (set_enc (set_dec (set_state s1 NReady) 0) 0) RDone, [NReadyOk], None).
  Proof. intros H1 Hh. unfold dispatch. rewrite H1. unfold handle_handshake. cbn [N.eqb negb]. rewrite Hh. reflexivity. Qed.

  Lemma hello_step s0 hello_tail :
    s_state s0 = NHello ->
    disp s0 (1 :: hello_tail) =
    match take_until_nul hello_tail with
    | Some name0 =>
      let name := if utf8_ok name0 then name0 else [65533] in
      match expected_name with
      | Some en => if bytes_eqb en name then (set_state s0 NHandshake, [], None)
                   else let '(s1, ev) := handle_error_and_close s0 (EBadName name) in (s1, ev, None)
      | None => (set_state s0 NHandshake, [], None)
      end
    | None => (set_state s0 NHandshake, [], None)
    end.
  Proof. intro Hs. unfold dispatch. rewrite Hs. reflexivity. Qed.

  Theorem honest_session (announced : option bytes) (hello_tail hs_msg : bytes) (pts : list bytes) s0 :
    s_state s0 = NHello -> s_ready s0 = RPending ->
    take_until_nul hello_tail = announced ->
    (forall name, announced = Some name -> utf8_ok name = true) ->
    hs_read hs_msg = true -> Forall wellformed pts ->
    let r := process s0 ((1 :: hello_tail) :: (0 :: hs_msg) :: enc_from 0 pts) [] in
    if accepts announced then
      r_status r = Ok /\
      r_events r = NReadyOk :: map (fun p => NDeliver (be16 (nth 0 p 0) (nth 1 p 0)) (skipn 4 p)) pts /\
      s_state (r_st r) = NReady
    else
      exists name rest, announced = Some name /\
        r_events r = NReadyErr (EBadName name) :: NFatal (EBadName name) :: rest /\ Forall harmless rest.
  Proof.
    intros Hs Hrd Hn Hu Hh Hw. cbn zeta. rewrite process_cons. rewrite (hello_step s0 hello_tail Hs). rewrite Hn. unfold accepts.
    assert (Ready : forall s1, s_state s1 = NHandshake ->
              let r := process s1 ((0 :: hs_msg) :: enc_from 0 pts) [] in
              r_status r = Ok /\ r_events r = NReadyOk :: map (fun p => NDeliver (be16 (nth 0 p 0) (nth 1 p 0)) (skipn 4 p)) pts /\ s_state (r_st r) = NReady).
    { intros s1 H1. cbn zeta. rewrite process_cons. rewrite (handshake_ok s1 hs_msg H1 Hh). cbn [app].
      pose proof (honest_data_phase pts (set_ready (set_enc (set_dec (set_state s1 NReady) 0) 0) RDone) [NReadyOk] eq_refl Hw) as K.
      cbn [s_dec_nonce set_ready set_enc set_dec] in K. cbn zeta in K. destruct K as (A & B & C & _). auto. }
    pose proof closed_silent as CS.
    destruct announced as [name|].
    - cbn zeta. rewrite (Hu name eq_refl). destruct expected_name as [en|] eqn:Een.
      + destruct (bytes_eqb en name) eqn:Eq.
        * apply Ready. reflexivity.
        * unfold handle_error_and_close, handle_error, ready_exc. rewrite Hrd.
          unfold close, ready_exc. cbn [s_ready set_ready].
          destruct (s_transport (set_state (set_ready s0 RDone) NClosed)) eqn:Et.
          -- match goal with |- context [r_events (_ _ _ _ _ ?s1 ?fs ?acc)] =>
               destruct (CS fs s1 acc eq_refl) as (evs & E & F) end.
             exists name. eexists. split; [reflexivity|]. rewrite E. cbn [app]. split; [reflexivity|]. repeat constructor. exact F.
          -- match goal with |- context [r_events (_ _ _ _ _ ?s1 ?fs ?acc)] =>
               destruct (CS fs s1 acc eq_refl) as (evs & E & F) end.
             exists name. eexists. split; [reflexivity|]. rewrite E. cbn [app]. split; [reflexivity|]. exact F.
      + apply Ready. reflexivity.
    - destruct expected_name; apply Ready; reflexivity.
  Qed.

  (* ---------------- C04: classification of the first deviating frame ---------------- *)
  (* data phase: a frame that does not authenticate raises InvalidTag out of data_received; the transport then reports it
     through connection_lost, where it is rewritten to the invalid-encryption-key error (session level below) *)
  Theorem bad_data_frame s f :
    s_state s = NReady -> decrypt (s_dec_nonce s) f = None -> disp s f = (s, [], Some RInvalidTag).
  Proof. intros Hr Hd. unfold dispatch. rewrite Hr. unfold handle_frame. rewrite Hd. reflexivity. Qed.

  Definition closes_with (e : nerr) (s : st) (r : st * list nevent * option nraise) : Prop :=
    let '(s1, ev, ex) := r in
    s_state s1 = NClosed /\ ex = None /\ In (NFatal e) ev /\ (s_ready s = RPending -> In (NReadyErr e) ev) /\ ~ In NReadyOk ev /\ deliveries ev = [].

  Lemma hec_closes s e : closes_with e s (let '(s1, ev) := handle_error_and_close s e in (s1, ev, None)).
  Proof.
    unfold closes_with, handle_error_and_close, handle_error, close, ready_exc.
    destruct s as [stt buf dn en rd tr]. cbn. destruct rd, tr; cbn; repeat split; auto;
      try (intro Q; discriminate Q); try tauto;
      intro Q; repeat (destruct Q as [Q|Q]; [discriminate Q|]); exact Q.
  Qed.

  Theorem hello_empty s : s_state s = NHello -> closes_with EEmptyHello s (disp s []).
  Proof. intro H. unfold dispatch. rewrite H. cbn [handle_hello]. apply hec_closes. Qed.
  Theorem hello_unknown_protocol s p rest :
    s_state s = NHello -> p <> 1 -> closes_with (EUnknownProto p) s (disp s (p :: rest)).
  Proof.
    intros H Hp. unfold dispatch. rewrite H. cbn [handle_hello]. apply N.eqb_neq in Hp. rewrite Hp. cbn [negb]. apply hec_closes.
  Qed.
  Theorem hello_bad_name s rest name en :
    s_state s = NHello -> take_until_nul rest = Some name -> utf8_ok name = true ->
    expected_name = Some en -> bytes_eqb en name = false -> closes_with (EBadName name) s (disp s (1 :: rest)).
  Proof.
    intros H Hn Hu He Hb. unfold dispatch. rewrite H. cbn [handle_hello N.eqb Pos.eqb negb]. rewrite Hn. cbn zeta. rewrite Hu, He, Hb.
    apply hec_closes.
  Qed.
  Theorem handshake_empty s : s_state s = NHandshake -> closes_with EEmptyHandshake s (disp s []).
  Proof. intro H. unfold dispatch. rewrite H. cbn [handle_handshake]. apply hec_closes. Qed.
  Theorem handshake_mac_failure s b :
    s_state s = NHandshake -> b <> 0 -> utf8_ok MAC_FAILURE = true -> closes_with EInvalidKey s (disp s (b :: MAC_FAILURE)).
  Proof.
    intros H Hb Hu. unfold dispatch. rewrite H. cbn [handle_handshake]. apply N.eqb_neq in Hb. rewrite Hb. cbn [negb]. cbn zeta. rewrite Hu.
    assert (E : bytes_eqb MAC_FAILURE MAC_FAILURE = true) by reflexivity. rewrite E. apply hec_closes.
  Qed.
  Theorem handshake_other_failure s b text :
    s_state s = NHandshake -> b <> 0 -> utf8_ok text = true -> bytes_eqb text MAC_FAILURE = false ->
    closes_with (EHandshakeFail text) s (disp s (b :: text)).
  Proof.
    intros H Hb Hu Hm. unfold dispatch. rewrite H. cbn [handle_handshake]. apply N.eqb_neq in Hb. rewrite Hb. cbn [negb]. cbn zeta. rewrite Hu, Hm.
    apply hec_closes.
  Qed.
  Theorem handshake_wrong_key s msg :
    s_state s = NHandshake -> hs_read msg = false -> disp s (0 :: msg) = (s, [], Some RInvalidTag).
  Proof. intros H Hr. unfold dispatch. rewrite H. cbn [handle_handshake N.eqb negb]. rewrite Hr. reflexivity. Qed.
End Ideal.

(* ================= session level: the transport rule K10 and the connection closing the helper ================= *)
Section SessionFacts.
  Variable encrypt : N -> bytes -> bytes.
  Variable decrypt : N -> bytes -> option bytes.
  Variable hs_init : bytes.
  Variable hs_read : bytes -> bool.
  Variable utf8_ok : bytes -> bool.
  Variable expected_name : option bytes.
  Notation sstep := (step encrypt decrypt hs_init hs_read utf8_ok expected_name).

  (* once the transport is dead nothing that arrives has any effect: nothing following a deviation is delivered *)
  Theorem dead_transport_ignores x c : transport_dead x = true -> sstep x (OData c) = (x, []).
  Proof. intro H. cbn [step]. rewrite H. reflexivity. Qed.

  (* an exception escaping data_received kills the transport; InvalidTag is reported as the invalid-key error *)
  Theorem raise_kills_transport x c r :
    transport_dead x = false -> s_transport (ss x) = true ->
    r_status (data_received decrypt hs_read utf8_ok expected_name (ss x) c) = Raised r ->
    transport_dead (fst (sstep x (OData c))) = true /\
    In (NFatal (match r with RInvalidTag => EInvalidKey | _ => ERawOther end)) (snd (sstep x (OData c))).
  Proof.
    intros Hd Ht Hr. cbn [step]. rewrite Hd, Ht. cbn [orb negb].
    set (res := data_received decrypt hs_read utf8_ok expected_name (ss x) c) in *.
    destruct (after_events x (r_st res) (r_events res)) as [x1 ev1] eqn:E1. rewrite Hr.
    unfold connection_lost, handle_error.
    set (e := match lost_of_raise r with
              | LostNone => ESocketClosed
              | LostReset => match s_state (ss x1) with NHello => EDroppedAfterHello | _ => ERawOther end
              | LostInvalidTag => EInvalidKey
              | LostOther => ERawOther end).
    assert (Ee : e = match r with RInvalidTag => EInvalidKey | _ => ERawOther end) by (unfold e; destruct r; reflexivity).
    destruct (ready_exc (ss x1) e) as [s2 ev2] eqn:E2.
    unfold after_events. cbn [transport_dead conn_closed ss].
    assert (Hf : existsb is_fatal (ev2 ++ [NFatal e]) = true) by (rewrite existsb_app; cbn; apply orb_true_r).
    rewrite Hf. cbn [andb]. rewrite <- Ee.
    destruct (negb (conn_closed x1)).
    - destruct (close s2) as [s3 ev3]. cbn [fst snd]. split; [reflexivity|].
      apply in_or_app. right. apply in_or_app. left. apply in_or_app. right. left. reflexivity.
    - cbn [fst snd]. split; [reflexivity|]. apply in_or_app. right. apply in_or_app. right. left. reflexivity.
  Qed.
End SessionFacts.

(* ================= the configured key ================= *)
(* _decode_noise_psk: base64-decode (oracle: None = binascii error) and require exactly 32 bytes; the helper is only
   constructed - and anything written - when this succeeds *)
Definition decode_psk (a2b : option bytes) : option bytes :=
  match a2b with Some k => if Nat.eqb (length k) 32 then Some k else None | None => None end.
Theorem psk_gate a2b : (exists k, decode_psk a2b = Some k) <-> (exists k, a2b = Some k /\ length k = 32%nat).
Proof.
  unfold decode_psk. split.
  - intros [k H]. destruct a2b as [k0|]; [|discriminate]. destruct (Nat.eqb_spec (length k0) 32); [|discriminate]. eauto.
  - intros [k [-> H]]. rewrite H. cbn. eauto.
Qed.
