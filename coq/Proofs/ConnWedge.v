(* For C19 (the client never wedges): what the synchronous functions of Model/Conn.v can do to the fields the argument needs -
   the state, the two connect tasks, the transport, the keep-alive timers - and the link between closing an established
   connection and the OStop observation. *)
From Coq Require Import NArith ZArith List Bool Lia.
From RecordUpdate Require Import RecordSet.
From Verif Require Import Generated.GenConstants Model.Conn Proofs.ConnCore Proofs.ConnSync.
Import ListNotations RecordSetNotations.
Open Scope Z_scope.
Open Scope list_scope.

Definition wv (c : conn) :=
  (cs c, is_connected c, on_stop_armed c, pc (t_start c), pc (t_finish c), transport c, ping_timer c, pong_timer c, handshake_complete c).

Definition has_stop (o : list obs) : Prop := exists b, In (OStop b) o.

(* inversion without normalising the (large) terms involved *)
Lemma some_inj {A} (a b : A) : Some a = Some b -> a = b.
Proof. intro H. injection H as H. exact H. Qed.
Lemma pair_inv {A B} (a c : A) (b d : B) : (a, b) = (c, d) -> a = c /\ b = d.
Proof. intro H. injection H as H1 H2. auto. Qed.
Lemma some_pair_inv {A B} (a c : A) (b d : B) : Some (a, b) = Some (c, d) -> a = c /\ b = d.
Proof. intro H. apply some_inj in H. apply pair_inv in H. exact H. Qed.

Record Mv (c c' : conn) (o : list obs) : Prop := {
  s_ps : pc (t_start c') = pc (t_start c);
  s_pf : pc (t_finish c') = pc (t_finish c);
  s_tr : transport c = TNone -> transport c' = TNone;
  s_pi : ping_timer c = None -> ping_timer c' = None;
  s_po : pong_timer c = None -> pong_timer c' = None;
  s_cs : (cs c' = cs c /\ is_connected c' = is_connected c /\ on_stop_armed c' = on_stop_armed c /\ handshake_complete c' = handshake_complete c) \/
         (cs c <> Closed /\ cs c' = Closed /\ (is_connected c = true -> on_stop_armed c = true -> has_stop o)) }.

Lemma S_wv c c' o : wv c' = wv c -> Mv c c' o.
Proof.
  unfold wv. intro E. injection E as E1 E2 E3 E4 E5 E6 E7 E8 E9.
  constructor; try congruence. left. auto.
Qed.
Lemma S_refl c o : Mv c c o.
Proof. apply S_wv. reflexivity. Qed.

Lemma has_stop_l a b : has_stop a -> has_stop (a ++ b).
Proof. intros [x H]. exists x. apply in_or_app. auto. Qed.
Lemma has_stop_r a b : has_stop b -> has_stop (a ++ b).
Proof. intros [x H]. exists x. apply in_or_app. auto. Qed.

Lemma S_trans c c1 c2 o1 o2 : Mv c c1 o1 -> Mv c1 c2 o2 -> Mv c c2 (o1 ++ o2).
Proof.
  intros [A1 A2 A3 A4 A5 A6] [B1 B2 B3 B4 B5 B6]. constructor; try congruence; auto.
  destruct A6 as [(Ea & Eb & Ec & Ed)|(Na & Ca & Ha)]; destruct B6 as [(Fa & Fb & Fc & Fd)|(Nb & Cb & Hb)].
  - left. repeat split; congruence.
  - right. repeat split; try congruence. intros H1 H2. apply has_stop_r. apply Hb; congruence.
  - right. repeat split; try congruence. intros H1 H2. apply has_stop_l. auto.
  - contradiction.
Qed.
Lemma S_obs_l c c' o o0 : Mv c c' o -> Mv c c' (o0 ++ o).
Proof. intro H. apply (S_trans c c c' o0 o (S_refl c o0) H). Qed.
Lemma S_obs_r c c' o o2 : Mv c c' o -> Mv c c' (o ++ o2).
Proof. intro H. apply (S_trans c c' c' o o2 H (S_refl c' o2)). Qed.
Lemma S_weaken c c' o : Mv c c' [] -> Mv c c' o.
Proof. intro H. exact (S_obs_r c c' [] o H). Qed.

Ltac dm := match goal with |- context [match ?x with _ => _ end] =>
             lazymatch x with context [match _ with _ => _ end] => fail | _ => destruct x eqn:? end end.

Ltac Ssame := constructor; cbn in *; try congruence; auto; try (left; repeat split; (reflexivity || congruence)).

(* ---- the synchronous functions ---- *)
Lemma wv_helper_close c : Mv c (fst (helper_close c)) (snd (helper_close c)).
Proof.
  unfold helper_close. repeat dm; cbn [fst snd]; Ssame.
Qed.

Lemma S_release c : Mv c (fst (release_resources c)) (snd (release_resources c)).
Proof.
  unfold release_resources.
  destruct (helper c).
  - destruct (socket c); cbn [fst snd]; constructor; cbn; auto.
  - pose proof (wv_helper_close c) as H. destruct (helper_close c) as [c1 o1]. cbn [fst snd] in H. destruct H as [A1 A2 A3 A4 A5 A6].
    destruct (socket _); cbn [fst snd]; constructor; cbn; auto;
      destruct A6 as [(Ea & Eb & Ec & Ed)|(Na & Ca & Ha)]; [left; auto|right; repeat split; auto; intros; apply has_stop_l; auto|left; auto|right; repeat split; auto; intros; apply has_stop_l; auto].
  - pose proof (wv_helper_close c) as H. destruct (helper_close c) as [c1 o1]. cbn [fst snd] in H. destruct H as [A1 A2 A3 A4 A5 A6].
    destruct (socket _); cbn [fst snd]; constructor; cbn; auto;
      destruct A6 as [(Ea & Eb & Ec & Ed)|(Na & Ca & Ha)]; [left; auto|right; repeat split; auto; intros; apply has_stop_l; auto|left; auto|right; repeat split; auto; intros; apply has_stop_l; auto].
Qed.

Definition pre_close (c : conn) : conn :=
  let c1 := set_state c Closed <| closed_at := Some (now c) |> in
  let e := waiter_exc (fatal c1) in
  let c2 := c1 <| calls := map (fun k => if existsb (Nat.eqb (c_id k)) (waiters c1) then fail_waiter e k else k) (calls c1) |>
               <| waiters := [] |> in
  set_finish_future (set_start_future c2).

Lemma pre_close_facts c :
  cs (pre_close c) = Closed /\ on_stop_armed (pre_close c) = on_stop_armed c /\
  pc (t_start (pre_close c)) = pc (t_start c) /\ pc (t_finish (pre_close c)) = pc (t_finish c) /\
  transport (pre_close c) = transport c /\ ping_timer (pre_close c) = ping_timer c /\ pong_timer (pre_close c) = pong_timer c.
Proof.
  unfold pre_close, set_finish_future, set_start_future. cbn.
  destruct (start_fut c) eqn:E1; cbn; destruct (finish_fut c) eqn:E2; cbn; repeat split; reflexivity.
Qed.

Lemma cleanup_open c : cs c <> Closed ->
  cleanup c = let '(c4, o) := release_resources (pre_close c) in
              if on_stop_armed c4 && is_connected c then
                (c4 <| on_stop_armed := false |> <| stop_calls := stop_calls c4 ++ [expected_disconnect c4] |>, o ++ [OStop (expected_disconnect c4)])
              else (c4, o).
Proof. intro H. unfold cleanup, pre_close. destruct (cs c); try reflexivity. contradiction. Qed.

Lemma S_cleanup c : Mv c (fst (cleanup c)) (snd (cleanup c)).
Proof.
  destruct (cs c) eqn:Ecs; try (unfold cleanup; rewrite Ecs; apply S_release).
  all: rewrite cleanup_open by congruence;
    destruct (pre_close_facts c) as (P1 & P2 & P3 & P4 & P5 & P6 & P7);
    pose proof (S_release (pre_close c)) as H; destruct (release_resources (pre_close c)) as [c4 o4];
    cbn [fst snd] in H; destruct H as [A1 A2 A3 A4 A5 A6];
    assert (Ecs4 : cs c4 = Closed) by (destruct A6 as [(Ea & _)|(_ & Ca & _)]; congruence);
    assert (Earm : on_stop_armed c4 = on_stop_armed c) by (destruct A6 as [(_ & _ & Ec & _)|(Na & _ & _)]; [congruence|contradiction]);
    destruct (on_stop_armed c4 && is_connected c) eqn:Ef; cbn [fst snd]; constructor; cbn; try congruence;
    try (intro Q; first [apply A3|apply A4|apply A5]; congruence);
    right; (split; [congruence|]); (split; [exact Ecs4|]); intros Hc Ha;
    try (apply has_stop_r; eexists; left; reflexivity);
    rewrite Earm, Ha, Hc in Ef; discriminate.
Qed.

Lemma S_report_fatal c e : Mv c (fst (report_fatal c e)) (snd (report_fatal c e)).
Proof.
  unfold report_fatal. destruct (fatal c); [apply S_cleanup|].
  pose proof (S_cleanup (c <| fatal := Some e |>)) as H. destruct H as [A1 A2 A3 A4 A5 A6]. constructor; auto.
Qed.

Lemma S_helper_error c e : Mv c (fst (helper_error c e)) (snd (helper_error c e)).
Proof.
  unfold helper_error. destruct (ready c); try apply S_report_fatal.
  pose proof (S_report_fatal (c <| ready := RExc e |>) e) as H. destruct H as [A1 A2 A3 A4 A5 A6]. constructor; auto.
Qed.

Lemma S_send_messages c tys : Mv c (fst (fst (send_messages c tys))) (snd (fst (send_messages c tys))).
Proof.
  unfold send_messages. destruct (negb (handshake_complete c)); [apply S_refl|].
  destruct (write_fails c).
  - pose proof (S_report_fatal c (Lib LSocketClosed)) as H. destruct (report_fatal c (Lib LSocketClosed)). exact H.
  - destruct (transport c); apply S_refl.
Qed.

Lemma wv_upd_call c cid f : wv (upd_call c cid f) = wv c. Proof. reflexivity. Qed.
Lemma wv_handle_call_message c cid m : wv (handle_call_message c cid m) = wv c.
Proof. unfold handle_call_message. repeat dm; reflexivity. Qed.
Lemma wv_add_handler c ty h : wv (add_handler c ty h) = wv c.
Proof. unfold add_handler. dm; reflexivity. Qed.
Lemma wv_remove_handler c ty h : wv (remove_handler c ty h) = wv c. Proof. reflexivity. Qed.
Lemma wv_run_action c a : wv (run_action c a) = wv c.
Proof. destruct a; [apply wv_add_handler|apply wv_remove_handler]. Qed.
Lemma wv_fold_actions l : forall c, wv (fold_left run_action l c) = wv c.
Proof. induction l as [|a l IH]; intro c; cbn; [reflexivity|]. rewrite IH. apply wv_run_action. Qed.
Lemma wv_fold_add l h : forall c, wv (fold_left (fun a ty => add_handler a ty h) l c) = wv c.
Proof. induction l as [|a l IH]; intro c; cbn; [reflexivity|]. rewrite IH. apply wv_add_handler. Qed.
Lemma wv_fold_remove l h : forall c, wv (fold_left (fun a ty => remove_handler a ty h) l c) = wv c.
Proof. induction l as [|a l IH]; intro c; cbn; [reflexivity|]. rewrite IH. apply wv_remove_handler. Qed.

Lemma S_call_handler c h m : Mv c (fst (fst (call_handler c h m))) (snd (fst (call_handler c h m))).
Proof.
  destruct h; cbn [call_handler].
  - set (c1 := c <| expected_disconnect := true |>).
    pose proof (S_send_messages c1 [T_DISC_RESP]) as H1. destruct (send_messages c1 [T_DISC_RESP]) as [[c2 o2] ex]. cbn [fst snd] in H1.
    assert (H0 : Mv c c1 []) by (apply S_wv; reflexivity).
    destruct ex; cbn [fst snd].
    + exact (S_trans _ _ _ _ _ H0 H1).
    + pose proof (S_cleanup c2) as H2. destruct (cleanup c2) as [c3 o3]. cbn [fst snd] in *.
      exact (S_trans _ _ _ _ _ H0 (S_trans _ _ _ _ _ H1 H2)).
  - apply S_send_messages.
  - apply S_send_messages.
  - cbn [fst snd]. apply S_wv. apply wv_handle_call_message.
  - cbn [fst snd]. apply S_wv. apply wv_fold_actions.
Qed.

Lemma S_run_handlers hs m : forall c, Mv c (fst (fst (run_handlers c hs m))) (snd (fst (run_handlers c hs m))).
Proof.
  induction hs as [|h hs IH]; intro c; cbn [run_handlers]; [apply S_refl|].
  pose proof (S_call_handler c h m) as H1. destruct (call_handler c h m) as [[c1 o1] ex]. cbn [fst snd] in H1.
  destruct ex; [exact H1|].
  specialize (IH c1). destruct (run_handlers c1 hs m) as [[c2 o2] ex2]. cbn [fst snd] in *.
  exact (S_trans _ _ _ _ _ H1 IH).
Qed.

Lemma S_process_packet c m : Mv c (fst (fst (process_packet c m))) (snd (fst (process_packet c m))).
Proof.
  unfold process_packet.
  assert (K : Mv c (fst (fst (if negb (registered (m_ty m)) then (c, [], None)
                             else if negb (m_valid m) then let '(c1, o) := report_fatal c (Lib LProtocol) in (c1, o, Some (Raw ROther))
                             else run_handlers (c <| pong_timer := None |> <| send_pending_ping := false |>)
                                    (map snd (filter (fun p => N.eqb (fst p) (m_ty m)) (handlers (c <| pong_timer := None |> <| send_pending_ping := false |>)))) m)))
                  (snd (fst (if negb (registered (m_ty m)) then (c, [], None)
                             else if negb (m_valid m) then let '(c1, o) := report_fatal c (Lib LProtocol) in (c1, o, Some (Raw ROther))
                             else run_handlers (c <| pong_timer := None |> <| send_pending_ping := false |>)
                                    (map snd (filter (fun p => N.eqb (fst p) (m_ty m)) (handlers (c <| pong_timer := None |> <| send_pending_ping := false |>)))) m)))).
  { destruct (negb (registered (m_ty m))); [apply S_refl|]. destruct (negb (m_valid m)).
    - pose proof (S_report_fatal c (Lib LProtocol)) as H. destruct (report_fatal c (Lib LProtocol)). exact H.
    - set (x := c <| pong_timer := None |> <| send_pending_ping := false |>).
      pose proof (S_run_handlers (map snd (filter (fun p => N.eqb (fst p) (m_ty m)) (handlers x))) m x) as H.
      destruct (run_handlers x _ m) as [[c2 o2] ex]. cbn [fst snd] in *.
      destruct H as [A1 A2 A3 A4 A5 A6]. constructor; auto. }
  destruct (cs c); try exact K. apply S_refl.
Qed.

Lemma S_data_loop items : forall c, Mv c (fst (fst (data_loop c items))) (snd (fst (data_loop c items))).
Proof.
  induction items as [|[m|req] items IH]; intro c; cbn [data_loop]; [apply S_refl| |].
  - pose proof (S_process_packet c m) as H1. destruct (process_packet c m) as [[c1 o1] ex]. cbn [fst snd] in H1.
    destruct ex; [exact H1|]. specialize (IH c1). destruct (data_loop c1 items) as [[c2 o2] ex2]. cbn [fst snd] in *.
    exact (S_trans _ _ _ _ _ H1 IH).
  - match goal with |- context [helper_error c ?e] => pose proof (S_helper_error c e) as H; destruct (helper_error c e) end. exact H.
Qed.

Lemma S_call_begin c owner send types ap st tmo :
  Mv c (fst (fst (fst (call_begin c owner send types ap st tmo)))) (snd (fst (fst (call_begin c owner send types ap st tmo)))).
Proof.
  unfold call_begin. pose proof (S_send_messages c send) as H. destruct (send_messages c send) as [[c1 o1] ex]. cbn [fst snd] in H.
  destruct ex; cbn [fst snd]; [exact H|].
  match goal with |- Mv c (fold_left ?f types ?x) o1 => assert (E : wv (fold_left f types x) = wv c1) by (rewrite wv_fold_add; reflexivity) end.
  destruct H as [A1 A2 A3 A4 A5 A6]. unfold wv in E. injection E as E1 E2 E3 E4 E5 E6 E7 E8 E9.
  constructor; try congruence;
    try (intro Q; first [rewrite E6; auto; fail|rewrite E7; auto; fail|rewrite E8; auto; fail]);
    try (destruct A6 as [(Ea & Eb & Ec & Ed)|(Na & Ca & Ha)]; [left; repeat split; congruence|right; repeat split; auto; congruence]).
Qed.

Lemma wv_call_finally c cid : wv (call_finally c cid) = wv c.
Proof.
  unfold call_finally. destruct (get_call c cid) as [k|]; [|reflexivity]. cbv zeta.
  match goal with |- wv (?x <| waiters := _ |>) = _ => transitivity (wv x); [reflexivity|] end.
  rewrite wv_fold_remove. reflexivity.
Qed.

(* ------------------------------------------------------------------------------------------------------------------
   the invariant and what every label does *)
From Verif Require Import Proofs.ConnStep Proofs.ConnStep2 Proofs.ConnStep3.

Definition running_s (p : tpc) : bool := match p with PS_Resolve | PS_Tcp _ => true | _ => false end.
Definition running_f (p : tpc) : bool := match p with PF_Create | PF_Ready | PF_Hello _ => true | _ => false end.
Definition SF (c : conn) : bool := running_s (pc (t_start c)) || running_f (pc (t_finish c)).

Definition TK (c : conn) : Prop := transport c = TNone \/ running_f (pc (t_finish c)) = true \/ cs c = Connected \/ cs c = Closed.
Definition PK (c : conn) : Prop := (ping_timer c <> None \/ pong_timer c <> None) -> cs c = Connected.
Definition GK (c : conn) : Prop := cs c = HsDone -> running_f (pc (t_finish c)) = true.
Definition WI (c : conn) : Prop := Inv c /\ TK c /\ PK c /\ GK c.

(* observations that make the client drop its reference (Model/Client.v: clears) *)
Definition Clr (o : list obs) : Prop :=
  has_stop o \/ (exists e, In (OTaskDone TStart (TRaise e)) o) \/ (exists e, In (OTaskDone TFinish (TRaise e)) o) \/ In (OTaskDone TDisc TOk) o.

Lemma Inv_conn_flag c : Inv c -> is_connected c = (match cs c with Connected => true | _ => false end) /\
                                 handshake_complete c = (match cs c with HsDone | Connected => true | _ => false end).
Proof. intros ((F1 & F2) & _). exact (conj F1 F2). Qed.
Lemma Inv_armed_open c : Inv c -> cs c <> Closed -> on_stop_armed c = true.
Proof.
  intros (_ & _ & (_ & S2 & _) & _) Hn. destruct (on_stop_armed c) eqn:E; [reflexivity|].
  cbn in S2. destruct (S2 E) as (_ & Hc & _). contradiction.
Qed.
Lemma Inv_closed_timers c : Inv c -> cs c = Closed -> ping_timer c = None /\ pong_timer c = None.
Proof. intros (_ & _ & _ & C) Hc. destruct (C Hc) as (A & B & _). exact (conj A B). Qed.

(* an Mv-move keeps the invariant *)
Lemma S_WI c c' o : WI c -> Inv c' -> Mv c c' o -> WI c'.
Proof.
  intros (I & T & P & G) I' [A1 A2 A3 A4 A5 A6]. split; [exact I'|]. split; [|split].
  - unfold TK in *. rewrite A2. destruct T as [T|[T|[T|T]]]; auto.
    + destruct A6 as [(E & _)|(_ & E & _)]; [right; right; left; congruence|auto].
    + destruct A6 as [(E & _)|(N & _)]; [right; right; right; congruence|contradiction].
  - unfold PK in *. intro H.
    assert (H0 : ping_timer c <> None \/ pong_timer c <> None).
    { destruct H as [H|H]; [left; intro Q; apply H; auto|right; intro Q; apply H; auto]. }
    specialize (P H0). destruct A6 as [(E & _)|(_ & E & _)]; [congruence|].
    destruct (Inv_closed_timers c' I' E) as [Q1 Q2]. destruct H; contradiction.
  - unfold GK in *. intro H. rewrite A2. apply G. destruct A6 as [(E & _)|(_ & E & _)]; congruence.
Qed.

(* an Mv-move that closes the connection: the stop callback fired, or a connect task is in flight, or nothing of a session existed *)
Lemma S_NC c c' o : WI c -> Mv c c' o -> cs c' = Closed -> (cs c <> Closed \/ SF c = true) ->
  SF c' = true \/ has_stop o \/
  ((cs c = Init \/ cs c = SockOpen) /\ transport c = TNone /\ ping_timer c = None /\ pong_timer c = None /\ handshake_complete c = false).
Proof.
  intros (I & T & P & G) [A1 A2 A3 A4 A5 A6] Hc Hpre.
  assert (Esf : SF c' = SF c) by (unfold SF; rewrite A1, A2; reflexivity).
  destruct (SF c) eqn:Es; [left; exact Esf|]. destruct Hpre as [Hn|Hn]; [|discriminate].
  destruct A6 as [(E & _)|(_ & _ & Hs)]; [congruence|].
  destruct (Inv_conn_flag c I) as [F1 F2]. pose proof (Inv_armed_open c I Hn) as Ha.
  assert (Hti : cs c <> Connected -> ping_timer c = None /\ pong_timer c = None).
  { intro Hd. unfold PK in P. split; [destruct (ping_timer c) eqn:Q|destruct (pong_timer c) eqn:Q]; try reflexivity;
      exfalso; apply Hd; apply P; [left|right]; congruence. }
  unfold SF in Es. apply orb_false_iff in Es. destruct Es as [_ Ef].
  destruct (cs c) eqn:Ecs; try contradiction.
  - right. right. destruct T as [T|[T|[T|T]]]; try congruence. destruct Hti as [Q1 Q2]; [discriminate|]. auto 6.
  - right. right. destruct T as [T|[T|[T|T]]]; try congruence. destruct Hti as [Q1 Q2]; [discriminate|]. auto 6.
  - exfalso. specialize (G Ecs). congruence.
  - right. left. apply Hs; [exact F1|exact Ha].
Qed.

(* ---- helpers for the label analysis ---- *)
Definition eqv (x c' : conn) : Prop :=
  cs c' = cs x /\ transport c' = transport x /\ pc (t_finish c') = pc (t_finish x) /\ ping_timer c' = ping_timer x /\ pong_timer c' = pong_timer x.

Lemma S_WI2 c x c' o : WI c -> Mv c x o -> eqv x c' -> Inv c' -> WI c'.
Proof.
  intros (I & T & P & G) [A1 A2 A3 A4 A5 A6] (E1 & E2 & E3 & E4 & E5) I'. split; [exact I'|]. split; [|split].
  - unfold TK in *. rewrite E1, E2, E3, A2. destruct T as [T|[T|[T|T]]]; auto.
    + destruct A6 as [(E & _)|(_ & E & _)]; [right; right; left; congruence|auto].
    + destruct A6 as [(E & _)|(N & _)]; [right; right; right; congruence|contradiction].
  - unfold PK in *. rewrite E4, E5, E1. intro H.
    assert (H0 : ping_timer c <> None \/ pong_timer c <> None).
    { destruct H as [H|H]; [left; intro Q; apply H; auto|right; intro Q; apply H; auto]. }
    specialize (P H0). destruct A6 as [(E & _)|(_ & E & _)]; [congruence|].
    assert (Ec : cs c' = Closed) by congruence.
    destruct (Inv_closed_timers c' I' Ec) as [Q1 Q2]. rewrite E4 in Q1. rewrite E5 in Q2. destruct H; contradiction.
  - unfold GK in *. rewrite E1, E3. intro H. rewrite A2. apply G. destruct A6 as [(E & _)|(_ & E & _)]; congruence.
Qed.
Lemma eqv_refl x : eqv x x. Proof. repeat split. Qed.

(* nothing relevant changed *)
Lemma frame_WI c c' : WI c -> Inv c' -> eqv c c' -> WI c'.
Proof. intros W I' E. exact (S_WI2 c c c' [] W (S_refl c []) E I'). Qed.

Definition NC (c c' : conn) (o : list obs) : Prop :=
  cs c' = Closed -> (cs c <> Closed \/ SF c = true) -> SF c' = true \/ Clr o.

Lemma NC_same c c' o : cs c' = cs c -> (SF c = true -> SF c' = true) -> NC c c' o.
Proof. intros E H Hc [Hn|Hs]; [congruence|left; auto]. Qed.
Lemma NC_open c c' o : cs c' <> Closed -> NC c c' o.
Proof. intros H Hc. contradiction. Qed.
Lemma NC_clr c c' o : Clr o -> NC c c' o.
Proof. intros H _ _. right. exact H. Qed.

Lemma Clr_stop o : has_stop o -> Clr o. Proof. intro H. left. exact H. Qed.

(* an Mv-move; when it closes the connection, its enabling condition rules out "nothing of a session existed" *)
Lemma S_step c c' o : WI c -> Inv c' -> Mv c c' o ->
  (cs c <> Closed -> cs c' = Closed ->
   transport c <> TNone \/ ping_timer c <> None \/ pong_timer c <> None \/ handshake_complete c = true \/ In (OTaskDone TDisc TOk) o) ->
  WI c' /\ NC c c' o.
Proof.
  intros W I' HS En. split; [exact (S_WI c c' o W I' HS)|].
  intros Hc Hpre.
  destruct (SF c) eqn:Es.
  - left. unfold SF in *. destruct HS as [A1 A2 _ _ _ _]. rewrite A1, A2. exact Es.
  - destruct Hpre as [Hn|Hn]; [|discriminate].
    destruct (S_NC c c' o W HS Hc (or_introl Hn)) as [H|[H|(_ & Q1 & Q2 & Q3 & Q4)]]; [left; exact H|right; left; exact H|].
    destruct (En Hn Hc) as [E|[E|[E|[E|E]]]]; try contradiction; try congruence.
    right. right. right. right. exact E.
Qed.

Lemma S_transport c t o : transport c <> TNone -> t <> TNone -> Mv c (c <| transport := t |>) o.
Proof. intros H Ht. constructor; cbn; auto; try contradiction; try (intro Q; contradiction). Qed.

Lemma send_nohs c tys : handshake_complete c = false -> send_messages c tys = (c, [], Some (Lib LNotEstablished)).
Proof. intro H. unfold send_messages. rewrite H. reflexivity. Qed.

Lemma wv_take_cancel c t : wv (fst (take_cancel c t)) = wv c.
Proof. unfold take_cancel. destruct (must_cancel (get_task c t)); [|reflexivity]. destruct t; reflexivity. Qed.
Lemma wv_timeout_exit c t e : wv (fst (timeout_exit c t e)) = wv c.
Proof. unfold timeout_exit. destruct (expiring (get_task c t)); [|reflexivity]. destruct e; try (destruct (Nat.eqb _ 0)); destruct t; reflexivity. Qed.
Lemma wv_interrupt_exit c t e : wv (fst (interrupt_exit c t e)) = wv c.
Proof. unfold interrupt_exit. destruct (interrupted (get_task c t)); [|reflexivity]. destruct e; try reflexivity. destruct (Nat.eqb _ 0); destruct t; reflexivity. Qed.
Lemma wv_cancel_awaited c t k : wv (fst (cancel_awaited c t k)) = wv c.
Proof. unfold cancel_awaited, cancel_efut. repeat dm; reflexivity. Qed.
Lemma wv_cancel_task c t : wv (cancel_task c t) = wv c.
Proof.
  unfold cancel_task. destruct (negb (task_running (get_task c t))); [reflexivity|].
  match goal with |- context [cancel_awaited c t ?k] => pose proof (wv_cancel_awaited c t k) as H; destruct (cancel_awaited c t k) as [c1 d] end.
  cbn [fst] in H. unfold wv in H. injection H as E1 E2 E3 E4 E5 E6 E7 E8 E9.
  destruct d; destruct t; unfold wv; cbn; rewrite ?E1, ?E2, ?E3, ?E4, ?E5, ?E6, ?E7, ?E8, ?E9; reflexivity.
Qed.

(* ---- the connect tasks ---- *)
Lemma JK_start_running c : Inv c -> running_s (pc (t_start c)) = true -> cs c = Init \/ cs c = Closed.
Proof. intros (_ & (J1 & _) & _) H. cbn in J1. destruct (pc (t_start c)); try discriminate; exact J1. Qed.
Lemma JK_finish_running c : Inv c -> running_f (pc (t_finish c)) = true -> cs c = SockOpen \/ cs c = HsDone \/ cs c = Closed.
Proof. intros (_ & (_ & J2) & _) H. cbn in J2. destruct (pc (t_finish c)); try discriminate; tauto. Qed.

Lemma PK_not_connected c : PK c -> cs c <> Connected -> ping_timer c = None /\ pong_timer c = None.
Proof.
  intros P Hd. unfold PK in P. split; [destruct (ping_timer c) eqn:Q|destruct (pong_timer c) eqn:Q]; try reflexivity;
    exfalso; apply Hd; apply P; [left|right]; congruence.
Qed.

Lemma cleanup_cs c : cs (fst (cleanup c)) = Closed.
Proof. change (k_cs (core_of (fst (cleanup c))) = Closed). rewrite core_cleanup. apply closeK_cs. Qed.

Lemma WI_closed c : Inv c -> cs c = Closed -> WI c.
Proof.
  intros I Hc. split; [exact I|]. split; [|split].
  - right. right. right. exact Hc.
  - intro H. destruct (Inv_closed_timers c I Hc) as [Q1 Q2]. destruct H; contradiction.
  - intro H. congruence.
Qed.

Lemma start_fail_obs c e : exists e', In (OTaskDone TStart (TRaise e')) (snd (start_fail c e)).
Proof.
  unfold start_fail. destruct (interrupt_exit c TStart e) as [c0 e1].
  match goal with |- context [cleanup ?x] => destruct (cleanup x) as [c2 o2] end. cbn [snd finish_task].
  eexists. apply in_or_app. right. left. reflexivity.
Qed.
Lemma finish_fail_obs c e : exists e', In (OTaskDone TFinish (TRaise e')) (snd (finish_fail c e)).
Proof.
  unfold finish_fail. destruct (interrupt_exit c TFinish e) as [c0 e1].
  match goal with |- context [cleanup ?x] => destruct (cleanup x) as [c2 o2] end. cbn [snd finish_task].
  eexists. apply in_or_app. right. left. reflexivity.
Qed.

Lemma start_fail_cs c e : cs (fst (start_fail c e)) = Closed.
Proof.
  unfold start_fail. destruct (interrupt_exit c TStart e) as [c0 e1].
  match goal with |- context [cleanup ?x] => pose proof (cleanup_cs x) as H; destruct (cleanup x) as [c2 o2] end.
  cbn [fst] in *. unfold set_start_future. destruct (start_fut c2); exact H.
Qed.
Lemma finish_fail_cs c e : cs (fst (finish_fail c e)) = Closed.
Proof.
  unfold finish_fail. destruct (interrupt_exit c TFinish e) as [c0 e1].
  match goal with |- context [cleanup ?x] => pose proof (cleanup_cs x) as H; destruct (cleanup x) as [c2 o2] end.
  cbn [fst] in *. unfold set_finish_future. destruct (finish_fut c2); exact H.
Qed.

Lemma leaf_start_fail c x e c' o : start_fail x e = (c', o) -> Inv c' -> WI c' /\ NC c c' o.
Proof.
  intros E I'. pose proof (start_fail_cs x e) as Hc. pose proof (start_fail_obs x e) as Ho. rewrite E in Hc, Ho. cbn [fst snd] in *.
  split; [apply WI_closed; assumption|]. apply NC_clr. right. left. exact Ho.
Qed.
Lemma leaf_finish_fail c x e c' o : finish_fail x e = (c', o) -> Inv c' -> WI c' /\ NC c c' o.
Proof.
  intros E I'. pose proof (finish_fail_cs x e) as Hc. pose proof (finish_fail_obs x e) as Ho. rewrite E in Hc, Ho. cbn [fst snd] in *.
  split; [apply WI_closed; assumption|]. apply NC_clr. right. right. left. exact Ho.
Qed.

Lemma surjective_pairing_eq {A B} (p : A * B) a b : (a, b) = p -> p = (a, b).
Proof. intro H. symmetry. exact H. Qed.

Lemma wv_eqv x c : wv x = wv c -> eqv c x.
Proof. unfold wv, eqv. intro E. injection E as E1 E2 E3 E4 E5 E6 E7 E8 E9. auto. Qed.

Lemma leaf_tcp c x g c' : WI c -> wv x = wv c -> Inv c' -> c' = start_tcp_attempt x g -> WI c' /\ NC c c' [].
Proof.
  intros W E I' ->. pose proof (wv_eqv x c E) as (E1 & E2 & E3 & E4 & E5). split.
  - apply (frame_WI c); [exact W|exact I'|]. unfold eqv, start_tcp_attempt. cbn. auto.
  - apply NC_same; [unfold start_tcp_attempt; cbn; exact E1|]. intros _. unfold SF, start_tcp_attempt. cbn. reflexivity.
Qed.

Lemma cs_set_start_future x : cs (set_start_future x) = cs x.
Proof. unfold set_start_future. destruct (start_fut x); reflexivity. Qed.
Lemma cs_set_finish_future x : cs (set_finish_future x) = cs x.
Proof. unfold set_finish_future. destruct (finish_fut x); reflexivity. Qed.

(* the fields the invariant reads, of a state *)
Definition fld (c : conn) := (cs c, transport c, pc (t_finish c), ping_timer c, pong_timer c).
Lemma WI_open c' s tr pf pi po : Inv c' -> fld c' = (s, tr, pf, pi, po) ->
  (tr = TNone \/ running_f pf = true \/ s = Connected \/ s = Closed) -> ((pi <> None \/ po <> None) -> s = Connected) -> (s = HsDone -> running_f pf = true) -> WI c'.
Proof.
  unfold fld. intros I' E HT HP HG. injection E as E1 E2 E3 E4 E5. split; [exact I'|]. unfold TK, PK, GK. rewrite E1, E2, E3, E4, E5. auto.
Qed.

Lemma start_success_cases x :
  (cs (fst (start_success x)) = Closed /\ exists e, In (OTaskDone TStart (TRaise e)) (snd (start_success x))) \/
  (cs x <> Closed /\ fld (fst (start_success x)) = (SockOpen, transport x, pc (t_finish x), ping_timer x, pong_timer x)).
Proof.
  unfold start_success. set (c1 := x <| socket := true |> <| sock_obj := false |> <| intr_start := IExited |> <| conn_timer := None |>).
  assert (Ecs : cs (set_start_future c1) = cs x) by (rewrite cs_set_start_future; reflexivity).
  destruct (cs (set_start_future c1)) eqn:E0.
  5: { pose proof (cleanup_cs (set_start_future c1)) as Hc. destruct (cleanup (set_start_future c1)) as [c3 o3]. cbn [fst] in Hc.
       left. unfold finish_task. cbn [fst snd]. split; [exact Hc|]. eexists. apply in_or_app. right. left. reflexivity. }
  all: right; (split; [rewrite <- Ecs; discriminate|]); unfold finish_task; cbn [fst]; unfold set_start_future; destruct (start_fut c1); reflexivity.
Qed.

Lemma leaf_start_success c x c' o : WI c -> running_s (pc (t_start c)) = true -> wv x = wv c ->
  start_success x = (c', o) -> Inv c' -> WI c' /\ NC c c' o.
Proof.
  intros W Hr E Es I'. destruct W as (I & T & P & G).
  pose proof (wv_eqv x c E) as (E1 & E2 & E3 & E4 & E5).
  pose proof (start_success_cases x) as K. rewrite Es in K. cbn [fst snd] in K. destruct K as [(Hc & Ho)|(Hn & Hf)].
  - split; [apply WI_closed; assumption|]. apply NC_clr. right. left. exact Ho.
  - assert (Hinit : cs c = Init) by (destruct (JK_start_running c I Hr) as [Q|Q]; [exact Q|congruence]).
    destruct (PK_not_connected c P ltac:(congruence)) as [Q1 Q2].
    assert (Hcs' : cs c' = SockOpen) by (unfold fld in Hf; injection Hf as F1 _ _ _ _; exact F1).
    split; [|apply NC_open; congruence].
    apply (WI_open c' _ _ _ _ _ I' Hf).
    + unfold TK in T. rewrite Hinit in T. destruct T as [T|[T|[T|T]]]; try discriminate; [left; congruence|right; left; congruence].
    + intros [Q|Q]; exfalso; apply Q; congruence.
    + discriminate.
Qed.

Lemma wake_start_W c c' o : WI c -> wake_start c = Some (c', o) -> Inv c' -> WI c' /\ NC c c' o.
Proof.
  intros W E I'. unfold wake_start in E. cbn [get_task] in E.
  destruct (pc (t_start c)) eqn:Ep; try discriminate.
  - (* awaiting the resolver *)
    destruct (must_cancel (t_start c) || negb match do_connect c with EPending => true | _ => false end); [|discriminate].
    pose proof (wv_take_cancel c TStart) as H1. destruct (take_cancel c TStart) as [c1 mc]. cbn [fst] in H1.
    assert (Hr : running_s (pc (t_start c)) = true) by (rewrite Ep; reflexivity).
    match type of E with match ?d with _ => _ end = _ => destruct d as [|e] end.
    + apply some_pair_inv in E. destruct E as [<- <-]. eapply leaf_tcp; [exact W| |exact I'|reflexivity]. rewrite <- H1. reflexivity.
    + match type of E with context [timeout_exit ?x TStart e] => pose proof (wv_timeout_exit x TStart e) as H2; destruct (timeout_exit x TStart e) as [c2 e1] end.
      apply some_inj in E. eapply leaf_start_fail; [exact E|exact I'].
  - (* awaiting a TCP attempt *)
    destruct (must_cancel (t_start c) || negb match do_connect c with EPending => true | _ => false end); [|discriminate].
    pose proof (wv_take_cancel c TStart) as H1. destruct (take_cancel c TStart) as [c1 mc]. cbn [fst] in H1.
    assert (Hr : running_s (pc (t_start c)) = true) by (rewrite Ep; reflexivity).
    match type of E with match ?d with _ => _ end = _ => destruct d as [|e] end.
    + apply some_inj in E. eapply leaf_start_success; [exact W|exact Hr| |exact E|exact I'].
      rewrite <- H1. reflexivity.
    + match type of E with context [timeout_exit ?x TStart e] => pose proof (wv_timeout_exit x TStart e) as H2; destruct (timeout_exit x TStart e) as [c2 e1] end.
      cbn [fst] in H2.
      destruct (is_oserror e1).
      * destruct groups as [|[|g']].
        -- apply some_inj in E. eapply leaf_start_fail; [exact E|exact I'].
        -- apply some_inj in E. eapply leaf_start_fail; [exact E|exact I'].
        -- apply some_pair_inv in E. destruct E as [<- <-]. eapply leaf_tcp; [exact W| |exact I'|reflexivity]. rewrite H2, <- H1. reflexivity.
      * apply some_inj in E. eapply leaf_start_fail; [exact E|exact I'].
Qed.

(* ---- finish_connection ---- *)
Lemma leaf_finish_fail' c x e c' o0 pre : finish_fail x e = (c', o0) -> Inv c' -> WI c' /\ NC c c' (pre ++ o0).
Proof.
  intros E I'. pose proof (finish_fail_cs x e) as Hc. pose proof (finish_fail_obs x e) as [e' Ho]. rewrite E in Hc, Ho. cbn [fst snd] in *.
  split; [apply WI_closed; assumption|]. apply NC_clr. right. right. left. exists e'. apply in_or_app. right. exact Ho.
Qed.

Lemma wv_internal_handlers c : wv (internal_handlers c) = wv c.
Proof. unfold internal_handlers. rewrite !wv_add_handler. reflexivity. Qed.

Lemma wv_internal_handlers_pf c : pc (t_finish (internal_handlers c)) = pc (t_finish c).
Proof. pose proof (wv_internal_handlers c) as E. unfold wv in E. injection E as E1 E2 E3 E4 E5 E6 E7 E8 E9. exact E5. Qed.
Lemma wv_internal_handlers_pi c : ping_timer (internal_handlers c) = ping_timer c.
Proof. pose proof (wv_internal_handlers c) as E. unfold wv in E. injection E as E1 E2 E3 E4 E5 E6 E7 E8 E9. exact E7. Qed.
Lemma wv_internal_handlers_po c : pong_timer (internal_handlers c) = pong_timer c.
Proof. pose proof (wv_internal_handlers c) as E. unfold wv in E. injection E as E1 E2 E3 E4 E5 E6 E7 E8 E9. exact E8. Qed.

Lemma WI_connected c : Inv c -> cs c = Connected -> WI c.
Proof.
  intros I Hc. split; [exact I|]. split; [|split].
  - right. right. left. exact Hc.
  - intros _. exact Hc.
  - intro H. congruence.
Qed.
Lemma WI_running c : Inv c -> running_f (pc (t_finish c)) = true -> ping_timer c = None -> pong_timer c = None -> WI c.
Proof.
  intros I Hr Q1 Q2. split; [exact I|]. split; [|split].
  - right. left. exact Hr.
  - intros [Q|Q]; contradiction.
  - intros _. exact Hr.
Qed.

Lemma finish_success_cases x :
  (cs (fst (finish_success x)) = Closed /\ exists e, In (OTaskDone TFinish (TRaise e)) (snd (finish_success x))) \/
  cs (fst (finish_success x)) = Connected.
Proof.
  unfold finish_success. set (c1 := x <| intr_finish := IExited |>).
  destruct (cs (set_finish_future c1)) eqn:E0.
  5: { pose proof (cleanup_cs (set_finish_future c1)) as Hc. destruct (cleanup (set_finish_future c1)) as [c3 o3]. cbn [fst] in Hc.
       left. unfold finish_task. cbn [fst snd]. split; [exact Hc|]. eexists. apply in_or_app. right. left. reflexivity. }
  all: right; unfold finish_task; cbn [fst]; unfold set_finish_future; destruct (finish_fut c1); reflexivity.
Qed.

Lemma leaf_finish_success c x c' o : finish_success x = (c', o) -> Inv c' -> WI c' /\ NC c c' o.
Proof.
  intros Es I'. pose proof (finish_success_cases x) as K. rewrite Es in K. cbn [fst snd] in K. destruct K as [(Hc & Ho)|Hc].
  - split; [apply WI_closed; assumption|]. apply NC_clr. right. right. left. exact Ho.
  - split; [apply WI_connected; assumption|]. apply NC_open. congruence.
Qed.

(* finish_after_ready on an open connection: it fails (closed, error reported), or the task goes on waiting for the hello answers *)
Lemma finish_after_ready_cases x : cs x = SockOpen ->
  (cs (fst (finish_after_ready x)) = Closed /\ exists e, In (OTaskDone TFinish (TRaise e)) (snd (finish_after_ready x))) \/
  (running_f (pc (t_finish (fst (finish_after_ready x)))) = true /\
   (ping_timer x = None -> ping_timer (fst (finish_after_ready x)) = None) /\ (pong_timer x = None -> pong_timer (fst (finish_after_ready x)) = None)).
Proof.
  intro Hso. unfold finish_after_ready. set (c0 := x <| hs_timer := None |>).
  assert (Ec0 : cs c0 = SockOpen) by exact Hso. rewrite Ec0.
  match goal with |- context [call_begin ?a ?b ?d ?e ?f ?g ?h] =>
    pose proof (S_call_begin a b d e f g h) as HS; destruct (call_begin a b d e f g h) as [[[c2 o2] ex] cid] end.
  cbn [fst snd] in HS. destruct ex as [e|].
  - left. pose proof (finish_fail_cs c2 e) as Hc. pose proof (finish_fail_obs c2 e) as [e' Ho]. destruct (finish_fail c2 e) as [c3 o3]. cbn [fst snd] in *.
    split; [exact Hc|]. exists e'. apply in_or_app. right. exact Ho.
  - right. cbn [fst]. destruct HS as [A1 A2 A3 A4 A5 A6]. split; [|split].
    + rewrite A2. rewrite wv_internal_handlers_pf. reflexivity.
    + intro Q. apply A4. rewrite wv_internal_handlers_pi. exact Q.
    + intro Q. apply A5. rewrite wv_internal_handlers_po. exact Q.
Qed.

Lemma leaf_finish_after_ready c x c' o :
  WI c -> cs c = SockOpen -> cs x = cs c -> ping_timer x = ping_timer c -> pong_timer x = pong_timer c ->
  finish_after_ready x = (c', o) -> Inv c' -> WI c' /\ NC c c' o.
Proof.
  intros W Hso E1 E4 E5 Es I'. destruct W as (I & T & P & G).
  destruct (PK_not_connected c P ltac:(congruence)) as [Q1 Q2].
  pose proof (finish_after_ready_cases x ltac:(congruence)) as K. rewrite Es in K. cbn [fst snd] in K.
  destruct K as [(Hc & Ho)|(Hr & Hp1 & Hp2)].
  - split; [apply WI_closed; assumption|]. apply NC_clr. right. right. left. exact Ho.
  - split.
    + apply WI_running; [exact I'|exact Hr|apply Hp1; congruence|apply Hp2; congruence].
    + intros _ _. left. unfold SF. rewrite Hr. apply orb_true_r.
Qed.

Lemma wv_fields x c : wv x = wv c ->
  cs x = cs c /\ transport x = transport c /\ ping_timer x = ping_timer c /\ pong_timer x = pong_timer c /\ pc (t_finish x) = pc (t_finish c) /\ pc (t_start x) = pc (t_start c).
Proof. unfold wv. intro E. injection E as E1 E2 E3 E4 E5 E6 E7 E8 E9. auto 7. Qed.

Lemma wake_finish_W c c' o : WI c -> wake_finish c = Some (c', o) -> Inv c' -> WI c' /\ NC c c' o.
Proof.
  intros W E I'. pose proof W as (I & T & P & G). unfold wake_finish in E. cbn [get_task] in E.
  destruct (pc (t_finish c)) eqn:Ep; try discriminate.
  - (* awaiting create_connection *)
    destruct (must_cancel (t_finish c) || negb match made_waiter c with EPending => true | _ => false end); [|discriminate].
    pose proof (wv_take_cancel c TFinish) as H1. destruct (take_cancel c TFinish) as [c1 mc]. cbn [fst] in H1.
    destruct (wv_fields c1 c H1) as (F1 & F2 & F3 & F4 & F5 & F6).
    assert (Hr : running_f (pc (t_finish c)) = true) by (rewrite Ep; reflexivity).
    match type of E with match ?d with _ => _ end = _ => destruct d as [|e] end.
    + set (c2 := c1 <| helper := helper_obj c1 |> <| hs_timer := Some (now c1 + HANDSHAKE_TIMEOUT) |>) in *.
      destruct (ready c2) eqn:Er.
      * (* keeps waiting, for the helper now *)
        apply some_pair_inv in E. destruct E as [<- <-].
        set (c3 := set_task c2 TFinish (get_task c2 TFinish <| pc := PF_Ready |>)) in *.
        assert (Hcs : cs c3 = cs c) by exact F1.
        assert (Hpf : running_f (pc (t_finish c3)) = true) by reflexivity.
        assert (Hpi : ping_timer c3 = ping_timer c) by exact F3.
        assert (Hpo : pong_timer c3 = pong_timer c) by exact F4.
        split.
        -- destruct (cs c) eqn:Ecs.
           5: { apply WI_closed; [exact I'|exact Hcs]. }
           4: { apply WI_connected; [exact I'|exact Hcs]. }
           all: assert (Hnc : cs c <> Connected) by (rewrite Ecs; discriminate);
                destruct (PK_not_connected c P Hnc) as [Q1 Q2]; apply WI_running; [exact I'|exact Hpf|transitivity (ping_timer c); [exact Hpi|exact Q1]|transitivity (pong_timer c); [exact Hpo|exact Q2]].
        -- apply NC_same; [exact Hcs|]. intros _. unfold SF. change (running_s (pc (t_start c3)) || running_f (pc (t_finish c3)) = true). rewrite Hpf. apply orb_true_r.
      * (* the helper is ready already *)
        destruct (JK_finish_running c I Hr) as [Q|[Q|Q]].
        -- destruct (finish_after_ready c2) as [c3 o3] eqn:Ef. apply some_pair_inv in E. destruct E as [<- <-].
           apply (leaf_finish_after_ready c c2 c3 o3 W Q); [exact F1|exact F3|exact F4|exact Ef|exact I'].
        -- exfalso. destruct I as (_ & (_ & J2) & _). cbn in J2. rewrite Ep in J2. destruct J2; congruence.
        -- (* closed meanwhile: finish_after_ready fails *)
           unfold finish_after_ready in E.
           assert (Hc2 : cs (c2 <| hs_timer := None |>) = Closed) by (transitivity (cs c1); [reflexivity|congruence]).
           rewrite Hc2 in E. apply some_inj in E. eapply leaf_finish_fail; [exact E|exact I'].
      * apply some_inj in E. eapply leaf_finish_fail; [exact E|exact I'].
      * apply some_inj in E. eapply leaf_finish_fail; [exact E|exact I'].
    + match type of E with context [finish_fail ?x e] => destruct (finish_fail x e) as [c3 o3] eqn:Ef end.
      apply some_pair_inv in E. destruct E as [<- <-]. eapply leaf_finish_fail'; [exact Ef|exact I'].
  - (* awaiting the helper *)
    destruct (must_cancel (t_finish c) || negb match ready c with RPending => true | _ => false end); [|discriminate].
    pose proof (wv_take_cancel c TFinish) as H1. destruct (take_cancel c TFinish) as [c1 mc]. cbn [fst] in H1.
    destruct (wv_fields c1 c H1) as (F1 & F2 & F3 & F4 & F5 & F6).
    assert (Hr : running_f (pc (t_finish c)) = true) by (rewrite Ep; reflexivity).
    destruct mc.
    + apply some_inj in E. eapply leaf_finish_fail; [exact E|exact I'].
    + destruct (ready c1).
      * apply some_inj in E. eapply leaf_finish_fail; [exact E|exact I'].
      * destruct (JK_finish_running c I Hr) as [Q|[Q|Q]].
        -- destruct (finish_after_ready c1) as [c3 o3] eqn:Ef. apply some_pair_inv in E. destruct E as [<- <-].
           apply (leaf_finish_after_ready c c1 c3 o3 W Q); [exact F1|exact F3|exact F4|exact Ef|exact I'].
        -- exfalso. destruct I as (_ & (_ & J2) & _). cbn in J2. rewrite Ep in J2. destruct J2; congruence.
        -- unfold finish_after_ready in E.
           assert (Hc2 : cs (c1 <| hs_timer := None |>) = Closed) by (transitivity (cs c1); [reflexivity|congruence]).
           rewrite Hc2 in E. apply some_inj in E. eapply leaf_finish_fail; [exact E|exact I'].
      * apply some_inj in E. eapply leaf_finish_fail; [exact E|exact I'].
      * apply some_inj in E. eapply leaf_finish_fail; [exact E|exact I'].
  - (* awaiting the hello / login answers *)
    destruct (get_call c cid) as [kk|]; [|discriminate].
    destruct (must_cancel (t_finish c) || cfut_done (c_fut kk)); [|discriminate].
    destruct (take_cancel c TFinish) as [c1 mc].
    match type of E with match ?d with _ => _ end = _ => destruct d as [|e] end.
    + destruct (check_hello_login (call_finally c1 cid) (c_responses kk)).
      * apply some_inj in E. eapply leaf_finish_fail; [exact E|exact I'].
      * apply some_inj in E. eapply leaf_finish_success; [exact E|exact I'].
    + apply some_inj in E. eapply leaf_finish_fail; [exact E|exact I'].
Qed.

(* ---- disconnect() ---- *)
Lemma wv_set_task_disc c k : wv (set_task c TDisc k) = wv c. Proof. reflexivity. Qed.
Lemma wv_finish_task_disc c r : wv (fst (finish_task c TDisc r)) = wv c. Proof. reflexivity. Qed.
Lemma wv_set_task_call c cid k : wv (set_task c (TCall cid) k) = wv c. Proof. reflexivity. Qed.

Lemma S_then_wv c x y o : Mv c x o -> wv y = wv x -> Mv c y o.
Proof.
  intros [A1 A2 A3 A4 A5 A6] E. unfold wv in E. injection E as E1 E2 E3 E4 E5 E6 E7 E8 E9.
  constructor; try congruence;
    try (intro Q; first [rewrite E6; auto; fail|rewrite E7; auto; fail|rewrite E8; auto; fail]);
    try (destruct A6 as [(Ea & Eb & Ec & Ed)|(Na & Ca & Ha)]; [left; repeat split; congruence|right; repeat split; auto; congruence]).
Qed.
Lemma S_wv_then c x y o : wv x = wv c -> Mv x y o -> Mv c y o.
Proof.
  intros E H. apply (S_trans c x y [] o); [|exact H]. apply S_wv. exact E.
Qed.

(* disconnect_after_wait: an Mv-move (the task's own bookkeeping aside); without a completed handshake it closes and returns at once *)
Lemma daw_spec c :
  Mv c (fst (disconnect_after_wait c)) (snd (disconnect_after_wait c)) /\
  (handshake_complete c = false -> In (OTaskDone TDisc TOk) (snd (disconnect_after_wait c))).
Proof.
  unfold disconnect_after_wait. set (c1 := c <| expected_disconnect := true |>).
  assert (H0 : Mv c c1 []) by (apply S_wv; reflexivity).
  assert (Ehs : handshake_complete c1 = handshake_complete c) by reflexivity.
  destruct (handshake_complete c1) eqn:Eh.
  - split; [|intro Q; congruence].
    match goal with |- context [call_begin ?a ?b ?d ?e ?f ?g ?h] =>
      pose proof (S_call_begin a b d e f g h) as HS; destruct (call_begin a b d e f g h) as [[[c2 o2] ex] cid] end.
    cbn [fst snd] in HS. pose proof (S_trans _ _ _ _ _ H0 HS) as H1. cbn [app] in H1.
    destruct ex as [[l| | | | |]|].
    + pose proof (S_cleanup c2) as H2. destruct (cleanup c2) as [c3 o3]. cbn [fst snd] in *.
      unfold finish_task. cbn [fst snd]. rewrite app_assoc. apply S_obs_r. apply (S_then_wv c c3); [exact (S_trans _ _ _ _ _ H1 H2)|reflexivity].
    + unfold finish_task. cbn [fst snd]. apply S_obs_r. apply (S_then_wv c c2); [exact H1|reflexivity].
    + unfold finish_task. cbn [fst snd]. apply S_obs_r. apply (S_then_wv c c2); [exact H1|reflexivity].
    + unfold finish_task. cbn [fst snd]. apply S_obs_r. apply (S_then_wv c c2); [exact H1|reflexivity].
    + unfold finish_task. cbn [fst snd]. apply S_obs_r. apply (S_then_wv c c2); [exact H1|reflexivity].
    + unfold finish_task. cbn [fst snd]. apply S_obs_r. apply (S_then_wv c c2); [exact H1|reflexivity].
    + cbn [fst snd]. apply (S_then_wv c c2); [exact H1|reflexivity].
  - pose proof (S_cleanup c1) as H2. destruct (cleanup c1) as [c2 o2]. cbn [fst snd] in *.
    unfold finish_task. cbn [fst snd]. split.
    + apply S_obs_r. apply (S_then_wv c c2); [exact (S_trans _ _ _ _ _ H0 H2)|reflexivity].
    + intros _. apply in_or_app. right. left. reflexivity.
Qed.

Lemma wake_disc_spec c c' o : wake_disc c = Some (c', o) ->
  Mv c c' o /\ (cs c <> Closed -> cs c' = Closed -> handshake_complete c = true \/ In (OTaskDone TDisc TOk) o).
Proof.
  unfold wake_disc. cbn [get_task]. intro E.
  destruct (pc (t_disc c)) eqn:Ep; try discriminate.
  - destruct (must_cancel (t_disc c) || disc_wait_done c); [|discriminate].
    pose proof (wv_take_cancel c TDisc) as H1. destruct (take_cancel c TDisc) as [c1 mc]. cbn [fst] in H1.
    set (c2 := c1 <| disc_timer := None |>) in *.
    assert (H2 : wv c2 = wv c) by (rewrite <- H1; reflexivity).
    destruct mc.
    + apply some_pair_inv in E. destruct E as [<- <-]. split.
      * apply S_wv. rewrite <- H2. reflexivity.
      * intros Hn Hc. exfalso. apply Hn. rewrite <- Hc. symmetry.
        assert (Q : wv (set_task c2 TDisc (get_task c2 TDisc <| pc := PDone (TRaise CancelledErr) |>)) = wv c) by (rewrite <- H2; reflexivity).
        destruct (wv_fields _ _ Q) as (F1 & _). exact F1.
    + match type of E with context [disconnect_after_wait ?x] => set (c3 := x) in *; pose proof (daw_spec c3) as [HS HT];
        assert (H3 : wv c3 = wv c) by (rewrite <- H2; unfold c3; destruct (finish_fut c2); [reflexivity| |reflexivity]; destruct (fatal c2); reflexivity) end.
      destruct (disconnect_after_wait c3) as [c4 o4]. apply some_pair_inv in E. destruct E as [<- <-]. cbn [fst snd] in *.
      split; [exact (S_wv_then c c3 c4 o4 H3 HS)|].
      intros Hn Hc. unfold wv in H3. injection H3 as _ _ _ _ _ _ _ _ E9.
      destruct (handshake_complete c) eqn:Eh; [left; reflexivity|right; apply HT; congruence].
  - destruct (get_call c cid) as [kk|]; [|discriminate].
    destruct (must_cancel (t_disc c) || cfut_done (c_fut kk)); [|discriminate].
    pose proof (wv_take_cancel c TDisc) as H1. destruct (take_cancel c TDisc) as [c1 mc]. cbn [fst] in H1.
    pose proof (wv_call_finally c1 cid) as H2. set (c2 := call_finally c1 cid) in *.
    assert (H3 : wv c2 = wv c) by congruence.
    assert (Kraise : forall e, Some (finish_task c2 TDisc (TRaise e)) = Some (c', o) ->
              Mv c c' o /\ (cs c <> Closed -> cs c' = Closed -> handshake_complete c = true \/ In (OTaskDone TDisc TOk) o)).
    { intros e E0. apply some_pair_inv in E0. destruct E0 as [<- <-]. split.
      - apply S_wv. rewrite <- H3. reflexivity.
      - intros Hn Hc. exfalso. apply Hn. rewrite <- Hc. symmetry.
        assert (Q : wv (set_task c2 TDisc (get_task c2 TDisc <| pc := PDone (TRaise e) |>)) = wv c) by (rewrite <- H3; reflexivity).
        destruct (wv_fields _ _ Q) as (F1 & _). exact F1. }
    assert (Kok : (let '(c3, o3) := cleanup c2 in let '(c4, o2) := finish_task c3 TDisc TOk in Some (c4, o3 ++ o2)) = Some (c', o) ->
              Mv c c' o /\ (cs c <> Closed -> cs c' = Closed -> handshake_complete c = true \/ In (OTaskDone TDisc TOk) o)).
    { pose proof (S_cleanup c2) as HS. destruct (cleanup c2) as [c3 o3]. cbn [fst snd] in HS. unfold finish_task. intro E0.
      apply some_pair_inv in E0. destruct E0 as [<- <-]. split.
      - apply S_obs_r. apply (S_then_wv c c3); [exact (S_wv_then c c2 c3 o3 H3 HS)|reflexivity].
      - intros _ _. right. apply in_or_app. right. left. reflexivity. }
    destruct mc.
    + exact (Kraise _ E).
    + destruct (deliver_cfut (c_fut kk)) as [|[l| | | | |]]; first [exact (Kok E)|exact (Kraise _ E)].
Qed.

(* ------------------------------------------------------------------------------------------------------------------
   every label *)
Lemma wv_step c c' o : WI c -> Inv c' -> wv c' = wv c -> WI c' /\ NC c c' o.
Proof.
  intros W I' E. destruct (wv_fields c' c E) as (F1 & F2 & F3 & F4 & F5 & F6). split.
  - apply (frame_WI c); [exact W|exact I'|]. unfold eqv. auto.
  - apply NC_same; [exact F1|]. unfold SF. rewrite F5, F6. auto.
Qed.

Theorem step_W c l c' o : WI c -> step c l = Some (c', o) -> l <> LForce -> WI c' /\ NC c c' o.
Proof.
  intros W E Hl. pose proof W as (I & T & P & G).
  destruct (step_ok c l c' o E I) as [I' _].
  destruct l; cbn [step] in E.
  - (* LStart *)
    destruct (cs c) eqn:Ecs.
    + destruct (pc (t_start c)) eqn:Ep; try discriminate. apply some_pair_inv in E. destruct E as [<- <-].
      split.
      * apply (frame_WI c); [exact W|exact I'|]. unfold eqv. repeat split; try reflexivity; try exact Ecs.
      * apply NC_open. intro Hc. change (cs c = Closed) in Hc. congruence.
    + apply some_pair_inv in E. destruct E as [<- <-]. apply wv_step; [exact W|exact I'|reflexivity].
    + apply some_pair_inv in E. destruct E as [<- <-]. apply wv_step; [exact W|exact I'|reflexivity].
    + apply some_pair_inv in E. destruct E as [<- <-]. apply wv_step; [exact W|exact I'|reflexivity].
    + apply some_pair_inv in E. destruct E as [<- <-]. apply wv_step; [exact W|exact I'|reflexivity].
  - (* LFinish *)
    destruct (cs c) eqn:Ecs.
    2: { destruct (pc (t_finish c)) eqn:Ep; try discriminate. apply some_pair_inv in E. destruct E as [<- <-].
         destruct (PK_not_connected c P ltac:(congruence)) as [Q1 Q2]. split.
         - apply WI_running; [exact I'|reflexivity|exact Q1|exact Q2].
         - apply NC_open. intro Hc. change (cs c = Closed) in Hc. congruence. }
    all: apply some_pair_inv in E; destruct E as [<- <-]; apply wv_step; [exact W|exact I'|reflexivity].
  - (* LDisconnect *)
    destruct (pc (t_disc c)) eqn:Ep; try discriminate.
    destruct (finish_fut c) eqn:Ef.
    2: { apply some_pair_inv in E. destruct E as [<- <-]. apply wv_step; [exact W|exact I'|reflexivity]. }
    all: apply some_inj in E;
      match type of E with disconnect_after_wait ?x = _ => pose proof (daw_spec x) as [HS HT]; rewrite E in HS, HT; cbn [fst snd] in HS, HT;
        assert (H0 : wv x = wv c) by reflexivity end;
      apply S_step; [exact W|exact I'|eapply S_wv_then; [exact H0|exact HS]|];
      intros Hn Hc; destruct (handshake_complete c) eqn:Eh; [auto|right; right; right; right; apply HT; exact Eh].
  - (* LForce *) contradiction.
  - (* LCallStart *)
    set (c0 := c <| call_tasks := call_tasks c ++ [(next_cid c, task0 <| pc := PC_Wait (next_cid c) |>)] |>) in *.
    match type of E with context [call_begin c0 ?a ?b ?d ?e ?f ?g] =>
      pose proof (S_call_begin c0 a b d e f g) as HS; destruct (call_begin c0 a b d e f g) as [[[c1 o1] ex] cid'] eqn:Ecb end.
    cbn [fst snd] in HS. assert (H0 : wv c0 = wv c) by reflexivity.
    assert (Hen : cs c <> Closed -> cs c1 = Closed -> handshake_complete c = true).
    { intros Hn Hc. destruct (handshake_complete c) eqn:Eh; [reflexivity|]. exfalso.
      unfold call_begin in Ecb. rewrite (send_nohs c0 send) in Ecb by exact Eh. apply pair_inv in Ecb. destruct Ecb as [Ecb _].
      apply pair_inv in Ecb. destruct Ecb as [Ecb _]. apply pair_inv in Ecb. destruct Ecb as [<- _]. apply Hn. exact Hc. }
    destruct ex.
    + unfold finish_task in E. apply some_pair_inv in E. destruct E as [<- <-].
      apply S_step; [exact W|exact I'| |].
      * apply S_obs_r. apply (S_then_wv c c1); [exact (S_wv_then c c0 c1 o1 H0 HS)|reflexivity].
      * intros Hn Hc. right. right. right. left. apply Hen; [exact Hn|exact Hc].
    + apply some_pair_inv in E. destruct E as [<- <-].
      apply S_step; [exact W|exact I'|exact (S_wv_then c c0 c1 o1 H0 HS)|].
      intros Hn Hc. right. right. right. left. apply Hen; [exact Hn|exact Hc].
  - (* LSend *)
    pose proof (S_send_messages c tys) as HS. destruct (send_messages c tys) as [[c1 o1] ex] eqn:Es. cbn [fst snd] in HS.
    apply some_pair_inv in E. destruct E as [<- <-].
    apply S_step; [exact W|exact I'|apply S_obs_r; exact HS|].
    intros Hn Hc. right. right. right. left. destruct (handshake_complete c) eqn:Eh; [reflexivity|]. exfalso.
    rewrite (send_nohs c tys Eh) in Es. apply pair_inv in Es. destruct Es as [Es _]. apply pair_inv in Es. destruct Es as [<- _]. contradiction.
  - (* LCancel *)
    destruct (task_running (get_task c t)).
    + apply some_pair_inv in E. destruct E as [<- <-]. apply wv_step; [exact W|exact I'|]. rewrite wv_cancel_task. destruct t; reflexivity.
    + apply some_pair_inv in E. destruct E as [<- <-]. apply wv_step; [exact W|exact I'|reflexivity].
  - (* LSub *) apply some_pair_inv in E. destruct E as [<- <-]. apply wv_step; [exact W|exact I'|apply wv_add_handler].
  - (* LUnsub *) apply some_pair_inv in E. destruct E as [<- <-]. apply wv_step; [exact W|exact I'|reflexivity].
  - (* LResolveDone *)
    destruct (pc (t_start c)); try discriminate; destruct (do_connect c); try discriminate;
      apply some_pair_inv in E; destruct E as [<- <-]; apply wv_step; [exact W|exact I'|reflexivity].
  - (* LTcpDone *)
    destruct (pc (t_start c)); try discriminate; destruct (do_connect c); try discriminate;
      apply some_pair_inv in E; destruct E as [<- <-]; apply wv_step; [exact W|exact I'|reflexivity].
  - (* LMade *)
    destruct (transport c); try discriminate. destruct (made c); try discriminate.
    destruct (noise c); apply some_pair_inv in E; destruct E as [<- <-]; apply wv_step; [exact W|exact I'|reflexivity|exact W|exact I'|reflexivity].
  - (* LMadeWaiter *)
    destruct (made_waiter c); try discriminate; apply some_pair_inv in E; destruct E as [<- <-]; apply wv_step; [exact W|exact I'|reflexivity|exact W|exact I'|reflexivity].
  - (* LHelperReady *)
    destruct (ready c); try discriminate. destruct (made c); try discriminate. destruct (transport c) eqn:Et; try discriminate.
    destruct r as [e|].
    + pose proof (S_helper_error c e) as HS. destruct (helper_error c e) as [c1 o1]. cbn [fst snd] in HS.
      assert (Hen : cs c <> Closed -> cs c' = Closed ->
                    transport c <> TNone \/ ping_timer c <> None \/ pong_timer c <> None \/ handshake_complete c = true \/ In (OTaskDone TDisc TOk) o)
        by (intros _ _; left; rewrite Et; discriminate).
      destruct (transport c1) eqn:Et1; apply some_pair_inv in E; destruct E as [<- <-]; (apply S_step; [exact W|exact I'| |exact Hen]).
      * rewrite app_nil_r. exact HS.
      * apply (S_trans c c1 _ o1 [OTransportClose] HS). apply S_transport; [rewrite Et1; discriminate|discriminate].
      * rewrite app_nil_r. exact HS.
      * rewrite app_nil_r. exact HS.
    + apply some_pair_inv in E. destruct E as [<- <-]. apply wv_step; [exact W|exact I'|reflexivity].
  - (* LData *)
    destruct (transport c) eqn:Et; try discriminate. destruct (made c); try discriminate.
    pose proof (S_data_loop items c) as HS. destruct (data_loop c items) as [[c1 o1] ex]. cbn [fst snd] in HS.
    assert (Hen : cs c <> Closed -> cs c' = Closed ->
                  transport c <> TNone \/ ping_timer c <> None \/ pong_timer c <> None \/ handshake_complete c = true \/ In (OTaskDone TDisc TOk) o)
      by (intros _ _; left; rewrite Et; discriminate).
    destruct ex as [e|].
    + destruct (transport c1) eqn:Et1; apply some_pair_inv in E; destruct E as [<- <-]; (apply S_step; [exact W|exact I'| |exact Hen]).
      * apply S_obs_r. exact HS.
      * apply (S_trans c c1 _ o1 [ORaise e] HS). apply S_transport; [rewrite Et1; discriminate|discriminate].
      * apply (S_trans c c1 _ o1 [ORaise e] HS). apply S_transport; [rewrite Et1; discriminate|discriminate].
      * apply S_obs_r. exact HS.
    + apply some_pair_inv in E. destruct E as [<- <-]. apply S_step; [exact W|exact I'|exact HS|exact Hen].
  - (* LEof *)
    destruct (transport c) eqn:Et; try discriminate. destruct (made c); try discriminate.
    pose proof (S_helper_error c (Lib LSocketClosed)) as HS. destruct (helper_error c (Lib LSocketClosed)) as [c1 o1]. cbn [fst snd] in HS.
    assert (Hen : cs c <> Closed -> cs c' = Closed ->
                  transport c <> TNone \/ ping_timer c <> None \/ pong_timer c <> None \/ handshake_complete c = true \/ In (OTaskDone TDisc TOk) o)
      by (intros _ _; left; rewrite Et; discriminate).
    destruct (transport c1) eqn:Et1; apply some_pair_inv in E; destruct E as [<- <-]; (apply S_step; [exact W|exact I'| |exact Hen]).
    + exact HS.
    + apply (S_trans c c1 _ o1 [OTransportClose] HS). apply S_transport; [rewrite Et1; discriminate|discriminate].
    + exact HS.
    + exact HS.
  - (* LLost *)
    destruct (transport c) eqn:Et; try discriminate. apply some_pair_inv in E. destruct E as [<- <-].
    apply S_step; [exact W|exact I'|apply S_transport; [rewrite Et; discriminate|discriminate]|].
    intros _ _. left. rewrite Et. discriminate.
  - (* LWriteFails *) apply some_pair_inv in E. destruct E as [<- <-]. apply wv_step; [exact W|exact I'|reflexivity].
  - (* LAdvance *)
    destruct (Z.leb (now c) t && forallb (fun d => Z.leb t d) (armed_deadlines c)); [|discriminate].
    apply some_pair_inv in E. destruct E as [<- <-]. apply wv_step; [exact W|exact I'|reflexivity].
  - (* LWake *)
    destruct t.
    + exact (wake_start_W c c' o W E I').
    + exact (wake_finish_W c c' o W E I').
    + destruct (wake_disc_spec c c' o E) as [HS HT]. apply S_step; [exact W|exact I'|exact HS|].
      intros Hn Hc. destruct (HT Hn Hc) as [Q|Q]; auto.
    + unfold wake_call in E. destruct (pc (get_task c (TCall cid))); try discriminate.
      destruct (get_call c cid) as [kk|]; [|discriminate].
      destruct (must_cancel (get_task c (TCall cid)) || cfut_done (c_fut kk)); [|discriminate].
      pose proof (wv_take_cancel c (TCall cid)) as H1. destruct (take_cancel c (TCall cid)) as [c1 mc]. cbn [fst] in H1.
      pose proof (wv_call_finally c1 cid) as H2. unfold finish_task in E. apply some_pair_inv in E. destruct E as [<- <-].
      apply wv_step; [exact W|exact I'|]. rewrite <- H1, <- H2. reflexivity.
  - (* LIntr *)
    destruct is_start.
    + destruct (start_fut c); try discriminate. destruct (intr_start c); try discriminate;
        apply some_pair_inv in E; destruct E as [<- <-]; (apply wv_step; [exact W|exact I'|]); [rewrite wv_cancel_task|]; reflexivity.
    + destruct (finish_fut c); try discriminate. destruct (intr_finish c); try discriminate;
        apply some_pair_inv in E; destruct E as [<- <-]; (apply wv_step; [exact W|exact I'|]); [rewrite wv_cancel_task|]; reflexivity.
  - (* LDiscWaitDone *)
    destruct (pc (t_disc c)); try discriminate; destruct (finish_fut c); try discriminate; destruct (disc_wait_done c); try discriminate;
      apply some_pair_inv in E; destruct E as [<- <-]; apply wv_step; [exact W|exact I'|reflexivity|exact W|exact I'|reflexivity|exact W|exact I'|reflexivity].
  - (* LConnLostCb *)
    destruct (transport c) as [| |e|] eqn:Et; try discriminate.
    set (c1 := c <| transport := TLost |>) in *.
    assert (H0 : Mv c c1 []) by (apply S_transport; [rewrite Et; discriminate|discriminate]).
    assert (Hen : cs c <> Closed -> cs c' = Closed ->
                  transport c <> TNone \/ ping_timer c <> None \/ pong_timer c <> None \/ handshake_complete c = true \/ In (OTaskDone TDisc TOk) o)
      by (intros _ _; left; rewrite Et; discriminate).
    destruct (made c1).
    + apply some_inj in E. match type of E with helper_error c1 ?x = _ => pose proof (S_helper_error c1 x) as HS; rewrite E in HS; cbn [fst snd] in HS end.
      apply S_step; [exact W|exact I'|exact (S_trans _ _ _ _ _ H0 HS)|exact Hen].
    + apply some_pair_inv in E. destruct E as [<- <-]. apply S_step; [exact W|exact I'|exact H0|exact Hen].
  - (* LTimer *)
    destruct k.
    + (* ping *)
      destruct (due (ping_timer c) c) eqn:Edue; [|discriminate].
      assert (Hpi : ping_timer c <> None) by (unfold due in Edue; destruct (ping_timer c); [discriminate|discriminate]).
      assert (Hconn : cs c = Connected) by (apply P; left; exact Hpi).
      set (c0 := c <| ping_timer := None |>) in *.
      assert (H0 : Mv c c0 []) by (constructor; cbn; auto; left; auto).
      destruct (send_pending_ping c0).
      * pose proof (S_send_messages c0 [T_PING_REQ]) as HS. pose proof (send_messages_spec c0 [T_PING_REQ]) as HSp.
        destruct (send_messages c0 [T_PING_REQ]) as [[c1 o1] ex]. cbn [fst snd] in HS. destruct HSp as [_ HN].
        destruct ex.
        -- apply some_pair_inv in E. destruct E as [<- <-]. apply S_step; [exact W|exact I'|apply S_obs_r; exact (S_trans _ _ _ _ _ H0 HS)|].
           intros _ _. right. left. exact Hpi.
        -- destruct (HN eq_refl) as [-> _].
           assert (Hc' : cs c' = Connected).
           { destruct (pong_timer c0); apply some_pair_inv in E; destruct E as [<- _]; exact Hconn. }
           split; [apply WI_connected; assumption|apply NC_open; congruence].
      * apply some_pair_inv in E. destruct E as [<- <-].
        split; [apply WI_connected; [exact I'|exact Hconn]|apply NC_open; change (cs c <> Closed); congruence].
    + (* pong *)
      destruct (due (pong_timer c) c) eqn:Edue; [|discriminate].
      assert (Hpo : pong_timer c <> None) by (unfold due in Edue; destruct (pong_timer c); [discriminate|discriminate]).
      apply some_inj in E. pose proof (S_report_fatal c (Lib LPingFailed)) as HS. rewrite E in HS. cbn [fst snd] in HS.
      apply S_step; [exact W|exact I'|exact HS|]. intros _ _. right. right. left. exact Hpo.
    + destruct (due (hs_timer c) c); [|discriminate]. apply some_pair_inv in E. destruct E as [<- <-].
      apply wv_step; [exact W|exact I'|]. destruct (ready c); reflexivity.
    + destruct (due (conn_timer c) c); [|discriminate]. apply some_pair_inv in E. destruct E as [<- <-].
      apply wv_step; [exact W|exact I'|]. rewrite wv_cancel_task. reflexivity.
    + destruct (get_call c cid) as [kk|]; [|discriminate]. destruct (due (c_timer kk) c); [|discriminate].
      apply some_pair_inv in E. destruct E as [<- <-]. apply wv_step; [exact W|exact I'|reflexivity].
    + destruct (pc (t_disc c)); try discriminate. destruct (due (disc_timer c) c); [|discriminate].
      apply some_pair_inv in E. destruct E as [<- <-]. apply wv_step; [exact W|exact I'|reflexivity].
Qed.
