(* A plaintext helper that has reported a wrong first byte never delivers again, whatever arrives in later reads
   (C04: "nothing following the deviation is ever delivered" for the device that speaks the other framing). *)
From Coq Require Import NArith List Bool Lia.
From Verif Require Import Kernel.Varint Model.PlainFrame.
Import ListNotations.
Open Scope N_scope.

Lemma dec_app : forall bs acc bp v r c, dec bs acc bp = Some (v, r) -> dec (bs ++ c) acc bp = Some (v, r ++ c).
Proof.
  induction bs as [|b bs IH]; intros acc bp v r c H; cbn in *; [discriminate|].
  destruct (N.land b 128 =? 0).
  - inversion H; subst. reflexivity.
  - apply IH. exact H.
Qed.

Lemma read_varuint_app bs v r c : read_varuint bs = Some (v, r) -> read_varuint (bs ++ c) = Some (v, r ++ c).
Proof. apply dec_app. Qed.

(* the buffer starts with a complete first byte (varint) that is not the plaintext preamble *)
Definition bad_start (buf : bytes) : Prop := exists pre r, read_varuint buf = Some (pre, r) /\ pre <> 0.

Lemma bad_start_app buf c : bad_start buf -> bad_start (buf ++ c).
Proof. intros (pre & r & E & N). exists pre, (r ++ c). split; [apply read_varuint_app; exact E|exact N]. Qed.

Lemma bad_start_nonempty buf : bad_start buf -> buf <> [].
Proof. intros (pre & r & E & _) ->. discriminate E. Qed.

Lemma parse_one_bad buf : bad_start buf -> exists e, parse_one buf = OError e /\ (forall t p, e <> Deliver t p).
Proof.
  intros (pre & r & E & N). unfold parse_one. rewrite E.
  destruct (pre =? 0) eqn:Z; [apply N.eqb_eq in Z; contradiction|].
  eexists. split; [reflexivity|]. intros t p. destruct (pre =? 1); discriminate.
Qed.

(* one read on a buffer that starts badly: the error again, the buffer kept, nothing delivered *)
Lemma data_received_bad buf c : bad_start buf ->
  exists e, data_received buf c = {| r_events := [e]; r_buffer := buf ++ c; r_status := Errored |} /\ (forall t p, e <> Deliver t p).
Proof.
  intro B. pose proof (bad_start_app buf c B) as B2.
  destruct (parse_one_bad _ B2) as (e & P & ND).
  exists e. split; [|exact ND].
  unfold data_received. cbn [loop].
  pose proof (bad_start_nonempty _ B2) as NE.
  destruct (buf ++ c) as [|x xs]; [exfalso; apply NE; reflexivity|].
  rewrite P. reflexivity.
Qed.

(* where the error state comes from: a read that ends Errored with a complete bad first byte leaves a bad_start buffer *)
Lemma loop_errored_bad : forall fuel buf acc r,
  loop fuel buf acc = r -> r_status r = Errored ->
  (exists pre rest, read_varuint (r_buffer r) = Some (pre, rest)) -> bad_start (r_buffer r).
Proof.
  induction fuel as [|f IH]; intros buf acc r H S E.
  - cbn [loop] in H. subst r. cbn in S. discriminate.
  - cbn [loop] in H. destruct buf as [|x xs].
    + subst r. cbn in S. discriminate.
    + destruct (parse_one (x :: xs)) as [ty pl rest'| |e] eqn:P.
      * eapply IH; [exact H|exact S|exact E].
      * subst r. cbn in S. discriminate.
      * subst r. cbn [r_buffer r_status] in *. destruct E as (pre & rest & E).
        exists pre, rest. split; [exact E|]. intro Z. subst pre.
        unfold parse_one in P. rewrite E in P. cbn [N.eqb] in P.
        destruct (read_varuint rest) as [[len r2]|]; [|discriminate].
        destruct (read_varuint r2) as [[ty r3]|]; [|discriminate].
        destruct (len =? 0); [discriminate|]. destruct (N.of_nat (length r3) <? len); discriminate.
Qed.

Definition delivers (evs : list pevent) : list (N * bytes) :=
  flat_map (fun e => match e with Deliver t p => [(t, p)] | _ => [] end) evs.

(* every later read - of any content, cut anywhere - ends Errored again and delivers nothing *)
Fixpoint silent_from (b : bytes) (cs : list bytes) : Prop :=
  match cs with
  | [] => True
  | c1 :: r => r_status (data_received b c1) = Errored /\ delivers (r_events (data_received b c1)) = [] /\
               silent_from (r_buffer (data_received b c1)) r
  end.

Lemma bad_start_silent : forall later b, bad_start b -> silent_from b later.
Proof.
  induction later as [|c1 r IH]; intros b0 B; [exact I|].
  destruct (data_received_bad b0 c1 B) as (e & D & ND). cbn [silent_from]. rewrite D. cbn.
  split; [reflexivity|]. split.
  - destruct e; try reflexivity. exfalso. eapply ND. reflexivity.
  - apply IH. apply bad_start_app. exact B.
Qed.

(* the theorem: after a read that reported a complete wrong first byte, nothing is ever delivered again *)
Theorem plain_error_is_final : forall buf c later,
  r_status (data_received buf c) = Errored ->
  (exists pre rest, read_varuint (r_buffer (data_received buf c)) = Some (pre, rest)) ->
  silent_from (r_buffer (data_received buf c)) later.
Proof.
  intros buf c later S E. apply bad_start_silent.
  unfold data_received in *. eapply loop_errored_bad; [reflexivity|exact S|exact E].
Qed.
