(* For C08: when a connection closes, no request/response coroutine stays blocked on it.
   PW: a call future that is still pending is registered as a waiter - so the close, which fails every waiter, leaves no
   pending call future, and every task awaiting a call (a user request, the hello / login of finish_connection, the request of
   disconnect()) is resumable in the closed state.  The side invariants: a pending-cancel flag on a task that awaits a call
   means that call's future is done already (a cancel that finds the future pending cancels the future instead), and a
   coroutine that has not started carries no flag.  (The two connect coroutines before their first call are covered by the
   guard of C09: they wait under their connect / handshake deadlines and the interrupt block.) *)
From Coq Require Import NArith ZArith List Bool Lia PeanoNat.
From RecordUpdate Require Import RecordSet.
From Verif Require Import Generated.GenConstants Model.Conn Proofs.ConnCore Proofs.ConnRun Proofs.ConnCalls Proofs.ConnErrors Proofs.ConnReason
  Proofs.ConnOutcome Proofs.ConnCancel Proofs.ConnGuard Proofs.ConnLeak.
Import ListNotations RecordSetNotations.
Open Scope Z_scope.
Open Scope list_scope.

Definition pend_wait (c : conn) : Prop := forall k, In k (calls c) -> c_fut k = CPending -> In (c_id k) (waiters c).
Definition mc_done (c : conn) : Prop :=
  forall t cid, awaited (pc (get_task c t)) = Some cid -> must_cancel (get_task c t) = true ->
    exists kk, get_call c cid = Some kk /\ cfut_done (c_fut kk) = true.
Definition fresh_clean (c : conn) : Prop := forall t, pc (get_task c t) = PNone -> must_cancel (get_task c t) = false.
Record PW (c : conn) : Prop := { w_p : pend_wait c; w_m : mc_done c; w_f : fresh_clean c }.

Definition wrel (k k' : call) : Prop := c_id k' = c_id k /\ (c_fut k' = c_fut k \/ cfut_done (c_fut k') = true).
Lemma wrel_refl k : wrel k k.
Proof. unfold wrel. auto. Qed.
Lemma wrel_trans a b c : wrel a b -> wrel b c -> wrel a c.
Proof. intros (A1 & A2) (B1 & B2). split; [congruence|]. destruct B2 as [B2|B2]; [|right; exact B2]. destruct A2 as [A2|A2]; [left|right]; congruence. Qed.

Record Wm (c c' : conn) : Prop := {
  wm_t : forall t, pc (get_task c' t) = pc (get_task c t) /\ must_cancel (get_task c' t) = must_cancel (get_task c t);
  wm_c : Forall2 wrel (calls c) (calls c');
  wm_w : forall w, In w (waiters c) -> In w (waiters c') \/ (forall k', In k' (calls c') -> c_id k' = w -> cfut_done (c_fut k') = true) }.

Lemma Wm_refl c : Wm c c.
Proof. constructor; auto. apply F2_refl_gen, wrel_refl. Qed.
Lemma wrel_in l l' k' : Forall2 wrel l l' -> In k' l' -> exists k, In k l /\ wrel k k'.
Proof.
  induction 1 as [|x y l l' Hxy _ IH]; intros Hin; [destruct Hin|].
  destruct Hin as [<-|Hin]; [exists x; split; [left; reflexivity|exact Hxy]|].
  destruct (IH Hin) as (k & A & B). exists k. split; [right; exact A|exact B].
Qed.
Lemma wrel_in_fwd l l' k : Forall2 wrel l l' -> In k l -> exists k', In k' l' /\ wrel k k'.
Proof.
  induction 1 as [|x y l l' Hxy _ IH]; intros Hin; [destruct Hin|].
  destruct Hin as [<-|Hin]; [exists y; split; [left; reflexivity|exact Hxy]|].
  destruct (IH Hin) as (k' & A & B). exists k'. split; [right; exact A|exact B].
Qed.
Lemma Wm_trans a b c : Wm a b -> Wm b c -> Wm a c.
Proof.
  intros [A1 A2 A3] [B1 B2 B3]. constructor.
  - intro t. destruct (A1 t) as [X1 X2]. destruct (B1 t) as [Y1 Y2]. split; congruence.
  - eapply F2_trans_gen; [exact wrel_trans|eassumption|eassumption].
  - intros w Hw. destruct (A3 w Hw) as [H|H].
    + destruct (B3 w H) as [H'|H']; [left; exact H'|right; exact H'].
    + right. intros k'' I'' E''. destruct (wrel_in _ _ _ B2 I'') as (k' & I' & (E' & [F|F])); [|exact F].
      rewrite F. apply (H k' I'). congruence.
Qed.

Lemma wrel_find l l' cid : Forall2 wrel l l' ->
  match find (fun k => Nat.eqb (c_id k) cid) l, find (fun k => Nat.eqb (c_id k) cid) l' with
  | Some k, Some k' => wrel k k'
  | None, None => True
  | _, _ => False
  end.
Proof.
  induction 1 as [|x y l l' Hxy _ IH]; cbn; [exact I|].
  destruct Hxy as (E & Hr). rewrite E. destruct (Nat.eqb (c_id x) cid); [split; assumption|exact IH].
Qed.

Lemma PW_Wm c c' : Wm c c' -> PW c -> PW c'.
Proof.
  intros [A1 A2 A3] [B1 B2 B3]. constructor.
  - intros k' I' P'. destruct (wrel_in _ _ _ A2 I') as (k & I & (E & [F|F])); [|rewrite P' in F; discriminate].
    assert (Hw : In (c_id k) (waiters c)) by (apply B1; [exact I|congruence]).
    destruct (A3 _ Hw) as [H|H]; [rewrite E; exact H|]. specialize (H k' I' E). rewrite P' in H. discriminate.
  - intros t cid Ha Hm. destruct (A1 t) as [X1 X2]. rewrite X1 in Ha. rewrite X2 in Hm.
    destruct (B2 t cid Ha Hm) as (kk & G & D). pose proof (wrel_find _ _ cid A2) as F. unfold get_call in *. rewrite G in F.
    destruct (find _ (calls c')) as [kk'|]; [|contradiction]. exists kk'. split; [reflexivity|].
    destruct F as (_ & [F|F]); [rewrite F; exact D|exact F].
  - intros t Hp. destruct (A1 t) as [X1 X2]. rewrite X2. apply B3. congruence.
Qed.

Definition wv (c : conn) := (t_start c, t_finish c, t_disc c, call_tasks c, calls c, waiters c).
Lemma get_task_wv c c' t : wv c' = wv c -> get_task c' t = get_task c t.
Proof. unfold wv. intro E. injection E as E1 E2 E3 E4 _ _. destruct t; cbn [get_task]; try assumption. rewrite E4. reflexivity. Qed.
Lemma Wm_wv c c' : wv c' = wv c -> Wm c c'.
Proof.
  intro E. pose proof (fun t => get_task_wv c c' t E) as HT. unfold wv in E. injection E as _ _ _ _ E5 E6. constructor.
  - intro t. rewrite HT. auto.
  - rewrite E5. apply F2_refl_gen, wrel_refl.
  - intros w Hw. left. rewrite E6. exact Hw.
Qed.

(* ---------------------------------------------------------------- the synchronous functions *)
Lemma wv_set_start_future c : wv (set_start_future c) = wv c.
Proof. unfold set_start_future. destruct (start_fut c); reflexivity. Qed.
Lemma wv_set_finish_future c : wv (set_finish_future c) = wv c.
Proof. unfold set_finish_future. destruct (finish_fut c); reflexivity. Qed.
Lemma wv_helper_close c : wv (fst (helper_close c)) = wv c.
Proof. unfold helper_close. repeat dm; reflexivity. Qed.
Lemma wv_release c : wv (fst (release_resources c)) = wv c.
Proof.
  unfold release_resources. destruct (helper c).
  - destruct (socket c); reflexivity.
  - pose proof (wv_helper_close c) as H. destruct (helper_close c) as [c1 o1]. cbn [fst] in H.
    destruct (socket _); cbn [fst]; rewrite <- H; reflexivity.
  - pose proof (wv_helper_close c) as H. destruct (helper_close c) as [c1 o1]. cbn [fst] in H.
    destruct (socket _); cbn [fst]; rewrite <- H; reflexivity.
Qed.

Lemma Wm_pre_close c : Wm c (pre_close c).
Proof.
  unfold pre_close.
  match goal with |- Wm c (set_finish_future (set_start_future ?x)) =>
    apply (Wm_trans c x); [|apply Wm_wv; rewrite wv_set_finish_future, wv_set_start_future; reflexivity] end.
  constructor.
  - intro t. destruct t; split; reflexivity.
  - cbn. apply F2_map_gen. intro k. destruct (existsb _ _); [|apply wrel_refl].
    unfold wrel, fail_waiter. destruct (c_fut k) eqn:Ef; cbn; rewrite ?Ef; split; auto.
  - intros w Hw. right. cbn. intros k' I' E'. apply in_map_iff in I'. destruct I' as (k & Ek & Ik).
    assert (Hx : existsb (Nat.eqb (c_id k)) (waiters c) = true).
    { apply existsb_exists. exists w. split; [exact Hw|]. apply Nat.eqb_eq.
      subst k'. destruct (existsb _ _); [unfold fail_waiter in E'; destruct (c_fut k); cbn in E'; exact E'|exact E']. }
    cbn in Ek. rewrite Hx in Ek. subst k'. unfold fail_waiter. destruct (c_fut k) eqn:Ef; cbn; rewrite ?Ef; reflexivity.
Qed.
Lemma Wm_cleanup c : Wm c (fst (cleanup c)).
Proof.
  destruct (cs c) eqn:Ecs; try (unfold cleanup; rewrite Ecs; apply Wm_wv, wv_release).
  all: rewrite cleanup_open by congruence;
    pose proof (wv_release (pre_close c)) as H;
    destruct (release_resources (pre_close c)) as [c4 o4]; cbn [fst] in H;
    (apply (Wm_trans c (pre_close c)); [apply Wm_pre_close|]);
    (apply (Wm_trans _ c4); [apply Wm_wv; exact H|]);
    destruct (on_stop_armed c4 && is_connected c); cbn [fst]; [apply Wm_wv; reflexivity|apply Wm_refl].
Qed.
Lemma Wm_report_fatal c e : Wm c (fst (report_fatal c e)).
Proof.
  unfold report_fatal. destruct (fatal c); [apply Wm_cleanup|].
  apply (Wm_trans c (c <| fatal := Some e |>)); [apply Wm_wv; reflexivity|apply Wm_cleanup].
Qed.
Lemma Wm_helper_error c e : Wm c (fst (helper_error c e)).
Proof.
  unfold helper_error. destruct (ready c); try apply Wm_report_fatal.
  apply (Wm_trans c (c <| ready := RExc e |>)); [apply Wm_wv; reflexivity|apply Wm_report_fatal].
Qed.
Lemma Wm_send_messages c tys : Wm c (fst (fst (send_messages c tys))).
Proof.
  unfold send_messages. destruct (negb (handshake_complete c)); [apply Wm_refl|].
  destruct (write_fails c).
  - pose proof (Wm_report_fatal c (Lib LSocketClosed)) as H. destruct (report_fatal c (Lib LSocketClosed)) as [c1 o]. exact H.
  - destruct (transport c); apply Wm_refl.
Qed.
Lemma wv_add c ty h : wv (add_handler c ty h) = wv c.
Proof. unfold add_handler. destruct (existsb _ _); reflexivity. Qed.
Lemma wv_fold_actions l : forall c, wv (fold_left run_action l c) = wv c.
Proof.
  induction l as [|a l IHl]; intro c; cbn [fold_left]; [reflexivity|]. rewrite IHl.
  destruct a; cbn [run_action]; [apply wv_add|reflexivity].
Qed.
Lemma wv_fold_remove l h : forall c, wv (fold_left (fun a ty => remove_handler a ty h) l c) = wv c.
Proof. induction l as [|a l IHl]; intro c; cbn [fold_left]; [reflexivity|]. rewrite IHl. reflexivity. Qed.
Lemma wv_internal_handlers c : wv (internal_handlers c) = wv c.
Proof. unfold internal_handlers. rewrite !wv_add. reflexivity. Qed.

Lemma Wm_upd_call c cid g : (forall k, wrel k (g k)) -> Wm c (upd_call c cid g).
Proof.
  intro H. unfold upd_call. constructor.
  - intro t. destruct t; split; reflexivity.
  - cbn. apply F2_map_gen. intro k. destruct (Nat.eqb _ _); [apply H|apply wrel_refl].
  - intros w Hw. left. exact Hw.
Qed.
Lemma ids_wrel l l' : Forall2 wrel l l' -> map c_id l' = map c_id l.
Proof. induction 1 as [|x y l l' (E & _) _ IH]; cbn; [reflexivity|]. rewrite E, IH. reflexivity. Qed.
Lemma uniq_Wm c c' : Wm c c' -> uniq c -> uniq c'.
Proof. intros HM U. unfold uniq. rewrite (ids_wrel _ _ (wm_c _ _ HM)). exact U. Qed.
Lemma upd_const_unique_w l cid k k2 : NoDup (map c_id l) -> find (fun x => Nat.eqb (c_id x) cid) l = Some k -> wrel k k2 ->
  Forall2 wrel l (map (fun x => if Nat.eqb (c_id x) cid then k2 else x) l).
Proof.
  induction l as [|x l IHl]; cbn; intros U F R; [discriminate|].
  inversion U as [|? ? Hn U']; subst.
  destruct (Nat.eqb (c_id x) cid) eqn:E.
  - apply some_inj in F. subst x. constructor; [exact R|].
    apply Nat.eqb_eq in E.
    assert (Hid : forall y, In y l -> Nat.eqb (c_id y) cid = false).
    { intros y Hy. apply Nat.eqb_neq. intro Q. apply Hn. rewrite E, <- Q. apply in_map. exact Hy. }
    clear - Hid. induction l as [|y l IHl]; cbn; constructor.
    + rewrite (Hid y (or_introl eq_refl)). apply wrel_refl.
    + apply IHl. intros z Hz. apply Hid. right. exact Hz.
  - constructor; [apply wrel_refl|]. apply IHl; assumption.
Qed.
Lemma Wm_handle_call_message c cid m : uniq c -> Wm c (handle_call_message c cid m).
Proof.
  intro U. unfold handle_call_message. destruct (get_call c cid) as [k|] eqn:Eg; [|apply Wm_refl].
  destruct (c_fut k) eqn:Ef; try apply Wm_refl.
  unfold upd_call. constructor.
  - intro t. destruct t; split; reflexivity.
  - cbn. apply (upd_const_unique_w (calls c) cid k); [exact U|exact Eg|].
    unfold wrel. destruct (eval_pred (c_stop k) m), (eval_pred (c_append k) m); cbn; rewrite ?Ef; auto.
  - intros w Hw. left. exact Hw.
Qed.
Lemma Wm_call_handler c h m : uniq c -> Wm c (fst (fst (call_handler c h m))).
Proof.
  intro U. destruct h; cbn [call_handler].
  - set (c1 := c <| expected_disconnect := true |>).
    pose proof (Wm_send_messages c1 [T_DISC_RESP]) as H. destruct (send_messages c1 [T_DISC_RESP]) as [[c2 o] ex]. cbn [fst] in H.
    assert (H0 : Wm c c1) by (apply Wm_wv; reflexivity).
    destruct ex; cbn [fst]; [eapply Wm_trans; eassumption|].
    pose proof (Wm_cleanup c2) as H2. destruct (cleanup c2) as [c3 o3]. cbn [fst] in *.
    eapply Wm_trans; [exact H0|]. eapply Wm_trans; eassumption.
  - apply Wm_send_messages.
  - apply Wm_send_messages.
  - cbn [fst]. apply Wm_handle_call_message. exact U.
  - cbn [fst]. apply Wm_wv, wv_fold_actions.
Qed.
Lemma Wm_run_handlers hs m : forall c, uniq c -> Wm c (fst (fst (run_handlers c hs m))).
Proof.
  induction hs as [|h hs IHh]; intros c U; cbn [run_handlers fst]; [apply Wm_refl|].
  pose proof (Wm_call_handler c h m U) as H1. destruct (call_handler c h m) as [[c1 o1] ex]. cbn [fst] in H1.
  destruct ex; cbn [fst]; [exact H1|].
  specialize (IHh c1 (uniq_Wm _ _ H1 U)). destruct (run_handlers c1 hs m) as [[c2 o2] ex2]. cbn [fst] in *.
  eapply Wm_trans; eassumption.
Qed.
Lemma Wm_process_packet c m : uniq c -> Wm c (fst (fst (process_packet c m))).
Proof.
  intro U. unfold process_packet. destruct (cs c); try (cbn [fst]; apply Wm_refl).
  all: destruct (registered (m_ty m)); cbn [negb fst]; [|apply Wm_refl];
       (destruct (m_valid m); cbn [negb];
        [ match goal with |- context [run_handlers ?x ?hs ?mm] =>
            assert (H0 : Wm c x) by (apply Wm_wv; reflexivity);
            pose proof (Wm_run_handlers hs mm x (uniq_Wm _ _ H0 U)) as H; destruct (run_handlers x hs mm) as [[c2 o2] ex2] end;
          cbn [fst] in *; eapply Wm_trans; eassumption
        | pose proof (Wm_report_fatal c (Lib LProtocol)) as H; destruct (report_fatal c (Lib LProtocol)) as [c1 o];
          cbn [fst] in *; exact H ]).
Qed.
Lemma Wm_data_loop items : forall c, uniq c -> Wm c (fst (fst (data_loop c items))).
Proof.
  induction items as [|i items IHi]; intros c U; cbn [data_loop fst]; [apply Wm_refl|].
  destruct i as [m|req].
  - pose proof (Wm_process_packet c m U) as H1. destruct (process_packet c m) as [[c1 o1] ex]. cbn [fst] in H1.
    destruct ex; cbn [fst]; [exact H1|].
    specialize (IHi c1 (uniq_Wm _ _ H1 U)). destruct (data_loop c1 items) as [[c2 o2] ex2]. cbn [fst] in *.
    eapply Wm_trans; eassumption.
  - match goal with |- context [helper_error c ?e] =>
      pose proof (Wm_helper_error c e) as H; destruct (helper_error c e) as [c1 o1] end.
    cbn [fst] in *. exact H.
Qed.

(* ---------------------------------------------------------------- tasks *)
Lemma set_task_wfields c t k' : calls (set_task c t k') = calls c /\ waiters (set_task c t k') = waiters c.
Proof. destruct t; split; reflexivity. Qed.

Lemma PW_set_task c t k' : PW c -> exists_task c t ->
  (forall cid, awaited (pc k') = Some cid -> must_cancel k' = true -> exists kk, get_call c cid = Some kk /\ cfut_done (c_fut kk) = true) ->
  (pc k' = PNone -> must_cancel k' = false) ->
  PW (set_task c t k').
Proof.
  intros [B1 B2 B3] Hex Hk Hf. destruct (set_task_facts c t k' Hex) as (Hself & Hoth & _).
  destruct (set_task_wfields c t k') as [F1 F2].
  constructor.
  - intros k I P. rewrite F1 in I. rewrite F2. apply B1; assumption.
  - intros t' cid Ha Hm. unfold get_call. rewrite F1. destruct (tid_dec t' t) as [->|Hn].
    + rewrite Hself in Ha, Hm. apply Hk; assumption.
    + rewrite (Hoth t' Hn) in Ha, Hm. apply (B2 t' cid); assumption.
  - intros t' Hp. destruct (tid_dec t' t) as [->|Hn]; [rewrite Hself in *; auto|rewrite (Hoth t' Hn) in *; apply B3; exact Hp].
Qed.
(* the usual cases *)
Lemma PW_set_task_same c t k' : PW c -> exists_task c t -> pc k' = pc (get_task c t) -> must_cancel k' = must_cancel (get_task c t) ->
  PW (set_task c t k').
Proof.
  intros H Hex Hp Hm. apply PW_set_task; auto.
  - intros cid Ha Hc. apply (w_m _ H t cid); congruence.
  - intro Q. rewrite Hm. apply (w_f _ H). congruence.
Qed.
Lemma PW_set_task_quiet c t k' : PW c -> exists_task c t -> (awaited (pc k') = None \/ must_cancel k' = false) -> pc k' <> PNone ->
  PW (set_task c t k').
Proof.
  intros H Hex Hq Hn. apply PW_set_task; auto.
  - intros cid Ha Hc. destruct Hq; congruence.
  - intro Q. contradiction.
Qed.

Lemma PW_take_cancel c t : PW c -> exists_task c t -> PW (fst (take_cancel c t)).
Proof.
  intros H Hex. unfold take_cancel. destruct (must_cancel _) eqn:Em; cbn [fst]; [|exact H].
  apply PW_set_task; auto.
  - cbn. intros cid _ Q. discriminate.
Qed.
Lemma PW_timeout_exit c t e : PW c -> exists_task c t -> PW (fst (timeout_exit c t e)).
Proof.
  intros H Hex. unfold timeout_exit. destruct (expiring _); [|exact H].
  destruct e; cbn [fst]; try (apply PW_set_task_same; auto).
  destruct (Nat.eqb _ _); cbn [fst]; apply PW_set_task_same; auto.
Qed.
Lemma PW_interrupt_exit c t e : PW c -> exists_task c t -> PW (fst (interrupt_exit c t e)).
Proof.
  intros H Hex. unfold interrupt_exit. destruct (interrupted _); [|exact H].
  destruct e; cbn [fst]; try exact H.
  destruct (Nat.eqb _ _); cbn [fst]; apply PW_set_task_same; auto.
Qed.
Lemma PW_finish_task c t r : PW c -> exists_task c t -> PW (fst (finish_task c t r)).
Proof. intros H Hex. unfold finish_task. cbn [fst]. apply PW_set_task_quiet; [exact H|exact Hex|left; reflexivity|cbn; discriminate]. Qed.

Lemma cancel_awaited_wfields c t k :
  waiters (fst (cancel_awaited c t k)) = waiters c /\ Forall2 wrel (calls c) (calls (fst (cancel_awaited c t k))).
Proof.
  unfold cancel_awaited. destruct (pc k); try (split; [reflexivity|apply F2_refl_gen, wrel_refl]).
  1,2: destruct (cancel_efut (do_connect c)); split; [reflexivity|apply F2_refl_gen, wrel_refl].
  1: destruct (cancel_efut (made_waiter c)); split; [reflexivity|apply F2_refl_gen, wrel_refl].
  1: destruct (ready c); split; try reflexivity; apply F2_refl_gen, wrel_refl.
  2: destruct (disc_wait_done c); split; try reflexivity; apply F2_refl_gen, wrel_refl.
  all: destruct (get_call c cid) as [kk|]; [|split; [reflexivity|apply F2_refl_gen, wrel_refl]];
       destruct (c_fut kk); cbn [fst]; try (split; [reflexivity|apply F2_refl_gen, wrel_refl]);
       (split; [reflexivity|]); cbn; apply F2_map_gen; intro x; destruct (Nat.eqb _ _); [unfold wrel; cbn; auto|apply wrel_refl].
Qed.

(* a cancel that is not delivered found the awaited call future already done *)
Lemma cancel_awaited_undelivered c t k cid kk :
  awaited (pc k) = Some cid -> get_call c cid = Some kk -> snd (cancel_awaited c t k) = false ->
  cfut_done (c_fut kk) = true /\ fst (cancel_awaited c t k) = c.
Proof.
  unfold cancel_awaited. intros Ha G. destruct (pc k); try discriminate; cbn in Ha; injection Ha as ->; rewrite G;
    destruct (c_fut kk); cbn; intro Q; try discriminate; auto.
Qed.

Lemma PW_cancel_task c t : PW c -> CI c -> PW (cancel_task c t).
Proof.
  intros H HC. unfold cancel_task. destruct (negb (task_running (get_task c t))) eqn:Erun; [exact H|].
  assert (Hex : exists_task c t).
  { apply pc_exists_task. intro Hp. unfold task_running in Erun. rewrite Hp in Erun. discriminate. }
  set (k1 := get_task c t <| ncancel := S (ncancel (get_task c t)) |>).
  pose proof (cancel_awaited_tasks c t k1) as HT. destruct (cancel_awaited_wfields c t k1) as [HW HF].
  assert (H1 : Wm c (fst (cancel_awaited c t k1))).
  { constructor; [intro t'; rewrite HT; auto|exact HF|intros w Hw; left; rewrite HW; exact Hw]. }
  pose proof (PW_Wm _ _ H1 H) as H2.
  assert (Hex1 : exists_task (fst (cancel_awaited c t k1)) t).
  { apply pc_exists_task. rewrite HT. intro Hp. unfold task_running in Erun. rewrite Hp in Erun. discriminate. }
  assert (Hnn : pc (get_task c t) <> PNone) by (intro Hp; unfold task_running in Erun; rewrite Hp in Erun; discriminate).
  pose proof (fun cid kk => cancel_awaited_undelivered c t k1 cid kk) as HU.
  destruct (cancel_awaited c t k1) as [c1 d] eqn:Eca. cbn [fst snd] in *.
  destruct d.
  - (* delivered: the awaited thing was cancelled; the flag is raised only for the wait of disconnect() *)
    destruct (pc (get_task c t)) eqn:Ep.
    1: exfalso; apply Hnn; reflexivity.
    6: apply PW_set_task_quiet; [exact H2|exact Hex1|left; unfold k1; cbn; rewrite Ep; reflexivity|unfold k1; cbn; rewrite Ep; discriminate].
    all: apply PW_set_task_same; [exact H2|exact Hex1|rewrite (HT t); reflexivity|rewrite (HT t); reflexivity].
  - (* not delivered: what it awaits is already done *)
    apply PW_set_task; auto.
    + cbn. intros cid Ha _.
      assert (Hts : t <> TStart) by (intro Q; subst t; cbn [get_task] in Ha; rewrite (i_st _ _ HC) in Ha; discriminate).
      destruct (i_aw _ _ HC t cid Hts (fun F => F) Ha) as (kk & G & _).
      destruct (HU cid kk Ha G eq_refl) as [D E1]. subst c1. exists kk. auto.
    + cbn. intro Q. contradiction.
Qed.

(* ---------------------------------------------------------------- registering a call; its finally block *)
Lemma PW_call_begin c owner send types ap st tmo : PW c -> F1 c ->
  PW (fst (fst (fst (call_begin c owner send types ap st tmo)))) /\
  (forall t, pc (get_task (fst (fst (fst (call_begin c owner send types ap st tmo)))) t) = pc (get_task c t) /\
             must_cancel (get_task (fst (fst (fst (call_begin c owner send types ap st tmo)))) t) = must_cancel (get_task c t)).
Proof.
  intros H HF. unfold call_begin.
  pose proof (Wm_send_messages c send) as HM. pose proof (S1_send_messages c send) as HS.
  destruct (send_messages c send) as [[c1 o] ex]. cbn [fst] in HM, HS.
  destruct ex; cbn [fst]; [split; [eapply PW_Wm; eassumption|apply (wm_t _ _ HM)]|].
  pose proof (PW_Wm _ _ HM H) as [B1 B2 B3].
  match goal with |- context [fold_left ?f types ?x] => set (c2 := x); set (c3 := fold_left f types c2) end.
  pose proof (gv_fold_add types (HCall (next_cid c1)) c2) as K. fold c3 in K.
  assert (KT : forall t, get_task c3 t = get_task c1 t).
  { intro t. rewrite (get_task_gv c2 c3 t K). destruct t; reflexivity. }
  assert (KC : calls c3 = calls c1 ++ [mkCall (next_cid c1) types ap st [] CPending (Some (now c1 + tmo)) owner (now c1) tmo]).
  { unfold gv in K. injection K as _ _ _ _ _ _ _ _ _ _ K. rewrite K. reflexivity. }
  assert (KW : waiters c3 = waiters c1 ++ [next_cid c1]).
  { destruct (fold_add_keeps types (HCall (next_cid c1)) c2) as (_ & _ & K3 & _). fold c3 in K3. rewrite K3. reflexivity. }
  split.
  - constructor.
    + intros k I P. rewrite KC in I. rewrite KW. apply in_or_app. apply in_app_or in I. destruct I as [I|[<-|[]]]; [left; apply B1; assumption|right; left; reflexivity].
    + intros t cid Ha Hm. rewrite KT in Ha, Hm. destruct (B2 t cid Ha Hm) as (kk & G & D). exists kk. split; [|exact D].
      unfold get_call in *. rewrite KC. apply find_app_some. exact G.
    + intros t Hp. rewrite KT in *. apply B3. exact Hp.
  - intro t. rewrite KT. apply (wm_t _ _ HM).
Qed.

Lemma call_finally_parts c cid kk : get_call c cid = Some kk ->
  calls (call_finally c cid) = map (fun k => if Nat.eqb (c_id k) cid then k <| c_timer := None |> else k) (calls c) /\
  waiters (call_finally c cid) = filter (fun w => negb (Nat.eqb w cid)) (waiters c) /\
  (forall t, get_task (call_finally c cid) t = get_task c t).
Proof.
  intro G. unfold call_finally. rewrite G.
  match goal with |- context [fold_left ?f ?l ?x] => set (c2 := fold_left f l x) end.
  assert (K : gv c2 = gv (upd_call c cid (fun x => x <| c_timer := None |>))) by apply gv_fold_remove.
  assert (KW : waiters c2 = waiters c) by (unfold c2; rewrite waiters_fold_remove; reflexivity).
  assert (KT : forall t, get_task c2 t = get_task c t).
  { intro t. rewrite (get_task_gv _ c2 t K). destruct t; reflexivity. }
  unfold gv in K. injection K as _ _ _ _ _ _ _ _ _ _ K11.
  split; [|split].
  - cbn [calls set]. rewrite K11. reflexivity.
  - cbn [waiters set]. rewrite KW. reflexivity.
  - intro t. rewrite <- KT. destruct t; reflexivity.
Qed.

Lemma PW_call_finally c cid kk : PW c -> uniq c -> get_call c cid = Some kk -> cfut_done (c_fut kk) = true -> PW (call_finally c cid).
Proof.
  intros [B1 B2 B3] U G D. destruct (call_finally_parts c cid kk G) as (KC & KW & KT).
  destruct (get_call_in _ _ _ G) as [Ikk Ekk].
  constructor.
  - intros k' I' P'. rewrite KC in I'. apply in_map_iff in I'. destruct I' as (k & Ek & Ik).
    assert (Hf : c_fut k' = c_fut k /\ c_id k' = c_id k) by (subst k'; destruct (Nat.eqb (c_id k) cid); split; reflexivity).
    destruct Hf as [Hf Hi]. rewrite Hi. rewrite KW. apply filter_In. split; [apply B1; [exact Ik|congruence]|].
    apply negb_true_iff. apply Nat.eqb_neq. intro Q.
    assert (k = kk) by (apply (uniq_id (calls c)); [exact U|exact Ik|exact Ikk|congruence]). subst k.
    rewrite Hf in P'. rewrite P' in D. discriminate.
  - intros t cid' Ha Hm. rewrite KT in Ha, Hm. destruct (B2 t cid' Ha Hm) as (k & Gk & Dk).
    unfold get_call in *. rewrite KC. rewrite find_map_id by (intro x; destruct (Nat.eqb (c_id x) cid); reflexivity).
    rewrite Gk. cbn [option_map]. eexists. split; [reflexivity|]. destruct (Nat.eqb (c_id k) cid); exact Dk.
  - intros t Hp. rewrite KT in *. apply B3. exact Hp.
Qed.

(* ---------------------------------------------------------------- the coroutines *)
Lemma take_cancel_clears c t : exists_task c t -> must_cancel (get_task (fst (take_cancel c t)) t) = false.
Proof.
  intro Hex. unfold take_cancel. destruct (must_cancel (get_task c t)) eqn:Em; cbn [fst]; [|exact Em].
  destruct (set_task_facts c t (get_task c t <| must_cancel := false |>) Hex) as (Hself & _). rewrite Hself. reflexivity.
Qed.
Lemma take_cancel_pc c t : exists_task c t -> pc (get_task (fst (take_cancel c t)) t) = pc (get_task c t).
Proof.
  intro Hex. unfold take_cancel. destruct (must_cancel (get_task c t)) eqn:Em; cbn [fst]; [|reflexivity].
  destruct (set_task_facts c t (get_task c t <| must_cancel := false |>) Hex) as (Hself & _). rewrite Hself. reflexivity.
Qed.
Lemma PW_wv c c' : wv c' = wv c -> PW c -> PW c'.
Proof. intro E. apply PW_Wm, Wm_wv. exact E. Qed.
Lemma F1_wv c c' : wv c' = wv c -> next_cid c' = next_cid c -> F1 c -> F1 c'.
Proof. intros E N. unfold wv in E. injection E as _ _ _ _ E5 _. apply F1_Mx_gv; assumption. Qed.

Lemma PW_start_fail c e : PW c -> PW (fst (start_fail c e)).
Proof.
  intro H. unfold start_fail.
  pose proof (PW_interrupt_exit c TStart e H I) as H0. destruct (interrupt_exit c TStart e) as [c0 e1]. cbn [fst] in H0.
  match goal with |- context [cleanup ?x] => pose proof (Wm_cleanup x) as H1; assert (Hx : PW x) by (eapply PW_wv; [|exact H0]; reflexivity);
    destruct (cleanup x) as [c2 o] end.
  cbn [fst] in H1.
  match goal with |- context [finish_task ?x ?t ?r] =>
    assert (Hy : PW x) by (eapply PW_wv; [apply wv_set_start_future|]; eapply PW_Wm; eassumption);
    pose proof (PW_finish_task x t r Hy I) as H2; destruct (finish_task x t r) as [c4 o2] end.
  exact H2.
Qed.
Lemma PW_start_tcp_attempt c g : PW c -> PW (start_tcp_attempt c g).
Proof.
  intro H. unfold start_tcp_attempt. apply PW_set_task_quiet; [eapply PW_wv; [|exact H]; reflexivity|exact I|left; reflexivity|cbn; discriminate].
Qed.
Lemma PW_start_success c : PW c -> PW (fst (start_success c)).
Proof.
  intro H. unfold start_success.
  match goal with |- context [set_start_future ?x] => set (c2 := set_start_future x);
    assert (H2 : PW c2) by (unfold c2; eapply PW_wv; [apply wv_set_start_future|]; eapply PW_wv; [|exact H]; reflexivity) end.
  destruct (cs c2).
  5: { pose proof (Wm_cleanup c2) as H3. destruct (cleanup c2) as [c3 o]. cbn [fst] in H3.
       match goal with |- context [finish_task ?x ?t ?r] =>
         pose proof (PW_finish_task x t r (PW_Wm _ _ H3 H2) I) as H4; destruct (finish_task x t r) as [c4 o2] end. exact H4. }
  all: match goal with |- context [finish_task ?x ?t ?r] =>
         assert (Hs : PW x) by (eapply PW_wv; [|exact H2]; reflexivity);
         pose proof (PW_finish_task x t r Hs I) as H4; destruct (finish_task x t r) as [c4 o2] end; exact H4.
Qed.
Lemma PW_wake_start c c' o : wake_start c = Some (c', o) -> PW c -> PW c'.
Proof.
  unfold wake_start. intros E H.
  destruct (pc (get_task c TStart)); try discriminate.
  - destruct (_ || _); [|discriminate].
    pose proof (PW_take_cancel c TStart H I) as H1. destruct (take_cancel c TStart) as [c1 mc]. cbn [fst] in H1.
    match type of E with (match ?d with _ => _ end) = _ => destruct d as [|e] end.
    + apply some_pair_inv in E. destruct E as [<- _]. apply PW_start_tcp_attempt. eapply PW_wv; [|exact H1]. reflexivity.
    + match type of E with context [timeout_exit ?x ?t ?ee] =>
        assert (Hx : PW x) by (eapply PW_wv; [|exact H1]; reflexivity);
        pose proof (PW_timeout_exit x t ee Hx I) as H2; destruct (timeout_exit x t ee) as [c2 e1] end.
      cbn [fst] in H2. apply some_inj in E.
      match type of E with start_fail ?x ?ee = _ => pose proof (PW_start_fail x ee H2) as H3; rewrite E in H3 end. exact H3.
  - destruct (_ || _); [|discriminate].
    pose proof (PW_take_cancel c TStart H I) as H1. destruct (take_cancel c TStart) as [c1 mc]. cbn [fst] in H1.
    match type of E with (match ?d with _ => _ end) = _ => destruct d as [|e] end.
    + apply some_inj in E.
      match type of E with start_success ?x = _ =>
        assert (Hx : PW x) by (eapply PW_wv; [|exact H1]; reflexivity); pose proof (PW_start_success x Hx) as H3; rewrite E in H3 end. exact H3.
    + match type of E with context [timeout_exit ?x ?t ?ee] =>
        assert (Hx : PW x) by (eapply PW_wv; [|exact H1]; reflexivity);
        pose proof (PW_timeout_exit x t ee Hx I) as H2; destruct (timeout_exit x t ee) as [c2 e1] end.
      cbn [fst] in H2.
      destruct (is_oserror e1).
      * destruct groups as [|[|g']].
        1,2: apply some_inj in E; match type of E with start_fail ?x ?ee = _ => pose proof (PW_start_fail x ee H2) as H3; rewrite E in H3 end; exact H3.
        apply some_pair_inv in E. destruct E as [<- _]. apply PW_start_tcp_attempt. exact H2.
      * apply some_inj in E. match type of E with start_fail ?x ?ee = _ => pose proof (PW_start_fail x ee H2) as H3; rewrite E in H3 end. exact H3.
Qed.

Lemma PW_finish_fail c e : PW c -> PW (fst (finish_fail c e)).
Proof.
  intro H. unfold finish_fail.
  pose proof (PW_interrupt_exit c TFinish e H I) as H0. destruct (interrupt_exit c TFinish e) as [c0 e1]. cbn [fst] in H0.
  match goal with |- context [cleanup ?x] => pose proof (Wm_cleanup x) as H1; assert (Hx : PW x) by (eapply PW_wv; [|exact H0]; reflexivity);
    destruct (cleanup x) as [c2 o] end.
  cbn [fst] in H1.
  match goal with |- context [finish_task ?x ?t ?r] =>
    assert (Hy : PW x) by (eapply PW_wv; [apply wv_set_finish_future|]; eapply PW_Wm; eassumption);
    pose proof (PW_finish_task x t r Hy I) as H2; destruct (finish_task x t r) as [c4 o2] end.
  exact H2.
Qed.
Lemma PW_finish_success c : PW c -> PW (fst (finish_success c)).
Proof.
  intro H. unfold finish_success.
  match goal with |- context [set_finish_future ?x] => set (c2 := set_finish_future x);
    assert (H2 : PW c2) by (unfold c2; eapply PW_wv; [apply wv_set_finish_future|]; eapply PW_wv; [|exact H]; reflexivity) end.
  destruct (cs c2).
  5: { pose proof (Wm_cleanup c2) as H3. destruct (cleanup c2) as [c3 o]. cbn [fst] in H3.
       match goal with |- context [finish_task ?x ?t ?r] =>
         pose proof (PW_finish_task x t r (PW_Wm _ _ H3 H2) I) as H4; destruct (finish_task x t r) as [c4 o2] end. exact H4. }
  all: match goal with |- context [finish_task ?x ?t ?r] =>
         assert (Hs : PW x) by (eapply PW_wv; [|exact H2]; reflexivity);
         pose proof (PW_finish_task x t r Hs I) as H4; destruct (finish_task x t r) as [c4 o2] end; exact H4.
Qed.

Lemma PW_finish_after_ready c : PW c -> F1 c -> must_cancel (t_finish c) = false -> PW (fst (finish_after_ready c)).
Proof.
  intros H HF Hm. unfold finish_after_ready. set (c0 := c <| hs_timer := None |>).
  assert (H0 : PW c0) by (eapply PW_wv; [|exact H]; reflexivity).
  destruct (cs c0).
  5: { apply PW_finish_fail. exact H0. }
  all: match goal with |- context [call_begin ?x ?a ?b ?d ?e ?f ?g] =>
         assert (Hx : PW x) by
           (eapply PW_wv; [apply wv_internal_handlers|]; eapply (PW_wv (set_task c0 TFinish (get_task c0 TFinish <| pc := PF_Hello (next_cid c0) |>)));
            [reflexivity|]; apply PW_set_task_quiet; [exact H0|exact I|right; exact Hm|cbn; discriminate]);
         assert (HFx : F1 x) by (apply (F1_Mx_gv c); [rewrite (proj1 (internal_handlers_keeps _)); reflexivity
                                                      |rewrite (proj2 (internal_handlers_keeps _)); reflexivity|exact HF]);
         destruct (PW_call_begin x a b d e f g Hx HFx) as [HB _];
         destruct (call_begin x a b d e f g) as [[[c2 o] ex] cid] end;
       cbn [fst] in HB;
       (destruct ex as [e|]; [pose proof (PW_finish_fail c2 e HB) as HX; destruct (finish_fail c2 e) as [c3 o3]; exact HX|exact HB]).
Qed.

Ltac finP E L := apply some_inj in E; let H := fresh "HP" in pose proof L as H; rewrite E in H; cbn [fst] in H.

(* at a wake-up that is enabled the awaited call future is done: its own flag, or the pending-cancel flag (mc_done) *)
Lemma awaited_done c t cid kk : PW c -> awaited (pc (get_task c t)) = Some cid -> get_call c cid = Some kk ->
  must_cancel (get_task c t) || cfut_done (c_fut kk) = true -> cfut_done (c_fut kk) = true.
Proof.
  intros H Ha G Q. apply orb_true_iff in Q. destruct Q as [Q|Q]; [|exact Q].
  destruct (w_m _ H t cid Ha Q) as (k2 & G2 & D2). rewrite G in G2. apply some_inj in G2. subst k2. exact D2.
Qed.

Lemma PW_wake_finish c c' o : wake_finish c = Some (c', o) -> PW c -> CI c -> PW c'.
Proof.
  unfold wake_finish. cbn [get_task]. intros E H HC. pose proof (i_f1 _ _ HC) as HF.
  destruct (pc (t_finish c)) eqn:Epc; try discriminate.
  - (* PF_Create *)
    destruct (_ || _); [|discriminate].
    pose proof (PW_take_cancel c TFinish H I) as H1. pose proof (take_cancel_clears c TFinish I) as Hcl.
    destruct (take_cancel_keeps c TFinish) as [K1 K2].
    destruct (take_cancel c TFinish) as [c1 mc]. cbn [fst get_task] in H1, Hcl, K1, K2.
    match type of E with (match ?d with _ => _ end) = _ => destruct d as [|e] end.
    + match type of E with context [ready ?x] => set (c2 := x) in *; assert (H2 : PW c2) by (eapply PW_wv; [|exact H1]; reflexivity) end.
      destruct (ready c2).
      * apply some_pair_inv in E. destruct E as [<- _]. apply PW_set_task_quiet; [exact H2|exact I|left; reflexivity|cbn; discriminate].
      * finP E (PW_finish_after_ready c2 H2 (F1_Mx_gv c c2 K1 K2 HF) Hcl). exact HP.
      * match type of E with Some (finish_fail ?x ?ee) = _ => finP E (PW_finish_fail x ee H2) end. exact HP.
      * match type of E with Some (finish_fail ?x ?ee) = _ => finP E (PW_finish_fail x ee H2) end. exact HP.
    + match type of E with context [finish_fail ?x ?ee] =>
        assert (H2 : PW x) by (destruct (transport c1); first [exact H1|eapply PW_wv; [|exact H1]; reflexivity]);
        pose proof (PW_finish_fail x ee H2) as H3; destruct (finish_fail x ee) as [c3 o3] end.
      cbn [fst] in H3. apply some_pair_inv in E. destruct E as [<- _]. exact H3.
  - (* PF_Ready *)
    destruct (_ || _); [|discriminate].
    pose proof (PW_take_cancel c TFinish H I) as H1. pose proof (take_cancel_clears c TFinish I) as Hcl.
    destruct (take_cancel_keeps c TFinish) as [K1 K2].
    destruct (take_cancel c TFinish) as [c1 mc]. cbn [fst get_task] in H1, Hcl, K1, K2.
    destruct mc.
    + match type of E with Some (finish_fail ?x ?ee) = _ => finP E (PW_finish_fail x ee H1) end. exact HP.
    + destruct (ready c1).
      * match type of E with Some (finish_fail ?x ?ee) = _ => finP E (PW_finish_fail x ee H1) end. exact HP.
      * finP E (PW_finish_after_ready c1 H1 (F1_Mx_gv c c1 K1 K2 HF) Hcl). exact HP.
      * match type of E with Some (finish_fail ?x ?ee) = _ => finP E (PW_finish_fail x ee H1) end. exact HP.
      * match type of E with Some (finish_fail ?x ?ee) = _ => finP E (PW_finish_fail x ee H1) end. exact HP.
  - (* PF_Hello *)
    destruct (get_call c cid) as [kk|] eqn:Eg; [|discriminate].
    destruct (_ || _) eqn:Eguard; [|discriminate].
    assert (Hd : cfut_done (c_fut kk) = true) by (apply (awaited_done c TFinish cid kk H); [cbn [get_task]; rewrite Epc; reflexivity|exact Eg|exact Eguard]).
    pose proof (PW_take_cancel c TFinish H I) as H1. destruct (take_cancel_keeps c TFinish) as [K1 K2].
    destruct (take_cancel c TFinish) as [c1 mc]. cbn [fst] in H1, K1, K2.
    assert (G1 : get_call c1 cid = Some kk) by (unfold get_call in *; rewrite K1; exact Eg).
    assert (U1 : uniq c1) by (unfold uniq; rewrite K1; exact (f_uniq _ HF)).
    pose proof (PW_call_finally c1 cid kk H1 U1 G1 Hd) as H3.
    match type of E with (match ?d with _ => _ end) = _ => destruct d as [|e] end.
    + destruct (check_hello_login _ _).
      * match type of E with Some (finish_fail ?x ?ee) = _ => finP E (PW_finish_fail x ee H3) end. exact HP.
      * match type of E with Some (finish_success ?x) = _ => finP E (PW_finish_success x H3) end. exact HP.
    + match type of E with Some (finish_fail ?x ?ee) = _ => finP E (PW_finish_fail x ee H3) end. exact HP.
Qed.

Lemma PW_disconnect_after_wait c : PW c -> F1 c -> must_cancel (t_disc c) = false -> pc (t_disc c) <> PNone -> PW (fst (disconnect_after_wait c)).
Proof.
  intros H HF Hm Hn. unfold disconnect_after_wait. set (c1 := c <| expected_disconnect := true |>).
  assert (H0 : PW c1) by (eapply PW_wv; [|exact H]; reflexivity).
  assert (HF1 : F1 c1) by (apply (F1_Mx_gv c); [reflexivity|reflexivity|exact HF]).
  destruct (handshake_complete c1).
  - match goal with |- context [call_begin ?x ?a ?b ?d ?e ?f ?g] =>
      destruct (PW_call_begin x a b d e f g H0 HF1) as [HB HT]; destruct (call_begin x a b d e f g) as [[[c2 o] ex] cid] end.
    cbn [fst] in HB, HT.
    destruct ex as [[l| | | | |]|].
    2-6: match goal with |- context [finish_task ?x ?t ?r] => pose proof (PW_finish_task x t r HB I) as H4; destruct (finish_task x t r) as [c4 o4] end; exact H4.
    + pose proof (Wm_cleanup c2) as H3. destruct (cleanup c2) as [c3 o3]. cbn [fst] in H3.
      match goal with |- context [finish_task ?x ?t ?r] => pose proof (PW_finish_task x t r (PW_Wm _ _ H3 HB) I) as H4; destruct (finish_task x t r) as [c4 o4] end.
      exact H4.
    + cbn [fst]. destruct (HT TDisc) as [T1 T2]. cbn [get_task] in T1, T2.
      apply PW_set_task_quiet; [exact HB|exact I|right; cbn; rewrite T2; exact Hm|cbn; discriminate].
  - pose proof (Wm_cleanup c1) as H3. destruct (cleanup c1) as [c3 o3]. cbn [fst] in H3.
    match goal with |- context [finish_task ?x ?t ?r] => pose proof (PW_finish_task x t r (PW_Wm _ _ H3 H0) I) as H4; destruct (finish_task x t r) as [c4 o4] end.
    exact H4.
Qed.

Lemma PW_wake_disc c c' o : wake_disc c = Some (c', o) -> PW c -> CI c -> PW c'.
Proof.
  unfold wake_disc. cbn [get_task]. intros E H HC. pose proof (i_f1 _ _ HC) as HF.
  destruct (pc (t_disc c)) eqn:Epc; try discriminate.
  - destruct (_ || _); [|discriminate].
    pose proof (PW_take_cancel c TDisc H I) as H1. pose proof (take_cancel_clears c TDisc I) as Hcl.
    destruct (take_cancel_keeps c TDisc) as [K1 K2].
    assert (Kp : pc (get_task (fst (take_cancel c TDisc)) TDisc) = PD_Wait).
    { rewrite (take_cancel_pc c TDisc I). exact Epc. }
    destruct (take_cancel c TDisc) as [c1 mc]. cbn [fst get_task] in H1, Hcl, K1, K2, Kp.
    destruct mc.
    + apply some_inj in E.
      match type of E with finish_task ?x ?t ?r = _ =>
        assert (Hx : PW x) by (eapply PW_wv; [|exact H1]; reflexivity); pose proof (PW_finish_task x t r Hx I) as H4; rewrite E in H4 end.
      exact H4.
    + match type of E with Some (disconnect_after_wait ?x) = _ =>
        assert (H2 : PW x) by (repeat dm; (eapply PW_wv; [|exact H1]; reflexivity));
        assert (HFx : F1 x) by (apply (F1_Mx_gv c); [repeat dm; exact K1|repeat dm; exact K2|exact HF]);
        assert (Hm : must_cancel (t_disc x) = false) by (repeat dm; exact Hcl);
        assert (Hn : pc (t_disc x) <> PNone) by (repeat dm; (cbn; rewrite Kp; discriminate));
        finP E (PW_disconnect_after_wait x H2 HFx Hm Hn) end.
      exact HP.
  - destruct (get_call c cid) as [kk|] eqn:Eg; [|discriminate].
    destruct (_ || _) eqn:Eguard; [|discriminate].
    assert (Hd : cfut_done (c_fut kk) = true) by (apply (awaited_done c TDisc cid kk H); [cbn [get_task]; rewrite Epc; reflexivity|exact Eg|exact Eguard]).
    pose proof (PW_take_cancel c TDisc H I) as H1. destruct (take_cancel_keeps c TDisc) as [K1 K2].
    destruct (take_cancel c TDisc) as [c1 mc]. cbn [fst] in H1, K1, K2.
    assert (G1 : get_call c1 cid = Some kk) by (unfold get_call in *; rewrite K1; exact Eg).
    assert (U1 : uniq c1) by (unfold uniq; rewrite K1; exact (f_uniq _ HF)).
    pose proof (PW_call_finally c1 cid kk H1 U1 G1 Hd) as H3.
    match type of E with (match ?d with _ => _ end) = _ => destruct d as [|[l| | | | |]] end.
    3-7: apply some_inj in E; match type of E with finish_task ?x ?t ?r = _ => pose proof (PW_finish_task x t r H3 I) as H4; rewrite E in H4 end; exact H4.
    all: match type of E with context [cleanup ?x] => pose proof (Wm_cleanup x) as H4; destruct (cleanup x) as [c3 o3] end; cbn [fst] in H4;
         match type of E with context [finish_task ?x ?t ?r] => pose proof (PW_finish_task x t r (PW_Wm _ _ H4 H3) I) as H5; destruct (finish_task x t r) as [c4 o4] end;
         cbn [fst] in H5; apply some_pair_inv in E; destruct E as [<- _]; exact H5.
Qed.

Lemma PW_wake_call c cid c' o : wake_call c cid = Some (c', o) -> PW c -> CI c -> PW c'.
Proof.
  unfold wake_call. intros E H HC. pose proof (i_f1 _ _ HC) as HF.
  destruct (pc (get_task c (TCall cid))) eqn:Epc; try discriminate.
  destruct (get_call c cid) as [kk|] eqn:Eg; [|discriminate].
  destruct (_ || _) eqn:Eguard; [|discriminate].
  assert (Hex : exists_task c (TCall cid)) by (apply pc_exists_task; rewrite Epc; discriminate).
  assert (Hc : cid0 = cid).
  { destruct (i_aw _ _ HC (TCall cid) cid0 ltac:(discriminate) (fun F => F)) as (k2 & G2 & O2); [rewrite Epc; reflexivity|].
    destruct (get_call_in _ _ _ G2) as [I2 E2]. pose proof (i_own _ _ HC k2 cid I2 O2) as Hx. congruence. }
  subst cid0.
  assert (Hd : cfut_done (c_fut kk) = true) by (apply (awaited_done c (TCall cid) cid kk H); [rewrite Epc; reflexivity|exact Eg|exact Eguard]).
  pose proof (PW_take_cancel c (TCall cid) H Hex) as H1. destruct (take_cancel_keeps c (TCall cid)) as [K1 K2].
  assert (Hex2 : exists_task (call_finally (fst (take_cancel c (TCall cid))) cid) (TCall cid)).
  { eapply exists_task_keys; [|exact Hex]. rewrite call_tasks_call_finally. apply take_cancel_keys. }
  destruct (take_cancel c (TCall cid)) as [c1 mc]. cbn [fst] in *.
  assert (G1 : get_call c1 cid = Some kk) by (unfold get_call in *; rewrite K1; exact Eg).
  assert (U1 : uniq c1) by (unfold uniq; rewrite K1; exact (f_uniq _ HF)).
  pose proof (PW_call_finally c1 cid kk H1 U1 G1 Hd) as H3.
  apply some_inj in E. match type of E with finish_task ?x ?t ?r = _ => pose proof (PW_finish_task x t r H3 Hex2) as H4; rewrite E in H4 end. exact H4.
Qed.

(* ---------------------------------------------------------------- every step *)
Ltac sameW E H := apply some_pair_inv in E; destruct E as [<- _]; first [exact H | eapply PW_wv; [|exact H]; reflexivity].

Theorem step_PW c l c' o : CI c -> PW c -> step c l = Some (c', o) -> PW c'.
Proof.
  intros HC H E. pose proof (i_f1 _ _ HC) as HF. destruct l; cbn [step] in E.
  - (* LStart *) destruct (cs c); try sameW E H. destruct (pc (t_start c)); try discriminate.
    apply some_pair_inv in E. destruct E as [<- _].
    match goal with |- PW (?x <| t_start := ?k |>) => change (PW (set_task x TStart k)); apply PW_set_task_quiet;
      [eapply PW_wv; [|exact H]; reflexivity|exact I|left; reflexivity|cbn; discriminate] end.
  - (* LFinish *) destruct (cs c); try sameW E H. destruct (pc (t_finish c)); try discriminate.
    apply some_pair_inv in E. destruct E as [<- _].
    match goal with |- PW (?x <| t_finish := ?k |>) => change (PW (set_task x TFinish k)); apply PW_set_task_quiet;
      [eapply PW_wv; [|exact H]; reflexivity|exact I|left; reflexivity|cbn; discriminate] end.
  - (* LDisconnect *)
    destruct (pc (t_disc c)) eqn:Ep; try discriminate.
    assert (Hm : must_cancel (t_disc c) = false) by (apply (w_f _ H TDisc); exact Ep).
    destruct (finish_fut c).
    2: { apply some_pair_inv in E. destruct E as [<- _].
         match goal with |- PW (?x <| t_disc := ?k |>) => change (PW (set_task x TDisc k)); apply PW_set_task_quiet;
           [eapply PW_wv; [|exact H]; reflexivity|exact I|left; reflexivity|cbn; discriminate] end. }
    all: apply some_inj in E;
         match type of E with disconnect_after_wait (?x <| t_disc := ?k |>) = _ =>
           assert (H2 : PW (set_task x TDisc k)) by (apply PW_set_task_quiet; [exact H|exact I|left; reflexivity|cbn; discriminate]);
           assert (HFx : F1 (set_task x TDisc k)) by (apply (F1_Mx_gv c); [reflexivity|reflexivity|exact HF]);
           pose proof (PW_disconnect_after_wait (set_task x TDisc k) H2 HFx Hm ltac:(cbn; discriminate)) as H3 end;
         cbn [set_task] in H3; rewrite E in H3; exact H3.
  - (* LForce *)
    set (c1 := c <| expected_disconnect := true |>) in *.
    assert (H0 : PW c1) by (eapply PW_wv; [|exact H]; reflexivity).
    destruct (handshake_complete c1).
    + pose proof (Wm_send_messages c1 [T_DISC_REQ]) as S. destruct (send_messages c1 [T_DISC_REQ]) as [[c2 o2] ex]. cbn [fst] in S.
      pose proof (PW_Wm _ _ S H0) as H2.
      destruct ex as [[l| | | | |]|].
      2-6: apply some_pair_inv in E; destruct E as [<- _]; exact H2.
      all: pose proof (Wm_cleanup c2) as S2'; destruct (cleanup c2) as [c3 o3]; cbn [fst] in S2';
           apply some_pair_inv in E; destruct E as [<- _]; eapply PW_Wm; eassumption.
    + pose proof (Wm_cleanup c1) as S2'. destruct (cleanup c1) as [c3 o3]. cbn [fst] in S2'.
      apply some_pair_inv in E. destruct E as [<- _]. eapply PW_Wm; eassumption.
  - (* LCallStart *)
    set (cid := next_cid c) in *.
    match type of E with context [call_begin ?x ?a ?b ?d ?e ?f ?g] => set (c0 := x) in * end.
    assert (Hnone : find (fun q => Nat.eqb (fst q) cid) (call_tasks c) = None).
    { destruct (find _ (call_tasks c)) as [q|] eqn:Eq; [|reflexivity]. exfalso.
      pose proof (i_tlt _ _ HC) as L. apply find_some in Eq. destruct Eq as [Iq Eq]. apply Nat.eqb_eq in Eq. rewrite Forall_forall in L.
      destruct (L q Iq) as [L1|[]]. unfold cid in Eq. lia. }
    assert (Hself : get_task c0 (TCall cid) = task0 <| pc := PC_Wait cid |>).
    { unfold c0. cbn [get_task call_tasks set]. cbn. rewrite find_app_none by exact Hnone. cbn. rewrite Nat.eqb_refl. reflexivity. }
    assert (Hoth : forall t, t <> TCall cid -> get_task c0 t = get_task c t).
    { intros t Hn. destruct t; try reflexivity. unfold c0. cbn [get_task call_tasks set]. cbn.
      apply find_app_other. cbn. intro Q. apply Hn. rewrite Q. reflexivity. }
    assert (H0 : PW c0).
    { destruct H as [B1 B2 B3]. constructor.
      - exact B1.
      - intros t cid' Ha Hm. destruct (tid_dec t (TCall cid)) as [->|Hn]; [rewrite Hself in Hm; discriminate|].
        rewrite (Hoth t Hn) in Ha, Hm. apply (B2 t cid' Ha Hm).
      - intros t Hp. destruct (tid_dec t (TCall cid)) as [->|Hn]; [rewrite Hself; reflexivity|]. rewrite (Hoth t Hn) in *. apply B3. exact Hp. }
    assert (HF0 : F1 c0) by (apply (F1_Mx_gv c); [reflexivity|reflexivity|exact HF]).
    match type of E with context [call_begin ?x ?a ?b ?d ?e ?f ?g] =>
      destruct (PW_call_begin x a b d e f g H0 HF0) as [HB HT]; destruct (call_begin x a b d e f g) as [[[c1 o1] ex] cid'] end.
    cbn [fst] in HB, HT.
    destruct ex as [e|]; apply some_pair_inv in E; destruct E as [<- _]; [|exact HB].
    cbn [finish_task fst].
    assert (Hex : exists_task (c1 <| next_cid := S cid |>) (TCall cid)).
    { apply pc_exists_task. change (get_task (c1 <| next_cid := S cid |>) (TCall cid)) with (get_task c1 (TCall cid)).
      destruct (HT (TCall cid)) as [T1 _]. rewrite T1, Hself. discriminate. }
    apply PW_set_task_quiet; [eapply PW_wv; [|exact HB]; reflexivity|exact Hex|left; reflexivity|cbn; discriminate].
  - (* LSend *)
    pose proof (Wm_send_messages c tys) as S. destruct (send_messages c tys) as [[c1 o1] ex]. cbn [fst] in S.
    apply some_pair_inv in E. destruct E as [<- _]. eapply PW_Wm; eassumption.
  - (* LCancel *)
    destruct (task_running _) eqn:Er; [|sameW E H].
    apply some_pair_inv in E. destruct E as [<- _].
    assert (Hex : exists_task c t) by (apply pc_exists_task; intro Hp; unfold task_running in Er; rewrite Hp in Er; discriminate).
    assert (H1 : PW (set_task c t (get_task c t <| user_cancelled := true |>))) by (apply PW_set_task_same; auto).
    apply PW_cancel_task; [exact H1|].
    apply CI_mark_cancelled; assumption.
  - (* LSub *) apply some_pair_inv in E. destruct E as [<- _]. eapply PW_wv; [apply wv_add|exact H].
  - (* LUnsub *) sameW E H.
  - (* LResolveDone *) destruct (pc (t_start c)); try discriminate. destruct (do_connect c); try discriminate. sameW E H.
  - (* LTcpDone *) destruct (pc (t_start c)); try discriminate. destruct (do_connect c); try discriminate. sameW E H.
  - (* LMade *) destruct (transport c); try discriminate. destruct (made c); try discriminate. destruct (noise c); sameW E H.
  - (* LMadeWaiter *) destruct (made_waiter c); try discriminate; sameW E H.
  - (* LHelperReady *)
    destruct (ready c); try discriminate. destruct (made c); try discriminate. destruct (transport c) eqn:Etr; try discriminate.
    destruct r as [e|]; [|sameW E H].
    pose proof (Wm_helper_error c e) as S. destruct (helper_error c e) as [c1 o1]. cbn [fst] in S.
    pose proof (PW_Wm _ _ S H) as H1.
    destruct (transport c1); apply some_pair_inv in E; destruct E as [<- _]; first [exact H1 | eapply PW_wv; [|exact H1]; reflexivity].
  - (* LData *)
    destruct (transport c); try discriminate. destruct (made c); try discriminate.
    pose proof (Wm_data_loop items c (f_uniq _ HF)) as S.
    destruct (data_loop c items) as [[c1 o1] ex]. cbn [fst] in S. pose proof (PW_Wm _ _ S H) as H1.
    destruct ex as [e|]; apply some_pair_inv in E; destruct E as [<- _]; [|exact H1].
    destruct (transport c1); first [exact H1 | eapply PW_wv; [|exact H1]; reflexivity].
  - (* LEof *)
    destruct (transport c); try discriminate. destruct (made c); try discriminate.
    pose proof (Wm_helper_error c (Lib LSocketClosed)) as S.
    destruct (helper_error c (Lib LSocketClosed)) as [c1 o1]. cbn [fst] in S. pose proof (PW_Wm _ _ S H) as H1.
    destruct (transport c1); apply some_pair_inv in E; destruct E as [<- _]; first [exact H1 | eapply PW_wv; [|exact H1]; reflexivity].
  - (* LLost *) destruct (transport c); try discriminate. sameW E H.
  - (* LWriteFails *) sameW E H.
  - (* LAdvance *) destruct (_ && _); [|discriminate]. sameW E H.
  - (* LWake *)
    destruct t.
    + eapply PW_wake_start; eassumption.
    + eapply PW_wake_finish; eassumption.
    + eapply PW_wake_disc; eassumption.
    + eapply PW_wake_call; eassumption.
  - (* LIntr *)
    destruct is_start.
    + destruct (start_fut c); try discriminate. destruct (intr_start c); try discriminate; [|sameW E H].
      apply some_pair_inv in E. destruct E as [<- _].
      match goal with |- PW (cancel_task ?x TStart) =>
        assert (H1 : PW x) by (change x with (set_task (c <| intr_start := IFired |>) TStart (t_start c <| interrupted := true |>));
                               apply PW_set_task_same; [eapply PW_wv; [|exact H]; reflexivity|exact I|reflexivity|reflexivity]);
        apply PW_cancel_task; [exact H1|] end.
      eapply CI_S2; [|exact HC]. s2f TStart; left; reflexivity.
    + destruct (finish_fut c); try discriminate. destruct (intr_finish c); try discriminate; [|sameW E H].
      apply some_pair_inv in E. destruct E as [<- _].
      match goal with |- PW (cancel_task ?x TFinish) =>
        assert (H1 : PW x) by (change x with (set_task (c <| intr_finish := IFired |>) TFinish (t_finish c <| interrupted := true |>));
                               apply PW_set_task_same; [eapply PW_wv; [|exact H]; reflexivity|exact I|reflexivity|reflexivity]);
        apply PW_cancel_task; [exact H1|] end.
      eapply CI_S2; [|exact HC]. s2f TFinish; left; reflexivity.
  - (* LDiscWaitDone *)
    destruct (pc (t_disc c)); try discriminate.
    destruct (finish_fut c); try discriminate; destruct (disc_wait_done c); try discriminate; sameW E H.
  - (* LConnLostCb *)
    destruct (transport c); try discriminate.
    match type of E with context [made ?x] => set (c1 := x) in *; assert (H0 : PW c1) by (eapply PW_wv; [|exact H]; reflexivity) end.
    destruct (made c1); [|sameW E H].
    apply some_inj in E. match type of E with helper_error c1 ?x = _ => pose proof (Wm_helper_error c1 x) as S end.
    rewrite E in S. cbn [fst] in S. eapply PW_Wm; eassumption.
  - (* LTimer *)
    destruct k.
    + destruct (due _ _); [|discriminate].
      set (c0 := c <| ping_timer := None |>) in *. assert (H0 : PW c0) by (eapply PW_wv; [|exact H]; reflexivity).
      destruct (send_pending_ping c0); [|sameW E H].
      pose proof (Wm_send_messages c0 [T_PING_REQ]) as S. destruct (send_messages c0 [T_PING_REQ]) as [[c1 o1] ex]. cbn [fst] in S.
      pose proof (PW_Wm _ _ S H0) as H1.
      destruct ex as [e|]; apply some_pair_inv in E; destruct E as [<- _]; [exact H1|].
      eapply PW_wv; [|exact H1]. destruct (pong_timer c1); reflexivity.
    + destruct (due _ _); [|discriminate]. apply some_inj in E.
      pose proof (Wm_report_fatal c (Lib LPingFailed)) as S. rewrite E in S. eapply PW_Wm; eassumption.
    + destruct (due _ _); [|discriminate]. destruct (ready c); sameW E H.
    + destruct (due _ _); [|discriminate].
      apply some_pair_inv in E. destruct E as [<- _].
      match goal with |- PW (cancel_task ?x TStart) =>
        assert (H1 : PW x) by (change x with (set_task (c <| conn_timer := None |>) TStart (t_start c <| expiring := true |>));
                               apply PW_set_task_same; [eapply PW_wv; [|exact H]; reflexivity|exact I|reflexivity|reflexivity]);
        apply PW_cancel_task; [exact H1|] end.
      eapply CI_S2; [|exact HC]. s2f TStart; left; reflexivity.
    + destruct (get_call c cid) as [kk|]; [|discriminate]. destruct (due _ _); [|discriminate].
      apply some_pair_inv in E. destruct E as [<- _]. eapply PW_Wm; [|exact H]. apply Wm_upd_call. intro x. unfold wrel.
      destruct (c_fut x) eqn:Ef; cbn; rewrite ?Ef; auto.
    + destruct (pc (t_disc c)); try discriminate. destruct (due _ _); [|discriminate]. sameW E H.
Qed.

(* ---------------------------------------------------------------- all runs *)
Lemma PW_init n e ka scr : PW (init n e ka scr).
Proof.
  constructor.
  - intros k [].
  - intros t cid Ha. destruct t; cbn in Ha; discriminate.
  - intros t _. destruct t; reflexivity.
Qed.
Lemma run_PW ls : forall c c' os, CI c -> PW c -> run c ls = Some (c', os) -> CI c' /\ PW c'.
Proof.
  induction ls as [|l ls IH]; intros c c' os HC H E; cbn [run] in E.
  - apply some_pair_inv in E. destruct E as [<- _]. split; assumption.
  - destruct (step c l) as [[c1 o]|] eqn:Es; [|discriminate].
    destruct (run c1 ls) as [[c2 os2]|] eqn:Er; [|discriminate].
    apply some_pair_inv in E. destruct E as [<- _].
    destruct (step_cancel c l c1 o HC Es) as [HC1 _]. exact (IH c1 c2 os2 HC1 (step_PW c l c1 o HC H Es) Er).
Qed.

(* a pending request/response future is always registered as a waiter ... *)
Theorem pending_call_is_waiter n e ka scr ls c os k :
  run (init n e ka scr) ls = Some (c, os) -> In k (calls c) -> c_fut k = CPending -> In (c_id k) (waiters c).
Proof. intros E. destruct (run_PW ls _ _ _ (CI_init n e ka scr) (PW_init n e ka scr) E) as [_ H]. apply (w_p _ H). Qed.

(* ... so that a closed connection has no pending call future left *)
Theorem closed_no_pending_call n e ka scr ls c os k :
  run (init n e ka scr) ls = Some (c, os) -> cs c = Closed -> In k (calls c) -> c_fut k <> CPending.
Proof.
  intros E Hc I P. pose proof (pending_call_is_waiter n e ka scr ls c os k E I P) as Hw.
  assert (Hr : reachable c) by (exists n, e, ka, scr, ls, os; exact E).
  destruct (closed_released c Hr Hc) as (_ & _ & W & _). rewrite W in Hw. destruct Hw.
Qed.

(* and every coroutine that awaits a call on a closed connection can be resumed at once *)
Theorem closed_call_task_resumes n e ka scr ls c os t cid :
  run (init n e ka scr) ls = Some (c, os) -> cs c = Closed -> awaited (pc (get_task c t)) = Some cid ->
  ready_now c t /\ step c (LWake t) <> None.
Proof.
  intros E Hc Ha. destruct (run_GA ls _ _ _ (CI_init n e ka scr) (GA_init n e ka scr) E) as [HC HG].
  assert (Hts : t <> TStart) by (intro Q; subst t; cbn [get_task] in Ha; rewrite (i_st _ _ HC) in Ha; discriminate).
  destruct (i_aw _ _ HC t cid Hts (fun F => F) Ha) as (kk & G & _).
  destruct (get_call_in _ _ _ G) as [Ik _].
  pose proof (closed_no_pending_call n e ka scr ls c os kk E Hc Ik) as Hn.
  assert (Hd : cfut_done (c_fut kk) = true) by (destruct (c_fut kk); try reflexivity; exfalso; apply Hn; reflexivity).
  assert (Hr : ready_now c t).
  { unfold ready_now. right. destruct (pc (get_task c t)); cbn in Ha; try discriminate; injection Ha as ->; exists kk; split; assumption. }
  split; [exact Hr|]. apply ready_can_wake; try assumption.
  unfold task_running. destruct (pc (get_task c t)); cbn in Ha; try discriminate; reflexivity.
Qed.
