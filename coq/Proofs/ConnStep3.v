(* Every label of Model/Conn.v preserves the invariant; lifted to whole runs. *)
From Coq Require Import NArith ZArith List Bool Lia Relations.
From RecordUpdate Require Import RecordSet.
From Verif Require Import Generated.GenConstants Model.Conn Proofs.ConnCore Proofs.ConnSync Proofs.ConnStep Proofs.ConnStep2.
Import ListNotations RecordSetNotations.
Open Scope Z_scope.
Open Scope list_scope.

Ltac dmh E :=
  match type of E with
  | context [match ?x with _ => _ end] =>
    lazymatch x with
    | context [match _ with _ => _ end] => fail
    | _ => destruct x eqn:?
    end
  end.

Ltac same_core E := apply some_pair_fst in E; subst; apply StepOK_core_eq; reflexivity.

Definition with_timers (k : core) (pi po : option Z) : core :=
  mkCore (k_cs k) (k_conn k) (k_hs k) (k_armed k) (k_stops k) (k_ever k) pi po (k_waiters k)
         (k_socket k) (k_helper k) (k_ps k) (k_pf k) (k_pd k) (k_expected k).
Lemma InvK_with_timers k pi po :
  InvK k -> (k_cs k = Closed -> pi = None /\ po = None) -> InvK (with_timers k pi po).
Proof.
  destruct k as [s cn hs ar st ev pi0 po0 w so he ps pf pd ex]. unfold with_timers, InvK, flagsK, JK, StopK, ClosedK. cbn.
  intros (F & J & S & C) Hn. repeat split; try tauto.
  all: intro Hc; specialize (C Hc); specialize (Hn Hc); tauto.
Qed.

Lemma StepOK_trans_same c c1 c' : core_of c1 = core_of c -> StepOK c1 c' -> StepOK c c'.
Proof.
  intros E K H. destruct (K (Inv_core_eq _ _ E H)) as [A B]. split; [exact A|].
  replace (cs c) with (cs c1) by (change (k_cs (core_of c1) = k_cs (core_of c)); rewrite E; reflexivity). exact B.
Qed.

Lemma hs_not_closed c : Inv c -> handshake_complete c = true -> cs c <> Closed.
Proof.
  intros (F & _) Hh Hc. destruct F as [_ F2]. cbn in F2. rewrite Hc in F2. congruence.
Qed.

Lemma step_ok c l c' o : step c l = Some (c', o) -> StepOK c c'.
Proof.
  destruct l; cbn [step]; intro E.
  - (* LStart *)
    destruct (cs c) eqn:Ecs; try (same_core E).
    destruct (pc (t_start c)) eqn:Ep; try discriminate.
    apply some_pair_fst in E; subst c'. cbn [fst]. intro H. split; [|left; reflexivity].
    unfold Inv. change (InvK (with_pcs (core_of c) PS_Resolve (pc (t_finish c)) (pc (t_disc c)))).
    pose proof H as (F & [J1 J2] & S & C). apply InvK_with_pcs; auto; cbn; auto.
    intro Hc. cbn in Hc. congruence.
  - (* LFinish *)
    destruct (cs c) eqn:Ecs; try (same_core E).
    destruct (pc (t_finish c)) eqn:Ep; try discriminate.
    apply some_pair_fst in E; subst c'. cbn [fst]. intro H. split; [|left; reflexivity].
    unfold Inv. change (InvK (with_pcs (core_of c) (pc (t_start c)) PF_Create (pc (t_disc c)))).
    pose proof H as (F & [J1 J2] & S & C). apply InvK_with_pcs; auto; cbn; auto.
    intro Hc. cbn in Hc. congruence.
  - (* LDisconnect *)
    destruct (pc (t_disc c)) eqn:Ep; try discriminate.
    assert (P : forall x, core_of x = core_of c -> forall k, Inv c -> Inv (x <| t_disc := k |>)).
    { intros x Ex k H. unfold Inv. change (InvK (with_pcs (core_of x) (k_ps (core_of x)) (k_pf (core_of x)) (pc k))).
      apply InvK_set_pd. rewrite Ex. exact H. }
    destruct (finish_fut c).
    2: { apply some_pair_fst in E; subst c'. cbn [fst]. intro H. split; [|left; reflexivity].
         apply (P (c <| disc_timer := Some (now c + DISCONNECT_CONNECT_TIMEOUT) |> <| disc_wait_done := false |>)); [reflexivity|exact H]. }
    all: apply some_pair_fst in E; subst c'; intro H;
         set (cp := c <| t_disc := (t_disc c) <| pc := PD_Wait |> |>);
         assert (Hp : Inv cp) by (apply (P c); [reflexivity|exact H]);
         destruct (disconnect_after_wait_ok cp cp (R_refl _) Hp) as [A B]; (split; [exact A|exact B]).
  - (* LForce *)
    set (c1 := c <| expected_disconnect := true |>) in *.
    assert (HR1 : R (core_of c) (core_of c1)) by (apply R_mv; apply (MvExpected (core_of c))).
    destruct (handshake_complete c1).
    + pose proof (R_send_messages c1 [T_DISC_REQ]) as HR2. destruct (send_messages c1 [T_DISC_REQ]) as [[c2 o2] ex]. cbn [fst] in HR2.
      destruct ex as [[l| | | | |]|].
      1,7: pose proof (R_cleanup c2) as HR3; destruct (cleanup c2) as [c3 o3]; cbn [fst] in HR3;
           apply some_pair_fst in E; subst c'; cbn [fst]; apply StepOK_R; eapply R_trans; [exact HR1|eapply R_trans; eassumption].
      all: apply some_pair_fst in E; subst c'; cbn [fst]; apply StepOK_R; eapply R_trans; eassumption.
    + pose proof (R_cleanup c1) as HR3. destruct (cleanup c1) as [c3 o3]. cbn [fst] in HR3.
      apply some_pair_fst in E; subst c'; cbn [fst]. apply StepOK_R. eapply R_trans; eassumption.
  - (* LCallStart *)
    set (c0 := c <| call_tasks := call_tasks c ++ [(next_cid c, task0 <| pc := PC_Wait (next_cid c) |>)] |>) in *.
    match type of E with context [call_begin c0 ?a ?b ?d ?e ?f ?g] =>
      pose proof (R_call_begin c0 a b d e f g) as HR; destruct (call_begin c0 a b d e f g) as [[[c1 o1] ex] cid'] end.
    cbn [fst] in HR. change (core_of c0) with (core_of c) in HR.
    destruct ex.
    + match type of E with context [finish_task ?x ?t ?r] => pose proof (R_then_finish c x t r) as K; destruct (finish_task x t r) as [c3 o3] end.
      apply some_pair_fst in E; subst c'; cbn [fst] in *. apply K; [discriminate|exact HR].
    + apply some_pair_fst in E; subst c'; cbn [fst]. apply StepOK_R. exact HR.
  - (* LSend *)
    pose proof (R_send_messages c tys) as HR. destruct (send_messages c tys) as [[c1 o1] ex]. cbn [fst] in HR.
    apply some_pair_fst in E; subst c'; cbn [fst]. apply StepOK_R. exact HR.
  - (* LCancel *)
    destruct (task_running (get_task c t)); [|same_core E].
    apply some_pair_fst in E; subst c'; cbn [fst]. apply StepOK_core_eq. rewrite core_cancel_task.
    apply pc_set_task_same. reflexivity.
  - (* LSub *) apply some_pair_fst in E; subst c'; cbn [fst]. apply StepOK_core_eq. apply core_add_handler.
  - (* LUnsub *) same_core E.
  - (* LResolveDone *) repeat dmh E; try discriminate; same_core E.
  - (* LTcpDone *) repeat dmh E; try discriminate; same_core E.
  - (* LMade *) repeat dmh E; try discriminate; same_core E.
  - (* LMadeWaiter *) repeat dmh E; try discriminate; same_core E.
  - (* LHelperReady *)
    destruct (ready c); try discriminate. destruct (made c); try discriminate. destruct (transport c) eqn:Et; try discriminate.
    destruct r as [e|]; [|same_core E].
    pose proof (R_helper_error c e) as HR. destruct (helper_error c e) as [c1 o1]. cbn [fst] in HR.
    destruct (transport c1); apply some_pair_fst in E; subst c'; cbn [fst]; apply StepOK_R; exact HR.
  - (* LData *)
    destruct (transport c); try discriminate. destruct (made c); try discriminate.
    pose proof (R_data_loop items c) as HR. destruct (data_loop c items) as [[c1 o1] ex]. cbn [fst] in HR.
    destruct ex; [destruct (transport c1)|]; apply some_pair_fst in E; subst c'; cbn [fst]; apply StepOK_R; exact HR.
  - (* LEof *)
    destruct (transport c); try discriminate. destruct (made c); try discriminate.
    pose proof (R_helper_error c (Lib LSocketClosed)) as HR. destruct (helper_error c (Lib LSocketClosed)) as [c1 o1]. cbn [fst] in HR.
    destruct (transport c1); apply some_pair_fst in E; subst c'; cbn [fst]; apply StepOK_R; exact HR.
  - (* LLost *) repeat dmh E; try discriminate; same_core E.
  - (* LWriteFails *) same_core E.
  - (* LAdvance *) repeat dmh E; try discriminate; same_core E.
  - (* LWake *)
    destruct t; [eapply wake_start_ok|eapply wake_finish_ok|eapply wake_disc_ok|eapply wake_call_ok]; exact E.
  - (* LIntr *)
    destruct is_start.
    + destruct (start_fut c); try discriminate. destruct (intr_start c); try discriminate; [|same_core E].
      apply some_pair_fst in E; subst c'; cbn [fst]. apply StepOK_core_eq. rewrite core_cancel_task. reflexivity.
    + destruct (finish_fut c); try discriminate. destruct (intr_finish c); try discriminate; [|same_core E].
      apply some_pair_fst in E; subst c'; cbn [fst]. apply StepOK_core_eq. rewrite core_cancel_task. reflexivity.
  - (* LDiscWaitDone *) repeat dmh E; try discriminate; same_core E.
  - (* LConnLostCb *)
    destruct (transport c) as [| |e|]; try discriminate.
    set (c1 := c <| transport := TLost |>) in *. destruct (made c1); [|same_core E].
    match type of E with context [helper_error c1 ?x] => pose proof (R_helper_error c1 x) as HR end.
    apply some_pair_fst in E; subst c'. apply StepOK_R. exact HR.
  - (* LTimer *)
    destruct k.
    + (* ping *)
      destruct (due (ping_timer c) c) eqn:Edue; [|discriminate].
      set (c0 := c <| ping_timer := None |>) in *.
      assert (S0 : forall x, StepOK c0 x -> StepOK c x).
      { intros x K H. assert (H0 : Inv c0).
        { unfold Inv. change (InvK (with_timers (core_of c) None (k_pong (core_of c)))). apply InvK_with_timers; [exact H|].
          intro Hc. destruct H as (_ & _ & _ & C). specialize (C Hc). tauto. }
        exact (K H0). }
      assert (SK : forall x y pi po, Inv x -> cs x <> Closed -> core_of y = with_timers (core_of x) pi po ->
                   Inv y /\ trans_ok (cs x) (cs y)).
      { intros x y pi po Hx Hn Ey. split.
        - unfold Inv. rewrite Ey. apply InvK_with_timers; [exact Hx|]. intro Hc. contradiction.
        - left. change (k_cs (core_of y) = k_cs (core_of x)). rewrite Ey. reflexivity. }
      destruct (send_pending_ping c0) eqn:Epp.
      * pose proof (send_messages_spec c0 [T_PING_REQ]) as HS. destruct (send_messages c0 [T_PING_REQ]) as [[c1 o1] ex].
        destruct HS as [HR HN]. destruct ex.
        -- apply some_pair_fst in E; subst c'; cbn [fst]. apply S0. apply StepOK_R. exact HR.
        -- destruct (HN eq_refl) as [-> Hh]. apply S0. intro H0.
           pose proof (hs_not_closed c0 H0 Hh) as Hn.
           destruct (pong_timer c0) eqn:Epo; apply some_pair_fst in E; subst c'; cbn [fst].
           ++ eapply SK; [exact H0|exact Hn|reflexivity].
           ++ eapply SK; [exact H0|exact Hn|reflexivity].
      * apply some_pair_fst in E; subst c'; cbn [fst]. intro H.
        assert (Hn : cs c <> Closed).
        { intro Hc. destruct H as (_ & _ & _ & C). specialize (C Hc). cbn in C. destruct C as (C1 & _).
          unfold due in Edue. rewrite C1 in Edue. discriminate. }
        split; [|left; reflexivity]. unfold Inv.
        change (InvK (with_timers (core_of c) (Some (now c + keepalive c)) (k_pong (core_of c)))).
        apply InvK_with_timers; [exact H|]. intro Hc. contradiction.
    + (* pong *)
      destruct (due (pong_timer c) c); [|discriminate].
      pose proof (R_report_fatal c (Lib LPingFailed)) as HR. apply some_pair_fst in E; subst c'. apply StepOK_R. exact HR.
    + destruct (due (hs_timer c) c); [|discriminate]. destruct (ready c); same_core E.
    + destruct (due (conn_timer c) c); [|discriminate].
      apply some_pair_fst in E; subst c'; cbn [fst]. apply StepOK_core_eq. rewrite core_cancel_task. reflexivity.
    + destruct (get_call c cid); [|discriminate]. destruct (due (c_timer c0) c); [|discriminate]. same_core E.
    + destruct (pc (t_disc c)); try discriminate. destruct (due (disc_timer c) c); [|discriminate]. same_core E.
Qed.
