From Coq Require Import NArith ZArith String List Bool Lia.
From Verif Require Import Model.Schema.
Import ListNotations.
Open Scope string_scope.

(* ---- generic reflection lemmas ------------------------------------------------------ *)
Lemma list_eqb_eq {A} (eqb : A -> A -> bool) :
  (forall x y, eqb x y = true <-> x = y) -> forall a b, list_eqb eqb a b = true <-> a = b.
Proof.
  intros H a. induction a as [|x a IH]; intros [|y b]; cbn; split; intro E;
    try reflexivity; try discriminate.
  - apply andb_true_iff in E. destruct E as [E1 E2]. apply H in E1. apply IH in E2. congruence.
  - injection E as -> ->. apply andb_true_iff. split; [apply H; reflexivity|apply IH; reflexivity].
Qed.

Lemma memb_In {A} (eqb : A -> A -> bool) :
  (forall x y, eqb x y = true <-> x = y) -> forall x l, memb eqb x l = true <-> In x l.
Proof.
  intros H x l. unfold memb. rewrite existsb_exists. split.
  - intros (y & Hy & E). apply H in E. subst. assumption.
  - intro Hin. exists x. split; [assumption|apply H; reflexivity].
Qed.

Lemma nodupb_NoDup {A} (eqb : A -> A -> bool) :
  (forall x y, eqb x y = true <-> x = y) -> forall l, nodupb eqb l = true -> NoDup l.
Proof.
  intros H l. induction l as [|x l IH]; cbn; intro E; [constructor|].
  apply andb_true_iff in E. destruct E as [E1 E2]. constructor; [|apply IH; assumption].
  intro Hin. apply (memb_In eqb H) in Hin. rewrite Hin in E1. discriminate.
Qed.

Lemma field_eqb_eq a b : field_eqb a b = true <-> a = b.
Proof.
  destruct a, b. unfold field_eqb. cbn. rewrite !andb_true_iff, !String.eqb_eq, N.eqb_eq, Bool.eqb_true_iff.
  split; [intros [[[-> ->] ->] ->]; reflexivity|intro E; injection E as -> -> -> ->; auto].
Qed.
Lemma msg_eqb_eq a b : msg_eqb a b = true <-> a = b.
Proof.
  destruct a, b. unfold msg_eqb. cbn.
  rewrite !andb_true_iff, String.eqb_eq, !N.eqb_eq, (list_eqb_eq _ field_eqb_eq).
  split; [intros [[[-> ->] ->] ->]; reflexivity|intro E; injection E as -> -> -> ->; auto].
Qed.
Lemma sz_eqb_eq a b : sz_eqb a b = true <-> a = b.
Proof.
  destruct a, b. unfold sz_eqb. cbn. rewrite andb_true_iff, String.eqb_eq, Z.eqb_eq.
  split; [intros [-> ->]; reflexivity|intro E; injection E as -> ->; auto].
Qed.
Lemma enum_eqb_eq a b : enum_eqb a b = true <-> a = b.
Proof.
  destruct a, b. unfold enum_eqb. cbn. rewrite andb_true_iff, String.eqb_eq, (list_eqb_eq _ sz_eqb_eq).
  split; [intros [-> ->]; reflexivity|intro E; injection E as -> ->; auto].
Qed.
Lemma ns_eqb_eq a b : ns_eqb a b = true <-> a = b.
Proof.
  destruct a, b. unfold ns_eqb. cbn. rewrite andb_true_iff, String.eqb_eq, N.eqb_eq.
  split; [intros [-> ->]; reflexivity|intro E; injection E as -> ->; auto].
Qed.
Lemma string_eqb_iff (x y : string) : String.eqb x y = true <-> x = y.
Proof. apply String.eqb_eq. Qed.
Lemma N_eqb_iff (x y : N) : N.eqb x y = true <-> x = y.
Proof. apply N.eqb_eq. Qed.

(* ---- C13 (1): the registry is exactly the set of id options ------------------------- *)
Lemma In_proto_ids msgs id name :
  In (id, name) (proto_ids msgs) <-> exists m, In m msgs /\ m_name m = name /\ m_id m = id /\ id <> 0%N.
Proof.
  unfold proto_ids. rewrite in_map_iff. split.
  - intros (m & E & Hin). apply filter_In in Hin. destruct Hin as [Hin Hnz].
    injection E as <- <-. exists m. repeat split; try assumption.
    apply negb_true_iff, N.eqb_neq in Hnz. assumption.
  - intros (m & Hin & <- & <- & Hnz). exists m. split; [reflexivity|].
    apply filter_In. split; [assumption|]. apply negb_true_iff, N.eqb_neq. assumption.
Qed.

Theorem check_registry_is_proto_sound registry msgs :
  check_registry_is_proto registry msgs = true ->
  forall id name, In (id, name) registry <->
    exists m, In m msgs /\ m_name m = name /\ m_id m = id /\ id <> 0%N.
Proof.
  unfold check_registry_is_proto. intro E. apply andb_true_iff in E. destruct E as [E1 E2].
  rewrite forallb_forall in E1, E2. intros id name. rewrite <- In_proto_ids. split; intro H.
  - apply (memb_In _ ns_eqb_eq). apply E1. assumption.
  - apply (memb_In _ ns_eqb_eq). apply E2. assumption.
Qed.

(* ---- C13 (2): ids are 1..n in table order, positional lookup is right ---------------- *)
Lemma N_seq_nth len : forall start k, (k < len)%nat ->
  nth_error (N_seq start len) k = Some (start + N.of_nat k)%N.
Proof.
  induction len as [|len IH]; intros start k Hk; [lia|].
  destruct k as [|k]; cbn [N_seq nth_error].
  - f_equal. lia.
  - rewrite IH by lia. f_equal. lia.
Qed.

Lemma N_seq_In len : forall start x, In x (N_seq start len) -> (start <= x < start + N.of_nat len)%N.
Proof.
  induction len as [|len IH]; intros start x H; cbn in H; [contradiction|].
  destruct H as [<-|H]; [lia|]. apply IH in H. lia.
Qed.

Lemma N_seq_NoDup len : forall start, NoDup (N_seq start len).
Proof.
  induction len as [|len IH]; intro start; cbn; constructor; [|apply IH].
  intro H. apply N_seq_In in H. lia.
Qed.

Theorem check_contiguous_sound registry :
  check_contiguous registry = true ->
  NoDup (map fst registry) /\ NoDup (map snd registry) /\
  (forall id name, In (id, name) registry -> (1 <= id <= N.of_nat (length registry))%N) /\
  (forall id, (1 <= id <= N.of_nat (length registry))%N ->
     exists name, nth_error registry (N.to_nat id - 1) = Some (id, name)).
Proof.
  unfold check_contiguous. intro E. apply andb_true_iff in E. destruct E as [E1 E2].
  apply (list_eqb_eq _ N_eqb_iff) in E1. apply (nodupb_NoDup _ string_eqb_iff) in E2.
  split; [rewrite E1; apply N_seq_NoDup|]. split; [assumption|]. split.
  - intros id name Hin. apply (in_map fst) in Hin. cbn in Hin. rewrite E1 in Hin.
    apply N_seq_In in Hin. lia.
  - intros id Hid.
    assert (Hk : (N.to_nat id - 1 < length registry)%nat) by lia.
    destruct (nth_error registry (N.to_nat id - 1)) as [[i name]|] eqn:En.
    + exists name. f_equal. f_equal.
      assert (H : nth_error (map fst registry) (N.to_nat id - 1) = Some i)
        by (rewrite nth_error_map, En; reflexivity).
      rewrite E1, N_seq_nth in H by assumption. assert (Hi : i = (1 + N.of_nat (N.to_nat id - 1))%N) by congruence. lia.
    + apply nth_error_None in En. lia.
Qed.

(* ---- C13 (3): compiled descriptors = .proto text -------------------------------------- *)
Theorem check_descriptors_sound dm pm de pe :
  check_descriptors dm pm de pe = true -> dm = pm /\ de = pe.
Proof.
  unfold check_descriptors. intro E. apply andb_true_iff in E. destruct E as [E1 E2].
  split; [apply (list_eqb_eq _ msg_eqb_eq); assumption|apply (list_eqb_eq _ enum_eqb_eq); assumption].
Qed.

(* ---- C13 (4): direction ---------------------------------------------------------------- *)
Lemma find_msg_Some msgs c m : find_msg msgs c = Some m -> In m msgs /\ m_name m = c.
Proof.
  unfold find_msg. intro E. apply find_some in E. destruct E as [Hin E].
  apply String.eqb_eq in E. split; assumption.
Qed.

Theorem check_direction_sound msgs api :
  check_direction msgs api = true ->
  NoDup (map m_name msgs) /\
  forall ep sent subs, In (ep, sent, subs) api ->
    (forall c, In c sent -> exists m, In m msgs /\ m_name m = c /\ m_source m <> SRC_SERVER) /\
    (forall c, In c subs -> exists m, In m msgs /\ m_name m = c /\ m_source m <> SRC_CLIENT).
Proof.
  unfold check_direction. intro E. apply andb_true_iff in E. destruct E as [E0 E].
  split; [apply (nodupb_NoDup _ string_eqb_iff); assumption|].
  rewrite forallb_forall in E. intros ep sent subs Hin. specialize (E _ Hin). cbn in E.
  apply andb_true_iff in E. destruct E as [E1 E2]. rewrite forallb_forall in E1, E2. split.
  - intros c Hc. specialize (E1 _ Hc). unfold src_ok_sent in E1.
    destruct (find_msg msgs c) as [m|] eqn:Ef; [|discriminate].
    apply find_msg_Some in Ef. destruct Ef as [Hm <-]. exists m. repeat split; try assumption.
    apply negb_true_iff, N.eqb_neq in E1. assumption.
  - intros c Hc. specialize (E2 _ Hc). unfold src_ok_subscribed in E2.
    destruct (find_msg msgs c) as [m|] eqn:Ef; [|discriminate].
    apply find_msg_Some in Ef. destruct Ef as [Hm <-]. exists m. repeat split; try assumption.
    apply negb_true_iff, N.eqb_neq in E2. assumption.
Qed.
