(* C19, at the level of runs: whenever no session is alive and no connect phase is in progress, the client holds no connection
   (so the next start_connection is accepted) - for every sequence of client calls and connection events. *)
From Coq Require Import NArith ZArith List Bool Lia.
From RecordUpdate Require Import RecordSet.
From Verif Require Import Generated.GenConstants Model.Conn Model.Client Proofs.ConnCore Proofs.ConnSync Proofs.ConnStep Proofs.ConnStep3 Proofs.ConnRun Proofs.ConnWedge.
Import ListNotations RecordSetNotations.
Open Scope Z_scope.
Open Scope list_scope.

Lemma Clr_clears o : Clr o -> clears o = true.
Proof.
  unfold clears. intro H. apply existsb_exists.
  destruct H as [[b H]|[[e H]|[[e H]|H]]]; eexists; (split; [exact H|reflexivity]).
Qed.

(* the client's invariant: its connection object is well formed, and while the client refers to it, it is open or one of its
   connect phases is still in flight *)
Definition W' (k : client) : Prop := cl_has k = true -> cs (cl_conn k) <> Closed \/ SF (cl_conn k) = true.
Definition CI (k : client) : Prop := WI (cl_conn k) /\ W' k.

Lemma WI_init nz ex ka scr t wf : WI ((init nz ex ka scr) <| now := t |> <| write_fails := wf |>).
Proof.
  split; [|split; [|split]].
  - eapply Inv_core_eq; [|apply (Inv_init nz ex ka scr)]. reflexivity.
  - left. reflexivity.
  - intros [Q|Q]; exfalso; apply Q; reflexivity.
  - intro Q. discriminate Q.
Qed.

Lemma CI_init nz ex ka scr : CI (client_init nz ex ka scr).
Proof.
  split.
  - unfold client_init. cbn [cl_conn]. split; [apply Inv_init|]. split; [left; reflexivity|]. split; [intros [Q|Q]; exfalso; apply Q; reflexivity|intro Q; discriminate Q].
  - intro H. discriminate H.
Qed.

(* one connection step under the client: the reference is cleared, or the connection is still open / in progress *)
Lemma after_W' k c' o l : WI (cl_conn k) -> W' k -> step (cl_conn k) l = Some (c', o) -> l <> LForce ->
  WI c' /\ (cl_has k = true -> clears o = false -> cs c' <> Closed \/ SF c' = true).
Proof.
  intros W Hw E Hl. destruct (step_W (cl_conn k) l c' o W E Hl) as [W1 N]. split; [exact W1|].
  intros Hh Hc. destruct (cs c') eqn:Ecs; try (left; discriminate).
  right. destruct (N Ecs (Hw Hh)) as [Q|Q]; [exact Q|].
  apply Clr_clears in Q. congruence.
Qed.

Lemma step_WI_force c c' o : WI c -> step c LForce = Some (c', o) -> WI c'.
Proof.
  intros W E. pose proof W as (I & _). destruct (step_ok c LForce c' o E I) as [I' _].
  cbn [step] in E. set (c1 := c <| expected_disconnect := true |>) in *.
  assert (H0 : Mv c c1 []) by (apply S_wv; reflexivity).
  destruct (handshake_complete c1).
  - pose proof (S_send_messages c1 [T_DISC_REQ]) as HS. destruct (send_messages c1 [T_DISC_REQ]) as [[c2 o2] ex]. cbn [fst snd] in HS.
    pose proof (S_cleanup c2) as HC.
    destruct ex as [[l| | | | |]|]; try (destruct (cleanup c2) as [c3 o3]; cbn [fst snd] in HC);
      apply some_pair_inv in E; destruct E as [<- <-].
    + exact (S_WI c c3 _ W I' (S_trans _ _ _ _ _ (S_trans _ _ _ _ _ H0 HS) HC)).
    + exact (S_WI c c2 _ W I' (S_trans _ _ _ _ _ H0 HS)).
    + exact (S_WI c c2 _ W I' (S_trans _ _ _ _ _ H0 HS)).
    + exact (S_WI c c2 _ W I' (S_trans _ _ _ _ _ H0 HS)).
    + exact (S_WI c c2 _ W I' (S_trans _ _ _ _ _ H0 HS)).
    + exact (S_WI c c2 _ W I' (S_trans _ _ _ _ _ H0 HS)).
    + exact (S_WI c c3 _ W I' (S_trans _ _ _ _ _ (S_trans _ _ _ _ _ H0 HS) HC)).
  - pose proof (S_cleanup c1) as HC. destruct (cleanup c1) as [c3 o3]. cbn [fst snd] in HC.
    apply some_pair_inv in E. destruct E as [<- <-]. exact (S_WI c c3 _ W I' (S_trans _ _ _ _ _ H0 HC)).
Qed.

Lemma CI_after k c' o : WI c' -> (cl_has k = true -> clears o = false -> cs c' <> Closed \/ SF c' = true) -> CI (fst (after k c' o)).
Proof.
  intros W1 H. unfold after. cbn [fst]. split; [exact W1|]. unfold W'. cbn [cl_has cl_conn set].
  destruct (clears o) eqn:Ec; [intro Q; discriminate Q|]. intro Hh. apply H; [exact Hh|reflexivity].
Qed.

Lemma fst_of_eq {A B} (p : A * B) a b : p = (a, b) -> fst p = a.
Proof. intros ->. reflexivity. Qed.

Theorem cstep_CI k l k' o : CI k -> cstep k l = Some (k', o) -> CI k'.
Proof.
  intros [W Hw] E. destruct l; cbn [cstep] in E.
  - (* start_connection *)
    destruct (cl_has k) eqn:Eh.
    + apply some_pair_inv in E. destruct E as [<- _]. split; assumption.
    + set (c0 := new_conn k (now (cl_conn k))) in *.
      assert (W0 : WI c0) by (unfold c0, new_conn; destruct (cl_cfg k) as [[[nz ex] ka] scr]; apply WI_init).
      assert (Hinit : cs c0 = Init) by (unfold c0, new_conn; destruct (cl_cfg k) as [[[nz ex] ka] scr]; reflexivity).
      destruct (step c0 LStart) as [[c1 o1]|] eqn:Es; [|discriminate].
      apply some_pair_inv in E. destruct E as [<- _].
      destruct (step_W c0 LStart c1 o1 W0 Es ltac:(discriminate)) as [W1 N].
      apply CI_after; [exact W1|]. intros _ Hc. destruct (cs c1) eqn:Ecs; try (left; discriminate).
      assert (Hn0 : cs c0 <> Closed) by (rewrite Hinit; discriminate).
      right. destruct (N Ecs (or_introl Hn0)) as [Q|Q]; [exact Q|apply Clr_clears in Q; congruence].
  - (* finish_connection *)
    destruct (cl_has k) eqn:Eh; [|discriminate].
    destruct (step (cl_conn k) (LFinish lg)) as [[c1 o1]|] eqn:Es; [|discriminate].
    apply some_inj in E.
    destruct (after_W' k c1 o1 (LFinish lg) W Hw Es ltac:(discriminate)) as [W1 H1].
    destruct (existsb (fun x => match x with ORaise _ => true | _ => false end) o1).
    + rewrite <- (fst_of_eq _ _ _ E). apply CI_after; [exact W1|]. cbn [cl_has set]. intro Q. discriminate Q.
    + rewrite <- (fst_of_eq _ _ _ E). apply CI_after; [exact W1|exact H1].
  - (* disconnect *)
    destruct (cl_has k) eqn:Eh.
    + destruct force.
      * destruct (step (cl_conn k) LForce) as [[c1 o1]|] eqn:Es; [|discriminate].
        apply some_pair_inv in E. destruct E as [<- _].
        split; [exact (step_WI_force _ _ _ W Es)|]. intro Q. discriminate Q.
      * destruct (step (cl_conn k) LDisconnect) as [[c1 o1]|] eqn:Es; [|discriminate].
        apply some_inj in E. rewrite <- (fst_of_eq _ _ _ E).
        destruct (after_W' k c1 o1 LDisconnect W Hw Es ltac:(discriminate)) as [W1 H1]. apply CI_after; assumption.
    + apply some_pair_inv in E. destruct E as [<- _]. split; assumption.
  - (* a command *)
    destruct (cl_has k) eqn:Eh.
    + destruct (is_connected (cl_conn k)).
      * destruct (step (cl_conn k) (LSend tys)) as [[c1 o1]|] eqn:Es; [|discriminate].
        apply some_inj in E. rewrite <- (fst_of_eq _ _ _ E).
        destruct (after_W' k c1 o1 (LSend tys) W Hw Es ltac:(discriminate)) as [W1 H1]. apply CI_after; assumption.
      * apply some_pair_inv in E. destruct E as [<- _]. split; assumption.
    + apply some_pair_inv in E. destruct E as [<- _]. split; assumption.
  - (* a request *)
    destruct (cl_has k) eqn:Eh.
    + destruct (is_connected (cl_conn k)).
      * match type of E with context [step (cl_conn k) ?l] => destruct (step (cl_conn k) l) as [[c1 o1]|] eqn:Es; [|discriminate];
          apply some_inj in E; rewrite <- (fst_of_eq _ _ _ E);
          destruct (after_W' k c1 o1 l W Hw Es ltac:(discriminate)) as [W1 H1] end.
        apply CI_after; assumption.
      * apply some_pair_inv in E. destruct E as [<- _]. split; assumption.
    + apply some_pair_inv in E. destruct E as [<- _]. split; assumption.
  - (* a callback of the connection / an environment event *)
    destruct (allowed_conn_label l) eqn:Ea; [|discriminate].
    destruct (step (cl_conn k) l) as [[c1 o1]|] eqn:Es; [|discriminate].
    apply some_inj in E. rewrite <- (fst_of_eq _ _ _ E).
    assert (Hl : l <> LForce) by (intro Q; subst l; discriminate Ea).
    destruct (after_W' k c1 o1 l W Hw Es Hl) as [W1 H1]. apply CI_after; assumption.
Qed.

Theorem crun_CI ls : forall k k' os, CI k -> crun k ls = Some (k', os) -> CI k'.
Proof.
  induction ls as [|l ls IH]; intros k k' os H E; cbn [crun] in E.
  - apply some_pair_inv in E. destruct E as [<- _]. exact H.
  - destruct (cstep k l) as [[k1 o1]|] eqn:Es; [|discriminate].
    destruct (crun k1 ls) as [[k2 os2]|] eqn:Er; [|discriminate].
    apply some_pair_inv in E. destruct E as [<- _]. eapply IH; [|exact Er]. eapply cstep_CI; eassumption.
Qed.

(* never wedged: in every state the client can reach, if its connection is closed and neither connect phase is in flight, the
   client refers to no connection - and start_connection is then accepted *)
Theorem never_wedged nz ex ka scr ls k os :
  crun (client_init nz ex ka scr) ls = Some (k, os) ->
  cs (cl_conn k) = Closed -> SF (cl_conn k) = false -> cl_has k = false.
Proof.
  intros E Hc Hs. destruct (crun_CI ls _ _ _ (CI_init nz ex ka scr) E) as [_ Hw].
  destruct (cl_has k) eqn:Eh; [|reflexivity]. destruct (Hw Eh) as [Q|Q]; congruence.
Qed.
