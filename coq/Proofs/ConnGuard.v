(* For C09 (bounded time): no await is unguarded.  In every reachable state each coroutine of the connection that is suspended
   either can be resumed right now, or waits under an armed timer - which time cannot pass (advance_respects_deadlines) and
   whose firing makes it resumable.  GA is the invariant, M the relation "nothing a waiting task relies on was taken away"
   that every synchronous function of the model satisfies. *)
From Coq Require Import NArith ZArith List Bool Lia PeanoNat.
From RecordUpdate Require Import RecordSet.
From Verif Require Import Generated.GenConstants Model.Conn Proofs.ConnCalls Proofs.ConnErrors Proofs.ConnReason Proofs.ConnOutcome Proofs.ConnCancel.
Import ListNotations RecordSetNotations.
Open Scope Z_scope.
Open Scope list_scope.

Definition call_guard (c : conn) (k : task) (cid : nat) : Prop :=
  exists kk, get_call c cid = Some kk /\ (c_timer kk <> None \/ cfut_done (c_fut kk) = true \/ must_cancel k = true).

(* the guard of task t; a program point that does not belong to t's coroutine is excluded (False) *)
Definition tguard (c : conn) (t : tid) : Prop :=
  let k := get_task c t in
  match t, pc k with
  | _, PNone | _, PDone _ => True
  | TStart, PS_Resolve | TStart, PS_Tcp _ => conn_timer c <> None \/ must_cancel k = true \/ do_connect c <> EPending
  | TFinish, PF_Create => True          (* connection_made is scheduled by the transport itself: LMadeWaiter is enabled *)
  | TFinish, PF_Ready => hs_timer c <> None \/ must_cancel k = true \/ ready c <> RPending
  | TFinish, PF_Hello cid | TDisc, PD_Resp cid | TCall _, PC_Wait cid => call_guard c k cid
  | TDisc, PD_Wait => disc_timer c <> None \/ must_cancel k = true \/ disc_wait_done c = true
  | _, _ => False
  end.
Definition GA (c : conn) : Prop := forall t, tguard c t.

Definition tmono (k k' : task) : Prop := pc k' = pc k /\ (must_cancel k = true -> must_cancel k' = true).
Definition crel (k k' : call) : Prop :=
  c_id k' = c_id k /\ c_owner k' = c_owner k /\ (c_timer k' = c_timer k \/ cfut_done (c_fut k') = true) /\
  (cfut_done (c_fut k) = true -> cfut_done (c_fut k') = true).

Record M (c c' : conn) : Prop := {
  m_t : forall t, tmono (get_task c t) (get_task c' t);
  m_conn : conn_timer c' = conn_timer c;
  m_hs : hs_timer c' = hs_timer c;
  m_disc : disc_timer c' = disc_timer c;
  m_dw : disc_wait_done c = true -> disc_wait_done c' = true;
  m_dc : do_connect c <> EPending -> do_connect c' <> EPending;
  m_rd : ready c <> RPending -> ready c' <> RPending;
  m_calls : Forall2 crel (calls c) (calls c') }.

(* skip: the task that takes its own step right now; what only that task relies on may change *)
Definition crelx (skip : tid -> Prop) (k k' : call) : Prop :=
  c_owner k' = c_owner k /\ (skip (c_owner k) \/ crel k k').
Record Mx (skip : tid -> Prop) (c c' : conn) : Prop := {
  x_t : forall t, ~ skip t -> tmono (get_task c t) (get_task c' t);
  x_s : ~ skip TStart -> conn_timer c' = conn_timer c /\ (do_connect c <> EPending -> do_connect c' <> EPending);
  x_f : ~ skip TFinish -> hs_timer c' = hs_timer c /\ (ready c <> RPending -> ready c' <> RPending);
  x_d : ~ skip TDisc -> disc_timer c' = disc_timer c /\ (disc_wait_done c = true -> disc_wait_done c' = true);
  x_calls : forall cid k, get_call c cid = Some k -> exists k', get_call c' cid = Some k' /\ crelx skip k k' }.

Lemma tmono_refl k : tmono k k.
Proof. split; auto. Qed.
Lemma tmono_trans a b c : tmono a b -> tmono b c -> tmono a c.
Proof. intros [A1 A2] [B1 B2]. split; [congruence|auto]. Qed.
Lemma crel_refl k : crel k k.
Proof. unfold crel. auto. Qed.
Lemma crel_trans a b c : crel a b -> crel b c -> crel a c.
Proof.
  intros (A1 & A0 & A2 & A3) (B1 & B0 & B2 & B3). split; [congruence|]. split; [congruence|]. split; [|auto].
  destruct B2 as [B2|B2]; [|right; exact B2]. destruct A2 as [A2|A2]; [left; congruence|right; auto].
Qed.
Lemma F2_refl_gen {A} (R : A -> A -> Prop) (Hr : forall x, R x x) l : Forall2 R l l.
Proof. induction l; constructor; auto. Qed.
Lemma F2_trans_gen {A} (R : A -> A -> Prop) (Ht : forall x y z, R x y -> R y z -> R x z) a : forall b c,
  Forall2 R a b -> Forall2 R b c -> Forall2 R a c.
Proof.
  induction a as [|x a IH]; intros b c H1 H2; inversion H1; subst; inversion H2; subst; constructor; eauto.
Qed.
Lemma F2_map_gen {A} (R : A -> A -> Prop) l g : (forall k, R k (g k)) -> Forall2 R l (map g l).
Proof. intro H. induction l; cbn; constructor; auto. Qed.

Lemma M_refl c : M c c.
Proof. constructor; auto using tmono_refl. apply F2_refl_gen, crel_refl. Qed.
Lemma M_trans a b c : M a b -> M b c -> M a c.
Proof.
  intros [A1 A5 A6 A7 A8 A9 A10 A11] [B1 B5 B6 B7 B8 B9 B10 B11].
  constructor; try congruence; eauto.
  - intros t. eapply tmono_trans; eauto.
  - eapply F2_trans_gen; [exact crel_trans|eassumption|eassumption].
Qed.

(* the view: a function that leaves it alone satisfies M *)
Definition gv (c : conn) := (t_start c, t_finish c, t_disc c, call_tasks c, conn_timer c, hs_timer c, disc_timer c,
                             disc_wait_done c, do_connect c, ready c, calls c).
Lemma get_task_gv c c' t : gv c' = gv c -> get_task c' t = get_task c t.
Proof.
  unfold gv. intro E. injection E as E1 E2 E3 E4 _ _ _ _ _ _ _. destruct t; cbn [get_task]; try assumption. rewrite E4. reflexivity.
Qed.
Lemma M_gv c c' : gv c' = gv c -> M c c'.
Proof.
  intro E. pose proof (fun t => get_task_gv c c' t E) as HT. unfold gv in E. injection E as _ _ _ _ E5 E6 E7 E8 E9 E10 E11.
  constructor; try congruence.
  - intros t. rewrite HT. apply tmono_refl.
  - rewrite E11. apply F2_refl_gen, crel_refl.
Qed.

(* M carries the guards *)
Lemma crel_find l l' cid : Forall2 crel l l' ->
  match find (fun k => Nat.eqb (c_id k) cid) l, find (fun k => Nat.eqb (c_id k) cid) l' with
  | Some k, Some k' => crel k k'
  | None, None => True
  | _, _ => False
  end.
Proof.
  induction 1 as [|x y l l' Hxy _ IH]; cbn; [exact I|].
  destruct Hxy as (E & Hr). rewrite E. destruct (Nat.eqb (c_id x) cid); [split; assumption|exact IH].
Qed.

Lemma M_Mx skip c c' : M c c' -> Mx skip c c'.
Proof.
  intros [A1 A5 A6 A7 A8 A9 A10 A11]. constructor; auto.
  intros cid k G. pose proof (crel_find _ _ cid A11) as F. unfold get_call in *. rewrite G in F.
  destruct (find _ (calls c')) as [k'|]; [|contradiction]. exists k'. split; [reflexivity|].
  split; [apply F|right; exact F].
Qed.
Lemma Mx_refl skip c : Mx skip c c.
Proof. apply M_Mx, M_refl. Qed.
Lemma Mx_trans skip a b c : Mx skip a b -> Mx skip b c -> Mx skip a c.
Proof.
  intros [A1 A2 A3 A4 A5] [B1 B2 B3 B4 B5]. constructor.
  - intros t Hs. eapply tmono_trans; eauto.
  - intro Hs. destruct (A2 Hs) as [X1 X2]. destruct (B2 Hs) as [Y1 Y2]. split; [congruence|auto].
  - intro Hs. destruct (A3 Hs) as [X1 X2]. destruct (B3 Hs) as [Y1 Y2]. split; [congruence|auto].
  - intro Hs. destruct (A4 Hs) as [X1 X2]. destruct (B4 Hs) as [Y1 Y2]. split; [congruence|auto].
  - intros cid k G. destruct (A5 cid k G) as (k1 & G1 & O1 & R1). destruct (B5 cid k1 G1) as (k2 & G2 & O2 & R2).
    exists k2. split; [exact G2|]. split; [congruence|].
    destruct R1 as [R1|R1]; [left; exact R1|]. destruct R2 as [R2|R2]; [left; rewrite <- O1; exact R2|].
    right. eapply crel_trans; eassumption.
Qed.

(* the guard of a task other than the stepping one survives; a task awaiting a call owns it (CI) *)
Lemma tguard_Mx skip c c' t : Mx skip c c' -> CI c -> ~ skip t -> tguard c t -> tguard c' t.
Proof.
  intros HM HC Hs G. pose proof HM as [A1 A2 A3 A4 A5]. destruct (A1 t Hs) as [Ep Em]. unfold tguard in *. rewrite Ep.
  assert (CG : forall cid, awaited (pc (get_task c t)) = Some cid -> call_guard c (get_task c t) cid -> call_guard c' (get_task c' t) cid).
  { intros cid Ha (kk & Gk & Hk).
    assert (Ho : c_owner kk = t).
    { destruct (tid_dec t TStart) as [->|Hn]; [cbn [get_task] in Ha; rewrite (i_st _ _ HC) in Ha; discriminate|].
      destruct (i_aw _ _ HC t cid Hn (fun F => F) Ha) as (k2 & G2 & O2). rewrite Gk in G2. apply some_inj in G2. subst k2. exact O2. }
    destruct (A5 cid kk Gk) as (kk' & Gk' & _ & [R|R]); [rewrite Ho in R; contradiction|].
    exists kk'. split; [exact Gk'|]. destruct R as (_ & _ & F2 & F3). destruct Hk as [Hk|[Hk|Hk]].
    - destruct F2 as [F2|F2]; [left; congruence|right; left; exact F2].
    - right. left. auto.
    - right. right. auto. }
  destruct t; destruct (pc (get_task c _)) eqn:Epc; try exact I; try contradiction; try (apply CG; [reflexivity|exact G]).
  - destruct (A2 Hs) as [X1 X2]. rewrite X1. destruct G as [G|[G|G]]; auto.
  - destruct (A2 Hs) as [X1 X2]. rewrite X1. destruct G as [G|[G|G]]; auto.
  - destruct (A3 Hs) as [X1 X2]. rewrite X1. destruct G as [G|[G|G]]; auto.
  - destruct (A4 Hs) as [X1 X2]. rewrite X1. destruct G as [G|[G|G]]; auto.
Qed.
Lemma GA_M c c' : M c c' -> CI c -> GA c -> GA c'.
Proof. intros HM HC G t. eapply (tguard_Mx (fun _ => False)); [apply M_Mx; exact HM|exact HC|tauto|apply G]. Qed.
Lemma GA_Mx c c' t : Mx (eq t) c c' -> CI c -> GA c -> tguard c' t -> GA c'.
Proof.
  intros HM HC G Ht t'. destruct (tid_dec t t') as [<-|Hn]; [exact Ht|].
  eapply tguard_Mx; [exact HM|exact HC|exact Hn|apply G].
Qed.

(* ---------------------------------------------------------------- the synchronous functions *)
Lemma gv_set_start_future c : gv (set_start_future c) = gv c.
Proof. unfold set_start_future. destruct (start_fut c); reflexivity. Qed.
Lemma gv_set_finish_future c : gv (set_finish_future c) = gv c.
Proof. unfold set_finish_future. destruct (finish_fut c); reflexivity. Qed.

Ltac M_fields := constructor; cbn; auto; try (apply F2_refl_gen, crel_refl); try (let t := fresh in intros t; destruct t; (split; [reflexivity|cbn; auto])).

Lemma M_set_ready c r : r <> RPending -> M c (c <| ready := r |>).
Proof. intro H. M_fields. Qed.
Lemma M_helper_close c : M c (fst (helper_close c)).
Proof.
  unfold helper_close.
  match goal with |- context [transport ?x] => set (c1 := x) end.
  assert (H1 : M c c1).
  { unfold c1. destruct (ready c); try apply M_refl. destruct (noise c); [apply M_set_ready; discriminate|apply M_refl]. }
  destruct (transport c1); cbn [fst]; try exact H1. eapply M_trans; [exact H1|apply M_gv; reflexivity].
Qed.
Lemma M_release c : M c (fst (release_resources c)).
Proof.
  unfold release_resources. destruct (helper c).
  - destruct (socket c); cbn [fst]; apply M_gv; reflexivity.
  - pose proof (M_helper_close c) as H. destruct (helper_close c) as [c1 o1]. cbn [fst] in H.
    destruct (socket _); cbn [fst]; (eapply M_trans; [exact H|apply M_gv; reflexivity]).
  - pose proof (M_helper_close c) as H. destruct (helper_close c) as [c1 o1]. cbn [fst] in H.
    destruct (socket _); cbn [fst]; (eapply M_trans; [exact H|apply M_gv; reflexivity]).
Qed.
Lemma crel_fail_waiter e k : crel k (fail_waiter e k).
Proof. unfold fail_waiter. destruct (c_fut k) eqn:E; unfold crel; cbn; rewrite ?E; auto. Qed.
Lemma M_pre_close c : M c (pre_close c).
Proof.
  unfold pre_close.
  match goal with |- M c (set_finish_future (set_start_future ?x)) =>
    apply (M_trans c x); [|apply M_gv; rewrite gv_set_finish_future, gv_set_start_future; reflexivity] end.
  M_fields. apply F2_map_gen. intro k. destruct (existsb _ _); [apply crel_fail_waiter|apply crel_refl].
Qed.
Lemma M_cleanup c : M c (fst (cleanup c)).
Proof.
  destruct (cs c) eqn:Ecs; try (unfold cleanup; rewrite Ecs; apply M_release).
  all: rewrite cleanup_open by congruence;
    pose proof (M_release (pre_close c)) as H;
    destruct (release_resources (pre_close c)) as [c4 o4]; cbn [fst] in H;
    (apply (M_trans c (pre_close c)); [apply M_pre_close|]);
    (apply (M_trans _ c4); [exact H|]);
    destruct (on_stop_armed c4 && is_connected c); cbn [fst]; [apply M_gv; reflexivity|apply M_refl].
Qed.
Lemma M_report_fatal c e : M c (fst (report_fatal c e)).
Proof.
  unfold report_fatal. destruct (fatal c); [apply M_cleanup|].
  apply (M_trans c (c <| fatal := Some e |>)); [apply M_gv; reflexivity|apply M_cleanup].
Qed.
Lemma M_helper_error c e : M c (fst (helper_error c e)).
Proof.
  unfold helper_error. destruct (ready c) eqn:Er; try apply M_report_fatal.
  apply (M_trans c (c <| ready := RExc e |>)); [|apply M_report_fatal].
  apply M_set_ready. discriminate.
Qed.
Lemma M_send_messages c tys : M c (fst (fst (send_messages c tys))).
Proof.
  unfold send_messages. destruct (negb (handshake_complete c)); [apply M_refl|].
  destruct (write_fails c).
  - pose proof (M_report_fatal c (Lib LSocketClosed)) as H. destruct (report_fatal c (Lib LSocketClosed)) as [c1 o]. exact H.
  - destruct (transport c); apply M_refl.
Qed.
Lemma gv_add c ty h : gv (add_handler c ty h) = gv c.
Proof. unfold add_handler. destruct (existsb _ _); reflexivity. Qed.
Lemma gv_fold_actions l : forall c, gv (fold_left run_action l c) = gv c.
Proof.
  induction l as [|a l IHl]; intro c; cbn [fold_left]; [reflexivity|]. rewrite IHl.
  destruct a; cbn [run_action]; [apply gv_add|reflexivity].
Qed.
Lemma gv_fold_add l h : forall c, gv (fold_left (fun a ty => add_handler a ty h) l c) = gv c.
Proof. induction l as [|a l IHl]; intro c; cbn [fold_left]; [reflexivity|]. rewrite IHl. apply gv_add. Qed.
Lemma gv_fold_remove l h : forall c, gv (fold_left (fun a ty => remove_handler a ty h) l c) = gv c.
Proof. induction l as [|a l IHl]; intro c; cbn [fold_left]; [reflexivity|]. rewrite IHl. reflexivity. Qed.
Lemma gv_internal_handlers c : gv (internal_handlers c) = gv c.
Proof. unfold internal_handlers. rewrite !gv_add. reflexivity. Qed.

Lemma M_upd_call c cid g : (forall k, crel k (g k)) -> M c (upd_call c cid g).
Proof.
  intro H. unfold upd_call. M_fields. apply F2_map_gen. intro k. destruct (Nat.eqb _ _); [apply H|apply crel_refl].
Qed.
Lemma ids_crel l l' : Forall2 crel l l' -> map c_id l' = map c_id l.
Proof. induction 1 as [|x y l l' (E & _) _ IH]; cbn; [reflexivity|]. rewrite E, IH. reflexivity. Qed.
Lemma uniq_M c c' : M c c' -> uniq c -> uniq c'.
Proof. intros HM U. unfold uniq. rewrite (ids_crel _ _ (m_calls _ _ HM)). exact U. Qed.
Lemma upd_const_unique_g l cid k k2 : NoDup (map c_id l) -> find (fun x => Nat.eqb (c_id x) cid) l = Some k -> crel k k2 ->
  Forall2 crel l (map (fun x => if Nat.eqb (c_id x) cid then k2 else x) l).
Proof.
  induction l as [|x l IHl]; cbn; intros U F R; [discriminate|].
  inversion U as [|? ? Hn U']; subst.
  destruct (Nat.eqb (c_id x) cid) eqn:E.
  - apply some_inj in F. subst x. constructor; [exact R|].
    apply Nat.eqb_eq in E.
    assert (Hid : forall y, In y l -> Nat.eqb (c_id y) cid = false).
    { intros y Hy. apply Nat.eqb_neq. intro Q. apply Hn. rewrite E, <- Q. apply in_map. exact Hy. }
    clear - Hid. induction l as [|y l IHl]; cbn; constructor.
    + rewrite (Hid y (or_introl eq_refl)). apply crel_refl.
    + apply IHl. intros z Hz. apply Hid. right. exact Hz.
  - constructor; [apply crel_refl|]. apply IHl; assumption.
Qed.
Lemma M_handle_call_message c cid m : uniq c -> M c (handle_call_message c cid m).
Proof.
  intro U. unfold handle_call_message. destruct (get_call c cid) as [k|] eqn:Eg; [|apply M_refl].
  destruct (c_fut k) eqn:Ef; try apply M_refl.
  unfold upd_call. M_fields.
  apply (upd_const_unique_g (calls c) cid k); [exact U|exact Eg|].
  unfold crel. destruct (eval_pred (c_stop k) m), (eval_pred (c_append k) m); cbn; rewrite ?Ef; auto.
Qed.
Lemma M_call_handler c h m : uniq c -> M c (fst (fst (call_handler c h m))).
Proof.
  intro U. destruct h; cbn [call_handler].
  - set (c1 := c <| expected_disconnect := true |>).
    pose proof (M_send_messages c1 [T_DISC_RESP]) as H. destruct (send_messages c1 [T_DISC_RESP]) as [[c2 o] ex]. cbn [fst] in H.
    assert (H0 : M c c1) by (apply M_gv; reflexivity).
    destruct ex; cbn [fst]; [eapply M_trans; eassumption|].
    pose proof (M_cleanup c2) as H2. destruct (cleanup c2) as [c3 o3]. cbn [fst] in *.
    eapply M_trans; [exact H0|]. eapply M_trans; eassumption.
  - apply M_send_messages.
  - apply M_send_messages.
  - cbn [fst]. apply M_handle_call_message. exact U.
  - cbn [fst]. apply M_gv, gv_fold_actions.
Qed.
Lemma M_run_handlers hs m : forall c, uniq c -> M c (fst (fst (run_handlers c hs m))).
Proof.
  induction hs as [|h hs IHh]; intros c U; cbn [run_handlers fst]; [apply M_refl|].
  pose proof (M_call_handler c h m U) as H1. destruct (call_handler c h m) as [[c1 o1] ex]. cbn [fst] in H1.
  destruct ex; cbn [fst]; [exact H1|].
  specialize (IHh c1 (uniq_M _ _ H1 U)). destruct (run_handlers c1 hs m) as [[c2 o2] ex2]. cbn [fst] in *.
  eapply M_trans; eassumption.
Qed.
Lemma M_process_packet c m : uniq c -> M c (fst (fst (process_packet c m))).
Proof.
  intro U. unfold process_packet. destruct (cs c); try (cbn [fst]; apply M_refl).
  all: destruct (registered (m_ty m)); cbn [negb fst]; [|apply M_refl];
       (destruct (m_valid m); cbn [negb];
        [ match goal with |- context [run_handlers ?x ?hs ?mm] =>
            assert (H0 : M c x) by (apply M_gv; reflexivity);
            pose proof (M_run_handlers hs mm x (uniq_M _ _ H0 U)) as H; destruct (run_handlers x hs mm) as [[c2 o2] ex2] end;
          cbn [fst] in *; eapply M_trans; eassumption
        | pose proof (M_report_fatal c (Lib LProtocol)) as H; destruct (report_fatal c (Lib LProtocol)) as [c1 o];
          cbn [fst] in *; exact H ]).
Qed.
Lemma M_data_loop items : forall c, uniq c -> M c (fst (fst (data_loop c items))).
Proof.
  induction items as [|i items IHi]; intros c U; cbn [data_loop fst]; [apply M_refl|].
  destruct i as [m|req].
  - pose proof (M_process_packet c m U) as H1. destruct (process_packet c m) as [[c1 o1] ex]. cbn [fst] in H1.
    destruct ex; cbn [fst]; [exact H1|].
    specialize (IHi c1 (uniq_M _ _ H1 U)). destruct (data_loop c1 items) as [[c2 o2] ex2]. cbn [fst] in *.
    eapply M_trans; eassumption.
  - match goal with |- context [helper_error c ?e] =>
      pose proof (M_helper_error c e) as H; destruct (helper_error c e) as [c1 o1] end.
    cbn [fst] in *. exact H.
Qed.

(* ---------------------------------------------------------------- tasks *)
Lemma set_task_fields c t k' :
  conn_timer (set_task c t k') = conn_timer c /\ hs_timer (set_task c t k') = hs_timer c /\ disc_timer (set_task c t k') = disc_timer c /\
  disc_wait_done (set_task c t k') = disc_wait_done c /\ do_connect (set_task c t k') = do_connect c /\ ready (set_task c t k') = ready c /\
  calls (set_task c t k') = calls c.
Proof. destruct t; cbn; auto 10. Qed.

Lemma M_set_task_mono c t k' : exists_task c t -> tmono (get_task c t) k' -> M c (set_task c t k').
Proof.
  intros Hex Hm. destruct (set_task_facts c t k' Hex) as (Hself & Hoth & _).
  destruct (set_task_fields c t k') as (F1 & F2 & F3 & F4 & F5 & F6 & F7).
  constructor; try congruence.
  - intro t'. destruct (tid_dec t' t) as [->|Hn]; [rewrite Hself; exact Hm|rewrite (Hoth t' Hn); apply tmono_refl].
  - rewrite F7. apply F2_refl_gen, crel_refl.
Qed.
Lemma Mx_set_task c t k' : exists_task c t -> Mx (eq t) c (set_task c t k').
Proof.
  intros Hex. destruct (set_task_facts c t k' Hex) as (Hself & Hoth & _).
  destruct (set_task_fields c t k') as (F1 & F2 & F3 & F4 & F5 & F6 & F7).
  constructor; try (intros _; split; congruence).
  - intros t' Hn. rewrite (Hoth t'); [apply tmono_refl|congruence].
  - intros cid k G. exists k. unfold get_call in *. rewrite F7. split; [exact G|]. split; [reflexivity|right; apply crel_refl].
Qed.

Lemma Mx_take_cancel c t : exists_task c t -> Mx (eq t) c (fst (take_cancel c t)).
Proof. intro Hex. unfold take_cancel. destruct (must_cancel _); cbn [fst]; [apply Mx_set_task; exact Hex|apply Mx_refl]. Qed.
Lemma M_timeout_exit c t e : exists_task c t -> M c (fst (timeout_exit c t e)).
Proof.
  intro Hex. unfold timeout_exit. destruct (expiring _); [|apply M_refl].
  destruct e; cbn [fst]; try (apply M_set_task_mono; [exact Hex|split; [reflexivity|cbn; auto]]).
  destruct (Nat.eqb _ _); cbn [fst]; apply M_set_task_mono; try exact Hex; (split; [reflexivity|cbn; auto]).
Qed.
Lemma M_interrupt_exit c t e : exists_task c t -> M c (fst (interrupt_exit c t e)).
Proof.
  intro Hex. unfold interrupt_exit. destruct (interrupted _); [|apply M_refl].
  destruct e; cbn [fst]; try apply M_refl.
  destruct (Nat.eqb _ _); cbn [fst]; apply M_set_task_mono; try exact Hex; (split; [reflexivity|cbn; auto]).
Qed.
Lemma Mx_finish_task c t r : exists_task c t -> Mx (eq t) c (fst (finish_task c t r)).
Proof. intro Hex. unfold finish_task. cbn [fst]. apply Mx_set_task. exact Hex. Qed.
Lemma tguard_done c t r : exists_task c t -> tguard (fst (finish_task c t r)) t.
Proof.
  intro Hex. unfold finish_task. cbn [fst]. unfold tguard.
  destruct (set_task_facts c t (get_task c t <| pc := PDone r |>) Hex) as (Hself & _). rewrite Hself. cbn. destruct t; exact I.
Qed.

Lemma M_cancel_awaited c t k : M c (fst (cancel_awaited c t k)).
Proof.
  unfold cancel_awaited.
  destruct (pc k); try (cbn [fst]; apply M_refl).
  1,2: destruct (do_connect c) eqn:Ed; cbn [cancel_efut fst]; try apply M_refl; M_fields; try (intros _; discriminate); rewrite Ed; intro H; exfalso; apply H; reflexivity.
  1: destruct (cancel_efut (made_waiter c)); cbn [fst]; apply M_gv; reflexivity.
  1: destruct (ready c) eqn:Er; cbn [fst]; try apply M_refl; apply M_set_ready; discriminate.
  2: destruct (disc_wait_done c); cbn [fst]; [apply M_refl|M_fields].
  all: destruct (get_call c cid) as [kk|]; [|cbn [fst]; apply M_refl];
       destruct (c_fut kk); cbn [fst]; try apply M_refl;
       apply M_upd_call; intro x; unfold crel; cbn; auto.
Qed.
Lemma cancel_awaited_tasks c t k t' : get_task (fst (cancel_awaited c t k)) t' = get_task c t'.
Proof.
  unfold cancel_awaited. destruct (pc k); try reflexivity.
  1,2: destruct (cancel_efut (do_connect c)); destruct t'; reflexivity.
  1: destruct (cancel_efut (made_waiter c)); destruct t'; reflexivity.
  1: destruct (ready c); destruct t'; reflexivity.
  2: destruct (disc_wait_done c); destruct t'; reflexivity.
  all: destruct (get_call c cid) as [kk|]; [|reflexivity]; destruct (c_fut kk); destruct t'; reflexivity.
Qed.
Lemma M_cancel_task c t : M c (cancel_task c t).
Proof.
  unfold cancel_task. destruct (negb (task_running (get_task c t))) eqn:Erun; [apply M_refl|].
  assert (Hex : exists_task c t).
  { apply pc_exists_task. intro Hp. unfold task_running in Erun. rewrite Hp in Erun. discriminate. }
  match goal with |- context [cancel_awaited c t ?k1] =>
    pose proof (M_cancel_awaited c t k1) as H; pose proof (cancel_awaited_tasks c t k1 t) as HT;
    destruct (cancel_awaited c t k1) as [c1 d] eqn:Eca end.
  cbn [fst] in H, HT.
  assert (Hex1 : exists_task c1 t).
  { apply pc_exists_task. rewrite HT. intro Hp. unfold task_running in Erun. rewrite Hp in Erun. discriminate. }
  destruct d; (eapply M_trans; [exact H|]); apply M_set_task_mono; try exact Hex1; rewrite HT.
  - split; cbn; [reflexivity|]. destruct (pc (get_task c t)); auto.
  - split; cbn; [reflexivity|]. auto.
Qed.

(* partial views: what only the stepping task relies on is left out *)
Definition gvS (c : conn) := (t_finish c, t_disc c, call_tasks c, hs_timer c, disc_timer c, disc_wait_done c, ready c, calls c).
Definition gvF (c : conn) := (t_start c, t_disc c, call_tasks c, conn_timer c, disc_timer c, disc_wait_done c, do_connect c, calls c).
Definition gvD (c : conn) := (t_start c, t_finish c, call_tasks c, conn_timer c, hs_timer c, do_connect c, ready c, calls c).
Lemma calls_refl_x skip c c' : calls c' = calls c ->
  forall cid k, get_call c cid = Some k -> exists k', get_call c' cid = Some k' /\ crelx skip k k'.
Proof. intros E cid k G. exists k. unfold get_call in *. rewrite E. split; [exact G|]. split; [reflexivity|right; apply crel_refl]. Qed.
Lemma Mx_gvS c c' : gvS c' = gvS c -> Mx (eq TStart) c c'.
Proof.
  unfold gvS. intro E. injection E as E2 E3 E4 E5 E6 E7 E8 E9. constructor.
  - intros t Hn. destruct t; cbn [get_task]; [exfalso; apply Hn; reflexivity|rewrite E2|rewrite E3|rewrite E4]; apply tmono_refl.
  - intro H. exfalso. apply H. reflexivity.
  - intros _. split; congruence.
  - intros _. split; congruence.
  - apply calls_refl_x. exact E9.
Qed.
Lemma Mx_gvF c c' : gvF c' = gvF c -> Mx (eq TFinish) c c'.
Proof.
  unfold gvF. intro E. injection E as E1 E3 E4 E5 E6 E7 E8 E9. constructor.
  - intros t Hn. destruct t; cbn [get_task]; [rewrite E1|exfalso; apply Hn; reflexivity|rewrite E3|rewrite E4]; apply tmono_refl.
  - intros _. split; congruence.
  - intro H. exfalso. apply H. reflexivity.
  - intros _. split; congruence.
  - apply calls_refl_x. exact E9.
Qed.
Lemma Mx_gvD c c' : gvD c' = gvD c -> Mx (eq TDisc) c c'.
Proof.
  unfold gvD. intro E. injection E as E1 E2 E4 E5 E6 E7 E8 E9. constructor.
  - intros t Hn. destruct t; cbn [get_task]; [rewrite E1|rewrite E2|exfalso; apply Hn; reflexivity|rewrite E4]; apply tmono_refl.
  - intros _. split; congruence.
  - intros _. split; congruence.
  - intro H. exfalso. apply H. reflexivity.
  - apply calls_refl_x. exact E9.
Qed.

Ltac mx_M H := eapply Mx_trans; [apply M_Mx; exact H|].
Ltac mx_X H := eapply Mx_trans; [exact H|].

(* ---------------------------------------------------------------- start_connection *)
Definition XG (t : tid) (c c' : conn) : Prop := Mx (eq t) c c' /\ tguard c' t.

Lemma start_fail_X c e : XG TStart c (fst (start_fail c e)).
Proof.
  unfold start_fail.
  pose proof (M_interrupt_exit c TStart e I) as H0. destruct (interrupt_exit c TStart e) as [c0 e1]. cbn [fst] in H0.
  match goal with |- context [cleanup ?x] => pose proof (M_cleanup x) as H1; assert (Hx : Mx (eq TStart) c0 x) by (apply Mx_gvS; reflexivity);
    destruct (cleanup x) as [c2 o] end.
  cbn [fst] in H1.
  match goal with |- context [finish_task ?x ?t ?r] =>
    pose proof (Mx_finish_task x t r I) as H2; pose proof (tguard_done x t r I) as H3; destruct (finish_task x t r) as [c4 o2] end.
  cbn [fst] in *. split; [|exact H3].
  mx_M H0. mx_X Hx. mx_M H1. eapply Mx_trans; [|exact H2]. apply M_Mx, M_gv, gv_set_start_future.
Qed.
Lemma start_tcp_attempt_X c g : XG TStart c (start_tcp_attempt c g).
Proof.
  unfold start_tcp_attempt. split.
  - eapply Mx_trans; [|apply Mx_set_task; exact I]. apply Mx_gvS. reflexivity.
  - unfold tguard. cbn. left. discriminate.
Qed.
Lemma start_success_X c : XG TStart c (fst (start_success c)).
Proof.
  unfold start_success.
  match goal with |- context [set_start_future ?x] => set (c2 := set_start_future x);
    assert (H2 : Mx (eq TStart) c c2) by (unfold c2; eapply Mx_trans; [|apply M_Mx, M_gv, gv_set_start_future]; apply Mx_gvS; reflexivity) end.
  destruct (cs c2).
  5: { pose proof (M_cleanup c2) as H3. destruct (cleanup c2) as [c3 o]. cbn [fst] in H3.
       match goal with |- context [finish_task ?x ?t ?r] =>
         pose proof (Mx_finish_task x t r I) as H4; pose proof (tguard_done x t r I) as H5; destruct (finish_task x t r) as [c4 o2] end.
       cbn [fst] in *. split; [|exact H5]. mx_X H2. mx_M H3. exact H4. }
  all: match goal with |- context [finish_task ?x ?t ?r] =>
         pose proof (Mx_finish_task x t r I) as H4; pose proof (tguard_done x t r I) as H5;
         assert (Hs : M c2 x) by (apply M_gv; reflexivity); destruct (finish_task x t r) as [c4 o2] end;
       cbn [fst] in *; (split; [|exact H5]); mx_X H2; mx_M Hs; exact H4.
Qed.

Lemma wake_start_X c c' o : wake_start c = Some (c', o) -> XG TStart c c'.
Proof.
  unfold wake_start. intro E.
  destruct (pc (get_task c TStart)); try discriminate.
  - destruct (_ || _); [|discriminate].
    pose proof (Mx_take_cancel c TStart I) as H1. destruct (take_cancel c TStart) as [c1 mc]. cbn [fst] in H1.
    match type of E with (match ?d with _ => _ end) = _ => destruct d as [|e] end.
    + apply some_pair_inv in E. destruct E as [<- _].
      match goal with |- XG _ _ (start_tcp_attempt ?x ?g) => destruct (start_tcp_attempt_X x g) as [A B];
        assert (Hx : Mx (eq TStart) c1 x) by (apply Mx_gvS; reflexivity) end.
      split; [|exact B]. mx_X H1. mx_X Hx. exact A.
    + match type of E with context [timeout_exit ?x ?t ?ee] =>
        assert (Hx : Mx (eq TStart) c1 x) by (apply Mx_gvS; reflexivity);
        pose proof (M_timeout_exit x t ee I) as H2; destruct (timeout_exit x t ee) as [c2 e1] end.
      cbn [fst] in H2. apply some_inj in E.
      match type of E with start_fail ?x ?ee = _ => destruct (start_fail_X x ee) as [A B]; rewrite E in A, B end.
      cbn [fst] in A, B. split; [|exact B]. mx_X H1. mx_X Hx. mx_M H2. exact A.
  - destruct (_ || _); [|discriminate].
    pose proof (Mx_take_cancel c TStart I) as H1. destruct (take_cancel c TStart) as [c1 mc]. cbn [fst] in H1.
    match type of E with (match ?d with _ => _ end) = _ => destruct d as [|e] end.
    + apply some_inj in E.
      match type of E with start_success ?x = _ => destruct (start_success_X x) as [A B]; rewrite E in A, B;
        assert (Hx : M c1 x) by (apply M_gv; reflexivity) end.
      cbn [fst] in A, B. split; [|exact B]. mx_X H1. mx_M Hx. exact A.
    + match type of E with context [timeout_exit ?x ?t ?ee] =>
        assert (Hx : Mx (eq TStart) c1 x) by (apply Mx_gvS; reflexivity);
        pose proof (M_timeout_exit x t ee I) as H2; destruct (timeout_exit x t ee) as [c2 e1] end.
      cbn [fst] in H2.
      assert (H12 : Mx (eq TStart) c c2) by (mx_X H1; mx_X Hx; apply M_Mx; exact H2).
      destruct (is_oserror e1).
      * destruct groups as [|[|g']].
        1,2: apply some_inj in E;
             match type of E with start_fail ?x ?ee = _ => destruct (start_fail_X x ee) as [A B]; rewrite E in A, B end;
             cbn [fst] in A, B; (split; [|exact B]); eapply Mx_trans; eassumption.
        apply some_pair_inv in E. destruct E as [<- _]. destruct (start_tcp_attempt_X c2 (S g')) as [A B].
        split; [|exact B]. eapply Mx_trans; eassumption.
      * apply some_inj in E.
        match type of E with start_fail ?x ?ee = _ => destruct (start_fail_X x ee) as [A B]; rewrite E in A, B end.
        cbn [fst] in A, B. split; [|exact B]. eapply Mx_trans; eassumption.
Qed.

(* ---------------------------------------------------------------- registering a call; its finally block *)
Lemma call_begin_X skip c owner send types ap st tmo :
  F1 c ->
  let r := call_begin c owner send types ap st tmo in
  Mx skip c (fst (fst (fst r))) /\ (snd (fst r) <> None -> M c (fst (fst (fst r)))) /\
  (snd (fst r) = None ->
     snd r = next_cid c /\
     exists kk, get_call (fst (fst (fst r))) (snd r) = Some kk /\ c_timer kk <> None /\
                forall t, tmono (get_task c t) (get_task (fst (fst (fst r))) t)).
Proof.
  intros HF. unfold call_begin.
  pose proof (M_send_messages c send) as HM. pose proof (S1_send_messages c send) as HS.
  destruct (send_messages c send) as [[c1 o] ex]. cbn [fst] in HM, HS.
  destruct ex; cbn [fst snd]; [split; [apply M_Mx; exact HM|split; [intros _; exact HM|discriminate]]|].
  assert (F1' : F1 c1) by (eapply F1_S0; [apply S0_S1; exact HS|exact HF]).
  match goal with |- context [fold_left ?f types ?x] => set (c2 := x); set (c3 := fold_left f types c2) end.
  pose proof (gv_fold_add types (HCall (next_cid c1)) c2) as K. fold c3 in K.
  assert (KT : forall t, get_task c3 t = get_task c1 t).
  { intro t. rewrite (get_task_gv c2 c3 t K). destruct t; reflexivity. }
  assert (KC : calls c3 = calls c1 ++ [mkCall (next_cid c1) types ap st [] CPending (Some (now c1 + tmo)) owner (now c1) tmo]).
  { unfold gv in K. injection K as _ _ _ _ _ _ _ _ _ _ K. rewrite K. reflexivity. }
  split; [|split].
  - mx_M HM. unfold gv in K. injection K as _ _ _ _ K5 K6 K7 K8 K9 K10 _. constructor.
    + intros t _. rewrite KT. apply tmono_refl.
    + intros _. rewrite K5, K9. cbn. auto.
    + intros _. rewrite K6, K10. cbn. auto.
    + intros _. rewrite K7, K8. cbn. auto.
    + intros cid k G. exists k. unfold get_call in *. rewrite KC. split; [apply find_app_some; exact G|].
      split; [reflexivity|right; apply crel_refl].
  - intro Hn. exfalso. apply Hn. reflexivity.
  - intros _. split; [apply (s_next _ _ HS)|]. eexists. split; [|split; [|intro t; rewrite KT; apply (m_t _ _ HM)]].
    + unfold get_call. rewrite KC. rewrite find_app_none.
      * cbn. rewrite Nat.eqb_refl. reflexivity.
      * clear - F1'. destruct F1' as [_ L _]. induction L as [|x l Hx _ IH]; cbn; [reflexivity|].
        destruct (Nat.eqb (c_id x) (next_cid c1)) eqn:E; [apply Nat.eqb_eq in E; lia|exact IH].
    + cbn. discriminate.
Qed.

Lemma find_map_id (f : call -> call) l cid : (forall x, c_id (f x) = c_id x) ->
  find (fun k => Nat.eqb (c_id k) cid) (map f l) = option_map f (find (fun k => Nat.eqb (c_id k) cid) l).
Proof.
  intro H. induction l as [|x l IHl]; cbn; [reflexivity|]. rewrite H. destruct (Nat.eqb (c_id x) cid); [reflexivity|exact IHl].
Qed.

Lemma call_finally_X c cid kk t : get_call c cid = Some kk -> c_owner kk = t -> Mx (eq t) c (call_finally c cid).
Proof.
  intros G Ho. unfold call_finally. rewrite G.
  match goal with |- context [fold_left ?f ?l ?x] => set (c2 := fold_left f l x) end.
  assert (K : gv c2 = gv (upd_call c cid (fun x => x <| c_timer := None |>))) by apply gv_fold_remove.
  assert (KT : forall t', get_task c2 t' = get_task c t').
  { intro t'. rewrite (get_task_gv _ c2 t' K). destruct t'; reflexivity. }
  unfold gv in K. injection K as _ _ _ _ K5 K6 K7 K8 K9 K10 K11.
  eapply (Mx_trans _ c c2); [|apply M_Mx, M_gv; reflexivity].
  constructor.
  - intros t' _. rewrite KT. apply tmono_refl.
  - intros _. rewrite K5, K9. cbn. auto.
  - intros _. rewrite K6, K10. cbn. auto.
  - intros _. rewrite K7, K8. cbn. auto.
  - intros cid' k G'. unfold get_call in *. rewrite K11. cbn [calls upd_call set].
    rewrite find_map_id by (intro x; destruct (Nat.eqb (c_id x) cid); reflexivity).
    rewrite G'. cbn [option_map]. eexists. split; [reflexivity|].
    destruct (Nat.eqb (c_id k) cid) eqn:E.
    + split; [reflexivity|]. left. apply Nat.eqb_eq in E.
      pose proof G' as G2. apply find_some in G2. destruct G2 as [_ E']. apply Nat.eqb_eq in E'.
      assert (Hc : cid' = cid) by congruence. rewrite Hc in G'. rewrite G in G'. apply some_inj in G'.
      subst k. symmetry. exact Ho.
    + split; [reflexivity|right; apply crel_refl].
Qed.

(* ---------------------------------------------------------------- finish_connection *)
Lemma finish_fail_X c e : XG TFinish c (fst (finish_fail c e)).
Proof.
  unfold finish_fail.
  pose proof (M_interrupt_exit c TFinish e I) as H0. destruct (interrupt_exit c TFinish e) as [c0 e1]. cbn [fst] in H0.
  match goal with |- context [cleanup ?x] => pose proof (M_cleanup x) as H1; assert (Hx : Mx (eq TFinish) c0 x) by (apply Mx_gvF; reflexivity);
    destruct (cleanup x) as [c2 o] end.
  cbn [fst] in H1.
  match goal with |- context [finish_task ?x ?t ?r] =>
    pose proof (Mx_finish_task x t r I) as H2; pose proof (tguard_done x t r I) as H3; destruct (finish_task x t r) as [c4 o2] end.
  cbn [fst] in *. split; [|exact H3].
  mx_M H0. mx_X Hx. mx_M H1. eapply Mx_trans; [|exact H2]. apply M_Mx, M_gv, gv_set_finish_future.
Qed.
Lemma finish_success_X c : XG TFinish c (fst (finish_success c)).
Proof.
  unfold finish_success.
  match goal with |- context [set_finish_future ?x] => set (c2 := set_finish_future x);
    assert (H2 : Mx (eq TFinish) c c2) by (unfold c2; eapply Mx_trans; [|apply M_Mx, M_gv, gv_set_finish_future]; apply Mx_gvF; reflexivity) end.
  destruct (cs c2).
  5: { pose proof (M_cleanup c2) as H3. destruct (cleanup c2) as [c3 o]. cbn [fst] in H3.
       match goal with |- context [finish_task ?x ?t ?r] =>
         pose proof (Mx_finish_task x t r I) as H4; pose proof (tguard_done x t r I) as H5; destruct (finish_task x t r) as [c4 o2] end.
       cbn [fst] in *. split; [|exact H5]. mx_X H2. mx_M H3. exact H4. }
  all: match goal with |- context [finish_task ?x ?t ?r] =>
         pose proof (Mx_finish_task x t r I) as H4; pose proof (tguard_done x t r I) as H5;
         assert (Hs : M c2 x) by (apply M_gv; reflexivity); destruct (finish_task x t r) as [c4 o2] end;
       cbn [fst] in *; (split; [|exact H5]); mx_X H2; mx_M Hs; exact H4.
Qed.

Lemma F1_Mx_gv c c' : calls c' = calls c -> next_cid c' = next_cid c -> F1 c -> F1 c'.
Proof. intros E1 E2 H. apply (F1_S0 c c'); [apply S0_ac; unfold ac; congruence|exact H]. Qed.

Lemma internal_handlers_keeps c : calls (internal_handlers c) = calls c /\ next_cid (internal_handlers c) = next_cid c.
Proof. unfold internal_handlers, add_handler. repeat (destruct (existsb _ _)); split; reflexivity. Qed.

Lemma finish_after_ready_X c : F1 c -> XG TFinish c (fst (finish_after_ready c)).
Proof.
  intro HF. unfold finish_after_ready. set (c0 := c <| hs_timer := None |>).
  assert (H0 : Mx (eq TFinish) c c0) by (apply Mx_gvF; reflexivity).
  destruct (cs c0).
  5: { destruct (finish_fail_X c0 Interrupted) as [A B]. split; [|exact B]. mx_X H0. exact A. }
  all: match goal with |- context [call_begin ?x ?a ?b ?d ?e ?f ?g] =>
         assert (Hx : Mx (eq TFinish) c0 x) by
           (eapply Mx_trans; [apply (Mx_set_task c0 TFinish); exact I|]; apply M_Mx, M_gv; rewrite gv_internal_handlers; reflexivity);
         assert (HFx : F1 x) by (apply (F1_Mx_gv c); [rewrite (proj1 (internal_handlers_keeps _)); reflexivity
                                                      |rewrite (proj2 (internal_handlers_keeps _)); reflexivity|exact HF]);
         assert (Hpc : pc (get_task x TFinish) = PF_Hello (next_cid c0)) by
           (rewrite (get_task_gv (set_state (set_task c0 TFinish (get_task c0 TFinish <| pc := PF_Hello (next_cid c0) |>)) HsDone) x TFinish) by apply gv_internal_handlers; reflexivity);
         assert (Hn : next_cid x = next_cid c0) by (rewrite (proj2 (internal_handlers_keeps _)); reflexivity);
         destruct (call_begin_X (eq TFinish) x a b d e f g HFx) as (HB & _ & HN);
         destruct (call_begin x a b d e f g) as [[[c2 o] ex] cid] end;
       cbn [fst snd] in HB, HN;
       (destruct ex as [e|];
        [ destruct (finish_fail_X c2 e) as [A B]; destruct (finish_fail c2 e) as [c3 o3]; cbn [fst] in *;
          (split; [|exact B]); mx_X H0; mx_X Hx; mx_X HB; exact A
        | cbn [fst]; destruct (HN eq_refl) as (Ec & kk & Gk & Tk & KT); (split; [mx_X H0; mx_X Hx; exact HB|]);
          unfold tguard; destruct (KT TFinish) as [Ep _]; rewrite Ep, Hpc; exists kk; rewrite <- Hn, <- Ec; split; [exact Gk|left; exact Tk] ]).
Qed.

Lemma take_cancel_keeps c t : calls (fst (take_cancel c t)) = calls c /\ next_cid (fst (take_cancel c t)) = next_cid c.
Proof. unfold take_cancel. destruct (must_cancel _); cbn [fst]; [destruct t; split; reflexivity|split; reflexivity]. Qed.

Ltac finX E L := apply some_inj in E; let A := fresh "A" in let B := fresh "B" in destruct L as [A B]; rewrite E in A, B; cbn [fst] in A, B.

Lemma wake_finish_X c c' o : wake_finish c = Some (c', o) -> CI c -> XG TFinish c c'.
Proof.
  unfold wake_finish. cbn [get_task]. intros E HC. pose proof (i_f1 _ _ HC) as HF.
  destruct (pc (t_finish c)) eqn:Epc; try discriminate.
  - (* PF_Create *)
    destruct (_ || _); [|discriminate].
    pose proof (Mx_take_cancel c TFinish I) as H1. destruct (take_cancel_keeps c TFinish) as [K1 K2].
    destruct (take_cancel c TFinish) as [c1 mc]. cbn [fst] in H1, K1, K2.
    match type of E with (match ?d with _ => _ end) = _ => destruct d as [|e] end.
    + match type of E with context [ready ?x] => set (c2 := x) in *; assert (H2 : Mx (eq TFinish) c c2) by (mx_X H1; apply Mx_gvF; reflexivity) end.
      destruct (ready c2).
      * apply some_pair_inv in E. destruct E as [<- _]. split.
        -- mx_X H2. apply Mx_set_task. exact I.
        -- unfold tguard. cbn. left. discriminate.
      * finX E (finish_after_ready_X c2 (F1_Mx_gv c c2 K1 K2 HF)). split; [|exact B]. mx_X H2. exact A.
      * match type of E with Some (finish_fail ?x ?ee) = _ => finX E (finish_fail_X x ee) end. split; [|exact B]. mx_X H2. exact A.
      * match type of E with Some (finish_fail ?x ?ee) = _ => finX E (finish_fail_X x ee) end. split; [|exact B]. mx_X H2. exact A.
    + match type of E with context [finish_fail ?x ?ee] =>
        assert (H2 : Mx (eq TFinish) c x) by (mx_X H1; destruct (transport c1); first [apply Mx_refl|apply M_Mx, M_gv; reflexivity]);
        destruct (finish_fail_X x ee) as [A B]; destruct (finish_fail x ee) as [c3 o3] end.
      cbn [fst] in A, B. apply some_pair_inv in E. destruct E as [<- _]. split; [|exact B]. mx_X H2. exact A.
  - (* PF_Ready *)
    destruct (_ || _); [|discriminate].
    pose proof (Mx_take_cancel c TFinish I) as H1. destruct (take_cancel_keeps c TFinish) as [K1 K2].
    destruct (take_cancel c TFinish) as [c1 mc]. cbn [fst] in H1, K1, K2.
    destruct mc.
    + match type of E with Some (finish_fail ?x ?ee) = _ => finX E (finish_fail_X x ee) end. split; [|exact B]. mx_X H1. exact A.
    + destruct (ready c1).
      * match type of E with Some (finish_fail ?x ?ee) = _ => finX E (finish_fail_X x ee) end. split; [|exact B]. mx_X H1. exact A.
      * finX E (finish_after_ready_X c1 (F1_Mx_gv c c1 K1 K2 HF)). split; [|exact B]. mx_X H1. exact A.
      * match type of E with Some (finish_fail ?x ?ee) = _ => finX E (finish_fail_X x ee) end. split; [|exact B]. mx_X H1. exact A.
      * match type of E with Some (finish_fail ?x ?ee) = _ => finX E (finish_fail_X x ee) end. split; [|exact B]. mx_X H1. exact A.
  - (* PF_Hello *)
    destruct (get_call c cid) as [kk|] eqn:Eg; [|discriminate].
    destruct (_ || _); [|discriminate].
    assert (Ho : c_owner kk = TFinish).
    { destruct (i_aw _ _ HC TFinish cid ltac:(discriminate) (fun F => F)) as (k2 & G2 & O2); [cbn [get_task]; rewrite Epc; reflexivity|].
      rewrite Eg in G2. apply some_inj in G2. subst k2. exact O2. }
    pose proof (Mx_take_cancel c TFinish I) as H1. destruct (take_cancel_keeps c TFinish) as [K1 K2].
    destruct (take_cancel c TFinish) as [c1 mc]. cbn [fst] in H1, K1, K2.
    assert (G1 : get_call c1 cid = Some kk) by (unfold get_call in *; rewrite K1; exact Eg).
    pose proof (call_finally_X c1 cid kk TFinish G1 Ho) as H3.
    assert (X : XG TFinish (call_finally c1 cid) c').
    { match type of E with (match ?d with _ => _ end) = _ => destruct d as [|e] end.
      - destruct (check_hello_login _ _).
        + match type of E with Some (finish_fail ?x ?ee) = _ => finX E (finish_fail_X x ee) end. split; assumption.
        + match type of E with Some (finish_success ?x) = _ => finX E (finish_success_X x) end. split; assumption.
      - match type of E with Some (finish_fail ?x ?ee) = _ => finX E (finish_fail_X x ee) end. split; assumption. }
    destruct X as [A B]. split; [|exact B]. mx_X H1. mx_X H3. exact A.
Qed.

(* ---------------------------------------------------------------- disconnect() *)
Lemma disconnect_after_wait_X c : F1 c -> XG TDisc c (fst (disconnect_after_wait c)).
Proof.
  intro HF. unfold disconnect_after_wait. set (c1 := c <| expected_disconnect := true |>).
  assert (H0 : M c c1) by (apply M_gv; reflexivity).
  assert (HF1 : F1 c1) by (apply (F1_Mx_gv c); [reflexivity|reflexivity|exact HF]).
  destruct (handshake_complete c1).
  - match goal with |- context [call_begin ?x ?a ?b ?d ?e ?f ?g] =>
      destruct (call_begin_X (eq TDisc) x a b d e f g HF1) as (HB & _ & HN); destruct (call_begin x a b d e f g) as [[[c2 o] ex] cid] end.
    cbn [fst snd] in HB, HN.
    destruct ex as [[l| | | | |]|].
    2-6: match goal with |- context [finish_task ?x ?t ?r] =>
           pose proof (Mx_finish_task x t r I) as H4; pose proof (tguard_done x t r I) as H5; destruct (finish_task x t r) as [c4 o4] end;
         cbn [fst] in *; (split; [|exact H5]); mx_M H0; mx_X HB; exact H4.
    + pose proof (M_cleanup c2) as H3. destruct (cleanup c2) as [c3 o3]. cbn [fst] in H3.
      match goal with |- context [finish_task ?x ?t ?r] =>
        pose proof (Mx_finish_task x t r I) as H4; pose proof (tguard_done x t r I) as H5; destruct (finish_task x t r) as [c4 o4] end.
      cbn [fst] in *. split; [|exact H5]. mx_M H0. mx_X HB. mx_M H3. exact H4.
    + cbn [fst]. destruct (HN eq_refl) as (Ec & kk & Gk & Tk & KT). split.
      * mx_M H0. mx_X HB. apply Mx_set_task. exact I.
      * unfold tguard. cbn. exists kk. split; [exact Gk|left; exact Tk].
  - pose proof (M_cleanup c1) as H3. destruct (cleanup c1) as [c3 o3]. cbn [fst] in H3.
    match goal with |- context [finish_task ?x ?t ?r] =>
      pose proof (Mx_finish_task x t r I) as H4; pose proof (tguard_done x t r I) as H5; destruct (finish_task x t r) as [c4 o4] end.
    cbn [fst] in *. split; [|exact H5]. mx_M H0. mx_M H3. exact H4.
Qed.

Lemma wake_disc_X c c' o : wake_disc c = Some (c', o) -> CI c -> XG TDisc c c'.
Proof.
  unfold wake_disc. cbn [get_task]. intros E HC. pose proof (i_f1 _ _ HC) as HF.
  destruct (pc (t_disc c)) eqn:Epc; try discriminate.
  - (* PD_Wait *)
    destruct (_ || _); [|discriminate].
    pose proof (Mx_take_cancel c TDisc I) as H1. destruct (take_cancel_keeps c TDisc) as [K1 K2].
    destruct (take_cancel c TDisc) as [c1 mc]. cbn [fst] in H1, K1, K2.
    destruct mc.
    + apply some_inj in E.
      match type of E with finish_task ?x ?t ?r = _ =>
        pose proof (Mx_finish_task x t r I) as H4; pose proof (tguard_done x t r I) as H5; rewrite E in H4, H5;
        assert (Hx : Mx (eq TDisc) c1 x) by (apply Mx_gvD; reflexivity) end.
      cbn [fst] in *. split; [|exact H5]. mx_X H1. mx_X Hx. exact H4.
    + match type of E with Some (disconnect_after_wait ?x) = _ =>
        assert (H2 : Mx (eq TDisc) c1 x) by (repeat dm; apply Mx_gvD; reflexivity);
        assert (HFx : F1 x) by (apply (F1_Mx_gv c); [repeat dm; exact K1|repeat dm; exact K2|exact HF]);
        finX E (disconnect_after_wait_X x HFx) end.
      split; [|exact B]. mx_X H1. mx_X H2. exact A.
  - (* PD_Resp *)
    destruct (get_call c cid) as [kk|] eqn:Eg; [|discriminate].
    destruct (_ || _); [|discriminate].
    assert (Ho : c_owner kk = TDisc).
    { destruct (i_aw _ _ HC TDisc cid ltac:(discriminate) (fun F => F)) as (k2 & G2 & O2); [cbn [get_task]; rewrite Epc; reflexivity|].
      rewrite Eg in G2. apply some_inj in G2. subst k2. exact O2. }
    pose proof (Mx_take_cancel c TDisc I) as H1. destruct (take_cancel_keeps c TDisc) as [K1 K2].
    destruct (take_cancel c TDisc) as [c1 mc]. cbn [fst] in H1, K1, K2.
    assert (G1 : get_call c1 cid = Some kk) by (unfold get_call in *; rewrite K1; exact Eg).
    pose proof (call_finally_X c1 cid kk TDisc G1 Ho) as H3.
    assert (X : XG TDisc (call_finally c1 cid) c').
    { match type of E with (match ?d with _ => _ end) = _ => destruct d as [|[l| | | | |]] end.
      3-7: apply some_inj in E;
           match type of E with finish_task ?x ?t ?r = _ =>
             pose proof (Mx_finish_task x t r I) as H4; pose proof (tguard_done x t r I) as H5; rewrite E in H4, H5 end;
           cbn [fst] in *; split; assumption.
      all: match type of E with context [cleanup ?x] => pose proof (M_cleanup x) as H4; destruct (cleanup x) as [c3 o3] end; cbn [fst] in H4;
           match type of E with context [finish_task ?x ?t ?r] =>
             pose proof (Mx_finish_task x t r I) as H5; pose proof (tguard_done x t r I) as H6; destruct (finish_task x t r) as [c4 o4] end;
           cbn [fst] in H5, H6; apply some_pair_inv in E; destruct E as [<- _]; (split; [|exact H6]); mx_M H4; exact H5. }
    destruct X as [A B]. split; [|exact B]. mx_X H1. mx_X H3. exact A.
Qed.

(* ---------------------------------------------------------------- a request/response task *)
Lemma exists_task_keys c c' t : map fst (call_tasks c') = map fst (call_tasks c) -> exists_task c t -> exists_task c' t.
Proof.
  intros E H. destruct t; try exact I. cbn in *.
  assert (Q : forall l : list (nat * task), find (fun p => Nat.eqb (fst p) cid) l <> None <-> In cid (map fst l)).
  { induction l as [|p l IHl]; cbn; [split; [congruence|tauto]|]. destruct (Nat.eqb (fst p) cid) eqn:Eq.
    - apply Nat.eqb_eq in Eq. split; [auto|discriminate].
    - apply Nat.eqb_neq in Eq. rewrite IHl. tauto. }
  apply Q. rewrite E. apply Q. exact H.
Qed.
Lemma call_tasks_call_finally c cid : call_tasks (call_finally c cid) = call_tasks c.
Proof.
  unfold call_finally. destruct (get_call c cid) as [k|]; [|reflexivity]. cbn.
  match goal with |- call_tasks (fold_left ?f ?l ?x) = _ => pose proof (gv_fold_remove l (HCall cid) x) as K end.
  unfold gv in K. injection K as _ _ _ K _ _ _ _ _ _ _. exact K.
Qed.
Lemma take_cancel_keys c t : map fst (call_tasks (fst (take_cancel c t))) = map fst (call_tasks c).
Proof.
  unfold take_cancel. destruct (must_cancel _); cbn [fst]; [|reflexivity].
  destruct t; try reflexivity. cbn. rewrite map_map. apply map_ext. intro p. destruct (Nat.eqb _ _) eqn:E; [|reflexivity].
  apply Nat.eqb_eq in E. cbn. auto.
Qed.

Lemma wake_call_X c cid c' o : wake_call c cid = Some (c', o) -> CI c -> XG (TCall cid) c c'.
Proof.
  unfold wake_call. intros E HC.
  destruct (pc (get_task c (TCall cid))) eqn:Epc; try discriminate.
  destruct (get_call c cid) as [kk|] eqn:Eg; [|discriminate].
  destruct (_ || _); [|discriminate].
  assert (Hex : exists_task c (TCall cid)) by (apply pc_exists_task; rewrite Epc; discriminate).
  assert (Ho : c_owner kk = TCall cid).
  { destruct (i_aw _ _ HC (TCall cid) cid0 ltac:(discriminate) (fun F => F)) as (k2 & G2 & O2); [rewrite Epc; reflexivity|].
    destruct (get_call_in _ _ _ G2) as [I2 E2]. pose proof (i_own _ _ HC k2 cid I2 O2) as Hc. rewrite E2 in Hc.
    rewrite <- Hc in G2. rewrite Eg in G2. apply some_inj in G2. subst k2. exact O2. }
  pose proof (Mx_take_cancel c (TCall cid) Hex) as H1. destruct (take_cancel_keeps c (TCall cid)) as [K1 K2].
  pose proof (fun r => Mx_finish_task (call_finally (fst (take_cancel c (TCall cid))) cid) (TCall cid) r) as H4.
  pose proof (fun r => tguard_done (call_finally (fst (take_cancel c (TCall cid))) cid) (TCall cid) r) as H5.
  assert (Hex2 : exists_task (call_finally (fst (take_cancel c (TCall cid))) cid) (TCall cid)).
  { eapply exists_task_keys; [|exact Hex]. rewrite call_tasks_call_finally. apply take_cancel_keys. }
  destruct (take_cancel c (TCall cid)) as [c1 mc]. cbn [fst] in *.
  assert (G1 : get_call c1 cid = Some kk) by (unfold get_call in *; rewrite K1; exact Eg).
  pose proof (call_finally_X c1 cid kk (TCall cid) G1 Ho) as H3.
  apply some_inj in E. match type of E with ?lhs = _ => assert (Ec : c' = fst lhs) by (rewrite E; reflexivity) end. rewrite Ec.
  split; [|apply H5; exact Hex2]. mx_X H1. mx_X H3. apply H4. exact Hex2.
Qed.

(* ---------------------------------------------------------------- every step *)
Lemma cancel_task_start c :
  match pc (t_start c) with
  | PS_Resolve | PS_Tcp _ => must_cancel (t_start (cancel_task c TStart)) = true \/ do_connect (cancel_task c TStart) <> EPending
  | _ => True
  end.
Proof.
  unfold cancel_task. cbn [get_task]. destruct (pc (t_start c)) eqn:Ep; try exact I.
  all: unfold task_running; rewrite Ep; cbn [negb]; unfold cancel_awaited; cbn [pc set]; rewrite Ep;
       destruct (do_connect c) eqn:Ed; cbn [cancel_efut]; cbn; rewrite ?Ed; auto; right; discriminate.
Qed.

Lemma find_app_other (l : list (nat * task)) p x : fst p <> x ->
  match find (fun q => Nat.eqb (fst q) x) (l ++ [p]) with Some q => snd q | None => task0 end =
  match find (fun q => Nat.eqb (fst q) x) l with Some q => snd q | None => task0 end.
Proof.
  intro Hn. induction l as [|q l IHl]; cbn.
  - apply Nat.eqb_neq in Hn. rewrite Hn. reflexivity.
  - destruct (Nat.eqb (fst q) x); [reflexivity|exact IHl].
Qed.

Ltac sameM E HC HG := apply some_pair_inv in E; destruct E as [<- _]; first [exact HG | eapply GA_M; [|exact HC|exact HG]; first [apply M_refl | apply M_gv; reflexivity]].

Theorem step_GA c l c' o : CI c -> GA c -> step c l = Some (c', o) -> GA c'.
Proof.
  intros HC HG E. pose proof (i_f1 _ _ HC) as HF. destruct l; cbn [step] in E.
  - (* LStart *) destruct (cs c); try sameM E HC HG. destruct (pc (t_start c)); try discriminate.
    apply some_pair_inv in E. destruct E as [<- _]. eapply (GA_Mx c _ TStart); [apply Mx_gvS; reflexivity|exact HC|exact HG|].
    unfold tguard. cbn. left. discriminate.
  - (* LFinish *) destruct (cs c); try sameM E HC HG. destruct (pc (t_finish c)); try discriminate.
    apply some_pair_inv in E. destruct E as [<- _]. eapply (GA_Mx c _ TFinish); [apply Mx_gvF; reflexivity|exact HC|exact HG|].
    unfold tguard. cbn. exact I.
  - (* LDisconnect *)
    destruct (pc (t_disc c)); try discriminate. destruct (finish_fut c).
    2: { apply some_pair_inv in E. destruct E as [<- _]. eapply (GA_Mx c _ TDisc); [apply Mx_gvD; reflexivity|exact HC|exact HG|].
         unfold tguard. cbn. left. discriminate. }
    all: match type of E with Some (disconnect_after_wait ?x) = _ =>
           assert (H2 : Mx (eq TDisc) c x) by (apply Mx_gvD; reflexivity);
           assert (HFx : F1 x) by (apply (F1_Mx_gv c); [reflexivity|reflexivity|exact HF]);
           finX E (disconnect_after_wait_X x HFx) end;
         (eapply (GA_Mx c _ TDisc); [eapply Mx_trans; eassumption|exact HC|exact HG|exact B]).
  - (* LForce *)
    set (c1 := c <| expected_disconnect := true |>) in *.
    assert (H0 : M c c1) by (apply M_gv; reflexivity).
    destruct (handshake_complete c1).
    + pose proof (M_send_messages c1 [T_DISC_REQ]) as S. destruct (send_messages c1 [T_DISC_REQ]) as [[c2 o2] ex]. cbn [fst] in S.
      destruct ex as [[l| | | | |]|].
      2-6: apply some_pair_inv in E; destruct E as [<- _]; apply (GA_M c c2); [apply (M_trans c c1 c2 H0 S)|exact HC|exact HG].
      all: pose proof (M_cleanup c2) as S2'; destruct (cleanup c2) as [c3 o3]; cbn [fst] in S2';
           apply some_pair_inv in E; destruct E as [<- _]; apply (GA_M c c3); [apply (M_trans c c1 c3 H0); apply (M_trans c1 c2 c3 S S2')|exact HC|exact HG].
    + pose proof (M_cleanup c1) as S2'. destruct (cleanup c1) as [c3 o3]. cbn [fst] in S2'.
      apply some_pair_inv in E. destruct E as [<- _]. apply (GA_M c c3); [apply (M_trans c c1 c3 H0 S2')|exact HC|exact HG].
  - (* LCallStart *)
    set (cid := next_cid c) in *.
    match type of E with context [call_begin ?x ?a ?b ?d ?e ?f ?g] => set (c0 := x) in * end.
    assert (Hnew : forall x, find (fun q => Nat.eqb (fst q) x) (call_tasks c) <> None -> (x < cid)%nat).
    { intros x Hx. pose proof (i_tlt _ _ HC) as L. destruct (find _ (call_tasks c)) as [q|] eqn:Eq; [|congruence].
      apply find_some in Eq. destruct Eq as [Iq Eq]. apply Nat.eqb_eq in Eq. rewrite Forall_forall in L.
      destruct (L q Iq) as [L1|[]]. unfold cid. lia. }
    assert (Hself : get_task c0 (TCall cid) = task0 <| pc := PC_Wait cid |>).
    { unfold c0. cbn [get_task call_tasks set]. cbn.
      assert (Q : find (fun q => Nat.eqb (fst q) cid) (call_tasks c) = None).
      { destruct (find _ (call_tasks c)) eqn:Eq; [|reflexivity]. exfalso. assert (X : (cid < cid)%nat) by (apply Hnew; rewrite Eq; discriminate). lia. }
      rewrite find_app_none by exact Q. cbn. rewrite Nat.eqb_refl. reflexivity. }
    assert (H0 : Mx (eq (TCall cid)) c c0).
    { constructor; try (intros _; split; [reflexivity|auto]).
      - intros t Hn. destruct t; try apply tmono_refl. unfold c0. cbn [get_task call_tasks set]. cbn.
        rewrite find_app_other; [apply tmono_refl|]. cbn. intro Q. apply Hn. rewrite Q. reflexivity.
      - apply calls_refl_x. reflexivity. }
    assert (HF0 : F1 c0) by (apply (F1_Mx_gv c); [reflexivity|reflexivity|exact HF]).
    match type of E with context [call_begin ?x ?a ?b ?d ?e ?f ?g] =>
      destruct (call_begin_X (eq (TCall cid)) x a b d e f g HF0) as (HB & HX & HN); destruct (call_begin x a b d e f g) as [[[c1 o1] ex] cid'] end.
    cbn [fst snd] in HB, HX, HN.
    destruct ex as [e|].
    + specialize (HX ltac:(discriminate)).
      assert (Hex : exists_task (c1 <| next_cid := S cid |>) (TCall cid)).
      { apply pc_exists_task. destruct (m_t _ _ HX (TCall cid)) as [Ep _].
        change (get_task (c1 <| next_cid := S cid |>) (TCall cid)) with (get_task c1 (TCall cid)). rewrite Ep, Hself. discriminate. }
      match type of E with context [finish_task ?x ?t ?r] =>
        pose proof (Mx_finish_task x t r Hex) as H4; pose proof (tguard_done x t r Hex) as H5; destruct (finish_task x t r) as [c3 o3] end.
      cbn [fst] in *. apply some_pair_inv in E. destruct E as [<- _].
      eapply (GA_Mx c _ (TCall cid)); [|exact HC|exact HG|exact H5].
      mx_X H0. mx_X HB. eapply Mx_trans; [|exact H4]. apply M_Mx, M_gv. reflexivity.
    + apply some_pair_inv in E. destruct E as [<- _].
      destruct (HN eq_refl) as (Ec & kk & Gk & Tk & KT).
      eapply (GA_Mx c _ (TCall cid)); [eapply Mx_trans; eassumption|exact HC|exact HG|].
      unfold tguard. destruct (KT (TCall cid)) as [Ep _]. rewrite Ep, Hself. cbn. exists kk.
      assert (Q : cid' = cid) by (rewrite Ec; reflexivity). rewrite <- Q. split; [exact Gk|left; exact Tk].
  - (* LSend *)
    pose proof (M_send_messages c tys) as S. destruct (send_messages c tys) as [[c1 o1] ex]. cbn [fst] in S.
    apply some_pair_inv in E. destruct E as [<- _]. eapply GA_M; eassumption.
  - (* LCancel *)
    destruct (task_running _) eqn:Er; [|sameM E HC HG].
    apply some_pair_inv in E. destruct E as [<- _].
    assert (Hex : exists_task c t) by (apply pc_exists_task; intro Hp; unfold task_running in Er; rewrite Hp in Er; discriminate).
    eapply GA_M; [|exact HC|exact HG]. eapply M_trans; [|apply M_cancel_task]. apply M_set_task_mono; [exact Hex|split; [reflexivity|cbn; auto]].
  - (* LSub *) apply some_pair_inv in E. destruct E as [<- _]. eapply GA_M; [apply M_gv, gv_add|exact HC|exact HG].
  - (* LUnsub *) sameM E HC HG.
  - (* LResolveDone *) destruct (pc (t_start c)); try discriminate. destruct (do_connect c) eqn:Ed; try discriminate.
    apply some_pair_inv in E. destruct E as [<- _]. eapply GA_M; [|exact HC|exact HG]. M_fields; try (rewrite Ed; intro Q; exfalso; apply Q; reflexivity); try (intros _; discriminate).
  - (* LTcpDone *) destruct (pc (t_start c)); try discriminate. destruct (do_connect c) eqn:Ed; try discriminate.
    apply some_pair_inv in E. destruct E as [<- _]. eapply GA_M; [|exact HC|exact HG]. M_fields; try (rewrite Ed; intro Q; exfalso; apply Q; reflexivity); try (intros _; discriminate).
  - (* LMade *) destruct (transport c); try discriminate. destruct (made c); try discriminate. destruct (noise c); [sameM E HC HG|].
    apply some_pair_inv in E. destruct E as [<- _]. eapply GA_M; [|exact HC|exact HG]. M_fields; try (intros _; discriminate).
  - (* LMadeWaiter *) destruct (made_waiter c); try discriminate; sameM E HC HG.
  - (* LHelperReady *)
    destruct (ready c) eqn:Er; try discriminate. destruct (made c); try discriminate. destruct (transport c) eqn:Etr; try discriminate.
    destruct r as [e|].
    + pose proof (M_helper_error c e) as S. destruct (helper_error c e) as [c1 o1]. cbn [fst] in S.
      destruct (transport c1); apply some_pair_inv in E; destruct E as [<- _]; (eapply GA_M; [|exact HC|exact HG]);
        first [exact S | eapply M_trans; [exact S|apply M_gv; reflexivity]].
    + apply some_pair_inv in E. destruct E as [<- _]. eapply GA_M; [apply M_set_ready; discriminate|exact HC|exact HG].
  - (* LData *)
    destruct (transport c); try discriminate. destruct (made c); try discriminate.
    pose proof (M_data_loop items c (f_uniq _ HF)) as S.
    destruct (data_loop c items) as [[c1 o1] ex]. cbn [fst] in S.
    destruct ex as [e|]; apply some_pair_inv in E; destruct E as [<- _]; (eapply GA_M; [|exact HC|exact HG]); [|exact S].
    destruct (transport c1); first [exact S | eapply M_trans; [exact S|apply M_gv; reflexivity]].
  - (* LEof *)
    destruct (transport c); try discriminate. destruct (made c); try discriminate.
    pose proof (M_helper_error c (Lib LSocketClosed)) as S.
    destruct (helper_error c (Lib LSocketClosed)) as [c1 o1]. cbn [fst] in S.
    destruct (transport c1); apply some_pair_inv in E; destruct E as [<- _]; (eapply GA_M; [|exact HC|exact HG]);
      first [exact S | eapply M_trans; [exact S|apply M_gv; reflexivity]].
  - (* LLost *) destruct (transport c); try discriminate. sameM E HC HG.
  - (* LWriteFails *) sameM E HC HG.
  - (* LAdvance *) destruct (_ && _); [|discriminate]. sameM E HC HG.
  - (* LWake *)
    destruct t.
    + destruct (wake_start_X c c' o E) as [A B]. eapply GA_Mx; eassumption.
    + destruct (wake_finish_X c c' o E HC) as [A B]. eapply GA_Mx; eassumption.
    + destruct (wake_disc_X c c' o E HC) as [A B]. eapply GA_Mx; eassumption.
    + destruct (wake_call_X c cid c' o E HC) as [A B]. eapply GA_Mx; eassumption.
  - (* LIntr *)
    destruct is_start.
    + destruct (start_fut c); try discriminate. destruct (intr_start c); try discriminate; [|sameM E HC HG].
      apply some_pair_inv in E. destruct E as [<- _]. eapply GA_M; [|exact HC|exact HG]. eapply M_trans; [|apply M_cancel_task]. M_fields.
    + destruct (finish_fut c); try discriminate. destruct (intr_finish c); try discriminate; [|sameM E HC HG].
      apply some_pair_inv in E. destruct E as [<- _]. eapply GA_M; [|exact HC|exact HG]. eapply M_trans; [|apply M_cancel_task]. M_fields.
  - (* LDiscWaitDone *)
    destruct (pc (t_disc c)) eqn:Ep; try discriminate.
    destruct (finish_fut c); try discriminate; destruct (disc_wait_done c); try discriminate; try sameM E HC HG.
    all: apply some_pair_inv in E; destruct E as [<- _]; (eapply (GA_Mx c _ TDisc); [apply Mx_gvD; reflexivity|exact HC|exact HG|]);
         unfold tguard; cbn; rewrite Ep; right; right; reflexivity.
  - (* LConnLostCb *)
    destruct (transport c); try discriminate.
    match type of E with context [made ?x] => set (c1 := x) in *; assert (H0 : M c c1) by (apply M_gv; reflexivity) end.
    destruct (made c1); [|sameM E HC HG].
    apply some_inj in E. match type of E with helper_error c1 ?x = _ => pose proof (M_helper_error c1 x) as S end.
    rewrite E in S. cbn [fst] in S. apply (GA_M c c'); [apply (M_trans c c1 c' H0 S)|exact HC|exact HG].
  - (* LTimer *)
    destruct k.
    + destruct (due _ _); [|discriminate].
      set (c0 := c <| ping_timer := None |>) in *. assert (H0 : M c c0) by (apply M_gv; reflexivity).
      destruct (send_pending_ping c0); [|sameM E HC HG].
      pose proof (M_send_messages c0 [T_PING_REQ]) as S. destruct (send_messages c0 [T_PING_REQ]) as [[c1 o1] ex]. cbn [fst] in S.
      destruct ex as [e|]; apply some_pair_inv in E; destruct E as [<- _]; (eapply (GA_M c); [|exact HC|exact HG]).
      * apply (M_trans c c0 c1 H0 S).
      * eapply M_trans; [exact H0|]. eapply M_trans; [exact S|]. destruct (pong_timer c1); apply M_gv; reflexivity.
    + destruct (due _ _); [|discriminate]. apply some_inj in E.
      pose proof (M_report_fatal c (Lib LPingFailed)) as S. rewrite E in S. eapply GA_M; eassumption.
    + (* handshake timer *)
      destruct (due _ _); [|discriminate].
      assert (X : Mx (eq TFinish) c c' /\ ready c' <> RPending /\ t_finish c' = t_finish c /\ calls c' = calls c).
      { destruct (ready c) eqn:Er; apply some_pair_inv in E; destruct E as [<- _]; (split; [apply Mx_gvF; reflexivity|]); cbn; rewrite ?Er; repeat split; discriminate. }
      destruct X as (X1 & X2 & X3 & X4).
      eapply (GA_Mx c _ TFinish); [exact X1|exact HC|exact HG|].
      pose proof (HG TFinish) as G. unfold tguard in *. cbn [get_task] in *. rewrite X3.
      destruct (pc (t_finish c)); try exact G.
      * right. right. exact X2.
      * destruct G as (kk & Gk & Hk). exists kk. unfold get_call in *. rewrite X4. auto.
    + (* connect timer *)
      destruct (due _ _); [|discriminate].
      apply some_pair_inv in E. destruct E as [<- _].
      match goal with |- GA (cancel_task ?x TStart) =>
        assert (H0 : Mx (eq TStart) c x) by (apply Mx_gvS; reflexivity); pose proof (M_cancel_task x TStart) as H1;
        pose proof (cancel_task_start x) as H2; set (c1 := x) in * end.
      eapply (GA_Mx c _ TStart); [eapply Mx_trans; [exact H0|apply M_Mx; exact H1]|exact HC|exact HG|].
      pose proof (HG TStart) as G. unfold tguard in *. cbn [get_task] in *.
      destruct (m_t _ _ H1 TStart) as [Ep _]. cbn [get_task] in Ep. rewrite Ep.
      change (pc (t_start c1)) with (pc (t_start c)) in *.
      destruct (pc (t_start c)); try exact G; try contradiction; right; exact H2.
    + (* call timer *)
      destruct (get_call c cid) as [kk|]; [|discriminate]. destruct (due _ _); [|discriminate].
      apply some_pair_inv in E. destruct E as [<- _]. eapply GA_M; [|exact HC|exact HG]. apply M_upd_call. intro x. unfold crel.
      destruct (c_fut x) eqn:Ef; cbn; rewrite ?Ef; auto 6.
    + destruct (pc (t_disc c)) eqn:Ep; try discriminate. destruct (due _ _); [|discriminate].
      apply some_pair_inv in E. destruct E as [<- _]. eapply (GA_Mx c _ TDisc); [apply Mx_gvD; reflexivity|exact HC|exact HG|].
      unfold tguard. cbn. rewrite Ep. right. right. reflexivity.
Qed.

(* ---------------------------------------------------------------- all runs *)
Lemma GA_init n e ka scr : GA (init n e ka scr).
Proof. intro t. unfold tguard. destruct t; cbn; exact I. Qed.

Lemma run_GA ls : forall c c' os, CI c -> GA c -> run c ls = Some (c', os) -> CI c' /\ GA c'.
Proof.
  induction ls as [|l ls IH]; intros c c' os HC HG E; cbn [run] in E.
  - apply some_pair_inv in E. destruct E as [<- _]. split; assumption.
  - destruct (step c l) as [[c1 o]|] eqn:Es; [|discriminate].
    destruct (run c1 ls) as [[c2 os2]|] eqn:Er; [|discriminate].
    apply some_pair_inv in E. destruct E as [<- _].
    destruct (step_cancel c l c1 o HC Es) as [HC1 _]. pose proof (step_GA c l c1 o HC HG Es) as HG1.
    exact (IH c1 c2 os2 HC1 HG1 Er).
Qed.

Theorem every_await_guarded n e ka scr ls c os t : run (init n e ka scr) ls = Some (c, os) -> tguard c t.
Proof. intro E. destruct (run_GA ls _ _ _ (CI_init n e ka scr) (GA_init n e ka scr) E) as [_ G]. apply G. Qed.

(* ---- what the guard means *)
Definition ready_now (c : conn) (t : tid) : Prop :=
  let k := get_task c t in
  must_cancel k = true \/
  match pc k with
  | PS_Resolve | PS_Tcp _ => do_connect c <> EPending
  | PF_Create => made_waiter c <> EPending
  | PF_Ready => ready c <> RPending
  | PF_Hello cid | PD_Resp cid | PC_Wait cid => exists kk, get_call c cid = Some kk /\ cfut_done (c_fut kk) = true
  | PD_Wait => disc_wait_done c = true
  | _ => False
  end.
Definition deadline_of (c : conn) (t : tid) : option Z :=
  match pc (get_task c t) with
  | PS_Resolve | PS_Tcp _ => conn_timer c
  | PF_Ready => hs_timer c
  | PF_Hello cid | PD_Resp cid | PC_Wait cid => match get_call c cid with Some kk => c_timer kk | None => None end
  | PD_Wait => disc_timer c
  | _ => None
  end.

Lemma opt_some {A} (x : option A) : x <> None -> exists d, x = Some d.
Proof. destruct x; [eauto|congruence]. Qed.

(* a suspended coroutine can be resumed now, or an armed timer stands behind what it awaits, or it waits for the transport's
   own connection_made call, which is already scheduled *)
Theorem guard_meaning c t : tguard c t -> task_running (get_task c t) = true ->
  ready_now c t \/ (exists d, deadline_of c t = Some d) \/ (t = TFinish /\ pc (get_task c t) = PF_Create /\ made_waiter c = EPending).
Proof.
  unfold tguard, ready_now, deadline_of, task_running, call_guard. intros G R.
  destruct t; destruct (pc (get_task c _)) eqn:Ep; try discriminate; try contradiction.
  all: try (destruct G as [G|[G|G]]; [right; left; apply opt_some; exact G|left; left; exact G|left; right; exact G]).
  all: try (destruct G as (kk & Gk & [G|[G|G]]);
            [right; left; rewrite Gk; apply opt_some; exact G|left; right; exists kk; split; assumption|left; left; exact G]).
  destruct (made_waiter c) eqn:Em; try (left; right; discriminate). right. right. auto.
Qed.

Theorem deadline_is_armed c t d : deadline_of c t = Some d -> In d (armed_deadlines c).
Proof.
  unfold deadline_of, armed_deadlines. intro H. rewrite !in_app_iff.
  destruct (pc (get_task c t)); try discriminate.
  1,2: right; right; right; left; rewrite H; left; reflexivity.
  1: right; right; left; rewrite H; left; reflexivity.
  2: right; right; right; right; left; rewrite H; left; reflexivity.
  all: destruct (get_call c cid) as [kk|] eqn:G; [|discriminate]; apply get_call_in in G; destruct G as [G _];
       right; right; right; right; right; apply in_flat_map; exists kk; split; [exact G|rewrite H; left; reflexivity].
Qed.

(* a task that is ready is resumed by its wake-up label *)
Theorem ready_can_wake c t : CI c -> GA c -> task_running (get_task c t) = true -> ready_now c t -> step c (LWake t) <> None.
Proof.
  intros HC HG R Hr. pose proof (HG t) as G. unfold ready_now in Hr. unfold tguard, task_running in *.
  destruct t; cbn [step].
  - unfold wake_start. cbn [get_task] in *. destruct (pc (t_start c)); try discriminate; try contradiction.
    all: assert (Q : must_cancel (t_start c) || negb (match do_connect c with EPending => true | _ => false end) = true)
           by (destruct Hr as [Hr|Hr]; [rewrite Hr; reflexivity|destruct (do_connect c); try (apply orb_true_r); exfalso; apply Hr; reflexivity]);
         rewrite Q; destruct (take_cancel c TStart) as [c1 mc]; repeat dm; discriminate.
  - unfold wake_finish. cbn [get_task] in *. destruct (pc (t_finish c)); try discriminate; try contradiction.
    + assert (Q : must_cancel (t_finish c) || negb (match made_waiter c with EPending => true | _ => false end) = true)
        by (destruct Hr as [Hr|Hr]; [rewrite Hr; reflexivity|destruct (made_waiter c); try (apply orb_true_r); exfalso; apply Hr; reflexivity]).
      rewrite Q. destruct (take_cancel c TFinish) as [c1 mc]. repeat dm; discriminate.
    + assert (Q : must_cancel (t_finish c) || negb (match ready c with RPending => true | _ => false end) = true)
        by (destruct Hr as [Hr|Hr]; [rewrite Hr; reflexivity|destruct (ready c); try (apply orb_true_r); exfalso; apply Hr; reflexivity]).
      rewrite Q. destruct (take_cancel c TFinish) as [c1 mc]. repeat dm; discriminate.
    + destruct G as (kk & Gk & _). rewrite Gk.
      assert (Q : must_cancel (t_finish c) || cfut_done (c_fut kk) = true)
        by (destruct Hr as [Hr|(k2 & G2 & D2)]; [rewrite Hr; reflexivity|rewrite Gk in G2; apply some_inj in G2; subst k2; rewrite D2; apply orb_true_r]).
      rewrite Q. destruct (take_cancel c TFinish) as [c1 mc]. repeat dm; discriminate.
  - unfold wake_disc. cbn [get_task] in *. destruct (pc (t_disc c)); try discriminate; try contradiction.
    + assert (Q : must_cancel (t_disc c) || disc_wait_done c = true)
        by (destruct Hr as [Hr|Hr]; [rewrite Hr; reflexivity|rewrite Hr; apply orb_true_r]).
      rewrite Q. destruct (take_cancel c TDisc) as [c1 mc]. repeat dm; discriminate.
    + destruct G as (kk & Gk & _). rewrite Gk.
      assert (Q : must_cancel (t_disc c) || cfut_done (c_fut kk) = true)
        by (destruct Hr as [Hr|(k2 & G2 & D2)]; [rewrite Hr; reflexivity|rewrite Gk in G2; apply some_inj in G2; subst k2; rewrite D2; apply orb_true_r]).
      rewrite Q. destruct (take_cancel c TDisc) as [c1 mc]. repeat dm; discriminate.
  - unfold wake_call. destruct (pc (get_task c (TCall cid))) eqn:Ep; try discriminate; try contradiction.
    destruct G as (kk & Gk & _).
    assert (Hc : cid0 = cid).
    { destruct (i_aw _ _ HC (TCall cid) cid0 ltac:(discriminate) (fun F => F)) as (k2 & G2 & O2); [rewrite Ep; reflexivity|].
      destruct (get_call_in _ _ _ G2) as [I2 E2]. pose proof (i_own _ _ HC k2 cid I2 O2) as Hx. congruence. }
    subst cid0. rewrite Gk.
    assert (Q : must_cancel (get_task c (TCall cid)) || cfut_done (c_fut kk) = true)
      by (destruct Hr as [Hr|(k2 & G2 & D2)]; [rewrite Hr; reflexivity|rewrite Gk in G2; apply some_inj in G2; subst k2; rewrite D2; apply orb_true_r]).
    rewrite Q. destruct (take_cancel c (TCall cid)) as [c1 mc]. discriminate.
Qed.

Lemma get_call_upd c cid f cid' : (forall x, c_id (f x) = c_id x) ->
  get_call (upd_call c cid f) cid' = option_map (fun k => if Nat.eqb (c_id k) cid then f k else k) (get_call c cid').
Proof.
  intro H. unfold get_call, upd_call. cbn [calls set]. apply find_map_id. intro x. destruct (Nat.eqb (c_id x) cid); [apply H|reflexivity].
Qed.
Lemma get_task_upd c cid f t : get_task (upd_call c cid f) t = get_task c t.
Proof. destruct t; reflexivity. Qed.
Lemma timer_fired_done c cid kk :
  get_call c cid = Some kk ->
  exists k', get_call (upd_call c cid (fun x => (match c_fut x with CPending => x <| c_fut := CExc PyTimeout |> | _ => x end) <| c_timer := None |>)) cid = Some k'
             /\ cfut_done (c_fut k') = true.
Proof.
  intro G. rewrite get_call_upd by (intro x; destruct (c_fut x); reflexivity). rewrite G. cbn [option_map].
  eexists. split; [reflexivity|]. apply find_some in G. destruct G as [_ G]. rewrite G. destruct (c_fut kk) eqn:Ef; cbn; rewrite ?Ef; reflexivity.
Qed.

(* a deadline that has been reached fires (its timer label is enabled) and leaves the task ready *)
Theorem due_deadline_fires c t d : GA c -> task_running (get_task c t) = true -> deadline_of c t = Some d -> d <= now c ->
  exists k c' o, step c (LTimer k) = Some (c', o) /\ ready_now c' t.
Proof.
  intros HG R Hd Hle. pose proof (HG t) as G. unfold deadline_of in Hd. unfold tguard, task_running in *.
  assert (Hdue : forall x, x = Some d -> due x c = true) by (intros x ->; unfold due; apply Z.leb_le; exact Hle).
  destruct t; cbn [get_task] in *.
  - (* start: the connect timer *)
    exists TkConnect. cbn [step]. destruct (pc (t_start c)) eqn:Ep; try discriminate; try contradiction.
    all: rewrite (Hdue _ Hd); eexists; eexists; (split; [reflexivity|]);
         match goal with |- ready_now (cancel_task ?x TStart) TStart =>
           pose proof (cancel_task_start x) as H2; pose proof (m_t _ _ (M_cancel_task x TStart) TStart) as [Ep2 _] end;
         cbn [get_task t_start set pc] in H2, Ep2; rewrite Ep in H2; unfold ready_now; cbn [get_task]; rewrite Ep2; cbn [t_start set pc]; rewrite Ep;
         destruct H2 as [H2|H2]; [left; exact H2|right; exact H2].
  - destruct (pc (t_finish c)) eqn:Ep; try discriminate; try contradiction.
    + (* handshake timer *)
      exists TkHandshake. cbn [step]. rewrite (Hdue _ Hd). eexists. eexists. split; [reflexivity|].
      unfold ready_now. cbn [get_task]. destruct (ready c) eqn:Er; cbn; rewrite Ep; right; rewrite ?Er; discriminate.
    + (* hello call *)
      destruct (get_call c cid) as [kk|] eqn:Gk; [|discriminate].
      exists (TkCall cid). cbn [step]. rewrite Gk, (Hdue _ Hd). eexists. eexists. split; [reflexivity|].
      unfold ready_now. rewrite get_task_upd. cbn [get_task]. rewrite Ep. right. apply (timer_fired_done _ _ kk). exact Gk.
  - destruct (pc (t_disc c)) eqn:Ep; try discriminate; try contradiction.
    + exists TkDiscWait. cbn [step]. rewrite Ep, (Hdue _ Hd). eexists. eexists. split; [reflexivity|].
      unfold ready_now. cbn. rewrite Ep. right. reflexivity.
    + destruct (get_call c cid) as [kk|] eqn:Gk; [|discriminate].
      exists (TkCall cid). cbn [step]. rewrite Gk, (Hdue _ Hd). eexists. eexists. split; [reflexivity|].
      unfold ready_now. rewrite get_task_upd. cbn [get_task]. rewrite Ep. right. apply (timer_fired_done _ _ kk). exact Gk.
  - destruct (pc (match find _ (call_tasks c) with Some p => snd p | None => task0 end)) eqn:Ep; try discriminate; try contradiction.
    destruct (get_call c cid0) as [kk|] eqn:Gk; [|discriminate].
    exists (TkCall cid0). cbn [step]. rewrite Gk, (Hdue _ Hd). eexists. eexists. split; [reflexivity|].
    unfold ready_now. rewrite get_task_upd. cbn [get_task]. rewrite Ep. right. apply (timer_fired_done _ _ kk). exact Gk.
Qed.

(* create_connection: the transport calls connection_made by itself *)
Theorem made_waiter_arrives c : pc (t_finish c) = PF_Create -> made_waiter c = EPending ->
  exists c', step c LMadeWaiter = Some (c', []) /\ ready_now c' TFinish.
Proof.
  intros Ep Em. cbn [step]. rewrite Em. eexists. split; [reflexivity|]. unfold ready_now. cbn. rewrite Ep. right. discriminate.
Qed.

(* ---- over all runs *)
Theorem no_unguarded_await n e ka scr ls c os t :
  run (init n e ka scr) ls = Some (c, os) -> task_running (get_task c t) = true ->
  ready_now c t \/ (exists d, deadline_of c t = Some d /\ In d (armed_deadlines c)) \/
  (t = TFinish /\ pc (get_task c t) = PF_Create /\ made_waiter c = EPending).
Proof.
  intros E R. destruct (guard_meaning c t (every_await_guarded n e ka scr ls c os t E) R) as [H|[(d & H)|H]]; auto.
  right. left. exists d. split; [exact H|eapply deadline_is_armed; exact H].
Qed.
Theorem ready_task_resumes n e ka scr ls c os t :
  run (init n e ka scr) ls = Some (c, os) -> task_running (get_task c t) = true -> ready_now c t -> step c (LWake t) <> None.
Proof.
  intros E R Hr. destruct (run_GA ls _ _ _ (CI_init n e ka scr) (GA_init n e ka scr) E) as [HC HG]. apply ready_can_wake; assumption.
Qed.
Theorem reached_deadline_fires n e ka scr ls c os t d :
  run (init n e ka scr) ls = Some (c, os) -> task_running (get_task c t) = true -> deadline_of c t = Some d -> d <= now c ->
  exists k c' o, step c (LTimer k) = Some (c', o) /\ ready_now c' t.
Proof.
  intros E R Hd Hle. destruct (run_GA ls _ _ _ (CI_init n e ka scr) (GA_init n e ka scr) E) as [HC HG]. eapply due_deadline_fires; eassumption.
Qed.
