(* For C07 (the argument of the stop callback): what every function of Model/Conn.v can do to the expected-disconnect flag,
   to the history of stop calls and to the table entries of the three internal handlers.
   Kp  = "the flag is untouched, every stop call made reports the flag, internal handlers untouched, disconnect task untouched";
   G   = "the flag can only be raised; a stop call made while it is up reports true, one made while it is down reports false". *)
From Coq Require Import NArith ZArith List Bool Lia.
From RecordUpdate Require Import RecordSet.
From Verif Require Import Generated.GenConstants Model.Conn Proofs.ConnCore Proofs.ConnSync Proofs.ConnStep.
Import ListNotations RecordSetNotations.
Open Scope Z_scope.
Open Scope list_scope.

Definition internal (h : hid) : bool := match h with HDisc | HPing | HTime => true | _ => false end.
Definition ty_of (h : hid) : N := match h with HDisc => T_DISC_REQ | HPing => T_PING_REQ | HTime => T_TIME_REQ | _ => 0%N end.

Definition vw (c : conn) := (expected_disconnect c, stop_calls c, handlers c, pc (t_disc c), handshake_complete c).

(* the internal entries of the handler table: none disappears, one appears only under its own message type *)
Definition IH (c c' : conn) : Prop :=
  forall ty h, internal h = true ->
    (In (ty, h) (handlers c) -> In (ty, h) (handlers c')) /\
    (In (ty, h) (handlers c') -> In (ty, h) (handlers c) \/ ty = ty_of h).

Definition ST (c c' : conn) : Prop :=
  exists suf, stop_calls c' = stop_calls c ++ suf /\ Forall (eq (expected_disconnect c)) suf.

(* the handshake-complete flag is raised only where the internal handlers are registered *)
Definition HS (c c' : conn) : Prop :=
  handshake_complete c' = true -> handshake_complete c = true \/ In (T_DISC_REQ, HDisc) (handlers c').

Record K3 (c c' : conn) : Prop := {
  r_ex : expected_disconnect c' = expected_disconnect c;
  r_st : ST c c';
  r_ih : IH c c';
  r_hs : HS c c' }.

Record Kp (c c' : conn) : Prop := {
  r_3 : K3 c c';
  r_pd : pc (t_disc c') = pc (t_disc c) }.

Definition G (c c' : conn) : Prop :=
  (exists suf, stop_calls c' = stop_calls c ++ suf /\
     (expected_disconnect c = true -> Forall (eq true) suf) /\
     (expected_disconnect c' = false -> Forall (eq false) suf)) /\
  (expected_disconnect c = true -> expected_disconnect c' = true) /\
  IH c c' /\ HS c c'.

(* inversion without normalising the (large) terms involved *)
Lemma some_inj {A} (a b : A) : Some a = Some b -> a = b.
Proof. intro H. injection H as H. exact H. Qed.
Lemma pair_inv {A B} (a c : A) (b d : B) : (a, b) = (c, d) -> a = c /\ b = d.
Proof. intro H. injection H as H1 H2. auto. Qed.
Lemma some_pair_inv {A B} (a c : A) (b d : B) : Some (a, b) = Some (c, d) -> a = c /\ b = d.
Proof. intro H. apply some_inj in H. apply pair_inv in H. exact H. Qed.

Lemma IH_refl c : IH c c.
Proof. intros ty h _. split; auto. Qed.
Lemma IH_trans a b c : IH a b -> IH b c -> IH a c.
Proof.
  intros H1 H2 ty h Hi. destruct (H1 ty h Hi) as [A1 A2]. destruct (H2 ty h Hi) as [B1 B2]. split; [auto|].
  intro H. destruct (B2 H) as [H'|H']; auto.
Qed.
Lemma IH_eq c c' : handlers c' = handlers c -> IH c c'.
Proof. intros E ty h _. rewrite E. split; auto. Qed.

Lemma HS_eq c c' : handshake_complete c' = handshake_complete c -> HS c c'.
Proof. intros E H. left. congruence. Qed.
Lemma HS_trans a b c : HS a b -> HS b c -> IH b c -> HS a c.
Proof.
  intros H1 H2 K H. destruct (H2 H) as [Hb|Hb]; [|auto]. destruct (H1 Hb) as [Ha|Ha]; [auto|].
  right. destruct (K T_DISC_REQ HDisc eq_refl) as [K1 _]. auto.
Qed.

Lemma ST_refl c : ST c c.
Proof. exists []. rewrite app_nil_r. split; [reflexivity|constructor]. Qed.

Lemma Kp_vw c c' : vw c' = vw c -> Kp c c'.
Proof.
  unfold vw. intro E. injection E as E1 E2 E3 E4 E5.
  constructor; [constructor|]; try assumption.
  - exists []. rewrite app_nil_r. split; [assumption|constructor].
  - apply IH_eq. assumption.
  - apply HS_eq. assumption.
Qed.
Lemma Kp_refl c : Kp c c.
Proof. apply Kp_vw. reflexivity. Qed.

Lemma K3_trans a b c : K3 a b -> K3 b c -> K3 a c.
Proof.
  intros [A1 (s1 & A2 & A3) A4 A5] [B1 (s2 & B2 & B3) B4 B5]. constructor.
  - congruence.
  - exists (s1 ++ s2). split; [rewrite B2, A2, app_assoc; reflexivity|].
    apply Forall_app. split; [exact A3|]. rewrite A1 in B3. exact B3.
  - eapply IH_trans; eassumption.
  - eapply HS_trans; eassumption.
Qed.
Lemma Kp_trans a b c : Kp a b -> Kp b c -> Kp a c.
Proof. intros [A1 A2] [B1 B2]. constructor; [eapply K3_trans; eassumption|congruence]. Qed.

Lemma G_K3 c c' : K3 c c' -> G c c'.
Proof.
  intros [A1 (s & A2 & A3) A4 A5]. split; [|split; [congruence|split; [exact A4|exact A5]]].
  exists s. split; [exact A2|]. split; intro H; try rewrite A1 in H; rewrite H in A3; exact A3.
Qed.
Lemma G_Kp c c' : Kp c c' -> G c c'.
Proof. intros [H _]. apply G_K3. exact H. Qed.
Lemma G_refl c : G c c.
Proof. apply G_Kp, Kp_refl. Qed.
Lemma G_trans a b c : G a b -> G b c -> G a c.
Proof.
  intros ((s1 & A1 & A2 & A3) & A4 & A5 & A6) ((s2 & B1 & B2 & B3) & B4 & B5 & B6).
  split; [|split; [auto|split; [eapply IH_trans; eassumption|eapply HS_trans; eassumption]]].
  exists (s1 ++ s2). split; [rewrite B1, A1, app_assoc; reflexivity|]. split; intro H.
  - apply Forall_app. split; [auto|]. auto.
  - apply Forall_app. split; [|auto]. apply A3.
    destruct (expected_disconnect b) eqn:Eb; [|reflexivity]. rewrite (B4 eq_refl) in H. discriminate.
Qed.
Lemma G_raise c : G c (c <| expected_disconnect := true |>).
Proof.
  split; [|split; [reflexivity|split; [apply IH_eq; reflexivity|apply HS_eq; reflexivity]]].
  exists []. split; [symmetry; apply app_nil_r|]. split; constructor.
Qed.

(* "the flag is up afterwards, and every stop call made reports true" *)
Definition Sets (c c' : conn) : Prop :=
  expected_disconnect c' = true /\ exists suf, stop_calls c' = stop_calls c ++ suf /\ Forall (eq true) suf.
Lemma Sets_raise_G c c' : G (c <| expected_disconnect := true |>) c' -> Sets c c'.
Proof.
  intros ((s & A1 & A2 & A3) & A4 & A5 & A6). split; [apply A4; reflexivity|].
  exists s. split; [exact A1|apply A2; reflexivity].
Qed.
Lemma Sets_G c c1 c2 : Sets c c1 -> G c1 c2 -> Sets c c2.
Proof.
  intros (A1 & s1 & A2 & A3) ((s2 & B1 & B2 & B3) & B4 & B5 & B6). split; [auto|].
  exists (s1 ++ s2). split; [rewrite B1, A2, app_assoc; reflexivity|]. apply Forall_app. auto.
Qed.
Lemma Kp_Sets c c1 c2 : Kp c c1 -> expected_disconnect c = false -> stop_calls c1 = stop_calls c -> Sets c1 c2 -> Sets c c2.
Proof. intros _ _ E (A1 & s & A2 & A3). split; [exact A1|]. exists s. rewrite <- E. auto. Qed.

Ltac dm := match goal with |- context [match ?x with _ => _ end] =>
             lazymatch x with context [match _ with _ => _ end] => fail | _ => destruct x eqn:? end end.

(* ---------------------------------------------------------------- the synchronous functions *)
Lemma vw_set_start_future c : vw (set_start_future c) = vw c.
Proof. unfold set_start_future. destruct (start_fut c); reflexivity. Qed.
Lemma vw_set_finish_future c : vw (set_finish_future c) = vw c.
Proof. unfold set_finish_future. destruct (finish_fut c); reflexivity. Qed.
Lemma vw_helper_close c : vw (fst (helper_close c)) = vw c.
Proof. unfold helper_close. repeat dm; reflexivity. Qed.
Lemma vw_release c : vw (fst (release_resources c)) = vw c.
Proof.
  unfold release_resources. destruct (helper c).
  - destruct (socket c); reflexivity.
  - pose proof (vw_helper_close c) as H. destruct (helper_close c) as [c1 o1]. cbn [fst] in H.
    destruct (socket _); cbn [fst]; rewrite <- H; reflexivity.
  - pose proof (vw_helper_close c) as H. destruct (helper_close c) as [c1 o1]. cbn [fst] in H.
    destruct (socket _); cbn [fst]; rewrite <- H; reflexivity.
Qed.

Definition pre_close (c : conn) : conn :=
  let c1 := set_state c Closed <| closed_at := Some (now c) |> in
  let e := waiter_exc (fatal c1) in
  let c2 := c1 <| calls := map (fun k => if existsb (Nat.eqb (c_id k)) (waiters c1) then fail_waiter e k else k) (calls c1) |>
               <| waiters := [] |> in
  set_finish_future (set_start_future c2).
Lemma Kp_of c c' : expected_disconnect c' = expected_disconnect c -> stop_calls c' = stop_calls c ->
  pc (t_disc c') = pc (t_disc c) -> IH c c' -> HS c c' -> Kp c c'.
Proof.
  intros A B D E F. constructor; [constructor|]; auto. exists []. rewrite app_nil_r. split; [auto|constructor].
Qed.
Lemma Kp_pre_close c : Kp c (pre_close c).
Proof.
  unfold pre_close.
  match goal with |- Kp c (set_finish_future (set_start_future ?x)) =>
    apply (Kp_trans c x); [|apply Kp_vw; rewrite vw_set_finish_future, vw_set_start_future; reflexivity] end.
  apply Kp_of; try reflexivity; [apply IH_eq; reflexivity|]. intro H. discriminate H.
Qed.
Lemma Kp_fire c : Kp c (c <| on_stop_armed := false |> <| stop_calls := stop_calls c ++ [expected_disconnect c] |>).
Proof.
  constructor; [constructor|]; try reflexivity.
  - exists [expected_disconnect c]. split; [reflexivity|constructor; [reflexivity|constructor]].
  - apply IH_eq. reflexivity.
  - apply HS_eq. reflexivity.
Qed.

Lemma cleanup_open c : cs c <> Closed ->
  cleanup c = let '(c4, o) := release_resources (pre_close c) in
              if on_stop_armed c4 && is_connected c then
                (c4 <| on_stop_armed := false |> <| stop_calls := stop_calls c4 ++ [expected_disconnect c4] |>, o ++ [OStop (expected_disconnect c4)])
              else (c4, o).
Proof. intro H. unfold cleanup, pre_close. destruct (cs c); try reflexivity. contradiction. Qed.

Lemma Kp_cleanup c : Kp c (fst (cleanup c)).
Proof.
  destruct (cs c) eqn:Ecs; try (unfold cleanup; rewrite Ecs; apply Kp_vw, vw_release).
  all: rewrite cleanup_open by congruence;
    pose proof (vw_release (pre_close c)) as H;
    destruct (release_resources (pre_close c)) as [c4 o4]; cbn [fst] in H;
    (apply (Kp_trans c (pre_close c)); [apply Kp_pre_close|]);
    (apply (Kp_trans _ c4); [apply Kp_vw; exact H|]);
    destruct (on_stop_armed c4 && is_connected c); cbn [fst]; [apply Kp_fire|apply Kp_refl].
Qed.

Lemma Kp_report_fatal c e : Kp c (fst (report_fatal c e)).
Proof.
  unfold report_fatal. destruct (fatal c); [apply Kp_cleanup|].
  apply (Kp_trans c (c <| fatal := Some e |>)); [apply Kp_vw; reflexivity|apply Kp_cleanup].
Qed.
Lemma Kp_helper_error c e : Kp c (fst (helper_error c e)).
Proof.
  unfold helper_error. destruct (ready c); try apply Kp_report_fatal.
  apply (Kp_trans c (c <| ready := RExc e |>)); [apply Kp_vw; reflexivity|apply Kp_report_fatal].
Qed.
Lemma Kp_send_messages c tys : Kp c (fst (fst (send_messages c tys))).
Proof.
  unfold send_messages. destruct (negb (handshake_complete c)); [apply Kp_refl|].
  destruct (write_fails c).
  - pose proof (Kp_report_fatal c (Lib LSocketClosed)) as H. destruct (report_fatal c (Lib LSocketClosed)) as [c1 o]. exact H.
  - destruct (transport c); apply Kp_refl.
Qed.
Lemma send_messages_ok c tys c1 o : send_messages c tys = (c1, o, None) -> c1 = c.
Proof.
  unfold send_messages. destruct (negb (handshake_complete c)); [intro H; apply pair_inv in H; destruct H as [_ H]; discriminate H|].
  destruct (write_fails c).
  - destruct (report_fatal c (Lib LSocketClosed)) as [c2 o2]. intro H. apply pair_inv in H. destruct H as [_ H]. discriminate H.
  - destruct (transport c); intro H; apply pair_inv in H; destruct H as [H _]; apply pair_inv in H; destruct H as [H _]; auto.
Qed.

(* the handler table *)
Lemma IH_add c ty h : internal h = false -> IH c (add_handler c ty h).
Proof.
  intros Hn ty' h' Hi. unfold add_handler. destruct (existsb _ _); [split; auto|]. cbn [handlers set].
  change (handlers (c <| handlers := handlers c ++ [(ty, h)] |>)) with (handlers c ++ [(ty, h)]).
  split; intro H.
  - apply in_or_app. auto.
  - apply in_app_or in H. destruct H as [H|[H|[]]]; [auto|]. injection H as _ <-. congruence.
Qed.
Lemma vw3_add c ty h : expected_disconnect (add_handler c ty h) = expected_disconnect c /\
  stop_calls (add_handler c ty h) = stop_calls c /\ pc (t_disc (add_handler c ty h)) = pc (t_disc c) /\
  handshake_complete (add_handler c ty h) = handshake_complete c.
Proof. unfold add_handler. destruct (existsb _ _); repeat split; reflexivity. Qed.
Lemma Kp_add c ty h : internal h = false -> Kp c (add_handler c ty h).
Proof. intro Hn. destruct (vw3_add c ty h) as (A & B & D & F). apply Kp_of; auto; [apply IH_add; exact Hn|apply HS_eq; exact F]. Qed.
Lemma IH_remove c ty h : internal h = false -> IH c (remove_handler c ty h).
Proof.
  intros Hn ty' h' Hi. unfold remove_handler.
  change (handlers (c <| handlers := filter (fun p => negb (N.eqb (fst p) ty && hid_eqb (snd p) h)) (handlers c) |>))
    with (filter (fun p => negb (N.eqb (fst p) ty && hid_eqb (snd p) h)) (handlers c)).
  split; intro H.
  - apply filter_In. split; [exact H|]. cbn [fst snd].
    assert (E : hid_eqb h' h = false) by (destruct h', h; try reflexivity; discriminate).
    rewrite E, andb_false_r. reflexivity.
  - apply filter_In in H. left. tauto.
Qed.
Lemma Kp_remove c ty h : internal h = false -> Kp c (remove_handler c ty h).
Proof. intro Hn. apply Kp_of; try reflexivity; [apply IH_remove; exact Hn|apply HS_eq; reflexivity]. Qed.
Lemma Kp_run_action c a : Kp c (run_action c a).
Proof. destruct a; cbn [run_action]; [apply Kp_add|apply Kp_remove]; reflexivity. Qed.
Lemma Kp_fold_actions l : forall c, Kp c (fold_left run_action l c).
Proof.
  induction l as [|a l IHl]; intro c; cbn [fold_left]; [apply Kp_refl|].
  eapply Kp_trans; [apply Kp_run_action|apply IHl].
Qed.
Lemma Kp_fold_add l h : internal h = false -> forall c, Kp c (fold_left (fun a ty => add_handler a ty h) l c).
Proof.
  intro Hn. induction l as [|a l IHl]; intro c; cbn [fold_left]; [apply Kp_refl|].
  eapply Kp_trans; [apply Kp_add; exact Hn|apply IHl].
Qed.
Lemma Kp_fold_remove l h : internal h = false -> forall c, Kp c (fold_left (fun a ty => remove_handler a ty h) l c).
Proof.
  intro Hn. induction l as [|a l IHl]; intro c; cbn [fold_left]; [apply Kp_refl|].
  eapply Kp_trans; [apply Kp_remove; exact Hn|apply IHl].
Qed.
Lemma vw_handle_call_message c cid m : vw (handle_call_message c cid m) = vw c.
Proof. unfold handle_call_message. repeat dm; reflexivity. Qed.

(* one handler *)
Lemma Kp_call_handler c h m : h <> HDisc -> Kp c (fst (fst (call_handler c h m))).
Proof.
  intro Hn. destruct h; cbn [call_handler]; try contradiction.
  - apply Kp_send_messages.
  - apply Kp_send_messages.
  - cbn [fst]. apply Kp_vw, vw_handle_call_message.
  - cbn [fst]. apply Kp_fold_actions.
Qed.
Lemma Sets_call_disc c m : Sets c (fst (fst (call_handler c HDisc m))) /\ G c (fst (fst (call_handler c HDisc m))) /\
  pc (t_disc (fst (fst (call_handler c HDisc m)))) = pc (t_disc c).
Proof.
  cbn [call_handler]. set (c1 := c <| expected_disconnect := true |>).
  pose proof (Kp_send_messages c1 [T_DISC_RESP]) as H. destruct (send_messages c1 [T_DISC_RESP]) as [[c2 o] ex]. cbn [fst] in H.
  assert (K : Kp c1 (fst (fst (match ex with Some e => (c2, o, Some e) | None => let '(c3, o3) := cleanup c2 in (c3, o ++ o3, None) end)))).
  { destruct ex; cbn [fst]; [exact H|].
    pose proof (Kp_cleanup c2) as H2. destruct (cleanup c2) as [c3 o3]. cbn [fst] in *. eapply Kp_trans; eassumption. }
  split; [|split].
  - apply Sets_raise_G. apply G_Kp. exact K.
  - eapply G_trans; [apply G_raise|]. apply G_Kp. exact K.
  - destruct K as [_ K]. exact K.
Qed.
Lemma G_call_handler c h m : G c (fst (fst (call_handler c h m))) /\ pc (t_disc (fst (fst (call_handler c h m)))) = pc (t_disc c).
Proof.
  destruct (match h with HDisc => true | _ => false end) eqn:E.
  - destruct h; try discriminate. destruct (Sets_call_disc c m) as (_ & A & B). auto.
  - assert (Hn : h <> HDisc) by (intros ->; discriminate).
    pose proof (Kp_call_handler c h m Hn) as K. split; [apply G_Kp; exact K|destruct K as [_ K]; exact K].
Qed.
Lemma call_handler_no_exc c h m : h <> HDisc -> h <> HPing -> h <> HTime -> snd (call_handler c h m) = None.
Proof. intros A B D. destruct h; try contradiction; reflexivity. Qed.

Lemma stops_add c ty h : stop_calls (add_handler c ty h) = stop_calls c.
Proof. unfold add_handler. destruct (existsb _ _); reflexivity. Qed.
Lemma stops_fold_actions l : forall c, stop_calls (fold_left run_action l c) = stop_calls c.
Proof.
  induction l as [|a l IHl]; intro c; cbn [fold_left]; [reflexivity|]. rewrite IHl.
  destruct a; cbn [run_action]; [apply stops_add|reflexivity].
Qed.
Lemma stops_call_handler c h m : h <> HDisc -> h <> HPing -> h <> HTime ->
  stop_calls (fst (fst (call_handler c h m))) = stop_calls c.
Proof.
  intros A B D. destruct h; try contradiction; cbn [call_handler fst].
  - pose proof (vw_handle_call_message c cid m) as H. unfold vw in H. injection H as _ H _ _ _. exact H.
  - apply stops_fold_actions.
Qed.

Lemma Kp_run_handlers hs m : ~ In HDisc hs -> forall c, Kp c (fst (fst (run_handlers c hs m))).
Proof.
  induction hs as [|h hs IHh]; intros Hn c; cbn [run_handlers fst]; [apply Kp_refl|].
  assert (Hh : h <> HDisc) by (intros ->; apply Hn; left; reflexivity).
  pose proof (Kp_call_handler c h m Hh) as H1. destruct (call_handler c h m) as [[c1 o1] ex]. cbn [fst] in H1.
  destruct ex; cbn [fst]; [exact H1|].
  assert (Hr : ~ In HDisc hs) by (intro; apply Hn; right; assumption).
  specialize (IHh Hr c1). destruct (run_handlers c1 hs m) as [[c2 o2] ex2]. cbn [fst] in *.
  eapply Kp_trans; eassumption.
Qed.
Lemma G_run_handlers hs m : forall c, G c (fst (fst (run_handlers c hs m))) /\ pc (t_disc (fst (fst (run_handlers c hs m)))) = pc (t_disc c).
Proof.
  induction hs as [|h hs IHh]; intro c; cbn [run_handlers fst]; [split; [apply G_refl|reflexivity]|].
  pose proof (G_call_handler c h m) as [H1 P1]. destruct (call_handler c h m) as [[c1 o1] ex]. cbn [fst] in H1, P1.
  destruct ex; cbn [fst]; [auto|].
  destruct (IHh c1) as [H2 P2]. destruct (run_handlers c1 hs m) as [[c2 o2] ex2]. cbn [fst] in *.
  split; [eapply G_trans; eassumption|congruence].
Qed.
(* a disconnect handler in the snapshot is reached when no keep-alive / time handler precedes it *)
Lemma Sets_run_handlers hs m : In HDisc hs -> ~ In HPing hs -> ~ In HTime hs ->
  forall c, Sets c (fst (fst (run_handlers c hs m))).
Proof.
  induction hs as [|h hs IHh]; intros Hi Hp Ht c; [destruct Hi|]. cbn [run_handlers].
  destruct (match h with HDisc => true | _ => false end) eqn:E.
  - destruct h; try discriminate.
    destruct (Sets_call_disc c m) as (A & _ & _). destruct (call_handler c HDisc m) as [[c1 o1] ex]. cbn [fst] in A.
    destruct ex; cbn [fst]; [exact A|].
    destruct (G_run_handlers hs m c1) as [H2 _]. destruct (run_handlers c1 hs m) as [[c2 o2] ex2]. cbn [fst] in *.
    eapply Sets_G; eassumption.
  - assert (Hn : h <> HDisc) by (intros ->; discriminate).
    assert (Hn2 : h <> HPing) by (intros ->; apply Hp; left; reflexivity).
    assert (Hn3 : h <> HTime) by (intros ->; apply Ht; left; reflexivity).
    pose proof (Kp_call_handler c h m Hn) as K. pose proof (call_handler_no_exc c h m Hn Hn2 Hn3) as Ex.
    destruct (call_handler c h m) as [[c1 o1] ex] eqn:E1. cbn [fst snd] in K, Ex. subst ex.
    assert (Hi' : In HDisc hs) by (destruct Hi as [Hi|Hi]; [congruence|exact Hi]).
    assert (Hp' : ~ In HPing hs) by (intro; apply Hp; right; assumption).
    assert (Ht' : ~ In HTime hs) by (intro; apply Ht; right; assumption).
    specialize (IHh Hi' Hp' Ht' c1). destruct (run_handlers c1 hs m) as [[c2 o2] ex2]. cbn [fst] in *.
    destruct IHh as (A1 & s2 & A2 & A3). split; [exact A1|].
    exists s2. split; [|exact A3]. rewrite A2. f_equal.
    pose proof (stops_call_handler c h m Hn Hn2 Hn3) as Es. rewrite E1 in Es. exact Es.
Qed.

(* ---------------------------------------------------------------- dispatch *)
(* internal handlers sit under their own message type *)
Definition IHok (c : conn) : Prop := forall ty h, internal h = true -> In (ty, h) (handlers c) -> ty = ty_of h.
Lemma IHok_IH c c' : IHok c -> IH c c' -> IHok c'.
Proof. intros H K ty h Hi Hin. destruct (K ty h Hi) as [_ B]. destruct (B Hin) as [B'|B']; auto. Qed.

Definition snapshot (c : conn) (ty : N) : list hid := map snd (filter (fun p => N.eqb (fst p) ty) (handlers c)).
Lemma snapshot_in c ty h : In h (snapshot c ty) <-> In (ty, h) (handlers c).
Proof.
  unfold snapshot. rewrite in_map_iff. split.
  - intros ([ty' h'] & E & H). cbn in E. subst h'. apply filter_In in H. destruct H as [H1 H2]. cbn in H2.
    apply N.eqb_eq in H2. subst. exact H1.
  - intro H. exists (ty, h). split; [reflexivity|]. apply filter_In. split; [exact H|]. cbn. apply N.eqb_refl.
Qed.

Definition pp_reset (c : conn) : conn := c <| pong_timer := None |> <| send_pending_ping := false |>.
Lemma process_packet_open c m : cs c <> Closed -> registered (m_ty m) = true -> m_valid m = true ->
  process_packet c m = run_handlers (pp_reset c) (snapshot (pp_reset c) (m_ty m)) m.
Proof.
  intros H1 H2 H3. unfold process_packet. rewrite H2, H3. cbn [negb]. destruct (cs c); try reflexivity. contradiction.
Qed.

Lemma G_process_packet c m : G c (fst (fst (process_packet c m))) /\ pc (t_disc (fst (fst (process_packet c m)))) = pc (t_disc c).
Proof.
  unfold process_packet. destruct (cs c); try (cbn [fst]; split; [apply G_refl|reflexivity]).
  all: destruct (registered (m_ty m)); cbn [negb fst]; [|split; [apply G_refl|reflexivity]];
       (destruct (m_valid m); cbn [negb];
        [ match goal with |- context [run_handlers ?x ?hs ?mm] =>
            destruct (G_run_handlers hs mm x) as [H P]; destruct (run_handlers x hs mm) as [[c2 o2] ex2] end;
          cbn [fst] in *; split; [|exact P]; eapply G_trans; [|exact H]; apply G_Kp, Kp_vw; reflexivity
        | pose proof (Kp_report_fatal c (Lib LProtocol)) as H; destruct (report_fatal c (Lib LProtocol)) as [c1 o];
          cbn [fst] in *; split; [apply G_Kp; exact H|destruct H as [_ H]; exact H] ]).
Qed.
Lemma Kp_process_packet c m : ~ In (m_ty m, HDisc) (handlers c) -> Kp c (fst (fst (process_packet c m))).
Proof.
  intro Hn. unfold process_packet. destruct (cs c); try (cbn [fst]; apply Kp_refl).
  all: destruct (registered (m_ty m)); cbn [negb fst]; [|apply Kp_refl];
       (destruct (m_valid m); cbn [negb];
        [ match goal with |- context [run_handlers ?x ?hs ?mm] =>
            assert (Hs : ~ In HDisc hs) by (intro Hs; apply (snapshot_in x (m_ty m) HDisc) in Hs; exact (Hn Hs));
            pose proof (Kp_run_handlers hs mm Hs x) as H; destruct (run_handlers x hs mm) as [[c2 o2] ex2] end;
          cbn [fst] in *; eapply Kp_trans; [|exact H]; apply Kp_vw; reflexivity
        | pose proof (Kp_report_fatal c (Lib LProtocol)) as H; destruct (report_fatal c (Lib LProtocol)) as [c1 o];
          cbn [fst] in *; exact H ]).
Qed.

Definition has_disc_req (items : list ditem) : Prop := exists m, In (DFrame m) items /\ m_ty m = T_DISC_REQ.

Lemma G_data_loop items : forall c, G c (fst (fst (data_loop c items))) /\ pc (t_disc (fst (fst (data_loop c items)))) = pc (t_disc c).
Proof.
  induction items as [|i items IHi]; intro c; cbn [data_loop fst]; [split; [apply G_refl|reflexivity]|].
  destruct i as [m|req].
  - destruct (G_process_packet c m) as [H1 P1]. destruct (process_packet c m) as [[c1 o1] ex]. cbn [fst] in H1, P1.
    destruct ex; cbn [fst]; [auto|].
    destruct (IHi c1) as [H2 P2]. destruct (data_loop c1 items) as [[c2 o2] ex2]. cbn [fst] in *.
    split; [eapply G_trans; eassumption|congruence].
  - match goal with |- context [helper_error c ?e] =>
      pose proof (Kp_helper_error c e) as H; destruct (helper_error c e) as [c1 o1] end.
    cbn [fst] in *. split; [apply G_Kp; exact H|destruct H as [_ H]; exact H].
Qed.
Lemma Kp_data_loop items : ~ has_disc_req items -> forall c, IHok c -> Kp c (fst (fst (data_loop c items))).
Proof.
  induction items as [|i items IHi]; intros Hn c Hok; cbn [data_loop fst]; [apply Kp_refl|].
  destruct i as [m|req].
  - assert (Hm : ~ In (m_ty m, HDisc) (handlers c)).
    { intro Hin. apply Hn. exists m. split; [left; reflexivity|]. apply (Hok (m_ty m) HDisc eq_refl Hin). }
    pose proof (Kp_process_packet c m Hm) as H1. destruct (process_packet c m) as [[c1 o1] ex]. cbn [fst] in H1.
    destruct ex; cbn [fst]; [exact H1|].
    assert (Hn' : ~ has_disc_req items) by (intros (m' & A & B); apply Hn; exists m'; split; [right; exact A|exact B]).
    assert (Hok1 : IHok c1) by (eapply IHok_IH; [exact Hok|]; destruct H1 as [[_ _ K] _]; exact K).
    specialize (IHi Hn' c1 Hok1). destruct (data_loop c1 items) as [[c2 o2] ex2]. cbn [fst] in *.
    eapply Kp_trans; eassumption.
  - match goal with |- context [helper_error c ?e] =>
      pose proof (Kp_helper_error c e) as H; destruct (helper_error c e) as [c1 o1] end.
    cbn [fst] in *. exact H.
Qed.

(* ---------------------------------------------------------------- tasks *)
Lemma vw_set_task_same c t k : pc k = pc (get_task c t) -> vw (set_task c t k) = vw c.
Proof. destruct t; cbn [set_task get_task]; intro E; unfold vw; cbn; try rewrite E; reflexivity. Qed.
Lemma vw_set_task_other c t k : t <> TDisc -> vw (set_task c t k) = vw c.
Proof. destruct t; intro H; try contradiction; reflexivity. Qed.
Lemma vw_cancel_awaited c t k : vw (fst (cancel_awaited c t k)) = vw c.
Proof. unfold cancel_awaited, cancel_efut. repeat dm; try reflexivity. Qed.
Lemma vw_cancel_task c t : vw (cancel_task c t) = vw c.
Proof.
  unfold cancel_task. destruct (task_running (get_task c t)); cbn [negb]; [|reflexivity].
  match goal with |- context [cancel_awaited c t ?k] =>
    pose proof (vw_cancel_awaited c t k) as H; destruct (cancel_awaited c t k) as [c1 d] eqn:E end.
  cbn [fst] in H.
  assert (Hg : forall t', pc (get_task c1 t') = pc (get_task c t')).
  { intro t'. unfold cancel_awaited, cancel_efut in E. revert E. repeat dm; intro E; injection E as <- _; try reflexivity;
      destruct t'; reflexivity. }
  destruct d; rewrite vw_set_task_same; try exact H; rewrite Hg; cbn; reflexivity.
Qed.
Lemma vw_take_cancel c t : vw (fst (take_cancel c t)) = vw c.
Proof.
  unfold take_cancel. destruct (must_cancel (get_task c t)); cbn [fst]; [|reflexivity].
  apply vw_set_task_same. reflexivity.
Qed.
Lemma vw_timeout_exit c t e : vw (fst (timeout_exit c t e)) = vw c.
Proof.
  unfold timeout_exit. destruct (expiring (get_task c t)); [|reflexivity].
  destruct e; cbn [fst]; try (apply vw_set_task_same; reflexivity).
  destruct (Nat.eqb _ 0); cbn [fst]; apply vw_set_task_same; reflexivity.
Qed.
Lemma vw_interrupt_exit c t e : vw (fst (interrupt_exit c t e)) = vw c.
Proof.
  unfold interrupt_exit. destruct (interrupted (get_task c t)); [|reflexivity].
  destruct e; cbn [fst]; try reflexivity.
  destruct (Nat.eqb _ 0); cbn [fst]; apply vw_set_task_same; reflexivity.
Qed.
Lemma vw_finish_task c t r : t <> TDisc -> vw (fst (finish_task c t r)) = vw c.
Proof. intro H. unfold finish_task. cbn [fst]. apply vw_set_task_other. exact H. Qed.
Lemma K3_vw3 c c' : expected_disconnect c' = expected_disconnect c -> stop_calls c' = stop_calls c -> handlers c' = handlers c ->
  handshake_complete c' = handshake_complete c -> K3 c c'.
Proof.
  intros A B D F. constructor; auto.
  - exists []. rewrite app_nil_r. split; [auto|constructor].
  - apply IH_eq. exact D.
  - apply HS_eq. exact F.
Qed.
Lemma K3_set_task c t k : K3 c (set_task c t k).
Proof. destruct t; apply K3_vw3; reflexivity. Qed.
Lemma K3_finish_task c t r : K3 c (fst (finish_task c t r)).
Proof. unfold finish_task. cbn [fst]. apply K3_set_task. Qed.

(* ---------------------------------------------------------------- request/response *)
Lemma Kp_call_begin c owner send types ap st tmo : Kp c (fst (fst (fst (call_begin c owner send types ap st tmo)))).
Proof.
  unfold call_begin. pose proof (Kp_send_messages c send) as H.
  destruct (send_messages c send) as [[c1 o] ex]. cbn [fst] in H.
  destruct ex; cbn [fst]; [exact H|].
  eapply Kp_trans; [exact H|]. eapply Kp_trans; [|apply Kp_fold_add; reflexivity]. apply Kp_vw. reflexivity.
Qed.
Lemma Kp_call_finally c cid : Kp c (call_finally c cid).
Proof.
  unfold call_finally. destruct (get_call c cid); [|apply Kp_refl].
  match goal with |- context [fold_left ?f ?l ?x] => set (c2 := fold_left f l x) end.
  assert (H : Kp c c2).
  { unfold c2. eapply Kp_trans; [|apply Kp_fold_remove; reflexivity]. apply Kp_vw. reflexivity. }
  eapply Kp_trans; [exact H|]. apply Kp_vw. reflexivity.
Qed.

(* ---------------------------------------------------------------- start_connection *)
Ltac kp_step := first [ apply Kp_refl | apply Kp_cleanup | apply Kp_vw; reflexivity ].

Lemma Kp_cleanup_finish c t (mk : conn -> tres) : t <> TDisc ->
  Kp c (fst (let '(c3, o) := cleanup c in let '(c4, o2) := finish_task c3 t (mk c3) in (c4, o ++ o2))).
Proof.
  intro Ht. pose proof (Kp_cleanup c) as H. destruct (cleanup c) as [c3 o]. cbn [fst] in H.
  pose proof (vw_finish_task c3 t (mk c3) Ht) as H2. destruct (finish_task c3 t (mk c3)) as [c4 o2]. cbn [fst] in *.
  eapply Kp_trans; [exact H|apply Kp_vw; exact H2].
Qed.

Lemma Kp_start_fail c e : Kp c (fst (start_fail c e)).
Proof.
  unfold start_fail. pose proof (vw_interrupt_exit c TStart e) as H0. destruct (interrupt_exit c TStart e) as [c0 e1]. cbn [fst] in H0.
  set (c1 := c0 <| intr_start := IExited |> <| conn_timer := None |>).
  assert (H1 : Kp c c1) by (apply Kp_vw; rewrite <- H0; reflexivity).
  pose proof (Kp_cleanup c1) as H2. destruct (cleanup c1) as [c2 o]. cbn [fst] in H2.
  pose proof (vw_set_start_future c2) as H3.
  pose proof (vw_finish_task (set_start_future c2) TStart (TRaise (wrap_fatal c2 e1))) as H4.
  destruct (finish_task (set_start_future c2) TStart (TRaise (wrap_fatal c2 e1))) as [c4 o2]. cbn [fst] in *.
  eapply Kp_trans; [exact H1|]. eapply Kp_trans; [exact H2|]. apply Kp_vw. rewrite H4 by discriminate. exact H3.
Qed.
Lemma vw_start_tcp_attempt c g : vw (start_tcp_attempt c g) = vw c.
Proof. reflexivity. Qed.
Lemma Kp_start_success c : Kp c (fst (start_success c)).
Proof.
  unfold start_success.
  set (c1 := c <| socket := true |> <| sock_obj := false |> <| intr_start := IExited |> <| conn_timer := None |>).
  pose proof (vw_set_start_future c1) as E2. set (c2 := set_start_future c1) in *.
  assert (H2 : Kp c c2) by (apply Kp_vw; rewrite E2; reflexivity).
  destruct (cs c2).
  5: { eapply Kp_trans; [exact H2|]. apply (Kp_cleanup_finish c2 TStart (fun c3 => TRaise (wrap_fatal c3 Interrupted))). discriminate. }
  all: eapply Kp_trans; [exact H2|]; apply Kp_of; try reflexivity; [apply IH_eq; reflexivity|intro H; discriminate H].
Qed.

Lemma Kp_wake_start c c' o : wake_start c = Some (c', o) -> Kp c c'.
Proof.
  unfold wake_start. intro E.
  destruct (pc (get_task c TStart)) eqn:Epc; try discriminate.
  - destruct (must_cancel (get_task c TStart) || negb match do_connect c with EPending => true | _ => false end); [|discriminate].
    pose proof (vw_take_cancel c TStart) as E1. destruct (take_cancel c TStart) as [c1 mc]. cbn [fst] in E1.
    match type of E with match ?d with _ => _ end = _ => destruct d as [|e] end.
    + apply some_pair_inv in E. destruct E as [<- _]. apply Kp_vw. rewrite vw_start_tcp_attempt. rewrite <- E1. reflexivity.
    + pose proof (vw_timeout_exit (c1 <| conn_timer := None |>) TStart e) as E2.
      destruct (timeout_exit (c1 <| conn_timer := None |>) TStart e) as [c2 e1]. cbn [fst] in E2.
      apply some_inj in E.
      assert (H2 : Kp c c2) by (apply Kp_vw; rewrite E2, <- E1; reflexivity).
      pose proof (Kp_start_fail c2 match e1 with PyTimeout => Lib LResolve | x => x end) as H3. rewrite E in H3. cbn [fst] in H3.
      eapply Kp_trans; eassumption.
  - destruct (must_cancel (get_task c TStart) || negb match do_connect c with EPending => true | _ => false end); [|discriminate].
    pose proof (vw_take_cancel c TStart) as E1. destruct (take_cancel c TStart) as [c1 mc]. cbn [fst] in E1.
    match type of E with match ?d with _ => _ end = _ => destruct d as [|e] end.
    + apply some_inj in E. match type of E with start_success ?x = _ => pose proof (Kp_start_success x) as H end. rewrite E in H. cbn [fst] in H.
      eapply Kp_trans; [|exact H]. apply Kp_vw. rewrite <- E1. reflexivity.
    + pose proof (vw_timeout_exit (c1 <| conn_timer := None |>) TStart e) as E2.
      destruct (timeout_exit (c1 <| conn_timer := None |>) TStart e) as [c2 e1]. cbn [fst] in E2.
      assert (H2 : Kp c c2) by (apply Kp_vw; rewrite E2, <- E1; reflexivity).
      destruct (is_oserror e1).
      * match type of E with match ?g with O => _ | S _ => _ end = _ => destruct g as [|[|g']] end.
        -- apply some_inj in E. pose proof (Kp_start_fail c2 match e1 with PyTimeout => Lib LTimeout | _ => Lib LSocket end) as H3.
           rewrite E in H3. cbn [fst] in H3. eapply Kp_trans; eassumption.
        -- apply some_inj in E. pose proof (Kp_start_fail c2 match e1 with PyTimeout => Lib LTimeout | _ => Lib LSocket end) as H3.
           rewrite E in H3. cbn [fst] in H3. eapply Kp_trans; eassumption.
        -- apply some_pair_inv in E. destruct E as [<- _]. eapply Kp_trans; [exact H2|]. apply Kp_vw. apply vw_start_tcp_attempt.
      * apply some_inj in E. pose proof (Kp_start_fail c2 e1) as H3. rewrite E in H3. cbn [fst] in H3. eapply Kp_trans; eassumption.
Qed.

(* ---------------------------------------------------------------- finish_connection *)
Lemma Kp_finish_fail c e : Kp c (fst (finish_fail c e)).
Proof.
  unfold finish_fail. pose proof (vw_interrupt_exit c TFinish e) as H0. destruct (interrupt_exit c TFinish e) as [c0 e1]. cbn [fst] in H0.
  set (c1 := c0 <| intr_finish := IExited |> <| hs_timer := None |>).
  assert (H1 : Kp c c1) by (apply Kp_vw; rewrite <- H0; reflexivity).
  pose proof (Kp_cleanup c1) as H2. destruct (cleanup c1) as [c2 o]. cbn [fst] in H2.
  pose proof (vw_set_finish_future c2) as H3.
  pose proof (vw_finish_task (set_finish_future c2) TFinish (TRaise (wrap_fatal c2 e1))) as H4.
  destruct (finish_task (set_finish_future c2) TFinish (TRaise (wrap_fatal c2 e1))) as [c4 o2]. cbn [fst] in *.
  eapply Kp_trans; [exact H1|]. eapply Kp_trans; [exact H2|]. apply Kp_vw. rewrite H4 by discriminate. exact H3.
Qed.

Lemma IH_add_internal c h : internal h = true -> IH c (add_handler c (ty_of h) h).
Proof.
  intros Hh ty' h' Hi. unfold add_handler. destruct (existsb _ _); [split; auto|].
  change (handlers (c <| handlers := handlers c ++ [(ty_of h, h)] |>)) with (handlers c ++ [(ty_of h, h)]).
  split; intro H.
  - apply in_or_app. auto.
  - apply in_app_or in H. destruct H as [H|[H|[]]]; [auto|]. injection H as <- <-. auto.
Qed.
Lemma Kp_internal_handlers c : Kp c (internal_handlers c).
Proof.
  unfold internal_handlers.
  assert (A : forall x h, internal h = true -> Kp x (add_handler x (ty_of h) h)).
  { intros x h Hh. destruct (vw3_add x (ty_of h) h) as (P & Q & R & F). apply Kp_of; auto; [apply IH_add_internal; exact Hh|apply HS_eq; exact F]. }
  eapply Kp_trans; [apply (A c HDisc eq_refl)|]. eapply Kp_trans; [apply (A _ HPing eq_refl)|]. apply (A _ HTime eq_refl).
Qed.
Lemma internal_handlers_has c : In (T_DISC_REQ, HDisc) (handlers (internal_handlers c)).
Proof.
  destruct (Kp_internal_handlers c) as [[_ _ K] _].
  assert (H : In (T_DISC_REQ, HDisc) (handlers (add_handler c T_DISC_REQ HDisc))).
  { unfold add_handler. destruct (existsb _ _) eqn:E.
    - apply existsb_exists in E. destruct E as ([ty h] & Hin & Hc). cbn in Hc. apply andb_true_iff in Hc. destruct Hc as [A B].
      apply N.eqb_eq in A. destruct h; try discriminate. subst. exact Hin.
    - change (handlers (c <| handlers := handlers c ++ [(T_DISC_REQ, HDisc)] |>)) with (handlers c ++ [(T_DISC_REQ, HDisc)]).
      apply in_or_app. right. left. reflexivity. }
  unfold internal_handlers.
  assert (A : forall x h ty, internal h = false \/ ty = ty_of h -> In (T_DISC_REQ, HDisc) (handlers x) -> In (T_DISC_REQ, HDisc) (handlers (add_handler x ty h))).
  { intros x h ty _ Hin. unfold add_handler. destruct (existsb _ _); [exact Hin|].
    change (handlers (x <| handlers := handlers x ++ [(ty, h)] |>)) with (handlers x ++ [(ty, h)]). apply in_or_app. auto. }
  apply (A _ HTime T_TIME_REQ); [auto|]. apply (A _ HPing T_PING_REQ); [auto|]. exact H.
Qed.

Lemma Kp_hsdone x0 x : expected_disconnect x = expected_disconnect x0 -> stop_calls x = stop_calls x0 ->
  pc (t_disc x) = pc (t_disc x0) -> handlers x = handlers x0 -> Kp x0 (internal_handlers x).
Proof.
  intros P Q R T. destruct (Kp_internal_handlers x) as [[A (s & B & D) E _] F].
  constructor; [constructor|]; try congruence.
  - exists s. rewrite <- Q, <- P. auto.
  - eapply IH_trans; [apply (IH_eq x0 x); exact T|exact E].
  - intros _. right. apply internal_handlers_has.
Qed.

Lemma Kp_finish_after_ready c : Kp c (fst (finish_after_ready c)).
Proof.
  unfold finish_after_ready. set (c0 := c <| hs_timer := None |>).
  assert (H0 : Kp c c0) by (apply Kp_vw; reflexivity).
  destruct (cs c0) eqn:Ecs.
  5: { eapply Kp_trans; [exact H0|apply Kp_finish_fail]. }
  all: match goal with |- context [internal_handlers ?x] =>
         let c1 := fresh "c1" in set (c1 := internal_handlers x);
         assert (H1 : Kp c c1) by (eapply Kp_trans; [exact H0|]; apply Kp_hsdone; reflexivity) end;
       match goal with |- context [call_begin ?x ?a ?b ?d ?e ?f ?g] =>
         pose proof (Kp_call_begin x a b d e f g) as H2; destruct (call_begin x a b d e f g) as [[[c2 o] ex] cid] end;
       cbn [fst] in H2; destruct ex as [e|];
       [ pose proof (Kp_finish_fail c2 e) as H3; destruct (finish_fail c2 e) as [c3 o3]; cbn [fst] in *;
         eapply Kp_trans; [exact H1|]; eapply Kp_trans; eassumption
       | cbn [fst]; eapply Kp_trans; eassumption ].
Qed.
Lemma vw_schedule_keep_alive c : vw (schedule_keep_alive c) = vw c.
Proof. reflexivity. Qed.
Lemma Kp_finish_success c : (cs c <> Closed -> handshake_complete c = true) -> Kp c (fst (finish_success c)).
Proof.
  intro Hh. unfold finish_success. set (c1 := c <| intr_finish := IExited |>).
  pose proof (vw_set_finish_future c1) as E2.
  assert (Ecs2 : cs (set_finish_future c1) = cs c) by (unfold set_finish_future; destruct (finish_fut c1); reflexivity).
  set (c2 := set_finish_future c1) in *.
  assert (H2 : Kp c c2) by (apply Kp_vw; rewrite E2; reflexivity).
  assert (Eh : handshake_complete c2 = handshake_complete c) by (unfold vw in E2; injection E2 as _ _ _ _ E2; exact E2).
  destruct (cs c2) eqn:Ecs.
  5: { eapply Kp_trans; [exact H2|]. apply (Kp_cleanup_finish c2 TFinish (fun c3 => TRaise (wrap_fatal c3 Interrupted))). discriminate. }
  all: eapply Kp_trans; [exact H2|]; apply Kp_of; try reflexivity; [apply IH_eq; reflexivity|];
       intros _; left; rewrite Eh; apply Hh; rewrite <- Ecs2; discriminate.
Qed.

Ltac fin E L := apply some_inj in E; let H := fresh "H" in pose proof L as H; rewrite E in H; cbn [fst] in H.

Lemma Kp_wake_finish c c' o : Inv c -> wake_finish c = Some (c', o) -> Kp c c'.
Proof.
  unfold wake_finish. intros HI E.
  destruct (pc (get_task c TFinish)) eqn:Epc; try discriminate.
  - (* PF_Create *)
    destruct (must_cancel (get_task c TFinish) || negb match made_waiter c with EPending => true | _ => false end); [|discriminate].
    pose proof (vw_take_cancel c TFinish) as E1. destruct (take_cancel c TFinish) as [c1 mc]. cbn [fst] in E1.
    match type of E with match ?d with _ => _ end = _ => destruct d as [|e] end.
    + set (c2 := c1 <| helper := helper_obj c1 |> <| hs_timer := Some (now c1 + HANDSHAKE_TIMEOUT) |>) in *.
      assert (H2 : Kp c c2) by (apply Kp_vw; rewrite <- E1; reflexivity).
      destruct (ready c2).
      * apply some_pair_inv in E. destruct E as [<- _]. eapply Kp_trans; [exact H2|]. apply Kp_vw. apply vw_set_task_other. discriminate.
      * fin E (Kp_finish_after_ready c2). eapply Kp_trans; eassumption.
      * match type of E with Some (finish_fail c2 ?x) = _ => fin E (Kp_finish_fail c2 x) end. eapply Kp_trans; eassumption.
      * fin E (Kp_finish_fail c2 CancelledErr). eapply Kp_trans; eassumption.
    + match type of E with context [finish_fail ?x e] => set (c2 := x) in *; pose proof (Kp_finish_fail c2 e) as H3 end.
      assert (H2 : Kp c c2) by (apply Kp_vw; rewrite <- E1; unfold c2; destruct (transport c1); reflexivity).
      destruct (finish_fail c2 e) as [c3 o3]. cbn [fst] in H3. apply some_pair_inv in E. destruct E as [<- _].
      eapply Kp_trans; eassumption.
  - (* PF_Ready *)
    destruct (must_cancel (get_task c TFinish) || negb match ready c with RPending => true | _ => false end); [|discriminate].
    pose proof (vw_take_cancel c TFinish) as E1. destruct (take_cancel c TFinish) as [c1 mc]. cbn [fst] in E1.
    assert (H1 : Kp c c1) by (apply Kp_vw; exact E1).
    destruct mc.
    + fin E (Kp_finish_fail c1 CancelledErr). eapply Kp_trans; eassumption.
    + destruct (ready c1).
      * fin E (Kp_finish_fail c1 CancelledErr). eapply Kp_trans; eassumption.
      * fin E (Kp_finish_after_ready c1). eapply Kp_trans; eassumption.
      * match type of E with Some (finish_fail c1 ?x) = _ => fin E (Kp_finish_fail c1 x) end. eapply Kp_trans; eassumption.
      * fin E (Kp_finish_fail c1 CancelledErr). eapply Kp_trans; eassumption.
  - (* PF_Hello *)
    destruct (get_call c cid) as [kk|]; [|discriminate].
    destruct (must_cancel (get_task c TFinish) || cfut_done (c_fut kk)); [|discriminate].
    pose proof (vw_take_cancel c TFinish) as E1. destruct (take_cancel c TFinish) as [c1 mc] eqn:Et. cbn [fst] in E1.
    pose proof (Kp_call_finally c1 cid) as Ef. set (c2 := call_finally c1 cid) in *.
    assert (H2 : Kp c c2) by (eapply Kp_trans; [apply Kp_vw; exact E1|exact Ef]).
    assert (Hh : cs c2 <> Closed -> handshake_complete c2 = true).
    { pose proof (core_take_cancel c TFinish) as Q1. rewrite Et in Q1. cbn [fst] in Q1.
      assert (I1 : Inv c1) by (eapply Inv_core_eq; eassumption).
      destruct (R_facts _ _ (R_call_finally c1 cid) I1) as (I2 & _ & _ & Pf & _). fold c2 in I2, Pf.
      assert (Pf1 : pc (t_finish c1) = pc (t_finish c)) by (change (k_pf (core_of c1) = k_pf (core_of c)); rewrite Q1; reflexivity).
      destruct I2 as ((_ & F2) & (_ & J2) & _). change (k_pf (core_of c2)) with (pc (t_finish c2)) in J2.
      rewrite Pf, Pf1 in J2. cbn [get_task] in Epc. rewrite Epc in J2.
      change (k_hs (core_of c2)) with (handshake_complete c2) in F2. change (k_cs (core_of c2)) with (cs c2) in F2, J2.
      intro Hn. destruct J2 as [J2|J2]; [|contradiction]. rewrite F2, J2. reflexivity. }
    match type of E with match ?d with _ => _ end = _ => destruct d as [|e] end.
    + destruct (check_hello_login c2 (c_responses kk)) as [e|].
      * fin E (Kp_finish_fail c2 e). eapply Kp_trans; eassumption.
      * fin E (Kp_finish_success c2 Hh). eapply Kp_trans; eassumption.
    + fin E (Kp_finish_fail c2 e). eapply Kp_trans; eassumption.
Qed.

(* ---------------------------------------------------------------- disconnect() *)
(* K3 with G's weaker flag clause: what the functions of the disconnect task guarantee *)
Definition GD (c c' : conn) : Prop := G c c'.

Lemma G_cleanup_finish c t (mk : conn -> tres) :
  G c (fst (let '(c3, o) := cleanup c in let '(c4, o2) := finish_task c3 t (mk c3) in (c4, o ++ o2))).
Proof.
  pose proof (Kp_cleanup c) as H. destruct (cleanup c) as [c3 o]. cbn [fst] in H.
  pose proof (K3_finish_task c3 t (mk c3)) as H2. destruct (finish_task c3 t (mk c3)) as [c4 o2]. cbn [fst] in *.
  eapply G_trans; [apply G_Kp; exact H|apply G_K3; exact H2].
Qed.

Lemma Sets_disconnect_after_wait c : Sets c (fst (disconnect_after_wait c)) /\ G c (fst (disconnect_after_wait c)).
Proof.
  unfold disconnect_after_wait. set (c1 := c <| expected_disconnect := true |>).
  assert (K : G c1 (fst (disconnect_after_wait c))).
  { unfold disconnect_after_wait. fold c1. destruct (handshake_complete c1).
    - match goal with |- context [call_begin c1 ?a ?b ?d ?e ?f ?g] =>
        pose proof (Kp_call_begin c1 a b d e f g) as H2; destruct (call_begin c1 a b d e f g) as [[[c2 o] ex] cid] end.
      cbn [fst] in H2. destruct ex as [[]|].
      all: try (match goal with |- context [finish_task ?x TDisc ?r] =>
                  pose proof (K3_finish_task x TDisc r) as H3; destruct (finish_task x TDisc r) as [c3 o3] end;
                cbn [fst] in *; eapply G_trans; [apply G_Kp; exact H2|apply G_K3; exact H3]).
      + eapply G_trans; [apply G_Kp; exact H2|].
        pose proof (Kp_cleanup c2) as H3. destruct (cleanup c2) as [c3 o3]. cbn [fst] in H3.
        pose proof (K3_finish_task c3 TDisc TOk) as H4. destruct (finish_task c3 TDisc TOk) as [c4 o4]. cbn [fst] in *.
        eapply G_trans; [apply G_Kp; exact H3|apply G_K3; exact H4].
      + cbn [fst]. eapply G_trans; [apply G_Kp; exact H2|]. apply G_K3, K3_set_task.
    - apply (G_cleanup_finish c1 TDisc (fun _ => TOk)). }
  unfold disconnect_after_wait in K. fold c1 in K. split.
  - apply Sets_raise_G. exact K.
  - eapply G_trans; [apply G_raise|exact K].
Qed.

Lemma G_disc_resp_tail c2 (d : delivered) r :
  match d with
  | DOk | DExc (Lib _) => let '(c3, o) := cleanup c2 in let '(c4, o2) := finish_task c3 TDisc TOk in Some (c4, o ++ o2)
  | DExc e => Some (finish_task c2 TDisc (TRaise e))
  end = Some r -> G c2 (fst r).
Proof.
  assert (A : forall r, (let '(c3, o) := cleanup c2 in let '(c4, o2) := finish_task c3 TDisc TOk in Some (c4, o ++ o2)) = Some r -> G c2 (fst r)).
  { intros r0 Er. pose proof (Kp_cleanup c2) as H3. destruct (cleanup c2) as [c3 o3]. cbn [fst] in H3.
    pose proof (K3_finish_task c3 TDisc TOk) as H4. destruct (finish_task c3 TDisc TOk) as [c4 o4]. cbn [fst] in *.
    apply some_inj in Er. subst r0. cbn [fst]. eapply G_trans; [apply G_Kp; exact H3|apply G_K3; exact H4]. }
  assert (B : forall e r, Some (finish_task c2 TDisc (TRaise e)) = Some r -> G c2 (fst r)).
  { intros e r0 Er. apply some_inj in Er. pose proof (K3_finish_task c2 TDisc (TRaise e)) as H3. rewrite Er in H3. apply G_K3; exact H3. }
  destruct d as [|e]; [apply A|]. destruct e; first [apply A|apply B].
Qed.

Lemma G_wake_disc c c' o : wake_disc c = Some (c', o) -> G c c'.
Proof.
  unfold wake_disc. intro E.
  destruct (pc (get_task c TDisc)) eqn:Epc; try discriminate.
  - destruct (must_cancel (get_task c TDisc) || disc_wait_done c); [|discriminate].
    pose proof (vw_take_cancel c TDisc) as E1. destruct (take_cancel c TDisc) as [c1 mc]. cbn [fst] in E1.
    set (c2 := c1 <| disc_timer := None |>) in *.
    assert (H2 : G c c2) by (apply G_Kp, Kp_vw; rewrite <- E1; reflexivity).
    destruct mc.
    + apply some_inj in E. pose proof (K3_finish_task c2 TDisc (TRaise CancelledErr)) as H3. rewrite E in H3. cbn [fst] in H3.
      eapply G_trans; [exact H2|apply G_K3; exact H3].
    + apply some_inj in E.
      match type of E with disconnect_after_wait ?x = _ => destruct (Sets_disconnect_after_wait x) as [_ H3]; rewrite E in H3;
        assert (H4 : G c2 x) by (apply G_Kp, Kp_vw; destruct (finish_fut c2); try reflexivity; destruct (fatal c2); reflexivity) end.
      cbn [fst] in H3. eapply G_trans; [exact H2|]. eapply G_trans; eassumption.
  - destruct (get_call c cid) as [kk|]; [|discriminate].
    destruct (must_cancel (get_task c TDisc) || cfut_done (c_fut kk)); [|discriminate].
    pose proof (vw_take_cancel c TDisc) as E1. destruct (take_cancel c TDisc) as [c1 mc]. cbn [fst] in E1.
    pose proof (Kp_call_finally c1 cid) as Ef. set (c2 := call_finally c1 cid) in *.
    assert (H2 : G c c2) by (apply G_Kp; eapply Kp_trans; [apply Kp_vw; exact E1|exact Ef]).
    pose proof (G_disc_resp_tail c2 (if mc then DExc CancelledErr else deliver_cfut (c_fut kk)) (c', o) E) as H3.
    cbn [fst] in H3. eapply G_trans; eassumption.
Qed.

Lemma Kp_wake_call c cid c' o : wake_call c cid = Some (c', o) -> Kp c c'.
Proof.
  unfold wake_call. intro E.
  destruct (pc (get_task c (TCall cid))); try discriminate.
  destruct (get_call c cid) as [kk|]; [|discriminate].
  destruct (must_cancel (get_task c (TCall cid)) || cfut_done (c_fut kk)); [|discriminate].
  pose proof (vw_take_cancel c (TCall cid)) as E1. destruct (take_cancel c (TCall cid)) as [c1 mc]. cbn [fst] in E1.
  pose proof (Kp_call_finally c1 cid) as Ef. set (c2 := call_finally c1 cid) in *.
  apply some_inj in E.
  match type of E with finish_task c2 ?t ?r = _ => pose proof (vw_finish_task c2 t r) as H3 end. rewrite E in H3. cbn [fst] in H3.
  eapply Kp_trans; [apply Kp_vw; exact E1|]. eapply Kp_trans; [exact Ef|]. apply Kp_vw. apply H3. discriminate.
Qed.

(* ---------------------------------------------------------------- every label *)
Definition initiates_now (l : label) : Prop :=
  match l with
  | LForce | LDisconnect | LWake TDisc => True
  | LData items => has_disc_req items
  | _ => False
  end.

Definition PdNone (c c' : conn) : Prop := pc (t_disc c) = PNone -> pc (t_disc c') = PNone.

Lemma res_Kp c c' : Kp c c' -> forall l, G c c' /\ (~ initiates_now l -> Kp c c') /\ (l <> LDisconnect -> PdNone c c').
Proof. intros K l. split; [apply G_Kp; exact K|]. split; [auto|]. intros _ H. destruct K as [_ K]. congruence. Qed.

Ltac same E := apply some_pair_inv in E; destruct E as [<- _]; apply res_Kp; apply Kp_vw; reflexivity.

Theorem step_reason c l c' o : Inv c -> IHok c -> step c l = Some (c', o) ->
  G c c' /\ (~ initiates_now l -> Kp c c') /\ (l <> LDisconnect -> PdNone c c').
Proof.
  intros HI Hok E. destruct l; cbn [step] in E.
  - (* LStart *) destruct (cs c); try same E. destruct (pc (t_start c)); try discriminate. same E.
  - (* LFinish *) destruct (cs c); try same E. destruct (pc (t_finish c)); try discriminate. same E.
  - (* LDisconnect *)
    split; [|split; [intro H; exfalso; apply H; exact I|intro H; contradiction]].
    destruct (pc (t_disc c)); try discriminate. destruct (finish_fut c).
    2: { apply some_pair_inv in E. destruct E as [<- _]. apply G_K3, K3_vw3; reflexivity. }
    all: apply some_inj in E;
      match type of E with disconnect_after_wait ?x = _ => destruct (Sets_disconnect_after_wait x) as [_ H3]; rewrite E in H3 end;
      cbn [fst] in H3; (eapply G_trans; [|exact H3]); apply G_K3, K3_vw3; reflexivity.
  - (* LForce *)
    set (c1 := c <| expected_disconnect := true |>) in *.
    assert (K : Kp c1 c').
    { destruct (handshake_complete c1).
      - pose proof (Kp_send_messages c1 [T_DISC_REQ]) as H. destruct (send_messages c1 [T_DISC_REQ]) as [[c2 o2] ex]. cbn [fst] in H.
        destruct ex as [[]|].
        all: try (apply some_pair_inv in E; destruct E as [<- _]; exact H).
        all: pose proof (Kp_cleanup c2) as H2; destruct (cleanup c2) as [c3 o3]; cbn [fst] in H2;
             apply some_pair_inv in E; destruct E as [<- _]; eapply Kp_trans; eassumption.
      - pose proof (Kp_cleanup c1) as H2. destruct (cleanup c1) as [c3 o3]. cbn [fst] in H2.
        apply some_pair_inv in E. destruct E as [<- _]. exact H2. }
    split; [eapply G_trans; [apply G_raise|apply G_Kp; exact K]|]. split; [intro H; exfalso; apply H; exact I|].
    intros _ H. destruct K as [_ K]. rewrite K. exact H.
  - (* LCallStart *)
    match type of E with context [call_begin ?x ?a ?b ?d ?e ?f ?g] =>
      pose proof (Kp_call_begin x a b d e f g) as H2; destruct (call_begin x a b d e f g) as [[[c1 o1] ex] cid'];
      assert (H0 : Kp c x) by (apply Kp_vw; reflexivity) end.
    cbn [fst] in H2. destruct ex as [e|].
    + match type of E with context [finish_task ?x ?t ?r] =>
        pose proof (vw_finish_task x t r) as H3; destruct (finish_task x t r) as [c3 o3] end.
      cbn [fst] in H3. apply some_pair_inv in E. destruct E as [<- _]. apply res_Kp.
      eapply Kp_trans; [exact H0|]. eapply Kp_trans; [exact H2|]. apply Kp_vw. rewrite H3 by discriminate. reflexivity.
    + apply some_pair_inv in E. destruct E as [<- _]. apply res_Kp. eapply Kp_trans; eassumption.
  - (* LSend *)
    pose proof (Kp_send_messages c tys) as H. destruct (send_messages c tys) as [[c1 o1] ex]. cbn [fst] in H.
    apply some_pair_inv in E. destruct E as [<- _]. apply res_Kp. exact H.
  - (* LCancel *)
    destruct (task_running (get_task c t)); [|same E].
    apply some_pair_inv in E. destruct E as [<- _]. apply res_Kp. apply Kp_vw. rewrite vw_cancel_task. apply vw_set_task_same. reflexivity.
  - (* LSub *) apply some_pair_inv in E. destruct E as [<- _]. apply res_Kp. apply Kp_add. reflexivity.
  - (* LUnsub *) apply some_pair_inv in E. destruct E as [<- _]. apply res_Kp. apply Kp_remove. reflexivity.
  - (* LResolveDone *) destruct (pc (t_start c)); try discriminate; destruct (do_connect c); try discriminate; same E.
  - (* LTcpDone *) destruct (pc (t_start c)); try discriminate; destruct (do_connect c); try discriminate; same E.
  - (* LMade *) destruct (transport c); try discriminate; destruct (made c); try discriminate; destruct (noise c); same E.
  - (* LMadeWaiter *) destruct (made_waiter c); try discriminate; same E.
  - (* LHelperReady *)
    destruct (ready c); try discriminate; destruct (made c); try discriminate; destruct (transport c); try discriminate.
    destruct r as [e|]; [|same E].
    pose proof (Kp_helper_error c e) as H. destruct (helper_error c e) as [c1 o1]. cbn [fst] in H.
    destruct (transport c1); apply some_pair_inv in E; destruct E as [<- _]; apply res_Kp; try exact H.
    eapply Kp_trans; [exact H|apply Kp_vw; reflexivity].
  - (* LData *)
    destruct (transport c); try discriminate; destruct (made c); try discriminate.
    destruct (G_data_loop items c) as [HG HP].
    assert (HK : ~ has_disc_req items -> Kp c (fst (fst (data_loop c items)))) by (intro Hn; apply Kp_data_loop; assumption).
    destruct (data_loop c items) as [[c1 o1] ex]. cbn [fst] in HG, HP, HK.
    assert (T : forall c2, vw c2 = vw c1 -> G c c2 /\ (~ initiates_now (LData items) -> Kp c c2) /\ (LData items <> LDisconnect -> PdNone c c2)).
    { intros c2 E2. split; [eapply G_trans; [exact HG|apply G_Kp, Kp_vw; exact E2]|]. split.
      - intro Hn. eapply Kp_trans; [apply HK; exact Hn|apply Kp_vw; exact E2].
      - intros _ H. unfold vw in E2. injection E2 as _ _ _ E2. congruence. }
    destruct ex as [e|].
    + apply some_pair_inv in E. destruct E as [<- _]. apply T. destruct (transport c1); reflexivity.
    + apply some_pair_inv in E. destruct E as [<- _]. apply T. reflexivity.
  - (* LEof *)
    destruct (transport c); try discriminate; destruct (made c); try discriminate.
    pose proof (Kp_helper_error c (Lib LSocketClosed)) as H. destruct (helper_error c (Lib LSocketClosed)) as [c1 o1]. cbn [fst] in H.
    destruct (transport c1); apply some_pair_inv in E; destruct E as [<- _]; apply res_Kp; try exact H.
    eapply Kp_trans; [exact H|apply Kp_vw; reflexivity].
  - (* LLost *) destruct (transport c); try discriminate; same E.
  - (* LWriteFails *) same E.
  - (* LAdvance *) destruct (_ && _); [same E|discriminate].
  - (* LWake *)
    destruct t.
    + apply res_Kp. eapply Kp_wake_start; exact E.
    + apply res_Kp. eapply Kp_wake_finish; [exact HI|exact E].
    + split; [eapply G_wake_disc; exact E|]. split; [intro H; exfalso; apply H; exact I|].
      intros _ H. unfold wake_disc in E. cbn [get_task] in E. rewrite H in E. discriminate.
    + apply res_Kp. eapply Kp_wake_call; exact E.
  - (* LIntr *)
    destruct is_start.
    + destruct (start_fut c); try discriminate; destruct (intr_start c); try discriminate; [|same E].
      apply some_pair_inv in E. destruct E as [<- _]. apply res_Kp. apply Kp_vw. rewrite vw_cancel_task. reflexivity.
    + destruct (finish_fut c); try discriminate; destruct (intr_finish c); try discriminate; [|same E].
      apply some_pair_inv in E. destruct E as [<- _]. apply res_Kp. apply Kp_vw. rewrite vw_cancel_task. reflexivity.
  - (* LDiscWaitDone *)
    destruct (pc (t_disc c)); try discriminate; destruct (finish_fut c); try discriminate; destruct (disc_wait_done c); try discriminate; same E.
  - (* LConnLostCb *)
    destruct (transport c) as [| |e|]; try discriminate.
    set (c1 := c <| transport := TLost |>) in *. destruct (made c1); [|same E].
    apply some_inj in E. match type of E with helper_error c1 ?x = _ => pose proof (Kp_helper_error c1 x) as H end.
    rewrite E in H. cbn [fst] in H. apply res_Kp. eapply Kp_trans; [|exact H]. apply Kp_vw. reflexivity.
  - (* LTimer *)
    destruct k.
    + destruct (due (ping_timer c) c); [|discriminate].
      set (c0 := c <| ping_timer := None |>) in *. destruct (send_pending_ping c0); [|same E].
      pose proof (Kp_send_messages c0 [T_PING_REQ]) as H. destruct (send_messages c0 [T_PING_REQ]) as [[c1 o1] ex]. cbn [fst] in H.
      assert (H0 : Kp c c0) by (apply Kp_vw; reflexivity).
      destruct ex as [e|]; apply some_pair_inv in E; destruct E as [<- _]; apply res_Kp.
      * eapply Kp_trans; eassumption.
      * eapply Kp_trans; [exact H0|]. eapply Kp_trans; [exact H|]. apply Kp_vw. destruct (pong_timer c1); reflexivity.
    + destruct (due (pong_timer c) c); [|discriminate]. apply some_inj in E.
      pose proof (Kp_report_fatal c (Lib LPingFailed)) as H. rewrite E in H. apply res_Kp. exact H.
    + destruct (due (hs_timer c) c); [|discriminate]. apply some_pair_inv in E. destruct E as [<- _]. apply res_Kp.
      apply Kp_vw. destruct (ready c); reflexivity.
    + destruct (due (conn_timer c) c); [|discriminate]. apply some_pair_inv in E. destruct E as [<- _]. apply res_Kp.
      apply Kp_vw. rewrite vw_cancel_task. reflexivity.
    + destruct (get_call c cid); [|discriminate]. destruct (due (c_timer c0) c); [|discriminate]. same E.
    + destruct (pc (t_disc c)); try discriminate. destruct (due (disc_timer c) c); [|discriminate]. same E.
Qed.
