(* Abstraction of the connection state to the fields the invariants talk about (the "core"),
   the atomic moves the synchronous functions of Model/Conn.v perform on it, and the invariant. *)
From Coq Require Import NArith ZArith List Bool Lia Relations.
From RecordUpdate Require Import RecordSet.
From Verif Require Import Model.Conn.
Import ListNotations RecordSetNotations.
Open Scope Z_scope.
Open Scope list_scope.

Record core := mkCore {
  k_cs : cstate; k_conn : bool; k_hs : bool; k_armed : bool; k_stops : list bool; k_ever : bool;
  k_ping : option Z; k_pong : option Z; k_waiters : list nat; k_socket : bool; k_helper : hstat;
  k_ps : tpc; k_pf : tpc; k_pd : tpc; k_expected : bool }.

Definition core_of (c : conn) : core :=
  mkCore (cs c) (is_connected c) (handshake_complete c) (on_stop_armed c) (stop_calls c) (ever_connected c)
         (ping_timer c) (pong_timer c) (waiters c) (socket c) (helper c)
         (pc (t_start c)) (pc (t_finish c)) (pc (t_disc c)) (expected_disconnect c).

(* ---- core-level counterparts of _release_resources and _cleanup ---- *)
Definition releaseK (k : core) : core :=
  mkCore (k_cs k) (k_conn k) (k_hs k) (k_armed k) (k_stops k) (k_ever k) None None (k_waiters k) false HNone
         (k_ps k) (k_pf k) (k_pd k) (k_expected k).

Definition closeK (k : core) : core :=
  match k_cs k with
  | Closed => releaseK k
  | _ =>
    let fire := k_armed k && k_conn k in
    mkCore Closed false false (if fire then false else k_armed k)
           (if fire then k_stops k ++ [k_expected k] else k_stops k) (k_ever k)
           None None [] false HNone (k_ps k) (k_pf k) (k_pd k) (k_expected k)
  end.

Lemma closeK_cs k : k_cs (closeK k) = Closed.
Proof. unfold closeK, releaseK. destruct (k_cs k) eqn:E; cbn; auto. Qed.
Lemma closeK_helper k : k_helper (closeK k) = HNone.
Proof. unfold closeK, releaseK. destruct (k_cs k); reflexivity. Qed.
Lemma closeK_pcs k : k_ps (closeK k) = k_ps k /\ k_pf (closeK k) = k_pf k /\ k_pd (closeK k) = k_pd k.
Proof. unfold closeK, releaseK. destruct (k_cs k); auto. Qed.

Inductive mv : core -> core -> Prop :=
| MvClose k : mv k (closeK k)
| MvAddWaiter k x : k_hs k = true ->
    mv k (mkCore (k_cs k) (k_conn k) (k_hs k) (k_armed k) (k_stops k) (k_ever k) (k_ping k) (k_pong k)
                 (k_waiters k ++ [x]) (k_socket k) (k_helper k) (k_ps k) (k_pf k) (k_pd k) (k_expected k))
| MvFilterWaiters k f :
    mv k (mkCore (k_cs k) (k_conn k) (k_hs k) (k_armed k) (k_stops k) (k_ever k) (k_ping k) (k_pong k)
                 (filter f (k_waiters k)) (k_socket k) (k_helper k) (k_ps k) (k_pf k) (k_pd k) (k_expected k))
| MvClearPong k :
    mv k (mkCore (k_cs k) (k_conn k) (k_hs k) (k_armed k) (k_stops k) (k_ever k) (k_ping k) None
                 (k_waiters k) (k_socket k) (k_helper k) (k_ps k) (k_pf k) (k_pd k) (k_expected k))
| MvExpected k :
    mv k (mkCore (k_cs k) (k_conn k) (k_hs k) (k_armed k) (k_stops k) (k_ever k) (k_ping k) (k_pong k)
                 (k_waiters k) (k_socket k) (k_helper k) (k_ps k) (k_pf k) (k_pd k) true).

Definition R : core -> core -> Prop := clos_refl_trans core mv.

Lemma R_refl k : R k k. Proof. apply rt_refl. Qed.
Lemma R_trans a b c : R a b -> R b c -> R a c. Proof. apply rt_trans. Qed.
Lemma R_mv a b : mv a b -> R a b. Proof. apply rt_step. Qed.
Lemma R_eq a b : a = b -> R a b. Proof. intros ->. apply R_refl. Qed.

(* ---- the invariant, on the core ---- *)
Definition flagsK (k : core) : Prop :=
  k_conn k = (match k_cs k with Connected => true | _ => false end) /\
  k_hs k = (match k_cs k with HsDone | Connected => true | _ => false end).

Definition JK (k : core) : Prop :=
  (match k_ps k with PS_Resolve | PS_Tcp _ => k_cs k = Init \/ k_cs k = Closed | _ => True end) /\
  (match k_pf k with
   | PF_Create | PF_Ready => k_cs k = SockOpen \/ k_cs k = Closed
   | PF_Hello _ => k_cs k = HsDone \/ k_cs k = Closed
   | _ => True end).

Definition StopK (k : core) : Prop :=
  (k_armed k = true -> k_stops k = []) /\
  (k_armed k = false -> k_ever k = true /\ k_cs k = Closed /\ exists b, k_stops k = [b]) /\
  (k_ever k = true -> k_cs k = Connected \/ k_cs k = Closed) /\
  (k_cs k = Connected -> k_ever k = true) /\
  (k_cs k = Closed -> k_ever k = true -> k_armed k = false).

Definition ClosedK (k : core) : Prop :=
  k_cs k = Closed ->
  k_ping k = None /\ k_pong k = None /\ k_waiters k = [] /\ k_socket k = false /\
  (k_helper k = HNone \/ k_pf k = PF_Ready).

Definition InvK (k : core) : Prop := flagsK k /\ JK k /\ StopK k /\ ClosedK k.
Definition Inv (c : conn) : Prop := InvK (core_of c).

(* allowed visible transitions *)
Definition trans_ok (s s' : cstate) : Prop :=
  s' = s \/ (s = Init /\ s' = SockOpen) \/ (s = SockOpen /\ s' = HsDone) \/ (s = HsDone /\ s' = Connected) \/ s' = Closed.
Definition only_closes (s s' : cstate) : Prop := s' = s \/ s' = Closed.

Lemma only_closes_trans_ok s s' : only_closes s s' -> trans_ok s s'.
Proof. intros [->| ->]; unfold trans_ok; auto. Qed.

(* what every synchronous move guarantees *)
Definition SyncOK (k k' : core) : Prop :=
  only_closes (k_cs k) (k_cs k') /\ k_ps k' = k_ps k /\ k_pf k' = k_pf k /\ k_pd k' = k_pd k /\
  k_ever k' = k_ever k /\ (InvK k -> InvK k').

Ltac inv_crush :=
  unfold InvK, flagsK, JK, StopK, ClosedK in *; cbn in *;
  intuition (subst; cbn in *; try congruence; try discriminate; eauto).

Lemma mv_ok k k' : mv k k' -> SyncOK k k'.
Proof.
  intro H. destruct H as [k|k x Hhs|k f|k|k]; unfold SyncOK; cbn.
  - (* close *)
    unfold closeK, releaseK. destruct k as [s cn hs ar st ev pi po w so he ps pf pd ex]. cbn.
    destruct s; cbn; (split; [unfold only_closes; auto|]); do 4 (split; [reflexivity|]).
    all: intros (F & J & S & C); destruct F as [F1 F2]; cbn in F1, F2; subst cn hs; cbn.
    all: try rewrite andb_false_r; try rewrite andb_true_r; cbn.
    all: try solve [inv_crush; try (destruct ps; tauto); try (destruct pf; tauto)].
    + (* Connected *)
      destruct ar; cbn.
      * inv_crush; try (destruct ps; tauto); try (destruct pf; tauto).
      * inv_crush.
  - (* add waiter: only while the handshake is complete, hence not closed *)
    split; [left; reflexivity|]. do 4 (split; [reflexivity|]).
    destruct k as [s cn hs ar st ev pi po w so he ps pf pd ex]. cbn in *. subst hs.
    intros (F & J & S & C). destruct F as [F1 F2]. cbn in F1, F2.
    destruct s; try discriminate; inv_crush.
  - split; [left; reflexivity|]. do 4 (split; [reflexivity|]).
    destruct k as [s cn hs ar st ev pi po w so he ps pf pd ex]. cbn in *.
    intros (F & J & S & C). unfold InvK. split; [exact F|]. split; [exact J|]. split; [exact S|].
    intro Hc. specialize (C Hc). cbn in *. destruct C as (C1 & C2 & C3 & C4 & C5). subst w. cbn. auto.
  - split; [left; reflexivity|]. do 4 (split; [reflexivity|]).
    destruct k as [s cn hs ar st ev pi po w so he ps pf pd ex]. cbn in *.
    intros (F & J & S & C). unfold InvK. split; [exact F|]. split; [exact J|]. split; [exact S|].
    intro Hc. specialize (C Hc). cbn in *. tauto.
  - split; [left; reflexivity|]. do 4 (split; [reflexivity|]).
    destruct k as [s cn hs ar st ev pi po w so he ps pf pd ex]. cbn in *.
    intros (F & J & S & C). unfold InvK. split; [exact F|]. split; [exact J|]. split; [exact S|exact C].
Qed.

Lemma SyncOK_refl k : SyncOK k k.
Proof. unfold SyncOK, only_closes. split; [left; reflexivity|]. do 4 (split; [reflexivity|]). auto. Qed.
Lemma SyncOK_trans a b c : SyncOK a b -> SyncOK b c -> SyncOK a c.
Proof.
  unfold SyncOK, only_closes. intros (A1 & A2 & A3 & A4 & A5 & A6) (B1 & B2 & B3 & B4 & B5 & B6).
  split; [destruct A1 as [A1|A1], B1 as [B1|B1]; try (left; congruence); right; congruence|].
  do 4 (split; [congruence|]). auto.
Qed.
Lemma R_ok k k' : R k k' -> SyncOK k k'.
Proof.
  induction 1 as [a b H| |a b c _ IH1 _ IH2].
  - apply mv_ok; assumption.
  - apply SyncOK_refl.
  - eapply SyncOK_trans; eassumption.
Qed.

(* ---- the three forward transitions, on the core ---- *)
Definition sockopenK (k : core) : core :=
  mkCore SockOpen false false (k_armed k) (k_stops k) (k_ever k) (k_ping k) (k_pong k) (k_waiters k) true (k_helper k)
         (PDone TOk) (k_pf k) (k_pd k) (k_expected k).
Definition hsdoneK (k : core) (pf' : tpc) : core :=
  mkCore HsDone false true (k_armed k) (k_stops k) (k_ever k) (k_ping k) (k_pong k) (k_waiters k) (k_socket k) (k_helper k)
         (k_ps k) pf' (k_pd k) (k_expected k).
Definition connectedK (k : core) (pi : Z) : core :=
  mkCore Connected true true (k_armed k) (k_stops k) true (Some pi) (k_pong k) (k_waiters k) (k_socket k) (k_helper k)
         (k_ps k) (PDone TOk) (k_pd k) (k_expected k).

Ltac core_crush :=
  unfold InvK, flagsK, JK, StopK, ClosedK in *; cbn in *;
  intuition (subst; cbn in *; try discriminate; try congruence; eauto).

Lemma InvK_sockopen k : InvK k -> k_cs k = Init -> InvK (sockopenK k).
Proof.
  destruct k as [s cn hs ar st ev pi po w so he ps pf pd ex]. unfold sockopenK. cbn. intros H ->.
  destruct ar, ev; destruct pf; core_crush.
Qed.

Lemma InvK_hsdone k pf' : InvK k -> k_cs k = SockOpen -> (exists cid, pf' = PF_Hello cid) -> InvK (hsdoneK k pf').
Proof.
  destruct k as [s cn hs ar st ev pi po w so he ps pf pd ex]. unfold hsdoneK. cbn. intros H -> [cid ->].
  destruct ar, ev; destruct ps; core_crush.
Qed.

Lemma InvK_connected k pi : InvK k -> k_cs k = HsDone -> InvK (connectedK k pi).
Proof.
  destruct k as [s cn hs ar st ev pi0 po w so he ps pf pd ex]. unfold connectedK. cbn. intros H ->.
  destruct ar, ev; destruct ps; core_crush.
Qed.
