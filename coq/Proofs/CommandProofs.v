(* C15: what a well-formed command writes, for every environment (every subset of supplied arguments, every value). *)
From Coq Require Import NArith ZArith String List Bool Lia.
From Verif Require Import Model.Schema Model.CommandIR Proofs.ConvertProofs.
Import ListNotations.
Open Scope string_scope.
Open Scope list_scope.

Section Exec.
  Variable ev : env.
  Variable apiv : Z * Z.

  Lemma get_cons_other f g v m : String.eqb g f = false -> get f ((g, v) :: m) = get f m.
  Proof. intro H. cbn. rewrite H. reflexivity. Qed.

  (* a statement does not touch the fields it does not mention *)
  Lemma exec_stmt_untouched fuel : forall s m f, ~ In f (fields_of fuel s) -> get f (exec_stmt fuel ev apiv s m) = get f m.
  Proof.
    induction fuel as [|n IH]; intros s m f Hn; [reflexivity|].
    destruct s as [fld e|c th el]; cbn [exec_stmt fields_of] in *.
    - apply get_cons_other. apply String.eqb_neq. intro E. apply Hn. left. exact E.
    - assert (G : forall l mm, (forall x, In x l -> ~ In f (fields_of n x)) -> get f (fold_left (fun acc x => exec_stmt n ev apiv x acc) l mm) = get f mm).
      { induction l as [|x l IHl]; intros mm Hl; [reflexivity|]. cbn [fold_left]. rewrite IHl; [|intros y Hy; apply Hl; right; exact Hy].
        apply IH. apply Hl. left. reflexivity. }
      destruct (holds ev apiv c); apply G; intros x Hx Hin; apply Hn; apply in_or_app; [left|right]; apply in_flat_map; exists x; auto.
  Qed.

  Lemma exec_list_untouched ss : forall m f, (forall s, In s ss -> ~ In f (stmt_fields s)) -> get f (exec_list ev apiv ss m) = get f m.
  Proof.
    unfold exec_list. induction ss as [|s ss IH]; intros m f H; [reflexivity|]. cbn [fold_left].
    rewrite IH; [|intros x Hx; apply H; right; exact Hx]. apply exec_stmt_untouched. apply H. left. reflexivity.
  Qed.

  Lemma exec_list_app a b m : exec_list ev apiv (a ++ b) m = exec_list ev apiv b (exec_list ev apiv a m).
  Proof. unfold exec_list. apply fold_left_app. Qed.

  (* locality: the value of a field is decided by the one statement that mentions it *)
  Theorem field_local pre s post m f :
    (forall x, In x pre -> ~ In f (stmt_fields x)) -> (forall x, In x post -> ~ In f (stmt_fields x)) ->
    get f (exec_list ev apiv (pre ++ s :: post) m) = get f (exec_stmt 8 ev apiv s (exec_list ev apiv pre m)).
  Proof.
    intros Hpre Hpost. rewrite exec_list_app. change (s :: post) with ([s] ++ post). rewrite exec_list_app.
    rewrite exec_list_untouched by exact Hpost. reflexivity.
  Qed.

  (* a block whose guard does not hold sets nothing *)
  Theorem block_not_taken p th m f : ev p = None -> get f (exec_stmt 8 ev apiv (SIf (CNotNone p) th []) m) = get f m.
  Proof. intro H. cbn [exec_stmt holds]. rewrite H. reflexivity. Qed.

  (* a taken block: each field assigned directly (and only once) in the block carries its expression *)
  Lemma fold_assign_last th : forall m f e,
    In (SAssign f e) th -> NoDup (flat_map (fields_of 7) th) ->
    get f (fold_left (fun acc x => exec_stmt 7 ev apiv x acc) th m) = Some (eval ev e).
  Proof.
    induction th as [|x th IH]; intros m f e Hin Hnd; [destruct Hin|].
    cbn [fold_left]. cbn [flat_map] in Hnd. apply NoDup_app_remove_l in Hnd as Hnd_tail || idtac.
    destruct Hin as [->|Hin].
    - (* assigned here; later statements do not mention f *)
      assert (Hlater : forall y, In y th -> ~ In f (fields_of 7 y)).
      { intros y Hy Hf. cbn [fields_of] in Hnd. inversion Hnd as [|? ? Hni _]; subst. apply Hni. apply in_flat_map. exists y. auto. }
      assert (G : forall l mm, (forall y, In y l -> ~ In f (fields_of 7 y)) -> get f (fold_left (fun acc x => exec_stmt 7 ev apiv x acc) l mm) = get f mm).
      { induction l as [|y l IHl]; intros mm Hl; [reflexivity|]. cbn [fold_left]. rewrite IHl; [|intros z Hz; apply Hl; right; exact Hz].
        apply exec_stmt_untouched. apply Hl. left. reflexivity. }
      rewrite G by exact Hlater. cbn [exec_stmt get]. rewrite String.eqb_refl. reflexivity.
    - apply IH; [exact Hin|]. clear -Hnd. induction (fields_of 7 x) as [|a l IHl]; [exact Hnd|]. apply IHl. inversion Hnd; assumption.
  Qed.

  Theorem block_taken p v th m f e :
    ev p = Some v -> In (SAssign f e) th -> NoDup (stmt_fields (SIf (CNotNone p) th [])) ->
    get f (exec_stmt 8 ev apiv (SIf (CNotNone p) th []) m) = Some (eval ev e).
  Proof.
    intros Hp Hin Hnd. cbn [exec_stmt holds]. rewrite Hp. apply fold_assign_last; [exact Hin|].
    unfold stmt_fields in Hnd. cbn [fields_of] in Hnd. cbn [flat_map] in Hnd. rewrite app_nil_r in Hnd. exact Hnd.
  Qed.
End Exec.

(* ---- from the static checks to facts ---- *)
Lemma disjoint_head l r x l2 : disjoint_lists (l :: r) = true -> In x l -> In l2 r -> ~ In x l2.
Proof.
  cbn [disjoint_lists]. intro H. apply andb_true_iff in H. destruct H as [H _]. rewrite forallb_forall in H.
  intros Hx Hl2 Hin. specialize (H x Hx). apply negb_true_iff in H.
  assert (E : existsb (fun l0 => memb String.eqb x l0) r = true).
  { apply existsb_exists. exists l2. split; [exact Hl2|]. apply memb_In_str. exact Hin. }
  rewrite E in H. discriminate.
Qed.
Lemma disjoint_tail l r : disjoint_lists (l :: r) = true -> disjoint_lists r = true.
Proof. cbn [disjoint_lists]. intro H. apply andb_true_iff in H. tauto. Qed.

Lemma disjoint_split a : forall l b x l2,
  disjoint_lists (a ++ l :: b) = true -> In x l -> In l2 (a ++ b) -> ~ In x l2.
Proof.
  induction a as [|h a IH]; intros l b x l2 H Hx Hl2; cbn [app] in *.
  - eapply disjoint_head; eassumption.
  - destruct Hl2 as [<-|Hl2].
    + (* l2 = h comes before l: use symmetry through the head check on h *)
      intro Hin. eapply (disjoint_head h (a ++ l :: b) x l); [exact H|exact Hin| |exact Hx].
      apply in_or_app. right. left. reflexivity.
    + eapply IH; [eapply disjoint_tail; exact H|exact Hx|exact Hl2].
Qed.

Theorem wf_sound c ev apiv :
  wf c = true ->
  (forall pre p th post, c_body c = pre ++ SIf (CNotNone p) th [] :: post ->
     (ev p = None -> forall f, In f (stmt_fields (SIf (CNotNone p) th [])) -> get f (exec c ev apiv) = None) /\
     (forall v, ev p = Some v -> forall f e, In (SAssign f e) th -> get f (exec c ev apiv) = Some (eval ev e))) /\
  (forall f, ~ In f (flat_map stmt_fields (c_init c ++ c_body c)) -> get f (exec c ev apiv) = None).
Proof.
  unfold wf. intro H. repeat (apply andb_true_iff in H; destruct H as [H ?]).
  rename H0 into Hkey, H1 into Hone, H2 into Hdecl, H3 into Hdis, H4 into Hnd, H into Hblk.
  split.
  - intros pre p th post Eb. set (s := SIf (CNotNone p) th []) in *.
    assert (Hother : forall f, In f (stmt_fields s) ->
              (forall x, In x (c_init c) -> ~ In f (stmt_fields x)) /\ (forall x, In x pre -> ~ In f (stmt_fields x)) /\
              (forall x, In x post -> ~ In f (stmt_fields x))).
    { intros f Hf. rewrite Eb in Hdis. rewrite map_app in Hdis. cbn [map] in Hdis. rewrite app_assoc in Hdis.
      assert (D : forall l2, In l2 ((map stmt_fields (c_init c) ++ map stmt_fields pre) ++ map stmt_fields post) -> ~ In f l2)
        by (intros l2 Hl2; eapply disjoint_split; eassumption).
      repeat split; intros x Hx; apply D; apply in_or_app.
      - left. apply in_or_app. left. apply in_map. exact Hx.
      - left. apply in_or_app. right. apply in_map. exact Hx.
      - right. apply in_map. exact Hx. }
    assert (Hnds : NoDup (stmt_fields s)).
    { rewrite forallb_forall in Hnd. apply nodupb_str. apply Hnd. rewrite Eb. apply in_or_app. right. left. reflexivity. }
    split.
    + intros Hp f Hf. destruct (Hother f Hf) as (Hi & Hpre & Hpost).
      unfold exec. rewrite Eb. rewrite field_local by assumption. unfold s. rewrite block_not_taken by exact Hp.
      rewrite exec_list_untouched by exact Hpre. rewrite exec_list_untouched by exact Hi. reflexivity.
    + intros v Hp f e Hin.
      assert (Hf : In f (stmt_fields s)).
      { unfold s, stmt_fields. cbn [fields_of]. apply in_or_app. left. apply in_flat_map. exists (SAssign f e). split; [exact Hin|left; reflexivity]. }
      destruct (Hother f Hf) as (Hi & Hpre & Hpost).
      unfold exec. rewrite Eb. rewrite field_local by assumption. unfold s. eapply block_taken; eassumption.
  - intros f Hn. unfold exec. rewrite exec_list_untouched; [rewrite exec_list_untouched; [reflexivity|]|].
    + intros s Hs Hf. apply Hn. apply in_flat_map. exists s. split; [apply in_or_app; left; exact Hs|exact Hf].
    + intros s Hs Hf. apply Hn. apply in_flat_map. exists s. split; [apply in_or_app; right; exact Hs|exact Hf].
Qed.
