"""VLoop (virtual-time asyncio loop) + SimNet (fake socket / transport / connect) for running the
real aioesphomeapi code deterministically.  No source hooks: everything is patched from outside."""
from __future__ import annotations

import asyncio
import contextlib
import selectors
import socket
from unittest.mock import patch


# --------------------------------------------------------------------------- virtual time loop
class _Sel(selectors.BaseSelector):
    def __init__(self, loop):
        self.loop = loop
        self._m = {}

    def register(self, f, e, d=None):
        k = selectors.SelectorKey(f, f if isinstance(f, int) else f.fileno(), e, d)
        self._m[k.fd] = k
        return k

    def unregister(self, f):
        fd = f if isinstance(f, int) else f.fileno()
        return self._m.pop(fd)

    def select(self, timeout=None):
        if timeout is None:
            raise DeadlockError("nothing scheduled while an awaited call is pending")
        if timeout > 0:
            self.loop._vt += timeout
        return []

    def get_map(self):
        return self._m


class DeadlockError(RuntimeError):
    pass


# The virtual clock does not start at zero: loop.time() is "time since boot" in real life, and a deadline computed as
# call_later(loop.time() + x) instead of call_at(...) is invisible on a clock that starts at 0.  A multiple of 1/1024 s far from
# zero (three days) keeps every model time (multiples of 1/1024 s) exactly representable.
CLOCK_BASE = 259200.0
# ... and the loops of one process share one monotonic clock in real life: a later loop never reads an earlier time than a loop
# that ran before it (module-level state of the library keyed by time would otherwise meet a clock that went backwards).
# Each new loop starts at the next multiple of 1024 s after the time the previous one had reached (times stay small, so the
# rounding error of base + offset stays far below the loop's clock resolution, set to 2^-26 s below).
_last_loop = [None]


class VLoop(asyncio.SelectorEventLoop):
    """SelectorEventLoop whose clock is virtual: select(timeout) advances the clock by timeout.
    loop._vt is the time since the start of the run; loop.time() = loop.base + loop._vt."""

    def __init__(self):
        self._vt = 0.0
        prev = _last_loop[0]
        self.base = CLOCK_BASE if prev is None else float((int(prev.time()) // 1024 + 2) * 1024)
        _last_loop[0] = self
        super().__init__(_Sel(self))
        self._clock_resolution = 2.0 ** -26
        self.after_callback = None
        self.before_callback = None

    def time(self):
        return self.base + self._vt

    # pending (non cancelled) timers: list of (when, callback name)
    def armed_timers(self):
        out = []
        for h in self._scheduled:
            if not h._cancelled:
                cb = h._callback
                name = getattr(cb, "__qualname__", None) or getattr(getattr(cb, "func", None), "__qualname__", None) or repr(cb)
                out.append((h._when - self.base, name))
        return sorted(out)

    def next_timer(self):
        ts = [h._when - self.base for h in self._scheduled if not h._cancelled]
        return min(ts) if ts else None


_orig_handle_run = asyncio.events.Handle._run


def _patched_run(self):
    loop = self._loop
    pre = getattr(loop, "before_callback", None)
    if pre is not None:
        pre(self)
    _orig_handle_run(self)
    hook = getattr(loop, "after_callback", None)
    if hook is not None:
        hook(self)


asyncio.events.Handle._run = _patched_run


async def drain(loop, limit=10000):
    """Run the ready queue to empty (from inside a coroutine driving the loop)."""
    for _ in range(limit):
        await asyncio.sleep(0)
        if not loop._ready:
            return
    raise RuntimeError("drain: ready queue never empties")


async def advance(loop, to=None, by=None):
    """Advance virtual time (firing due timers in order, draining after each)."""
    # `to` is a loop time (as returned by loop.time()); `by` is a duration
    target = loop._vt + by if by is not None else to - loop.base
    while True:
        nt = loop.next_timer()
        if nt is None or nt > target:
            break
        loop._vt = max(loop._vt, nt)
        await drain(loop)
    loop._vt = max(loop._vt, target)
    await drain(loop)


# --------------------------------------------------------------------------- fake socket / transport
class FakeSocket:
    def __init__(self, peer=("10.0.0.1", 6053)):
        self.closed = False
        self.peer = peer
        self.family = socket.AF_INET
        self.type = socket.SOCK_STREAM

    def close(self):
        self.closed = True

    def setblocking(self, _):
        pass

    fail = None     # "nodelay" | "peername": the peer vanished between connect() and the first use of the socket

    def setsockopt(self, *a):
        if self.fail == "nodelay" and len(a) >= 2 and a[1] == socket.TCP_NODELAY:
            raise OSError(22, "Invalid argument")

    def getpeername(self):
        if self.fail == "peername":
            raise OSError(107, "Transport endpoint is not connected")
        return self.peer

    def fileno(self):
        return 99 if not self.closed else -1


FEED_MODE = [0]      # 0: bytes; 1: one bytearray reused for every read; 2: memoryview slices of one pool (set per story by the harness)


class SimTransport(asyncio.Transport):
    """Rules K10 of DESIGN.md, mirroring _SelectorSocketTransport."""

    def __init__(self, loop, protocol, sock=None):
        super().__init__()
        self.loop, self.protocol, self.sock = loop, protocol, sock
        self.closing = False
        self.lost_called = False
        self.writes = []          # (virtual time, bytes)
        self.dropped_writes = 0
        self.write_raises = None  # exception to raise on write
        self.pause_on_write = False   # call protocol.pause_writing() from inside the next write()
        self.conn_lost_scheduled = False
        self.made = False

    # -- asyncio.Transport API used by the library
    def write(self, data):
        if self.write_raises is not None:
            raise self.write_raises
        if self.closing:
            self.dropped_writes += 1
            return
        self.writes.append((self.loop.time(), bytes(data)))
        if self.pause_on_write:
            # the peer has stopped reading: this write takes the buffer over its high-water mark, and asyncio tells the protocol
            # so from inside write() (_maybe_pause_protocol)
            self.pause_on_write = False
            self.protocol.pause_writing()

    def is_closing(self):
        return self.closing

    def close(self):
        if self.closing:
            return
        self.closing = True
        self._schedule_lost(None)

    def abort(self):
        self._force_close(None)

    def get_extra_info(self, name, default=None):
        if name == "socket":
            return self.sock
        return default

    def _schedule_lost(self, exc):
        if not self.conn_lost_scheduled:
            self.conn_lost_scheduled = True
            self.loop.call_soon(self._call_connection_lost, exc)

    def _force_close(self, exc):
        self.closing = True
        self._schedule_lost(exc)

    def _call_connection_lost(self, exc):
        self.lost_called = True
        try:
            self.protocol.connection_lost(exc)
        finally:
            if self.sock is not None:
                self.sock.close()

    # -- environment side
    def feed(self, data):
        """The device's bytes arrive (one data_received call)."""
        if self.closing:
            return "ignored"
        # what the protocol is handed belongs to the transport: bytes, or a receive buffer that is reused for the next read
        mode = FEED_MODE[0]
        arg, scrub = data, None
        if mode == 1:
            buf = self.__dict__.setdefault("_rx_bytearray", bytearray())
            del buf[:]
            buf += data
            arg, scrub = buf, buf
        elif mode == 2:
            pool = self.__dict__.setdefault("_rx_pool", bytearray(1 << 17))
            if len(data) <= len(pool):
                pool[:len(data)] = data
                arg, scrub = memoryview(pool)[:len(data)], pool
        try:
            self.protocol.data_received(arg)
            if scrub is not None:
                if isinstance(arg, memoryview):
                    arg.release()
                scrub[:len(data)] = b"\xee" * len(data)
        except (SystemExit, KeyboardInterrupt):
            raise
        except BaseException as exc:  # Fatal error: protocol.data_received() call failed.
            self._force_close(exc)
            return exc
        return None

    def feed_eof(self):
        if self.closing:
            return
        try:
            keep_open = self.protocol.eof_received()
        except BaseException as exc:
            self._force_close(exc)
            return
        if not keep_open:
            self.close()

    def lose(self, exc):
        """Connection reset / OS error observed by the transport."""
        if self.conn_lost_scheduled:
            return
        self._force_close(exc)


class Net:
    """Patches the three places where aioesphomeapi touches the network."""

    def __init__(self, loop):
        self.loop = loop
        self.transports = []
        self.sockets = []
        self.connect_script = []   # per start_connection call: "ok" | exception instance | "hang"
        self.resolve_script = []   # per resolve: "ok" | exception | "hang"
        self.hangs = []
        self.on_connection_made = None
        self.on_transport = None

    async def _start_connection(self, addr_infos, **kw):
        action = self.connect_script.pop(0) if self.connect_script else "ok"
        if action == "hang":
            fut = self.loop.create_future()
            self.hangs.append(("tcp", fut))
            await fut
        if isinstance(action, BaseException):
            raise action
        sock = FakeSocket()
        sock.fail = getattr(self, "socket_fault", None)
        self.sockets.append(sock)
        return sock

    async def _resolve(self, hosts, port, zc=None, **kw):
        from aioesphomeapi.host_resolver import AddrInfo, IPv4Sockaddr
        action = self.resolve_script.pop(0) if self.resolve_script else "ok"
        if action == "hang":
            fut = self.loop.create_future()
            self.hangs.append(("resolve", fut))
            await fut
            groups = getattr(self, "resolve_groups", 1)
            return [AddrInfo(family=socket.AF_INET, type=socket.SOCK_STREAM, proto=socket.IPPROTO_TCP,
                             sockaddr=IPv4Sockaddr(address=f"10.0.0.{i + 1}", port=port)) for i in range(groups)]
        if isinstance(action, BaseException):
            raise action
        return [AddrInfo(family=socket.AF_INET, type=socket.SOCK_STREAM, proto=socket.IPPROTO_TCP,
                         sockaddr=IPv4Sockaddr(address="10.0.0.1", port=port))]

    async def _create_connection(self, factory, sock=None, **kw):
        protocol = factory()
        tr = SimTransport(self.loop, protocol, sock)
        self.transports.append(tr)
        if self.on_transport is not None:
            self.on_transport(tr)
        waiter = self.loop.create_future()
        # like _SelectorSocketTransport.__init__: connection_made, (add_reader), then the waiter
        self.loop.call_soon(self._conn_made, tr)
        self.loop.call_soon(self._made, tr)
        self.loop.call_soon(asyncio.futures._set_result_unless_cancelled, waiter, None)
        try:
            await waiter
        except BaseException:
            tr.close()
            raise
        return tr, protocol

    def _conn_made(self, tr):
        tr.made = True
        tr.protocol.connection_made(tr)

    def _made(self, tr):
        if self.on_connection_made is not None:
            self.on_connection_made(tr)

    @contextlib.contextmanager
    def patched(self, resolver=True):
        with contextlib.ExitStack() as st:
            st.enter_context(patch("aioesphomeapi.connection.aiohappyeyeballs.start_connection", self._start_connection))
            st.enter_context(patch.object(self.loop, "create_connection", self._create_connection))
            if resolver:
                st.enter_context(patch("aioesphomeapi.connection.hr.async_resolve_host", self._resolve))
            yield self


# --------------------------------------------------------------------------- plaintext device helpers
def vb(v):
    out = bytearray()
    while True:
        b = v & 0x7F
        v >>= 7
        if v:
            out.append(b | 0x80)
        else:
            out.append(b)
            return bytes(out)


def plain_frame(ty, payload=b""):
    return b"\0" + vb(len(payload)) + vb(ty) + payload


_P2T = None


def msg_type_id(msg_or_cls):
    global _P2T
    if _P2T is None:
        from aioesphomeapi.core import MESSAGE_TYPE_TO_PROTO
        _P2T = {v: k for k, v in MESSAGE_TYPE_TO_PROTO.items()}
    cls = msg_or_cls if isinstance(msg_or_cls, type) else type(msg_or_cls)
    return _P2T[cls]


def plain_msg(msg):
    return plain_frame(msg_type_id(msg), msg.SerializeToString())


def decode_plain_stream(data):
    """Independent decoder for what the client wrote (minimal varints required)."""
    out, i = [], 0

    def rv(i):
        v, s, start = 0, 0, i
        while True:
            b = data[i]
            i += 1
            v |= (b & 0x7F) << s
            s += 7
            if not b & 0x80:
                break
        if vb(v) != data[start:i]:
            raise ValueError("non-minimal varint")
        return v, i

    while i < len(data):
        if data[i] != 0:
            raise ValueError("bad preamble")
        ln, i = rv(i + 1)
        ty, i = rv(i)
        if i + ln > len(data):
            raise ValueError("truncated")
        out.append((ty, data[i:i + ln]))
        i += ln
    return out


def client_built_elsewhere(**kw):
    """An APIClient constructed while ANOTHER event loop is the current one (an application that builds its objects before
    asyncio.run(), or reuses them in a second run); that loop is never run."""
    from aioesphomeapi.client import APIClient
    other = asyncio.new_event_loop()
    asyncio.set_event_loop(other)
    try:
        return APIClient("10.0.0.1", 6053, None, **kw), other
    finally:
        asyncio.set_event_loop(None)


def run(coro_fn):
    """Run coro_fn(loop) on a fresh VLoop and return its result."""
    loop = VLoop()
    asyncio.set_event_loop(loop)
    try:
        return loop.run_until_complete(coro_fn(loop))
    finally:
        try:
            for t in asyncio.all_tasks(loop):
                t.cancel()
            loop.run_until_complete(asyncio.sleep(0))
        except BaseException:
            pass
        asyncio.set_event_loop(None)
        loop.close()


async def connected_client(loop, net, *, login=False, password=None, expected_name=None, keepalive=20.0,
                           api=(1, 10), name="dev", on_stop=None, client=None):
    """APIClient with an established plaintext session over SimNet. Returns (client, transport)."""
    from aioesphomeapi import api_pb2 as pb
    from aioesphomeapi.client import APIClient
    cli = client if client is not None else APIClient("10.0.0.1", 6053, password, keepalive=keepalive, expected_name=expected_name)
    await cli.start_connection(on_stop=on_stop)
    task = asyncio.ensure_future(cli.finish_connection(login=login))
    await drain(loop)
    tr = net.transports[-1]
    tr.feed(plain_msg(pb.HelloResponse(api_version_major=api[0], api_version_minor=api[1], name=name)))
    if login:
        tr.feed(plain_msg(pb.ConnectResponse(invalid_password=False)))
    await drain(loop)
    await task
    return cli, tr
