"""Shared machinery for the /verif checks: Coq build, assumptions audit, extracted-model
driver, evidence / replay writers, known-findings handling, violation reporting."""
from __future__ import annotations

import fcntl
import hashlib
import contextlib
import json
import os
import re
import subprocess
import sys
import time
from pathlib import Path

VERIF = Path(__file__).resolve().parent.parent
REPO = Path(os.environ.get("VERIF_REPO", "/repo"))
COQ = VERIF / "coq"
BUILD = VERIF / "_build"
EVIDENCE = VERIF / "evidence"
REPLAYS = VERIF / "replays"
PY = "/venv/bin/python"

FORBIDDEN = re.compile(
    r"\b(Admitted|admit|Axiom|Axioms|Parameter|Parameters|Conjecture|Conjectures|"
    r"Unset\s+Guard|bypass_check|Admit\s+Obligations|type-in-type|impredicative-set|"
    r"Unset\s+Positivity|Unset\s+Universe)\b"
)

TRUSTED_BASE = [
    "Coq 8.16.1 kernel (coqc, full .vo build; vm_compute used for finite table checks and refutation witnesses; native_compute not used)",
    "axioms: none declared; every property theorem is 'Closed under the global context' under Print Assumptions (checked on every run)",
    "extraction: ExtrOcamlBasic only (Extract Inductive bool/option/unit/list/prod/sumbool/sumor, Extract Inlined Constant andb/orb); N, Z, positive, ascii, string stay extracted Coq datatypes; OCaml 4.13.1 ocamlopt; hand-written driver coq/Extract/driver.ml",
    "correspondence harness: /verif/vlib (VLoop virtual-time event loop over CPython 3.12 SelectorEventLoop, SimNet fakes), case generators and canonicalisation",
    "translators: /verif/translate/*.py (Python ast / .proto text / descriptor walkers), fail-closed",
]


def sh(cmd, timeout=1200, cwd=None, env=None, input=None):
    e = dict(os.environ)
    if env:
        e.update(env)
    p = subprocess.run(
        cmd, shell=isinstance(cmd, str), cwd=cwd, env=e, input=input,
        stdout=subprocess.PIPE, stderr=subprocess.STDOUT, text=True, timeout=timeout,
    )
    out = "\n".join(l for l in p.stdout.splitlines() if not l.startswith("WARNING conda"))
    return p.returncode, out


class BuildLock:
    def __enter__(self):
        BUILD.mkdir(exist_ok=True)
        self.f = open(BUILD / ".lock", "w")
        fcntl.flock(self.f, fcntl.LOCK_EX)
        return self

    def __exit__(self, *a):
        fcntl.flock(self.f, fcntl.LOCK_UN)
        self.f.close()


def write_if_changed(path: Path, content: str) -> bool:
    path.parent.mkdir(parents=True, exist_ok=True)
    if path.exists() and path.read_text() == content:
        return False
    path.write_text(content)
    return True


# --------------------------------------------------------------------------- Coq

def coq_project_files():
    files = []
    for line in (COQ / "_CoqProject").read_text().splitlines():
        line = line.strip()
        if line.endswith(".v"):
            files.append(line)
    return files


def audit_sources():
    """grep the development for forbidden constructs; returns list of offending lines."""
    bad = []
    for f in coq_project_files():
        txt = (COQ / f).read_text()
        # strip comments (non-nested is enough for our files; nested handled by loop)
        prev = None
        while prev != txt:
            prev = txt
            txt = re.sub(r"\(\*[^()]*?\*\)", " ", txt, flags=re.S)
        for i, l in enumerate(txt.splitlines(), 1):
            if FORBIDDEN.search(l):
                bad.append(f"{f}:{i}: {l.strip()}")
    return bad


def coq_make(targets, jobs=8, timeout=1500):
    """Build .vo targets (paths relative to coq/). Returns (ok, log)."""
    with BuildLock():
        if not (COQ / "Makefile").exists() or (
            (COQ / "Makefile").stat().st_mtime < (COQ / "_CoqProject").stat().st_mtime
        ):
            rc, out = sh("coq_makefile -f _CoqProject -o Makefile", cwd=COQ)
            if rc != 0:
                return False, out
        rc, out = sh(
            ["timeout", str(timeout), "make", f"-j{jobs}", *targets], cwd=COQ, timeout=timeout + 30
        )
        return rc == 0, out


def coq_deps_closure(vfile: str):
    """Transitive closure of project files that vfile depends on (via Require lines)."""
    proj = set(coq_project_files())
    seen, todo = set(), [vfile]
    while todo:
        f = todo.pop()
        if f in seen or f not in proj:
            continue
        seen.add(f)
        txt = (COQ / f).read_text()
        for sent in re.split(r"\.\s", txt):
            m = re.match(r"\s*(?:From\s+(\w+)\s+)?Require\s+(?:Import\s+|Export\s+)?([\w.\s]+)$", sent.strip())
            if not m:
                continue
            prefix = m.group(1)
            for mod in m.group(2).split():
                if mod.startswith("Verif."):
                    mod = mod[len("Verif."):]
                elif prefix not in (None, "Verif"):
                    continue
                cand = mod.replace(".", "/") + ".v"
                if cand in proj:
                    todo.append(cand)
    return sorted(seen)


STMT = re.compile(r"^\s*(Theorem|Lemma|Corollary|Example|Fact|Proposition|Remark)\s+([\w']+)", re.M)


def count_obligations(vfile: str):
    names = []
    for f in coq_deps_closure(vfile):
        for m in STMT.finditer((COQ / f).read_text()):
            names.append(f"{f}:{m.group(2)}")
    return names


def print_assumptions(prop_id: str, vfile: str, theorems):
    """Run coqc on a scratch file that requires the property file and prints assumptions."""
    mod = "Verif." + vfile[:-2].replace("/", ".")
    scratch = BUILD / "assum"
    scratch.mkdir(parents=True, exist_ok=True)
    src = scratch / f"Assum_{prop_id}.v"
    body = f"Require Import {mod}.\n"
    for t in theorems:
        body += f'Print Assumptions {t}.\n'
    src.write_text(body)
    rc, out = sh(
        ["timeout", "300", "coqc", "-Q", str(COQ), "Verif", str(src)], cwd=scratch, timeout=330
    )
    res = {}
    if rc != 0:
        return False, {"_error": out[-2000:]}
    chunks = re.split(r"(?=Closed under the global context|Axioms:)", out)
    chunks = [c.strip() for c in chunks if c.strip()]
    ok = len(chunks) == len(theorems)
    for t, c in zip(theorems, chunks):
        res[t] = c
        if not c.startswith("Closed under the global context"):
            ok = False
    return ok, res


def property_theorems(vfile: str):
    txt = (COQ / vfile).read_text()
    return [m.group(2) for m in STMT.finditer(txt) if m.group(1) in ("Theorem", "Corollary")]


# --------------------------------------------------------------------------- extracted model driver

def build_driver():
    """(Re)build the extracted OCaml model + driver. Returns (ok, log)."""
    ok, log = coq_make(["Extract/Extract.vo"])
    if not ok:
        return False, log
    with BuildLock():
        out_dir = BUILD / "ocaml"
        out_dir.mkdir(parents=True, exist_ok=True)
        mls = sorted((COQ / "Extract" / "ml").glob("*.ml*")) + [COQ / "Extract" / "driver.ml"]
        exe = out_dir / "driver"
        if exe.exists() and all(exe.stat().st_mtime >= s.stat().st_mtime for s in mls):
            return True, "up to date"
        for old in out_dir.glob("*"):
            if old.is_file():
                old.unlink()
        for s in mls:
            (out_dir / s.name).write_bytes(s.read_bytes())
        rc, out = sh(
            "ocamlfind ocamlopt -w -a -package str -linkpkg "
            "$(ocamlfind ocamldep -sort *.mli *.ml) -o driver",
            cwd=out_dir, timeout=600,
        )
        return rc == 0, out


def run_driver(lines, timeout=1200):
    exe = BUILD / "ocaml" / "driver"
    p = subprocess.run(
        ["bash", "-c", f"ulimit -s unlimited 2>/dev/null || ulimit -s 1000000 2>/dev/null; exec {exe}"], input="\n".join(lines) + "\n", stdout=subprocess.PIPE, stderr=subprocess.PIPE,
        text=True, timeout=timeout,
    )
    if p.returncode != 0:
        raise RuntimeError(f"model driver failed rc={p.returncode}: {p.stderr[-2000:]}")
    out = p.stdout.splitlines()
    if len(out) != len(lines):
        raise RuntimeError(f"model driver returned {len(out)} lines for {len(lines)} cases: {p.stderr[-500:]}")
    return out


def hexs(b: bytes) -> str:
    return b.hex() if b else "-"


# --------------------------------------------------------------------------- known findings

def load_known():
    p = VERIF / "known_findings.json"
    if not p.exists():
        return {"findings": [], "fixed": []}
    return json.loads(p.read_text())


# --------------------------------------------------------------------------- reporting

class Report:
    def __init__(self, prop: str, tier: str, seed: int, level: str = "proof"):
        self.prop, self.tier, self.seed, self.level = prop, tier, seed, level
        self.t0 = time.time()
        self.violations = []   # (signature, replay dict)
        self.known_hit = {}
        self.coverage = {
            "evaluations": 0, "distinct_nontrivial": 0, "rule": "", "samples": [],
            "obligations": 0, "discharged": 0, "checker_cmd": "", "trusted_base": list(TRUSTED_BASE),
            "traces_validated_against_impl": 0,
        }
        self.assumptions = []
        self._hashes = set()
        self.known = [f for f in load_known()["findings"] if f["property"] == prop]
        self.notes = []
        self.hist = {}

    # ---- counting
    def case(self, canonical, nontrivial: bool, sample=None):
        self.coverage["evaluations"] += 1
        if nontrivial:
            h = hashlib.sha1(repr(canonical).encode()).digest()[:10]
            if h not in self._hashes:
                self._hashes.add(h)
                self.coverage["distinct_nontrivial"] += 1
        if sample is not None and len(self.coverage["samples"]) < 6:
            self.coverage["samples"].append(sample)

    def bump(self, key, n=1):
        self.hist[key] = self.hist.get(key, 0) + n

    # ---- violations
    def violation(self, signature: str, what: str, replay: dict):
        for k in self.known:
            if re.fullmatch(k["signature"], signature):
                self.known_hit.setdefault(k["signature"], (k, replay))
                return
        if any(s == signature for s, _, _ in self.violations):
            return
        self.violations.append((signature, what, replay))

    def proof_broken(self, theorem: str, log: str, no_input=True):
        """A proof obligation / correspondence no longer checks and no failing input was found."""
        self.violations.append((f"{self.prop}/proof/{theorem}", f"obligation {theorem} no longer checks",
                                {"kind": "no-failing-input-found", "obligation": theorem, "log": log[-4000:]}))

    # ---- proof part
    def proofs(self, vfile: str, extra_targets=()):
        """Build Properties file, audit, collect assumptions; returns True when all discharged."""
        obligations = count_obligations(vfile)
        self.coverage["obligations"] = len(obligations)
        self.coverage["checker_cmd"] = (
            f"cd /verif/coq && coq_makefile -f _CoqProject -o Makefile && make {vfile}o "
            f"&& coqc Print Assumptions on every Theorem of {vfile}"
        )
        # translator-tied files are regenerated from /repo's working tree on every run
        from translate import all as translate_all
        with BuildLock():
            translate_all.run_all()
        stale = translate_all.stale_outputs()
        if stale:
            # a translator could not follow the source: the properties whose theorems rest on its output are no longer shown
            mine = [f for f in coq_deps_closure(vfile) if f in stale]
            self.coverage["translator_errors"] = {f: list(stale[f]) for f in stale}
            if mine:
                t, msg = stale[mine[0]]
                self.coverage["discharged"] = 0
                self.coverage["translator_error"] = msg
                self.broken = ("translator " + t + " " + msg.split(":")[0], msg)
                return False
        bad = audit_sources()
        if bad:
            self.coverage["discharged"] = 0
            self.coverage["audit"] = bad
            self.broken = ("audit", "\n".join(bad))
            return False
        ok, log = coq_make([vfile + "o", *extra_targets])
        if not ok:
            m = re.search(r'File "\./([^"]+)", line (\d+)', log)
            failing = m.group(1) + ":" + m.group(2) if m else "unknown"
            # count obligations in files that did compile (appear before failing file in closure)
            self.coverage["discharged"] = 0
            self.coverage["build_error"] = log[-1500:]
            self.broken = (failing, log)
            return False
        thms = property_theorems(vfile)
        ok, res = print_assumptions(self.prop, vfile, thms)
        self.coverage["print_assumptions"] = res
        if not ok:
            self.coverage["discharged"] = 0
            self.broken = ("Print Assumptions", json.dumps(res)[:3000])
            return False
        self.coverage["discharged"] = len(obligations)
        self.coverage["property_theorems"] = thms
        self.broken = None
        if self.tier == "thorough" and self.prop == "C13":
            # once per thorough pass: independent re-check of every property file and what it depends on (coqchk -o)
            with BuildLock():
                rc, out = sh(["sh", str(VERIF / "tools" / "coqchk.sh")], cwd=VERIF, timeout=3200)
            m = re.search(r"\* Axioms:\s*(.*?)\n\s*\n", out + "\n\n", flags=re.S)
            axioms = " ".join(m.group(1).split()) if m else "?"
            self.coverage["coqchk"] = {"cmd": "tools/coqchk.sh (coqchk -silent -o -Q coq Verif Verif.Properties.C01 ... C20)", "exit": rc, "axioms": axioms,
                                       "summary": [l.strip() for l in out.splitlines() if l.strip().startswith("*")][:8]}
            if rc != 0 or axioms != "<none>":
                self.coverage["discharged"] = 0
                self.broken = ("coqchk", out[-3000:])
                return False
        return True

    # ---- finish
    def finish(self):
        wall = time.time() - self.t0
        EVIDENCE.mkdir(exist_ok=True)
        REPLAYS.mkdir(exist_ok=True)
        self.coverage["input_distribution"] = self.hist
        if self.notes:
            self.coverage["notes"] = self.notes
        self.coverage["known_findings_reproduced"] = sorted(self.known_hit)
        try:
            from . import privnames
            if privnames.RENAMED:
                self.coverage["renamed_private_names"] = dict(sorted(privnames.RENAMED.items()))
        except Exception:  # noqa: BLE001
            pass
        ev = {
            "property_id": self.prop, "tier": self.tier, "seed": self.seed, "level": self.level,
            "coverage": self.coverage, "assumptions": self.assumptions, "wall_s": round(wall, 2),
            "violations": len(self.violations),
        }
        (EVIDENCE / f"{self.prop}.json").write_text(json.dumps(ev, indent=1, default=str))
        for sig, (k, replay) in self.known_hit.items():
            print(f"KNOWN-FINDING: property={self.prop} {k['what']}")
        rc = 0
        for i, (sig, what, replay) in enumerate(self.violations):
            name = re.sub(r"[^\w.-]+", "_", sig)[:80]
            path = REPLAYS / f"{self.prop}_{name}.json"
            path.write_text(json.dumps({"property": self.prop, "signature": sig, "what": what,
                                        "seed": self.seed, "replay": replay}, indent=1, default=str))
            tail = " no-failing-input-found" if replay.get("kind") == "no-failing-input-found" else ""
            print(f"# {what}")
            print(f"VIOLATION property={self.prop} replay={path}{tail}")
            rc = 1
        if rc == 0:
            print(f"OK property={self.prop} tier={self.tier} evaluations={self.coverage['evaluations']} "
                  f"distinct_nontrivial={self.coverage['distinct_nontrivial']} "
                  f"obligations={self.coverage['obligations']} discharged={self.coverage['discharged']} "
                  f"wall={wall:.1f}s")
        return rc


@contextlib.contextmanager
def debug_logging(on=True):
    """Library loggers at DEBUG (records go nowhere): code paths that only run when debug logging is enabled."""
    import logging
    lg = logging.getLogger("aioesphomeapi")
    old = (lg.level, lg.propagate, list(lg.handlers))
    disabled = logging.root.manager.disable
    others = [logging.getLogger(n) for n in ("asyncio", "zeroconf")]
    others_state = [o.disabled for o in others]
    if on:
        logging.disable(logging.NOTSET)       # setup_impl_path() silences the library; lift that for the duration
        for o in others:
            o.disabled = True                 # ... but keep everybody else quiet
        lg.setLevel(logging.DEBUG)
        lg.propagate = False
        lg.handlers = [logging.NullHandler()]
    try:
        yield
    finally:
        lg.setLevel(old[0])
        lg.propagate = old[1]
        lg.handlers = old[2]
        logging.disable(disabled)
        for o, st in zip(others, others_state):
            o.disabled = st


def setup_impl_path():
    """Make sure the implementation under test is /repo's working tree."""
    sys.path.insert(0, str(REPO))
    os.environ.setdefault("PYTHONHASHSEED", "0")
    import logging
    logging.disable(logging.CRITICAL)
