"""Independent Noise responder (stock `noise` default backend for the handshake, plain `cryptography`
ChaCha20-Poly1305 with its own nonce counters for transport frames), a runner that drives the real
APINoiseFrameHelper with the session ops of Model/NoiseFrame.v, and the mapping between real bytes and
the symbolic byte strings the model's ideal-AEAD oracles work on."""
from __future__ import annotations

import base64
import struct
from unittest.mock import MagicMock

from cryptography.exceptions import InvalidTag
from cryptography.hazmat.primitives.ciphers.aead import ChaCha20Poly1305
from noise.connection import NoiseConnection

PROLOGUE = b"NoiseAPIInit\x00\x00"
NAME = b"Noise_NNpsk0_25519_ChaChaPoly_SHA256"

# symbolic elements (values >= 256 never collide with real bytes)
SYM_TAG = 256          # filler of an intact ciphertext (15 of them close it)
SYM_NONCE0 = 1000      # first element of an intact ciphertext under nonce n is SYM_NONCE0 + n (one per direction)
SYM_POISON = 999       # a byte of a ciphertext / handshake message that was altered
SYM_HS_INIT = 300      # the initiator's handshake message (48 elements)
SYM_HS_RESP = 301      # the responder's handshake message (48 elements)
DIR_C2S, DIR_S2C = 0, 500000


def nonce_bytes(n):
    return b"\0\0\0\0" + struct.pack("<Q", n)


class Responder:
    """A conformant device side."""

    def __init__(self, psk: bytes, name: bytes | None = b"dev"):
        self.psk, self.name = psk, name
        self.proto = NoiseConnection.from_name(NAME)
        self.proto.set_as_responder()
        self.proto.set_psks(psk)
        self.proto.set_prologue(PROLOGUE)
        self.proto.start_handshake()
        self.send_n = 0
        self.recv_n = 0
        self.enc = self.dec = None

    def hello_frame(self):
        body = b"\x01" + (self.name + b"\0" if self.name is not None else b"")
        return frame(body)

    def handshake_frames(self, client_hs: bytes):
        """client_hs: the noise message of the client's handshake frame (after the 0x00 byte)."""
        self.proto.read_message(client_hs)          # raises InvalidTag on a wrong key
        resp = self.proto.write_message()
        np = self.proto.noise_protocol
        self.enc = ChaCha20Poly1305(bytes(np.cipher_state_encrypt.k))
        self.dec = ChaCha20Poly1305(bytes(np.cipher_state_decrypt.k))
        return frame(b"\x00" + resp), resp

    def data_frame(self, ty: int, payload: bytes, declared_len=None):
        ln = len(payload) if declared_len is None else declared_len
        pt = bytes([(ty >> 8) & 0xFF, ty & 0xFF, (ln >> 8) & 0xFF, ln & 0xFF]) + payload
        return self.raw_data_frame(pt)

    def raw_data_frame(self, pt: bytes):
        ct = self.enc.encrypt(nonce_bytes(self.send_n), pt, None)
        n = self.send_n
        self.send_n += 1
        return frame(ct), (n, pt, ct)

    def decrypt_client_frame(self, ct: bytes):
        pt = self.dec.decrypt(nonce_bytes(self.recv_n), ct, None)  # raises InvalidTag
        self.recv_n += 1
        return pt


def frame(body: bytes) -> bytes:
    return bytes([1, (len(body) >> 8) & 0xFF, len(body) & 0xFF]) + body


def split_frames(stream: bytes):
    out, i = [], 0
    while i < len(stream):
        if stream[i] != 1 or i + 3 > len(stream):
            raise ValueError("bad noise framing at %d" % i)
        ln = (stream[i + 1] << 8) | stream[i + 2]
        if i + 3 + ln > len(stream):
            raise ValueError("truncated noise frame")
        out.append(stream[i + 3:i + 3 + ln])
        i += 3 + ln
    return out


# --------------------------------------------------------------------------- symbolic strings
def sym_text(elems):
    """Encode a list of ints (bytes < 256 or symbolic >= 256) for the driver: '.'-separated tokens."""
    if not elems:
        return "-"
    toks, raw = [], bytearray()
    i = 0
    while i < len(elems):
        e = elems[i]
        if e < 256:
            raw.append(e)
            i += 1
            continue
        if raw:
            toks.append(raw.hex())
            raw = bytearray()
        j = i
        while j < len(elems) and elems[j] == e:
            j += 1
        toks.append(f"s{e}x{j - i}")
        i = j
    if raw:
        toks.append(raw.hex())
    return ".".join(toks)


def sym_ct(direction, n, pt):
    return [SYM_NONCE0 + direction + n] + list(pt) + [SYM_TAG] * 15


class FakeConn:
    """Connection stub: records calls; the first fatal report closes the helper (as _cleanup does)."""

    def __init__(self):
        self.events = []
        self.helper = None
        self.closed = False

    def process_packet(self, ty, data):
        self.events.append(f"D:{ty:x}:{bytes(data).hex() or '-'}")

    def report_fatal_error(self, exc):
        self.events.append("FATAL:" + classify(exc))
        if not self.closed:
            self.closed = True
            self.helper.close()


def classify(exc):
    from aioesphomeapi import core
    if isinstance(exc, core.BadNameAPIError):
        if "\ufffd" in exc.received_name:
            return "bad_name:<fffd>"       # undecodable name presented with U+FFFD (one marker element in the model)
        return "bad_name:" + (exc.received_name.encode().hex() or "-")
    if isinstance(exc, core.InvalidEncryptionKeyAPIError):
        return "invalid_key"
    if isinstance(exc, core.RequiresEncryptionAPIError):
        return "requires_encryption"
    if isinstance(exc, core.HandshakeAPIError):
        s = str(exc)
        if "ServerHello is empty" in s:
            return "empty_hello"
        if "Unknown protocol selected" in s:
            return "unknown_proto:%x" % int(s.rsplit(" ", 1)[-1])
        if "Handshake frame is empty" in s:
            return "empty_handshake"
        if "Handshake failure: " in s:
            txt = s.split("Handshake failure: ", 1)[1]
            if "\ufffd" in txt:
                return "handshake_fail:<fffd>"
            return "handshake_fail:" + (txt.encode().hex() or "-")
        if "dropped immediately after encrypted hello" in s:
            return "dropped_after_hello"
        return "handshake_other"
    if isinstance(exc, core.ProtocolAPIError):
        s = str(exc)
        if "Marker byte invalid" in s:
            return "bad_marker:%x" % int(s.rsplit(" ", 1)[-1])
        if "Connection closed" in s:
            return "closed_frame"
        return "protocol_other"
    if isinstance(exc, core.SocketClosedAPIError):
        return "socket_closed"
    if isinstance(exc, core.APIConnectionError):
        return "conn_closed" if "Connection closed" in str(exc) else "api_other:" + type(exc).__name__
    return "raw"


RX_MODE = [0]     # 0: bytes; 1: one bytearray refilled for every read; 2: memoryview slices of one pool (set per case by the checks)


class ImplSession:
    """Runs the real APINoiseFrameHelper over the session ops; produces the model's line format."""

    def __init__(self, psk_b64: str, expected_name: str | None):
        from aioesphomeapi._frame_helper.noise import APINoiseFrameHelper
        self.conn = FakeConn()
        self.helper = APINoiseFrameHelper(connection=self.conn, noise_psk=psk_b64, expected_name=expected_name,
                                          client_info="v", log_name="v")
        self.conn.helper = self.helper
        self.transport = MagicMock()
        self.writes = []
        self.transport.write.side_effect = lambda d: (self.writes.append(bytes(d)), self.conn.events.append(("W", bytes(d))))
        self.transport.close.side_effect = lambda: self.conn.events.append("TCLOSE")
        self.dead = False
        self.ready_seen = False
        self.per_op = []

    def _ready_events(self):
        f = self.helper.ready_future
        if f.done() and not self.ready_seen:
            self.ready_seen = True
            if f.exception() is None:
                return ["RDY"]
            return ["RERR:" + classify(f.exception())]
        return []

    def op(self, kind, arg=None):
        from aioesphomeapi._frame_helper.noise import InvalidTag as _IT
        h, ev = self.helper, self.conn.events
        start = len(ev)
        marks = []   # (index in ev at which a ready transition was observed)

        # ready-future transitions are interleaved with connection events: poll via wrapper
        def run(fn, *a):
            orig_rep, orig_pp = self.conn.report_fatal_error, self.conn.process_packet

            def rep(exc):
                ev.extend(self._ready_events())
                orig_rep(exc)

            def pp(t, d):
                ev.extend(self._ready_events())
                orig_pp(t, d)
            self.conn.report_fatal_error, self.conn.process_packet = rep, pp
            try:
                fn(*a)
                ev.extend(self._ready_events())
                return None
            except Exception as e:  # escapes the protocol callback
                ev.extend(self._ready_events())
                return e
            finally:
                self.conn.report_fatal_error, self.conn.process_packet = orig_rep, orig_pp

        def tclose_hook():
            ev.extend(self._ready_events())
            ev.append("TCLOSE")
        self.transport.close.side_effect = tclose_hook

        if kind == "made":
            run(h.connection_made, self.transport)
        elif kind == "data":
            if self.dead or priv(h, "_transport") is None:
                pass
            else:
                # what the helper is handed belongs to the caller: bytes, or a receive buffer the caller refills for its next read
                mode, given, scrub = RX_MODE[0], arg, None
                if mode == 1:
                    given = scrub = self.__dict__.setdefault("_rx_bytearray", bytearray())
                    del given[:]
                    given += arg
                elif mode == 2:
                    scrub = self.__dict__.setdefault("_rx_pool", bytearray(max(1 << 17, len(arg))))
                    if len(arg) > len(scrub):
                        scrub.extend(bytes(len(arg) - len(scrub)))
                    scrub[:len(arg)] = arg
                    given = memoryview(scrub)[:len(arg)]
                exc = run(h.data_received, given)
                if scrub is not None:
                    if mode == 2:
                        try:
                            given.release()
                        except BufferError:
                            pass
                    scrub[:len(arg)] = b"\xee" * len(arg)
                if exc is not None:
                    rk = "invalid_tag" if isinstance(exc, _IT) else "index" if isinstance(exc, IndexError) else \
                         "unicode" if isinstance(exc, UnicodeDecodeError) else "other:" + type(exc).__name__
                    ev.append("RAISE:" + rk)
                    self.dead = True
                    run(h.connection_lost, exc)
        elif kind == "write":
            # debug logging on for every other write call: what reaches the transport must not depend on it
            self.n_write_calls = getattr(self, "n_write_calls", 0) + 1
            exc = run(h.write_packets, arg, self.n_write_calls % 2 == 0)
            if exc is not None:
                ev.append("RAISE:other:" + type(exc).__name__)
        elif kind == "lost":
            self.dead = True
            exc = {"none": None, "reset": ConnectionResetError("reset"), "tag": _IT(), "other": OSError("boom")}[arg]
            run(h.connection_lost, exc)
        elif kind == "eof":
            run(h.eof_received)
        elif kind == "close":
            run(h.close)
        out = ev[start:]
        del ev[start:]
        self.per_op.append(out)
        return out

    def state(self):
        h = self.helper
        st = {1: "hello", 2: "handshake", 3: "ready", 4: "closed"}[priv(h, "_state")]
        blen = priv(h, "_buffer_len")
        buf = (priv(h, "_buffer") or b"")[:blen] if blen else b""
        dn = _counter(priv(h, "_decrypt_cipher"))
        en = _counter(priv(h, "_encrypt_cipher"))
        return st, bytes(buf), dn, en


from .privnames import priv  # noqa: E402  (rename-tolerant access to the helper's private state)


def _counter(cipher):
    """The message counter of a cipher wrapper (its one integer attribute, whatever it is called); 0 before the handshake."""
    if not cipher:
        return 0
    names = [n for k in type(cipher).__mro__ for n in getattr(k, "__slots__", ())] or list(getattr(cipher, "__dict__", {}))
    ints = [getattr(cipher, n) for n in names if hasattr(cipher, n) and type(getattr(cipher, n)) is int]
    if len(ints) != 1:
        raise AssertionError(f"cannot tell the message counter of {type(cipher).__name__} (integer attributes: {len(ints)})")
    return ints[0]


def valid_psk():
    import os
    return os.urandom(32)


def b64(b: bytes) -> str:
    return base64.b64encode(b).decode()
