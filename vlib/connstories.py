"""Story generator + model/implementation comparison for the connection family (C05-C09, C11, C12)."""
from __future__ import annotations

import random
import re

from . import common, conntrace, simnet

H = lambda ty, valid=1, tag=0, major=1, nk="x", ip=0: ("f", ty, int(valid), tag, major, nk, int(ip))  # noqa: E731
HELLO, CONNECT, DISC_REQ, DISC_RESP, PING_REQ, PING_RESP, TIME_REQ = 2, 4, 5, 6, 7, 8, 36
SWITCH_STATE, SENSOR_STATE, GATT_READ_RESP, GATT_ERR, LIST_DONE, LIST_SENSOR = 26, 25, 74, 82, 19, 16
GATT_READ_REQ, LIST_REQ, DEVICE_INFO_REQ, DEVICE_INFO_RESP = 73, 11, 9, 10

CLOSE_CAUSES = [
    ("data", [H(DISC_REQ)]), ("force",), ("disc",), ("eof",), ("lost", "R.Reset"), ("lost", None), ("lost", "R.OSError"),
    ("data", [("bp", 1)]), ("data", [("bp", 0)]), ("data", [H(SWITCH_STATE, valid=0)]),
]
CALLS = [
    ("call", [DEVICE_INFO_REQ], [DEVICE_INFO_RESP], "any", "any", 10240),
    ("call", [GATT_READ_REQ], [GATT_READ_RESP, GATT_ERR], "tag=3", "tag=3", 5120),
    ("call", [GATT_READ_REQ], [GATT_READ_RESP, GATT_ERR], "tag=4", "tag=4", 7168),
    ("call", [LIST_REQ], [LIST_DONE, LIST_SENSOR], f"not={LIST_DONE}", f"is={LIST_DONE}", 61440),
    # a write: shares the error response type with the reads above, not the data response type
    ("call", [75], [83, GATT_ERR], "tag=3", "tag=3", 6144),
]
TRAFFIC = [
    [H(PING_REQ)], [H(TIME_REQ)], [H(PING_RESP)], [H(SWITCH_STATE, tag=1)], [H(SENSOR_STATE, tag=2)], [H(0)], [H(124)], [H(70000)],
    [H(GATT_READ_RESP, tag=3)], [H(GATT_READ_RESP, tag=4)], [H(GATT_ERR, tag=3)], [H(GATT_READ_RESP, tag=9)],
    [H(LIST_SENSOR, tag=1), H(LIST_SENSOR, tag=2), H(LIST_DONE)], [H(DEVICE_INFO_RESP)], [H(DISC_RESP)],
    [H(SWITCH_STATE, tag=1), H(PING_REQ), H(SENSOR_STATE)], [H(HELLO)], [H(CONNECT)],
]


def gen_story(rng: random.Random):
    """A mostly-valid connect / traffic / close story with disturbances and same-turn injections."""
    sc = []
    login = rng.random() < 0.4
    expect = rng.random() < 0.4
    scripts = {}
    if rng.random() < 0.3:
        scripts = {1: [("unsub", SWITCH_STATE, 1)], 2: [("sub", SWITCH_STATE, 3), ("unsub", SWITCH_STATE, 2)], 3: []}

    def maybe_drain(p=0.75):
        if rng.random() < p:
            sc.append(("drain",))

    def disturbance(p):
        if rng.random() < p:
            k = rng.random()
            if k < 0.45:
                a = rng.choice(CLOSE_CAUSES)
            elif k < 0.6:
                a = ("cancel", rng.choice(["S", "F", "D", "C0", "C1", "C2"]))
            elif k < 0.7:
                a = ("wfail", 1)
            elif k < 0.8:
                a = ("adv_next",)
            elif k < 0.9:
                a = ("data", rng.choice(TRAFFIC))
            else:
                a = rng.choice(CALLS)
            if a[0] != "adv_next" and rng.random() < 0.35:
                sc.append(("hop", rng.randrange(0, 4), a))
            else:
                sc.append(a)
            maybe_drain(0.5)

    p = rng.choice([0.0, 0.05, 0.15, 0.3])
    sc.append(("start",))
    maybe_drain(0.9)
    disturbance(p)
    r = rng.random()
    if r < 0.08:
        sc.append(("resolved", rng.choice(["L.Resolve", "L.Conn", "R.OSError", "R.Other"]), 1))
    elif r < 0.12:
        sc.append(("adv_next",))     # resolve timeout
    else:
        g = rng.choice([1, 1, 1, 2, 3])
        sc.append(("resolved", None, g))
        maybe_drain(0.9)
        disturbance(p)
        for _ in range(g):
            r2 = rng.random()
            if r2 < 0.8:
                sc.append(("tcp", None))
                maybe_drain(0.9)
                break
            if r2 < 0.9:
                sc.append(("tcp", rng.choice(["R.OSError", "R.Reset"])))
            else:
                sc.append(("adv_next",))
            maybe_drain(0.9)
    disturbance(p)
    sc.append(("finish", int(login)))
    maybe_drain(0.9)
    disturbance(p)
    # hello / login responses
    hello = H(HELLO, major=rng.choice([1, 1, 1, 1, 2, 3, 0]), nk=rng.choice(["x", "x", "x", "e", "o"]))
    conn_resp = H(CONNECT, ip=(rng.random() < 0.2))
    order = rng.random()
    if order < 0.7:
        frames = [hello] + ([conn_resp] if login else [])
    elif order < 0.8:
        frames = [conn_resp, hello]
    elif order < 0.9:
        frames = [hello, hello, conn_resp]
    else:
        frames = []
    if rng.random() < 0.3:
        frames = frames + rng.choice(TRAFFIC + [[H(DISC_REQ)], [H(DISC_REQ), H(SWITCH_STATE)]])
    if frames:
        if rng.random() < 0.6:
            sc.append(("data", frames))
        else:
            for f in frames:
                sc.append(("data", [f]))
                maybe_drain(0.4)
    else:
        sc.append(("adv_next",))
    maybe_drain(0.85)
    disturbance(p)
    # steady state
    for u in (1, 2):
        if rng.random() < 0.5:
            sc.append(("sub", SWITCH_STATE, u))
    if rng.random() < 0.3:
        sc.append(("sub", PING_REQ, 4))
    for _ in range(rng.randrange(0, 8)):
        k = rng.random()
        if k < 0.35:
            sc.append(("data", rng.choice(TRAFFIC)))
        elif k < 0.55:
            sc.append(rng.choice(CALLS))
        elif k < 0.7:
            sc.append(("adv_next",))
        elif k < 0.8:
            sc.append(("send", [rng.choice([33, 30, 7])]))
        elif k < 0.85:
            sc.append(("unsub", SWITCH_STATE, rng.choice([1, 2])))
        else:
            disturbance(1.0)
        maybe_drain(0.6)
    # close causes
    for _ in range(rng.choice([0, 1, 1, 2, 3])):
        a = rng.choice(CLOSE_CAUSES)
        if rng.random() < 0.3:
            sc.append(("hop", rng.randrange(0, 3), a))
        else:
            sc.append(a)
        maybe_drain(0.5)
    # aftermath: pokes after close, let timers run out
    for _ in range(rng.randrange(0, 4)):
        sc.append(rng.choice([("data", rng.choice(TRAFFIC)), ("send", [33]), rng.choice(CALLS), ("adv_next",), ("force",), ("start",), ("finish", 0)]))
        maybe_drain(0.6)
    sc.append(("drain",))
    for _ in range(6):
        sc.append(("adv_next",))
        sc.append(("drain",))
    ka = rng.choice([20480, 10240, 256, 40960])
    return {"scenario": sc, "expect": expect, "scripts": scripts, "keepalive": ka, "login": login}


def scripts_text(scripts):
    if not scripts:
        return "-"
    parts = []
    for u, acts in scripts.items():
        if acts:
            parts.append(f"{u}=" + "+".join(f"{k}.{ty}.{u2}" for k, ty, u2 in acts))
    return ";".join(parts) or "-"


def run_impl(story):
    def go(loop):
        return conntrace.run_scenario(loop, story["scenario"], expected_name="dev" if story["expect"] else None,
                                      keepalive_units=story["keepalive"], scripts=story["scripts"])
    return simnet.run(go)


def impl_steps(tr):
    """Non-silent steps; silent steps that changed the projection are problems."""
    out, problems = [], []
    prev = None
    for label, proj, obs in tr.steps:
        if label == "silent":
            if (prev is not None and proj != prev) or obs:
                problems.append(("unlabelled callback changed the observable state", prev, proj, obs))
            continue
        out.append((label, proj, obs))
        prev = proj
    return out, problems


def model_line(story, steps):
    return "conn 0 %d %d %s %s" % (int(story["expect"]), story["keepalive"], scripts_text(story["scripts"]),
                                    " ".join(l for l, _, _ in steps))


MODEL_ONLY_OBS = {"HC", "SC", "TC"}


def canon_obs(obs):
    """Deliveries of one message to several subscribers happen in set-iteration order: sort each run."""
    out, run = [], []
    for o in obs:
        if o.startswith("D") or o.startswith("W"):
            run.append(o)
        else:
            out.extend(sorted(run))
            run = []
            out.append(o)
    out.extend(sorted(run))
    return out


def compare(steps, model_out):
    """Returns None when model and implementation agree, else a description of the first difference."""
    parts = model_out.split("|")[1:]
    for i, (label, proj, obs) in enumerate(steps):
        if i >= len(parts):
            return {"at": i, "label": label, "why": "model produced fewer steps", "model": None}
        mp = parts[i]
        if mp.startswith("!disabled"):
            return {"at": i, "label": label, "why": "label not enabled in the model", "model": mp, "impl": proj}
        mproj, _, mobs = mp.partition("#")
        for key in ("x", "pp", "sf", "ff"):     # components the implementation no longer exposes under the known name are not compared
            if f",{key}=?," in proj:
                mproj = re.sub(rf",{key}=[\dP-],", f",{key}=?,", mproj)
        mobs = [o for o in mobs.split(",") if o and o not in MODEL_ONLY_OBS]
        if mproj == proj and canon_obs(mobs) != canon_obs(obs) and any(o.startswith("X") for o in obs) and any(o.startswith("X") for o in mobs):
            # a responder's write raised inside the dispatch loop: whether user subscribers of the SAME type (5/7/36) were
            # called before it depends on Python's set iteration order, the model uses registration order
            drop = lambda os_: [o for o in os_ if not (o.startswith("D") and o.split(".")[1] in ("5", "7", "36"))]  # noqa: E731
            mobs, obs = drop(mobs), drop(obs)
        if mproj != proj or canon_obs(mobs) != canon_obs(obs):
            return {"at": i, "label": label, "why": "projection/observations differ", "model": mproj + " # " + ",".join(mobs),
                    "impl": proj + " # " + ",".join(obs)}
    return None


def run_stories(stories):
    """Runs impl + model on each story. Returns list of (story, steps, problems, disagreement)."""
    results = []
    lines = []
    for i, st in enumerate(stories):
        # every third story hands the protocol a reused bytearray, every other third memoryview slices of a reused pool
        simnet.FEED_MODE[0] = st.get("feed_mode", i % 3) if isinstance(st, dict) else i % 3
        try:
            tr = run_impl(st)
        finally:
            simnet.FEED_MODE[0] = 0
        steps, problems = impl_steps(tr)
        results.append([st, steps, problems, None, tr])
        lines.append(model_line(st, steps))
    out = common.run_driver(lines)
    for r, mo in zip(results, out):
        r[3] = compare(r[1], mo)
    return results
