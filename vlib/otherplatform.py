"""Run a probe with the library IMPORTED as on another platform.

Constants that the library derives from sys.platform at import time cannot be reached by flipping a module flag afterwards; here a
child interpreter imports everything the library depends on first (asyncio, protobuf, zeroconf, cryptography ... under the real
platform), then sets sys.platform and imports aioesphomeapi afresh, then runs `module:function(*args)` and prints its JSON result.
Only the library's own import-time and run-time branches see the other platform."""
import json
import os
import subprocess
import sys
from pathlib import Path

HERE = Path(__file__).resolve().parent.parent

CHILD = r"""
import json, os, sys
sys.dont_write_bytecode = True
sys.path.insert(0, {verif!r})
sys.path.insert(0, os.environ.get("VERIF_REPO", "/repo"))
os.environ.setdefault("PYTHONHASHSEED", "0")
import asyncio, logging, socket, ssl, ipaddress, importlib
for dep in ("google.protobuf.json_format", "google.protobuf.message", "zeroconf", "zeroconf.asyncio", "cryptography.hazmat.primitives.ciphers.aead",
            "noise.connection", "aiohappyeyeballs", "async_interrupt", "chacha20poly1305_reuseable"):
    try:
        importlib.import_module(dep)
    except Exception:
        pass
from vlib import common, simnet     # (virtual loop patched in under the real platform)
assert not any(m == "aioesphomeapi" or m.startswith("aioesphomeapi.") for m in sys.modules), "library imported too early"
sys.platform = {platform!r}
common.setup_impl_path()
import aioesphomeapi, aioesphomeapi.client, aioesphomeapi.connection, aioesphomeapi.reconnect_logic, aioesphomeapi.host_resolver
mod = importlib.import_module({module!r})
res = getattr(mod, {func!r})(*json.loads({args!r}))
print("RESULT " + json.dumps(res))
"""


def run_under(platform, module, func, *args, timeout=300):
    """-> the function's (JSON-able) result; raises RuntimeError with the child's output if it did not finish."""
    code = CHILD.format(verif=str(HERE), platform=platform, module=module, func=func, args=json.dumps(list(args)))
    p = subprocess.run([sys.executable, "-c", code], capture_output=True, text=True, timeout=timeout, cwd=str(HERE), env=dict(os.environ))
    for line in p.stdout.splitlines():
        if line.startswith("RESULT "):
            return json.loads(line[7:])
    raise RuntimeError(f"probe {module}:{func} under sys.platform={platform!r} did not finish (exit {p.returncode}): {p.stderr[-1500:]}")
