"""Trace validation for Model/Conn.v: run a scenario against the real APIConnection under VLoop + SimNet,
label every event-loop callback with the model label it corresponds to, and record the observable
projection of the connection after each callback.  The model must accept the label sequence and yield
the same projections / observations."""
from __future__ import annotations

from .privnames import priv, has_priv

import asyncio

from . import simnet

HELLO_RESP, CONNECT_RESP, DISC_REQ, DISC_RESP, PING_REQ, PING_RESP, TIME_REQ, TIME_RESP = 2, 4, 5, 6, 7, 8, 36, 37


def exc_name(e):
    """Implementation exception -> model exception text."""
    from aioesphomeapi import core
    import google.protobuf.message as pbm
    if e is None:
        return "ok"
    if isinstance(e, asyncio.CancelledError):
        return "C"
    table = [
        (core.APIConnectionCancelledError, "L.Cancelled"), (core.InvalidAuthAPIError, "L.InvalidAuth"),
        (core.ResolveAPIError, "L.Resolve"), (core.RequiresEncryptionAPIError, "L.RequiresEncryption"),
        (core.ProtocolAPIError, "L.Protocol"), (core.SocketClosedAPIError, "L.SocketClosed"),
        (core.SocketAPIError, "L.Socket"), (core.InvalidEncryptionKeyAPIError, "L.InvalidKey"),
        (core.HandshakeAPIError, "L.Handshake"), (core.ConnectionNotEstablishedAPIError, "L.NotEstablished"),
        (core.BadNameAPIError, "L.BadName"), (core.PingFailedAPIError, "L.PingFailed"),
        (core.TimeoutAPIError, "L.Timeout"), (core.ReadFailedAPIError, "L.ReadFailed"),
        (core.UnhandledAPIConnectionError, "L.Unhandled"), (core.APIConnectionError, "L.Conn"),
    ]
    for cls, name in table:
        if type(e) is cls:
            return name
    for cls, name in table:
        if isinstance(e, cls):
            return name + "?" + type(e).__name__
    if isinstance(e, ConnectionResetError):
        return "R.Reset"
    if isinstance(e, TimeoutError):
        return "T"
    if isinstance(e, OSError):
        return "R.OSError"
    if isinstance(e, AttributeError):
        return "R.Attribute"
    if isinstance(e, IndexError):
        return "R.Index"
    if isinstance(e, RuntimeError):
        return "RT"
    return "R.Other"


def make_exc(name):
    from aioesphomeapi import core
    if name in (None, "ok", "none"):
        return None
    m = {"L.Resolve": core.ResolveAPIError, "L.Conn": core.APIConnectionError, "L.Socket": core.SocketAPIError,
         "L.Handshake": core.HandshakeAPIError, "L.Protocol": core.ProtocolAPIError,
         "L.RequiresEncryption": core.RequiresEncryptionAPIError, "L.SocketClosed": core.SocketClosedAPIError,
         "L.Timeout": core.TimeoutAPIError}
    if name in m:
        return m[name]("injected")
    if name == "L.InvalidKey":
        return core.InvalidEncryptionKeyAPIError("injected")
    if name == "R.Reset":
        return ConnectionResetError("injected reset")
    if name == "R.OSError":
        return OSError("injected")
    if name == "R.Other":
        return ValueError("injected")
    if name == "T":
        return TimeoutError()
    raise ValueError(name)


def item_bytes(item, expected_name):
    """('f', ty, valid, tag, major, namekind, invpw) | ('bp', requires_encryption) -> bytes"""
    from aioesphomeapi import api_pb2 as pb
    from aioesphomeapi.core import MESSAGE_TYPE_TO_PROTO
    if item[0] == "bp":
        return b"\x01\x00\x00" if item[1] else b"\x02\x00\x00"
    _, ty, valid, tag, major, nk, invpw = item
    cls = MESSAGE_TYPE_TO_PROTO.get(ty)
    if cls is None:
        return simnet.plain_frame(ty, b"\x08\x01" if valid else b"\xff\xff")
    if not valid:
        return simnet.plain_frame(ty, b"\xff\xff\xff\xff")   # truncated varint tag: DecodeError for every class
    if ty == HELLO_RESP:
        exp_ = expected_name or "dev"
        # p: the expected name extended, q: a strict prefix of it, c: the expected name in another case - all different names
        name = {"e": "", "x": exp_, "o": "other-device", "p": exp_ + "2", "q": exp_[:-1], "c": exp_.upper(),
                "l": "another-device-whose-name-is-longer-than-thirty-one-characters"}[nk]
        m = pb.HelloResponse(api_version_major=major, api_version_minor=10, name=name)
    elif ty == CONNECT_RESP:
        m = pb.ConnectResponse(invalid_password=bool(invpw))
    else:
        m = cls()
        for fld in ("handle", "key"):
            if fld in cls.DESCRIPTOR.fields_by_name and tag:
                setattr(m, fld, tag)
                break
    return simnet.plain_frame(ty, m.SerializeToString())


def item_text(item):
    if item[0] == "bp":
        return f"bp.{int(item[1])}"
    _, ty, valid, tag, major, nk, invpw = item
    return f"f.{ty}.{int(valid)}.{tag}.{major}.{nk}.{int(invpw)}"


def msg_tag(m):
    for fld in ("handle", "key"):
        if fld in m.DESCRIPTOR.fields_by_name:
            return getattr(m, fld)
    return 0


class Trace:
    """One scenario run."""

    def __init__(self, loop, *, expected_name=None, keepalive_units=20480, scripts=None, password=None):
        from aioesphomeapi.connection import APIConnection, ConnectionParams
        from aioesphomeapi.zeroconf import ZeroconfManager
        self.loop = loop
        self.net = simnet.Net(loop)
        self.net.connect_script = ["hang"] * 50
        self.net.resolve_script = ["hang"] * 50
        self.expected_name = expected_name
        self.scripts = scripts or {}
        self.events = []          # unified observation log of the current callback
        self.labels = []          # model labels
        self.steps = []           # (label, projection, obs)
        self.tasks = {}           # asyncio.Task -> tid text
        self.first_label = {}     # task -> label of its first step
        self.started = set()
        self.fut_cid = {}
        self.next_cid = 0
        self.user_cbs = {}
        self.removers = {}
        self.injected = {}        # function object -> label
        self.problems = []
        self.cur_label = None
        params = ConnectionParams(addresses=["10.0.0.1"], port=6053, password=password, client_info="v",
                                  keepalive=keepalive_units / 1024.0, zeroconf_manager=ZeroconfManager(),
                                  noise_psk=None, expected_name=expected_name)
        self.conn = APIConnection(params, self._on_stop, False, None)
        self.tr = None
        self.task_done_seen = set()
        self.write_count = 0
        self.driver_task = None
        self.audits = []          # (step index, state, armed timers, pending task ids) at quiescent points
        loop.before_callback = self._before
        loop.after_callback = self._after
        loop.set_exception_handler(self._loop_exc)

    # ---- observation sources
    def _on_stop(self, expected):
        self.events.append(f"STOP{int(bool(expected))}")

    def _loop_exc(self, loop, ctx):
        e = ctx.get("exception")
        if e is not None:
            self.events.append("X" + exc_name(e))

    def user_cb(self, u):
        if u not in self.user_cbs:
            def cb(m, u=u):
                ty = simnet.msg_type_id(m)
                self.events.append(f"D{u}.{ty}.{msg_tag(m)}")
                for act in self.scripts.get(u, []):
                    kind, ty2, u2 = act
                    cls = self._cls(ty2)
                    if kind == "sub":
                        self.removers[(u2, ty2)] = self.conn.add_message_callback(self.user_cb(u2), (cls,))
                    elif (u2, ty2) in self.removers:
                        self.removers[(u2, ty2)]()
            self.user_cbs[u] = cb
        return self.user_cbs[u]

    @staticmethod
    def _cls(ty):
        from aioesphomeapi.core import MESSAGE_TYPE_TO_PROTO
        return MESSAGE_TYPE_TO_PROTO[ty]

    # ---- projection of the implementation state
    def projection(self):
        c = self.conn
        from aioesphomeapi.connection import ConnectionState as S
        cs = {S.INITIALIZED: "INIT", S.SOCKET_OPENED: "SOCK", S.HANDSHAKE_COMPLETE: "HS", S.CONNECTED: "CONN", S.CLOSED: "CLOSED"}[c.connection_state]
        u = lambda t: "-" if t is None else str(round((t.when() - self.loop.base) * 1024))
        hs = []
        for cls, handlers in priv(c, "_message_handlers").items():
            ty = simnet.msg_type_id(cls)
            for h in handlers:
                hs.append(f"{ty}.{self._hname(h, ty)}")
        f = priv(c, "_fatal_exception")
        pend = lambda fut: "P" if fut is not None and not fut.done() else "-"
        # private flags no predicate reads (they are only compared with the model): a rename masks the component, it does not break the tie
        opt = lambda name: "?" if not has_priv(c, name) else str(int(priv(c, name)))  # noqa: E731
        optf = lambda name: "?" if not has_priv(c, name) else pend(priv(c, name))  # noqa: E731
        hc = int(priv(c, "_handshake_complete"))
        ping, pong = u(priv(c, "_ping_timer")), u(priv(c, "_pong_timer"))
        hp, sk, nw = int(priv(c, "_frame_helper") is not None), int(priv(c, "_socket") is not None), len(priv(c, "_read_exception_futures"))
        return (f"{cs},{int(c.is_connected)}{hc},f={'-' if f is None else exc_name(f)},x={opt('_expected_disconnect')},"
                f"pp={opt('_send_pending_ping')},ping={ping},pong={pong},sf={optf('_start_connect_future')},"
                f"ff={optf('_finish_connect_future')},h={hp},s={sk},"
                f"w={nw},os={int(c.on_stop is not None)},H={'+'.join(sorted(hs))}")

    def _hname(self, h, ty=None):
        name = getattr(h, "__name__", "")
        if getattr(h, "__self__", None) is self.conn and ty in (DISC_REQ, PING_REQ, TIME_REQ):
            # the connection's own responders, whatever they are called
            return {DISC_REQ: "disc", PING_REQ: "ping", TIME_REQ: "time"}[ty]
        if name == "_handle_disconnect_request_internal":
            return "disc"
        if name == "_handle_ping_request_internal":
            return "ping"
        if name == "_handle_get_time_request_internal":
            return "time"
        for u, cb in self.user_cbs.items():
            if cb is h:
                return f"u{u}"
        fn = getattr(h, "func", None)
        if fn is not None and getattr(fn, "__name__", "") == "handle_complex_message":
            fut = h.args[0]
            return f"c{self.fut_cid.get(fut, '?')}"
        return "?"

    # ---- callback classification
    def _before(self, handle):
        self.events = []
        cb, args = handle._callback, handle._args
        owner = getattr(cb, "__self__", None)
        label = None
        if isinstance(owner, asyncio.Task):
            if owner is self.driver_task:
                label = "@driver"
            elif owner in self.tasks:
                if owner not in self.started:
                    self.started.add(owner)
                    label = self.first_label[owner]
                else:
                    label = "wake:" + self.tasks[owner]
            else:
                label = "silent"
        elif cb in self.injected:
            label = "@injected"
        else:
            name = getattr(cb, "__qualname__", "") or getattr(getattr(cb, "func", None), "__qualname__", "")
            # the connection's own timers are recognised by what they are (the handle the connection holds, a timer whose
            # argument is a future the connection waits on), not by the names of the functions behind them
            is_timer = isinstance(handle, asyncio.TimerHandle)
            own = self.conn is not None and owner is self.conn
            fut_arg = args[0] if len(args) == 1 and isinstance(args[0], asyncio.Future) else None
            if name.endswith("_Interrupt._on_interrupt"):
                label = "intr:" + ("s" if self.tasks.get(owner._task) == "S" else "f")
            elif is_timer and own and handle is priv(self.conn, "_ping_timer"):
                label = "timer:ping"
            elif is_timer and own and handle is priv(self.conn, "_pong_timer"):
                label = "timer:pong"
            elif name.endswith("_async_send_keep_alive"):
                label = "timer:ping"
            elif name.endswith("_async_pong_not_received"):
                label = "timer:pong"
            elif name.endswith("handle_timeout") or (is_timer and fut_arg is not None and owner is None
                                                     and getattr(cb, "__module__", "").startswith("aioesphomeapi")):
                fut = args[0]
                if fut in self.fut_cid:
                    label = f"timer:c{self.fut_cid[fut]}"
                else:
                    label = "timer:hs"
            elif name.endswith("Timeout._on_timeout"):
                label = "timer:conn"
            elif name.endswith("_release_waiter"):
                label = "timer:dwait"
            elif name.endswith("_on_completion"):
                label = "dwd"
            elif name.endswith("SimTransport._call_connection_lost"):
                label = "clost"
            elif name.endswith("Net._conn_made"):
                label = "made"
            elif name.endswith("_set_result_unless_cancelled"):
                label = "madew"
            else:
                label = "silent"
        self.cur_label = label
        self.cur_action_label = None

    def _after(self, handle):
        label = self.cur_label
        self.cur_label = None
        if label is None:
            return
        if label in ("@driver", "@injected"):
            label = self.cur_action_label or "silent"
        # new request futures get their call ids in creation order
        new = [f for f in priv(self.conn, "_read_exception_futures") if f not in self.fut_cid]
        for f in new:
            self.fut_cid[f] = self.next_cid
            self.next_cid += 1
        if label.startswith("call:") and not new:
            self.next_cid += 1
        if label.startswith("call:"):
            # bind the task to the cid it was given
            for t, tid in self.tasks.items():
                if tid == "C?" and t in self.started:
                    self.tasks[t] = f"C{self.next_cid - 1}"
        # finished tasks
        for t, tid in list(self.tasks.items()):
            if t.done() and t not in self.task_done_seen:
                self.task_done_seen.add(t)
                if label in ("start", "finish:0", "finish:1") and not t.cancelled() and isinstance(t.exception(), RuntimeError):
                    # the single-use guard raised: not a task of the model, just a raising call
                    self.events.append("XRT")
                    del self.tasks[t]
                    continue
                if t.cancelled():
                    res = "C"
                else:
                    res = exc_name(t.exception())
                self.events.append(f"T{tid}={res}")
        self.steps.append((label, self.projection(), list(self.events)))
        self.events = []

    # ---- actions (performed by the driver or by an injected callback)
    def act(self, a):
        """Perform an external action synchronously; returns the model label."""
        k = a[0]
        c = self.conn
        if k == "start":
            if any(tid == "S" and not t.done() for t, tid in self.tasks.items()):
                return "silent"
            async def start():        # the caller's coroutine: the method is called when the task first runs
                return await c.start_connection()
            t = self.loop.create_task(start())
            self.tasks[t] = "S"
            self.first_label[t] = "start"
            return None
        if k == "finish":
            if any(tid == "F" and not t.done() for t, tid in self.tasks.items()):
                return "silent"
            if len(a) > 2 and a[2] == "then-send":
                # the caller's coroutine goes on in the same task: a command right after finish_connection() returned
                # (implementation-only probe: such stories are not compared with the model)
                async def finish_then_send(login=bool(a[1])):
                    await c.finish_connection(login=login)
                    try:
                        c.send_messages((self._cls(33)(),))
                    except Exception as e:  # noqa
                        self.events.append("X" + exc_name(e))
                    self.cur_action_label = self.cur_action_label or "send:33"
                t = self.loop.create_task(finish_then_send())
            else:
                async def finish(login=bool(a[1])):
                    return await c.finish_connection(login=login)
                t = self.loop.create_task(finish())
            self.tasks[t] = "F"
            self.first_label[t] = f"finish:{int(a[1])}"
            return None
        if k == "disc":
            if "D" in self.tasks.values():
                return "silent"
            async def disc():
                return await c.disconnect()
            t = self.loop.create_task(disc())
            self.tasks[t] = "D"
            self.first_label[t] = "disc"
            return None
        if k == "call":
            _, send, types, ap, st, tmo = a
            msgs = tuple(self._cls(s)() for s in send)
            self.n_calls = getattr(self, "n_calls", 0) + 1
            if len(send) == 1 and len(types) == 1 and ap == "any" and st == "any" and self.n_calls % 2 == 0:
                # every other plain request goes through the single-response entry point (same call in the model)
                async def one(msg=msgs[0], cls=self._cls(types[0]), tmo=tmo):
                    return [await c.send_message_await_response(msg, cls, tmo / 1024.0)]
                t = self.loop.create_task(one())
            else:
                t = self.loop.create_task(c.send_messages_await_response_complex(
                    msgs, self._pred(ap), self._pred(st), tuple(self._cls(x) for x in types), tmo / 1024.0))
            self.tasks[t] = "C?"
            self.first_label[t] = "call:%s:%s:%s:%s:%d" % (",".join(map(str, send)) or "-", ",".join(map(str, types)) or "-", ap, st, tmo)
            return None
        if k == "force":
            try:
                c.force_disconnect()
            except Exception as e:  # noqa
                self.events.append("X" + exc_name(e))
            return "force"
        if k == "send":
            try:
                c.send_messages(tuple(self._cls(s)() for s in a[1]))
            except Exception as e:  # noqa
                self.events.append("X" + exc_name(e))
            return "send:" + (",".join(map(str, a[1])) or "-")
        if k == "cancel":
            # a task that has not run its first step yet is not cancelled (asyncio would drop the call unseen:
            # an artefact of driving the coroutine through create_task, not a behaviour of the library)
            for t, tid in self.tasks.items():
                if tid == a[1] and t in self.started:
                    t.cancel()
            return "cancel:" + a[1]
        if k == "sub":
            self.removers[(a[2], a[1])] = c.add_message_callback(self.user_cb(a[2]), (self._cls(a[1]),))
            return f"sub:{a[1]}:{a[2]}"
        if k == "unsub":
            if (a[2], a[1]) in self.removers:
                self.removers[(a[2], a[1])]()
            return f"unsub:{a[1]}:{a[2]}"
        if k in ("resolved", "tcp"):
            want = "resolve" if k == "resolved" else "tcp"
            pend = [(kind, f) for kind, f in self.net.hangs if not f.done()]
            if not pend or pend[-1][0] != want:
                return "silent"
            fut = pend[-1][1]
            e = make_exc(a[1])
            if e is None:
                if k == "resolved":
                    self.net.resolve_groups = a[2]
                fut.set_result(None)
            else:
                fut.set_exception(e)
            return f"resolved:{a[1] or 'ok'}:{a[2]}" if k == "resolved" else f"tcp:{a[1] or 'ok'}"
        if k in ("data", "eof", "lost") and (not self.net.transports or not self.net.transports[-1].made):
            return "silent"
        if k == "data":
            data = b"".join(item_bytes(i, self.expected_name) for i in a[1])
            tr = self.net.transports[-1]
            r = tr.feed(data)
            if isinstance(r, BaseException):
                self.events.append("X" + exc_name(r))
            if r == "ignored":
                return "silent"
            return "data:" + ";".join(item_text(i) for i in a[1])
        if k == "eof":
            tr = self.net.transports[-1]
            if tr.closing:
                return "silent"
            tr.feed_eof()
            return "eof"
        if k == "lost":
            tr = self.net.transports[-1]
            if tr.conn_lost_scheduled:
                return "silent"
            tr.lose(make_exc(a[1]))
            return "lost:" + (a[1] or "none")
        if k == "wfail":
            # what a dead transport raises from write(): OSError, or RuntimeError (uvloop's closed handle, asyncio's write after
            # write_eof), or the reset subclass; the kind rotates deterministically so that the stories meet all of them
            self.wfail_count = getattr(self, "wfail_count", 0) + (1 if a[1] else 0)
            kinds = [OSError("write failed"), RuntimeError("unable to perform operation on <TCPTransport closed=True>; the handler is closed"),
                     ConnectionResetError("reset")]
            self.net.write_raises = kinds[(self.wfail_count + len(self.steps)) % 3] if a[1] else None
            for tr in self.net.transports:
                tr.write_raises = self.net.write_raises
            return f"wfail:{int(a[1])}"
        if k == "adv":
            self.loop._vt = max(self.loop._vt, a[1] / 1024.0)
            return f"adv:{a[1]}"
        raise ValueError(a)

    def _pred(self, p):
        if p == "any":
            return None
        kind, v = p.split("=")
        v = int(v)
        if kind == "is":
            return lambda m: simnet.msg_type_id(m) == v
        if kind == "not":
            return lambda m: simnet.msg_type_id(m) != v
        return lambda m: msg_tag(m) == v

    def inject(self, a, hops=0):
        """Schedule action a through `hops` nested call_soon hops (runs as its own loop callback)."""
        def fire():
            self.cur_action_label = self.act(a)
        self.injected[fire] = True
        if hops == 0:
            self.loop.call_soon(fire)
        else:
            def hop(n):
                if n == 0:
                    self.loop.call_soon(fire)
                else:
                    self.loop.call_soon(hop, n - 1)
            self.injected[hop] = True
            self.loop.call_soon(hop, hops - 1)

    # SimNet: writes go into the unified event log
    def hook_transport(self, tr):
        tr.write_raises = getattr(self.net, "write_raises", None)
        orig = tr.write

        def write(data):
            orig(data)
            if not tr.closing:
                try:
                    tys = [str(t) for t, _ in simnet.decode_plain_stream(bytes(data))]
                except Exception:
                    tys = ["?"]
                self.events.append("W" + ".".join(tys))
        tr.write = write


async def run_scenario(loop, scenario, **kw):
    """scenario: list of actions; ('drain',) runs the loop until quiescent; ('adv_next',) jumps to the next timer;
    ('hop', n, action) injects through n call_soon hops; any other action is performed in a driver step."""
    tr = Trace(loop, **kw)
    tr.driver_task = asyncio.current_task()
    tr.net.on_transport = tr.hook_transport

    def audit():
        from aioesphomeapi.connection import ConnectionState as S
        timers = [name for _, name in loop.armed_timers()]
        pending = sorted(tid for t, tid in tr.tasks.items() if not t.done())
        tr.audits.append((len(tr.steps), tr.conn.connection_state is S.CLOSED, timers, pending))

    with tr.net.patched():
        # the step of the driver that created the trace began before the loop hooks were installed: start the scenario in a fresh step
        await asyncio.sleep(0)
        for a in scenario:
            if a[0] == "drain":
                await simnet.drain(loop)
                audit()
            elif a[0] == "adv_next":
                nt = loop.next_timer()
                due_pending = any(isinstance(h, asyncio.TimerHandle) and not h._cancelled for h in loop._ready)
                if nt is not None and not due_pending:
                    tr.cur_action_label = tr.act(("adv", round(nt * 1024)))
                    await asyncio.sleep(0)
            elif a[0] == "hop":
                tr.inject(a[2], a[1])
            else:
                tr.cur_action_label = tr.act(a)
                await asyncio.sleep(0)
        await simnet.drain(loop)
        audit()
    # outcomes of the tasks as they stand when the story ends (the runner cancels leftovers afterwards)
    tr.task_outcomes = {}
    for t, tid in tr.tasks.items():
        if not t.done():
            tr.task_outcomes[tid] = ("pending",)
        elif t.cancelled():
            tr.task_outcomes[tid] = ("cancelled",)
        elif t.exception() is not None:
            tr.task_outcomes[tid] = ("err", exc_name(t.exception()), t.exception())
        else:
            tr.task_outcomes[tid] = ("ok", t.result())
    loop.before_callback = loop.after_callback = None
    # cancel leftovers quietly
    return tr
