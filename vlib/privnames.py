"""Private attribute names of the implementation that the harnesses project its state through.

A clean-up may rename them.  The names the harnesses use are those of the pinned tree; private_baseline.json records, per class,
the ordered list of attribute names of that tree (the `__slots__` tuple, or the `self.x = ...` assignments of `__init__` in order).
When a name is gone, the attribute standing at the same position of the same list in the current tree - provided it is a name
the baseline did not have - is taken to be its new name; failing that, the one attribute whose name ends with the old name.
Anything else is an AttributeError: the correspondence cannot be run and the check reports no-failing-input-found."""
from __future__ import annotations

import ast
import inspect
import json
import textwrap
from pathlib import Path

BASELINE_FILE = Path(__file__).with_name("private_baseline.json")
_BASE = None
_CACHE: dict = {}
RENAMED: dict = {}          # (class name, old name) -> new name, for the evidence file


def own_names(cls) -> list:
    """Ordered attribute names a class declares itself: __slots__, else the attributes assigned in its __init__."""
    slots = cls.__dict__.get("__slots__")
    if slots is not None:
        return [slots] if isinstance(slots, str) else list(slots)
    init = cls.__dict__.get("__init__")
    if init is None:
        return []
    try:
        tree = ast.parse(textwrap.dedent(inspect.getsource(init)))
    except (OSError, TypeError, SyntaxError):
        return []
    names = []
    for node in ast.walk(tree):
        tgt = None
        if isinstance(node, ast.Assign) and len(node.targets) == 1:
            tgt = node.targets[0]
        elif isinstance(node, ast.AnnAssign):
            tgt = node.target
        if isinstance(tgt, ast.Attribute) and isinstance(tgt.value, ast.Name) and tgt.value.id == "self" and tgt.attr not in names:
            names.append((getattr(node, "lineno", 0), tgt.attr))
    return [n for _, n in sorted(set(names))]


def own_methods(cls) -> list:
    """Names of the functions a class defines itself, in definition order."""
    return [n for n, v in cls.__dict__.items()
            if not (n.startswith("__") and n.endswith("__")) and (callable(v) or isinstance(v, (staticmethod, classmethod, property)))]


def baseline() -> dict:
    global _BASE
    if _BASE is None:
        _BASE = json.loads(BASELINE_FILE.read_text()) if BASELINE_FILE.exists() else {}
    return _BASE


def resolve(obj, name: str) -> str:
    if hasattr(obj, name):
        return name
    key = (type(obj).__name__, name)
    if key in _CACHE:
        return _CACHE[key]
    found = None
    for k in type(obj).__mro__:
        for suffix, lister in (("", own_names), ("#methods", own_methods)):
            base = baseline().get(f"{k.__module__}.{k.__qualname__}{suffix}")
            if base and name in base:
                cur = lister(k)
                if len(cur) == len(base):
                    cand = cur[base.index(name)]
                    if cand not in base and hasattr(obj, cand):
                        found = cand
                break
        if found is not None:
            break
    if found is None:
        stem = name.strip("_")
        names = [n for k in type(obj).__mro__ for n in own_names(k)] + list(getattr(obj, "__dict__", {}))
        cands = sorted({n for n in names if n.strip("_").endswith(stem) and hasattr(obj, n)})
        if len(cands) != 1:
            cands = sorted({n for n in names if stem in n and hasattr(obj, n)})
        if len(cands) == 1:
            found = cands[0]
    if found is None:
        raise AttributeError(f"{type(obj).__name__} has no attribute {name} and no renamed counterpart could be identified")
    _CACHE[key] = found
    RENAMED[f"{type(obj).__name__}.{name}"] = found
    return found


def priv(obj, name: str):
    return getattr(obj, resolve(obj, name))


def has_priv(obj, name: str) -> bool:
    try:
        resolve(obj, name)
        return True
    except AttributeError:
        return False


def set_priv(obj, name: str, value) -> None:
    setattr(obj, resolve(obj, name), value)


def module_funcs(mod) -> list:
    """Names of the functions a module defines itself, in definition order."""
    import types
    return [n for n, v in vars(mod).items() if isinstance(v, types.FunctionType) and getattr(v, "__module__", None) == mod.__name__]


def priv_func(mod, name: str):
    """A private module-level function, followed through a rename by its position among the module's functions."""
    if hasattr(mod, name):
        return getattr(mod, name)
    base = baseline().get(f"module:{mod.__name__}")
    if base and name in base:
        cur = module_funcs(mod)
        if len(cur) == len(base):
            cand = cur[base.index(name)]
            if cand not in base:
                RENAMED[f"{mod.__name__}.{name}"] = cand
                return getattr(mod, cand)
    raise AttributeError(f"module {mod.__name__} has no function {name} and no renamed counterpart could be identified")
