"""Noise session cases for C03/C04: an honest device stream built by the independent responder, byte-level tampering,
chunking, the run on the real APINoiseFrameHelper, and the symbolic twin of the same bytes for Model/NoiseFrame.v."""
from __future__ import annotations

import random

from . import noisesim
from .noisesim import SYM_POISON, SYM_HS_RESP, SYM_HS_INIT, DIR_S2C, sym_ct, sym_text, frame

PSK = bytes(range(7, 39))


class Stream:
    """Device stream as a list of frames: each {'real': bytes, 'sym': [elems], 'kind': hello|hs|data, 'msg': (ty, payload)|None}."""

    def __init__(self, name: bytes | None, msgs, psk=PSK, client_psk=None, hello_body=None, mac=True):
        self.name, self.msgs = name, msgs
        self.resp = noisesim.Responder(psk, name)
        self.frames = []
        self.client_psk = client_psk or psk
        self.hello_body = hello_body

    def build(self, client_hs_msg: bytes):
        body = self.hello_body if self.hello_body is not None else (b"\x01" + ((self.name + b"\0") if self.name is not None else b""))
        f = frame(body)
        self.frames.append({"real": f, "sym": list(f), "kind": "hello", "msg": None})
        try:
            hsf, resp_msg = self.resp.handshake_frames(client_hs_msg)
            self.frames.append({"real": hsf, "sym": list(hsf[:4]) + [SYM_HS_RESP] * (len(hsf) - 4), "kind": "hs", "msg": None})
        except Exception:
            # the device holds a different key: it answers with the error frame
            body = b"\x01Handshake MAC failure"
            hsf = frame(body)
            self.frames.append({"real": hsf, "sym": list(hsf), "kind": "hs_err", "msg": None})
            return
        for ty, pl in self.msgs:
            fr, (n, pt, ct) = self.resp.data_frame(ty, pl)
            self.frames.append({"real": fr, "sym": list(fr[:3]) + sym_ct(DIR_S2C, n, pt), "kind": "data", "msg": (ty, pl)})


def poison_frame(fr, real):
    """A frame whose bytes were altered (real given): header bytes stay literal, an altered body no longer authenticates."""
    out = dict(fr)
    out["real"] = real
    if fr["kind"] == "data":
        out["sym"] = list(real[:3]) + [SYM_POISON] * (len(real) - 3)
    elif fr["kind"] == "hs":
        out["sym"] = list(real[:4]) + [SYM_POISON] * (len(real) - 4)
    else:
        out["sym"] = list(real)
    out["tampered"] = True
    return out


def cut(seq, points):
    out, prev = [], 0
    for p in sorted(points):
        out.append(seq[prev:p])
        prev = p
    out.append(seq[prev:])
    return out


def chunkings(rng, n, mode):
    if mode == "one" or n == 0:
        return []
    if mode == "bytes":
        return list(range(1, n))
    if mode == "frames":
        return None
    k = rng.randrange(1, 7)
    return sorted(rng.randrange(0, n + 1) for _ in range(k))


class Session:
    """A fresh real helper (with its own ephemeral key) whose handshake message the device stream is built from."""

    def __init__(self, expected_name, psk_b64=None):
        self.expected_name = expected_name
        self.sess = noisesim.ImplSession(psk_b64 or noisesim.b64(PSK), expected_name)
        self.sess.op("made")
        self.hello_write = self.sess.writes[0]
        self.client_hs = noisesim.split_frames(self.hello_write)[1][1:]

    def feed(self, frames, points, extra_ops=()):
        """Feed the stream (cut at `points`). Returns (model_line, impl_line, per_call_events, info)."""
        sess = self.sess
        real = b"".join(f["real"] for f in frames)
        sym = [e for f in frames for e in f["sym"]]
        assert len(real) == len(sym)
        rc, sc = cut(real, points), cut(sym, points)
        ops = ["made"]
        per = ["W:" + sym_text(list(self.hello_write[:7]) + [SYM_HS_INIT] * (len(self.hello_write) - 7))]
        calls = []
        fed = 0
        fmt = lambda evs: ",".join(e if isinstance(e, str) else "W:" + sym_text(list(e[1])) for e in evs)  # noqa: E731
        pos = 0
        for r, sy in zip(rc, sc):
            active = not sess.dead and noisesim.priv(sess.helper, "_transport") is not None
            evs = sess.op("data", r)
            pos += len(r)
            if active:
                fed = pos
            ops.append("data=" + sym_text(sy))
            calls.append(list(evs))
            per.append(fmt(evs))
        for o in extra_ops:
            evs = sess.op(*o)
            ops.append(o[0] if len(o) == 1 else f"{o[0]}={o[1]}")
            per.append(fmt(evs))
            calls.append(list(evs))
        st, buf, dn, en = sess.state()
        symbuf = sym[fed - len(buf):fed] if len(buf) else []
        impl_line = "|".join(per) + f" state={st} buf={sym_text(symbuf)} nonces={dn:x},{en:x}"
        en_txt = self.expected_name.encode().hex() if self.expected_name else "none"
        model_line = f"noise {en_txt} " + " ".join(ops)
        return model_line, impl_line, calls, {"state": st, "dead": sess.dead, "ready": sess.helper.ready_future}
