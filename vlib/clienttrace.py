"""Trace validation for Model/Client.v: like conntrace, but the scenario drives the real APIClient (which creates a new
APIConnection per attempt); the projection is the current connection's projection plus cl=<client._connection is not None>."""
from __future__ import annotations

from .privnames import priv, has_priv

import asyncio
from unittest.mock import patch

from . import conntrace, simnet
from .conntrace import Trace, exc_name

INIT_PROJ = "INIT,00,f=-,x=0,pp=0,ping=-,pong=-,sf=-,ff=-,h=0,s=0,w=0,os=1,H="


class ClientTrace(Trace):
    def __init__(self, loop, *, expected_name=None, keepalive_units=20480, scripts=None, password=None, user_hook=True):
        from aioesphomeapi.client import APIClient
        self.loop = loop
        self.net = simnet.Net(loop)
        self.net.connect_script = ["hang"] * 50
        self.net.resolve_script = ["hang"] * 50
        self.expected_name = expected_name
        self.scripts = scripts or {}
        self.events, self.labels, self.steps = [], [], []
        self.tasks, self.first_label, self.started = {}, {}, set()
        self.task_session = {}
        self.fut_cid, self.next_cid = {}, 0
        self.user_cbs, self.injected, self.problems = {}, {}, []
        self.cur_label = None
        self.cur_action_label = None
        self.task_done_seen = set()
        self.driver_task = None
        self.audits = []
        self.conns = []
        self.session = 0
        self.cli = APIClient("10.0.0.1", 6053, password, keepalive=keepalive_units / 1024.0, expected_name=expected_name)
        self.user_stops = []
        self.established = set()
        self.user_hook = user_hook      # start_connection(on_stop=...) given by the caller or left None
        loop.before_callback = self._before
        loop.after_callback = self._after
        loop.set_exception_handler(self._loop_exc)

    @property
    def conn(self):
        return self.conns[-1] if self.conns else None

    def make_conn(self, *a, **kw):
        from aioesphomeapi.connection import APIConnection
        a = list(a)
        orig = a[1]

        def on_stop_hook(expected):
            self.events.append(f"STOP{int(bool(expected))}")
            return orig(expected)
        a[1] = on_stop_hook
        c = APIConnection(*a, **kw)
        self.conns.append(c)
        self.session += 1
        # bookkeeping of the previous connection object is over
        self.fut_cid, self.next_cid = {}, 0
        for t, tid in self.tasks.items():
            if tid == "S" and not t.done() and t not in self.task_session:
                self.task_session[t] = self.session
        return c

    async def _user_on_stop(self, expected):
        self.user_stops.append(expected)

    def projection(self):
        base = INIT_PROJ if self.conn is None else Trace.projection(self)
        return base + f",cl={int(priv(self.cli, "_connection") is not None)}"

    def _before(self, handle):
        Trace._before(self, handle)
        cb = handle._callback
        owner = getattr(cb, "__self__", None)
        # callbacks of tasks that belong to an earlier connection object are not labels of the current one
        if isinstance(owner, asyncio.Task) and owner in self.task_session and self.task_session[owner] != self.session \
                and self.cur_label and self.cur_label.startswith("wake:"):
            self.cur_label = "silent"
        # disconnect() on a client that holds no connection returns at once: not a task of the model
        if self.cur_label == "cdisc" and isinstance(owner, asyncio.Task):
            self.tasks[owner] = "NOOP" if priv(self.cli, "_connection") is None else "D"
        # so are callbacks of an earlier connection's transport
        if self.cur_label in ("clost", "made") and getattr(owner, "session", self.session) != self.session:
            self.cur_label = "silent"

    def _after(self, handle):
        # which connection objects ever were CONNECTED (for C07: the user's stop callback belongs to those only)
        for cn in self.conns:
            if cn.is_connected:
                self.established.add(id(cn))
        label = self.cur_label
        if label is None:
            return
        # client-level outcomes that are not connection tasks
        for t, tid in list(self.tasks.items()):
            if t.done() and t not in self.task_done_seen and not t.cancelled() and t.exception() is not None:
                msg = str(t.exception())
                if tid == "S" and msg.startswith("Already connected"):
                    self.events.append("XALREADY")
                    self.task_done_seen.add(t)
                    del self.tasks[t]
                elif tid == "C?" and (msg.startswith("Not connected") or msg.startswith("Authenticated connection not ready")):
                    self.events.append("XNC" if msg.startswith("Not connected") else "XNR")
                    self.task_done_seen.add(t)
                    del self.tasks[t]
                    self.next_cid_skip = True
                elif tid == "F" and isinstance(t.exception(), RuntimeError):
                    self.events.append("XRT")
                    self.task_done_seen.add(t)
                    del self.tasks[t]
            elif t.done() and t not in self.task_done_seen and tid in ("FORCE", "NOOP"):
                self.task_done_seen.add(t)
                del self.tasks[t]
        if self.conn is None:
            # nothing of a connection exists yet
            self.cur_label = None
            lab = label if label not in ("@driver", "@injected") else (self.cur_action_label or "silent")
            self.steps.append((lab, self.projection(), list(self.events)))
            self.events = []
            return
        n = self.next_cid
        Trace._after(self, handle)
        if getattr(self, "next_cid_skip", False):
            self.next_cid = n          # refused by the client before reaching the connection: no call id consumed
            self.next_cid_skip = False

    def hook_transport(self, tr):
        tr.session = self.session
        Trace.hook_transport(self, tr)

    def act(self, a):
        k = a[0]
        cli = self.cli
        if k == "start":
            if any(tid == "S" and not t.done() for t, tid in self.tasks.items()):
                return "silent"
            # sequential use only: a new attempt while a coroutine of the previous connection object has not returned yet
            # (the client would accept it; what the late coroutine then does to the new attempt is outside the model, see DESIGN.md F13)
            if any(not t.done() for t, tid in self.tasks.items() if tid not in ("NOOP", "FORCE")):
                if priv(cli, "_connection") is None:
                    self.overlap_skipped = getattr(self, "overlap_skipped", 0) + 1
                    return "silent"
                # the client holds a connection: the refusal is raised before the first await, probe it synchronously
                coro = cli.start_connection(on_stop=self._user_on_stop if self.user_hook else None)
                try:
                    coro.send(None)
                except Exception as e:  # noqa
                    self.events.append("XALREADY" if str(e).startswith("Already connected") else "X" + exc_name(e))
                else:
                    self.events.append("X?accepted")
                finally:
                    coro.close()
                return "cstart"
            for t in [t for t in self.tasks if t.done()]:
                del self.tasks[t]
            t = self.loop.create_task(cli.start_connection(on_stop=self._user_on_stop if self.user_hook else None))
            self.tasks[t] = "S"
            self.first_label[t] = "cstart"
            return None
        if k == "finish":
            from aioesphomeapi.connection import ConnectionState as S
            if priv(cli, "_connection") is None or any(tid == "F" and not t.done() for t, tid in self.tasks.items()) \
                    or priv(cli, "_connection").connection_state is not S.SOCKET_OPENED:
                return "silent"
            t = self.loop.create_task(cli.finish_connection(login=bool(a[1])))
            self.tasks[t] = "F"
            self.task_session[t] = self.session
            self.first_label[t] = f"cfinish:{int(a[1])}"
            return None
        if k == "disc":
            if any(tid == "D" and not t.done() for t, tid in self.tasks.items()):
                return "silent"
            t = self.loop.create_task(cli.disconnect())
            self.tasks[t] = "D" if priv(cli, "_connection") is not None else "NOOP"
            self.task_session[t] = self.session
            self.first_label[t] = "cdisc"
            return None
        if k == "force":
            t = self.loop.create_task(cli.disconnect(force=True))
            self.tasks[t] = "FORCE"
            self.first_label[t] = "cforce"
            return None
        if k == "cmd":
            from aioesphomeapi.core import APIConnectionError
            try:
                cli.switch_command(5, True)
            except APIConnectionError as e:
                m = str(e)
                self.events.append("XNC" if m.startswith("Not connected") else "XNR" if m.startswith("Authenticated connection not ready") else "X" + exc_name(e))
            except Exception as e:  # noqa
                self.events.append("X" + exc_name(e))
            return "ccmd"
        if k == "req":
            t = self.loop.create_task(cli.device_info())
            self.tasks[t] = "C?"
            self.task_session[t] = self.session
            self.first_label[t] = "call:9:10:any:any:10240"
            return None
        if k in ("send", "call", "sub", "unsub"):
            raise ValueError("connection-level action in a client story: " + k)
        if self.conn is None and k in ("cancel",):
            pass
        return Trace.act(self, a)


async def run_scenario(loop, scenario, **kw):
    tr = ClientTrace(loop, **kw)
    tr.driver_task = asyncio.current_task()
    tr.net.on_transport = tr.hook_transport
    probes = []

    def audit():
        from aioesphomeapi.connection import ConnectionState as S
        timers = [name for _, name in loop.armed_timers()]
        pending = sorted(tid for t, tid in tr.tasks.items() if not t.done())
        closed = tr.conn is None or tr.conn.connection_state is S.CLOSED
        tr.audits.append((len(tr.steps), closed, timers, pending, priv(tr.cli, "_connection") is not None))

    with tr.net.patched(), patch("aioesphomeapi.client.APIConnection", tr.make_conn):
        await asyncio.sleep(0)      # see conntrace.run_scenario
        for a in scenario:
            if a[0] == "drain":
                await simnet.drain(loop)
                audit()
            elif a[0] == "adv_next":
                nt = loop.next_timer()
                due_pending = any(isinstance(h, asyncio.TimerHandle) and not h._cancelled for h in loop._ready)
                if nt is not None and not due_pending and tr.conn is not None:
                    tr.cur_action_label = tr.act(("adv", round(nt * 1024)))
                    await asyncio.sleep(0)
            elif a[0] == "hop":
                tr.inject(a[2], a[1])
            else:
                tr.cur_action_label = tr.act(a)
                await asyncio.sleep(0)
        await simnet.drain(loop)
        audit()
        tr.task_outcomes = {}
        for t, tid in tr.tasks.items():
            tr.task_outcomes[tid] = ("pending",) if not t.done() else ("cancelled",) if t.cancelled() else \
                ("err", exc_name(t.exception()), t.exception()) if t.exception() is not None else ("ok", t.result())
        # final probe on the real client: does it accept a new attempt exactly when nothing is alive or in progress?
        from aioesphomeapi.connection import ConnectionState as S
        from aioesphomeapi.core import APIConnectionError, ResolveAPIError
        busy = any(not t.done() for t in tr.tasks) or (tr.conn is not None and priv(tr.cli, "_connection") is tr.conn and tr.conn.connection_state is not S.CLOSED)
        loop.before_callback = loop.after_callback = None
        tr.net.resolve_script = [ResolveAPIError("probe")]
        writes_before = sum(len(t.writes) for t in tr.net.transports)
        try:
            tr.cli.switch_command(5, True)
            cmd = "ok"
        except APIConnectionError:
            cmd = "refused"
        except Exception as e:  # noqa
            cmd = "raw:" + type(e).__name__
        wrote = sum(len(t.writes) for t in tr.net.transports) - writes_before
        alive = tr.conn is not None and priv(tr.cli, "_connection") is tr.conn and tr.conn.connection_state is S.CONNECTED
        # a connection object that is still open although the client no longer refers to it
        open_unreferenced = tr.conn is not None and priv(tr.cli, "_connection") is not tr.conn and tr.conn.connection_state is not S.CLOSED
        try:
            await tr.cli.start_connection()
            probe = "accepted"
        except ResolveAPIError:
            probe = "accepted"
        except APIConnectionError as e:
            probe = "already" if str(e).startswith("Already connected") else "error:" + str(e)[:40]
        tr.final_probe = dict(busy=busy, probe=probe, cmd=cmd, wrote=wrote, alive=alive, open_unreferenced=open_unreferenced)
    return tr
