"""Timeouts and ratios (module-level literals, Python ast) -> coq/Generated/GenConstants.v
Time unit of the models: 1/1024 s (every constant must be exactly representable)."""
import ast
import re
from fractions import Fraction

from .util import PKG, TranslationError, coq_Z, write

UNITS = 1024

WANTED = {
    "connection.py": ["KEEP_ALIVE_TIMEOUT_RATIO", "DISCONNECT_CONNECT_TIMEOUT", "DISCONNECT_RESPONSE_TIMEOUT",
                      "HANDSHAKE_TIMEOUT", "RESOLVE_TIMEOUT", "CONNECT_REQUEST_TIMEOUT", "TCP_CONNECT_TIMEOUT"],
    "client.py": ["KEEP_ALIVE_FREQUENCY", "DEFAULT_BLE_TIMEOUT", "DEFAULT_BLE_DISCONNECT_TIMEOUT"],
    "reconnect_logic.py": ["EXPECTED_DISCONNECT_COOLDOWN", "MAXIMUM_BACKOFF_TRIES"],
}


def literal(node, where):
    if isinstance(node, ast.Constant) and type(node.value) in (int, float):
        return Fraction(repr(node.value))
    raise TranslationError(f"{where}: not a numeric literal: {ast.unparse(node)}")


def module_consts(tree, fname):
    """Module-level names bound (plain or annotated assignment) to a numeric literal; a name bound twice is an error when used."""
    consts, twice, seen = {}, set(), set()
    for node in tree.body:
        tgt = None
        if isinstance(node, ast.Assign) and len(node.targets) == 1 and isinstance(node.targets[0], ast.Name):
            tgt, val = node.targets[0].id, node.value
        elif isinstance(node, ast.AnnAssign) and isinstance(node.target, ast.Name) and node.value is not None:
            tgt, val = node.target.id, node.value
        if tgt is None:
            continue
        if tgt in seen:
            twice.add(tgt)
            consts.pop(tgt, None)
        elif isinstance(val, ast.Constant) and type(val.value) in (int, float):
            consts[tgt] = Fraction(repr(val.value))
        seen.add(tgt)
    return consts, twice


def extract():
    out = {}
    for fname, names in WANTED.items():
        tree = ast.parse((PKG / fname).read_text())
        consts, twice = module_consts(tree, fname)
        for n in names:
            if n in twice:
                raise TranslationError(f"{fname}: {n} assigned twice")
            if n not in consts:
                raise TranslationError(f"{fname}: constant {n} not found (or not a numeric literal)")
            out[n] = consts[n]
    # hello API version literal and the supported-major bound
    ctree = ast.parse((PKG / "connection.py").read_text())
    src = (PKG / "connection.py").read_text()
    cconsts, ctwice = module_consts(ctree, "connection.py")

    def clit(node, where):
        if isinstance(node, ast.Name):
            if node.id in ctwice:
                raise TranslationError(f"connection.py: {node.id} assigned twice")
            if node.id in cconsts:
                return cconsts[node.id]
        return literal(node, where)
    for node in ast.walk(ctree):
        if isinstance(node, ast.Compare) and ast.unparse(node.left) == "api_version.major" and len(node.ops) == 1 and isinstance(node.ops[0], ast.Gt):
            if "MAX_SUPPORTED_MAJOR" in out:
                raise TranslationError("connection.py: api_version.major compared twice")
            out["MAX_SUPPORTED_MAJOR"] = clit(node.comparators[0], "api_version.major >")
        if isinstance(node, ast.Call) and ast.unparse(node.func) == "HelloRequest":
            for k in node.keywords:
                if k.arg == "api_version_major":
                    out["HELLO_API_MAJOR"] = clit(k.value, "hello major")
                if k.arg == "api_version_minor":
                    out["HELLO_API_MINOR"] = clit(k.value, "hello minor")
    for k in ("MAX_SUPPORTED_MAJOR", "HELLO_API_MAJOR", "HELLO_API_MINOR"):
        if k not in out:
            raise TranslationError(f"connection.py: {k} not found")
    # the back-off expression of reconnect_logic.py: E = min(self._tries, CAP); ... int(round(min(BASE ** E, MAX))) ...
    # (BASE, MAX, CAP numeric literals or module-level names bound once to numeric literals)
    rtree = ast.parse((PKG / "reconnect_logic.py").read_text())
    rconsts = {}
    for node in rtree.body:
        tgt = None
        if isinstance(node, ast.Assign) and len(node.targets) == 1 and isinstance(node.targets[0], ast.Name):
            tgt, val = node.targets[0].id, node.value
        elif isinstance(node, ast.AnnAssign) and isinstance(node.target, ast.Name) and node.value is not None:
            tgt, val = node.target.id, node.value
        if tgt is not None and isinstance(val, ast.Constant) and type(val.value) in (int, float):
            if tgt in rconsts:
                raise TranslationError(f"reconnect_logic.py: {tgt} assigned twice")
            rconsts[tgt] = Fraction(repr(val.value))

    def rlit(node, where):
        if isinstance(node, ast.Name) and node.id in rconsts:
            return rconsts[node.id]
        return literal(node, where)

    def is_call(node, name, nargs):
        return isinstance(node, ast.Call) and isinstance(node.func, ast.Name) and node.func.id == name \
            and len(node.args) == nargs and not node.keywords

    exps = []
    for node in ast.walk(rtree):
        if is_call(node, "int", 1) and is_call(node.args[0], "round", 1) and is_call(node.args[0].args[0], "min", 2):
            pw, mx = node.args[0].args[0].args
            if isinstance(pw, ast.BinOp) and isinstance(pw.op, ast.Pow) and isinstance(pw.right, ast.Name):
                exps.append((pw.left, pw.right.id, mx))
    if len(exps) != 1:
        raise TranslationError(f"reconnect_logic.py: expected exactly one back-off expression int(round(min(B ** e, M))), found {len(exps)}")
    base, expname, mx = exps[0]
    out["BACKOFF_BASE"] = rlit(base, "back-off base")
    out["BACKOFF_MAX"] = rlit(mx, "back-off maximum")
    caps = []
    for node in ast.walk(rtree):
        val = None
        if isinstance(node, ast.Assign) and len(node.targets) == 1 and isinstance(node.targets[0], ast.Name) \
                and node.targets[0].id == expname:
            val = node.value
        elif isinstance(node, ast.AnnAssign) and isinstance(node.target, ast.Name) and node.target.id == expname and node.value is not None:
            val = node.value
        if val is not None:
            if is_call(val, "min", 2) and ast.unparse(val.args[0]) == "self._tries":
                caps.append(rlit(val.args[1], "min(self._tries, .)"))
            else:
                raise TranslationError(f"reconnect_logic.py: back-off exponent {expname} is not min(self._tries, CAP): {ast.unparse(val)}")
    if len(caps) != 1:
        raise TranslationError(f"reconnect_logic.py: back-off exponent {expname} assigned {len(caps)} times")
    out["BACKOFF_TRIES_CAP"] = caps[0]
    # Bluetooth device request types and the feature bit consulted by bluetooth_device_connect (enum members, introspected)
    from aioesphomeapi import model as _model
    for member in ("CONNECT", "DISCONNECT", "PAIR", "UNPAIR", "CONNECT_V3_WITH_CACHE", "CONNECT_V3_WITHOUT_CACHE", "CLEAR_CACHE"):
        out["BLE_REQ_" + member] = Fraction(int(getattr(_model.BluetoothDeviceRequestType, member)))
    out["BLE_FEATURE_REMOTE_CACHING"] = Fraction(int(_model.BluetoothProxyFeature.REMOTE_CACHING))
    # default time-outs of the BLE handle operations: the public start-notify method, and the private helper every handle
    # operation goes through (recognised by its parameters: address, handle, a request, a response type and a timeout)
    ctree2 = ast.parse((PKG / "client.py").read_text())
    ccls = next(n for n in ctree2.body if isinstance(n, ast.ClassDef) and n.name == "APIClient")

    def timeout_default(fn):
        names = [a.arg for a in fn.args.args]
        if "timeout" not in names:
            return None
        d = fn.args.defaults[names.index("timeout") - (len(names) - len(fn.args.defaults))] if names.index("timeout") >= len(names) - len(fn.args.defaults) else None
        return d
    notify = [n for n in ccls.body if isinstance(n, ast.AsyncFunctionDef) and n.name == "bluetooth_gatt_start_notify"]
    helpers = [n for n in ccls.body if isinstance(n, ast.AsyncFunctionDef) and n.name.startswith("_")
               and [a.arg for a in n.args.args][:3] == ["self", "address", "handle"] and "response_type" in [a.arg for a in n.args.args]
               and "timeout" in [a.arg for a in n.args.args]]
    if len(notify) != 1 or len(helpers) != 1 or timeout_default(notify[0]) is None or timeout_default(helpers[0]) is None:
        raise TranslationError("client.py: default timeouts of the BLE handle operations not found")

    class _M:     # keeps the shape the code below expects
        def __init__(self, node):
            self.v = literal(node, "BLE default timeout")

        def group(self, _):
            return str(self.v)
    m, m2 = _M(timeout_default(notify[0])), _M(timeout_default(helpers[0]))
    out["BLE_NOTIFY_TIMEOUT"] = Fraction(m.group(1))
    out["BLE_HANDLE_TIMEOUT"] = Fraction(m2.group(1))
    for k in ("BACKOFF_TRIES_CAP", "BACKOFF_BASE", "BACKOFF_MAX"):
        if k not in out:
            raise TranslationError(f"reconnect_logic.py: {k} not found")
    # the keep-alive timeout must be interval * ratio, the default interval must be KEEP_ALIVE_FREQUENCY
    if "self._keep_alive_timeout = keepalive * KEEP_ALIVE_TIMEOUT_RATIO" not in src:
        raise TranslationError("connection.py: keep alive timeout is not keepalive * KEEP_ALIVE_TIMEOUT_RATIO")
    return out


TIMES = ["DISCONNECT_CONNECT_TIMEOUT", "DISCONNECT_RESPONSE_TIMEOUT", "HANDSHAKE_TIMEOUT", "RESOLVE_TIMEOUT",
         "CONNECT_REQUEST_TIMEOUT", "TCP_CONNECT_TIMEOUT", "KEEP_ALIVE_FREQUENCY", "DEFAULT_BLE_TIMEOUT",
         "DEFAULT_BLE_DISCONNECT_TIMEOUT", "EXPECTED_DISCONNECT_COOLDOWN", "BLE_NOTIFY_TIMEOUT", "BLE_HANDLE_TIMEOUT"]


def generate():
    c = extract()
    body = "\nOpen Scope Z_scope.\n(* time unit: 1/1024 s *)\nDefinition UNITS_PER_SECOND : Z := 1024.\n"
    for n in TIMES:
        v = c[n] * UNITS
        if v.denominator != 1:
            raise TranslationError(f"{n} = {c[n]} s is not a multiple of 1/1024 s")
        body += f"Definition {n} : Z := {coq_Z(v.numerator)}.\n"
    r = c["KEEP_ALIVE_TIMEOUT_RATIO"]
    body += f"Definition KEEP_ALIVE_RATIO_NUM : Z := {coq_Z(r.numerator)}.\nDefinition KEEP_ALIVE_RATIO_DEN : Z := {coq_Z(r.denominator)}.\n"
    body += f"Definition BACKOFF_BASE_NUM : Z := {coq_Z(c['BACKOFF_BASE'].numerator)}.\nDefinition BACKOFF_BASE_DEN : Z := {coq_Z(c['BACKOFF_BASE'].denominator)}.\n"
    ints = ["BACKOFF_TRIES_CAP", "BACKOFF_MAX", "MAXIMUM_BACKOFF_TRIES", "MAX_SUPPORTED_MAJOR", "HELLO_API_MAJOR", "HELLO_API_MINOR"]
    ints += sorted(k for k in c if k.startswith("BLE_REQ_")) + ["BLE_FEATURE_REMOTE_CACHING"]
    for n in ints:
        if c[n].denominator != 1:
            raise TranslationError(f"{n} is not an integer")
        body += f"Definition {n} : Z := {coq_Z(c[n].numerator)}.\n"
    return write("GenConstants", "aioesphomeapi/connection.py, client.py, reconnect_logic.py", body)
