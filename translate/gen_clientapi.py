"""client.py / connection.py public entry points -> coq/Generated/GenClientAPI.v

A small flow-insensitive abstract interpretation over the Python ast computes, for every
public APIClient method (with its self._helper callees and nested closures) and for
APIConnection as a whole, the set of api_pb2 classes whose *instances* can reach a send
sink and the set of classes that can reach a subscribe (msg_types) sink.  It is an
over-approximation, validated dynamically by the API sweep of check C13 (observed is a
subset of translated).  Fail-closed: a sink whose argument evaluates to nothing raises."""
import ast

from .util import PKG, TranslationError, coq_list, coq_string, write

# sink name -> (positions of sent-message args, positions of msg-type args)
SINKS = {
    "send_message": ([0], []),
    "send_messages": ([0], []),
    "send_message_callback_response": ([0], [2]),
    "add_message_callback": ([], [1]),
    "_add_message_callback_without_remove": ([], [1]),
    "send_messages_await_response_complex": ([0], [3]),
    "send_message_await_response": ([0], [1]),
}
SINK_KW = {"send_msg": "sent", "msgs": "sent", "messages": "sent", "msg": "sent",
           "msg_types": "types", "response_type": "types"}


class Val:
    __slots__ = ("inst", "refs")

    def __init__(self, inst=(), refs=()):
        self.inst, self.refs = set(inst), set(refs)

    def __or__(self, o):
        return Val(self.inst | o.inst, self.refs | o.refs)

    def key(self):
        return (frozenset(self.inst), frozenset(self.refs))


def pb_imports(tree):
    names = {}
    for node in tree.body:
        if isinstance(node, ast.ImportFrom) and node.module == "api_pb2" and node.level == 1:
            for a in node.names:
                names[a.asname or a.name] = a.name
    return names


def dict_keys_of(module_file, var, pb):
    """Keys (api_pb2 class names) of a module-level dict literal in another module."""
    tree = ast.parse((PKG / module_file).read_text())
    imp = pb_imports(tree)
    for node in tree.body:
        tgt = None
        if isinstance(node, ast.Assign) and isinstance(node.targets[0], ast.Name):
            tgt, val = node.targets[0].id, node.value
        elif isinstance(node, ast.AnnAssign) and isinstance(node.target, ast.Name):
            tgt, val = node.target.id, node.value
        if tgt == var:
            if not isinstance(val, ast.Dict):
                raise TranslationError(f"{var} in {module_file} is not a dict literal")
            out = set()
            for k in val.keys:
                if not isinstance(k, ast.Name) or k.id not in imp:
                    raise TranslationError(f"key of {var} is not an api_pb2 class: {ast.dump(k)}")
                out.add(imp[k.id])
            return out
    raise TranslationError(f"{var} not found in {module_file}")


class Analyzer:
    def __init__(self, filename, classname):
        self.tree = ast.parse((PKG / filename).read_text())
        self.filename = filename
        self.pb = pb_imports(self.tree)
        self.module_consts = {}
        self.module_funcs = {}
        self.ext_consts = {}
        self.sinking_classes = set()
        for node in self.tree.body:
            if isinstance(node, ast.Assign) and len(node.targets) == 1 and isinstance(node.targets[0], ast.Name):
                self.module_consts[node.targets[0].id] = node.value
            elif isinstance(node, ast.AnnAssign) and isinstance(node.target, ast.Name) and node.value is not None:
                self.module_consts[node.target.id] = node.value
            elif isinstance(node, (ast.FunctionDef, ast.AsyncFunctionDef)):
                self.module_funcs[node.name] = node
            elif isinstance(node, ast.ImportFrom) and node.module == "model_conversions":
                for a in node.names:
                    self.ext_consts[a.asname or a.name] = Val(refs=dict_keys_of("model_conversions.py", a.name, self.pb))
            elif isinstance(node, ast.ClassDef) and node.name == classname:
                self.cls = node
            elif isinstance(node, ast.ClassDef):
                # a module-level helper class one of whose methods reaches a sink (e.g. a context manager that sends the request it
                # was given when its block ends): whatever message instance or class is handed to its constructor counts as sent /
                # subscribed by the caller (over-approximation)
                if any(isinstance(c, ast.Call) and isinstance(c.func, ast.Attribute) and c.func.attr in SINKS for c in ast.walk(node)):
                    self.sinking_classes.add(node.name)
        self.methods = {n.name: n for n in self.cls.body if isinstance(n, (ast.FunctionDef, ast.AsyncFunctionDef))}
        self.param_vals = {}     # (method, param) -> Val, union over call sites
        self.changed = True
        self.final = False

    # ---- abstract evaluation
    def local_assignments(self, fn):
        env = {}
        for node in ast.walk(fn):
            if isinstance(node, ast.Assign):
                for t in node.targets:
                    for nm in ast.walk(t):
                        if isinstance(nm, ast.Name):
                            env.setdefault(nm.id, []).append(node.value)
            elif isinstance(node, ast.AnnAssign) and isinstance(node.target, ast.Name) and node.value is not None:
                env.setdefault(node.target.id, []).append(node.value)
            elif isinstance(node, ast.Call) and isinstance(node.func, ast.Attribute) and \
                    node.func.attr in ("append", "extend") and isinstance(node.func.value, ast.Name):
                env.setdefault(node.func.value.id, []).extend(node.args)
            elif isinstance(node, ast.NamedExpr):
                env.setdefault(node.target.id, []).append(node.value)
            elif isinstance(node, (ast.For, ast.AsyncFor, ast.comprehension)):
                # a loop variable stands for anything inside the iterable (over-approximation, flow-insensitive)
                for nm in ast.walk(node.target):
                    if isinstance(nm, ast.Name):
                        env.setdefault(nm.id, []).append(node.iter)
        return env

    def ev(self, e, fn, env, depth=0):
        if depth > 12 or e is None:
            return Val()
        if isinstance(e, ast.Name):
            if e.id in self.pb:
                return Val(refs={self.pb[e.id]})
            v = Val()
            if e.id in env:
                for x in env[e.id]:
                    v |= x if isinstance(x, Val) else self.ev(x, fn, env, depth + 1)
            v |= self.param_vals.get((fn.name, e.id), Val())
            if e.id in self.module_consts and e.id not in env:
                v |= self.ev(self.module_consts[e.id], fn, {}, depth + 1)
            if e.id in self.ext_consts:
                v |= self.ext_consts[e.id]
            if e.id in self.module_funcs and e.id not in env:
                # a reference to a module function stands for what it returns (over-approximation)
                mf = self.module_funcs[e.id]
                for r in ast.walk(mf):
                    if isinstance(r, ast.Return):
                        v |= self.ev(r.value, mf, self.local_assignments(mf), depth + 1)
            return v
        if isinstance(e, ast.Call):
            f = e.func
            if isinstance(f, ast.Name) and f.id in self.pb:
                return Val(inst={self.pb[f.id]})
            if isinstance(f, ast.Name) and f.id in self.module_funcs:
                # a module-level helper: what it returns, with its parameters standing for what this call passes (over-approximation:
                # every return statement, flow-insensitive)
                v = Val()
                mf = self.module_funcs[f.id]
                env_mf = self.local_assignments(mf)
                params = [a.arg for a in mf.args.posonlyargs + mf.args.args] + [a.arg for a in mf.args.kwonlyargs]
                for i, a in enumerate(e.args):
                    if i < len(params) and not isinstance(a, ast.Starred):
                        env_mf.setdefault(params[i], []).append(self.ev(a, fn, env, depth + 1))
                for k in e.keywords:
                    if k.arg in params:
                        env_mf.setdefault(k.arg, []).append(self.ev(k.value, fn, env, depth + 1))
                for r in ast.walk(mf):
                    if isinstance(r, ast.Return):
                        v |= self.ev(r.value, mf, env_mf, depth + 1)
                return v
            if isinstance(f, ast.Name) and f.id in self.module_consts:
                # alias of a (cached) module function, e.g. make_hello_request = lru_cache(...)(f)
                return self.ev(self.module_consts[f.id], fn, {}, depth + 1) | Val()
            if isinstance(f, ast.Attribute) and isinstance(f.value, ast.Name) and f.value.id == "self" \
                    and f.attr in self.methods:
                self.bind(f.attr, e)
                v = Val()
                m = self.methods[f.attr]
                for r in ast.walk(m):
                    if isinstance(r, ast.Return):
                        v |= self.ev(r.value, m, self.local_assignments(m), depth + 1)
                return v
            # calling a class reference held in a variable constructs an instance
            if isinstance(f, ast.Name):
                fv = self.ev(f, fn, env, depth + 1)
                if fv.refs:
                    return Val(inst=fv.refs)
            v = Val()
            for a in e.args:
                v |= self.ev(a, fn, env, depth + 1)
            for k in e.keywords:
                v |= self.ev(k.value, fn, env, depth + 1)
            if isinstance(f, ast.Call):
                v |= self.ev(f, fn, env, depth + 1)
            return v
        if isinstance(e, (ast.Tuple, ast.List, ast.Set)):
            v = Val()
            for x in e.elts:
                v |= self.ev(x, fn, env, depth + 1)
            return v
        if isinstance(e, ast.Starred):
            return self.ev(e.value, fn, env, depth + 1)
        if isinstance(e, ast.BinOp):
            return self.ev(e.left, fn, env, depth + 1) | self.ev(e.right, fn, env, depth + 1)
        if isinstance(e, ast.IfExp):
            return self.ev(e.body, fn, env, depth + 1) | self.ev(e.orelse, fn, env, depth + 1)
        if isinstance(e, ast.Await):
            return self.ev(e.value, fn, env, depth + 1)
        if isinstance(e, ast.NamedExpr):
            return self.ev(e.value, fn, env, depth + 1)
        if isinstance(e, (ast.ListComp, ast.GeneratorExp)):
            return self.ev(e.elt, fn, env, depth + 1)
        return Val()

    def bind(self, mname, call):
        m = self.methods[mname]
        params = [a.arg for a in m.args.args][1:] + [a.arg for a in m.args.kwonlyargs]
        caller = self._cur
        env = self._cur_env
        for i, a in enumerate(call.args):
            if i < len(params):
                self._join((mname, params[i]), self.ev(a, caller, env))
        for k in call.keywords:
            if k.arg:
                self._join((mname, k.arg), self.ev(k.value, caller, env))

    def _join(self, key, v):
        old = self.param_vals.get(key, Val())
        new = old | v
        if new.key() != old.key():
            self.param_vals[key] = new
            self.changed = True

    # ---- per-method sinks and callees
    def scan(self, mname):
        m = self.methods[mname]
        self._cur, self._cur_env = m, self.local_assignments(m)
        sent, types, callees = set(), set(), set()
        for node in ast.walk(m):
            if isinstance(node, ast.Call) and isinstance(node.func, ast.Name) and node.func.id in self.sinking_classes:
                for a in list(node.args) + [k.value for k in node.keywords]:
                    v = self.ev(a, m, self._cur_env)
                    sent.update(v.inst)
                    types.update(v.refs)
            if not isinstance(node, ast.Call) or not isinstance(node.func, ast.Attribute):
                continue
            attr = node.func.attr
            if isinstance(node.func.value, ast.Name) and node.func.value.id == "self" and attr in self.methods:
                callees.add(attr)
                self.bind(attr, node)
            if attr in SINKS and mname not in SINKS:
                spos, tpos = SINKS[attr]
                for kind, positions in (("sent", spos), ("types", tpos)):
                    for p in positions:
                        arg = node.args[p] if p < len(node.args) else None
                        if arg is None:
                            for k in node.keywords:
                                if SINK_KW.get(k.arg) == kind:
                                    arg = k.value
                        if arg is None:
                            raise TranslationError(f"{self.filename}:{node.lineno}: sink {attr} misses its {kind} argument")
                        v = self.ev(arg, m, self._cur_env)
                        got = v.inst if kind == "sent" else v.refs
                        if not got and self.final:
                            raise TranslationError(
                                f"{self.filename}:{node.lineno}: cannot determine the message classes reaching "
                                f"{attr}({kind}) from {ast.unparse(arg)}")
                        (sent if kind == "sent" else types).update(got)
        # references to bound methods passed as callbacks (self._helper without call) also count as callees
        for node in ast.walk(m):
            if isinstance(node, ast.Attribute) and isinstance(node.value, ast.Name) and node.value.id == "self" \
                    and node.attr in self.methods and node.attr != mname:
                callees.add(node.attr)
        return sent, types, callees

    def analyse(self):
        info = {}
        rounds = 0
        while self.changed:
            self.changed = False
            rounds += 1
            if rounds > 20:
                raise TranslationError("parameter binding did not converge")
            info = {m: self.scan(m) for m in self.methods}
        self.final = True
        info = {m: self.scan(m) for m in self.methods}
        return info


def closure(info, root):
    seen, todo = set(), [root]
    sent, types = set(), set()
    while todo:
        m = todo.pop()
        if m in seen:
            continue
        seen.add(m)
        s, t, c = info[m]
        sent |= s
        types |= t
        todo.extend(c)
    return sent, types


def extract():
    out = []
    a = Analyzer("client.py", "APIClient")
    info = a.analyse()
    for m in a.methods:
        if m.startswith("_"):
            continue
        s, t = closure(info, m)
        if s or t:
            out.append((f"APIClient.{m}", sorted(s), sorted(t)))
    c = Analyzer("connection.py", "APIConnection")
    cinfo = c.analyse()
    s, t = set(), set()
    for m in c.methods:
        s |= cinfo[m][0]
        t |= cinfo[m][1]
    out.append(("APIConnection", sorted(s), sorted(t)))
    # every api_pb2 class imported by client.py must be accounted for by some entry point or be
    # a class only used in isinstance/type() tests; report unused ones so the sweep can cross-check
    used = set()
    for _, s1, t1 in out:
        used |= set(s1) | set(t1)
    unaccounted = sorted(set(a.pb.values()) - used)
    return out, unaccounted


def generate():
    entries, unaccounted = extract()
    body = "\n(* entry point, classes whose instances it may send, classes it may subscribe to *)\n"
    body += "Definition client_api : list (string * list string * list string) := " + coq_list(
        f"({coq_string(n)}, {coq_list(map(coq_string, s), per_line=0)}, {coq_list(map(coq_string, t), per_line=0)})"
        for n, s, t in entries) + ".\n\n"
    body += "(* api_pb2 classes imported by client.py that reach no sink (used in type tests only) *)\n"
    body += "Definition client_unaccounted : list string := " + coq_list(map(coq_string, unaccounted), per_line=0) + ".\n"
    return write("GenClientAPI", "aioesphomeapi/client.py, connection.py", body)
