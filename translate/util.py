"""Helpers shared by the translators (emit Coq text from raw strings, fail closed)."""
import os
from pathlib import Path

REPO = Path(os.environ.get("VERIF_REPO", "/repo"))
PKG = REPO / "aioesphomeapi"
GEN = Path(__file__).resolve().parent.parent / "coq" / "Generated"


class TranslationError(Exception):
    """Source construct outside the closed grammar a translator understands."""


def coq_string(s: str) -> str:
    if not all(32 <= ord(c) < 127 for c in s):
        raise TranslationError(f"non-ASCII string {s!r}")
    return '"' + s.replace('"', '""') + '"'


def coq_list(items, per_line=1, indent="  "):
    items = list(items)
    if not items:
        return "[]"
    if per_line == 1:
        return "[\n" + ";\n".join(indent + i for i in items) + "\n]"
    return "[" + "; ".join(items) + "]"


def coq_N(i: int) -> str:
    if i < 0:
        raise TranslationError(f"negative N {i}")
    return f"{i}%N"


def coq_Z(i: int) -> str:
    return f"({i})%Z"


def coq_bool(b: bool) -> str:
    return "true" if b else "false"


HEADER = """(* GENERATED on every run by /verif/translate/{name}.py from {src} — do not edit. *)
From Coq Require Import NArith ZArith String List.
Import ListNotations.
Open Scope string_scope.
"""


def write(name: str, src: str, body: str) -> bool:
    GEN.mkdir(parents=True, exist_ok=True)
    path = GEN / f"{name}.v"
    content = HEADER.format(name=name, src=src) + body
    if path.exists() and path.read_text() == content:
        return False
    path.write_text(content)
    return True
