"""client.py entity command methods (Python ast, closed grammar, fail-closed) -> coq/Generated/GenCommands.v: a small
loop-free command IR per method, plus the field lists (with has_* flags) of the request messages from the descriptors."""
import ast
import re

from .util import PKG, TranslationError, coq_Z, coq_list, coq_string, write

COMMANDS = ["cover_command", "fan_command", "light_command", "switch_command", "climate_command", "number_command",
            "date_command", "time_command", "datetime_command", "select_command", "siren_command", "button_command",
            "lock_command", "valve_command", "media_player_command", "text_command", "update_command", "alarm_control_panel_command"]


def err(node, what):
    raise TranslationError(f"client.py:{getattr(node, 'lineno', '?')}: {what}: {ast.unparse(node)[:80]}")


class Cmd:
    def __init__(self, name, params, msg, init, body):
        self.name, self.params, self.msg, self.init, self.body = name, params, msg, init, body


def expr(node, params):
    """-> IR expr text"""
    if isinstance(node, ast.Name) and node.id in params:
        return f"(EParam {coq_string(node.id)})"
    if isinstance(node, ast.Constant) and isinstance(node.value, bool):
        return f"(EConstB {'true' if node.value else 'false'})"
    if isinstance(node, ast.Subscript) and isinstance(node.value, ast.Name) and node.value.id in params \
            and isinstance(node.slice, ast.Constant) and type(node.slice.value) is int and 0 <= node.slice.value < 8:
        return f"(EIndex {coq_string(node.value.id)} {node.slice.value})"
    # int(round(p * 1000))
    if isinstance(node, ast.Call) and isinstance(node.func, ast.Name) and node.func.id == "int" and len(node.args) == 1 and not node.keywords:
        inner = node.args[0]
        if isinstance(inner, ast.Call) and isinstance(inner.func, ast.Name) and inner.func.id == "round" and len(inner.args) == 1 and not inner.keywords:
            m = inner.args[0]
            if isinstance(m, ast.BinOp) and isinstance(m.op, ast.Mult) and isinstance(m.left, ast.Name) and m.left.id in params \
                    and isinstance(m.right, ast.Constant) and m.right.value == 1000 and type(m.right.value) is int:
                return f"(ERoundMs {coq_string(m.left.id)})"
    # Enum.MEMBER
    if isinstance(node, ast.Attribute) and isinstance(node.value, ast.Name) and node.value.id[0].isupper():
        return f"(EEnum {coq_string(node.value.id)} {coq_string(node.attr)})"
    # p == Enum.MEMBER
    if isinstance(node, ast.Compare) and len(node.ops) == 1 and isinstance(node.ops[0], ast.Eq) and isinstance(node.left, ast.Name) \
            and node.left.id in params and isinstance(node.comparators[0], ast.Attribute) and isinstance(node.comparators[0].value, ast.Name):
        c = node.comparators[0]
        return f"(EEqEnum {coq_string(node.left.id)} {coq_string(c.value.id)} {coq_string(c.attr)})"
    err(node, "expression outside the command grammar")


def cond(node, params):
    if isinstance(node, ast.Compare) and len(node.ops) == 1 and len(node.comparators) == 1:
        l, op, r = node.left, node.ops[0], node.comparators[0]
        if isinstance(op, ast.IsNot) and isinstance(l, ast.Name) and l.id in params and isinstance(r, ast.Constant) and r.value is None:
            return f"(CNotNone {coq_string(l.id)})"
        if isinstance(l, ast.Name) and l.id in APIV_NAMES and isinstance(r, ast.Call) and isinstance(r.func, ast.Name) and r.func.id == "APIVersion" \
                and len(r.args) == 2 and all(isinstance(a, ast.Constant) and type(a.value) is int for a in r.args):
            a, b = r.args[0].value, r.args[1].value
            if isinstance(op, ast.GtE):
                return f"(CApiGe {a} {b})"
            if isinstance(op, ast.Lt):
                return f"(CApiLt {a} {b})"
        if isinstance(op, ast.Eq) and isinstance(l, ast.Name) and l.id in params and isinstance(r, ast.Constant) and type(r.value) is float \
                and r.value in (0.0, 1.0):
            return f"(CEqFloat {coq_string(l.id)} {int(r.value)})"
    if isinstance(node, ast.Name) and node.id in params:
        return f"(CTruthy {coq_string(node.id)})"
    err(node, "condition outside the command grammar")


def lower_if(test, then_k, else_k, params, ctx):
    """One `if` of the source as IR statements.  `and` / `or` / `not` are written out with the IR's single-condition SIf
    (conditions are pure functions of the arguments and the API version, which do not change during the call, so the nested form
    is the short-circuit evaluation: A and B -> if A then (if B then T else E) else E, ...), and a condition that is already
    decided on the current path (the same test occurred in an enclosing `if`) selects its branch at once.
    then_k / else_k produce the branch bodies for a given path context (set of conditions known true, set known false)."""
    true, false = ctx
    if isinstance(test, ast.BoolOp) and isinstance(test.op, ast.And):
        rest = test.values[1:]
        inner = (lambda c: lower_if(rest[0] if len(rest) == 1 else ast.BoolOp(op=ast.And(), values=rest), then_k, else_k, params, c))
        return lower_if(test.values[0], inner, else_k, params, ctx)
    if isinstance(test, ast.BoolOp) and isinstance(test.op, ast.Or):
        rest = test.values[1:]
        inner = (lambda c: lower_if(rest[0] if len(rest) == 1 else ast.BoolOp(op=ast.Or(), values=rest), then_k, else_k, params, c))
        return lower_if(test.values[0], then_k, inner, params, ctx)
    if isinstance(test, ast.UnaryOp) and isinstance(test.op, ast.Not):
        return lower_if(test.operand, else_k, then_k, params, ctx)
    c = cond(test, params)
    if c in true:
        return then_k(ctx)
    if c in false:
        return else_k(ctx)
    th = then_k((true | {c}, false))
    el = else_k((true, false | {c}))
    return [f"SIf {c} {coq_list(th, per_line=8)} {coq_list(el, per_line=8)}"]


def stmts(nodes, params, msgvar, ctx=(frozenset(), frozenset())):
    out = []
    for n in nodes:
        if isinstance(n, ast.If):
            # `if TYPE_CHECKING: assert ...` carries no behaviour
            if isinstance(n.test, ast.Name) and n.test.id == "TYPE_CHECKING" and all(isinstance(x, ast.Assert) for x in n.body) and not n.orelse:
                continue
            out.extend(lower_if(n.test, lambda c, n=n: stmts(n.body, params, msgvar, c), lambda c, n=n: stmts(n.orelse, params, msgvar, c), params, ctx))
        elif isinstance(n, ast.Assign) and len(n.targets) == 1 and isinstance(n.targets[0], ast.Attribute) \
                and isinstance(n.targets[0].value, ast.Name) and n.targets[0].value.id == msgvar:
            out.append(f"SAssign {coq_string(n.targets[0].attr)} {expr(n.value, params)}")
        elif isinstance(n, ast.Assign) and len(n.targets) == 1 and isinstance(n.targets[0], ast.Name) and n.targets[0].id in APIV_NAMES \
                and ast.unparse(n.value) == "self.api_version":
            continue
        else:
            err(n, "statement outside the command grammar")
    return out


def ctor(call, params):
    if not (isinstance(call, ast.Call) and isinstance(call.func, ast.Name) and call.func.id.endswith("Request") and not call.args):
        err(call, "request construction outside the command grammar")
    return call.func.id, [f"SAssign {coq_string(k.arg)} {expr(k.value, params)}" for k in call.keywords]


APIV_NAMES = set()      # local names of the method being translated that are bound (only) to self.api_version


def translate_method(fn):
    args = fn.args
    APIV_NAMES.clear()
    bound = {}
    for n in ast.walk(fn):
        if isinstance(n, ast.Assign):
            for t in n.targets:
                for nm in ast.walk(t):
                    if isinstance(nm, ast.Name):
                        bound.setdefault(nm.id, []).append(ast.unparse(n.value))
        elif isinstance(n, (ast.AnnAssign, ast.AugAssign, ast.NamedExpr)) and isinstance(n.target, ast.Name):
            bound.setdefault(n.target.id, []).append("?")
    APIV_NAMES.update(k for k, v in bound.items() if set(v) == {"self.api_version"})
    if args.vararg or args.kwarg or args.posonlyargs:
        err(fn, "unsupported signature")
    params = [a.arg for a in args.args[1:] + args.kwonlyargs]
    body = [n for n in fn.body if not (isinstance(n, ast.Expr) and isinstance(n.value, ast.Constant))]
    msg, init, rest, msgvar, sent = None, [], [], None, False
    connvar = None
    for i, n in enumerate(body):
        src = ast.unparse(n)
        m_acc = re.fullmatch(r"(\w+) = self\.(_\w+)\(\)", src)
        if m_acc and connvar is None and m_acc.group(2) in ACCESSORS:
            # the client's private accessor of the live connection, whatever it is called
            connvar = m_acc.group(1)
            continue
        if src in [f"{a} = self.api_version" for a in APIV_NAMES]:
            continue
        if isinstance(n, ast.If) and isinstance(n.test, ast.Name) and n.test.id == "TYPE_CHECKING":
            continue
        if isinstance(n, ast.Assign) and len(n.targets) == 1 and isinstance(n.targets[0], ast.Name) and isinstance(n.value, ast.Call) \
                and isinstance(n.value.func, ast.Name) and n.value.func.id.endswith("Request"):
            if msg is not None:
                err(n, "second request object")
            msgvar = n.targets[0].id
            msg, init = ctor(n.value, params)
            continue
        if isinstance(n, ast.Expr) and isinstance(n.value, ast.Call) and (
                ast.unparse(n.value.func) == f"{connvar}.send_message"
                or any(ast.unparse(n.value.func) == f"self.{a}().send_message" for a in ACCESSORS)):
            if i != len(body) - 1 or len(n.value.args) != 1 or n.value.keywords:
                err(n, "send_message is not the last statement / unexpected arguments")
            a = n.value.args[0]
            if isinstance(a, ast.Name) and a.id == msgvar:
                pass
            elif msg is None:
                msg, init = ctor(a, params)
            else:
                err(n, "sends something else than the request built")
            sent = True
            continue
        if msgvar is None:
            err(n, "statement before the request object exists")
        rest += stmts([n], params, msgvar)
    if not sent or msg is None:
        err(fn, "method does not end by sending its request")
    optional = []
    defaults = dict(zip([a.arg for a in args.args][len(args.args) - len(args.defaults):], args.defaults))
    defaults.update({a.arg: d for a, d in zip(args.kwonlyargs, args.kw_defaults) if d is not None})
    for p in params:
        d = defaults.get(p)
        if d is not None and isinstance(d, ast.Constant) and d.value is None:
            optional.append(p)
    return Cmd(fn.name, params, msg, init, rest), optional


ACCESSORS: set = set()


def find_accessors(cls):
    """Private methods of APIClient without parameters whose every `return` hands out one and the same attribute of self
    (the checked accessor of the live connection)."""
    out = set()
    for n in cls.body:
        if isinstance(n, ast.FunctionDef) and n.name.startswith("_") and len(n.args.args) == 1 and not n.args.kwonlyargs:
            rets = [r.value for r in ast.walk(n) if isinstance(r, ast.Return)]
            local = {t.id: ast.unparse(a.value) for a in ast.walk(n) if isinstance(a, ast.Assign) for t in a.targets if isinstance(t, ast.Name)}
            local.update({a.target.id: ast.unparse(a.value) for a in ast.walk(n)
                          if isinstance(a, ast.AnnAssign) and isinstance(a.target, ast.Name) and a.value is not None})
            vals = {local.get(r.id, r.id) if isinstance(r, ast.Name) else ast.unparse(r) for r in rets if r is not None}
            if rets and len(vals) == 1 and re.fullmatch(r"self\._\w+", next(iter(vals))):
                out.add(n.name)
    return out


def simple_const(val):
    """A module-level value that may be read as if it were written in place: a numeric / string literal or APIVersion(i, j)."""
    if isinstance(val, ast.Constant) and type(val.value) in (int, float, str):
        return True
    return isinstance(val, ast.Call) and isinstance(val.func, ast.Name) and val.func.id == "APIVersion" and not val.keywords \
        and len(val.args) == 2 and all(isinstance(a, ast.Constant) and type(a.value) is int for a in val.args)


class InlineConsts(ast.NodeTransformer):
    """Module-level names bound exactly once to a simple constant are replaced by that constant inside the command methods
    (a maintainer hoisting `APIVersion(1, 1)` or `1000` out of a method changes nothing the grammar cares about)."""
    def __init__(self, consts):
        self.consts = consts

    def visit_Name(self, node):
        if isinstance(node.ctx, ast.Load) and node.id in self.consts:
            return ast.copy_location(ast.parse(ast.unparse(self.consts[node.id]), mode="eval").body, node)
        return node


def module_simple_consts(tree):
    seen, consts = {}, {}
    for node in tree.body:
        tgt = None
        if isinstance(node, ast.Assign) and len(node.targets) == 1 and isinstance(node.targets[0], ast.Name):
            tgt, val = node.targets[0].id, node.value
        elif isinstance(node, ast.AnnAssign) and isinstance(node.target, ast.Name) and node.value is not None:
            tgt, val = node.target.id, node.value
        if tgt is None:
            continue
        seen[tgt] = seen.get(tgt, 0) + 1
        if simple_const(val):
            consts[tgt] = val
    return {k: v for k, v in consts.items() if seen[k] == 1}


def extract():
    tree = ast.parse((PKG / "client.py").read_text())
    cls = next(n for n in tree.body if isinstance(n, ast.ClassDef) and n.name == "APIClient")
    consts = module_simple_consts(tree)
    ACCESSORS.clear()
    ACCESSORS.update(find_accessors(cls))
    methods = {}
    for n in cls.body:
        if isinstance(n, ast.FunctionDef):
            local = {a.arg for a in n.args.args + n.args.kwonlyargs}
            for x in ast.walk(n):
                if isinstance(x, ast.Name) and isinstance(x.ctx, (ast.Store, ast.Del)):
                    local.add(x.id)
                elif isinstance(x, (ast.Global, ast.Nonlocal)):
                    local.update(x.names)
            usable = {k: v for k, v in consts.items() if k not in local}
            methods[n.name] = ast.fix_missing_locations(InlineConsts(usable).visit(n)) if n.name.endswith("_command") else n
    found = [n for n in methods if n.endswith("_command") and not n.startswith("_")]
    if sorted(found) != sorted(COMMANDS):
        raise TranslationError(f"command methods changed: {sorted(set(found) ^ set(COMMANDS))}")
    return [translate_method(methods[n]) for n in COMMANDS]


def message_fields():
    import importlib, sys
    from .util import REPO
    if str(REPO) not in sys.path:
        sys.path.insert(0, str(REPO))
    pb = importlib.import_module("aioesphomeapi.api_pb2")
    return pb


def generate():
    cmds = extract()
    pb = message_fields()
    body = "From Verif Require Import Model.CommandIR.\n\n"
    items = []
    for c, optional in cmds:
        d = getattr(pb, c.msg).DESCRIPTOR
        fields = coq_list((coq_string(f.name) for f in d.fields), per_line=10)
        items.append(f"mkCmd {coq_string(c.name)} {coq_string(c.msg)} {coq_list((coq_string(p) for p in c.params), per_line=10)} "
                     f"{coq_list((coq_string(p) for p in optional), per_line=10)}\n    {fields}\n    {coq_list(c.init, per_line=8)}\n    {coq_list(c.body)}")
    body += "Definition commands : list cmd := " + coq_list(items) + ".\n"
    return write("GenCommands", "aioesphomeapi/client.py (command methods), api_pb2 descriptors", body)
